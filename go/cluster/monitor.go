package verifcluster

// monitor.go: model-free monitors shared by the Cluster family.
//  - Oracle: per-blob history of write attempts (single writer) and the per-byte expectation
//    "latest acknowledged write covering the byte, unless a newer write to it was attempted".
//  - Frames: after every executed RPC the touched tractservers are re-dumped and the difference to
//    the previous dump must be explainable by that RPC alone (a write changes only its own range of
//    its own tract on its own server, SetVersion changes only the version, PullTract only the
//    destination replica and only to a copy of a source ...).

import (
	"fmt"
	"sort"

	"github.com/westerndigitalcorporation/blb/internal/core"
	"github.com/westerndigitalcorporation/blb/internal/tractserver"
)

const TractLen = int64(core.TractLength)

// Payload is the data of write 'wid': every byte identifies its write.
func Payload(wid int, n int) []byte {
	b := make([]byte, n)
	for i := range b {
		b[i] = byte(wid)
	}
	return b
}

const (
	WInflight = 0
	WAcked    = 1
	WFailed   = 2
)

// WriteRec is one write attempt of the single writer.
type WriteRec struct {
	Wid    int
	Off    int64
	Len    int
	Status int
	AckIdx int // 1-based position among acknowledged writes of the whole case (0 if not acked)
}

func (w *WriteRec) covers(p int64) bool { return p >= w.Off && p < w.Off+int64(w.Len) }

// Oracle is the history of one blob.
type Oracle struct {
	Blob   core.BlobID
	Writes []*WriteRec // attempt order
}

// Bad is one monitor finding.
type Bad struct {
	Sig    string
	What   string
	Detail map[string]interface{}
}

// Expect returns what byte p must read as for an observer that is guaranteed to see the first
// 'tau' acknowledged writes of the case: (value, true) if determined, (_, false) if the property
// leaves it open (a newer write to p was attempted, or only failed writes touched p).
// never = true if no write attempt ever covered p.
func (o *Oracle) Expect(p int64, tau int) (val byte, determined bool, never bool) {
	last := -1
	never = true
	for i, w := range o.Writes {
		if !w.covers(p) {
			continue
		}
		never = false
		if w.Status == WAcked && w.AckIdx <= tau {
			last = i
		}
	}
	if never {
		return 0, true, true
	}
	if last < 0 {
		return 0, false, false
	}
	for i := last + 1; i < len(o.Writes); i++ {
		if o.Writes[i].covers(p) {
			return 0, false, false
		}
	}
	return byte(o.Writes[last].Wid), true, false
}

// breakpoints of the history inside [lo,hi)
func (o *Oracle) cuts(lo, hi int64, extra []int64) []int64 {
	m := map[int64]bool{lo: true}
	add := func(x int64) {
		if x > lo && x < hi {
			m[x] = true
		}
	}
	for _, w := range o.Writes {
		add(w.Off)
		add(w.Off + int64(w.Len))
	}
	for _, x := range extra {
		add(x)
	}
	var out []int64
	for x := range m {
		out = append(out, x)
	}
	sort.Slice(out, func(i, j int) bool { return out[i] < out[j] })
	return out
}

// CheckRead judges a successful read of [off, off+reqLen) that returned data[:n] for an observer
// with guarantee level tau.  'who' goes into the signature (e.g. "writer", "reader", "replica").
func (o *Oracle) CheckRead(who string, off int64, reqLen int, data []byte, tau int) []Bad {
	var extra []int64
	// run boundaries of the returned data
	for i := 1; i < len(data); i++ {
		if data[i] != data[i-1] {
			extra = append(extra, off+int64(i))
		}
	}
	return o.check(who, off, int64(reqLen), int64(len(data)), func(p int64) byte { return data[p-off] }, extra, tau)
}

// CheckRuns is CheckRead for content given run-length encoded ((len, byte) pairs, as in a tractserver
// dump): the judgement is the same as for a read of [off, off+reqLen) that returned the decoded bytes.
func (o *Oracle) CheckRuns(who string, off int64, reqLen int64, runs []int64, tau int) []Bad {
	var starts []int64 // start position of every run, then the end of the data
	p := off
	for i := 0; i+1 < len(runs); i += 2 {
		starts = append(starts, p)
		p += runs[i]
	}
	n := p - off
	if n > reqLen {
		n = reqLen
	}
	at := func(q int64) byte {
		i := sort.Search(len(starts), func(i int) bool { return starts[i] > q }) - 1
		return byte(runs[2*i+1])
	}
	var extra []int64
	if len(starts) > 1 {
		extra = starts[1:]
	}
	return o.check(who, off, reqLen, n, at, extra, tau)
}

// check judges n returned bytes (read through 'at', absolute positions) of a request [off, off+reqLen);
// 'bounds' are the positions where the returned content changes value.
func (o *Oracle) check(who string, off, reqLen, n int64, at func(int64) byte, bounds []int64, tau int) []Bad {
	var bad []Bad
	hi := off + reqLen
	extra := append(append([]int64{}, bounds...), off+n)
	cuts := o.cuts(off, hi, extra)
	for _, s := range cuts {
		val, det, never := o.Expect(s, tau)
		returned := s < off+n
		if !det {
			continue
		}
		if never {
			if returned && at(s) != 0 {
				bad = append(bad, Bad{Sig: who + "-read-unwritten-byte-nonzero", What: "a byte no write ever covered reads as non-zero",
					Detail: map[string]interface{}{"pos": s, "got": at(s)}})
			}
			continue
		}
		if !returned {
			bad = append(bad, Bad{Sig: who + "-read-acked-write-missing-short", What: "a read ended before a byte of an acknowledged write (no newer attempt on it)",
				Detail: map[string]interface{}{"pos": s, "want": val, "returned": int(n), "off": off}})
			continue
		}
		if got := at(s); got != val {
			sig := who + "-read-acked-write-not-visible"
			if got != 0 && int(got) > int(val) {
				sig = who + "-read-sees-other-write"
			}
			bad = append(bad, Bad{Sig: sig, What: "a read returned a byte that is not the latest acknowledged write covering it (no newer attempt on it)",
				Detail: map[string]interface{}{"pos": s, "want": val, "got": got, "off": off, "tau": tau}})
		}
	}
	return bad
}

// Extent returns the end of the highest byte any attempt covered.
func (o *Oracle) Extent() int64 {
	var e int64
	for _, w := range o.Writes {
		if x := w.Off + int64(w.Len); x > e {
			e = x
		}
	}
	return e
}

// ---- frames ----

// Snap is the last known dump of every tractserver.
type Snap struct {
	TS map[int]map[core.TractID]tractserver.VerifReplica
}

func NewSnap() *Snap { return &Snap{TS: map[int]map[core.TractID]tractserver.VerifReplica{}} }

func dumpMap(ts *tractserver.VerifTS) map[core.TractID]tractserver.VerifReplica {
	m := map[core.TractID]tractserver.VerifReplica{}
	for _, r := range ts.Dump(nil) {
		m[r.ID] = r
	}
	return m
}

// Refresh re-dumps tractserver i and returns (before, after).
func (s *Snap) Refresh(cl *Cluster, i int) (before, after map[core.TractID]tractserver.VerifReplica) {
	before = s.TS[i]
	after = dumpMap(cl.TS[i])
	s.TS[i] = after
	return
}

func runsEqual(a, b []int64) bool {
	if len(a) != len(b) {
		return false
	}
	for i := range a {
		if a[i] != b[i] {
			return false
		}
	}
	return true
}

// ByteAt evaluates an RLE at position p (ok=false beyond the end).
func ByteAt(runs []int64, p int64) (byte, bool) {
	var pos int64
	for i := 0; i+1 < len(runs); i += 2 {
		if p < pos+runs[i] {
			return byte(runs[i+1]), true
		}
		pos += runs[i]
	}
	return 0, false
}

// writeFrameBreak returns a position outside [lo,hi) where 'after' is not what a write of [lo,hi)
// onto 'before' may produce (bytes that existed stay; the gap between the old end and lo is zero
// filled; nothing appears beyond hi).  -1 if none.
func writeFrameBreak(b, a []int64, lenB, lenA int, lo, hi int64) int64 {
	var cuts []int64
	var pos int64
	for i := 0; i+1 < len(a); i += 2 {
		cuts = append(cuts, pos)
		pos += a[i]
	}
	pos = 0
	for i := 0; i+1 < len(b); i += 2 {
		cuts = append(cuts, pos)
		pos += b[i]
	}
	cuts = append(cuts, int64(lenA), int64(lenB), lo, hi)
	sort.Slice(cuts, func(i, j int) bool { return cuts[i] < cuts[j] })
	for _, c := range cuts {
		if c >= lo && c < hi {
			continue
		}
		x, okx := ByteAt(b, c)
		y, oky := ByteAt(a, c)
		switch {
		case okx && (!oky || x != y):
			return c
		case !okx && oky && (c >= hi || y != 0):
			return c
		}
	}
	return -1
}

func replicaEqual(a, b tractserver.VerifReplica) bool {
	return a.HasVersion == b.HasVersion && a.Version == b.Version && a.Len == b.Len && runsEqual(a.Runs, b.Runs)
}

// CheckFrame explains the change of tractserver r.TS by the executed call r.  'snap' supplies the
// current dumps of the other servers (for PullTract sources).  Returns findings.
func CheckFrame(r *RPC, before, after map[core.TractID]tractserver.VerifReplica, snap *Snap) []Bad {
	var bad []Bad
	tid := core.TractID{Blob: core.BlobID(r.Blob), Index: core.TractKey(r.Tract)}
	ids := map[core.TractID]bool{}
	for id := range before {
		ids[id] = true
	}
	for id := range after {
		ids[id] = true
	}
	for id := range ids {
		b, okb := before[id]
		a, oka := after[id]
		if okb && oka && replicaEqual(a, b) {
			continue
		}
		det := map[string]interface{}{"rpc": r.String(), "tract": id.String(), "ts": r.TS}
		if okb {
			det["before"] = fmt.Sprintf("v%d len%d %v", b.Version, b.Len, b.Runs)
		}
		if oka {
			det["after"] = fmt.Sprintf("v%d len%d %v", a.Version, a.Len, a.Runs)
		}
		mutating := r.Kind == KWrite || r.Kind == KCreate || r.Kind == KSetVersion || r.Kind == KPullTract ||
			r.Kind == KGCTract || r.Kind == KPackTracts || r.Kind == KRSEncode
		if !mutating {
			bad = append(bad, Bad{Sig: "frame-readonly-rpc-changed-replica", What: "a read-only RPC changed a replica", Detail: det})
			continue
		}
		if (r.Kind == KWrite || r.Kind == KCreate || r.Kind == KSetVersion || r.Kind == KPullTract) && id != tid {
			bad = append(bad, Bad{Sig: "frame-" + r.Kind.String() + "-changed-other-tract", What: "an RPC changed a tract it does not name", Detail: det})
			continue
		}
		switch r.Kind {
		case KWrite, KCreate:
			if okb && !oka {
				bad = append(bad, Bad{Sig: "frame-write-removed-replica", What: "a client write/create removed a replica", Detail: det})
				continue
			}
			if !okb {
				if r.Kind == KWrite {
					bad = append(bad, Bad{Sig: "frame-write-created-replica", What: "a Write RPC created a replica", Detail: det})
					continue
				}
				b = tractserver.VerifReplica{ID: id, HasVersion: true, Version: a.Version}
			}
			if a.Version != b.Version || a.HasVersion != b.HasVersion {
				bad = append(bad, Bad{Sig: "frame-write-changed-version", What: "a client write/create changed a replica's version", Detail: det})
			}
			lo, hi := r.Off, r.Off+int64(r.Len)
			if a.Len < b.Len {
				bad = append(bad, Bad{Sig: "frame-write-shrank-replica", What: "a client write/create made a replica shorter (data outside its range lost)", Detail: det})
				continue
			}
			if p := writeFrameBreak(b.Runs, a.Runs, b.Len, a.Len, lo, hi); p >= 0 {
				det["pos"] = p
				bad = append(bad, Bad{Sig: "frame-write-changed-bytes-outside-range", What: "a client write/create changed bytes outside its own range", Detail: det})
			}
		case KSetVersion:
			if !okb || !oka {
				bad = append(bad, Bad{Sig: "frame-setversion-created-or-removed", What: "SetVersion created or removed a replica", Detail: det})
				continue
			}
			if a.Len != b.Len || !runsEqual(a.Runs, b.Runs) {
				bad = append(bad, Bad{Sig: "frame-setversion-changed-content", What: "SetVersion changed a replica's content", Detail: det})
			}
			if a.Version != r.Version || a.Version < b.Version {
				bad = append(bad, Bad{Sig: "frame-setversion-wrong-version", What: "SetVersion left a version that is neither the old nor the requested one", Detail: det})
			} else if a.Version > b.Version+1 {
				bad = append(bad, Bad{Sig: "frame-setversion-jumped", What: "SetVersion raised a version by more than one", Detail: det})
			}
		case KPullTract:
			if !oka {
				continue // a failed pull may have removed the local copy
			}
			if a.Version != r.Version {
				bad = append(bad, Bad{Sig: "frame-pull-wrong-version", What: "PullTract left a replica at a version other than the requested one", Detail: det})
			}
			if okb && a.Version < b.Version {
				bad = append(bad, Bad{Sig: "frame-pull-lowered-version", What: "PullTract replaced a replica by a copy with an older version", Detail: det})
			}
			// must be a copy of one of the sources as they are now
			match := false
			for _, src := range r.Aux[1:] {
				if s, ok := snap.TS[int(src)][id]; ok && s.Len == a.Len && runsEqual(s.Runs, a.Runs) {
					match = true
				}
			}
			if !match {
				bad = append(bad, Bad{Sig: "frame-pull-not-a-copy", What: "after PullTract the destination is not a copy of any named source", Detail: det})
			}
		}
	}
	return bad
}
