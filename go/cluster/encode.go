package verifcluster

// encode.go: turns the Driver's event log into the integer lines of the model trace
// (coq/theories/Cluster/Model.v, function step).  One Event becomes one main line followed by
// ISSUE lines (client RPCs that appeared), RPCDONE lines (long-running RPCs that completed) and
// FIN lines (activities that finished).

import (
	"sort"

	"github.com/westerndigitalcorporation/blb/internal/core"
	vw "github.com/westerndigitalcorporation/blb/pkg/verifwire"
)

func (d *Driver) descr(r *RPC) []int64 {
	blob := int64(d.blobIdx(r.Blob))
	l := []int64{int64(r.Kind), int64(r.Client), int64(r.Gen), int64(r.TS), blob, int64(r.Tract), int64(r.Version), r.Off, int64(r.Len), int64(r.Wid), int64(len(r.Aux))}
	return append(l, r.Aux...)
}

func encTracts(tis []core.TractInfo, sortHosts bool) []int64 {
	out := []int64{int64(len(tis))}
	for _, ti := range tis {
		out = append(out, int64(ti.Tract.Index), int64(ti.Version), int64(len(ti.TSIDs)))
		type hk struct{ h, k int64 }
		var hs []hk
		for i, id := range ti.TSIDs {
			k := int64(0)
			if i < len(ti.Hosts) && ti.Hosts[i] != "" {
				k = 1
			}
			hs = append(hs, hk{int64(id), k})
		}
		if sortHosts {
			sort.Slice(hs, func(i, j int) bool { return hs[i].h < hs[j].h })
		}
		for _, x := range hs {
			out = append(out, x.h, x.k)
		}
	}
	return out
}

// replyLine encodes the reply of an executed call: class :: payload.
func (d *Driver) replyLine(r *RPC) []int64 {
	switch v := r.Result.(type) {
	case core.Error:
		return []int64{int64(v)}
	case readReply:
		if v.Err != core.NoError && v.Err != core.ErrEOF {
			return []int64{int64(v.Err)}
		}
		out := []int64{int64(v.Err), int64(len(v.B))}
		return append(out, vw.RLE(v.B)...)
	case statReply:
		if v.Err != core.NoError {
			return []int64{int64(v.Err)}
		}
		return []int64{0, int64(v.Info.NumTracts)}
	case tractsReply:
		if v.Err != core.NoError {
			return []int64{int64(v.Err)}
		}
		if r.Kind == KGetTracts {
			acks, _ := r.Meta.(int)
			return append([]int64{0, int64(acks)}, encTracts(v.Tracts, true)...)
		}
		return append([]int64{0}, encTracts(v.Tracts, false)...)
	}
	return []int64{-9}
}

func (d *Driver) dumpSection(r *RPC) []int64 {
	if r.TS <= 0 {
		return nil
	}
	tid := core.TractID{Blob: core.BlobID(r.Blob), Index: core.TractKey(r.Tract)}
	rep, ok := d.Snap.TS[r.TS][tid]
	if !ok {
		return []int64{0}
	}
	out := []int64{1, int64(rep.Version), int64(rep.Len), int64(len(rep.Runs) / 2)}
	return append(out, rep.Runs...)
}

func (d *Driver) outSection(ev *Event) []int64 {
	var cur []*RPC
	for _, r := range ev.NewRPCs {
		if r.Client < 0 {
			cur = append(cur, r)
		}
	}
	out := []int64{int64(len(cur))}
	for _, r := range cur {
		out = append(out, d.descr(r)...)
	}
	return out
}

func (d *Driver) hint(ev *Event) []int64 {
	var h []int64
	if ev.RPC != nil && ev.RPC.Kind == KExtendBlob {
		if v, ok := ev.RPC.Result.(tractsReply); ok && v.Err == core.NoError && len(v.Tracts) > 0 {
			return encTracts(v.Tracts, false)
		}
		return nil
	}
	for _, r := range ev.NewRPCs {
		if r.Client < 0 && r.Kind == KPullTract {
			h = append(h, int64(r.TS))
		}
	}
	return h
}

// Lines returns the (op, obs) pairs of one event.
func (d *Driver) Lines(ev *Event) (ops [][]int64, obs [][]int64) {
	add := func(o, b []int64) {
		if b == nil {
			b = []int64{}
		}
		ops = append(ops, o)
		obs = append(obs, b)
	}
	hintSec := func() []int64 {
		h := d.hint(ev)
		out := append([]int64{int64(len(h))}, h...)
		out = append(out, int64(len(ev.DurAfter)))
		return append(out, ev.DurAfter...)
	}
	switch ev.Code {
	case EvInit, EvNewBlob, EvHeartbeat:
		add(append([]int64{int64(ev.Code)}, ev.Args...), nil)
	case EvStartWrite, EvStartRead:
		add(append([]int64{int64(ev.Code)}, ev.Args...), nil)
	case EvStartRepl, EvStartFix:
		add(append([]int64{int64(ev.Code)}, ev.Args...), d.outSection(ev))
	case EvStep:
		r := ev.RPC
		op := append([]int64{EvStep, int64(ev.Mode)}, d.descr(r)...)
		op = append(op, hintSec()...)
		var o []int64
		if ev.Mode == ModeCrash {
			o = append(o, 1) // what the dying server would have answered is not an observation
		} else if r.Execs > 0 && r.State >= StExecuted {
			o = append(o, 1)
			o = append(o, d.replyLine(r)...)
		} else {
			o = append(o, 0)
		}
		if r.Kind != KFixVersion {
			o = append(o, d.dumpSection(r)...)
		}
		o = append(o, d.outSection(ev)...)
		add(op, o)
	case EvReply:
		op := append([]int64{EvReply, ev.Args[0]}, d.descr(ev.RPC)...)
		op = append(op, hintSec()...)
		add(op, d.outSection(ev))
	case EvRestartTS:
		add([]int64{EvRestartTS, ev.Args[0]}, d.outSection(ev))
	case EvLeader:
		add([]int64{EvLeader}, nil)
	case EvProbe:
		add(append([]int64{EvProbe}, ev.Args...), ev.Obs)
	case EvInject:
		for _, r := range ev.NewRPCs {
			if r.Client < 0 {
				add(append([]int64{EvInject}, d.descr(r)...), nil)
			}
		}
	}
	for _, r := range ev.NewRPCs {
		if r.Client >= 0 {
			add(append([]int64{13}, d.descr(r)...), []int64{777, 1})
		}
	}
	for _, r := range ev.Resumed {
		if r.Client >= 0 && r.Kind == KFixVersion {
			c := int64(core.ErrRPC)
			if r.Delivered {
				if e, ok := r.Result.(core.Error); ok {
					c = int64(e)
				}
			}
			add(append([]int64{16}, d.descr(r)...), []int64{c})
		}
	}
	for _, f := range ev.Finished {
		switch f.Kind {
		case EvStartWrite:
			add([]int64{14, int64(f.Op.ID), int64(f.N), int64(f.Err), 0}, []int64{777, 1})
		case EvStartRead:
			l := []int64{14, int64(f.Op.ID), int64(f.N), int64(f.Err)}
			if f.Err == core.NoError || f.Err == core.ErrEOF {
				l = append(l, vw.RLE(f.Data[:f.N])...)
			} else {
				l = append(l, 0)
			}
			add(l, []int64{777, 1})
		case EvInject:
			// the probe's reply was compared at its step line
		default:
			add([]int64{15, int64(f.Op.ID)}, []int64{int64(f.Err)})
		}
	}
	return
}

// WriteTrace writes the whole case.
func (d *Driver) WriteTrace(tr *vw.Trace) {
	tr.Case(d.Case)
	for _, ev := range d.Events {
		ops, obs := ev.OpLines, ev.ObsLines
		for i := range ops {
			tr.Op(ops[i]...)
			tr.Obs(obs[i]...)
		}
	}
}
