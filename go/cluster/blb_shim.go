package blb

// Cluster-harness shim (overlay-only file; lives in /verif/go/cluster, injected as
// client/blb/zz_verif_cluster.go). Gives other packages a constructor for the real
// client wired to caller-supplied talkers, and a handle on a blob without the Open RPCs.

import (
	"context"

	"github.com/westerndigitalcorporation/blb/internal/core"
)

// VerifNewClient builds the REAL client (newBaseClient) on the given connections.
// Retries are disabled (one attempt per operation; the harness re-issues operations itself so
// that no wall-clock back-off is involved); the location caches are on iff useCache.
func VerifNewClient(master MasterConnection, ct CuratorTalker, tt TractserverTalker, useCache bool, instance string) *Client {
	options := Options{
		Cluster:      "verif",
		DisableRetry: true,
		DisableCache: !useCache,
		Instance:     instance,
	}
	cli := newBaseClient(&options)
	cli.master = master
	cli.curators = ct
	cli.tractservers = tt
	return cli
}

// VerifBlob returns a read/write handle on an existing blob without contacting anybody.
func VerifBlob(cli *Client, id core.BlobID) *Blob {
	return &Blob{cli: cli, id: id, allowRead: true, allowWrite: true, ctx: context.Background()}
}

// VerifCachedTracts returns what the client's tract cache currently holds for [start,end) of the blob.
func VerifCachedTracts(cli *Client, id core.BlobID, start, end int) ([]core.TractInfo, bool) {
	return cli.tractCache.get(id, start, end)
}

// VerifInvalidate drops the cached locations of a blob (what the client does itself on errors).
func VerifInvalidate(cli *Client, id core.BlobID) { cli.tractCache.invalidate(id) }
