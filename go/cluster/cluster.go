package verifcluster

// cluster.go: assembly of the in-process cluster (real Stores, real curator incarnations on one
// real durable state, real clients) and the talkers that route every RPC through the scheduler.

import (
	"context"
	"fmt"
	"os"
	"sort"
	"strconv"
	"time"

	"github.com/westerndigitalcorporation/blb/client/blb"
	"github.com/westerndigitalcorporation/blb/internal/core"
	"github.com/westerndigitalcorporation/blb/internal/curator"
	"github.com/westerndigitalcorporation/blb/internal/tractserver"
)

const CuratorAddr = "verif-curator-addr"

// Cluster is one in-process BLB cell.
type Cluster struct {
	S   *Sched
	TS  []*tractserver.VerifTS // index 0 unused; tractserver i has id i and address "ts<i>"
	D   *curator.VerifDurable
	Cur *curator.VerifCurator   // current leader incarnation
	Old []*curator.VerifCurator // previous incarnations (their tasks may still be running)
	Cli []*blb.Client
	Dir string

	clock   time.Time
	touched map[int]bool // tractservers whose Store ran an RPC since the last ClearTouched

	// NestedFail, if set, is consulted for every tractserver->tractserver read (PullTract source
	// reads); returning true makes that read fail with an RPC error without executing.
	NestedFail func(from, to int, id core.TractID, version int) bool
	// OnExec, if set, is called in the callee goroutine right before/after a callee runs.
	OnExec func(r *RPC, before bool)
}

func TSAddr(i int) string { return "ts" + strconv.Itoa(i) }
func TSIndex(addr string) int {
	if len(addr) > 2 && addr[:2] == "ts" {
		if n, err := strconv.Atoi(addr[2:]); err == nil {
			return n
		}
	}
	return 0
}

// NewCluster boots nTS tractservers, a curator group (leader incarnation 1 that has heard a
// heartbeat from every tractserver) and nClients clients (client 0 caches locations iff cache0, ...).
func NewCluster(nTS int, clientCache []bool) *Cluster {
	cl := &Cluster{S: NewSched(), clock: time.Unix(1_700_000_000, 0), touched: map[int]bool{}}
	base := ""
	if st, err := os.Stat("/dev/shm"); err == nil && st.IsDir() {
		base = "/dev/shm"
	}
	dir, err := os.MkdirTemp(base, "verifcluster")
	if err != nil {
		panic(err)
	}
	cl.Dir = dir
	cl.TS = make([]*tractserver.VerifTS, nTS+1)
	for i := 1; i <= nTS; i++ {
		cl.TS[i] = tractserver.VerifNewTS(core.TractserverID(i), &tsTalker{cl: cl, from: i})
	}
	cl.D = curator.VerifNewDurable(dir, cl.Now)
	cl.newIncarnation()
	cl.HeartbeatAll()
	for i, c := range clientCache {
		cl.AddClient(c, i)
	}
	return cl
}

// Close removes the on-disk state.  (Goroutines of the raft node and Stores are leaked; they idle.)
func (cl *Cluster) Close() { os.RemoveAll(cl.Dir) }

func (cl *Cluster) Now() time.Time { return cl.clock }

// Advance moves the curator's clock (tractserver health is judged against it).
func (cl *Cluster) Advance(d time.Duration) { cl.clock = cl.clock.Add(d) }

func (cl *Cluster) newIncarnation() {
	gen := len(cl.Old) + 1
	if cl.Cur != nil {
		cl.Old = append(cl.Old, cl.Cur)
		gen = cl.Cur.Gen + 1
	}
	cl.Cur = cl.D.NewCurator(gen, &curTalker{cl: cl, gen: gen})
}

// AddClient adds a real client.
func (cl *Cluster) AddClient(cache bool, idx int) *blb.Client {
	i := len(cl.Cli)
	c := blb.VerifNewClient(&masterConn{}, &cliCurTalker{cl: cl, client: i}, &cliTSTalker{cl: cl, client: i}, cache, fmt.Sprintf("verif%d", idx))
	cl.Cli = append(cl.Cli, c)
	return c
}

// Heartbeat delivers a heartbeat of tractserver i to the current leader incarnation.
func (cl *Cluster) Heartbeat(i int) {
	cl.Cur.Heartbeat(core.TractserverID(i), TSAddr(i), nil, nil)
}

func (cl *Cluster) HeartbeatAll() {
	for i := 1; i < len(cl.TS); i++ {
		cl.Heartbeat(i)
	}
}

// Incarnation returns the leader incarnation with the given generation number.
func (cl *Cluster) Incarnation(gen int) *curator.VerifCurator {
	if cl.Cur.Gen == gen {
		return cl.Cur
	}
	for _, c := range cl.Old {
		if c.Gen == gen {
			return c
		}
	}
	return nil
}

// SetEligible makes exactly the given tractservers (among those the incarnation already knows)
// report free space; the others report a full disk, so placement cannot pick them.  Placement in
// BLB iterates Go maps and draws from math/rand; restricting the candidates to exactly the number
// needed is how the harness keeps runs reproducible (load reports are environment inputs).
func (cl *Cluster) SetEligible(inc *curator.VerifCurator, elig map[int]bool) {
	for i := 1; i < len(cl.TS); i++ {
		if !inc.KnowsTS(core.TractserverID(i)) {
			continue
		}
		avail := uint64(0)
		if elig == nil || elig[i] {
			avail = 1 << 40
		}
		inc.HeartbeatLoad(core.TractserverID(i), TSAddr(i), avail)
	}
}

// sortTractHosts orders the replicas of every tract by tractserver id (order is irrelevant to the
// protocol; BLB's own order comes from map iteration).
func sortTractHosts(tis []core.TractInfo) []core.TractInfo {
	out := make([]core.TractInfo, len(tis))
	for k, ti := range tis {
		n := len(ti.TSIDs)
		idx := make([]int, n)
		for i := range idx {
			idx[i] = i
		}
		sort.Slice(idx, func(a, b int) bool { return ti.TSIDs[idx[a]] < ti.TSIDs[idx[b]] })
		c := ti
		c.TSIDs = make([]core.TractserverID, n)
		if len(ti.Hosts) == n {
			c.Hosts = make([]string, n)
		}
		for i, j := range idx {
			c.TSIDs[i] = ti.TSIDs[j]
			if len(ti.Hosts) == n {
				c.Hosts[i] = ti.Hosts[j]
			}
		}
		out[k] = c
	}
	return out
}

// RestartTS crashes and restarts tractserver i; every call parked at it (callee not yet run) fails.
func (cl *Cluster) RestartTS(i int) (failed []*RPC) {
	for _, r := range cl.S.Parked() {
		if r.TS == i {
			failed = append(failed, r)
		}
	}
	for _, r := range failed {
		cl.S.Start(r, ModeFail)
	}
	cl.TS[i].Restart()
	cl.touched[i] = true
	return
}

// LeaderChange bumps the raft term (old, new) and installs a fresh leader incarnation with empty
// volatile state.  Tasks of older incarnations keep running with their old term.
func (cl *Cluster) LeaderChange() (uint64, uint64) {
	o, n := cl.D.BumpTerm()
	cl.newIncarnation()
	return o, n
}

func (cl *Cluster) tsByAddr(addr string) *tractserver.VerifTS {
	i := TSIndex(addr)
	if i <= 0 || i >= len(cl.TS) {
		return nil
	}
	return cl.TS[i]
}

func (cl *Cluster) run(r *RPC, f func() interface{}) func() interface{} {
	return func() interface{} {
		if cl.OnExec != nil {
			cl.OnExec(r, true)
		}
		if r.TS > 0 {
			cl.touched[r.TS] = true
		}
		v := f()
		if cl.OnExec != nil {
			cl.OnExec(r, false)
		}
		return v
	}
}

// Touched returns (sorted) and clears the set of tractservers that executed something.
func (cl *Cluster) Touched() []int {
	var out []int
	for i := range cl.touched {
		out = append(out, i)
	}
	sort.Ints(out)
	cl.touched = map[int]bool{}
	return out
}

// ---- master connection (trivial; not scheduled) ----

type masterConn struct{}

func (masterConn) MasterCreateBlob(ctx context.Context) (string, core.Error) {
	return CuratorAddr, core.NoError
}
func (masterConn) LookupPartition(ctx context.Context, p core.PartitionID) (string, core.Error) {
	return CuratorAddr, core.NoError
}
func (masterConn) ListPartitions(ctx context.Context) ([]core.PartitionID, core.Error) {
	return []core.PartitionID{1}, core.NoError
}
func (masterConn) GetTractserverInfo(ctx context.Context) ([]core.TractserverInfo, core.Error) {
	return nil, core.ErrNotYetImplemented
}

// ---- client -> curator ----

type cliCurTalker struct {
	cl     *Cluster
	client int
}

type tractsReply struct {
	Tracts []core.TractInfo
	Err    core.Error
}
type blobReply struct {
	ID  core.BlobID
	Err core.Error
}
type statReply struct {
	Info core.BlobInfo
	Err  core.Error
}

func (t *cliCurTalker) rpc(k Kind, blob core.BlobID) *RPC {
	return &RPC{Kind: k, Client: t.client, Blob: uint64(blob), Tract: -1}
}

func tractInfoAux(tis []core.TractInfo) []int64 {
	a := []int64{int64(len(tis))}
	for _, ti := range tis {
		a = append(a, int64(ti.Tract.Index), int64(ti.Version), int64(len(ti.TSIDs)))
		for _, id := range ti.TSIDs {
			a = append(a, int64(id))
		}
	}
	return a
}

func (t *cliCurTalker) CreateBlob(ctx context.Context, addr string, md core.BlobInfo) (core.BlobID, core.Error) {
	r := t.rpc(KCreateBlob, 0)
	r.Aux = []int64{int64(md.Repl)}
	r.exec = t.cl.run(r, func() interface{} { id, e := t.cl.Cur.CreateBlob(md.Repl); return blobReply{id, e} })
	r.fail = func() interface{} { return blobReply{0, core.ErrRPC} }
	v := t.cl.S.Call(r).(blobReply)
	return v.ID, v.Err
}

func (t *cliCurTalker) ExtendBlob(ctx context.Context, addr string, blob core.BlobID, n int) ([]core.TractInfo, core.Error) {
	r := t.rpc(KExtendBlob, blob)
	r.Aux = []int64{int64(n)}
	r.exec = t.cl.run(r, func() interface{} { ti, e := t.cl.Cur.ExtendBlob(blob, n); return tractsReply{sortTractHosts(ti), e} })
	r.fail = func() interface{} { return tractsReply{nil, core.ErrRPC} }
	v := t.cl.S.Call(r).(tractsReply)
	return v.Tracts, v.Err
}

func (t *cliCurTalker) AckExtendBlob(ctx context.Context, addr string, blob core.BlobID, tracts []core.TractInfo) core.Error {
	r := t.rpc(KAckExtend, blob)
	r.Aux = tractInfoAux(tracts)
	r.exec = t.cl.run(r, func() interface{} { return t.cl.Cur.AckExtendBlob(blob, tracts) })
	r.fail = func() interface{} { return core.ErrRPC }
	return t.cl.S.Call(r).(core.Error)
}

func (t *cliCurTalker) DeleteBlob(ctx context.Context, addr string, blob core.BlobID) core.Error {
	r := t.rpc(KDeleteBlob, blob)
	r.exec = t.cl.run(r, func() interface{} { return t.cl.Cur.DeleteBlob(blob) })
	r.fail = func() interface{} { return core.ErrRPC }
	return t.cl.S.Call(r).(core.Error)
}

func (t *cliCurTalker) UndeleteBlob(ctx context.Context, addr string, blob core.BlobID) core.Error {
	return core.ErrNotYetImplemented
}

func (t *cliCurTalker) SetMetadata(ctx context.Context, addr string, blob core.BlobID, md core.BlobInfo) core.Error {
	return core.ErrNotYetImplemented
}

func (t *cliCurTalker) GetTracts(ctx context.Context, addr string, blob core.BlobID, start, end int, forRead, forWrite bool) ([]core.TractInfo, core.Error) {
	r := t.rpc(KGetTracts, blob)
	r.Aux = []int64{int64(start), int64(end)}
	r.exec = t.cl.run(r, func() interface{} {
		ti, e := t.cl.Cur.GetTracts(blob, start, end, forRead, forWrite)
		return tractsReply{sortTractHosts(ti), e}
	})
	r.fail = func() interface{} { return tractsReply{nil, core.ErrRPC} }
	v := t.cl.S.Call(r).(tractsReply)
	return v.Tracts, v.Err
}

func (t *cliCurTalker) StatBlob(ctx context.Context, addr string, blob core.BlobID) (core.BlobInfo, core.Error) {
	r := t.rpc(KStatBlob, blob)
	r.exec = t.cl.run(r, func() interface{} { i, e := t.cl.Cur.StatBlob(blob); return statReply{i, e} })
	r.fail = func() interface{} { return statReply{core.BlobInfo{}, core.ErrRPC} }
	v := t.cl.S.Call(r).(statReply)
	return v.Info, v.Err
}

func (t *cliCurTalker) ReportBadTS(ctx context.Context, addr string, id core.TractID, bad, op string, got core.Error, couldRecover bool) core.Error {
	r := t.rpc(KReportBadTS, id.Blob)
	r.Tract = int(id.Index)
	r.Aux = []int64{int64(TSIndex(bad)), int64(got)}
	r.exec = t.cl.run(r, func() interface{} { return t.cl.Cur.ReportBadTS(id, bad, op, got, couldRecover) })
	r.fail = func() interface{} { return core.ErrRPC }
	return t.cl.S.Call(r).(core.Error)
}

func (t *cliCurTalker) FixVersion(ctx context.Context, addr string, tract core.TractInfo, bad string) core.Error {
	r := t.rpc(KFixVersion, tract.Tract.Blob)
	r.Tract = int(tract.Tract.Index)
	r.Version = tract.Version
	r.Aux = []int64{int64(TSIndex(bad))}
	r.exec = t.cl.run(r, func() interface{} { cur := t.cl.Cur; r.ExecGen = cur.Gen; return cur.FixVersionRPC(tract, bad) })
	r.fail = func() interface{} { return core.ErrRPC }
	return t.cl.S.Call(r).(core.Error)
}

func (t *cliCurTalker) ListBlobs(ctx context.Context, addr string, p core.PartitionID, start core.BlobKey) ([]core.BlobKey, core.Error) {
	return nil, core.ErrNotYetImplemented
}

// ---- client -> tractserver ----

type cliTSTalker struct {
	cl     *Cluster
	client int
}

type readReply struct {
	B   []byte
	Err core.Error
}
type sizeReply struct {
	N   int64
	Err core.Error
}

// WidOf extracts the write id from a payload produced by Payload (0 if empty).
func WidOf(b []byte) int {
	if len(b) == 0 {
		return 0
	}
	return int(b[0])
}

func (t *cliTSTalker) rpc(k Kind, addr string, id core.TractID) *RPC {
	return &RPC{Kind: k, Client: t.client, TS: TSIndex(addr), Blob: uint64(id.Blob), Tract: int(id.Index)}
}

func (t *cliTSTalker) Create(ctx context.Context, addr string, tsid core.TractserverID, id core.TractID, b []byte, off int64) core.Error {
	r := t.rpc(KCreate, addr, id)
	r.Off, r.Len, r.Wid, r.Aux = off, len(b), WidOf(b), []int64{int64(tsid)}
	r.exec = t.cl.run(r, func() interface{} {
		ts := t.cl.tsByAddr(addr)
		if ts == nil {
			return core.ErrRPC
		}
		return ts.Create(tsid, id, b, off)
	})
	r.fail = func() interface{} { return core.ErrRPC }
	return t.cl.S.Call(r).(core.Error)
}

func (t *cliTSTalker) Write(ctx context.Context, addr string, id core.TractID, version int, b []byte, off int64) core.Error {
	r := t.rpc(KWrite, addr, id)
	r.Version, r.Off, r.Len, r.Wid = version, off, len(b), WidOf(b)
	r.exec = t.cl.run(r, func() interface{} {
		ts := t.cl.tsByAddr(addr)
		if ts == nil {
			return core.ErrRPC
		}
		return ts.Write(id, version, b, off)
	})
	r.fail = func() interface{} { return core.ErrRPC }
	return t.cl.S.Call(r).(core.Error)
}

func (t *cliTSTalker) Read(ctx context.Context, addr string, id core.TractID, version int, length int, off int64) ([]byte, core.Error) {
	r := t.rpc(KRead, addr, id)
	r.Version, r.Off, r.Len = version, off, length
	r.exec = t.cl.run(r, func() interface{} {
		ts := t.cl.tsByAddr(addr)
		if ts == nil {
			return readReply{nil, core.ErrRPC}
		}
		b, e := ts.Read(id, version, length, off)
		if e != core.NoError && e != core.ErrEOF {
			return readReply{nil, e}
		}
		return readReply{append([]byte(nil), b...), e}
	})
	r.fail = func() interface{} { return readReply{nil, core.ErrRPC} }
	v := t.cl.S.Call(r).(readReply)
	return v.B, v.Err
}

func (t *cliTSTalker) ReadInto(ctx context.Context, addr string, id core.TractID, version int, b []byte, off int64) (int, core.Error) {
	r, err := t.Read(ctx, addr, id, version, len(b), off)
	if err != core.NoError && err != core.ErrEOF {
		return 0, err
	}
	return copy(b, r), err
}

func (t *cliTSTalker) StatTract(ctx context.Context, addr string, id core.TractID, version int) (int64, core.Error) {
	r := t.rpc(KStatTract, addr, id)
	r.Version = version
	r.exec = t.cl.run(r, func() interface{} {
		ts := t.cl.tsByAddr(addr)
		if ts == nil {
			return sizeReply{0, core.ErrRPC}
		}
		n, e := ts.StatTract(id, version)
		return sizeReply{n, e}
	})
	r.fail = func() interface{} { return sizeReply{0, core.ErrRPC} }
	v := t.cl.S.Call(r).(sizeReply)
	return v.N, v.Err
}

func (t *cliTSTalker) GetDiskInfo(ctx context.Context, addr string) ([]core.FsStatus, core.Error) {
	return nil, core.ErrNotYetImplemented
}

func (t *cliTSTalker) SetControlFlags(ctx context.Context, addr string, root string, flags core.DiskControlFlags) core.Error {
	return core.ErrNotYetImplemented
}

// ---- curator -> tractserver ----

type curTalker struct {
	cl  *Cluster
	gen int
}

func (t *curTalker) rpc(k Kind, addr string, id core.TractID) *RPC {
	return &RPC{Kind: k, Client: -1, Gen: t.gen, TS: TSIndex(addr), Blob: uint64(id.Blob), Tract: int(id.Index)}
}

func (t *curTalker) SetVersion(addr string, tsid core.TractserverID, id core.TractID, newVersion int, stamp uint64) core.Error {
	r := t.rpc(KSetVersion, addr, id)
	r.Version, r.Aux = newVersion, []int64{int64(tsid), int64(stamp)}
	r.exec = t.cl.run(r, func() interface{} {
		ts := t.cl.tsByAddr(addr)
		if ts == nil {
			return core.ErrRPC
		}
		return ts.SetVersion(tsid, id, newVersion, stamp)
	})
	r.fail = func() interface{} { return core.ErrRPC }
	return t.cl.S.Call(r).(core.Error)
}

func (t *curTalker) PullTract(addr string, tsid core.TractserverID, from0 []string, id core.TractID, version int) core.Error {
	from := append([]string(nil), from0...)
	sort.Slice(from, func(i, j int) bool { return TSIndex(from[i]) < TSIndex(from[j]) }) // canonical source order
	r := t.rpc(KPullTract, addr, id)
	r.Version = version
	r.Aux = []int64{int64(tsid)}
	for _, f := range from {
		r.Aux = append(r.Aux, int64(TSIndex(f)))
	}
	r.exec = t.cl.run(r, func() interface{} {
		ts := t.cl.tsByAddr(addr)
		if ts == nil {
			return core.ErrRPC
		}
		return ts.PullTract(tsid, from, id, version)
	})
	r.fail = func() interface{} { return core.ErrRPC }
	return t.cl.S.Call(r).(core.Error)
}

func (t *curTalker) CheckTracts(addr string, tsid core.TractserverID, tracts []core.TractState) core.Error {
	return core.ErrNotYetImplemented
}

func (t *curTalker) GCTract(addr string, tsid core.TractserverID, old []core.TractState, gone []core.TractID) core.Error {
	r := &RPC{Kind: KGCTract, Client: -1, Gen: t.gen, TS: TSIndex(addr), Tract: -1}
	r.Aux = []int64{int64(tsid), int64(len(old)), int64(len(gone))}
	for _, o := range old {
		r.Aux = append(r.Aux, int64(o.ID.Blob), int64(o.ID.Index), int64(o.Version))
	}
	for _, g := range gone {
		r.Aux = append(r.Aux, int64(g.Blob), int64(g.Index))
	}
	r.exec = t.cl.run(r, func() interface{} {
		ts := t.cl.tsByAddr(addr)
		if ts == nil {
			return core.ErrRPC
		}
		return ts.GCTract(tsid, old, gone)
	})
	r.fail = func() interface{} { return core.ErrRPC }
	return t.cl.S.Call(r).(core.Error)
}

func (t *curTalker) CtlStatTract(addr string, tsid core.TractserverID, id core.TractID, version int) core.StatTractReply {
	r := t.rpc(KCtlStatTract, addr, id)
	r.Version = version
	r.exec = t.cl.run(r, func() interface{} {
		ts := t.cl.tsByAddr(addr)
		if ts == nil {
			return core.StatTractReply{Err: core.ErrRPC}
		}
		return ts.CtlStatTract(id, version)
	})
	r.fail = func() interface{} { return core.StatTractReply{Err: core.ErrRPC} }
	return t.cl.S.Call(r).(core.StatTractReply)
}

func (t *curTalker) PackTracts(addr string, tsid core.TractserverID, length int, tracts []*core.PackTractSpec, id core.RSChunkID) core.Error {
	r := &RPC{Kind: KPackTracts, Client: -1, Gen: t.gen, TS: TSIndex(addr), Tract: -1, Len: length}
	r.Aux = []int64{int64(tsid), int64(id.Partition), int64(id.ID)}
	r.exec = t.cl.run(r, func() interface{} {
		ts := t.cl.tsByAddr(addr)
		if ts == nil {
			return core.ErrRPC
		}
		return ts.PackTracts(tsid, length, tracts, id)
	})
	r.fail = func() interface{} { return core.ErrRPC }
	return t.cl.S.Call(r).(core.Error)
}

func (t *curTalker) RSEncode(addr string, tsid core.TractserverID, id core.RSChunkID, length int, srcs, dests []core.TSAddr, im []int) core.Error {
	r := &RPC{Kind: KRSEncode, Client: -1, Gen: t.gen, TS: TSIndex(addr), Tract: -1, Len: length}
	r.Aux = []int64{int64(tsid), int64(id.Partition), int64(id.ID)}
	r.exec = t.cl.run(r, func() interface{} {
		ts := t.cl.tsByAddr(addr)
		if ts == nil {
			return core.ErrRPC
		}
		return ts.RSEncode(tsid, id, length, srcs, dests, im)
	})
	r.fail = func() interface{} { return core.ErrRPC }
	return t.cl.S.Call(r).(core.Error)
}

// ---- tractserver -> tractserver (nested inside a callee; executed inline) ----

type tsTalker struct {
	cl   *Cluster
	from int
}

func (t *tsTalker) CtlRead(ctx context.Context, addr string, id core.TractID, version int, length int, off int64) ([]byte, core.Error) {
	to := TSIndex(addr)
	if t.cl.NestedFail != nil && t.cl.NestedFail(t.from, to, id, version) {
		return nil, core.ErrRPC
	}
	ts := t.cl.tsByAddr(addr)
	if ts == nil {
		return nil, core.ErrRPC
	}
	return ts.CtlRead(id, version, length, off)
}

func (t *tsTalker) CtlWrite(ctx context.Context, addr string, id core.TractID, v int, off int64, b []byte) core.Error {
	to := TSIndex(addr)
	if t.cl.NestedFail != nil && t.cl.NestedFail(t.from, to, id, v) {
		return core.ErrRPC
	}
	ts := t.cl.tsByAddr(addr)
	if ts == nil {
		return core.ErrRPC
	}
	t.cl.touched[to] = true
	return ts.CtlWrite(id, v, off, b)
}
