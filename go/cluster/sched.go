// Package verifcluster is the in-process, deterministic BLB cluster used by the Cluster family of
// checks (C01, C04, C05, C14).  It exists only in the `go test -overlay` (sources in /verif/go/cluster).
//
// sched.go: the RPC scheduler.  Every talker of every actor (client -> curator, client -> tractserver,
// curator -> tractserver) calls Sched.Call, which PARKS the calling goroutine.  The harness (one
// goroutine) waits until the whole process is quiescent (Settle), looks at the parked calls in a
// canonical order, and decides per call: execute and reply, execute but lose the reply, execute
// twice, fail without executing, or execute now and deliver the reply later.  Callee code runs in
// its own goroutine, one at a time, so it may itself park nested calls (FixVersion -> SetVersion).
package verifcluster

import (
	"bytes"
	"fmt"
	"runtime"
	"sort"
	"sync"
	"sync/atomic"
	"time"
)

// Kind of an RPC.
type Kind int

const (
	KCreateBlob Kind = iota + 1
	KStatBlob
	KGetTracts
	KExtendBlob
	KAckExtend
	KFixVersion
	KReportBadTS
	KDeleteBlob
	KCreate // client -> ts
	KWrite
	KRead
	KStatTract
	KSetVersion // curator -> ts
	KPullTract
	KGCTract
	KCtlStatTract
	KPackTracts
	KRSEncode
	KCheckTracts
)

var kindNames = map[Kind]string{KCreateBlob: "CreateBlob", KStatBlob: "StatBlob", KGetTracts: "GetTracts",
	KExtendBlob: "ExtendBlob", KAckExtend: "AckExtend", KFixVersion: "FixVersion", KReportBadTS: "ReportBadTS",
	KDeleteBlob: "DeleteBlob", KCreate: "Create", KWrite: "Write", KRead: "Read", KStatTract: "StatTract",
	KSetVersion: "SetVersion", KPullTract: "PullTract", KGCTract: "GCTract", KCtlStatTract: "CtlStatTract",
	KPackTracts: "PackTracts", KRSEncode: "RSEncode", KCheckTracts: "CheckTracts"}

func (k Kind) String() string { return kindNames[k] }

// IsCurator reports whether the callee is the curator.
func (k Kind) IsCurator() bool { return k >= KCreateBlob && k <= KDeleteBlob }

// RPC states.
const (
	StParked   = iota // caller blocked, callee not run
	StRunning         // callee running (it may be blocked on nested calls)
	StExecuted        // callee finished, reply not delivered yet
	StDone            // caller resumed
)

// RPC is one parked call.
type RPC struct {
	Seq  int  // canonical index assigned at the last Settle (stable until the call is done)
	Kind Kind // what
	// who issued it: client index (>=0) for client calls, -1 for curator calls (then Gen is the leader incarnation)
	Client int
	Gen    int
	// whom: tractserver index (1-based) for ts calls, 0 for the curator
	TS int
	// arguments relevant for canonical order, monitors and the model
	Blob    uint64
	Tract   int // tract index in the blob, -1 if n/a
	Version int
	Off     int64
	Len     int
	Wid     int     // write id carried by the payload (0 = none)
	Aux     []int64 // kind specific (hosts, start/end ...)

	State     int
	Result    interface{} // reply of the (first) execution
	Lose      bool        // deliver an RPC error instead of Result when the callee finishes
	AutoSend  bool        // deliver as soon as the callee finishes
	Execs     int
	Delivered bool        // the caller got the callee's reply (not an injected RPC error)
	Meta      interface{} // harness bookkeeping (e.g. what a lookup was guaranteed to see)
	ExecGen   int         // leader incarnation that ran the callee (curator-bound calls)
	Orphan    bool        // its issuer (a curator task) has returned; the harness resolves it before anything else

	exec   func() interface{}
	fail   func() interface{}
	resume chan interface{}
	order  int64
}

func (r *RPC) String() string {
	who := fmt.Sprintf("c%d", r.Client)
	if r.Client < 0 {
		who = fmt.Sprintf("cur%d", r.Gen)
	}
	to := "cur"
	if r.TS > 0 {
		to = fmt.Sprintf("ts%d", r.TS)
	}
	return fmt.Sprintf("#%d %s %s->%s b%x t%d v%d off%d len%d w%d %v st%d", r.Seq, r.Kind, who, to, r.Blob, r.Tract, r.Version, r.Off, r.Len, r.Wid, r.Aux, r.State)
}

func (r *RPC) key() []int64 {
	k := []int64{int64(r.Kind), int64(r.Client), int64(r.Gen), int64(r.TS), int64(r.Blob), int64(r.Tract), int64(r.Version), r.Off, int64(r.Len), int64(r.Wid)}
	return append(k, r.Aux...)
}

func lessKey(a, b []int64) bool {
	for i := 0; i < len(a) && i < len(b); i++ {
		if a[i] != b[i] {
			return a[i] < b[i]
		}
	}
	return len(a) < len(b)
}

// Op is a top-level activity started by the harness (a client operation or a curator task).
type Op struct {
	ID     int
	Name   string
	Done   bool
	Result interface{}
	Meta   interface{}
}

// Sched is the scheduler.
type Sched struct {
	mu        sync.Mutex
	auto      bool // execute calls immediately in the caller's goroutine (setup / drain phases)
	pending   []*RPC
	progress  int64
	nextSeq   int
	nextOp    int
	order     int64
	Ops       []*Op
	Steps     int
	Stacks    int
	completed []*RPC
	self      []byte // "goroutine N " prefix of the harness goroutine
}

func NewSched() *Sched {
	s := &Sched{auto: true}
	return s
}

// SetAuto switches between immediate execution (true) and parking (false).
func (s *Sched) SetAuto(a bool) {
	s.mu.Lock()
	s.auto = a
	s.mu.Unlock()
}

// Call is what talkers invoke.
func (s *Sched) Call(r *RPC) interface{} {
	s.mu.Lock()
	if s.auto {
		s.mu.Unlock()
		r.Execs++
		return r.exec()
	}
	r.resume = make(chan interface{}, 1)
	r.State = StParked
	r.Seq = -1
	s.order++
	r.order = s.order
	s.pending = append(s.pending, r)
	s.mu.Unlock()
	atomic.AddInt64(&s.progress, 1)
	return <-r.resume
}

// Go starts a top-level activity.
func (s *Sched) Go(name string, meta interface{}, f func() interface{}) *Op {
	s.mu.Lock()
	s.nextOp++
	op := &Op{ID: s.nextOp, Name: name, Meta: meta}
	s.Ops = append(s.Ops, op)
	s.mu.Unlock()
	go func() {
		res := f()
		s.mu.Lock()
		op.Result = res
		op.Done = true
		s.mu.Unlock()
		atomic.AddInt64(&s.progress, 1)
	}()
	return op
}

// ---- quiescence ----

var (
	hdrGoroutine = []byte("goroutine ")
	stRunnable   = []byte("[runnable")
	stRunning    = []byte("[running")
	stSyscall    = []byte("[syscall")
	sigRecv      = []byte("os/signal.signal_recv")
	sigLoop      = []byte("os/signal.loop")
)

var stackBuf = make([]byte, 1<<20)

// othersActive reports whether any goroutine other than the caller can still make progress on its
// own (runnable / running / in a syscall).  With GOMAXPROCS(1) this is exact at the instant of the call.
func (s *Sched) othersActive() bool {
	s.Stacks++
	for {
		n := runtime.Stack(stackBuf, true)
		if n < len(stackBuf) {
			return scanStacks(stackBuf[:n])
		}
		stackBuf = make([]byte, 2*len(stackBuf))
	}
}

func scanStacks(b []byte) bool {
	first := true
	for len(b) > 0 {
		// b starts at a "goroutine N [state]:" header
		end := bytes.Index(b, []byte("\n\n"))
		var blk []byte
		if end < 0 {
			blk, b = b, nil
		} else {
			blk, b = b[:end], b[end+2:]
		}
		if !bytes.HasPrefix(blk, hdrGoroutine) {
			continue
		}
		nl := bytes.IndexByte(blk, '\n')
		hdr := blk
		if nl >= 0 {
			hdr = blk[:nl]
		}
		if first {
			first = false // the calling goroutine is always listed first
			continue
		}
		if bytes.Contains(hdr, stRunnable) || bytes.Contains(hdr, stRunning) {
			return true
		}
		if bytes.Contains(hdr, stSyscall) {
			if bytes.Contains(blk, sigRecv) || bytes.Contains(blk, sigLoop) {
				continue
			}
			return true
		}
	}
	return false
}

// Settle blocks until no goroutine but the harness can run: every actor is parked in Call, finished,
// or blocked on another actor.  Then it assigns canonical sequence numbers to the new parked calls.
func (s *Sched) Settle() {
	deadline := time.Now().Add(60 * time.Second)
	for {
		for i := 0; i < 4; i++ {
			runtime.Gosched()
		}
		p0 := atomic.LoadInt64(&s.progress)
		if !s.othersActive() && atomic.LoadInt64(&s.progress) == p0 {
			break
		}
		if time.Now().After(deadline) {
			panic("verifcluster: Settle timed out (actor goroutine spinning?)")
		}
	}
	s.mu.Lock()
	var fresh []*RPC
	for _, r := range s.pending {
		if r.Seq < 0 {
			fresh = append(fresh, r)
		}
	}
	sort.SliceStable(fresh, func(i, j int) bool { return lessKey(fresh[i].key(), fresh[j].key()) })
	for _, r := range fresh {
		s.nextSeq++
		r.Seq = s.nextSeq
	}
	sort.SliceStable(s.pending, func(i, j int) bool { return s.pending[i].Seq < s.pending[j].Seq })
	s.mu.Unlock()
}

// Pending returns the calls that are not done yet, in canonical order (call after Settle).
func (s *Sched) Pending() []*RPC {
	s.mu.Lock()
	defer s.mu.Unlock()
	out := make([]*RPC, len(s.pending))
	copy(out, s.pending)
	return out
}

// Parked returns pending calls whose callee has not run yet.
func (s *Sched) Parked() []*RPC {
	var out []*RPC
	for _, r := range s.Pending() {
		if r.State == StParked {
			out = append(out, r)
		}
	}
	return out
}

func (s *Sched) remove(r *RPC) {
	s.mu.Lock()
	for i, x := range s.pending {
		if x == r {
			s.pending = append(s.pending[:i], s.pending[i+1:]...)
			break
		}
	}
	s.mu.Unlock()
}

func (s *Sched) finish(r *RPC, v interface{}, delivered bool) {
	r.State = StDone
	r.Delivered = delivered
	s.remove(r)
	s.completed = append(s.completed, r)
	r.resume <- v
}

// TakeCompleted returns (and forgets) the calls whose callers were resumed since the last call.
func (s *Sched) TakeCompleted() []*RPC {
	c := s.completed
	s.completed = nil
	return c
}

// Delivery modes.
const (
	ModeDeliver   = 1 // execute, deliver the reply when the callee finishes
	ModeLoseReply = 2 // execute, the caller sees an RPC error when the callee finishes
	ModeTwice     = 3 // execute twice (duplicated request), deliver the first reply
	ModeFail      = 4 // do not execute; the caller sees an RPC error
	ModeExecOnly  = 5 // execute now; the reply stays in the network until Reply/DropReply
	ModeCrash     = 6 // (Driver only) PullTract executed at a tractserver that crashes at the data write, then restarts
)

// Start applies a delivery decision to a parked call and settles.
func (s *Sched) Start(r *RPC, mode int) {
	if r.State != StParked {
		panic("verifcluster: Start on a call that is not parked: " + r.String())
	}
	s.Steps++
	if mode == ModeFail {
		s.finish(r, r.fail(), false)
		s.Settle()
		return
	}
	r.State = StRunning
	r.Lose = mode == ModeLoseReply
	r.AutoSend = mode != ModeExecOnly
	twice := mode == ModeTwice
	go func() {
		r.Execs++
		res := r.exec()
		if twice {
			r.Execs++
			r.exec()
		}
		s.mu.Lock()
		r.Result = res
		r.State = StExecuted
		s.mu.Unlock()
		atomic.AddInt64(&s.progress, 1)
	}()
	s.Settle()
	s.Flush()
}

// Flush delivers the replies of finished callees that were started with an auto-send mode.
// Returns the calls it completed.
func (s *Sched) Flush() (done []*RPC) {
	for {
		var r *RPC
		s.mu.Lock()
		for _, x := range s.pending {
			if x.State == StExecuted && x.AutoSend {
				r = x
				break
			}
		}
		s.mu.Unlock()
		if r == nil {
			return
		}
		if r.Lose {
			s.finish(r, r.fail(), false)
		} else {
			s.finish(r, r.Result, true)
		}
		done = append(done, r)
		s.Settle()
	}
}

// Reply delivers (or drops) the reply of an executed call that was started with ModeExecOnly.
func (s *Sched) Reply(r *RPC, lose bool) {
	if r.State != StExecuted {
		panic("verifcluster: Reply on a call that is not executed: " + r.String())
	}
	s.Steps++
	if lose {
		s.finish(r, r.fail(), false)
	} else {
		s.finish(r, r.Result, true)
	}
	s.Settle()
	s.Flush()
}

// Drain runs everything to completion without faults (used at the end of a case).
func (s *Sched) Drain(maxSteps int) bool {
	for i := 0; i < maxSteps; i++ {
		s.Settle()
		s.Flush()
		p := s.Pending()
		if len(p) == 0 {
			return true
		}
		progressed := false
		for _, r := range p {
			if r.State == StParked {
				s.Start(r, ModeDeliver)
				progressed = true
				break
			}
			if r.State == StExecuted {
				s.Reply(r, false)
				progressed = true
				break
			}
		}
		if !progressed {
			return false // only running callees blocked on each other: deadlock
		}
	}
	return false
}
