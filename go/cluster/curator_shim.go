package curator

// Cluster-harness shim (overlay-only; /verif/go/cluster/curator_shim.go injected as
// internal/curator/zz_verif_cluster.go).
//
// VerifDurable = the durable half of a curator replication group: a REAL durable.StateHandler on a
// REAL single-node raft.Raft whose Transport is owned by the harness (so that a VoteReq with a
// higher term can be injected: the node steps down, fails pending proposals, re-elects itself at
// a higher term and OnLeadershipChange(false)/(true) fire as in a real hand-over).
// VerifCurator = one leader incarnation: a REAL Curator object assembled in-package WITHOUT its
// background loops, with its own tsMon / lockMgr (volatile state), attached to the shared
// StateHandler, fronted by the REAL CuratorSrvHandler.

import (
	"fmt"
	"sync"
	"sync/atomic"
	"time"

	"github.com/westerndigitalcorporation/blb/internal/core"
	"github.com/westerndigitalcorporation/blb/internal/curator/durable"
	"github.com/westerndigitalcorporation/blb/internal/server"
	"github.com/westerndigitalcorporation/blb/pkg/raft/raft"
)

// ---- harness-owned raft transport ----

type verifTransport struct {
	addr string
	c    chan raft.Msg
	sent int64
}

func (t *verifTransport) Addr() string             { return t.addr }
func (t *verifTransport) Receive() <-chan raft.Msg { return t.c }
func (t *verifTransport) Send(m raft.Msg)          { atomic.AddInt64(&t.sent, 1) } // single-member group: nobody to talk to
func (t *verifTransport) Close() error             { return nil }

var (
	verifOpmOnce sync.Once
	verifOpmRPC  *server.OpMetric
	verifOpmInt  *server.OpMetric
	verifSeq     int64
)

func verifOpms() (*server.OpMetric, *server.OpMetric) {
	verifOpmOnce.Do(func() {
		verifOpmRPC = server.NewOpMetric("verif_curator_rpc", "rpc")
		verifOpmInt = server.NewOpMetric("verif_curator_internal_ops", "op")
	})
	return verifOpmRPC, verifOpmInt
}

// VerifDurable is the replicated-state side shared by all leader incarnations.
type VerifDurable struct {
	SH   *durable.StateHandler
	Raft *raft.Raft

	tr     *verifTransport
	id     string
	cfg    Config
	now    func() time.Time
	events chan bool // leadership notifications (true = became leader)
}

// VerifNewDurable boots a single-node curator group in 'dir' (bolt DB), waits until it is the
// leader, registers it and gives it partition 1.
func VerifNewDurable(dir string, now func() time.Time) *VerifDurable {
	n := atomic.AddInt64(&verifSeq, 1)
	id := "verif-curator"
	rcfg := raft.Config{
		ID:                   id,
		ClusterID:            fmt.Sprintf("verif-%d-%d", time.Now().UnixNano(), n),
		FollowerTimeout:      6,
		CandidateTimeout:     6,
		HeartbeatTimeout:     2,
		RandomElectionRange:  2,
		DurationPerTick:      2 * time.Millisecond,
		MaxNumEntsPerAppEnts: 10,
		MaximumProposalBatch: 1,
	}
	tr := &verifTransport{addr: id, c: make(chan raft.Msg, 64)}
	r := raft.NewRaft(rcfg, raft.NewStorage(raft.NewMemSnapshotMgr(), raft.NewMemLog(), raft.NewMemState(0)), tr)
	stateCfg := durable.DefaultStateConfig
	stateCfg.DBDir = dir
	d := &VerifDurable{Raft: r, tr: tr, id: id, cfg: DefaultTestConfig, now: now, events: make(chan bool, 64)}
	d.cfg.UseFailure = false
	d.SH = durable.NewStateHandler(&stateCfg, r)
	d.SH.SetLeadershipChange(func(l bool) { d.events <- l })
	d.SH.Start()
	if err := d.SH.ProposeInitialMembership([]string{id}); err != nil {
		panic("verif: initial membership: " + err.Error())
	}
	d.waitLeader()
	if _, err := d.SH.Register(1); err != core.NoError {
		panic("verif: register: " + err.String())
	}
	if err := d.SH.AddPartition(1, 0); err != core.NoError {
		panic("verif: add partition: " + err.String())
	}
	return d
}

func (d *VerifDurable) waitLeader() {
	deadline := time.After(20 * time.Second)
	for {
		select {
		case l := <-d.events:
			if l {
				return
			}
		case <-deadline:
			panic("verif: raft node did not become leader")
		}
	}
}

// Term returns the StateHandler's current term.
func (d *VerifDurable) Term() uint64 { return d.SH.GetTerm() }

// BumpTerm forces a leadership hand-over of the single raft node to itself at a higher term by
// injecting a VoteReq from a non-member with term+1 (the node cannot grant it: its log is longer).
// Returns (old term, new term).  Volatile curator state must be rebuilt by the caller
// (NewCurator); activities started under the old term keep that term.
func (d *VerifDurable) BumpTerm() (uint64, uint64) {
	old := d.SH.GetTerm()
	// drain stale notifications
	for {
		select {
		case <-d.events:
			continue
		default:
		}
		break
	}
	m := &raft.VoteReq{BaseMsg: raft.BaseMsg{Term: old + 1, To: d.id, From: "verif-intruder", FromGUID: 4242}}
	d.tr.c <- m
	d.waitLeader()
	return old, d.SH.GetTerm()
}

// VerifTractState is the durable record of one tract.
type VerifTractState struct {
	OK      bool
	Version int
	Hosts   []core.TractserverID
	HasRS   bool
}

// Tract reads the durable record of a tract (local read, no raft round).
func (d *VerifDurable) Tract(id core.TractID) VerifTractState {
	txn := d.SH.LocalReadOnlyTxn()
	defer txn.Commit()
	tis, _, err := txn.GetTracts(id.Blob, int(id.Index), int(id.Index)+1)
	if err != core.NoError || len(tis) != 1 {
		return VerifTractState{}
	}
	return VerifTractState{OK: true, Version: tis[0].Version, Hosts: tis[0].TSIDs, HasRS: tis[0].RS.Present()}
}

// NumTracts returns the durable number of tracts of a blob (-1 if the blob does not exist).
func (d *VerifDurable) NumTracts(b core.BlobID) int {
	txn := d.SH.LocalReadOnlyTxn()
	defer txn.Commit()
	info, err := txn.Stat(b)
	if err != core.NoError {
		return -1
	}
	return info.NumTracts
}

// ChangeTract submits a raw ChangeTract command (probe for the old+1 rule and the term rule).
func (d *VerifDurable) ChangeTract(id core.TractID, version int, hosts []core.TractserverID, term uint64) core.Error {
	return d.SH.ChangeTract(id, version, hosts, term)
}

// VerifCurator is one leader incarnation.
type VerifCurator struct {
	D   *VerifDurable
	C   *Curator
	H   *CuratorSrvHandler
	Gen int
}

// NewCurator assembles a fresh Curator object (empty volatile state) on the shared durable state.
func (d *VerifDurable) NewCurator(gen int, tt TractserverTalker) *VerifCurator {
	rpcm, intm := verifOpms()
	cfg := d.cfg
	c := &Curator{
		config:        &cfg,
		stateHandler:  d.SH,
		tsMon:         newTractserverMonitor(&cfg, nilFailureDomainService{}, d.now),
		iAmLeader:     true,
		tt:            tt,
		blockedChan:   make(chan clientComplaint, 1000),
		tsGcChan:      make(chan tsTractReport, 100),
		lockMgr:       server.NewFineGrainedLock(),
		corruptBatch:  make(map[core.TractID]TSIDSet),
		pendingPieces: make(map[core.TractID]struct{}),
		internalOpM:   intm,
	}
	c.iAmLeaderCond.L = &c.lock
	h := &CuratorSrvHandler{curator: c, pendingSem: server.NewSemaphore(cfg.RejectReqThreshold), opm: rpcm}
	return &VerifCurator{D: d, C: c, H: h, Gen: gen}
}

// Heartbeat delivers a tractserver heartbeat (address learning + health) to this incarnation.
func (v *VerifCurator) Heartbeat(id core.TractserverID, addr string, bad, has []core.TractID) []core.PartitionID {
	return v.C.tractserverHeartbeat(id, addr, bad, has, core.TractserverLoad{AvailSpace: 1 << 40, TotalSpace: 1 << 41})
}

// HeartbeatLoad is Heartbeat with an explicit free-space report (a full server is known and healthy
// but not a placement candidate).
func (v *VerifCurator) HeartbeatLoad(id core.TractserverID, addr string, avail uint64) {
	v.C.tractserverHeartbeat(id, addr, nil, nil, core.TractserverLoad{AvailSpace: avail, TotalSpace: 1 << 41})
}

// KnowsTS reports whether this incarnation's monitor has an address for the tractserver.
func (v *VerifCurator) KnowsTS(id core.TractserverID) bool {
	_, ok := v.C.tsMon.getAddrByID(id)
	return ok
}

// ReplicateTract runs the real re-replication task for (tract, bad hosts) under this incarnation.
func (v *VerifCurator) ReplicateTract(id core.TractID, bad []core.TractserverID) core.Error {
	return v.C.replicateTract(id, bad)
}

// FixVersion runs the real version-repair task.
func (v *VerifCurator) FixVersion(id core.TractID, cliVersion int, badAddr string) core.Error {
	return v.C.fixVersion(id, cliVersion, badAddr)
}

// DrainComplaints returns the (tract, tsid) complaints queued by ReportBadTS since the last call.
func (v *VerifCurator) DrainComplaints() (out [][2]uint64) {
	for {
		select {
		case cc := <-v.C.blockedChan:
			out = append(out, [2]uint64{uint64(cc.id.Blob)<<16 | uint64(cc.id.Index), uint64(cc.tsid)})
		default:
			return
		}
	}
}

// ---- client-facing RPCs through the REAL CuratorSrvHandler ----

func (v *VerifCurator) CreateBlob(repl int) (core.BlobID, core.Error) {
	var reply core.CreateBlobReply
	if e := v.H.CreateBlob(core.CreateBlobReq{Repl: repl}, &reply); e != nil {
		return 0, core.ErrRPC
	}
	return reply.ID, reply.Err
}

func (v *VerifCurator) ExtendBlob(blob core.BlobID, n int) ([]core.TractInfo, core.Error) {
	var reply core.ExtendBlobReply
	if e := v.H.ExtendBlob(core.ExtendBlobReq{Blob: blob, NumTracts: n}, &reply); e != nil {
		return nil, core.ErrRPC
	}
	return reply.NewTracts, reply.Err
}

func (v *VerifCurator) AckExtendBlob(blob core.BlobID, tracts []core.TractInfo) core.Error {
	var reply core.AckExtendBlobReply
	if e := v.H.AckExtendBlob(core.AckExtendBlobReq{Blob: blob, Tracts: tracts}, &reply); e != nil {
		return core.ErrRPC
	}
	return reply.Err
}

func (v *VerifCurator) GetTracts(blob core.BlobID, start, end int, forRead, forWrite bool) ([]core.TractInfo, core.Error) {
	var reply core.GetTractsReply
	req := core.GetTractsReq{Blob: blob, Start: start, End: end, ForRead: forRead, ForWrite: forWrite}
	if e := v.H.GetTracts(req, &reply); e != nil {
		return nil, core.ErrRPC
	}
	return reply.Tracts, reply.Err
}

func (v *VerifCurator) StatBlob(blob core.BlobID) (core.BlobInfo, core.Error) {
	var reply core.StatBlobReply
	if e := v.H.StatBlob(blob, &reply); e != nil {
		return core.BlobInfo{}, core.ErrRPC
	}
	return reply.Info, reply.Err
}

func (v *VerifCurator) ReportBadTS(id core.TractID, bad, op string, got core.Error, couldRecover bool) core.Error {
	var reply core.Error
	req := core.ReportBadTSReq{ID: id, Bad: bad, Operation: op, GotError: got, CouldRecover: couldRecover}
	if e := v.H.ReportBadTS(req, &reply); e != nil {
		return core.ErrRPC
	}
	return reply
}

func (v *VerifCurator) FixVersionRPC(tract core.TractInfo, bad string) core.Error {
	var reply core.Error
	if e := v.H.FixVersion(core.FixVersionReq{Info: tract, Bad: bad}, &reply); e != nil {
		return core.ErrRPC
	}
	return reply
}

func (v *VerifCurator) DeleteBlob(blob core.BlobID) core.Error {
	var reply core.Error
	if e := v.H.DeleteBlob(blob, &reply); e != nil {
		return core.ErrRPC
	}
	return reply
}
