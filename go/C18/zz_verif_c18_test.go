package tractserver

// C18 harness (injected by `go test -overlay`; lives in /verif).
//
// Drives the REAL Store over a Disk wrapper (c18disk, delegating to MemDisk) that
//   - identifies the calling operation by goroutine id,
//   - parks every Disk call (and every CtlRead of the talker) of a registered operation until the
//     scheduler releases it, optionally with an injected error (error oracle: ANY Disk call can fail),
//   - gives every Open its own handle (MemDisk shares one fd per tract) and counts opens/closes,
//   - logs every call with a global sequence number for the model-free monitors.
// Part 1: sequential, exhaustive in the failure position (every scenario x every call index x error codes).
// Part 2: concurrent, schedule-controlled interleavings of 2-4 operations on 1-2 tracts.
// Part 3: real Manager on a temp dir: open-file accounting and Stop (F4).
// After every scheduler step a snapshot (thread statuses, busy map, open/close counters) is appended to
// the op line; the extracted Coq model recomputes it and answers with a verdict line `777 code`.

import (
	"context"
	"encoding/binary"
	"fmt"
	"io/ioutil"
	"os"
	"os/exec"
	"path/filepath"
	"reflect"
	"regexp"
	"runtime"
	"sort"
	"strconv"
	"strings"
	"sync"
	"sync/atomic"
	"testing"
	"time"
	"unsafe"

	"github.com/westerndigitalcorporation/blb/internal/core"
	vw "github.com/westerndigitalcorporation/blb/pkg/verifwire"
)

// ---------- constants of the wire ----------
const (
	c18ckOpen = iota + 1
	c18ckClose
	c18ckWrite
	c18ckRead
	c18ckSize
	c18ckDelete
	c18ckGetx
	c18ckSetx
	c18ckCtlRead
	c18ckScrub
)

var c18ckNames = []string{"?", "Open", "Close", "Write", "Read", "Size", "Delete", "Getxattr", "Setxattr", "CtlRead", "Scrub"}

const (
	c18Create = iota + 1
	c18Write
	c18Read
	c18Stat
	c18SetVersion
	c18Pull
	c18GCOld
	c18GCGone
	c18Check
	c18Pack
	c18Scrub
)

var c18opNames = []string{"?", "Create", "Write", "Read", "Stat", "SetVersion", "PullTract", "GCOld", "GCGone", "Check", "PackTracts", "Scrub"}

func c18isReader(kind int) bool {
	return kind == c18Read || kind == c18Stat || kind == c18Check || kind == c18Scrub
}
func c18isLong(kind int) bool { return kind == c18Pull || kind == c18Pack }

const (
	c18stNotStarted = 0
	c18stParked     = 1
	c18stWaiting    = 2
	c18stDone       = 3
	c18stRunning    = 9 // never appears in a snapshot
)

func c18goid() int64 {
	var buf [64]byte
	n := runtime.Stack(buf[:], false)
	// "goroutine 123 [running]:"
	f := strings.Fields(string(buf[:n]))
	if len(f) < 2 {
		return -1
	}
	v, _ := strconv.ParseInt(f[1], 10, 64)
	return v
}

// ---------- operations ----------
type c18src struct {
	err  core.Error
	data []byte
}

type c18op struct {
	kind    int
	tract   int
	a1, a2  int64
	a3      int64
	data    []byte
	sources []c18src
	pack    []c18packSrc // PackTracts: a1 = total length
}

type c18packSrc struct {
	off, length int
	froms       []c18src // replies of the From hosts, in order
}

func (o *c18op) wire() []int64 {
	var l vw.L
	l.AddInt(o.kind, o.tract)
	l.Add(o.a1, o.a2, o.a3)
	var x []int64
	if o.kind == c18Pull {
		x = append(x, int64(len(o.sources)))
		for _, s := range o.sources {
			x = append(x, int64(s.err), int64(len(s.data)))
			for _, b := range s.data {
				x = append(x, int64(b))
			}
		}
	} else if o.kind == c18Pack {
		x = append(x, int64(len(o.pack)))
		for _, p := range o.pack {
			x = append(x, int64(p.off), int64(p.length), int64(len(p.froms)))
			for _, s := range p.froms {
				x = append(x, int64(s.err), int64(len(s.data)))
				for _, b := range s.data {
					x = append(x, int64(b))
				}
			}
		}
	} else {
		for _, b := range o.data {
			x = append(x, int64(b))
		}
	}
	l.AddList(x)
	return l
}

type c18event struct {
	seq   int64
	kind  int
	tract core.TractID
	mut   int64 // mutation counter of the tract when the call started
	wr    int64 // writes applied to the existing tract (since it was last created/deleted) when the call started
}

type c18thr struct {
	idx     int
	op      c18op
	gid     int64
	state   int
	park    int
	release chan core.Error
	result  []int64
	events  []c18event
	srcUsed int
	seenDone bool
}

type c18handle struct {
	fd     uint32
	id     core.TractID
	owner  *c18thr
	closed int
	fresh  bool // opened by creating the file
}

// ---------- environment: store + wrappers + scheduler ----------
type c18env struct {
	s    *Store
	md   *MemDisk
	dk   *c18disk
	mu   sync.Mutex
	thr  []*c18thr
	by   map[int64]*c18thr
	seq  int64
	muts map[core.TractID]int64
	wrs  map[core.TractID]int64
	// handle accounting
	handles []*c18handle
	fdref   map[uint32]int
	stale   map[uint32]bool
	opens   int64
	closes  int64
	// free-mode (unregistered goroutine) calls pass through
	waitAddr, notifyAddr *uint32
	caseID               string
}

type c18disk struct {
	*MemDisk
	e *c18env
}

// tract ids below 100 are ordinary tracts; ids >= 100 are RS chunk tracts (PackTracts destinations)
const c18rsPartition = core.PartitionID(uint32(core.RSPartition)<<30 | 7)

func c18chunk(k int) core.RSChunkID { return core.RSChunkID{Partition: c18rsPartition, ID: uint64(k)} }
func c18tid(k int) core.TractID {
	if k >= 100 {
		return c18chunk(k).ToTractID()
	}
	return core.TractID{Blob: 123456, Index: core.TractKey(k)}
}

func (e *c18env) gate(kind int, id core.TractID) (core.Error, *c18thr) {
	gid := c18goid()
	e.mu.Lock()
	th := e.by[gid]
	if th == nil {
		e.mu.Unlock()
		return core.NoError, nil
	}
	th.park = kind
	th.state = c18stParked
	e.mu.Unlock()
	inj := <-th.release
	e.mu.Lock()
	e.seq++
	th.events = append(th.events, c18event{seq: e.seq, kind: kind, tract: id, mut: e.muts[id], wr: e.wrs[id]})
	e.mu.Unlock()
	return inj, th
}

func (e *c18env) mutated(id core.TractID) {
	e.mu.Lock()
	e.muts[id]++
	e.mu.Unlock()
}

func (d *c18disk) Open(ctx context.Context, id core.TractID, flags int) (interface{}, core.Error) {
	inj, th := d.e.gate(c18ckOpen, id)
	if inj != core.NoError {
		return nil, inj
	}
	d.MemDisk.lock.Lock()
	_, existed := d.MemDisk.fds[id]
	d.MemDisk.lock.Unlock()
	f, err := d.MemDisk.Open(ctx, id, flags)
	if err != core.NoError {
		return f, err
	}
	fd := f.(uint32)
	if !existed {
		d.e.mutated(id)
		d.e.mu.Lock()
		d.e.wrs[id] = 0
		d.e.mu.Unlock()
	}
	h := &c18handle{fd: fd, id: id, owner: th, fresh: !existed}
	d.e.mu.Lock()
	d.e.handles = append(d.e.handles, h)
	d.e.fdref[fd]++
	d.e.opens++
	d.e.mu.Unlock()
	return h, core.NoError
}

func (d *c18disk) Close(f interface{}) core.Error {
	h := f.(*c18handle)
	inj, _ := d.e.gate(c18ckClose, h.id)
	// an injected Close error still releases the handle (as a failing close(2) does)
	d.e.mu.Lock()
	h.closed++
	first := h.closed == 1
	var last bool
	if first {
		d.e.closes++
		d.e.fdref[h.fd]--
		last = d.e.fdref[h.fd] == 0
	}
	stale := d.e.stale[h.fd]
	d.e.mu.Unlock()
	var err core.Error
	if !first || stale {
		err = core.ErrInvalidArgument
	} else if last {
		err = d.MemDisk.Close(h.fd)
	}
	if inj != core.NoError {
		return inj
	}
	return err
}

func (d *c18disk) usable(h *c18handle) bool {
	d.e.mu.Lock()
	defer d.e.mu.Unlock()
	return h.closed == 0 && !d.e.stale[h.fd]
}

func (d *c18disk) Write(ctx context.Context, f interface{}, b []byte, off int64) (int, core.Error) {
	h := f.(*c18handle)
	inj, _ := d.e.gate(c18ckWrite, h.id)
	if inj != core.NoError {
		return 0, inj
	}
	if !d.usable(h) {
		return 0, core.ErrInvalidArgument
	}
	n, err := d.MemDisk.Write(ctx, h.fd, b, off)
	d.e.mutated(h.id)
	if !h.fresh {
		d.e.mu.Lock()
		d.e.wrs[h.id]++
		d.e.mu.Unlock()
	}
	return n, err
}

func (d *c18disk) Read(ctx context.Context, f interface{}, b []byte, off int64) (int, core.Error) {
	h := f.(*c18handle)
	inj, _ := d.e.gate(c18ckRead, h.id)
	if inj != core.NoError {
		return 0, inj
	}
	if !d.usable(h) {
		return 0, core.ErrInvalidArgument
	}
	// MemDisk.Read panics on an offset beyond the end of the file; the harness never generates that.
	return d.MemDisk.Read(ctx, h.fd, b, off)
}

func (d *c18disk) Size(f interface{}) (int64, core.Error) {
	h := f.(*c18handle)
	inj, _ := d.e.gate(c18ckSize, h.id)
	if inj != core.NoError {
		return 0, inj
	}
	if !d.usable(h) {
		return 0, core.ErrInvalidArgument
	}
	return d.MemDisk.Size(h.fd)
}

func (d *c18disk) Delete(id core.TractID) core.Error {
	inj, _ := d.e.gate(c18ckDelete, id)
	if inj != core.NoError {
		return inj
	}
	d.MemDisk.lock.Lock()
	fd, ok := d.MemDisk.fds[id]
	d.MemDisk.lock.Unlock()
	if ok {
		d.e.mu.Lock()
		d.e.stale[fd] = true
		d.e.mu.Unlock()
	}
	err := d.MemDisk.Delete(id)
	if err == core.NoError {
		d.e.mutated(id)
		d.e.mu.Lock()
		d.e.wrs[id] = 0
		d.e.mu.Unlock()
	}
	return err
}

func (d *c18disk) Scrub(id core.TractID) (int64, core.Error) {
	inj, _ := d.e.gate(c18ckScrub, id)
	if inj != core.NoError {
		return 0, inj
	}
	return d.MemDisk.Scrub(id)
}

func (d *c18disk) Getxattr(f interface{}, name string) ([]byte, core.Error) {
	h := f.(*c18handle)
	inj, _ := d.e.gate(c18ckGetx, h.id)
	if inj != core.NoError {
		return nil, inj
	}
	if !d.usable(h) {
		return nil, core.ErrInvalidArgument
	}
	return d.MemDisk.Getxattr(h.fd, name)
}

func (d *c18disk) Setxattr(f interface{}, name string, value []byte) core.Error {
	h := f.(*c18handle)
	inj, _ := d.e.gate(c18ckSetx, h.id)
	if inj != core.NoError {
		return inj
	}
	if !d.usable(h) {
		return core.ErrInvalidArgument
	}
	err := d.MemDisk.Setxattr(h.fd, name, value)
	d.e.mutated(h.id)
	return err
}

// talker: CtlRead is a park point too (it is what makes a copy-in "long")
type c18talker struct{ e *c18env }

func (t *c18talker) CtlRead(ctx context.Context, addr string, id core.TractID, version, length int, off int64) ([]byte, core.Error) {
	_, th := t.e.gate(c18ckCtlRead, id)
	if th == nil {
		return nil, core.ErrRPC
	}
	if strings.HasPrefix(addr, "p") { // PackTracts source i, host j
		var i, j int
		fmt.Sscanf(addr, "p%d_%d", &i, &j)
		if i >= len(th.op.pack) || j >= len(th.op.pack[i].froms) {
			return nil, core.ErrRPC
		}
		src := th.op.pack[i].froms[j]
		b := make([]byte, len(src.data))
		copy(b, src.data)
		return b, src.err
	}
	k, _ := strconv.Atoi(strings.TrimPrefix(addr, "s"))
	if k < 0 || k >= len(th.op.sources) {
		return nil, core.ErrRPC
	}
	src := th.op.sources[k]
	b := make([]byte, len(src.data))
	copy(b, src.data)
	return b, src.err
}

func (t *c18talker) CtlWrite(ctx context.Context, addr string, id core.TractID, v int, off int64, b []byte) core.Error {
	return core.ErrRPC
}

func c18newEnv(caseID string) *c18env {
	e := &c18env{by: map[int64]*c18thr{}, muts: map[core.TractID]int64{}, wrs: map[core.TractID]int64{}, fdref: map[uint32]int{}, stale: map[uint32]bool{}, caseID: caseID}
	cfg := DefaultTestConfig
	cfg.ScrubRate = 0
	e.md = NewMemDisk()
	e.s = NewStore(&c18talker{e}, NewMetadataStore(), &cfg)
	e.dk = &c18disk{MemDisk: e.md, e: e}
	e.s.AddDisk(e.dk)
	// waiters of s.busyCond = notify.wait - notify.notify (sync.Cond internals; fails loudly if they change)
	nl := reflect.ValueOf(&e.s.busyCond).Elem().FieldByName("notify")
	e.waitAddr = (*uint32)(unsafe.Pointer(nl.FieldByName("wait").UnsafeAddr()))
	e.notifyAddr = (*uint32)(unsafe.Pointer(nl.FieldByName("notify").UnsafeAddr()))
	e.mu.Lock()
	e.opens, e.closes = 0, 0
	e.handles = nil
	e.mu.Unlock()
	return e
}

// base is the stamp a freshly added tract carries: initialStamp truncated to the 58 bits tractData keeps.
func (e *c18env) base() uint64 { return makeTractData(0, e.s.initialStamp).stamp() }

func (e *c18env) close() {
	e.s.lock.Lock()
	root := e.s.disks[0].root
	e.s.lock.Unlock()
	e.s.RemoveDisk(root)
}

func (e *c18env) condWaiters() int {
	return int(atomic.LoadUint32(e.waitAddr) - atomic.LoadUint32(e.notifyAddr))
}

// waitQuiescent returns when every started operation is parked at a Disk call, finished, or blocked in
// busyCond.Wait. It returns false if that does not happen within the deadline (harness problem).
func (e *c18env) waitQuiescent() bool {
	deadline := time.Now().Add(5 * time.Second)
	for spin := 0; ; spin++ {
		e.mu.Lock()
		running := 0
		for _, th := range e.thr {
			if th.state == c18stRunning {
				running++
			}
		}
		e.mu.Unlock()
		if running == 0 {
			return true
		}
		if e.condWaiters() == running {
			// confirm once more after a yield: the set of running operations can only shrink
			e.mu.Lock()
			r2 := 0
			for _, th := range e.thr {
				if th.state == c18stRunning {
					r2++
				}
			}
			e.mu.Unlock()
			if r2 == running && e.condWaiters() == running {
				return true
			}
		}
		if spin < 200 {
			runtime.Gosched()
		} else {
			time.Sleep(20 * time.Microsecond)
		}
		if spin%1000 == 999 && time.Now().After(deadline) {
			return false
		}
	}
}

func (e *c18env) runOp(th *c18thr) []int64 {
	o := &th.op
	id := c18tid(o.tract)
	ctx := context.Background()
	switch o.kind {
	case c18Create:
		return []int64{int64(e.s.Create(ctx, id, o.data, o.a1))}
	case c18Write:
		return []int64{int64(e.s.Write(ctx, id, int(o.a1), o.data, o.a2))}
	case c18Read:
		b, err := e.s.Read(ctx, id, int(o.a1), int(o.a2), o.a3)
		r := []int64{int64(err), int64(len(b))}
		for _, x := range b {
			r = append(r, int64(x))
		}
		return r
	case c18Stat:
		sz, st, err := e.s.Stat(ctx, id, int(o.a1))
		rel := int64(-1)
		if st != 0 {
			rel = int64(st - e.base())
		}
		return []int64{int64(err), sz, rel}
	case c18SetVersion:
		var cond uint64
		if o.a2 != 0 {
			cond = e.base() + uint64(o.a2-1)
		}
		v, err := e.s.SetVersion(id, int(o.a1), cond)
		return []int64{int64(err), int64(v)}
	case c18Pull:
		var srcs []string
		for i := range o.sources {
			srcs = append(srcs, fmt.Sprintf("s%d", i))
		}
		return []int64{int64(e.s.PullTract(ctx, srcs, id, int(o.a1)))}
	case c18GCOld:
		return []int64{int64(e.s.maybeGCTract(core.TractState{ID: id, Version: int(o.a1)}))}
	case c18GCGone:
		e.s.GCTracts(nil, []core.TractID{id})
		return []int64{}
	case c18Check:
		m := e.s.Check([]core.TractState{{ID: id, Version: int(o.a1)}})
		return []int64{int64(len(m))}
	case c18Pack:
		var specs []*core.PackTractSpec
		for i, p := range o.pack {
			sp := &core.PackTractSpec{ID: core.TractID{Blob: core.BlobIDFromParts(5, 77), Index: core.TractKey(i)}, Version: 1, Offset: p.off, Length: p.length}
			for j := range p.froms {
				sp.From = append(sp.From, core.TSAddr{ID: core.TractserverID(j + 1), Host: fmt.Sprintf("p%d_%d", i, j)})
			}
			specs = append(specs, sp)
		}
		return []int64{int64(e.s.PackTracts(ctx, int(o.a1), specs, c18chunk(o.tract)))}
	case c18Scrub:
		// one iteration of scrubDisk's inner loop (the loop itself sleeps 5 minutes first and never returns):
		// tryLockTract(READ); d.Scrub; unlock; maybeReportError - transcribed, the callees are the real ones
		if !e.s.tryLockTract(id, READ) {
			return []int64{-1}
		}
		n, err := e.dk.Scrub(id)
		e.s.unlock(id, READ)
		e.s.maybeReportError(id, err)
		return []int64{int64(err), n}
	}
	return []int64{-1}
}

func (e *c18env) start(th *c18thr) bool {
	th.release = make(chan core.Error)
	e.mu.Lock()
	th.state = c18stRunning
	e.mu.Unlock()
	reg := make(chan struct{})
	go func() {
		gid := c18goid()
		e.mu.Lock()
		th.gid = gid
		e.by[gid] = th
		e.mu.Unlock()
		close(reg)
		res := e.runOp(th)
		e.mu.Lock()
		th.result = res
		th.state = c18stDone
		delete(e.by, gid)
		e.mu.Unlock()
	}()
	<-reg
	return e.waitQuiescent()
}

func (e *c18env) advance(th *c18thr, inj core.Error) bool {
	e.mu.Lock()
	th.state = c18stRunning
	e.mu.Unlock()
	th.release <- inj
	return e.waitQuiescent()
}

// snapshot: nthreads, per thread (status [kind | nres res...]), nbusy (tract val)*, opens, closes
func (e *c18env) snapshot(ids []int) []int64 {
	var l vw.L
	e.mu.Lock()
	l.AddInt(len(e.thr))
	for _, th := range e.thr {
		st := th.state
		if st == c18stRunning {
			st = c18stWaiting
		}
		l.AddInt(st)
		if st == c18stParked {
			l.AddInt(th.park)
		} else if st == c18stDone {
			l.AddList(th.result)
		}
	}
	opens, closes := e.opens, e.closes
	e.mu.Unlock()
	e.s.busyLock.Lock()
	type bv struct {
		k int
		v int64
	}
	var bs []bv
	for _, k := range ids {
		if v, ok := e.s.busy[c18tid(k)]; ok {
			bs = append(bs, bv{k, int64(v)})
		}
	}
	extra := len(e.s.busy) - len(bs)
	e.s.busyLock.Unlock()
	l.AddInt(len(bs) + extra)
	for _, b := range bs {
		l.AddInt(b.k)
		l.Add(b.v)
	}
	for i := 0; i < extra; i++ {
		l.Add(-99, 0)
	}
	l.Add(opens, closes)
	return l
}

func (e *c18env) busyOf(tract int) (int32, bool) {
	e.s.busyLock.Lock()
	defer e.s.busyLock.Unlock()
	v, ok := e.s.busy[c18tid(tract)]
	return v, ok
}

// scan: per tract inmap stampRel ondisk hasver ver ndata data...
func (e *c18env) scan(ids []int) []int64 {
	var l vw.L
	for _, k := range ids {
		id := c18tid(k)
		e.s.lock.Lock()
		td, ok := e.s.tracts[id]
		e.s.lock.Unlock()
		if ok {
			l.Add(1, int64(td.stamp()-e.base()))
		} else {
			l.Add(0, 0)
		}
		e.md.lock.Lock()
		fd, ok := e.md.fds[id]
		if ok {
			l.Add(1)
			if xa, ok := e.md.xattrs[fd]; ok && len(xa[versionXattr]) == 8 {
				l.Add(1, int64(binary.LittleEndian.Uint64(xa[versionXattr])))
			} else {
				l.Add(0, 0)
			}
			d := e.md.files[fd]
			l.AddInt(len(d))
			for _, b := range d {
				l.Add(int64(b))
			}
		} else {
			l.Add(0, 0, 0, 0)
		}
		e.md.lock.Unlock()
	}
	return l
}

// ---------- buffered case trace ----------
// A case is written to C18.trace, or to C18.known.trace when a monitor reported something in it: the
// correspondence driver prints a bounded number of mismatches per file, and the (many) verdict lines of cases
// that exhibit an already-known defect must not crowd out a fresh mismatch in the other cases.
type c18line struct {
	op bool
	xs []int64
}
type c18buf struct {
	id      string
	lines   []c18line
	flagged bool
}

func (b *c18buf) Case(id string)   { b.id = id }
func (b *c18buf) Op(xs ...int64)   { b.lines = append(b.lines, c18line{true, append([]int64(nil), xs...)}) }
func (b *c18buf) Obs(xs ...int64)  { b.lines = append(b.lines, c18line{false, append([]int64(nil), xs...)}) }
func (b *c18buf) flush(clean, known *vw.Trace) {
	t := clean
	if b.flagged {
		t = known
	}
	t.Case(b.id)
	for _, l := range b.lines {
		if l.op {
			t.Op(l.xs...)
		} else {
			t.Obs(l.xs...)
		}
	}
}

var c18cur *c18buf

// ---------- a case ----------
type c18init struct {
	present bool
	version int
	data    []byte
	rs      bool // an RS chunk tract: id = 100 + position, version is always RSChunkVersion
}

func c18tractID(pos int, ti c18init) int {
	if ti.rs {
		return 100 + pos
	}
	return pos
}

type c18step struct {
	thread int // index into ops
	start  bool
	inj    core.Error
}

type c18case struct {
	id     string
	tracts []c18init
	ops    []c18op
	// schedule: chooser is called with the lists of startable / parked thread indices
	choose func(startable, parked []int, stepNo int, th []*c18thr) c18step
	class  string
	lastResults [][]int64 // per operation, filled by c18runCase
}

func c18report(c *c18case, sig, what string, detail map[string]interface{}) {
	if c18cur != nil {
		c18cur.flagged = true
	}
	vw.Report(vw.Violation{Property: "C18", Signature: sig, What: what, Case: c.id, Detail: detail})
}

func c18opsDesc(c *c18case) string {
	var s []string
	for _, o := range c.ops {
		s = append(s, fmt.Sprintf("%s(t%d,%d,%d,%d)", c18opNames[o.kind], o.tract, o.a1, o.a2, o.a3))
	}
	return strings.Join(s, " ")
}

func c18errName(e int64) string {
	switch core.Error(e) {
	case core.NoError:
		return "NoError"
	case core.ErrStampChanged:
		return "ErrStampChanged"
	case core.ErrTooBusy:
		return "ErrTooBusy"
	case core.ErrVersionMismatch:
		return "ErrVersionMismatch"
	case core.ErrNoSuchTract:
		return "ErrNoSuchTract"
	case core.ErrCanceled:
		return "ErrCanceled"
	}
	return fmt.Sprintf("E%d", e)
}

func c18runCase(clean, known *vw.Trace, c *c18case) {
	tr := &c18buf{}
	c18cur = tr
	defer func() { c18cur = nil; tr.flush(clean, known) }()
	tr.Case(c.id)
	e := c18newEnv(c.id)
	defer e.close()
	var ids []int
	for k, ti := range c.tracts {
		ids = append(ids, c18tractID(k, ti))
	}
	sort.Ints(ids)
	// setup (free mode: the test goroutine is not registered, calls pass through)
	for pos, ti := range c.tracts {
		if !ti.present {
			continue
		}
		k := c18tractID(pos, ti)
		if ti.rs {
			ti.version = core.RSChunkVersion
		}
		id := c18tid(k)
		err := e.s.Create(context.Background(), id, ti.data, 0)
		for v := 2; err == core.NoError && v <= ti.version; v++ {
			_, err = e.s.SetVersion(id, v, 0)
		}
		var op vw.L
		op.AddInt(20, k, ti.version)
		var x []int64
		for _, b := range ti.data {
			x = append(x, int64(b))
		}
		op.AddList(x)
		op.Add(int64(err))
		tr.Op(op...)
		tr.Obs(777, 1)
	}
	e.mu.Lock()
	e.opens, e.closes, e.handles = 0, 0, nil
	e.wrs = map[core.TractID]int64{}
	e.mu.Unlock()

	for i := range c.ops {
		e.thr = append(e.thr, &c18thr{idx: i, op: c.ops[i], state: c18stNotStarted})
	}
	stuck := false
	for stepNo := 0; stepNo < 400; stepNo++ {
		var startable, parked []int
		waiting := 0
		for i, th := range e.thr {
			switch th.state {
			case c18stNotStarted:
				startable = append(startable, i)
			case c18stParked:
				parked = append(parked, i)
			case c18stRunning:
				waiting++
			}
		}
		if len(startable) == 0 && len(parked) == 0 {
			if waiting > 0 {
				stuck = true
			}
			break
		}
		st := c.choose(startable, parked, stepNo, e.thr)
		th := e.thr[st.thread]
		doneBefore := make([]bool, len(e.thr))
		for i, x := range e.thr {
			doneBefore[i] = x.state == c18stDone
		}
		var op vw.L
		var ok bool
		if st.start {
			op.AddInt(10, st.thread)
			op.Add(th.op.wire()...)
			ok = e.start(th)
		} else {
			op.AddInt(11, st.thread)
			op.Add(int64(st.inj))
			ok = e.advance(th, st.inj)
		}
		if !ok {
			c18report(c, "harness-not-quiescent", "operations neither parked, finished nor waiting after 5s", map[string]interface{}{"ops": c18opsDesc(c)})
			return
		}
		op.Add(e.snapshot(ids)...)
		tr.Op(op...)
		tr.Obs(777, 1)
		// monitor: fail fast against a long writer; busy only against a long writer
		e.mu.Lock()
		for _, w := range e.thr {
			if w.state == c18stRunning { // blocked in busyCond.Wait
				bv, bok := e.busyOfLocked(w.op.tract)
				if !bok || (bv > 0 && c18isReader(w.op.kind)) {
					vw.Stat("mon.waiter-not-woken", 1)
					c18reportOnce(c, "waiter-not-woken-op="+c18opNames[w.op.kind],
						"an operation stays blocked in busyCond.Wait although its tract is free (or held only by readers and it is a reader): a wake-up was lost",
						map[string]interface{}{"ops": c18opsDesc(c), "step": stepNo})
				}
				longInside := false
				for _, o := range e.thr {
					if o != w && o.op.tract == w.op.tract && c18isLong(o.op.kind) && o.state == c18stParked {
						longInside = true // parked before a Disk call / CtlRead = inside its section
					}
				}
				if v, ok := bv, bok; (ok && v == -2) || longInside {
					vw.Stat("mon.blocked-behind-long-writer", 1)
					c18reportOnce(c, "blocked-behind-long-writer-op="+c18opNames[w.op.kind],
						"an operation that meets a long-running copy-in (busy = -2) blocks instead of failing fast with ErrTooBusy",
						map[string]interface{}{"ops": c18opsDesc(c), "step": stepNo})
				}
			}
		}
		e.mu.Unlock()
		for _, d := range e.thr {
			if d.state != c18stDone || d.seenDone {
				continue
			}
			d.seenDone = true
			if len(d.result) > 0 && core.Error(d.result[0]) == core.ErrTooBusy && d.op.kind != c18Check {
				long := false
				for _, o := range e.thr {
					if o != d && o.op.tract == d.op.tract && c18isLong(o.op.kind) && o.state != c18stNotStarted && !doneBefore[o.idx] {
						long = true
					}
				}
				if !long {
					vw.Stat("mon.busy-without-long-writer", 1)
					c18reportOnce(c, "busy-without-long-writer-op="+c18opNames[d.op.kind],
						"an operation returned ErrTooBusy although no long-running copy-in holds the tract (it met ordinary readers/writers and should have waited)",
						map[string]interface{}{"ops": c18opsDesc(c), "step": stepNo})
				}
			}
		}
	}
	for _, th := range e.thr {
		c.lastResults = append(c.lastResults, th.result)
	}
	// final scan + quiescence monitors
	{
		var op vw.L
		op.AddInt(21, len(ids))
		op.AddInt(ids...)
		op.Add(e.scan(ids)...)
		tr.Op(op...)
		tr.Obs(777, 1)
	}
	if stuck {
		var ks []string
		for _, th := range e.thr {
			if th.state == c18stRunning {
				ks = append(ks, c18opNames[th.op.kind])
			}
		}
		c18report(c, "blocked-forever-op="+strings.Join(ks, "+"), "all other operations returned but these still wait for the tract lock: it was never released",
			map[string]interface{}{"ops": c18opsDesc(c)})
	}
	e.s.busyLock.Lock()
	nb := len(e.s.busy)
	e.s.busyLock.Unlock()
	if nb != 0 && !stuck {
		c18report(c, "busy-not-empty-at-quiescence", "every operation returned but the busy map still has entries (lock leaked)",
			map[string]interface{}{"ops": c18opsDesc(c), "entries": nb})
	}
	e.mu.Lock()
	for _, h := range e.handles {
		if h.owner == nil || h.owner.state != c18stDone {
			continue
		}
		res := "none"
		if len(h.owner.result) > 0 {
			res = c18errName(h.owner.result[0])
		}
		if h.closed == 0 {
			vw.Stat("mon.handle-leak", 1)
			c18reportOnce(c, fmt.Sprintf("handle-leak-op=%s-result=%s", c18opNames[h.owner.op.kind], res),
				"an operation returned without closing the tract handle it opened", map[string]interface{}{"ops": c18opsDesc(c)})
		} else if h.closed > 1 {
			c18reportOnce(c, fmt.Sprintf("double-close-op=%s-result=%s", c18opNames[h.owner.op.kind], res),
				"an operation closed the same tract handle twice", map[string]interface{}{"ops": c18opsDesc(c)})
		}
	}
	// sections: spans of Disk calls per (operation, tract); overlapping spans must both be readers
	type span struct {
		th        *c18thr
		first, lo int64
		mut0      int64
		mutN      int64
	}
	var spans []span
	for _, th := range e.thr {
		if len(th.events) == 0 {
			continue
		}
		sp := span{th: th, first: th.events[0].seq, lo: th.events[len(th.events)-1].seq, mut0: th.events[0].mut, mutN: th.events[len(th.events)-1].mut}
		spans = append(spans, sp)
	}
	for i := 0; i < len(spans); i++ {
		for j := i + 1; j < len(spans); j++ {
			a, b := spans[i], spans[j]
			if a.th.op.tract != b.th.op.tract {
				continue
			}
			if a.first <= b.lo && b.first <= a.lo && !(c18isReader(a.th.op.kind) && c18isReader(b.th.op.kind)) {
				if a.th.op.kind == c18GCGone || b.th.op.kind == c18GCGone {
					// since fix ab74e69 the gone half of GCTracts takes the WRITE lock like everybody else
					other := a.th.op.kind
					if other == c18GCGone {
						other = b.th.op.kind
					}
					sig := "gc-gone-interleaved-with-op=" + c18opNames[other]
					if c18isLong(other) {
						sig = "gc-gone-interleaved-with-copy-in"
					}
					vw.Stat("mon.gc-gone-interleaved", 1)
					c18reportOnce(c, sig, "GCTracts(gone) removed a tract inside the section of another operation on the same tract (it must take the tract lock)",
						map[string]interface{}{"ops": c18opsDesc(c)})
					continue
				}
				vw.Stat("mon.sections-interleave", 1)
				c18reportOnce(c, fmt.Sprintf("sections-interleave-%s-%s", c18opNames[a.th.op.kind], c18opNames[b.th.op.kind]),
					"the Disk-call sections of two operations on the same tract overlap and they are not both readers",
					map[string]interface{}{"ops": c18opsDesc(c)})
			}
		}
	}
	// a successful conditional bump (stamp = initial+k, i.e. the client's Stat saw k modifications) implies that no
	// further write was applied to the tract before the bump took the tract: at most k writes precede its section
	for _, th := range e.thr {
		if th.op.kind == c18SetVersion && th.op.a2 != 0 && th.state == c18stDone && len(th.result) > 0 &&
			core.Error(th.result[0]) == core.NoError && len(th.events) > 0 && th.events[0].wr > th.op.a2-1 {
			vw.Stat("mon.conditional-bump-after-write", 1)
			c18reportOnce(c, "conditional-bump-succeeded-after-intervening-write",
				"a conditional SetVersion succeeded although a write was applied to the tract after the Stat that produced its stamp: checking the stamp and bumping the version is not atomic with respect to writes",
				map[string]interface{}{"ops": c18opsDesc(c), "stamp": th.op.a2 - 1, "writesApplied": th.events[0].wr})
		}
	}
	for _, sp := range spans {
		if c18isReader(sp.th.op.kind) && sp.mut0 != sp.mutN {
			vw.Stat("mon.read-mixed-state", 1)
			c18reportOnce(c, "read-mixed-state-op="+c18opNames[sp.th.op.kind],
				"the tract changed on disk between the first and the last Disk call of a reader: its version and data belong to different states",
				map[string]interface{}{"ops": c18opsDesc(c)})
		}
	}
	e.mu.Unlock()
}

var c18reported = map[string]bool{}

func c18reportOnce(c *c18case, sig, what string, detail map[string]interface{}) {
	// one report per signature and case
	k := c.id + "/" + sig
	if c18reported[k] {
		return
	}
	c18reported[k] = true
	c18report(c, sig, what, detail)
}

func (e *c18env) busyOfLocked(tract int) (int32, bool) {
	// e.mu is held by the caller; busyLock is independent
	return e.busyOf(tract)
}

// ---------- scenario tables ----------
func c18bytes(xs ...int) []byte {
	b := make([]byte, len(xs))
	for i, x := range xs {
		b[i] = byte(x)
	}
	return b
}

type c18scenario struct {
	name   string
	tract0 c18init
	op     c18op
}

func c18scenarios() []c18scenario {
	pres := c18init{present: true, version: 2, data: c18bytes(1, 2, 3, 4)}
	abs := c18init{}
	d := c18bytes(9, 8)
	ok := c18src{core.NoError, c18bytes(5, 6, 7)}
	eof := c18src{core.ErrEOF, c18bytes(5)}
	rpc := c18src{core.ErrRPC, nil}
	rsabs := c18init{rs: true}
	rspres := c18init{present: true, rs: true, data: c18bytes(4, 5, 6, 7)}
	return []c18scenario{
		{"create-absent", abs, c18op{kind: c18Create, a1: 0, data: d}},
		{"create-absent-off", abs, c18op{kind: c18Create, a1: 2, data: d}},
		{"create-present-v1", c18init{present: true, version: 1, data: c18bytes(1)}, c18op{kind: c18Create, a1: 0, data: d}},
		{"create-present-v2", pres, c18op{kind: c18Create, a1: 0, data: d}},
		{"write-ok", pres, c18op{kind: c18Write, a1: 2, a2: 1, data: d}},
		{"write-extend", pres, c18op{kind: c18Write, a1: 2, a2: 6, data: d}},
		{"write-badver", pres, c18op{kind: c18Write, a1: 3, a2: 0, data: d}},
		{"write-absent", abs, c18op{kind: c18Write, a1: 1, a2: 0, data: d}},
		{"read-ok", pres, c18op{kind: c18Read, a1: 2, a2: 3, a3: 1}},
		{"read-short", pres, c18op{kind: c18Read, a1: 2, a2: 8, a3: 2}},
		{"read-badver", pres, c18op{kind: c18Read, a1: 1, a2: 2, a3: 0}},
		{"read-absent", abs, c18op{kind: c18Read, a1: 1, a2: 2, a3: 0}},
		{"stat-ok", pres, c18op{kind: c18Stat, a1: 2}},
		{"stat-badver", pres, c18op{kind: c18Stat, a1: 5}},
		{"stat-absent", abs, c18op{kind: c18Stat, a1: 2}},
		{"setversion-bump", pres, c18op{kind: c18SetVersion, a1: 3}},
		{"setversion-same", pres, c18op{kind: c18SetVersion, a1: 2}},
		{"setversion-far", pres, c18op{kind: c18SetVersion, a1: 4}},
		{"setversion-bad", pres, c18op{kind: c18SetVersion, a1: 1}},
		{"setversion-absent", abs, c18op{kind: c18SetVersion, a1: 2}},
		{"setversion-cond-match", pres, c18op{kind: c18SetVersion, a1: 3, a2: 1}},
		{"setversion-cond-stale", pres, c18op{kind: c18SetVersion, a1: 3, a2: 2}},
		{"setversion-cond-absent", abs, c18op{kind: c18SetVersion, a1: 3, a2: 1}},
		{"pull-absent", abs, c18op{kind: c18Pull, a1: 3, sources: []c18src{ok}}},
		{"pull-absent-eof", abs, c18op{kind: c18Pull, a1: 3, sources: []c18src{eof}}},
		{"pull-older", pres, c18op{kind: c18Pull, a1: 3, sources: []c18src{ok}}},
		{"pull-same", pres, c18op{kind: c18Pull, a1: 2, sources: []c18src{ok}}},
		{"pull-newer", pres, c18op{kind: c18Pull, a1: 1, sources: []c18src{ok}}},
		{"pull-rpc-then-ok", pres, c18op{kind: c18Pull, a1: 3, sources: []c18src{rpc, ok}}},
		{"pull-all-fail", abs, c18op{kind: c18Pull, a1: 3, sources: []c18src{rpc, rpc}}},
		{"pull-nosource", pres, c18op{kind: c18Pull, a1: 3}},
		{"gcold-older", pres, c18op{kind: c18GCOld, a1: 2}},
		{"gcold-newer", pres, c18op{kind: c18GCOld, a1: 1}},
		{"gcold-absent", abs, c18op{kind: c18GCOld, a1: 1}},
		{"gcgone-present", pres, c18op{kind: c18GCGone}},
		{"gcgone-absent", abs, c18op{kind: c18GCGone}},
		{"check-ok", pres, c18op{kind: c18Check, a1: 2}},
		{"check-old", pres, c18op{kind: c18Check, a1: 3}},
		{"check-absent", abs, c18op{kind: c18Check, a1: 1}},
		// scrub step
		{"scrub-present", pres, c18op{kind: c18Scrub}},
		{"scrub-absent", abs, c18op{kind: c18Scrub}},
		// RS chunk tracts and PackTracts (a long writer on the destination chunk)
		{"rs-create-absent", rsabs, c18op{kind: c18Create, a1: 0, data: d}},
		{"rs-create-present", rspres, c18op{kind: c18Create, a1: 1, data: d}},
		{"rs-read", rspres, c18op{kind: c18Read, a1: core.RSChunkVersion, a2: 2, a3: 0}},
		{"rs-setversion", rspres, c18op{kind: c18SetVersion, a1: 2}},
		{"pack-absent-1src", rsabs, c18op{kind: c18Pack, a1: 3, pack: []c18packSrc{{0, 3, []c18src{ok}}}}},
		{"pack-present-1src-pad", rspres, c18op{kind: c18Pack, a1: 6, pack: []c18packSrc{{1, 3, []c18src{ok}}}}},
		{"pack-2src-gap-pad", rsabs, c18op{kind: c18Pack, a1: 9, pack: []c18packSrc{{0, 3, []c18src{ok}}, {4, 1, []c18src{eof}}}}},
		{"pack-host-fallback", rsabs, c18op{kind: c18Pack, a1: 3, pack: []c18packSrc{{0, 3, []c18src{rpc, eof, ok}}}}},
		{"pack-all-hosts-fail", rspres, c18op{kind: c18Pack, a1: 4, pack: []c18packSrc{{0, 3, []c18src{ok}}, {3, 1, []c18src{rpc, rpc}}}}},
		{"pack-wrong-length", rsabs, c18op{kind: c18Pack, a1: 5, pack: []c18packSrc{{0, 2, []c18src{ok}}, {2, 3, []c18src{ok}}}}},
		{"pack-nosrc", rspres, c18op{kind: c18Pack, a1: 4}},
		{"pack-bad-spec-overlap", rsabs, c18op{kind: c18Pack, a1: 9, pack: []c18packSrc{{0, 3, []c18src{ok}}, {2, 3, []c18src{ok}}}}},
		{"pack-bad-spec-short", rsabs, c18op{kind: c18Pack, a1: 2, pack: []c18packSrc{{0, 3, []c18src{ok}}}}},
	}
}

var c18injErrs = []core.Error{core.ErrIO, core.ErrCorruptData, core.ErrNoSuchTract, core.ErrAlreadyExists, core.ErrEOF, core.ErrNoAttribute}

// ---------- random concurrent cases ----------
func c18genPack(r *vw.Rng, tract int) c18op {
	nsrc := r.PickInt(0, 1, 1, 2, 2, 3)
	var ps []c18packSrc
	pos := 0
	for i := 0; i < nsrc; i++ {
		pos += r.PickInt(0, 0, 1)
		ln := r.Range(1, 3)
		var fr []c18src
		for j, n := 0, r.PickInt(1, 1, 2); j < n; j++ {
			b := make([]byte, ln)
			for x := range b {
				b[x] = byte(r.Range(10, 250))
			}
			switch r.Intn(6) {
			case 0:
				fr = append(fr, c18src{core.ErrRPC, nil})
			case 1:
				fr = append(fr, c18src{core.NoError, b[:ln-1]}) // unexpected length
			case 2:
				fr = append(fr, c18src{core.ErrEOF, b})
			default:
				fr = append(fr, c18src{core.NoError, b})
			}
		}
		ps = append(ps, c18packSrc{pos, ln, fr})
		pos += ln
	}
	return c18op{kind: c18Pack, tract: tract, a1: int64(pos + r.PickInt(0, 0, 1, 2)), pack: ps}
}

func c18genOp(r *vw.Rng, tract int, init c18init) c18op {
	v := init.version
	if !init.present {
		v = r.Range(1, 2)
	}
	if init.rs {
		v = core.RSChunkVersion
		if r.Chance(2, 5) {
			return c18genPack(r, tract)
		}
	}
	if r.Chance(1, 12) {
		return c18op{kind: c18Scrub, tract: tract}
	}
	pickV := func() int64 { return int64(v + r.PickInt(0, 0, 0, 0, 1, -1)) }
	data := func() []byte {
		n := r.Range(1, 3)
		b := make([]byte, n)
		for i := range b {
			b[i] = byte(r.Range(10, 250))
		}
		return b
	}
	switch k := r.PickInt(c18Create, c18Write, c18Write, c18Write, c18Read, c18Read, c18Read, c18Stat, c18Stat, c18SetVersion, c18SetVersion, c18SetVersion,
		c18Pull, c18Pull, c18Pull, c18GCOld, c18GCGone, c18GCGone, c18Check, c18Check); k {
	case c18Create:
		return c18op{kind: k, tract: tract, a1: int64(r.Range(0, 2)), data: data()}
	case c18Write:
		return c18op{kind: k, tract: tract, a1: pickV(), a2: int64(r.Range(0, 4)), data: data()}
	case c18Read:
		return c18op{kind: k, tract: tract, a1: pickV(), a2: int64(r.Range(1, 6)), a3: 0}
	case c18Stat:
		return c18op{kind: k, tract: tract, a1: pickV()}
	case c18SetVersion:
		return c18op{kind: k, tract: tract, a1: int64(v + r.PickInt(0, 1, 1, 1, 2, -1)), a2: int64(r.PickInt(0, 0, 1, 1, 2, 3))}
	case c18Pull:
		var srcs []c18src
		for i, n := 0, r.PickInt(1, 1, 2); i < n; i++ {
			switch r.Intn(5) {
			case 0:
				srcs = append(srcs, c18src{core.ErrRPC, nil})
			case 1:
				srcs = append(srcs, c18src{core.ErrEOF, data()})
			default:
				srcs = append(srcs, c18src{core.NoError, data()})
			}
		}
		return c18op{kind: k, tract: tract, a1: int64(v + r.PickInt(0, 1, 1, -1)), sources: srcs}
	case c18GCOld:
		return c18op{kind: k, tract: tract, a1: pickV()}
	case c18GCGone:
		return c18op{kind: k, tract: tract}
	default:
		return c18op{kind: c18Check, tract: tract, a1: pickV()}
	}
}

func TestVerifC18(t *testing.T) {
	if !vw.Enabled() {
		t.Skip("verification harness: run through /verif/bin/check")
	}
	root := vw.NewRng(vw.Seed())
	tr := vw.OpenTrace("C18.trace")
	defer tr.Close()
	known := vw.OpenTrace("C18.known.trace")
	defer known.Close()
	mtr := vw.OpenTrace("C18.mgr.trace")
	defer mtr.Close()
	defer vw.Finish("C18")

	// One P: operations woken by a Broadcast then run in the (FIFO) order in which they started waiting, which
	// makes the realised wake-up order - and with it the trace - reproducible for a given seed.
	oldProcs := runtime.GOMAXPROCS(1)

	// ---- part 1: sequential, exhaustive in the failure position ----
	nseq := 0
	for _, sc := range c18scenarios() {
		for _, injErr := range append([]core.Error{core.NoError}, c18injErrs...) {
			for pos := 1; pos <= 24; pos++ {
				if injErr == core.NoError && pos > 1 {
					break
				}
				id := fmt.Sprintf("seq-%s-e%d-p%d", sc.name, int(injErr), pos)
				reached := false
				if !vw.CaseSelected(id) {
					// still need to know whether pos is reachable: cheap upper bound instead
					continue
				}
				calls := 0
				sop := sc.op
				sop.tract = c18tractID(0, sc.tract0)
				c := &c18case{id: id, tracts: []c18init{sc.tract0}, ops: []c18op{sop}, class: "seq"}
				c.choose = func(startable, parked []int, stepNo int, th []*c18thr) c18step {
					if len(startable) > 0 {
						return c18step{thread: 0, start: true}
					}
					calls++
					if injErr != core.NoError && calls == pos {
						reached = true
						return c18step{thread: 0, inj: injErr}
					}
					return c18step{thread: 0}
				}
				c18runCase(tr, known, c)
				nseq++
				vw.Stat("seq.cases", 1)
				vw.Stat(fmt.Sprintf("seq.calls=%d", calls), 1)
				if injErr != core.NoError && reached {
					vw.Distinct(id)
				}
				if injErr != core.NoError && !reached && vw.ReplayFile() == "" && os.Getenv("VERIF_CASES") == "" {
					break // position beyond the last Disk call of this scenario
				}
			}
		}
	}

	// ---- part 1b: directed interleavings (start every operation, then release by fixed priority) ----
	{
		pres := c18init{present: true, version: 2, data: c18bytes(1, 2, 3)}
		d := c18bytes(7)
		type directed struct {
			name   string
			tracts []c18init
			ops    []c18op
			prio   []int
			custom func(parked []int, th []*c18thr) (int, bool) // optional: which parked operation to release next
		}
		ds := []directed{
			// a conditional bump (stamp seen before any write) queues behind a reader together with a write
			{"condbump-behind-write", []c18init{pres},
				[]c18op{{kind: c18Read, a1: 2, a2: 2}, {kind: c18Write, a1: 2, a2: 0, data: d}, {kind: c18SetVersion, a1: 3, a2: 1}}, []int{0, 1, 2}, nil},
			{"condbump-before-write", []c18init{pres},
				[]c18op{{kind: c18Read, a1: 2, a2: 2}, {kind: c18SetVersion, a1: 3, a2: 1}, {kind: c18Write, a1: 2, a2: 0, data: d}}, []int{0, 1, 2}, nil},
			{"condbump-behind-two-writes", []c18init{pres},
				[]c18op{{kind: c18Stat, a1: 2}, {kind: c18Write, a1: 2, a2: 0, data: d}, {kind: c18Write, a1: 2, a2: 1, data: d}, {kind: c18SetVersion, a1: 3, a2: 2}}, []int{0, 1, 2, 3}, nil},
			// contention on two tracts: the unlock of tract 1 must wake the waiter of tract 1, not only a waiter of tract 0
			{"two-tracts-wakeup", []c18init{pres, pres},
				[]c18op{{kind: c18Write, tract: 0, a1: 2, data: d}, {kind: c18Read, tract: 0, a1: 2, a2: 2}, {kind: c18Write, tract: 1, a1: 2, data: d}, {kind: c18Read, tract: 1, a1: 2, a2: 2}}, []int{2, 3, 0, 1}, nil},
			{"two-tracts-wakeup-writers", []c18init{pres, pres},
				[]c18op{{kind: c18Write, tract: 0, a1: 2, data: d}, {kind: c18SetVersion, tract: 0, a1: 3}, {kind: c18Write, tract: 1, a1: 2, data: d}, {kind: c18Stat, tract: 1, a1: 2}, {kind: c18Check, tract: 1, a1: 2}}, []int{2, 0, 3, 4, 1}, nil},
			// a long copy-in: everybody else fails fast, on the other tract nobody notices
			{"pull-vs-all", []c18init{pres, pres},
				[]c18op{{kind: c18Pull, tract: 0, a1: 3, sources: []c18src{{core.NoError, c18bytes(5, 6)}}}, {kind: c18Read, tract: 0, a1: 2, a2: 2}, {kind: c18Write, tract: 0, a1: 2, data: d}, {kind: c18Read, tract: 1, a1: 2, a2: 2}}, []int{3, 0, 1, 2}, nil},
			// PackTracts is a long writer on the destination chunk: readers, writers, bumps and the scrubber of
			// the chunk fail fast (the scrubber skips), the other tract is untouched
			{"pack-vs-all", []c18init{{present: true, rs: true, data: c18bytes(4, 5, 6)}, pres},
				[]c18op{{kind: c18Pack, tract: 100, a1: 5, pack: []c18packSrc{{0, 2, []c18src{{core.ErrRPC, nil}, {core.NoError, c18bytes(8, 9)}}}, {2, 2, []c18src{{core.NoError, c18bytes(3, 3)}}}}},
					{kind: c18Read, tract: 100, a1: core.RSChunkVersion, a2: 2}, {kind: c18Write, tract: 100, a1: core.RSChunkVersion, data: d},
					{kind: c18Scrub, tract: 100}, {kind: c18SetVersion, tract: 100, a1: 2}, {kind: c18Stat, tract: 1, a1: 2}}, []int{5, 0, 1, 2, 3, 4}, nil},
			{"pack-behind-readers", []c18init{{present: true, rs: true, data: c18bytes(4, 5, 6)}},
				[]c18op{{kind: c18Read, tract: 100, a1: core.RSChunkVersion, a2: 3}, {kind: c18Scrub, tract: 100},
					{kind: c18Pack, tract: 100, a1: 3, pack: []c18packSrc{{0, 3, []c18src{{core.NoError, c18bytes(1, 1, 1)}}}}},
					{kind: c18Read, tract: 100, a1: core.RSChunkVersion, a2: 3}}, []int{0, 1, 2, 3}, nil},
			// GC gone against a long copy-in parked at the Delete of its own removeTract. Before fix ab74e69 the gone path took
			// no lock, deleted the tract here and PullTract returned ErrNoSuchTract (serial_equivalence_gcgone_refuted);
			// now it finds the long writer and skips. A non-serial outcome is a violation.
			{name: "gone-vs-pull", tracts: []c18init{pres},
				ops: []c18op{{kind: c18Pull, tract: 0, a1: 3, sources: []c18src{{core.NoError, c18bytes(5, 6)}}}, {kind: c18GCGone, tract: 0}},
				prio: []int{0, 1},
				custom: func(parked []int, th []*c18thr) (int, bool) {
					if th[0].state == c18stParked && th[0].park != c18ckDelete {
						return 0, true
					}
					if th[1].state == c18stParked {
						return 1, true
					}
					return 0, th[0].state == c18stParked
				}},
			{"scrub-vs-write", []c18init{pres},
				[]c18op{{kind: c18Scrub, tract: 0}, {kind: c18Write, tract: 0, a1: 2, data: d}, {kind: c18Scrub, tract: 0}}, []int{0, 1, 2}, nil},
		}
		for _, dc := range ds {
			id := "dir-" + dc.name
			if !vw.CaseSelected(id) {
				continue
			}
			dc := dc
			c := &c18case{id: id, tracts: dc.tracts, ops: dc.ops, class: "dir"}
			c.choose = func(startable, parked []int, stepNo int, th []*c18thr) c18step {
				if len(startable) > 0 {
					return c18step{thread: startable[0], start: true}
				}
				if dc.custom != nil {
					if k, ok := dc.custom(parked, th); ok {
						return c18step{thread: k}
					}
				}
				for _, p := range dc.prio {
					for _, q := range parked {
						if p == q {
							return c18step{thread: q}
						}
					}
				}
				return c18step{thread: parked[0]}
			}
			c18runCase(tr, known, c)
			if dc.name == "gone-vs-pull" && c.lastResults != nil && len(c.lastResults[0]) > 0 {
				vw.Stat("obs.gone-vs-pull.pull-result="+c18errName(c.lastResults[0][0]), 1)
				if core.Error(c.lastResults[0][0]) != core.NoError {
					c18reportOnce(c, "gc-gone-interleaved-with-copy-in",
						"PullTract whose source delivered returned "+c18errName(c.lastResults[0][0])+" because GCTracts(gone) deleted the tract between its lookup and its Delete: no serial order of the two gives that",
						map[string]interface{}{"ops": c18opsDesc(c)})
				}
			}
			vw.Stat("dir.cases", 1)
			vw.Distinct(id)
		}
	}

	// ---- part 2: concurrent, schedule-controlled ----
	nconc := vw.Scale(2500, 120000)
	for ci := 0; ci < nconc; ci++ {
		id := fmt.Sprintf("conc-%d", ci)
		if !vw.CaseSelected(id) {
			continue
		}
		r := root.Fork(uint64(ci))
		ntr := r.PickInt(1, 1, 1, 2)
		c := &c18case{id: id, class: "conc"}
		for k := 0; k < ntr; k++ {
			if r.Chance(3, 4) {
				n := r.Range(1, 5)
				b := make([]byte, n)
				for i := range b {
					b[i] = byte(r.Range(1, 9))
				}
				c.tracts = append(c.tracts, c18init{present: true, version: r.Range(1, 3), data: b})
			} else {
				c.tracts = append(c.tracts, c18init{})
			}
			if r.Chance(1, 4) {
				c.tracts[k].rs = true
			}
		}
		nops := r.PickInt(2, 2, 3, 3, 4)
		for i := 0; i < nops; i++ {
			k := r.Intn(ntr)
			c.ops = append(c.ops, c18genOp(r, c18tractID(k, c.tracts[k]), c.tracts[k]))
		}
		faulty := r.Chance(1, 3)
		c.choose = func(startable, parked []int, stepNo int, th []*c18thr) c18step {
			// prefer starting new operations early so that sections overlap
			if len(startable) > 0 && (len(parked) == 0 || r.Chance(1, 2)) {
				return c18step{thread: startable[0], start: true}
			}
			st := c18step{thread: parked[r.Intn(len(parked))]}
			if faulty && r.Chance(1, 8) {
				st.inj = c18injErrs[r.Intn(len(c18injErrs))]
			}
			return st
		}
		c18runCase(tr, known, c)
		vw.Stat("conc.cases", 1)
		vw.Stat(fmt.Sprintf("conc.ops=%d.tracts=%d", nops, ntr), 1)
		vw.Distinct(c18opsDesc(c))
		if ci < 4 {
			vw.Sample("conc case: " + c18opsDesc(c))
		}
	}
	vw.Stat("cases", int64(nseq+nconc))

	runtime.GOMAXPROCS(oldProcs)

	// ---- part 3: Manager open-file accounting (F4) ----
	c18managerPart(mtr, root)

	// ---- part 3b: Store over a real Manager, contexts canceled at every stage of every request ----
	c18managerStorePart(mtr)

	// ---- part 4 (thorough tier only, search support): the concurrent mixes free-running under the race detector ----
	if vw.Thorough() && os.Getenv("VERIF_CASES") == "" {
		c18raceSupport()
	}
}

// c18raceSupport re-runs `go test -race -run TestVerifC18Race` on the same tree with the same overlay and turns every
// reported data race whose stack touches internal/tractserver code into a monitor violation data-race/<site>.
func c18raceSupport() {
	ov := filepath.Join(filepath.Dir(vw.OutDir()), "overlay.json")
	repo := os.Getenv("VERIF_REPO")
	if _, err := os.Stat(ov); err != nil || repo == "" {
		vw.Stat("race.skipped-no-overlay", 1)
		return
	}
	out := filepath.Join(vw.OutDir(), "race")
	os.MkdirAll(out, 0o755)
	cmd := exec.Command("go", "test", "-race", "-tags", "verif", "-overlay", ov, "-vet=off", "-count=1", "-timeout", "900s",
		"-run", "TestVerifC18Race$", "./internal/tractserver/")
	cmd.Dir = repo
	cmd.Env = append(os.Environ(), "VERIF_OUT="+out, "VERIF_C18_RACE=1")
	b, err := cmd.CombinedOutput()
	txt := string(b)
	if strings.Contains(txt, "-race is not supported") || strings.Contains(txt, "requires cgo") {
		vw.Stat("race.detector-unavailable", 1)
		return
	}
	vw.Stat("race.runs", 1)
	blocks := strings.Split(txt, "WARNING: DATA RACE")
	site := regexp.MustCompile(`internal/tractserver/([a-z_]+\.go):(\d+)`)
	fn := regexp.MustCompile(`tractserver\.([A-Za-z0-9_().*]+)\(`)
	for _, blk := range blocks[1:] {
		if end := strings.Index(blk, "=================="); end >= 0 {
			blk = blk[:end]
		}
		sig := ""
		lines := strings.Split(blk, "\n")
		for i, ln := range lines {
			m := site.FindStringSubmatch(ln)
			if m == nil || strings.HasPrefix(m[1], "zz_verif") {
				continue
			}
			name := m[1]
			if i > 0 {
				if f := fn.FindStringSubmatch(lines[i-1]); f != nil {
					name = f[1]
				}
			}
			sig = "data-race/" + strings.NewReplacer("(*", "", ")", "", "(", "").Replace(name)
			break
		}
		if sig == "" {
			vw.Stat("race.outside-tractserver", 1)
			continue
		}
		vw.Stat("mon.data-race", 1)
		if len(blk) > 1800 {
			blk = blk[:1800]
		}
		c18reportOnce(&c18case{id: "race"}, sig, "the race detector reported a data race in internal/tractserver code while operations ran concurrently",
			map[string]interface{}{"report": blk})
	}
	if err != nil && len(blocks) == 1 && !strings.Contains(txt, "ok ") {
		vw.Stat("race.child-failed", 1)
		vw.Sample("race child: " + txt)
	}
}

// TestVerifC18Race is the child of c18raceSupport: generated operation mixes on 1-2 tracts, every operation in its own
// free-running goroutine (no parking), plus the quiescence monitors. Only meaningful under `go test -race`.
func TestVerifC18Race(t *testing.T) {
	if os.Getenv("VERIF_C18_RACE") == "" || !vw.Enabled() {
		t.Skip("child of the C18 harness (thorough tier)")
	}
	root := vw.NewRng(vw.Seed() ^ 0x5eed)
	n := 400
	for ci := 0; ci < n; ci++ {
		r := root.Fork(uint64(ci))
		ntr := r.PickInt(1, 1, 2)
		var tracts []c18init
		for k := 0; k < ntr; k++ {
			ti := c18init{present: r.Chance(3, 4), version: r.Range(1, 3), data: c18bytes(1, 2, 3), rs: r.Chance(1, 4)}
			tracts = append(tracts, ti)
		}
		e := c18newEnv(fmt.Sprintf("race-%d", ci))
		for pos, ti := range tracts {
			if !ti.present {
				continue
			}
			id := c18tid(c18tractID(pos, ti))
			err := e.s.Create(context.Background(), id, ti.data, 0)
			for v := 2; !ti.rs && err == core.NoError && v <= ti.version; v++ {
				_, err = e.s.SetVersion(id, v, 0)
			}
		}
		nops := r.Range(3, 8)
		var wg sync.WaitGroup
		for i := 0; i < nops; i++ {
			k := r.Intn(ntr)
			th := &c18thr{idx: i, op: c18genOp(r, c18tractID(k, tracts[k]), tracts[k])}
			wg.Add(1)
			go func() {
				defer wg.Done()
				e.runOp(th)
			}()
		}
		done := make(chan struct{})
		go func() { wg.Wait(); close(done) }()
		select {
		case <-done:
		case <-time.After(20 * time.Second):
			t.Errorf("race case %d: operations did not finish", ci)
			return
		}
		e.s.busyLock.Lock()
		nb := len(e.s.busy)
		e.s.busyLock.Unlock()
		if nb != 0 {
			t.Errorf("race case %d: busy map not empty at quiescence", ci)
		}
		e.close()
	}
}

// ---------- part 3: Manager ----------
// ops (line 30): 1 open-create, 2 open-missing (fails), 3 close, 4 opendir, 5 opendir-missing (fails), 6 closedir
// obs: ok(0/1), openFiles after.  line 31: Stop; obs: retired(0/1) within the time budget, openFiles.
func c18managerPart(tr *vw.Trace, root *vw.Rng) {
	ncases := vw.Scale(24, 300)
	for ci := 0; ci < ncases; ci++ {
		id := fmt.Sprintf("mgr-%d", ci)
		if !vw.CaseSelected(id) {
			continue
		}
		r := root.Fork(uint64(1000000 + ci))
		dir, err := ioutil.TempDir("", "c18mgr")
		if err != nil {
			panic(err)
		}
		cfg := DefaultTestConfig
		m, merr := NewManager(dir, &cfg)
		if merr != nil {
			panic(merr)
		}
		tr.Case(id)
		var files []interface{}
		var dirs []interface{}
		nops := r.Range(1, 8)
		failed := 0
		ctx := context.Background()
		for i := 0; i < nops; i++ {
			k := r.PickInt(1, 1, 2, 3, 3, 4, 5, 6)
			if ci < 6 {
				k = []int{2, 5, 1, 4, 2, 1}[ci] // make sure the basic shapes are always present
				if i > 0 {
					k = r.PickInt(1, 3, 4, 6)
				}
			}
			ok := int64(0)
			switch k {
			case 1:
				f, e := m.Open(ctx, core.TractID{Blob: 77, Index: core.TractKey(i)}, os.O_CREATE|os.O_RDWR)
				if e == core.NoError {
					ok = 1
					files = append(files, f)
				}
			case 2:
				_, e := m.Open(ctx, core.TractID{Blob: 78, Index: core.TractKey(i)}, os.O_RDONLY)
				if e == core.NoError {
					ok = 1
				} else {
					failed++
				}
			case 3:
				if len(files) == 0 {
					continue
				}
				if m.Close(files[len(files)-1]) == core.NoError {
					ok = 1
				}
				files = files[:len(files)-1]
			case 4:
				d, e := m.OpenDir()
				if e == core.NoError {
					ok = 1
					dirs = append(dirs, d)
				}
			case 5:
				_, e := m.schedule(ctx, opendirRequest{dir + "/no-such-dir"})
				if e == core.NoError {
					ok = 1
				} else {
					failed++
				}
			case 6:
				if len(dirs) == 0 {
					continue
				}
				if m.CloseDir(dirs[len(dirs)-1]) == core.NoError {
					ok = 1
				}
				dirs = dirs[:len(dirs)-1]
			}
			tr.Op(30, int64(k), ok, atomic.LoadInt64(&m.openFiles))
			tr.Obs(777, 1)
			vw.Stat(fmt.Sprintf("mgr.op=%d", k), 1)
		}
		// close everything still open, then Stop: the workers must retire
		for _, f := range files {
			m.Close(f)
			tr.Op(30, 3, 1, atomic.LoadInt64(&m.openFiles))
			tr.Obs(777, 1)
		}
		for _, d := range dirs {
			m.CloseDir(d)
			tr.Op(30, 6, 1, atomic.LoadInt64(&m.openFiles))
			tr.Obs(777, 1)
		}
		of := atomic.LoadInt64(&m.openFiles)
		m.Stop()
		retired := int64(0)
		for w := 0; w < 40; w++ {
			if atomic.LoadUint64(&m.workers) == 0 {
				retired = 1
				break
			}
			time.Sleep(10 * time.Millisecond)
		}
		tr.Op(31, retired, atomic.LoadInt64(&m.openFiles))
		tr.Obs(777, 1)
		if of != 0 {
			vw.Stat("mon.openfiles-nonzero", 1)
			vw.Report(vw.Violation{Property: "C18", Signature: fmt.Sprintf("manager-openfiles-nonzero-after-all-closed-failed-opens=%s", c18some(failed)),
				What: "Manager.openFiles is not back to zero although every successfully opened file and directory was closed", Case: id,
				Detail: map[string]interface{}{"openFiles": of, "failedOpens": failed}})
		}
		if retired == 0 {
			vw.Stat("mon.stop-not-retired", 1)
			vw.Report(vw.Violation{Property: "C18", Signature: fmt.Sprintf("manager-stop-never-retires-workers-failed-opens=%s", c18some(failed)),
				What: "Manager.Stop did not retire the I/O workers within 400 ms although nothing is open or queued", Case: id,
				Detail: map[string]interface{}{"openFiles": of, "failedOpens": failed}})
		}
		vw.Stat("mgr.cases", 1)
		os.RemoveAll(dir)
	}
}

func c18some(n int) string {
	if n > 0 {
		return "some"
	}
	return "none"
}

var _ = sort.Ints

// ---------- part 3b: Store operations on a Manager-backed disk with canceled contexts ----------
// A thin Disk wrapper around the real Manager calls a hook before every Disk call of the running operation; the hook
// cancels the operation's context at a chosen call index, in one of three ways:
//   mode 0  synchronously before the call is handed to the Manager (index 0 = before the operation starts),
//   mode 1  while the request sits in the Manager's queue (workers retired, request queued, cancel, workers restarted),
//   mode 2  concurrently with the request's execution (a race on purpose; monitors only, not written to the trace).
// After every operation: Manager.openFiles back to its base, no /proc/self/fd entry under the tract directory, busy map
// empty. Every Open/Close of the wrapper is a line `30 req ok openFiles` (req 1 open ok, 2 open failed, 7 open canceled,
// 3 close) judged by the model's manager counter.
type c18mwrap struct {
	Disk
	hook func(kind int)
	post func(kind int, err core.Error)
}

func (d *c18mwrap) Open(ctx context.Context, id core.TractID, flags int) (interface{}, core.Error) {
	d.hook(c18ckOpen)
	f, e := d.Disk.Open(ctx, id, flags)
	d.post(c18ckOpen, e)
	return f, e
}
func (d *c18mwrap) Close(f interface{}) core.Error {
	d.hook(c18ckClose)
	e := d.Disk.Close(f)
	d.post(c18ckClose, e)
	return e
}
func (d *c18mwrap) Write(ctx context.Context, f interface{}, b []byte, off int64) (int, core.Error) {
	d.hook(c18ckWrite)
	return d.Disk.Write(ctx, f, b, off)
}
func (d *c18mwrap) Read(ctx context.Context, f interface{}, b []byte, off int64) (int, core.Error) {
	d.hook(c18ckRead)
	return d.Disk.Read(ctx, f, b, off)
}
func (d *c18mwrap) Size(f interface{}) (int64, core.Error) { d.hook(c18ckSize); return d.Disk.Size(f) }
func (d *c18mwrap) Delete(id core.TractID) core.Error     { d.hook(c18ckDelete); return d.Disk.Delete(id) }
func (d *c18mwrap) Getxattr(f interface{}, name string) ([]byte, core.Error) {
	d.hook(c18ckGetx)
	return d.Disk.Getxattr(f, name)
}
func (d *c18mwrap) Setxattr(f interface{}, name string, value []byte) core.Error {
	d.hook(c18ckSetx)
	return d.Disk.Setxattr(f, name, value)
}

type c18okTalker struct{}

func (c18okTalker) CtlRead(ctx context.Context, addr string, id core.TractID, version, length int, off int64) ([]byte, core.Error) {
	return []byte{1, 2, 3}, core.NoError
}
func (c18okTalker) CtlWrite(ctx context.Context, addr string, id core.TractID, v int, off int64, b []byte) core.Error {
	return core.ErrRPC
}

func c18fdsUnder(dir string) int {
	ents, err := os.ReadDir("/proc/self/fd")
	if err != nil {
		return 0
	}
	n := 0
	for _, e := range ents {
		if tgt, err := os.Readlink(filepath.Join("/proc/self/fd", e.Name())); err == nil && strings.HasPrefix(tgt, dir+"/") {
			n++
		}
	}
	return n
}

func c18managerStorePart(tr *vw.Trace) {
	dir, err := ioutil.TempDir("", "c18mgrs")
	if err != nil {
		panic(err)
	}
	defer os.RemoveAll(dir)
	cfg := DefaultTestConfig
	cfg.ScrubRate = 0
	m, merr := NewManager(dir, &cfg)
	if merr != nil {
		panic(merr)
	}
	var (
		calls    int
		cancelAt int
		mode     int
		cancel   context.CancelFunc
		lines    [][]int64
		base     int64
		live     bool
	)
	w := &c18mwrap{Disk: m}
	w.hook = func(kind int) {
		if !live {
			return
		}
		calls++
		if calls != cancelAt || cancel == nil {
			return
		}
		switch mode {
		case 0:
			cancel()
		case 1: // cancel while the request is queued: nobody executes until the context is canceled
			m.setWorkers(0)
			c := cancel
			go func() {
				for i := 0; m.queue.Len() == 0 && i < 2000; i++ {
					time.Sleep(50 * time.Microsecond)
				}
				c()
				m.setWorkers(cfg.Workers)
			}()
		case 2:
			go cancel()
		}
	}
	w.post = func(kind int, e core.Error) {
		if !live {
			return
		}
		of := atomic.LoadInt64(&m.openFiles) - base
		switch {
		case kind == c18ckOpen && e == core.NoError:
			lines = append(lines, []int64{30, 1, 1, of})
		case kind == c18ckOpen && e == core.ErrCanceled:
			lines = append(lines, []int64{30, 7, 0, of})
		case kind == c18ckOpen:
			lines = append(lines, []int64{30, 2, 0, of})
		case kind == c18ckClose:
			ok := int64(0)
			if e == core.NoError {
				ok = 1
			}
			_ = ok
			lines = append(lines, []int64{30, 3, 1, of})
		}
	}
	s := NewStore(c18okTalker{}, NewMetadataStore(), &cfg)
	s.AddDisk(w)
	bg := context.Background()
	type mop struct {
		name  string
		fresh bool // run on a tract that does not exist yet
		run   func(ctx context.Context, id core.TractID) core.Error
	}
	data := []byte{9, 8, 7}
	ops := []mop{
		{"Create", true, func(ctx context.Context, id core.TractID) core.Error { return s.Create(ctx, id, data, 0) }},
		{"CreateExisting", false, func(ctx context.Context, id core.TractID) core.Error { return s.Create(ctx, id, data, 0) }},
		{"Write", false, func(ctx context.Context, id core.TractID) core.Error { return s.Write(ctx, id, 1, data, 1) }},
		{"WriteBadVersion", false, func(ctx context.Context, id core.TractID) core.Error { return s.Write(ctx, id, 5, data, 1) }},
		{"Read", false, func(ctx context.Context, id core.TractID) core.Error { _, e := s.Read(ctx, id, 1, 3, 0); return e }},
		{"Stat", false, func(ctx context.Context, id core.TractID) core.Error { _, _, e := s.Stat(ctx, id, 1); return e }},
		{"PullTract", false, func(ctx context.Context, id core.TractID) core.Error { return s.PullTract(ctx, []string{"a"}, id, 2) }},
		{"PullTractAbsent", true, func(ctx context.Context, id core.TractID) core.Error { return s.PullTract(ctx, []string{"a"}, id, 2) }},
		{"PackTracts", true, func(ctx context.Context, id core.TractID) core.Error {
			sp := &core.PackTractSpec{ID: core.TractID{Blob: core.BlobIDFromParts(5, 77), Index: 1}, From: []core.TSAddr{{ID: 1, Host: "a"}}, Version: 1, Offset: 0, Length: 3}
			return s.PackTracts(ctx, 4, []*core.PackTractSpec{sp}, c18chunk(int(id.Index)+1000))
		}},
		// operations without a caller context (context.TODO inside): run for the balance only
		{"SetVersion", false, func(ctx context.Context, id core.TractID) core.Error { _, e := s.SetVersion(id, 2, 0); return e }},
		{"GCOld", false, func(ctx context.Context, id core.TractID) core.Error { return s.maybeGCTract(core.TractState{ID: id, Version: 1}) }},
		{"GCGone", false, func(ctx context.Context, id core.TractID) core.Error { s.GCTracts(nil, []core.TractID{id}); return core.NoError }},
		{"Check", false, func(ctx context.Context, id core.TractID) core.Error { s.Check([]core.TractState{{ID: id, Version: 1}}); return core.NoError }},
	}
	next := 1
	for _, op := range ops {
		for md := 0; md <= 2; md++ {
			for k := 0; k <= 12; k++ {
				if md != 0 && k == 0 {
					continue
				}
				cid := fmt.Sprintf("mgrs-%s-m%d-k%d", op.name, md, k)
				if !vw.CaseSelected(cid) {
					continue
				}
				id := core.TractID{Blob: core.BlobIDFromParts(3, 500), Index: core.TractKey(next)}
				next++
				live = false
				if !op.fresh {
					if e := s.Create(bg, id, []byte{1, 2, 3, 4}, 0); e != core.NoError {
						panic("c18 manager store setup: " + e.String())
					}
				}
				base = atomic.LoadInt64(&m.openFiles)
				fd0 := c18fdsUnder(m.tractRoot)
				ctx, cf := context.WithCancel(bg)
				cancel, calls, cancelAt, mode, lines = cf, 0, k, md, nil
				if k == 0 {
					cf()
				}
				live = true
				res := op.run(ctx, id)
				live = false
				cf()
				reached := k == 0 || calls >= k
				// let a mode-1 helper goroutine restart the workers before we look
				for i := 0; atomic.LoadUint64(&m.workers) == 0 && i < 4000; i++ {
					time.Sleep(50 * time.Microsecond)
				}
				of := atomic.LoadInt64(&m.openFiles) - base
				fds := c18fdsUnder(m.tractRoot) - fd0
				s.busyLock.Lock()
				nb := len(s.busy)
				s.busyLock.Unlock()
				c := &c18case{id: cid}
				detail := map[string]interface{}{"op": op.name, "cancelBeforeCall": k, "mode": md, "result": c18errName(int64(res)), "openFilesDelta": of, "fdDelta": fds}
				if of != 0 {
					vw.Stat("mon.manager-open-file-leak", 1)
					c18reportOnce(c, fmt.Sprintf("manager-openfiles-not-restored-op=%s-result=%s", op.name, c18errName(int64(res))),
						"a Store operation on a Manager-backed disk returned and Manager.openFiles is not back to its previous value (Stop will never retire the workers)", detail)
				}
				if fds != 0 {
					vw.Stat("mon.manager-fd-leak", 1)
					c18reportOnce(c, fmt.Sprintf("manager-fd-leak-op=%s-result=%s", op.name, c18errName(int64(res))),
						"a Store operation on a Manager-backed disk returned and left a file descriptor open on a tract file", detail)
				}
				if nb != 0 {
					c18reportOnce(c, "busy-not-empty-at-quiescence", "a Store operation on a Manager-backed disk returned with the busy map not empty", detail)
				}
				vw.Stat("mgrs.cases", 1)
				vw.Stat("mgrs.result="+c18errName(int64(res)), 1)
				if md != 2 && len(lines) > 0 {
					tr.Case(cid)
					for _, l := range lines {
						tr.Op(l...)
						tr.Obs(777, 1)
					}
				}
				if reached && k > 0 {
					vw.Distinct(cid)
				}
				if !reached && k > 0 {
					break // k is beyond the last Disk call of this operation
				}
			}
		}
	}
	m.Stop()
}
