package tractserver

// C13 shim (injected by `go test -overlay`; lives in /verif, never in /repo).
// Exposes the unexported reconstructAndVerify / checkTractSpec of store.go to the C13 harness
// (which lives in package curator so that it can drive the whole real pipeline).

import (
	"github.com/klauspost/reedsolomon"

	"github.com/westerndigitalcorporation/blb/internal/core"
)

// VerifReconstructAndVerify is store.go's reconstructAndVerify.
func VerifReconstructAndVerify(enc reedsolomon.Encoder, data [][]byte) error {
	return reconstructAndVerify(enc, data)
}

// VerifCheckTractSpec is store.go's checkTractSpec.
func VerifCheckTractSpec(srcs []*core.PackTractSpec, length int) bool {
	return checkTractSpec(srcs, length)
}
