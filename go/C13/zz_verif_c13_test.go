package curator

// C13 harness (injected by `go test -overlay`; lives in /verif, never in /repo).
//
// "Reed-Solomon encoding and reconstruction are exact and fail closed."
//
// Two kinds of cases, all compared line by line with the extracted Coq model (C13/Model.v):
//
//  codec-*  : the model codec (Lib/RS.v) against the real klauspost library: Encode, Reconstruct,
//             ReconstructData, Verify, store.go's reconstructAndVerify, for every configured class and every
//             loss subset of size <= m+1 (exhaustive for 6+3 / 8+3 in quick, all classes in thorough).
//  stripe-* : the whole REAL pipeline in one process: a real Curator (raft test node, durable state), real
//             tractserver Stores on MemDisks connected by in-process talkers, and the real client:
//             blobs are created/extended through the curator, written to the stores, read through the client
//             (replicated), then packed + encoded + committed by the real tractPacker (stat, packTracts,
//             PackTracts, RSEncode in small increments, SetVersion bump, CommitRSChunk through raft), read again
//             through the RS pointers (direct, and with client-side reconstruction under every kind of piece
//             loss / blank host / responder order), reconstructed on a tractserver by the real
//             reconstructChunk (and by Store.RSEncode with arbitrary index maps), and read again.
//
// MONITORS (independent of the model): rs-read (bytes/count/EOF of the read through the erasure-coded location
// == the replicated read), pieces (every piece byte for byte: data = packed layout, parity verified by the
// library), reconstruct (pieces after reconstruction == the original pieces), fail-closed (too many missing =>
// error, no bytes, nothing written).

import (
	"bytes"
	"context"
	"fmt"
	"io"
	"sort"
	"sync"
	"testing"
	"time"

	"github.com/klauspost/reedsolomon"

	"github.com/westerndigitalcorporation/blb/client/blb"
	"github.com/westerndigitalcorporation/blb/internal/core"
	"github.com/westerndigitalcorporation/blb/internal/curator/durable/state/fb"
	"github.com/westerndigitalcorporation/blb/internal/curator/storageclass"
	"github.com/westerndigitalcorporation/blb/internal/tractserver"
	vw "github.com/westerndigitalcorporation/blb/pkg/verifwire"
)

const c13prop = "C13"

var c13bg = context.Background()

// ------------------------------------------------------------------------------------------------
// data pattern shared with the model (Model.pat)

func c13pat(a, b uint64, i int64) byte {
	x := uint64(i) + b
	return byte(x*a + (x>>8)*37 + (x>>16)*101)
}

func c13fill(a, b uint64, n int) []byte {
	out := make([]byte, n)
	for i := range out {
		out[i] = c13pat(a, b, int64(i))
	}
	return out
}

func c13bytes(l *vw.L, b []byte) {
	for _, x := range b {
		*l = append(*l, int64(x))
	}
}

// ------------------------------------------------------------------------------------------------
// the in-process cluster


type c13encReq struct {
	addr     string
	id       core.RSChunkID
	length   int
	srcs     []core.TSAddr
	dests    []core.TSAddr
	indexMap []int
}

type c13env struct {
	numTS  int // tractservers registered with this curator (few servers => piece placements of different stripes collide)
	c      *Curator
	stores map[string]*tractserver.Store
	ids    map[string]core.TractserverID
	addrOf map[core.TractserverID]string
	cli    *blb.Client

	mu      sync.Mutex
	target  int // what the harness substitutes for RSPieceLength in reconstruction requests
	encReqs []c13encReq
	created map[string][]core.TractID // per store: ids to clean up
	// client-side fault injection (RS pieces only)
	blank map[core.TractserverID]bool
	fail  map[string]bool
	rank  map[string]int
	// tractserver-side fault injection (one failing CtlRead / CtlWrite)
	tsFault c13fault
}

func c13addr(i int) string { return fmt.Sprintf("ts:%d", i) }

func c13isRS(id core.TractID) bool { return id.Blob.Partition().Type() == core.RSPartition }

func (e *c13env) note(addr string, id core.TractID) {
	e.mu.Lock()
	e.created[addr] = append(e.created[addr], id)
	e.mu.Unlock()
}

// --- tractserver <-> tractserver (tractserver.TractserverTalker)
type c13tsTT struct{ e *c13env }

// c13fault makes ONE kind of tractserver-to-tractserver call fail: the CtlRead from (or CtlWrite to) addr at piece
// offset off, i.e. in one chosen increment of an RSEncode.
type c13fault struct {
	active bool
	write  bool
	addr   string
	off    int64
	hits   int
}

func (t c13tsTT) faulted(write bool, addr string, id core.TractID, off int64) bool {
	t.e.mu.Lock()
	defer t.e.mu.Unlock()
	f := &t.e.tsFault
	if f.active && c13isRS(id) && f.write == write && f.addr == addr && f.off == off {
		f.hits++
		return true
	}
	return false
}

func (t c13tsTT) CtlRead(ctx context.Context, addr string, id core.TractID, version int, length int, off int64) ([]byte, core.Error) {
	s := t.e.stores[addr]
	if s == nil || t.faulted(false, addr, id, off) {
		return nil, core.ErrRPC
	}
	return s.Read(ctx, id, version, length, off)
}

// as TSCtlHandler.CtlWrite (server.go): RS chunks only; offset 0 creates.
func (t c13tsTT) CtlWrite(ctx context.Context, addr string, id core.TractID, v int, off int64, b []byte) core.Error {
	s := t.e.stores[addr]
	if s == nil {
		return core.ErrRPC
	}
	if !c13isRS(id) {
		return core.ErrInvalidArgument
	}
	if t.faulted(true, addr, id, off) {
		return core.ErrRPC
	}
	t.e.note(addr, id)
	cp := append([]byte(nil), b...)
	if off == 0 {
		return s.Create(ctx, id, cp, off)
	}
	return s.Write(ctx, id, v, cp, off)
}

// --- curator -> tractserver (curator.TractserverTalker)
type c13curTT struct{ e *c13env }

func (t c13curTT) SetVersion(addr string, tsid core.TractserverID, id core.TractID, newVersion int, stamp uint64) core.Error {
	s := t.e.stores[addr]
	if s == nil {
		return core.ErrRPC
	}
	_, err := s.SetVersion(id, newVersion, stamp)
	return err
}
func (t c13curTT) PullTract(addr string, tsid core.TractserverID, from []string, id core.TractID, version int) core.Error {
	return core.ErrRPC
}
func (t c13curTT) CheckTracts(addr string, tsid core.TractserverID, tracts []core.TractState) core.Error {
	return core.NoError
}
func (t c13curTT) GCTract(addr string, tsid core.TractserverID, old []core.TractState, gone []core.TractID) core.Error {
	s := t.e.stores[addr]
	if s == nil {
		return core.ErrRPC
	}
	s.GCTracts(old, gone)
	return core.NoError
}
func (t c13curTT) CtlStatTract(addr string, tsid core.TractserverID, id core.TractID, version int) core.StatTractReply {
	s := t.e.stores[addr]
	if s == nil {
		return core.StatTractReply{Err: core.ErrRPC}
	}
	size, stamp, err := s.Stat(c13bg, id, version)
	return core.StatTractReply{Err: err, Size: size, ModStamp: stamp}
}
func (t c13curTT) PackTracts(addr string, tsid core.TractserverID, length int, tracts []*core.PackTractSpec, id core.RSChunkID) core.Error {
	s := t.e.stores[addr]
	if s == nil {
		return core.ErrRPC
	}
	t.e.note(addr, id.ToTractID())
	return s.PackTracts(c13bg, length, tracts, id)
}
func (t c13curTT) RSEncode(addr string, tsid core.TractserverID, id core.RSChunkID, length int, srcs, dests []core.TSAddr, indexMap []int) core.Error {
	s := t.e.stores[addr]
	if s == nil {
		return core.ErrRPC
	}
	t.e.mu.Lock()
	t.e.encReqs = append(t.e.encReqs, c13encReq{addr, id, length, srcs, dests, append([]int(nil), indexMap...)})
	if length == RSPieceLength {
		// reconstructChunk always asks for the production piece length (a constant); the harness works with
		// small pieces, so the length (a plain function argument of Store.RSEncode) is substituted here.
		length = t.e.target
	}
	t.e.mu.Unlock()
	return s.RSEncode(c13bg, id, length, srcs, dests, indexMap)
}

// --- client -> master / curator / tractserver
type c13cliMaster struct{}

func (c13cliMaster) MasterCreateBlob(ctx context.Context) (string, core.Error) { return "cur", core.NoError }
func (c13cliMaster) LookupPartition(ctx context.Context, part core.PartitionID) (string, core.Error) {
	return "cur", core.NoError
}
func (c13cliMaster) ListPartitions(ctx context.Context) ([]core.PartitionID, core.Error) {
	return nil, core.NoError
}
func (c13cliMaster) GetTractserverInfo(ctx context.Context) ([]core.TractserverInfo, core.Error) {
	return nil, core.NoError
}

type c13cliCur struct{ e *c13env }

func (c c13cliCur) CreateBlob(ctx context.Context, addr string, md core.BlobInfo) (core.BlobID, core.Error) {
	return 0, core.ErrInvalidState
}
func (c c13cliCur) ExtendBlob(ctx context.Context, addr string, blob core.BlobID, n int) ([]core.TractInfo, core.Error) {
	return nil, core.ErrInvalidState
}
func (c c13cliCur) AckExtendBlob(ctx context.Context, addr string, blob core.BlobID, tracts []core.TractInfo) core.Error {
	return core.ErrInvalidState
}
func (c c13cliCur) DeleteBlob(ctx context.Context, addr string, blob core.BlobID) core.Error {
	return core.ErrInvalidState
}
func (c c13cliCur) UndeleteBlob(ctx context.Context, addr string, blob core.BlobID) core.Error {
	return core.ErrInvalidState
}
func (c c13cliCur) SetMetadata(ctx context.Context, addr string, blob core.BlobID, md core.BlobInfo) core.Error {
	return core.ErrInvalidState
}

// GetTracts is the real Curator.getTracts; hosts in the harness' "blank" set are reported as "" exactly as the
// tractserver monitor does for a tractserver it no longer knows.
func (c c13cliCur) GetTracts(ctx context.Context, addr string, blob core.BlobID, start, end int, forRead, forWrite bool) ([]core.TractInfo, core.Error) {
	tracts, _, err := c.e.c.getTracts(blob, start, end)
	if err != core.NoError {
		return nil, err
	}
	c.e.mu.Lock()
	defer c.e.mu.Unlock()
	for i := range tracts {
		rs := &tracts[i].RS
		if !rs.Present() {
			continue
		}
		rs.OtherHosts = append([]string(nil), rs.OtherHosts...)
		for j, id := range rs.OtherTSIDs {
			if c.e.blank[id] {
				rs.OtherHosts[j] = ""
			}
		}
		if c.e.blank[rs.TSID] {
			rs.Host = ""
		}
	}
	return tracts, core.NoError
}
func (c c13cliCur) StatBlob(ctx context.Context, addr string, blob core.BlobID) (core.BlobInfo, core.Error) {
	return core.BlobInfo{}, core.ErrInvalidState
}
func (c c13cliCur) ReportBadTS(ctx context.Context, addr string, id core.TractID, bad, op string, got core.Error, couldRecover bool) core.Error {
	return core.NoError
}
func (c c13cliCur) FixVersion(ctx context.Context, addr string, tract core.TractInfo, bad string) core.Error {
	return core.NoError
}
func (c c13cliCur) ListBlobs(ctx context.Context, addr string, partition core.PartitionID, start core.BlobKey) ([]core.BlobKey, core.Error) {
	return nil, core.NoError
}

type c13cliTS struct{ e *c13env }

func (t c13cliTS) Create(ctx context.Context, addr string, tsid core.TractserverID, id core.TractID, b []byte, off int64) core.Error {
	return core.ErrInvalidState
}
func (t c13cliTS) Write(ctx context.Context, addr string, id core.TractID, version int, b []byte, off int64) core.Error {
	return core.ErrInvalidState
}

// gate: RS piece reads on failing hosts fail; responders answer in the order given by rank (a small delay per
// rank), so that "the first n that come in" varies; a cancelled request returns at once.
func (t c13cliTS) gate(ctx context.Context, addr string, id core.TractID) core.Error {
	if !c13isRS(id) {
		return core.NoError
	}
	t.e.mu.Lock()
	bad := t.e.fail[addr]
	rk := t.e.rank[addr]
	t.e.mu.Unlock()
	if rk > 0 {
		select {
		case <-ctx.Done():
			return core.ErrCanceled
		case <-time.After(time.Duration(rk) * 150 * time.Microsecond):
		}
	}
	if bad || addr == "" {
		return core.ErrRPC
	}
	return core.NoError
}
func (t c13cliTS) Read(ctx context.Context, addr string, id core.TractID, version int, length int, off int64) ([]byte, core.Error) {
	if err := t.gate(ctx, addr, id); err != core.NoError {
		return nil, err
	}
	s := t.e.stores[addr]
	if s == nil {
		return nil, core.ErrRPC
	}
	b, err := s.Read(ctx, id, version, length, off)
	if err != core.NoError && err != core.ErrEOF {
		return nil, err
	}
	return b, err
}
func (t c13cliTS) ReadInto(ctx context.Context, addr string, id core.TractID, version int, b []byte, off int64) (int, core.Error) {
	if err := t.gate(ctx, addr, id); err != core.NoError {
		return 0, err
	}
	s := t.e.stores[addr]
	if s == nil {
		return 0, core.ErrRPC
	}
	got, err := s.Read(ctx, id, version, len(b), off)
	if err != core.NoError && err != core.ErrEOF {
		c13lastErr2 = fmt.Sprintf("ReadInto %s %v len=%d off=%d: %s", addr, id, len(b), off, err)
		return 0, err
	}
	if len(got) > len(b) {
		return 0, core.ErrInvalidState
	}
	copy(b, got)
	return len(got), err
}
func (t c13cliTS) StatTract(ctx context.Context, addr string, id core.TractID, version int) (int64, core.Error) {
	s := t.e.stores[addr]
	if s == nil {
		return 0, core.ErrRPC
	}
	n, _, err := s.Stat(ctx, id, version)
	return n, err
}
func (t c13cliTS) GetDiskInfo(ctx context.Context, addr string) ([]core.FsStatus, core.Error) {
	return nil, core.NoError
}
func (t c13cliTS) SetControlFlags(ctx context.Context, addr string, root string, flags core.DiskControlFlags) core.Error {
	return core.NoError
}

// c13disk is tractserver.MemDisk (the package's own in-memory test double) with two limitations of the double
// removed, neither of which exists in the production disk (Manager + checksum files):
//  - a read starting beyond the end of the file returns 0 bytes (MemDisk panics there: slice bounds);
//  - handles are reference counted: MemDisk keeps ONE "open" flag per file, so the first Close of two concurrent
//    readers of the same piece (the client reads two tracts packed into one piece in parallel) invalidates the
//    other reader's handle (ErrInvalidArgument).
type c13disk struct {
	*tractserver.MemDisk
	mu   *sync.Mutex
	refs map[interface{}]int
}

func c13newDisk() c13disk {
	return c13disk{MemDisk: tractserver.NewMemDisk(), mu: &sync.Mutex{}, refs: map[interface{}]int{}}
}

func (d c13disk) Open(ctx context.Context, id core.TractID, flags int) (interface{}, core.Error) {
	d.mu.Lock()
	defer d.mu.Unlock()
	f, err := d.MemDisk.Open(ctx, id, flags)
	if err == core.NoError {
		d.refs[f]++
	}
	return f, err
}

func (d c13disk) Close(f interface{}) core.Error {
	d.mu.Lock()
	defer d.mu.Unlock()
	if d.refs[f] > 1 {
		d.refs[f]--
		return core.NoError
	}
	delete(d.refs, f)
	return d.MemDisk.Close(f)
}

func (d c13disk) Read(ctx context.Context, f interface{}, b []byte, off int64) (int, core.Error) {
	size, err := d.MemDisk.Size(f)
	if err != core.NoError {
		return 0, err
	}
	if off >= size {
		return 0, core.NoError
	}
	return d.MemDisk.Read(ctx, f, b, off)
}

func c13newEnv(numTS int) *c13env {
	e := &c13env{
		numTS:   numTS,
		stores:  map[string]*tractserver.Store{},
		ids:     map[string]core.TractserverID{},
		addrOf:  map[core.TractserverID]string{},
		created: map[string][]core.TractID{},
		blank:   map[core.TractserverID]bool{},
		fail:    map[string]bool{},
		rank:    map[string]int{},
	}
	mc := newTestMasterConnection()
	e.c = newTestCurator(mc, c13curTT{e}, DefaultTestConfig)
	<-mc.heartbeatChan
	for i := 1; i <= e.numTS; i++ {
		cfg := tractserver.DefaultTestConfig
		s := tractserver.NewStore(c13tsTT{e}, tractserver.NewMetadataStore(), &cfg)
		s.AddDisk(c13newDisk())
		a := c13addr(i)
		e.stores[a] = s
		e.ids[a] = core.TractserverID(i)
		e.addrOf[core.TractserverID(i)] = a
	}
	e.heartbeat()
	e.cli = blb.VerifNewClient(c13cliMaster{}, c13cliCur{e}, c13cliTS{e}, true)
	return e
}

func (e *c13env) heartbeat() {
	for i := 1; i <= e.numTS; i++ {
		e.c.addTS(core.TractserverID(i), c13addr(i))
	}
}

func (e *c13env) setIncrement(inc int) {
	for _, s := range e.stores {
		cfg := *s.Config()
		cfg.EncodeIncrementSize = inc
		s.SetConfig(cfg)
	}
}

func (e *c13env) cleanup() {
	e.mu.Lock()
	cr := e.created
	e.created = map[string][]core.TractID{}
	e.encReqs = nil
	e.mu.Unlock()
	for a, ids := range cr {
		e.stores[a].GCTracts(nil, ids)
	}
}

func (e *c13env) setFaults(blank []core.TractserverID, fail []core.TractserverID, order []core.TractserverID) {
	e.mu.Lock()
	e.blank = map[core.TractserverID]bool{}
	e.fail = map[string]bool{}
	e.rank = map[string]int{}
	for _, b := range blank {
		e.blank[b] = true
	}
	for _, f := range fail {
		e.fail[e.addrOf[f]] = true
	}
	for i, o := range order {
		e.rank[e.addrOf[o]] = i + 1
	}
	e.mu.Unlock()
}

// ------------------------------------------------------------------------------------------------
// codec cases

func c13errCode(err error) int64 {
	switch err {
	case nil:
		return 0
	case reedsolomon.ErrTooFewShards:
		return 1
	case reedsolomon.ErrShardNoData:
		return 2
	case reedsolomon.ErrShardSize:
		return 3
	}
	return 4
}

func c13subsets(total, maxk int) [][]int {
	var out [][]int
	for mask := 0; mask < 1<<uint(total); mask++ {
		var s []int
		for i := 0; i < total; i++ {
			if mask&(1<<uint(i)) != 0 {
				s = append(s, i)
			}
		}
		if len(s) <= maxk {
			out = append(out, s)
		}
	}
	return out
}

func c13mask(s []int) int64 {
	var m int64
	for _, i := range s {
		m |= 1 << uint(i)
	}
	return m
}

func c13clone(sh [][]byte) [][]byte {
	out := make([][]byte, len(sh))
	for i := range sh {
		if sh[i] != nil {
			out[i] = append([]byte(nil), sh[i]...)
		}
	}
	return out
}

func c13classes() [][2]int {
	var out [][2]int
	for _, c := range storageclass.AllRS {
		n, m := c.RSParams()
		out = append(out, [2]int{n, m})
	}
	sort.Slice(out, func(i, j int) bool {
		if out[i][0] != out[j][0] {
			return out[i][0] < out[j][0]
		}
		return out[i][1] < out[j][1]
	})
	return out
}

func c13codecCase(tr *vw.Trace, r *vw.Rng, id string, n, m, length int, exhaustive bool, nsub int) {
	tr.Case(id)
	enc, e := reedsolomon.New(n, m)
	if e != nil {
		panic(e)
	}
	total := n + m
	sh := make([][]byte, total)
	op := vw.L{1, int64(n), int64(m), int64(length)}
	for i := range sh {
		sh[i] = make([]byte, length)
		if i < n {
			for j := range sh[i] {
				switch r.Intn(8) {
				case 0:
					sh[i][j] = 0
				case 1:
					sh[i][j] = 255
				default:
					sh[i][j] = byte(r.U64())
				}
			}
			c13bytes(&op, sh[i])
		}
	}
	tr.Op(op...)
	err := enc.Encode(sh)
	obs := vw.L{c13errCode(err)}
	if err == nil {
		for i := n; i < total; i++ {
			c13bytes(&obs, sh[i])
		}
	}
	tr.Obs(obs...)
	vw.Stat("codec/encode", 1)
	if err != nil {
		vw.Stat("codec/encode-error", 1)
		return
	}
	orig := c13clone(sh)

	var subs [][]int
	if exhaustive {
		subs = c13subsets(total, m+1)
	} else {
		for k := 0; k < nsub; k++ {
			sz := r.PickInt(0, 1, m-1, m, m, m, m+1, m+1)
			if sz < 0 {
				sz = 0
			}
			p := r.Perm(total)[:sz]
			sort.Ints(p)
			subs = append(subs, p)
		}
	}
	for si, S := range subs {
		mask := c13mask(S)
		// Reconstruct
		work := c13clone(orig)
		for _, i := range S {
			work[i] = nil
		}
		tr.Op(2, mask)
		err := enc.Reconstruct(work)
		obs := vw.L{c13errCode(err)}
		if err == nil {
			for _, i := range S {
				c13bytes(&obs, work[i])
			}
			ok, verr := enc.Verify(work)
			switch {
			case verr != nil:
				obs.Add(10 + c13errCode(verr))
			case ok:
				obs.Add(1)
			default:
				obs.Add(0)
			}
		}
		tr.Obs(obs...)
		vw.Stat(fmt.Sprintf("codec/reconstruct/lost=%d", len(S)), 1)
		// MONITOR: exact when |S| <= m, failure (and nothing filled in) when |S| > m.
		if len(S) <= m {
			bad := err != nil
			for i := range orig {
				if !bad && !bytes.Equal(work[i], orig[i]) {
					bad = true
				}
			}
			if bad {
				vw.Report(vw.Violation{Property: c13prop, Signature: fmt.Sprintf("codec/reconstruct-not-exact/%d+%d", n, m),
					What: "library Reconstruct did not give back the original shards", Case: id,
					Detail: map[string]interface{}{"lost": S, "err": fmt.Sprint(err)}})
			}
		} else {
			filled := false
			for _, i := range S {
				if len(work[i]) != 0 {
					filled = true
				}
			}
			if err == nil || filled {
				vw.Report(vw.Violation{Property: c13prop, Signature: fmt.Sprintf("codec/too-few-not-rejected/%d+%d", n, m),
					What: "more than m shards missing but Reconstruct returned data", Case: id,
					Detail: map[string]interface{}{"lost": S}})
			}
		}
		// ReconstructData (what the client uses)
		if exhaustive && si%3 != 0 {
			continue
		}
		work = c13clone(orig)
		for _, i := range S {
			work[i] = nil
		}
		tr.Op(3, mask)
		err = enc.ReconstructData(work)
		obs = vw.L{c13errCode(err)}
		if err == nil {
			for _, i := range S {
				c13bytes(&obs, work[i])
			}
		}
		tr.Obs(obs...)
		vw.Stat("codec/reconstruct-data", 1)
		if len(S) <= m && err == nil {
			for i := 0; i < n; i++ {
				if !bytes.Equal(work[i], orig[i]) {
					vw.Report(vw.Violation{Property: c13prop, Signature: fmt.Sprintf("codec/reconstruct-data-not-exact/%d+%d", n, m),
						What: "library ReconstructData did not give back the original data shards", Case: id,
						Detail: map[string]interface{}{"lost": S}})
					break
				}
			}
		}
	}
	// corrupted shard + reconstructAndVerify (store.go) / Verify
	for k := 0; k < 4 && length > 0; k++ {
		idx, pos, x := r.Intn(total), r.Intn(length), 1+r.Intn(255)
		sz := r.PickInt(0, 0, 1, m)
		S := r.Perm(total)[:sz]
		sort.Ints(S)
		work := c13clone(orig)
		work[idx][pos] ^= byte(x)
		full := c13clone(work)
		for _, i := range S {
			work[i] = nil
		}
		tr.Op(4, int64(idx), int64(pos), int64(x), c13mask(S))
		rv := int64(0)
		if tractserver.VerifReconstructAndVerify(enc, work) != nil {
			rv = 1
		}
		ok, verr := enc.Verify(full)
		v := int64(0)
		if verr != nil {
			v = 10 + c13errCode(verr)
		} else if ok {
			v = 1
		}
		tr.Obs(rv, v)
		vw.Stat("codec/corrupt", 1)
	}
	vw.Distinct(fmt.Sprintf("codec %d %d %d", n, m, length))
}

func c13codec(tr *vw.Trace, rng *vw.Rng, caseNo *uint64) {
	classes := c13classes()
	id := "classes"
	if vw.CaseSelected(id) {
		tr.Case(id)
		tr.Op(5)
		var obs vw.L
		for _, c := range classes {
			obs.AddInt(c[0], c[1])
		}
		tr.Obs(obs...)
	}
	for _, c := range classes {
		n, m := c[0], c[1]
		exhaustive := vw.Thorough() || n+m <= 11
		reps := vw.Scale(1, 3)
		for k := 0; k < reps; k++ {
			*caseNo++
			r := rng.Fork(*caseNo)
			id := fmt.Sprintf("codec-%d-%d-x%d", n, m, k)
			if vw.CaseSelected(id) {
				c13codecCase(tr, r, id, n, m, r.PickInt(1, 2, 3, 5, 8), exhaustive, vw.Scale(60, 200))
			}
		}
		// long shards, sampled subsets
		for k := 0; k < vw.Scale(1, 4); k++ {
			*caseNo++
			r := rng.Fork(*caseNo)
			id := fmt.Sprintf("codec-%d-%d-long%d", n, m, k)
			if vw.CaseSelected(id) {
				c13codecCase(tr, r, id, n, m, r.PickInt(64, 257, 1000, 4096), false, vw.Scale(5, 12))
			}
		}
	}
	// degenerate: zero-length shards are "no data" for the library (this is what a zero-length packed tract
	// looks like to client-side reconstruction)
	*caseNo++
	if id := "codec-empty"; vw.CaseSelected(id) {
		c13codecCase(tr, rng.Fork(*caseNo), id, 6, 3, 0, false, 0)
	}
}

// ------------------------------------------------------------------------------------------------
// stripe cases

type c13tract struct {
	length int
	a, b   uint64
	blob   int // index into blobs
	pos    int // index inside the blob
	tid    core.TractID
	from   []core.TSAddr
	ver    int
	sorted int // index in the order left by packTracts' sort (the model's tract index)
}

type c13blob struct {
	id     core.BlobID
	tracts []int // indices into the tract list (creation order)
}

type c13probe struct {
	blob     int
	off      int64
	length   int
	tract    int   // the tract the probe was aimed at (creation index)
	inoff    int64 // offset inside that tract
	n        int   // replicated result
	cls      int64
	data     []byte
	classTag string
}

func c13errClass(err error) int64 {
	if err == nil {
		return 0
	}
	if err == io.EOF {
		return 1
	}
	return 2
}

var c13lastErr string
var c13lastErr2 string

func (e *c13env) read(b core.BlobID, off int64, length int) (int, int64, []byte) {
	buf := make([]byte, length)
	for i := range buf {
		buf[i] = 0xEE // the client must overwrite or zero every byte it counts
	}
	n, err := blb.VerifReadAt(e.cli, b, buf, off)
	c13lastErr = fmt.Sprint(err)
	if n < 0 || n > length {
		n = 0
	}
	return n, c13errClass(err), buf[:n]
}

// compositions of k units into parts
func c13compose(r *vw.Rng, k int) []int {
	var parts []int
	for k > 0 {
		u := 1 + r.Intn(k)
		if r.Chance(1, 3) {
			u = 1
		}
		parts = append(parts, u)
		k -= u
	}
	return parts
}

func c13lenForUnits(r *vw.Rng, u int) int {
	P := padToLength
	lo := (u-1)*P + 1
	hi := u * P
	switch r.Intn(8) {
	case 0, 1:
		return hi // exact multiple: no padding after the tract
	case 2:
		return lo
	case 3:
		return hi - 1
	case 4:
		if u == 1 {
			return r.Range(2, 300)
		}
		return lo + r.Intn(300)
	case 5:
		return hi - r.Range(1, 300)
	}
	return r.Range(lo, hi)
}

// c13tpc is the curator's own tpContext with AllocateRSChunkIDs recorded (what packChunks was given for the round).
type c13tpc struct {
	*curatorTPContext
	mu     sync.Mutex
	allocs [][2]uint64 // (base id, count)
	part   core.PartitionID
}

func (c *c13tpc) AllocateRSChunkIDs(n int) (core.RSChunkID, core.Error) {
	id, err := c.curatorTPContext.AllocateRSChunkIDs(n)
	if err == core.NoError {
		c.mu.Lock()
		c.allocs = append(c.allocs, [2]uint64{id.ID, uint64(n)})
		c.part = id.Partition
		c.mu.Unlock()
	}
	return id, err
}

// every piece id (chunk id + index) ever used by a committed stripe, across all cases and curators of the run
var c13pieceOwner = map[string]string{}

func c13stripe(tr *vw.Trace, e *c13env, r *vw.Rng, id string, big bool) {
	var classes [][2]int // sorted: AllRS itself is in map-iteration order
	for _, c := range c13classes() {
		if c[0]+c[1] <= e.numTS {
			classes = append(classes, c)
		}
	}
	few := e.numTS < 20
	nm := classes[0]
	switch r.Intn(10) {
	case 0, 1, 2, 3, 4:
	case 5, 6, 7:
		nm = classes[1%len(classes)]
	default:
		nm = classes[r.Intn(len(classes))]
	}
	if few && r.Chance(1, 2) {
		nm = classes[len(classes)-1] // the widest class that fits: exactly n+m servers or one or two more
	}
	var cls storageclass.Class
	for _, c := range storageclass.AllRS {
		if cn, cm := c.RSParams(); cn == nm[0] && cm == nm[1] {
			cls = c
		}
	}
	n, m := cls.RSParams()
	P := padToLength
	k := r.PickInt(1, 2, 2, 3, 3, 4)
	if big {
		k = 10
	}
	if few {
		k = r.PickInt(1, 1, 2)
	}
	extra := r.PickInt(0, 0, 0, 1, 100, 4000)
	target := k*P + extra
	inc := r.PickInt(target, target+1, target-1, (target+1)/2, (target+2)/3, P, 100000, 30011, 30011, 4<<20)
	e.setIncrement(inc)
	e.mu.Lock()
	e.target = target
	e.mu.Unlock()
	e.heartbeat()
	e.setFaults(nil, nil, nil)
	defer e.cleanup()

	// ---- tracts and blobs
	nchunks := n
	if n+m <= 9 && k <= 2 && r.Chance(1, 3) {
		nchunks = 2 * n
	}
	if few {
		// one packing round with SEVERAL stripes of the class on few servers: the pieces of different stripes land on
		// the same tractservers, so everything that must keep stripes apart (piece ids, layouts, hosts) is exercised
		nchunks = n * r.PickInt(2, 2, 3, 3, 4)
	}
	if r.Chance(1, 4) {
		nchunks += r.Range(1, 2) // more full chunks than one stripe needs: they stay replicated
	}
	var tracts []*c13tract
	for c := 0; c < nchunks; c++ {
		for _, u := range c13compose(r, k) {
			tracts = append(tracts, &c13tract{length: c13lenForUnits(r, u)})
		}
	}
	for z := r.PickInt(0, 0, 1, 1, 2); z > 0; z-- {
		tracts = append(tracts, &c13tract{length: 0})
	}
	if r.Chance(1, 3) {
		tracts = append(tracts, &c13tract{length: r.Range(1, P)}) // a leftover that cannot fill a chunk
	}
	perm := r.Perm(len(tracts))
	sh := make([]*c13tract, len(tracts))
	for i, p := range perm {
		sh[i] = tracts[p]
	}
	tracts = sh
	for _, t := range tracts {
		t.a = uint64(2*r.Intn(128) + 1)
		t.b = uint64(r.Intn(1 << 16))
	}
	var blobs []*c13blob
	for i := 0; i < len(tracts); {
		cnt := r.PickInt(1, 1, 1, 2, 2, 3)
		if i+cnt > len(tracts) {
			cnt = len(tracts) - i
		}
		repl := r.Range(1, 3)
		bid, err := e.c.create(repl, core.StorageHintDEFAULT, time.Time{})
		if err != core.NoError {
			panic(fmt.Sprintf("c13: create blob: %s", err))
		}
		infos, err := e.c.extend(bid, cnt)
		if err != core.NoError || len(infos) != cnt {
			panic(fmt.Sprintf("c13: extend blob: %s", err))
		}
		if _, err = e.c.ackExtend(bid, infos); err != core.NoError {
			panic(fmt.Sprintf("c13: ack extend: %s", err))
		}
		b := &c13blob{id: bid}
		for j := 0; j < cnt; j++ {
			t := tracts[i+j]
			t.blob, t.pos = len(blobs), j
			t.tid = infos[j].Tract
			t.ver = infos[j].Version
			data := c13fill(t.a, t.b, t.length)
			for h, tsid := range infos[j].TSIDs {
				addr := infos[j].Hosts[h]
				t.from = append(t.from, core.TSAddr{ID: tsid, Host: addr})
				e.note(addr, t.tid)
				if err := e.stores[addr].Create(c13bg, t.tid, append([]byte(nil), data...), 0); err != core.NoError {
					panic(fmt.Sprintf("c13: create tract: %s", err))
				}
			}
			b.tracts = append(b.tracts, i+j)
		}
		blobs = append(blobs, b)
		i += cnt
	}

	// ---- probes, read while replicated
	var probes []*c13probe
	TL := int64(core.TractLength)
	addProbe := func(t *c13tract, o int64, w int, tag string) {
		if w <= 0 || o < 0 {
			return
		}
		if w > 70000 {
			w = 70000
		}
		if w > 2500 && !r.Chance(1, 15) {
			return // long reads are expensive for the model: keep a sample
		}
		off := int64(t.pos)*TL + o
		probes = append(probes, &c13probe{blob: t.blob, off: off, length: w, tract: -1, inoff: o, classTag: tag})
		probes[len(probes)-1].tract = blobs[t.blob].tracts[t.pos]
	}
	nprobeTracts := vw.Scale(6, 14)
	for _, ti := range r.Perm(len(tracts)) {
		if nprobeTracts == 0 {
			break
		}
		nprobeTracts--
		t := tracts[ti]
		L := int64(t.length)
		padEnd := int64((t.length + P - 1) / P * P)
		small := int64(r.Range(1, 40))
		// aligned reads (offset 0)
		addProbe(t, 0, int(r.PickI64(1, small, L-1, L, L+1, L+small)), "start")
		addProbe(t, 0, int(L), "start-exact")
		addProbe(t, 0, int(L+small), "start-past-end")
		// reads that start inside the tract
		o := r.PickI64(1, small, L/2, L-small, L-1)
		if o > 0 && o < L {
			addProbe(t, o, int(r.PickI64(1, L-o-1, L-o)), "inside")
			addProbe(t, o, int(L-o+r.PickI64(1, small, 100)), "inside-cross-end")
			addProbe(t, o, int(r.PickI64(L, L+1)), "inside-len-ge-L")
			if padEnd > L {
				addProbe(t, o, int(padEnd-o), "inside-to-pad-end")
			}
			addProbe(t, o, int(padEnd-o+small), "inside-past-pad-end")
		}
		// reads at / beyond the end
		addProbe(t, L, int(small), "at-end")
		addProbe(t, L+small, int(small), "beyond-end")
		if len(blobs[t.blob].tracts) > t.pos+1 {
			// crossing into the next tract of the blob
			addProbe(t, TL-small, int(2*small), "cross-tract")
		}
	}
	for _, p := range probes {
		p.n, p.cls, p.data = e.read(blobs[p.blob].id, p.off, p.length)
	}

	// ---- the real tract packer
	term := e.c.stateHandler.GetTerm()
	tpc := &c13tpc{curatorTPContext: &curatorTPContext{c: e.c, term: term}}
	tp := makeTractPacker(tpc, e.c.internalOpM, cls.ID(), n, m, target)
	for _, t := range tracts {
		tp.addTract(t.tid, t.from, t.ver)
	}
	tp.doneAdding()
	tp.packTracts()
	byTid := map[core.TractID]*c13tract{}
	for _, t := range tracts {
		byTid[t.tid] = t
	}
	for i, pts := range tp.tracts {
		byTid[pts.ID].sorted = i
	}
	sortedTracts := make([]*c13tract, len(tracts))
	for _, t := range tracts {
		sortedTracts[t.sorted] = t
	}
	slop := int(float32(target) * acceptSlop)
	tr.Case(id)
	op := vw.L{10, int64(n), int64(m), int64(target), int64(slop), int64(len(tracts))}
	for i, t := range sortedTracts {
		if tp.tracts[i].Length != t.length {
			panic("c13: stat length differs from what was written")
		}
		op.Add(int64(t.length), int64(t.a), int64(t.b))
	}
	tr.Op(op...)
	leaderOf := map[core.TractID]int{}
	var leaders []int
	for _, ch := range tp.chunks {
		ld := byTid[ch.tracts[0].ID].sorted
		leaders = append(leaders, ld)
		for _, pts := range ch.tracts {
			leaderOf[pts.ID] = ld
		}
	}
	obs := vw.L{int64(len(tracts))}
	for _, pts := range tp.tracts {
		if ld, ok := leaderOf[pts.ID]; ok {
			obs.AddInt(ld, pts.Offset)
		} else {
			obs.AddInt(-1, pts.Offset)
		}
	}
	sortedLeaders := append([]int(nil), leaders...)
	sort.Ints(sortedLeaders)
	obs.AddInt(len(leaders))
	obs.AddInt(sortedLeaders...)
	tr.Obs(obs...)
	// every layout the packer produced must be acceptable to checkTractSpec (clause pack_layout_wf)
	for _, ch := range tp.chunks {
		if !tractserver.VerifCheckTractSpec(ch.tracts, target) {
			vw.Report(vw.Violation{Property: c13prop, Signature: "pack/layout-rejected-by-checkTractSpec",
				What: "packTracts produced a layout that the tractserver rejects", Case: id})
		}
	}
	op = vw.L{11, int64(len(leaders))}
	op.AddInt(leaders...)
	tr.Op(op...)
	nstripes := len(leaders) / n
	tr.Obs(1, int64(nstripes))
	chunksCopy := append([]packedChunk(nil), tp.chunks...)

	tp.packChunks()
	done := tp.waitForPacking()
	if done != nstripes {
		vw.Report(vw.Violation{Property: c13prop, Signature: "pipeline/encode-failed",
			What: "pack/encode/commit of a well-formed stripe failed", Case: id,
			Detail: map[string]interface{}{"done": done, "stripes": nstripes, "n": n, "m": m, "target": target, "inc": inc}})
		vw.Stat("stripe/pipeline-failed", 1)
		return
	}
	vw.Stat(fmt.Sprintf("stripe/class=%d+%d", n, m), 1)
	vw.Stat(fmt.Sprintf("stripe/stripes=%d", nstripes), 1)

	// blobs
	op = vw.L{14, int64(len(blobs))}
	for _, b := range blobs {
		op.AddInt(len(b.tracts))
		for _, ti := range b.tracts {
			op.AddInt(tracts[ti].sorted)
		}
	}
	tr.Op(op...)
	tr.Obs(1)

	// ---- committed metadata
	type stripeInfo struct {
		base   core.RSChunkID
		hosts  []core.TractserverID
		pieces [][]byte // the original pieces, full
	}
	stripes := make([]*stripeInfo, nstripes)
	getPtr := func(t *c13tract) core.TractPointer {
		infos, _, err := e.c.getTracts(t.tid.Blob, int(t.tid.Index), int(t.tid.Index)+1)
		if err != core.NoError || len(infos) != 1 {
			return core.TractPointer{}
		}
		return infos[0].RS
	}
	for s := 0; s < nstripes; s++ {
		lead := byTid[chunksCopy[s*n].tracts[0].ID]
		ptr := getPtr(lead)
		si := &stripeInfo{base: ptr.BaseChunk}
		stripes[s] = si
		chunk := e.c.stateHandler.GetRSChunk(si.base)
		tr.Op(12, int64(s))
		if chunk == nil {
			tr.Obs(0)
			continue
		}
		si.hosts = fb.HostsList(chunk)
		obs := vw.L{int64(chunk.HostsLength()), int64(chunk.DataLength())}
		var data fb.RSC_DataF
		var rt fb.RSC_TractF
		var tidf fb.TractIDF
		for i := 0; i < chunk.DataLength(); i++ {
			chunk.Data(&data, i)
			obs.AddInt(data.TractsLength())
			for j := 0; j < data.TractsLength(); j++ {
				data.Tracts(&rt, j)
				t := byTid[rt.Id(&tidf).TractID()]
				ti := -1
				if t != nil {
					ti = t.sorted
				}
				obs.AddInt(ti, int(rt.Offset()), int(rt.Length()))
			}
		}
		tr.Obs(obs...)
		op := vw.L{15, int64(s)}
		for _, h := range si.hosts {
			op.Add(int64(h))
		}
		tr.Op(op...)
		tr.Obs(1)
	}
	// ---- piece ids of the round: what packChunks derived from the one AllocateRSChunkIDs result
	if nstripes > 0 && len(tpc.allocs) == 1 {
		tr.Op(16, int64(tpc.allocs[0][0]), int64(n), int64(m), int64(nstripes))
		var obs vw.L
		for _, si := range stripes {
			for j := 0; j < n+m; j++ {
				obs.Add(int64(si.base.Add(j).ID))
			}
		}
		tr.Obs(obs...)
		if tpc.allocs[0][1] != uint64(nstripes*(n+m)) {
			vw.Report(vw.Violation{Property: c13prop, Signature: "piece-ids/wrong-number-allocated",
				What: "packChunks did not allocate (n+m) ids per stripe", Case: id})
		}
	}
	// MONITOR (model-free): piece ids (chunk id + index) are pairwise distinct across all stripes ever committed
	for sIdx, si := range stripes {
		if si.hosts == nil {
			continue
		}
		for j := 0; j < n+m; j++ {
			pid := si.base.Add(j)
			key := fmt.Sprintf("%p/%d/%d", e, pid.Partition, pid.ID)
			me := fmt.Sprintf("%s stripe %d piece %d", id, sIdx, j)
			if prev, dup := c13pieceOwner[key]; dup {
				vw.Report(vw.Violation{Property: c13prop, Signature: "piece-ids/not-distinct-across-stripes",
					What: "two pieces of committed stripes have the same piece id (chunk id + index): a tractserver holding both keeps only one of them", Case: id,
					Detail: map[string]interface{}{"id": pid.ID, "first": prev, "second": me, "n": n, "m": m}})
			} else {
				c13pieceOwner[key] = me
			}
		}
	}
	vw.Stat(fmt.Sprintf("stripe/servers=%s", map[bool]string{true: "few", false: "many"}[few]), 1)
	stripeOfBase := func(b core.RSChunkID) int {
		for s, si := range stripes {
			if si.base == b {
				return s
			}
		}
		return -1
	}
	for _, t := range sortedTracts {
		ptr := getPtr(t)
		tr.Op(13, int64(t.sorted))
		if !ptr.Present() {
			tr.Obs(0)
			continue
		}
		tidx := -1
		for i, x := range ptr.OtherTSIDs {
			if x == ptr.TSID {
				tidx = i
			}
		}
		tr.Obs(1, int64(stripeOfBase(ptr.BaseChunk)), int64(ptr.Chunk.ID-ptr.BaseChunk.ID), int64(ptr.Offset), int64(ptr.Length),
			int64(tidx), int64(len(ptr.OtherTSIDs)))
	}

	// ---- pieces: full check by monitor, windows against the model
	readPiece := func(si *stripeInfo, j int, off int64, length int) ([]byte, core.Error) {
		return e.stores[e.addrOf[si.hosts[j]]].Read(c13bg, si.base.Add(j).ToTractID(), core.RSChunkVersion, length, off)
	}
	enc, _ := reedsolomon.New(n, m)
	windows := func(s int, si *stripeInfo, count int) {
		var offs []int64
		offs = append(offs, 0, int64(target-32))
		ch := chunksCopy[s*n+r.Intn(n)]
		for _, pts := range ch.tracts {
			offs = append(offs, int64(pts.Offset+pts.Length)-16, int64(pts.Offset)-8)
		}
		if inc < target {
			offs = append(offs, int64(inc)-8, int64(inc*(1+r.Intn(target/inc)))-20)
		}
		for len(offs) < count+4 {
			offs = append(offs, int64(r.Intn(target)))
		}
		r2 := r.Perm(len(offs))
		for c := 0; c < count && c < len(offs); c++ {
			off := offs[r2[c]]
			wl := r.Range(1, 40)
			if off < 0 {
				off = 0
			}
			if off+int64(wl) > int64(target) {
				off = int64(target - wl)
			}
			tr.Op(20, int64(s), off, int64(wl))
			var obs vw.L
			for j := 0; j < n+m; j++ {
				b, _ := readPiece(si, j, off, wl)
				if len(b) != wl {
					obs.Add(-7) // piece missing or short
					continue
				}
				c13bytes(&obs, b)
			}
			tr.Obs(obs...)
			vw.Stat("stripe/window", 1)
		}
	}
	for s, si := range stripes {
		if si.hosts == nil {
			continue
		}
		si.pieces = make([][]byte, n+m)
		ok := true
		for j := 0; j < n+m; j++ {
			b, err := readPiece(si, j, 0, target+10)
			if (err != core.ErrEOF && err != core.NoError) || len(b) != target {
				ok = false
				vw.Report(vw.Violation{Property: c13prop, Signature: "pieces/wrong-length",
					What: "a piece does not have the stripe's piece length", Case: id,
					Detail: map[string]interface{}{"piece": j, "len": len(b), "err": err.String(), "target": target}})
				continue
			}
			si.pieces[j] = append([]byte(nil), b...)
			if j < n {
				// MONITOR: the packed piece is exactly the declared layout, zero elsewhere
				want := make([]byte, target)
				for _, pts := range chunksCopy[s*n+j].tracts {
					t := byTid[pts.ID]
					copy(want[pts.Offset:], c13fill(t.a, t.b, t.length))
				}
				if !bytes.Equal(want, b) {
					ok = false
					vw.Report(vw.Violation{Property: c13prop, Signature: "pieces/data-piece-differs-from-layout",
						What: "a packed data piece is not the tracts at their offsets with zero padding", Case: id,
						Detail: map[string]interface{}{"piece": j, "n": n, "m": m, "target": target}})
				}
			}
		}
		if ok {
			if good, verr := enc.Verify(si.pieces); verr != nil || !good {
				vw.Report(vw.Violation{Property: c13prop, Signature: "pieces/parity-wrong",
					What: "the parity pieces written by RSEncode do not verify against the data pieces", Case: id,
					Detail: map[string]interface{}{"n": n, "m": m, "target": target, "inc": inc}})
			}
		}
		windows(s, si, vw.Scale(5, 12))
	}

	// MONITOR (model-free): EVERY tract of the case reads back through the client (RS pointer if it was moved) as the
	// bytes that were written, over its whole length
	for _, t := range tracts {
		if t.length == 0 {
			continue
		}
		want := c13fill(t.a, t.b, t.length)
		for off := 0; off < t.length; off += 1 << 20 {
			l := t.length - off
			if l > 1<<20 {
				l = 1 << 20
			}
			n2, _, data2 := e.read(blobs[t.blob].id, int64(t.pos)*int64(core.TractLength)+int64(off), l)
			if n2 != l || !bytes.Equal(data2, want[off:off+l]) {
				vw.Report(vw.Violation{Property: c13prop, Signature: "rs-read/whole-tract-differs-from-written",
					What: "a tract read back through its current location is not the bytes that were written", Case: id,
					Detail: map[string]interface{}{"tract_len": t.length, "off": off, "got": n2, "n": n, "m": m, "stripes": nstripes}})
				break
			}
		}
	}
	vw.Stat("read/whole-tract", int64(len(tracts)))

	// ---- reads through the RS pointers
	emitRead := func(p *c13probe, blank, fail []core.TractserverID, tag string) (int, int64) {
		n2, cls2, data2 := e.read(blobs[p.blob].id, p.off, p.length)
		tail := vw.L{}
		tail.AddInt(len(blank))
		for _, b := range blank {
			tail.Add(int64(b))
		}
		tail.AddInt(len(fail))
		for _, f := range fail {
			tail.Add(int64(f))
		}
		bidx := int64(p.blob)
		op := vw.L{32, bidx, p.off, int64(p.length)}
		op.Add(tail...)
		tr.Op(op...)
		obs := vw.L{int64(n2), cls2}
		c13bytes(&obs, data2)
		tr.Obs(obs...)
		vw.Stat("read/"+tag, 1)
		t := tracts[p.tract]
		where := "offset=0"
		switch {
		case t.length == 0:
			where = "zero-length-tract"
		case p.inoff > 0 && p.inoff+int64(p.length) > int64(t.length):
			where = "offset>0-crossing-end"
		case p.inoff > 0:
			where = "offset>0-within"
		}
		vw.Distinct(fmt.Sprintf("read %s %s %s L%d", tag, p.classTag, where, t.length%7))
		if tag == "reconstruct-too-few" {
			return n2, cls2 // equality is not claimed when fewer than n pieces answer; see the fail-closed monitor
		}
		op = vw.L{33, bidx, p.off, int64(p.length)}
		op.Add(tail...)
		tr.Op(op...)
		tr.Obs(777, 1)
		// MONITOR: the property itself
		if n2 != p.n || cls2 != p.cls {
			kind := "count-or-eof"
			if cls2 == 2 {
				kind = "error"
			}
			vw.Report(vw.Violation{Property: c13prop, Signature: fmt.Sprintf("rs-read/%s/%s/%s", tag, kind, where),
				What: "a read through the erasure-coded location returns a different count / end-of-file than the replicated read", Case: id,
				Detail: map[string]interface{}{"blob_off": p.off, "len": p.length, "tract_len": t.length, "in_tract_off": p.inoff,
					"replicated": []int64{int64(p.n), p.cls}, "rs": []int64{int64(n2), cls2}, "class": p.classTag, "err": c13lastErr, "err2": c13lastErr2}})
		} else if !bytes.Equal(data2, p.data) {
			vw.Report(vw.Violation{Property: c13prop, Signature: fmt.Sprintf("rs-read/%s/bytes/%s", tag, where),
				What: "a read through the erasure-coded location returns different bytes than the replicated read", Case: id,
				Detail: map[string]interface{}{"blob_off": p.off, "len": p.length, "tract_len": t.length, "in_tract_off": p.inoff, "class": p.classTag}})
		}
		return n2, cls2
	}
	for _, p := range probes {
		op := vw.L{31, int64(p.blob), p.off, int64(p.length)}
		tr.Op(op...)
		obs := vw.L{int64(p.n), p.cls}
		c13bytes(&obs, p.data)
		tr.Obs(obs...)
		emitRead(p, nil, nil, "direct")
	}
	// client-side reconstruction
	nrec := vw.Scale(10, 30)
	for _, pi := range r.Perm(len(probes)) {
		if nrec == 0 {
			break
		}
		p := probes[pi]
		if p.length > 3000 && !r.Chance(1, 12) {
			continue
		}
		t := tracts[p.tract]
		ptr := getPtr(t)
		if !ptr.Present() {
			continue
		}
		nrec--
		s := stripeOfBase(ptr.BaseChunk)
		hosts := stripes[s].hosts
		others := []core.TractserverID{}
		for _, h := range hosts {
			if h != ptr.TSID {
				others = append(others, h)
			}
		}
		pm := r.Perm(len(others))
		var blank, fail []core.TractserverID
		tag := "reconstruct"
		lost := 0
		allBlank := false
		switch r.Intn(8) {
		case 0: // only the direct piece is gone
		case 1, 2: // exactly n left
			lost = m - 1
		case 3:
			lost = r.Intn(m)
		case 4, 5:
			// too many gone, and gone SILENTLY: the curator has no address for them (host "" in the pointer, e.g.
			// tractservers that have not heartbeated since a failover); every piece that is asked answers cleanly,
			// so no request ever fails -- the read must still fail closed
			lost = m + r.Intn(2)
			allBlank = true
			tag = "reconstruct-too-few"
		default: // too many gone: fewer than n responders
			lost = m + r.Intn(2)
			tag = "reconstruct-too-few"
		}
		for i := 0; i < lost; i++ {
			if allBlank || r.Chance(1, 3) {
				blank = append(blank, others[pm[i]])
			} else {
				fail = append(fail, others[pm[i]])
			}
		}
		if r.Chance(1, 4) || (allBlank && r.Chance(1, 2)) {
			blank = append(blank, ptr.TSID)
		} else {
			fail = append(fail, ptr.TSID)
		}
		if allBlank {
			vw.Stat("read/reconstruct-too-few-no-address", 1)
		}
		var order []core.TractserverID
		for _, i := range r.Perm(len(hosts)) {
			order = append(order, hosts[i])
		}
		e.setFaults(blank, fail, order)
		n2, cls2 := emitRead(p, blank, fail, tag)
		e.setFaults(nil, nil, nil)
		if tag == "reconstruct-too-few" {
			// MONITOR fail closed: error and no bytes -- only meaningful when the whole probe lies in this tract
			// (a request that needs no byte of the tract may be answered without any piece)
			single := p.inoff+int64(p.length) <= TL && t.pos == int(p.off/TL) && p.inoff < int64(t.length)
			if single && (cls2 != 2 || n2 != 0) {
				vw.Report(vw.Violation{Property: c13prop, Signature: "fail-closed/client-returned-data-with-too-few-pieces",
					What: "fewer than n pieces answered but the client returned bytes or no error", Case: id,
					Detail: map[string]interface{}{"n": n2, "class": cls2}})
			}
		}
	}

	// ---- reconstruction on a tractserver through the real reconstructChunk
	for s, si := range stripes {
		if si.hosts == nil || si.pieces == nil {
			continue
		}
		rounds := r.Range(1, 2)
		for round := 0; round < rounds; round++ {
			nb := r.PickInt(1, 1, 2, m, m, m+1)
			if nb > n+m {
				nb = n + m
			}
			if free := e.numTS - (n + m); nb <= m && nb > free {
				// not enough spare tractservers to host nb rebuilt pieces
				nb = free
				if nb == 0 {
					nb = m + 1 // only the refusal can be exercised
				}
			}
			badPieces := r.Perm(n + m)[:nb]
			sort.Ints(badPieces)
			var badIds []core.TractserverID
			for _, j := range badPieces {
				badIds = append(badIds, si.hosts[j])
				if nb <= m {
					// the piece is really gone (with more than m reported bad the attempt must be refused before
					// anything is touched, so the pieces are left in place and the stripe stays usable)
					e.stores[e.addrOf[si.hosts[j]]].GCTracts(nil, []core.TractID{si.base.Add(j).ToTractID()})
				}
			}
			e.mu.Lock()
			e.encReqs = nil
			e.mu.Unlock()
			rerr := e.c.reconstructChunk(si.base, badIds)
			e.mu.Lock()
			reqs := e.encReqs
			e.mu.Unlock()
			op := vw.L{40, int64(s), int64(len(badPieces))}
			op.AddInt(badPieces...)
			var newIds []int64
			if len(reqs) == 1 {
				for _, d := range reqs[0].dests {
					if d.ID != 0 {
						newIds = append(newIds, int64(d.ID))
					}
				}
			}
			op.AddInt(len(newIds))
			op.Add(newIds...)
			tr.Op(op...)
			vw.Stat(fmt.Sprintf("tsreconstruct/lost=%d-of-m=%d", nb, m), 1)
			if rerr != core.NoError || len(reqs) != 1 {
				tr.Obs(2)
				if nb <= m {
					vw.Report(vw.Violation{Property: c13prop, Signature: "reconstruct/failed-with-at-most-m-missing",
						What: "reconstructChunk failed although at most m pieces are missing", Case: id,
						Detail: map[string]interface{}{"err": rerr.String(), "bad": badPieces, "n": n, "m": m}})
				}
				if nb > m && len(reqs) != 0 {
					vw.Report(vw.Violation{Property: c13prop, Signature: "fail-closed/reconstruct-attempted-with-too-few-pieces",
						What: "more than m pieces missing but a reconstruction was sent", Case: id})
				}
				if nb <= m {
					si.pieces = nil // pieces were deleted and not rebuilt: stop working on this stripe
					break
				}
				continue
			}
			if nb > m {
				vw.Report(vw.Violation{Property: c13prop, Signature: "fail-closed/reconstruct-succeeded-with-too-few-pieces",
					What: "more than m pieces missing but reconstructChunk reported success", Case: id})
			}
			req := reqs[0]
			obs := vw.L{0, int64(len(req.srcs))}
			for _, sa := range req.srcs {
				idx := -1
				for j, h := range si.hosts {
					if h == sa.ID {
						idx = j
					}
				}
				obs.AddInt(idx)
			}
			obs.AddInt(req.indexMap...)
			for _, d := range req.dests {
				obs.Add(int64(d.ID))
			}
			chunk := e.c.stateHandler.GetRSChunk(si.base)
			newHosts := fb.HostsList(chunk)
			for _, h := range newHosts {
				obs.Add(int64(h))
			}
			tr.Obs(obs...)
			si.hosts = newHosts
			// MONITOR: byte for byte the original pieces, on the hosts now recorded
			for j := 0; j < n+m; j++ {
				b, err := readPiece(si, j, 0, target+10)
				if (err != core.NoError && err != core.ErrEOF) || !bytes.Equal(b, si.pieces[j]) {
					vw.Report(vw.Violation{Property: c13prop, Signature: "reconstruct/piece-differs-from-original",
						What: "after reconstruction on a tractserver a piece is not byte for byte the original piece", Case: id,
						Detail: map[string]interface{}{"piece": j, "bad": badPieces, "n": n, "m": m, "err": err.String(), "len": len(b)}})
				}
			}
			windows(s, si, vw.Scale(3, 6))
		}
		if si.pieces == nil {
			continue
		}
		// ---- Store.RSEncode called directly: reconstruction with an arbitrary choice of n source pieces and
		// destination map, or plain encoding (no index map), optionally with ONE failing CtlRead / CtlWrite in a
		// chosen increment (first, a middle one, the last): the call must return the error (fail closed) -- it may
		// only return NoError if every destination piece is byte for byte the expected piece.
		for q := 0; q < vw.Scale(4, 8); q++ {
			encodeMode := q%4 == 1
			pm := r.Perm(n + m)
			srcIdx := append([]int(nil), pm[:n]...)
			dstIdx := append([]int(nil), pm[n:]...)
			if r.Chance(1, 2) {
				sort.Ints(srcIdx)
			}
			if encodeMode {
				for i := range srcIdx {
					srcIdx[i] = i
				}
				for i := range dstIdx {
					dstIdx[i] = n + i
				}
			}
			var scratch []string
			inUse := map[core.TractserverID]bool{}
			for _, h := range si.hosts {
				inUse[h] = true
			}
			for i := 1; i <= e.numTS; i++ {
				if !inUse[core.TractserverID(i)] {
					scratch = append(scratch, c13addr(i))
				}
			}
			if len(scratch) < m {
				break // too few spare tractservers for m scratch destinations
			}
			srcs := make([]core.TSAddr, n)
			for i, j := range srcIdx {
				srcs[i] = core.TSAddr{ID: si.hosts[j], Host: e.addrOf[si.hosts[j]]}
			}
			dests := make([]core.TSAddr, m)
			nonzero := make([]int64, m)
			for i := range dests {
				dests[i] = core.TSAddr{ID: e.ids[scratch[i]], Host: scratch[i]}
				nonzero[i] = 1
				switch r.Intn(5) {
				case 0:
					if encodeMode {
						break
					}
					dstIdx[i] = -1
					if r.Chance(1, 2) {
						dests[i] = core.TSAddr{}
						nonzero[i] = 0
					}
				case 1:
					dests[i].ID = 0
					nonzero[i] = 0
				}
			}
			var imap []int
			if !encodeMode {
				imap = append(append([]int(nil), srcIdx...), dstIdx...)
			}
			written := func(i int) bool { return nonzero[i] == 1 && dstIdx[i] >= 0 }
			// the fault
			ninc := (target + inc - 1) / inc
			fkind, fslot, finc := 0, 0, 0
			if q >= 2 || r.Chance(1, 3) {
				finc = r.PickInt(0, ninc-1, ninc-1, r.Intn(ninc))
				fkind = 1 + r.Intn(2)
				if fkind == 2 {
					var ws []int
					for i := range dests {
						if written(i) {
							ws = append(ws, i)
						}
					}
					if len(ws) == 0 {
						fkind = 1
					} else {
						fslot = ws[r.Intn(len(ws))]
					}
				}
				if fkind == 1 {
					fslot = r.Intn(n)
				}
				e.mu.Lock()
				e.tsFault = c13fault{active: true, write: fkind == 2, off: int64(finc) * int64(inc)}
				if fkind == 2 {
					e.tsFault.addr = dests[fslot].Host
				} else {
					e.tsFault.addr = srcs[fslot].Host
				}
				e.mu.Unlock()
			}
			wl := r.Range(1, 32)
			woff := int64(r.Intn(target - wl + 1))
			exec := e.stores[scratch[len(scratch)-1]]
			rerr := exec.RSEncode(c13bg, si.base, target, srcs, dests, imap)
			e.mu.Lock()
			hits := e.tsFault.hits
			e.tsFault = c13fault{}
			e.mu.Unlock()
			op := vw.L{41, int64(s), woff, int64(wl), int64(len(imap))}
			op.AddInt(imap...)
			op.AddInt(m)
			op.Add(nonzero...)
			op.AddInt(inc, fkind, fslot, finc)
			tr.Op(op...)
			switch {
			case fkind != 0:
				vw.Stat(fmt.Sprintf("tsreconstruct/fault-kind=%d-inc=%s", fkind, map[bool]string{true: "first", false: "later"}[finc == 0]), 1)
			case encodeMode:
				vw.Stat("tsreconstruct/encode-direct", 1)
			default:
				vw.Stat("tsreconstruct/custom-map", 1)
			}
			// read back what the destinations hold
			got := make([][]byte, m)
			have := make([]bool, m)
			allGood := true
			for i := range dests {
				var err core.Error = core.ErrNoSuchTract
				if dests[i].Host != "" && dstIdx[i] >= 0 {
					got[i], err = e.stores[dests[i].Host].Read(c13bg, si.base.Add(dstIdx[i]).ToTractID(), core.RSChunkVersion, target+10, 0)
				}
				have[i] = err == core.NoError || err == core.ErrEOF
				if written(i) && !(have[i] && bytes.Equal(got[i], si.pieces[dstIdx[i]])) {
					allGood = false
				}
			}
			if rerr != core.NoError {
				tr.Obs(2)
				if fkind == 0 {
					vw.Report(vw.Violation{Property: c13prop, Signature: "reconstruct/rsencode-failed-with-n-good-sources",
						What: "Store.RSEncode failed although n good source pieces were given", Case: id,
						Detail: map[string]interface{}{"err": rerr.String(), "imap": imap}})
				}
			} else {
				// MONITOR fail closed: success may only be reported if every destination piece is exact
				if fkind != 0 && hits > 0 && !allGood {
					vw.Report(vw.Violation{Property: c13prop, Signature: fmt.Sprintf("fail-closed/rsencode-ok-after-failed-%s", map[int]string{1: "read", 2: "write"}[fkind]),
						What: "an increment of RSEncode failed (source read or destination write) but RSEncode returned NoError with missing or truncated destination pieces", Case: id,
						Detail: map[string]interface{}{"increment": finc, "of": ninc, "inc": inc, "target": target, "imap": imap, "encode": encodeMode}})
				}
				obs := vw.L{0}
				for i := range dests {
					if !have[i] {
						obs.Add(0)
						if written(i) && fkind == 0 {
							vw.Report(vw.Violation{Property: c13prop, Signature: "reconstruct/piece-not-written",
								What: "RSEncode did not write a requested destination piece", Case: id})
						}
						continue
					}
					obs.Add(1)
					if len(got[i]) >= int(woff)+wl {
						c13bytes(&obs, got[i][woff:int(woff)+wl])
					}
					if nonzero[i] == 0 {
						vw.Report(vw.Violation{Property: c13prop, Signature: "reconstruct/wrote-to-disabled-destination",
							What: "RSEncode wrote a piece to a destination whose id is 0", Case: id})
					} else if fkind == 0 && !bytes.Equal(got[i], si.pieces[dstIdx[i]]) {
						vw.Report(vw.Violation{Property: c13prop, Signature: "reconstruct/piece-differs-from-original",
							What: "a piece produced by RSEncode from n good pieces is not byte for byte the original piece", Case: id,
							Detail: map[string]interface{}{"piece": dstIdx[i], "imap": imap, "n": n, "m": m, "encode": encodeMode}})
					}
				}
				tr.Obs(obs...)
			}
			// remove what was written to the scratch stores
			for i := range dests {
				if dests[i].Host != "" {
					for j := 0; j < n+m; j++ {
						e.stores[dests[i].Host].GCTracts(nil, []core.TractID{si.base.Add(j).ToTractID()})
					}
				}
			}
		}
		// ---- and the client still reads the same bytes through the (updated) pointers
		cnt := vw.Scale(4, 10)
		for _, pi := range r.Perm(len(probes)) {
			if cnt == 0 {
				break
			}
			if ptr := getPtr(tracts[probes[pi].tract]); !ptr.Present() || stripeOfBase(ptr.BaseChunk) != s {
				continue
			}
			cnt--
			emitRead(probes[pi], nil, nil, "direct-after-reconstruction")
		}
	}
	vw.Sample(fmt.Sprintf("%s: RS(%d,%d) target=%d inc=%d tracts=%d blobs=%d stripes=%d probes=%d", id, n, m, target, inc, len(tracts), len(blobs), nstripes, len(probes)))
}

func TestVerifC13(t *testing.T) {
	if !vw.Enabled() {
		t.Skip("verification harness: run through /verif/bin/check")
	}
	tr := vw.OpenTrace("C13.trace")
	rng := vw.NewRng(vw.Seed())
	var caseNo uint64
	c13codec(tr, rng, &caseNo)
	// three clusters: many spare tractservers (one stripe per round mostly), and two with FEW servers -- exactly n+m for
	// RS(6,3), and 12 (three spare for 6+3, one for 8+3) -- where every round packs several stripes
	envs := map[int]*c13env{}
	env := func(n int) *c13env {
		if envs[n] == nil {
			envs[n] = c13newEnv(n)
		}
		return envs[n]
	}
	ncases := vw.Scale(14, 120)
	for i := 0; i < ncases; i++ {
		caseNo++
		id := fmt.Sprintf("stripe-%d", i)
		if !vw.CaseSelected(id) {
			continue
		}
		big := vw.Thorough() && i%20 == 7
		size := 24
		switch {
		case big:
		case i%7 == 2 || i%7 == 5:
			size = 9
		case i%7 == 3 || i%7 == 6:
			size = 12
		}
		c13stripe(tr, env(size), rng.Fork(caseNo), id, big)
	}
	tr.Close()
	vw.Finish("C13")
}
