package blb

// C13 shim (injected by `go test -overlay`; lives in /verif, never in /repo).
// Exported constructors so that the C13 harness (package curator) can drive the REAL client
// with its own talkers: the client's own mem tractserver talker rejects negative versions
// (RSChunkVersion), so RS reads need stubs that forward to real tractserver Stores.

import (
	"context"

	"github.com/westerndigitalcorporation/blb/internal/core"
)

// VerifNewClient returns a real Client wired to the given talkers; retry and caches are disabled so
// that one ReadAt is exactly one pass through readAt.
func VerifNewClient(m MasterConnection, c CuratorTalker, t TractserverTalker, reconstruct bool) *Client {
	options := Options{
		DisableRetry:        true,
		DisableCache:        true,
		ReconstructBehavior: ReconstructBehavior{Enabled: reconstruct, MaxInFlight: 2},
	}
	cli := newBaseClient(&options)
	cli.master = m
	cli.curators = c
	cli.tractservers = t
	return cli
}

// VerifReadAt is the public Blob.ReadAt on a blob opened for reading.
func VerifReadAt(cli *Client, id core.BlobID, p []byte, off int64) (int, error) {
	b := &Blob{cli: cli, id: id, allowRead: true, ctx: context.Background()}
	return b.ReadAt(p, off)
}
