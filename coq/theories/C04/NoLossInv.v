(* C04/NoLossInv.v — the invariants of the C01 visibility proof (Cluster/Visible.v: G, Cluster/Lower.v: low)
   carried over the steps that only C04 has: a replica of a durable tract is deleted or re-copied by a
   PullTract that skips damaged sources, and an executed request is answered with an error although the
   Cluster model would have served it (checksum failure).  Everything here is about Cluster states; the
   C04 wrapper comes in NoLossRun.v. *)
From Coq Require Import List ZArith Bool Lia.
From BLB Require Import Gen.Consts Cluster.Model Cluster.Proofs Cluster.Frame Cluster.Inv Cluster.Window
     Cluster.Attempts Cluster.Sched Cluster.Order Cluster.Contain Cluster.Visible Cluster.Lower.
Import ListNotations.
Open Scope Z_scope.

Definition GL (st : state) : Prop := G st /\ low st.

Lemma GL_init : GL init_state.
Proof. split; [exact G_init | exact low_init]. Qed.

(* one admissible Cluster event *)
Lemma GL_step : forall L st ev, ok_ev L st ev = true -> GL st -> GL (fst (step st ev)).
Proof.
  intros L st ev OK [GS LS]. split; [eapply G_step; eauto; now apply low_lwp | eapply low_step; eauto].
Qed.

(* ------------------------------------------------------------------ one replica of a durable tract changes *)
(* the replica at (x, tk) is untouched, removed, or replaced by a copy of a replica of the same tract that
   is one version ahead of the durable record *)
Definition repl_out (st : state) (reps1 : list (rkey * replica)) (x : Z) (tk : tkt) (dv : Z) : Prop :=
  (forall k, k <> (x, tk) -> rget reps1 k = rget (s_reps st) k) /\
  (rget reps1 (x, tk) = rget (s_reps st) (x, tk) \/ rget reps1 (x, tk) = None \/
   exists src s, rget (s_reps st) (src, tk) = Some s /\ r_ver s = dv + 1 /\
                 rget reps1 (x, tk) = Some {| r_ver := dv + 1; r_app := r_app s |}).

Lemma GL_repl_out : forall st reps1 x tk dv H,
  GL st -> tget (s_dtr st) tk = Some (dv, H) -> repl_out st reps1 x tk dv -> GL (set_reps st reps1).
Proof.
  intros st reps1 x tk dv H [(I2 & A & OO & AK & T & C) LW] E [OTH OUT].
  pose proof I2 as [[Ds Ks] (U1 & U2 & U3)].
  assert (DV1 : 1 <= dv) by (destruct tk as [b i]; destruct Ds as [_ D2]; destruct (D2 _ _ _ _ E); lia).
  (* what a replica of the new map is *)
  assert (CASES : forall k r1, rget reps1 k = Some r1 ->
            rget (s_reps st) k = Some r1 \/
            (k = (x, tk) /\ exists src s, rget (s_reps st) (src, tk) = Some s /\ r_ver s = dv + 1 /\ r1 = {| r_ver := dv + 1; r_app := r_app s |})).
  { intros k r1 G1. destruct (rkey_dec k (x, tk)) as [EQ|NE]; [|left; rewrite <- OTH; auto].
    subst k. destruct OUT as [S|[N|(src & s & GS & VS & R)]]; [left; congruence | congruence|].
    right. split; auto. exists src, s. rewrite R in G1. inversion G1. auto. }
  split; [split; [|split; [|split; [|split; [|split]]]]|].
  - (* Inv2 *)
    split; [apply (inv_quiet st); [apply quiet_set_reps | split; assumption]|].
    split; [|split; [exact U2 | exact U3]].
    intros k r1 G1. cbn [s_reps set_reps] in G1. change (bound1 st (snd k) (r_ver r1)).
    destruct (CASES _ _ G1) as [G0|(EQ & src & s & GS & VS & R)]; [exact (U1 _ _ G0)|].
    subst k r1. cbn. unfold bound1. rewrite E. lia.
  - (* att_ok *)
    destruct A as (A1 & A2 & A3). split; [exact A1|]. split; [exact A2|].
    intros ts b j r1 wr G1 I. cbn [s_reps set_reps] in G1. change (att_has st b (w_id wr) j (w_off wr) (w_len wr)).
    destruct (CASES _ _ G1) as [G0|(EQ & src & s & GS & VS & R)]; [eapply A3; eauto|].
    inversion EQ; subst. cbn in I. eapply A3; eauto.
  - (* ord_ok *)
    destruct OO as (U & AS & O1 & O4 & O5 & O6). split; [exact U|]. split; [exact AS|]. split; [|split; [exact O4|split; [exact O5|exact O6]]].
    intros k r1 G1. cbn [s_reps set_reps] in G1.
    destruct (CASES _ _ G1) as [G0|(EQ & src & s & GS & VS & R)]; [eauto|]. subst r1. cbn. eauto.
  - exact AK.
  - exact T.
  - (* cinv *)
    apply (cinv_onekey st (set_reps st reps1) x tk dv H); auto using sbr_set_reps.
    + intros r1 G1. cbn [s_reps set_reps] in G1. destruct (CASES _ _ G1) as [G0|(_ & src & s & GS & VS & R)].
      * left. exists r1. split; auto. split; [lia | auto].
      * right. subst r1. reflexivity.
    + intros r1 G1 Cu. cbn [s_reps set_reps] in G1. destruct (CASES _ _ G1) as [G0|(_ & src & s & GS & VS & R)].
      * exists x, r1. auto.
      * exists src, s. split; auto. split; [right; exact VS|]. subst r1. split; auto.
  - (* low *)
    apply (onekey_low st reps1 (x, tk) I2 LW OTH).
    intros r1 G1. destruct (CASES _ _ G1) as [G0|(_ & src & s & GS & VS & R)].
    + left. exists r1. split; auto. lia.
    + subst r1. cbn [r_ver snd]. rewrite E. destruct (rget (s_reps st) (x, tk)) as [r0|] eqn:G0.
      * left. exists r0. split; auto. specialize (U1 _ _ G0). unfold bound1 in U1. cbn in U1. rewrite E in U1. exact U1.
      * right. split; auto. split; lia.
Qed.

(* ------------------------------------------------------------------ the reply of an executed request is recorded *)
Lemma acked_ok_same : forall st st', s_acked st' = s_acked st -> s_att st' = s_att st -> acked_ok st -> acked_ok st'.
Proof. intros st st' A B K x Hx. rewrite A in Hx. rewrite B. now apply K. Qed.

Lemma GL_fin : forall st1 e res tr lose auto hint,
  GL st1 -> In e (s_pool st1) -> tr_bound st1 (k_blob (p_rpc e)) tr ->
  post_w st1 e res -> post_g st1 e tr -> post_x st1 e res -> post_b st1 e res ->
  GL (flush 8 (set_pool st1 (pool_update (s_pool st1) (set_pent e 2 res tr lose auto))) hint).
Proof.
  intros st1 e res tr lose auto hint [(I2 & A & OO & AK & T & C) LW] Ie TB PW PG PX PB.
  pose proof OO as (U & _ & _ & O4 & _).
  set (st2 := set_pool st1 (pool_update (s_pool st1) (set_pent e 2 res tr lose auto))).
  assert (J2 : Inv2 st2) by (split; [apply inv_pool_update; [exact (proj1 I2) | exact Ie | exact TB] | apply win_pool_update; [exact (proj2 I2) | exact Ie]]).
  assert (A2 : att_ok st2) by (apply att_pool_update; auto).
  assert (O2 : ord_ok st2) by (apply ord_pool_update; auto).
  assert (K2 : acked_ok st2) by exact AK.
  assert (T2 : tr_ok st2) by (apply (tr_ok_upd st1 st1); auto; repeat split).
  assert (U2 : ops_uniq st2) by exact U.
  assert (C2 : cinv st2).
  { apply cinv_upd; auto.
    intros o Wk Ln [Io Ko] Cc. destruct (O4 _ Ie Wk Ln) as (o' & Io' & Ko' & Wo' & Co'). destruct U as [_ UC].
    assert (o = o') by (apply (uniq_cli (s_ops st1)); auto; congruence). subst o'. exact Wo'. }
  assert (L2 : low st2) by (apply low_upd; auto).
  pose proof (machU_flush 8 st2 hint) as MF. destruct (MF T2 U2) as (T3 & U3 & M3).
  pose proof (inv2_flush 8 st2 hint J2) as J3.
  destruct (cinv_machU st2 (flush 8 st2 hint) J2 J3 U2 T2 C2 MF) as [C3 _].
  split; [split; [exact J3|split; [|split; [|split; [|split; [exact T3 | exact C3]]]]]|].
  - eapply still_att_ok; [apply still_flush | exact A2].
  - eapply keeps_ord; [apply keeps_flush | exact O2].
  - apply (acked_ok_same st2); [exact (proj1 (proj2 M3)) | exact (proj1 (still_flush 8 st2 hint)) | exact K2].
  - apply low_flush; auto.
Qed.

(* an error reply recorded without any other change (a data access that ran into a checksum failure) *)
Lemma GL_error_reply : forall st e c lose auto hint,
  GL st -> In e (s_pool st) -> c <> cl_NoError ->
  GL (flush 8 (set_pool st (pool_update (s_pool st) (set_pent e 2 [c] [] lose auto))) hint).
Proof.
  intros st e c lose auto hint GS Ie NE. apply GL_fin; auto.
  - apply tr_bound_nil.
  - intros _ Y. cbn in Y. contradiction.
  - intros _ x Ix. destruct Ix.
  - intros _ Y. cbn in Y. contradiction.
  - intros _ Y. cbn in Y. contradiction.
Qed.

(* ------------------------------------------------------------------ an executed request the Cluster model serves *)
Definition data_side (st : state) (e : pent) : Prop :=
  (k_kind (p_rpc e) = K_Create -> tget (s_dtr st) (rtk (p_rpc e)) = None) /\
  (k_kind (p_rpc e) = K_PullTract -> stale_pull st (p_rpc e) = false) /\
  k_kind (p_rpc e) <> K_SetVersion.

Lemma data_side_ok : forall st e, data_side st e -> side_ok st e.
Proof. intros st e (A & B & C). split; [exact A|]. split; [exact B|]. intro K. contradiction. Qed.

Definition posts (st1 : state) (e : pent) (res : list Z) (tr : list (Z * Z * list (Z * Z))) : Prop :=
  In e (s_pool st1) /\ tr_bound st1 (k_blob (p_rpc e)) tr /\
  post_w st1 e res /\ post_g st1 e tr /\ post_x st1 e res /\ post_b st1 e res.

Lemma tr_ok_fields : forall st st1, s_next st1 = s_next st -> s_pool st1 = s_pool st -> s_tasks st1 = s_tasks st -> tr_ok st -> tr_ok st1.
Proof. intros st st1 N P T X. unfold tr_ok in *. rewrite N, P, T. exact X. Qed.

Lemma GL_exec : forall st e oracle st1 res tr,
  GL st -> In e (s_pool st) -> p_st e = 0 -> data_side st e ->
  exec_rpc st e oracle = (st1, res, tr) ->
  GL st1 /\ posts st1 e res tr /\ data_side st1 e.
Proof.
  intros st e oracle st1 res tr [(I2 & A & OO & AK & T & C) LW] Ie Pz DS X.
  pose proof (data_side_ok _ _ DS) as SD. pose proof OO as (U & _). pose proof I2 as [I W].
  destruct (inv_exec _ _ _ _ _ _ I X) as (E1 & P1 & TB1).
  assert (J1 : Inv2 st1) by (split; [exact (evolves_inv _ _ E1 I) | exact (win_exec _ _ _ _ _ _ I2 Ie X)]).
  destruct (exec_summary _ _ _ _ _ _ I2 U C Ie Pz SD X) as (C1 & PW & PG & PX & (FN & FT & FP & FO)).
  destruct (exec_low _ _ _ _ _ _ I2 LW Ie SD X) as (L1 & PB & _).
  destruct (exec_misc _ _ _ _ _ _ X) as (EA & _ & _).
  pose proof (side_ok_again _ _ _ _ _ _ X SD) as (S1 & S2 & _).
  split; [split; [split; [exact J1|split; [|split; [|split; [|split; [|exact C1]]]]] | exact L1]|].
  - eapply att_exec; eauto.
  - eapply ord_exec; eauto.
  - apply (acked_ok_same st); auto. eapply acked_exec; eauto.
  - apply (tr_ok_fields st); auto.
  - split; [|split; [exact S1 | split; [exact S2 | apply DS]]].
    split; [rewrite P1; exact Ie|]. split; [exact TB1|]. split; [exact PW|]. split; [exact PG|]. split; [exact PX | exact PB].
Qed.

(* the same request executed once more: the facts about the FIRST reply survive *)
Lemma GL_exec_again : forall st e oracle st1 res tr st1b res2 tr2,
  dur_ok st -> exec_rpc st e oracle = (st1, res, tr) ->
  GL st1 -> p_st e = 0 -> posts st1 e res tr -> data_side st1 e ->
  exec_rpc st1 e oracle = (st1b, res2, tr2) ->
  GL st1b /\ posts st1b e res tr.
Proof.
  intros st e oracle st1 res tr st1b res2 tr2 Ds X1 GS1 Pz (Ie1 & TB1 & PW & PG & PX & PB) DS1 X2.
  destruct (GL_exec _ _ _ _ _ _ GS1 Ie1 Pz DS1 X2) as (GS2 & (Ie2 & _) & _).
  split; [exact GS2|]. split; [exact Ie2|].
  destruct (posts_again _ _ _ _ _ _ _ _ _ Ds X1 X2 PW PG PX) as (PW2 & PG2 & PX2).
  destruct GS1 as [(J1 & _) _].
  destruct (inv_exec _ _ _ _ _ _ (proj1 J1) X2) as (E2 & _ & _).
  split; [|split; [exact PW2|split; [exact PG2|split; [exact PX2|]]]].
  - intros x Hx. destruct J1 as [[D1 _] _]. eapply bound_advances; [apply evolves_advances; exact E2 | exact D1 | apply (TB1 _ Hx)].
  - intros Ce OKc. specialize (PB Ce OKc). eapply post_b_again; eauto.
Qed.
