(* C04/Seed.v — the "expected set" window around a recovery task that the C04 harness runs in isolation (Heal).
   Production: updateTsmonLoop keeps the DURABLE known-tractserver set in the leader's monitor, so a server that holds
   replicas but has not heartbeaten to a new leader is (a) counted as down by the recovery loop - that part is in
   C04/Model.v rec_detect - and (b) known by id, without address, to replicateTract's allocateTS(num, ok, bad).
   The shared Cluster model has ONE notion "known to an incarnation" = has heartbeaten = address known, and builds a
   new incarnation with an empty table (so does the shared shim); (b) cannot be expressed there without conflating an
   address-less expected server with a reachable one (GetTracts address flags, RPC targets).  C04 therefore brackets
   the run of a recovery task with two events of its own, outside the alphabet of the C04 theorems:
     68 op gen blob tract nbad bad..  = 67, after the task's bad servers that have not heartbeaten were added to the
                                        incarnation's table (nothing else runs until 69, so only allocateTS sees them);
     69 n ids..                       = they are taken out again. *)
From Coq Require Import List ZArith Bool.
From BLB Require Import Cluster.Model C04.Model.
Import ListNotations.
Open Scope Z_scope.

Definition set_known (st : state) (k : list Z) : state :=
  set_term_gen st (s_term st) (s_gen st) (zset (s_known st) (s_gen st) k).

Definition sstep (cs : cstate) (ev : list Z) : cstate * list Z :=
  match ev with
  | 68 :: op :: gen :: blob :: tract :: nbad :: r =>
      let st := c_base cs in
      let k := known_of st (s_gen st) in
      let bad := fst (take nbad r) in
      let k' := fold_left (fun acc x => if zmem x acc then acc else acc ++ [x]) bad k in
      cstep (set_base cs (set_known st k')) (67 :: op :: gen :: blob :: tract :: nbad :: r)
  | 69 :: n :: ids =>
      let st := c_base cs in
      let k := known_of st (s_gen st) in
      let gone := fst (take n ids) in
      (set_base cs (set_known st (filter (fun x => negb (zmem x gone)) k)), [])
  | _ => cstep cs ev
  end.

Fixpoint srun (cs : cstate) (evs : list (list Z)) : list (list Z) :=
  match evs with
  | [] => []
  | ev :: r => let '(cs', o) := sstep cs ev in o :: srun cs' r
  end.
