(* C04/RSModel.v — the erasure-coded half of the C04 check (cases whose first line is 90).
   No new transition system: the harness (go/C04/zz_verif_c04rs_test.go) runs the real recovery loop,
   reconstructChunk and Store.RSEncode; the model judges each step relationally with the definitions the C13
   development proved things about:
     91  a new chunk: the parity the real library produced for known data = Lib/RS rs_encode;
     92  one reconstruction attempt: index map and destinations = C13.Model.reconstruct_plan of the durable host
         list, the bad set and the servers placement chose; on success the pieces found at the destinations =
         C13.Model.rs_encode_one (reconstruct + verify + write loop) of the pieces the sources held, and the committed
         host list = the plan's; on failure the host list is unchanged; an RSEncode although the plan refuses
         (fewer than n good pieces, or nothing bad) is a violation;
     93  recovery.chunkTask for one chunk: bad = down or reported corrupt; more than m bad => unrecoverable.
   Verdict lines answer 777 <code>, code 1 = consistent. *)
From Coq Require Import List ZArith NArith Bool.
From BLB Require Import Gen.Consts Cluster.Model.
From BLB Require Lib.RS C13.Model.
Import ListNotations.
Open Scope Z_scope.

Definition nz (z : Z) : nat := Z.to_nat z.
Definition to_vec (l : list Z) : list N := map Z.to_N l.
Definition of_vec (v : list N) : list Z := map Z.of_N v.
Definition take_n (k : nat) (l : list Z) : list Z * list Z := (firstn k l, skipn k l).

Fixpoint chunks_of (k len : nat) (l : list Z) : list (list Z) :=
  match k with
  | O => []
  | S k' => firstn len l :: chunks_of k' len (skipn len l)
  end.

(* (length, bytes...) items *)
Fixpoint take_pieces (k : nat) (l : list Z) : list (list Z) * list Z :=
  match k with
  | O => ([], l)
  | S k' => match l with
            | len :: r => let '(ps, rest) := take_pieces k' (skipn (nz len) r) in (firstn (nz len) r :: ps, rest)
            | [] => ([], [])
            end
  end.

Definition rs_M (n m : nat) := BLB.Lib.RS.class_matrix n m.

(* 91 n m plen data... : the parity pieces *)
Definition rs_newchunk (a : list Z) : list Z :=
  match a with
  | n :: m :: plen :: data =>
      let n' := nz n in let m' := nz m in let len := nz plen in
      let shards := map to_vec (chunks_of n' len data) ++ repeat (repeat 0%N len) m' in
      match BLB.Lib.RS.rs_encode n' (n' + m') (rs_M n' m') shards with
      | inr out => flat_map of_vec (skipn n' out)
      | inl _ => [-1]
      end
  | _ => [-1]
  end.

Fixpoint zlist_eqb (a b : list Z) : bool :=
  match a, b with
  | [], [] => true
  | x :: a', y :: b' => (x =? y) && zlist_eqb a' b'
  | _, _ => false
  end.

Fixpoint nlist_eqb (a b : list N) : bool :=
  match a, b with
  | [], [] => true
  | x :: a', y :: b' => N.eqb x y && nlist_eqb a' b'
  | _, _ => false
  end.

(* what the destinations must hold after a successful RSEncode *)
Fixpoint written_ok (expect : list (option (list N))) (written : list (list Z)) : bool :=
  match expect, written with
  | [], [] => true
  | Some v :: e', w :: w' => nlist_eqb v (to_vec w) && written_ok e' w'
  | None :: e', w :: w' => (match w with [] => true | _ => false end) && written_ok e' w'
  | _, _ => false
  end.

Definition V_RS_OK := 1.
Definition V_RS_PLAN := 22.      (* index map / destinations are not the plan's *)
Definition V_RS_PIECE := 23.     (* success, but a destination does not hold the reconstruction of its piece *)
Definition V_RS_HOSTS := 24.     (* success, but the committed host list is not the plan's *)
Definition V_RS_REFUSE := 25.    (* RSEncode sent although the plan refuses *)
Definition V_RS_NOSEND := 26.    (* success without any RSEncode *)
Definition V_RS_FAILCHG := 27.   (* failure, yet the durable host list changed *)

Definition rs_judge (n' m' : nat) (hosts bad : list Z) (sent : Z) (imap dests : list Z) (pieces : list (list Z))
                    (errf : Z) (written : list (list Z)) (after : list Z) : Z :=
  let hostsN := to_vec hosts in
  let badN := to_vec bad in
  let nbadidx := length (filter (fun h => existsb (N.eqb h) badN) hostsN) in
  if sent =? 0 then
    if errf =? 0 then V_RS_NOSEND
    else if zlist_eqb after hosts then V_RS_OK else V_RS_FAILCHG
  else
    match BLB.C13.Model.reconstruct_plan n' m' hostsN badN (firstn nbadidx (to_vec dests)) with
    | None => V_RS_REFUSE
    | Some p =>
        if negb (zlist_eqb imap (BLB.C13.Model.p_map p)) || negb (nlist_eqb (to_vec dests) (BLB.C13.Model.p_dests p)) then V_RS_PLAN
        else if errf =? 0 then
          match BLB.C13.Model.rs_encode_one n' m' (rs_M n' m') (map to_vec pieces) imap (map (fun d => negb (d =? 0)) dests) with
          | None => V_RS_PIECE
          | Some expect =>
              if negb (written_ok expect written) then V_RS_PIECE
              else if nlist_eqb (to_vec after) (BLB.C13.Model.p_hosts p) then V_RS_OK else V_RS_HOSTS
          end
        else if zlist_eqb after hosts then V_RS_OK else V_RS_FAILCHG
    end.

(* 92 n m plen hosts(n+m) nb bad.. sent [nmap imap.. nd dests..] pieces(n+m) errflag written(m) after(n+m) *)
Definition rs_attempt (a : list Z) : list Z :=
  match a with
  | n :: m :: _ :: r0 =>
      let n' := nz n in let m' := nz m in let t := (n' + m')%nat in
      let '(hosts, r1) := take_n t r0 in
      match r1 with
      | nb :: r2 =>
          let '(bad, r3) := take_n (nz nb) r2 in
          match r3 with
          | sent :: r4 =>
              let '(imap, dests, r5) :=
                if sent =? 0 then ([], [], r4)
                else match r4 with
                     | nm :: x => let '(im, y) := take_n (nz nm) x in
                                  match y with
                                  | nd :: z => let '(ds, z') := take_n (nz nd) z in (im, ds, z')
                                  | [] => ([], [], [])
                                  end
                     | [] => ([], [], [])
                     end in
              let '(pieces, r6) := take_pieces t r5 in
              match r6 with
              | errf :: r7 =>
                  let '(written, r8) := take_pieces m' r7 in
                  [777; rs_judge n' m' hosts bad sent imap dests pieces errf written (firstn t r8)]
              | [] => [-1]
              end
          | [] => [-1]
          end
      | [] => [-1]
      end
  | _ => [-1]
  end.

(* recovery_loop.go chunkTask *)
Definition rs_chunk_task_of (m' : nat) (hosts down : list Z) (cor : list nat) : list Z :=
  let idx := seq 0 (length hosts) in
  let bad := map (fun i => nth i hosts 0)
                 (filter (fun i => zmem (nth i hosts 0) down || existsb (Nat.eqb i) cor) idx) in
  let l := length bad in
  if Nat.eqb l 0 then [0; 0]
  else if Nat.ltb m' l then [2; 0]
  else 1 :: Z.of_nat l :: fold_right insert_sorted [] bad.

(* 93 n m hosts(n+m) nd down.. nc idx.. *)
Definition rs_chunk_task (a : list Z) : list Z :=
  match a with
  | n :: m :: r0 =>
      let '(hosts, r1) := take_n (nz n + nz m) r0 in
      match r1 with
      | nd :: r2 =>
          let '(down, r3) := take_n (nz nd) r2 in
          match r3 with
          | nc :: r4 => rs_chunk_task_of (nz m) hosts down (map nz (firstn (nz nc) r4))
          | [] => [-1]
          end
      | [] => [-1]
      end
  | _ => [-1]
  end.

(* 94 kind n m before after changed fault : one step of the harness as the run-level theorem c04_rs_no_loss_run sees it.
   before / after = number of named pieces that read back as the original bytes, changed = the durable host list of
   the chunk differs from the one before the step, fault = the step was an injected fault; kind 5 = a reconstruction
   step (detect / attempt / commit), the only kind that may change the named list. *)
Definition V_RS_STEP_LOSS := 28.   (* a non-fault step took the intact named pieces from >= n to < n *)
Definition V_RS_STEP_LIST := 29.   (* a step that is not a reconstruction changed the named host list *)
Definition K_STEP_RECON := 5.
Definition rs_step_judge (kind n before after changed fault : Z) : Z :=
  if (fault =? 0) && (n <=? before) && (after <? n) then V_RS_STEP_LOSS
  else if negb (changed =? 0) && negb (kind =? K_STEP_RECON) then V_RS_STEP_LIST
  else V_RS_OK.
Definition rs_step_line (a : list Z) : list Z :=
  match a with
  | [kind; n; _; before; after; changed; fault] => [777; rs_step_judge kind n before after changed fault]
  | _ => [-1]
  end.

Definition rs_step (ev : list Z) : list Z :=
  match ev with
  | 90 :: _ => []
  | 91 :: a => rs_newchunk a
  | 92 :: a => rs_attempt a
  | 93 :: a => rs_chunk_task a
  | 94 :: a => rs_step_line a
  | _ => [-1]
  end.

Definition rs_run (ops : list (list Z)) : list (list Z) := map rs_step ops.
