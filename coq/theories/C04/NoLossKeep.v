(* C04/NoLossKeep.v — the premise and repair: along every C04 schedule an intact current replica survives every
   accepted event that is not a fault on it and does not commit a new durable record for its tract (no PullTract
   re-copies it: NoLossHost); and the commit case is genuinely open: a directed schedule in which the delivery of
   a PullTract reply commits a host set without any intact replica although every fault respected the premise. *)
From Coq Require Import List ZArith Bool Lia.
From BLB Require Import Gen.Consts Cluster.Model Cluster.Proofs Cluster.Frame Cluster.Inv Cluster.Window
     Cluster.Attempts Cluster.Sched Cluster.Order Cluster.Contain Cluster.Visible Cluster.Lower
     C04.Model C04.Proofs C04.Witness C04.NoLossInv C04.NoLossSched C04.NoLossRun C04.NoLoss C04.NoLossHost.
Import ListNotations.
Open Scope Z_scope.

Theorem intact_kept_reachable : forall L evs ev tk dv H h,
  c04_sched L cinit evs = true ->
  let cs := crun_state cinit evs in
  c04_ok_ev L cs ev = true ->
  tget (s_dtr (c_base cs)) tk = Some (dv, H) -> In h H -> intact_current cs tk dv h = true ->
  let cs' := fst (cstep cs ev) in
  (tget (s_dtr (c_base cs')) tk = Some (dv, H) /\ intact_current cs' tk dv h = true) \/
  (exists ts b t, (ev = [60; ts; b; t] \/ ev = [61; ts; b; t]) /\ (h, tk) = (ts, tkey b t)) \/
  tget (s_dtr (c_base cs')) tk <> Some (dv, H).
Proof.
  intros L evs ev tk dv H h SCH cs OK E I IC cs'.
  destruct (c04_GLPT_run L evs cinit SCH GL_init PT_init) as [GS PTs]. fold cs in GS, PTs.
  destruct (intact_replica_kept L cs ev tk dv H h OK GS E I IC) as [A|[B|[C|D]]]; [left; exact A | right; left; exact B | | right; right; exact D].
  destruct C as (mode & rest & rp & r1 & EV & P & M4 & KP & KEY).
  pose proof (c04_cstep_GL L cs ev OK GS) as GS'. fold cs' in GS'.
  destruct (rec_eq_dec (tget (s_dtr (c_base cs')) tk) (Some (dv, H))) as [E'|NE]; [|right; right; exact NE].
  left. split; [exact E'|].
  pose proof IC as IC0. rewrite (intact_is_undamaged_current cs tk dv H h GS E I) in IC. unfold undamaged_current in IC.
  destruct (rget (s_reps (c_base cs)) (h, tk)) as [r|] eqn:G; [|discriminate IC].
  apply andb_true_iff in IC as [LV NC]. apply Z.leb_le in LV.
  unfold rpc_key_of in KEY. pose proof (f_equal fst KEY) as KH. pose proof (f_equal snd KEY) as KT. cbn [fst snd] in KH, KT.
  assert (OK7 : ok_ev L (c_base cs) (7 :: mode :: rest) = true) by (subst ev; exact OK).
  assert (E7 : tget (s_dtr (c_base cs)) (rtk rp) = Some (dv, H)) by (unfold rtk; rewrite <- KT; exact E).
  assert (I7 : In (k_ts rp) H) by (rewrite <- KH; exact I).
  assert (G7 : rget (s_reps (c_base cs)) (rpc_key_of rp) = Some r) by (unfold rpc_key_of; rewrite <- KH, <- KT; exact G).
  destruct (pull_at_host_noop L cs mode rest rp r1 dv H r GS PTs OK7 P M4 KP E7 I7 G7 LV) as [RS CS].
  rewrite <- EV in RS, CS. fold cs' in RS, CS.
  rewrite (intact_is_undamaged_current cs' tk dv H h GS' E' I). unfold undamaged_current. rewrite RS, CS, G.
  apply andb_true_iff. split; [apply Z.leb_le; exact LV | exact NC].
Qed.

(* ------------------------------------------------------------------ the commit case is open: a refuting schedule *)
(* dA (tract (0,0) ends healthy on hosts 1 and 4 at version 2) followed by: the curator believes server 4 down although
   it serves; detect round; the recovery task for bad = [4] is popped; SetVersion at the survivor 1; PullTract to the
   spare 3 from source 1 executes, its reply is still under way; a corrupt fault hits the replica on 1 and another one
   the fresh copy on 3 (both faults respect the premise: server 4 holds an intact current replica); the reply of the
   PullTract is delivered and the task commits version 3 with hosts [1; 3].  Both are damaged; the intact replica on
   4 stays at version 2 and is no durable host any more. *)
Definition drop_ext : list (list Z) :=
  [ [65; 4; 2]; [66]; [67; 10; 1; 0; 0; 1; 4];
    [7; 1; 13; (-1); 1; 1; 0; 0; 3; 0; 0; 0; 2; 1; 0; 1; 3; 2; 1; 3];
    [7; 5; 14; (-1); 1; 3; 0; 0; 3; 0; 0; 0; 2; 3; 1; 0; 2; 1; 3];
    [60; 1; 0; 0]; [60; 3; 0; 0] ].
Definition drop_last : list Z := [8; 0; 14; (-1); 1; 3; 0; 0; 3; 0; 0; 0; 2; 3; 1; 0; 2; 1; 3].

Lemma repair_drops_last_intact_replica :
  let evs := dA_ops ++ drop_ext in
  let cs := crun_state cinit evs in
  let cs' := fst (cstep cs drop_last) in
  c04_ok_run 4 cinit evs = true /\ c04_ok_ev 4 cs drop_last = true /\ hd 0 drop_last = 8 /\
  premise cs = true /\ premise cs' = false /\
  tget (s_dtr (c_base cs)) (0, 0) = Some (2, [1; 4]) /\ tget (s_dtr (c_base cs')) (0, 0) = Some (3, [1; 3]) /\
  intact_current cs (0, 0) 2 4 = true /\
  forallb (fun h => negb (undamaged_current cs' (0, 0) 3 h)) [1; 3] = true /\
  forallb line_ok (crun cinit (evs ++ [drop_last])) = true.
Proof. vm_compute. repeat split; reflexivity. Qed.

(* the replica-level form: an undamaged replica of a durable host at a version >= the durable one is kept by every
   accepted event other than a fault on it - also by every PullTract, however late, duplicated or retried *)
Theorem current_replica_kept : forall L evs ev tk dv H h r,
  c04_sched L cinit evs = true ->
  let cs := crun_state cinit evs in
  c04_ok_ev L cs ev = true ->
  tget (s_dtr (c_base cs)) tk = Some (dv, H) -> In h H ->
  rget (s_reps (c_base cs)) (h, tk) = Some r -> dv <= r_ver r -> rmem (h, tk) (c_cor cs) = false ->
  let cs' := fst (cstep cs ev) in
  (exists r', rget (s_reps (c_base cs')) (h, tk) = Some r' /\ r_ver r <= r_ver r' /\ rmem (h, tk) (c_cor cs') = false) \/
  (exists ts b t, (ev = [60; ts; b; t] \/ ev = [61; ts; b; t]) /\ (h, tk) = (ts, tkey b t)).
Proof.
  intros L evs ev tk dv H h r SCH cs OK E I G LV NC cs'.
  destruct (c04_GLPT_run L evs cinit SCH GL_init PT_init) as [GS PTs]. fold cs in GS, PTs.
  destruct (good_replica_kept cs ev (h, tk) r G NC) as [A|[B|C]]; [left; exact A | right; exact B|].
  destruct C as (mode & rest & rp & r1 & EV & P & M4 & KP & KEY). left.
  unfold rpc_key_of in KEY. pose proof (f_equal fst KEY) as KH. pose proof (f_equal snd KEY) as KT. cbn [fst snd] in KH, KT.
  assert (OK7 : ok_ev L (c_base cs) (7 :: mode :: rest) = true) by (subst ev; exact OK).
  assert (E7 : tget (s_dtr (c_base cs)) (rtk rp) = Some (dv, H)) by (unfold rtk; rewrite <- KT; exact E).
  assert (I7 : In (k_ts rp) H) by (rewrite <- KH; exact I).
  assert (G7 : rget (s_reps (c_base cs)) (rpc_key_of rp) = Some r) by (unfold rpc_key_of; rewrite <- KH, <- KT; exact G).
  destruct (pull_at_host_noop L cs mode rest rp r1 dv H r GS PTs OK7 P M4 KP E7 I7 G7 LV) as [RS CS].
  rewrite <- EV in RS, CS. fold cs' in RS, CS. exists r. rewrite RS, CS. split; auto. split; auto. lia.
Qed.

(* the two task invariants behind it, as a statement about reachable states *)
Theorem pull_destination_not_host : forall L evs, c04_sched L cinit evs = true ->
  let st := c_base (crun_state cinit evs) in
  (forall e, In e (s_pool st) -> k_kind (p_rpc e) = K_PullTract ->
     forall dv H, tget (s_dtr st) (rtk (p_rpc e)) = Some (dv, H) -> k_ver (p_rpc e) = dv + 1 -> ~ In (k_ts (p_rpc e)) H) /\
  (forall t, In t (s_tasks st) -> t_kind t = 5 -> 0 < t_phase t ->
     forall dv H, tget (s_dtr st) (ttk t) = Some (dv, H) -> t_dv t = dv -> forall h, In h H -> In h (t_ok t) \/ In h (t_bad t)).
Proof. intros L evs OK st. exact (c04_PT_reachable L evs OK). Qed.

(* ------------------------------------------------------------------ the property-level statements *)
Lemma c04_no_loss_run2 : forall evs,
  c04_ok_run 4 cinit evs = true ->
  let cs := crun_state cinit evs in
  (forall b t h p, 0 <= p < TL -> vis_ok (c_base cs) b t h p = true) /\
  (forall tk dv H, tget (s_dtr (c_base cs)) tk = Some (dv, H) ->
     (exists h r, In h H /\ rget (s_reps (c_base cs)) (h, tk) = Some r /\ rmem (h, tk) (c_cor cs) = false /\
                  dv <= r_ver r <= dv + 1 /\ holds_acked (c_base cs) tk r = true) /\
     (forall h r, In h H -> rget (s_reps (c_base cs)) (h, tk) = Some r ->
                  dv <= r_ver r <= dv + 1 /\ holds_acked (c_base cs) tk r = true)) /\
  (forall e oracle, k_kind (p_rpc e) = K_Read ->
     exists cs', c04_exec_rpc cs e oracle =
                   (cs', read_reply cs (k_ts (p_rpc e)) (tkey (k_blob (p_rpc e)) (k_tract (p_rpc e))) (k_ver (p_rpc e)) (k_len (p_rpc e)) (k_off (p_rpc e)), []) /\
                 c_base cs' = c_base cs /\ c_cor cs' = c_cor cs) /\
  (forall ev tk dv H h, c04_ok_ev 4 cs ev = true ->
     tget (s_dtr (c_base cs)) tk = Some (dv, H) -> In h H -> intact_current cs tk dv h = true ->
     let cs' := fst (cstep cs ev) in
     (tget (s_dtr (c_base cs')) tk = Some (dv, H) /\ intact_current cs' tk dv h = true) \/
     (exists ts b t, (ev = [60; ts; b; t] \/ ev = [61; ts; b; t]) /\ (h, tk) = (ts, tkey b t)) \/
     tget (s_dtr (c_base cs')) tk <> Some (dv, H)).
Proof.
  intros evs OK cs. destruct (c04_no_loss_run evs OK) as (A & B & C & _). fold cs in A, B, C.
  split; [exact A|]. split; [exact B|]. split; [exact C|].
  intros ev tk dv H h OKE E I IC. exact (intact_kept_reachable 4 evs ev tk dv H h (c04_ok_run_sched 4 evs cinit OK) OKE E I IC).
Qed.

Lemma repair_keeps_premise_refuted :
  exists evs ev, c04_ok_run 4 cinit evs = true /\ c04_ok_ev 4 (crun_state cinit evs) ev = true /\ hd 0 ev = 8 /\
                 premise (crun_state cinit evs) = true /\ premise (fst (cstep (crun_state cinit evs) ev)) = false.
Proof. exists (dA_ops ++ drop_ext), drop_last. vm_compute. repeat split; reflexivity. Qed.

Lemma repair_never_degrades_run2 :
  (forall cs ev k r,
     rget (s_reps (c_base cs)) k = Some r -> rmem k (c_cor cs) = false ->
     let cs' := fst (cstep cs ev) in
     (exists r', rget (s_reps (c_base cs')) k = Some r' /\ r_ver r <= r_ver r' /\ rmem k (c_cor cs') = false) \/
     (exists ts b t, (ev = [60; ts; b; t] \/ ev = [61; ts; b; t]) /\ k = (ts, tkey b t)) \/
     (exists mode rest rp r1, ev = 7 :: mode :: rest /\ parse_rpc rest = Some (rp, r1) /\ mode <> 4 /\
                              k_kind rp = K_PullTract /\ k = rpc_key_of rp)) /\
  (forall cs ev k,
     rmem k (c_cor (fst (cstep cs ev))) = true ->
     rmem k (c_cor cs) = true \/ exists ts b t, ev = [60; ts; b; t] /\ k = (ts, tkey b t)) /\
  (forall evs ev, c04_sched 4 cinit evs = true ->
     let cs := crun_state cinit evs in
     c04_ok_ev 4 cs ev = true ->
     let cs' := fst (cstep cs ev) in
     forall tk dv' H', tget (s_dtr (c_base cs')) tk = Some (dv', H') -> tget (s_dtr (c_base cs)) tk <> Some (dv', H') ->
     forall h r', In h H' -> rget (s_reps (c_base cs')) (h, tk) = Some r' ->
       dv' <= r_ver r' <= dv' + 1 /\ holds_acked (c_base cs') tk r' = true /\
       (rmem (h, tk) (c_cor cs') = true ->
        rmem (h, tk) (c_cor cs) = true \/ exists ts b t, ev = [60; ts; b; t] /\ (h, tk) = (ts, tkey b t))) /\
  (forall evs ev tk dv H h r, c04_sched 4 cinit evs = true ->
     let cs := crun_state cinit evs in
     c04_ok_ev 4 cs ev = true ->
     tget (s_dtr (c_base cs)) tk = Some (dv, H) -> In h H ->
     rget (s_reps (c_base cs)) (h, tk) = Some r -> dv <= r_ver r -> rmem (h, tk) (c_cor cs) = false ->
     let cs' := fst (cstep cs ev) in
     (exists r', rget (s_reps (c_base cs')) (h, tk) = Some r' /\ r_ver r <= r_ver r' /\ rmem (h, tk) (c_cor cs') = false) \/
     (exists ts b t, (ev = [60; ts; b; t] \/ ev = [61; ts; b; t]) /\ (h, tk) = (ts, tkey b t))) /\
  (forall evs, c04_sched 4 cinit evs = true ->
     let st := c_base (crun_state cinit evs) in
     (forall e, In e (s_pool st) -> k_kind (p_rpc e) = K_PullTract ->
        forall dv H, tget (s_dtr st) (rtk (p_rpc e)) = Some (dv, H) -> k_ver (p_rpc e) = dv + 1 -> ~ In (k_ts (p_rpc e)) H) /\
     (forall t, In t (s_tasks st) -> t_kind t = 5 -> 0 < t_phase t ->
        forall dv H, tget (s_dtr st) (ttk t) = Some (dv, H) -> t_dv t = dv -> forall h, In h H -> In h (t_ok t) \/ In h (t_bad t))).
Proof.
  destruct repair_never_degrades_run as (A & B & C).
  split; [exact A|]. split; [exact B|]. split; [exact C|]. split.
  - intros evs ev tk dv H h r SCH cs OKE E I G LV NC. exact (current_replica_kept 4 evs ev tk dv H h r SCH OKE E I G LV NC).
  - intros evs SCH. exact (pull_destination_not_host 4 evs SCH).
Qed.
