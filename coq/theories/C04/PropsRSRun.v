(* C04/PropsRSRun.v — property-level theorems of C04 for erasure-coded chunks at RUN level, over the one-chunk
   transition model C04/RSRun.v (plan of an attempt = C13.Model.reconstruct_plan, detect round =
   C04.RSModel.rs_chunk_task_of: the definitions the relational lines 92 / 93 of TestVerifC04RS are judged with).
   The run-level model is tied to the real code through those per-attempt lines and through the per-step line 94
   (c04_rs_step_verdict_sound).
   Schedule predicate RSRun.rs_ok_ev: (1) a fault is accepted iff afterwards rs_safe holds - at least n named pieces are
   intact and, while a completely encoded attempt awaits its commit, at least n pieces of the list it will commit are
   intact; (2) a GC gone instruction is delivered undelayed, in the generation it was computed in - the condition of
   C05.c05_gc_safe_rs_undelayed (before the next UpdateRSHosts), extended by attempt start (markPendingPieces, second F5
   witness of C05) and leader change; the delayed instruction is the known finding F5 and stays outside. *)
From Coq Require Import List NArith ZArith Arith Bool Lia.
From BLB Require Import C13.Model C04.RSProofs C04.RSRun C04.RSRunProofs.
From BLB Require C04.RSModel.
Import ListNotations.
Local Open Scope nat_scope.

(* [FULL] c04_rs_no_loss_run - along every run of the one chunk model accepted by rs_ok_ev from a freshly committed chunk with at least n named pieces - first at least n named pieces are intact - second the same holds after every further accepted event that is not a fault whether belief or restart or scrub and report or detect round or attempt start or an RSEncode increment that succeeds or fails at a source read or destination write with or without a partial write or a lost reply or a leader change or the commit or a GC instruction computed under the pendingPieces filter or delivered undelayed - third a commit installs exactly the host list of the plan of the attempt in flight and keeps the length and names for each index either the previously named host or a host whose piece of that index is intact that is holds the original piece or was hit by a fault after the attempt started - fourth no event other than the commit changes the named host list. Carved out by the schedule predicate and named there - the delayed GC instruction which is finding F5 and faults that leave fewer than n intact pieces on the list a completed attempt is about to commit for which c04_rs_commit_plain_premise_refuted shows the clause fails *)
Theorem c04_rs_no_loss_run : forall n m hosts evs, n <= length hosts ->
  rs_ok_run rs_ok_ev (rs_init n m hosts) evs = true ->
  let st := reach n m hosts evs in
  n <= intact_named st /\
  (forall ev, is_fault ev = false -> rs_ok_ev st ev = true -> n <= intact_named (rstep st ev)) /\
  (forall a, r_att st = Some a -> a_left a = 0 ->
     let st' := rstep st ECommit in
     r_hosts st' = p_hosts (a_plan a) /\ length (r_hosts st') = length (r_hosts st) /\
     forall i, i < length (r_hosts st) ->
       nth i (r_hosts st') 0%N = nth i (r_hosts st) 0%N \/
       r_pc st' (nth i (r_hosts st') 0%N) i = Some Intact \/ In (nth i (r_hosts st') 0%N, i) (a_hit a)) /\
  (forall ev, r_hosts (rstep st ev) <> r_hosts st -> ev = ECommit).
Proof. exact rs_no_loss_run. Qed.
Print Assumptions c04_rs_no_loss_run.

(* [REFUTED] c04_rs_commit_plain_premise - with faults bounded only by the premise as worded that is at least n intact NAMED pieces after the fault the commit can take the number of intact named pieces below n. Witness rs_o5 with n 2 and m 1 - the curator believes the healthy server 3 down and reconstructs its piece onto the spare 4 and after the last increment two faults damage the source piece on server 1 and the fresh piece on server 4 each leaving two intact named pieces and the commit then names server 4 and one intact named piece is left. Model level and the erasure coded twin of c04_repair_keeps_premise_refuted *)
Theorem c04_rs_commit_plain_premise_refuted :
  exists n m hosts evs, n <= length hosts /\ rs_ok_run rs_ok_ev_weak (rs_init n m hosts) evs = true /\
    rs_premise (reach n m hosts evs) = true /\ rs_ok_ev_weak (reach n m hosts evs) ECommit = true /\
    intact_named (rstep (reach n m hosts evs) ECommit) < n.
Proof. exact rs_commit_plain_premise_refuted. Qed.
Print Assumptions c04_rs_commit_plain_premise_refuted.

(* [FULL] c04_rs_repair_progress - in every state reachable by an accepted run from a freshly committed chunk whose n plus m named hosts are pairwise distinct - first the named hosts are still pairwise distinct and n plus m many which is an invariant because only the commit changes the list and it installs distinct fresh spares at the bad indices - second intact named pieces plus bad named indices make up the host list so the measure is the number of bad named indices - third an abandoned attempt that is a failed increment with or without a partial write or a tractserver restart during the encode or a lost reply or a leader change leaves the named list and the measure unchanged - fourth if some named index is bad then the fault free schedule heal_run which is leader change then scrub and report of every index then one detect round then the attempt onto as many fresh distinct spares as there are bad indices then all its increments then the commit is accepted and contains neither fault nor delivery and ends with no bad named index and n plus m intact named pieces and no attempt in flight so one successful attempt takes the measure to zero whatever was abandoned before. The detect round is chunkTask as judged by line 93 and the attempt's plan is reconstruct_plan as judged by line 92 *)
Theorem c04_rs_repair_progress : forall n m hosts evs, NoDup hosts -> length hosts = n + m ->
  rs_ok_run rs_ok_ev (rs_init n m hosts) evs = true ->
  let st := reach n m hosts evs in
  (NoDup (r_hosts st) /\ length (r_hosts st) = n + m) /\
  (intact_named st + bad_named st = length (r_hosts st)) /\
  (forall ev, abandons ev = true ->
     r_hosts (rstep st ev) = r_hosts st /\ bad_named (rstep st ev) = bad_named st /\ intact_named (rstep st ev) = intact_named st) /\
  (forall newids incs,
     0 < bad_named st -> fresh (r_hosts st) newids = true -> distinctN newids = true -> length newids = bad_named st -> 0 < incs ->
     let run := heal_run (length (r_hosts st)) newids incs in
     rs_ok_run rs_ok_ev st run = true /\ forallb plain run = true /\
     bad_named (rrun st run) = 0 /\ intact_named (rrun st run) = n + m /\ r_att (rrun st run) = None).
Proof. exact rs_repair_progress2. Qed.
Print Assumptions c04_rs_repair_progress.

(* [FULL] c04_rs_step_verdict_sound - the tie of the run level model to the real run. After every step the RS harness writes line 94 with the step kind and n and the number of named pieces that read back as the original bytes before and after the step and whether the durable host list changed and whether the step was an injected fault and the extracted RSModel.rs_step_judge answers verdict 28 if a step that is no fault took that number from at least n to below n and verdict 29 if a step other than a reconstruction changed the named list and 1 otherwise. This theorem says the judge accepts every step of every accepted model run where a harness step is any accepted segment of model events and only a segment of kind 5 which is a reconstruction may contain the commit - so verdicts 28 and 29 on the real code are departures from c04_rs_no_loss_run *)
Theorem c04_rs_step_verdict_sound : forall n m hosts evs seg kind fault, n <= length hosts ->
  rs_ok_run rs_ok_ev (rs_init n m hosts) evs = true ->
  let st := reach n m hosts evs in
  rs_ok_run rs_ok_ev st seg = true -> (kind <> C04.RSModel.K_STEP_RECON -> ~ In ECommit seg) ->
  let st' := rrun st seg in
  C04.RSModel.rs_step_judge kind (Z.of_nat n) (Z.of_nat (intact_named st)) (Z.of_nat (intact_named st'))
    (if list_eq_dec N.eq_dec (r_hosts st') (r_hosts st) then 0%Z else 1%Z) fault = 1%Z.
Proof. exact rs_step_verdict_sound. Qed.
Print Assumptions c04_rs_step_verdict_sound.

(* non-vacuity: g0 (damage, scrub, detect, attempt, commit), g2 (delete; an attempt dying after a partial write; an
   encoded attempt whose reply is lost; leader change; retry onto the same spare; a second fault and repair; GC of the
   replaced piece, delivered undelayed), and the run behind the refutation *)
Example c04_rs_run_nonvacuous :
  let s0 := rs_init 2 1 [1; 2; 3]%N in
  (rs_ok_run rs_ok_ev s0 rs_g0 = true /\ intact_named (rrun s0 (firstn 1 rs_g0)) = 2 /\ intact_named (rrun s0 rs_g0) = 3 /\
   r_hosts (rrun s0 rs_g0) = [1; 2; 4]%N) /\
  (rs_ok_run rs_ok_ev s0 rs_g2 = true /\
   map (fun k => bad_named (rrun s0 (firstn k rs_g2))) [1; 6; 10; 11; 17; 18; 23; 25] = [1; 1; 1; 1; 0; 1; 0; 0] /\
   r_hosts (rrun s0 rs_g2) = [5; 2; 4]%N /\ r_pc (rrun s0 rs_g2) 1%N 0 = None /\ r_pc (rrun s0 (firstn 6 rs_g2)) 4%N 2 = Some Partial) /\
  (rs_ok_run rs_ok_ev_weak s0 rs_o5 = true /\ rs_ok_ev_weak (rrun s0 rs_o5) ECommit = true /\
   rs_premise (rrun s0 rs_o5) = true /\ rs_premise (rstep (rrun s0 rs_o5) ECommit) = false /\
   rs_ok_run rs_ok_ev s0 rs_o5 = false).
Proof. exact rs_examples. Qed.
