(* C04/Progress.v — functional form of "once faults stop every tract is brought back to full redundancy".

   complete_repair runs ONE replicateTract task of the model to completion with every reply delivered: the real
   start_task / activate (lock, survivors, SetVersion fan-out), for every survivor the real Store.SetVersion and the
   real task_reply, then (placement = oracle input, validated by task_reply) for every new host the real
   C04 PullTract (c04_pull: damaged sources are skipped) and the real task_reply, whose last call runs the real
   change_tract and finish_task.  What is idealised is the transport only: the pool entry of a request is not
   looked up and removed (find_pent / resume / flush), its reply is handed to task_reply directly.
   The theorem: from a state that satisfies the run invariants, with no other task around, survivors present,
   at least one survivor undamaged and a valid placement on eligible spares, the run commits version+1 with the
   hosts survivors ++ new, all at the new version, the new ones undamaged copies of an undamaged survivor; the
   deficit (hosts that are not undamaged-current) drops by the number of bad hosts that were not. *)
From Coq Require Import List ZArith Bool Lia.
From BLB Require Import Gen.Consts Cluster.Model Cluster.Proofs Cluster.Frame Cluster.Inv Cluster.Window Cluster.Attempts Cluster.Sched
     Cluster.Order Cluster.Contain Cluster.Visible Cluster.Lower C04.Model C04.Proofs C04.Witness C04.NoLossInv C04.NoLossSched C04.NoLossRun C04.NoLoss.
Import ListNotations.
Open Scope Z_scope.

Ltac conjs := repeat match goal with |- _ /\ _ => split end; try assumption.

(* ------------------------------------------------------------------ the run *)
Definition bump_one (op blob tract nv : Z) (hint : list Z) (cs : cstate) (h : Z) : cstate :=
  let st := c_base cs in
  let '(reps, c) := ts_setversion (s_reps st) h h (tkey blob tract) nv in
  set_base cs (task_reply (set_reps st reps) op c hint).

Definition pull_one (op blob tract nv : Z) (srcs : list Z) (hint : list Z) (cs : cstate) (n : Z) : cstate :=
  let st := c_base cs in
  let '(reps, cor, fl, c) := c04_pull (s_reps st) (c_cor cs) (c_fl cs) (s_nts st) n n (tkey blob tract) nv srcs in
  set_disk cs (task_reply (set_reps st reps) op c hint) cor fl.

Definition survivors (hosts bad : list Z) : list Z := filter (fun h => negb (zmem h bad)) hosts.
Definition sorted (l : list Z) : list Z := fold_right insert_sorted [] l.

Definition complete_repair (cs : cstate) (op blob tract : Z) (bad place : list Z) : cstate :=
  let st := c_base cs in
  let t := new_task op 5 (s_gen st) (s_term st) blob tract bad 0 0 0 in
  let cs1 := set_base cs (start_task st t) in
  match tget (s_dtr st) (tkey blob tract) with
  | None => cs1
  | Some (dv, hosts) =>
      let ok := survivors hosts bad in
      let hint := place ++ [-1] in
      let cs2 := fold_left (bump_one op blob tract (dv + 1) hint) ok cs1 in
      fold_left (pull_one op blob tract (dv + 1) (sorted ok) hint) place cs2
  end.

(* hosts of a durable tract that are not undamaged-and-current *)
Definition deficit (cs : cstate) (tk : tkt) : nat :=
  match tget (s_dtr (c_base cs)) tk with
  | Some (dv, hosts) => length (filter (fun h => negb (undamaged_current cs tk dv h)) hosts)
  | None => O
  end.

(* ------------------------------------------------------------------ the environment of a task *)
Definition env_eq (a b : state) : Prop :=
  s_blobs b = s_blobs a /\ s_dtr b = s_dtr a /\ s_term b = s_term a /\ s_gen b = s_gen a /\ s_known b = s_known a /\
  s_nts b = s_nts a /\ s_fin b = s_fin a.

Lemma env_refl : forall a, env_eq a a.
Proof. intros; repeat split. Qed.
Lemma env_trans : forall a b c, env_eq a b -> env_eq b c -> env_eq a c.
Proof. intros a b c (A1 & A2 & A3 & A4 & A5 & A6 & A7) (B1 & B2 & B3 & B4 & B5 & B6 & B7). repeat split; congruence. Qed.

Lemma fold_issue_fields : forall (f : Z -> rpc) o l st,
  let st' := fold_left (fun s h => issue_cur s (f h) o) l st in
  env_eq st st' /\ s_reps st' = s_reps st /\ s_tasks st' = s_tasks st.
Proof.
  induction l as [|x l IH]; intros st; cbn [fold_left]; [split; [apply env_refl | split; reflexivity]|].
  destruct (IH (issue_cur st (f x) o)) as (E & R & T). cbv zeta. split; [|split].
  - eapply env_trans; [|exact E]. repeat split.
  - rewrite R. reflexivity.
  - rewrite T. reflexivity.
Qed.

Lemma fold_fields_gen : forall (F : state -> Z -> state) l st,
  (forall s h, env_eq s (F s h) /\ s_reps (F s h) = s_reps s /\ s_tasks (F s h) = s_tasks s) ->
  env_eq st (fold_left F l st) /\ s_reps (fold_left F l st) = s_reps st /\ s_tasks (fold_left F l st) = s_tasks st.
Proof.
  induction l as [|x l IH]; intros st H; cbn [fold_left]; [split; [apply env_refl | split; reflexivity]|].
  destruct (IH (F st x) H) as (E & R & T). destruct (H st x) as (E0 & R0 & T0).
  split; [eapply env_trans; eauto|]. split; congruence.
Qed.

(* the task while it bumps (phase 1) and while it pulls (phase 2) *)
Definition T1 (op gen term blob tract dv : Z) (ok bad : list Z) (w : Z) : task :=
  {| t_op := op; t_kind := 5; t_gen := gen; t_term := term; t_blob := blob; t_tract := tract;
     t_phase := 1; t_dv := dv; t_ok := ok; t_bad := bad; t_new := []; t_wait := w;
     t_cliver := 0; t_badts := 0; t_rpc := 0 |}.
Definition T2 (op gen term blob tract dv : Z) (ok bad new : list Z) (w : Z) : task :=
  {| t_op := op; t_kind := 5; t_gen := gen; t_term := term; t_blob := blob; t_tract := tract;
     t_phase := 2; t_dv := dv; t_ok := ok; t_bad := bad; t_new := new; t_wait := w;
     t_cliver := 0; t_badts := 0; t_rpc := 0 |}.

(* ------------------------------------------------------------------ start *)
Lemma start_phase1 : forall st op blob tract bad repl nt dv hosts,
  s_tasks st = [] ->
  zget (s_blobs st) blob = Some (repl, nt) -> tract < nt ->
  tget (s_dtr st) (tkey blob tract) = Some (dv, hosts) ->
  survivors hosts bad <> [] -> length (survivors hosts bad) <> length hosts ->
  subset (survivors hosts bad) (known_of st (s_gen st)) = true ->
  let st' := start_task st (new_task op 5 (s_gen st) (s_term st) blob tract bad 0 0 0) in
  env_eq st st' /\ s_reps st' = s_reps st /\
  s_tasks st' = [T1 op (s_gen st) (s_term st) blob tract dv (survivors hosts bad) bad (Z.of_nat (length (survivors hosts bad)))].
Proof.
  intros st op blob tract bad repl nt dv hosts TS B LT E NE NL KN.
  unfold start_task. cbn [t_kind new_task Z.eqb Pos.eqb andb].
  set (t := new_task op 5 (s_gen st) (s_term st) blob tract bad 0 0 0).
  set (st1 := set_tasks st (s_tasks st ++ [t])).
  assert (TS1 : s_tasks st1 = [t]) by (unfold st1; cbn; rewrite TS; reflexivity).
  change (wake 8 st1) with (match find (fun t0 => (t_phase t0 =? 0) && negb (lock_held (s_tasks st1) (t_gen t0) (t_blob t0) (t_tract t0))) (s_tasks st1) with
                            | None => st1 | Some t0 => wake 7 (activate st1 t0) end).
  rewrite TS1. cbn [find t new_task t_phase t_gen t_blob t_tract lock_held existsb Z.eqb Z.ltb Z.compare andb negb orb].
  rewrite !andb_false_r. cbn [negb orb].
  fold t.
  (* activate *)
  assert (ACT : env_eq st (activate st1 t) /\ s_reps (activate st1 t) = s_reps st /\
                s_tasks (activate st1 t) = [T1 op (s_gen st) (s_term st) blob tract dv (survivors hosts bad) bad (Z.of_nat (length (survivors hosts bad)))]).
  { unfold activate. cbn [t new_task t_blob t_tract t_kind t_gen t_bad t_op t_rpc t_term]. change (s_blobs st1) with (s_blobs st). rewrite B.
    assert (X : (nt <=? tract) = false) by (apply Z.leb_gt; lia). rewrite X.
    change (s_dtr st1) with (s_dtr st). rewrite E. cbn [Z.eqb Pos.eqb].
    fold (survivors hosts bad).
    assert (X1 : (Z.of_nat (length (survivors hosts bad)) =? 0) = false).
    { apply Z.eqb_neq. destruct (survivors hosts bad); [contradiction | cbn; lia]. }
    rewrite X1.
    assert (X2 : (Z.of_nat (length (survivors hosts bad)) =? Z.of_nat (length hosts)) = false) by (apply Z.eqb_neq; lia).
    rewrite X2. change (known_of st1 (s_gen st)) with (known_of st (s_gen st)). rewrite KN. cbn [negb].
    match goal with |- context [fold_left ?F ?L ?S] => pose proof (fold_issue_fields (fun h => mk_setversion (s_gen st) h blob tract (dv + 1)) op L S) as FI end.
    cbv zeta in FI. destruct FI as (FE & FR & FT).
    split; [|split].
    - eapply env_trans; [|exact FE]. repeat split.
    - rewrite FR. reflexivity.
    - rewrite FT. cbn [s_tasks set_tasks]. rewrite TS1. cbn [upd_task map t new_task t_op]. rewrite Z.eqb_refl. reflexivity. }
  destruct ACT as (AE & AR & AT).
  change (wake 7 (activate st1 t)) with
    (match find (fun t0 => (t_phase t0 =? 0) && negb (lock_held (s_tasks (activate st1 t)) (t_gen t0) (t_blob t0) (t_tract t0))) (s_tasks (activate st1 t)) with
     | None => activate st1 t | Some t0 => wake 6 (activate (activate st1 t) t0) end).
  rewrite AT. cbn [find T1 t_phase Z.eqb andb]. auto.
Qed.

(* ------------------------------------------------------------------ task_reply, case by case *)
Lemma before_sep_app : forall l, (forall x, In x l -> x <> -1) -> before_sep (l ++ [-1]) = l.
Proof.
  induction l as [|a l IH]; intros H; cbn; [reflexivity|].
  destruct (a =? -1) eqn:E; [apply Z.eqb_eq in E; exfalso; apply (H a); [left; auto | exact E]|].
  f_equal. apply IH. intros x Hx. apply H. now right.
Qed.

Lemma after_sep_app : forall l, (forall x, In x l -> x <> -1) -> after_sep (l ++ [-1]) = [].
Proof.
  induction l as [|a l IH]; intros H; cbn; [reflexivity|].
  destruct (a =? -1) eqn:E; [apply Z.eqb_eq in E; exfalso; apply (H a); [left; auto | exact E]|].
  apply IH. intros x Hx. apply H. now right.
Qed.

Lemma task_reply_dec1 : forall st op gen term blob tract dv ok bad w hint,
  s_tasks st = [T1 op gen term blob tract dv ok bad w] -> 1 < w ->
  task_reply st op cl_NoError hint = set_tasks st [T1 op gen term blob tract dv ok bad (w - 1)].
Proof.
  intros st op gen term blob tract dv ok bad w hint TS W. unfold task_reply. rewrite TS.
  cbn [find_task T1 t_op]. rewrite !Z.eqb_refl. cbn [negb T1 t_wait].
  assert (X : (1 <? w) = true) by (apply Z.ltb_lt; lia). rewrite X.
  cbn [upd_task map T1 t_op]. rewrite Z.eqb_refl. reflexivity.
Qed.

Lemma task_reply_dec2 : forall st op gen term blob tract dv ok bad new w hint,
  s_tasks st = [T2 op gen term blob tract dv ok bad new w] -> 1 < w ->
  task_reply st op cl_NoError hint = set_tasks st [T2 op gen term blob tract dv ok bad new (w - 1)].
Proof.
  intros st op gen term blob tract dv ok bad new w hint TS W. unfold task_reply. rewrite TS.
  cbn [find_task T2 t_op]. rewrite !Z.eqb_refl. cbn [negb T2 t_wait].
  assert (X : (1 <? w) = true) by (apply Z.ltb_lt; lia). rewrite X.
  cbn [upd_task map T2 t_op]. rewrite Z.eqb_refl. reflexivity.
Qed.

Definition spare_cands (st : state) (gen : Z) (ok bad : list Z) : list Z :=
  filter (fun h => negb (zmem h ok) && negb (zmem h bad)) (known_of st gen).

(* the last survivor answered: placement, then the PullTract fan-out *)
Lemma task_reply_place : forall st op gen term blob tract dv ok bad w place,
  s_tasks st = [T1 op gen term blob tract dv ok bad w] -> w <= 1 ->
  subset bad (known_of st gen) = true ->
  Z.of_nat (length place) = Z.of_nat (length bad) -> subset place (spare_cands st gen ok bad) = true -> distinct place = true ->
  Z.of_nat (length bad) <= Z.of_nat (length (spare_cands st gen ok bad)) ->
  (forall x, In x place -> x <> -1) ->
  let st' := task_reply st op cl_NoError (place ++ [-1]) in
  env_eq st st' /\ s_reps st' = s_reps st /\
  s_tasks st' = [T2 op gen term blob tract dv ok bad place (Z.of_nat (length bad))].
Proof.
  intros st op gen term blob tract dv ok bad w place TS W KB LP SP DP LC NS.
  unfold task_reply. rewrite TS. cbn [find_task T1 t_op]. rewrite !Z.eqb_refl. cbn [negb T1 t_wait t_kind t_phase t_gen t_ok t_bad].
  assert (X : (1 <? w) = false) by (apply Z.ltb_ge; lia). rewrite X. cbn [Z.eqb Pos.eqb andb].
  rewrite (before_sep_app place NS). fold (spare_cands st gen ok bad). rewrite KB. cbn [negb orb].
  assert (X2 : (Z.of_nat (length (spare_cands st gen ok bad)) <? Z.of_nat (length bad)) = false) by (apply Z.ltb_ge; lia).
  rewrite X2. rewrite LP, Z.eqb_refl, SP, DP. cbn [andb negb].
  cbn [t_op t_term t_blob t_tract t_dv t_rpc].
  cbv zeta.
  match goal with |- context [fold_left ?F ?L ?S] => destruct (fold_fields_gen F L S) as (FE & FR & FT); [intros s h; repeat split|] end.
  split; [|split].
  - eapply env_trans; [|exact FE]. repeat split.
  - rewrite FR. reflexivity.
  - rewrite FT. cbn [s_tasks set_tasks]. cbn [upd_task map T1 t_op]. rewrite Z.eqb_refl. reflexivity.
Qed.

(* the last new host answered: commit *)
Lemma task_reply_commit : forall st op blob tract dv hosts ok bad place w repl nt,
  s_tasks st = [T2 op (s_gen st) (s_term st) blob tract dv ok bad place w] -> w <= 1 ->
  zget (s_blobs st) blob = Some (repl, nt) -> tract < nt ->
  tget (s_dtr st) (tkey blob tract) = Some (dv, hosts) -> length (ok ++ place) = length hosts -> ok <> [] ->
  (forall x, In x place -> x <> -1) ->
  let st' := task_reply st op cl_NoError (place ++ [-1]) in
  s_reps st' = s_reps st /\ s_tasks st' = [] /\
  tget (s_dtr st') (tkey blob tract) = Some (dv + 1, ok ++ place) /\
  (forall tk, tk <> tkey blob tract -> tget (s_dtr st') tk = tget (s_dtr st) tk) /\
  s_fin st' = s_fin st ++ [(op, cl_NoError)].
Proof.
  intros st op blob tract dv hosts ok bad place w repl nt TS W B LT E LEN NE NS.
  unfold task_reply. rewrite TS. cbn [find_task T2 t_op]. rewrite !Z.eqb_refl. cbn [negb T2 t_wait t_kind t_phase].
  assert (X : (1 <? w) = false) by (apply Z.ltb_ge; lia). rewrite X. cbn [Z.eqb Pos.eqb andb].
  rewrite (after_sep_app place NS). cbn [T2 t_ok t_new t_term t_blob t_tract t_dv].
  assert (NP : is_perm [] (ok ++ place) = false).
  { unfold is_perm. destruct ok as [|a ok']; [contradiction|]. reflexivity. }
  rewrite NP.
  assert (LT' : tract <= nt) by lia.
  destruct (commit_progress st blob tract dv hosts (ok ++ place) repl nt B LT' E LEN) as (st1 & CT & D1 & R1).
  rewrite CT. cbv beta iota.
  set (t := T2 op (s_gen st) (s_term st) blob tract dv ok bad place w).
  (* what change_tract did *)
  assert (ST1 : st1 = set_dtr st (tset (s_dtr st) (tkey blob tract) (dv + 1, ok ++ place))).
  { unfold change_tract in CT. rewrite Z.eqb_refl in CT. cbn [negb] in CT. rewrite B in CT.
    assert (Y : (nt <? tract) = false) by (apply Z.ltb_ge; lia). rewrite Y, E in CT.
    rewrite LEN, !Z.eqb_refl in CT. cbn [negb] in CT. inversion CT. reflexivity. }
  assert (FT : s_tasks (finish_task st1 t cl_NoError) = [] /\ s_reps (finish_task st1 t cl_NoError) = s_reps st /\
               s_dtr (finish_task st1 t cl_NoError) = s_dtr st1 /\ s_fin (finish_task st1 t cl_NoError) = s_fin st ++ [(op, cl_NoError)]).
  { unfold finish_task. unfold t at 1 2 3 4. cbn [T2 t_rpc t_op Z.eqb]. subst st1. cbn [s_tasks set_tasks set_dtr set_pool set_fin s_reps s_dtr s_fin].
    rewrite TS. cbn [del_task filter T2 t_op]. rewrite Z.eqb_refl. cbn [negb]. auto. }
  destruct FT as (F1 & F2 & F3 & F4).
  change (wake 8 (finish_task st1 t cl_NoError)) with
    (match find (fun t0 => (t_phase t0 =? 0) && negb (lock_held (s_tasks (finish_task st1 t cl_NoError)) (t_gen t0) (t_blob t0) (t_tract t0)))
                (s_tasks (finish_task st1 t cl_NoError)) with
     | None => finish_task st1 t cl_NoError | Some t0 => wake 7 (activate (finish_task st1 t cl_NoError) t0) end).
  rewrite F1. cbn [find]. cbv zeta.
  split; [exact F2|]. split; [exact F1|]. rewrite F3. split; [exact D1|]. split; [|exact F4].
  intros tk N. rewrite ST1. cbn [s_dtr set_dtr]. now apply tget_tset_other.
Qed.

(* ------------------------------------------------------------------ the SetVersion fan-out, delivered *)
Section Run.
Variables (op blob tract dv : Z) (gen term : Z) (ok bad place : list Z).
Let tk := tkey blob tract.
Let hint := place ++ [-1].

Definition bumped_rel (l : list Z) (reps reps' : list (rkey * replica)) : Prop :=
  (forall k, ~ (exists h, In h l /\ k = (h, tk)) -> rget reps' k = rget reps k) /\
  (forall h, In h l -> exists r r', rget reps (h, tk) = Some r /\ rget reps' (h, tk) = Some r' /\
                                    r_ver r' = dv + 1 /\ r_app r' = r_app r).

Lemma known_env : forall a b g, env_eq a b -> known_of b g = known_of a g.
Proof. intros a b g (_ & _ & _ & _ & K & _). unfold known_of. now rewrite K. Qed.

Lemma spare_env : forall a b g o bd, env_eq a b -> spare_cands b g o bd = spare_cands a g o bd.
Proof. intros a b g o bd E. unfold spare_cands. now rewrite (known_env _ _ g E). Qed.

Lemma bump_step : forall cs h w,
  s_tasks (c_base cs) = [T1 op gen term blob tract dv ok bad w] -> 1 <= dv ->
  (exists r, rget (s_reps (c_base cs)) (h, tk) = Some r /\ (r_ver r = dv \/ r_ver r = dv + 1)) ->
  exists reps1,
    bump_one op blob tract (dv + 1) hint cs h = set_base cs (task_reply (set_reps (c_base cs) reps1) op cl_NoError hint) /\
    (forall k, k <> (h, tk) -> rget reps1 k = rget (s_reps (c_base cs)) k) /\
    (exists r r', rget (s_reps (c_base cs)) (h, tk) = Some r /\ rget reps1 (h, tk) = Some r' /\ r_ver r' = dv + 1 /\ r_app r' = r_app r).
Proof.
  intros cs h w TS DV (r & G & V). unfold bump_one.
  destruct (bump_progress (s_reps (c_base cs)) h tk dv r G V DV) as (reps1 & SV & r' & G' & V' & A').
  fold tk. rewrite SV. exists reps1. split; [reflexivity|]. split.
  - destruct (ts_setversion_frame _ _ _ _ _ _ _ SV) as (OTH & _). exact OTH.
  - exists r, r'. auto.
Qed.

Lemma bump_loop : forall l cs w,
  s_tasks (c_base cs) = [T1 op gen term blob tract dv ok bad w] -> w = Z.of_nat (length l) -> l <> [] -> NoDup l -> 1 <= dv ->
  (forall h, In h l -> exists r, rget (s_reps (c_base cs)) (h, tk) = Some r /\ (r_ver r = dv \/ r_ver r = dv + 1)) ->
  subset bad (known_of (c_base cs) gen) = true ->
  Z.of_nat (length place) = Z.of_nat (length bad) -> subset place (spare_cands (c_base cs) gen ok bad) = true -> distinct place = true ->
  Z.of_nat (length bad) <= Z.of_nat (length (spare_cands (c_base cs) gen ok bad)) ->
  (forall x, In x place -> x <> -1) ->
  let cs' := fold_left (bump_one op blob tract (dv + 1) hint) l cs in
  env_eq (c_base cs) (c_base cs') /\ c_cor cs' = c_cor cs /\ c_fl cs' = c_fl cs /\
  s_tasks (c_base cs') = [T2 op gen term blob tract dv ok bad place (Z.of_nat (length bad))] /\
  bumped_rel l (s_reps (c_base cs)) (s_reps (c_base cs')).
Proof.
  induction l as [|h l IH]; intros cs w TS W NE ND DV PRES KB LP SP DP LC NS; [contradiction|].
  cbn [fold_left]. inversion ND as [|? ? NI ND']; subst.
  destruct (bump_step cs h (Z.of_nat (length (h :: l))) TS DV (PRES h (or_introl eq_refl))) as (reps1 & BO & OTH & (r & r' & G & G' & V' & A')).
  rewrite BO. set (st1 := set_reps (c_base cs) reps1).
  assert (TS1 : s_tasks st1 = [T1 op gen term blob tract dv ok bad (Z.of_nat (length (h :: l)))]) by exact TS.
  destruct l as [|h2 l].
  - (* the last survivor *)
    cbn [fold_left length] in *.
    assert (KB1 : subset bad (known_of st1 gen) = true) by exact KB.
    destruct (task_reply_place st1 op gen term blob tract dv ok bad 1 place TS1 ltac:(lia) KB1 LP SP DP LC NS) as (E1 & R1 & T1').
    fold hint in E1, R1, T1'. cbv zeta. cbn [c_base set_base c_cor c_fl].
    split; [eapply env_trans; [|exact E1]; repeat split|]. split; [reflexivity|]. split; [reflexivity|]. split; [exact T1'|].
    rewrite R1. cbn [s_reps set_reps st1]. split.
    + intros k N. apply OTH. intro X. apply N. exists h. split; [left; auto | exact X].
    + intros h' [X|[]]. subst h'. exists r, r'. auto.
  - (* more survivors to come *)
    assert (W1 : 1 < Z.of_nat (length (h :: h2 :: l))) by (cbn [length]; lia).
    rewrite (task_reply_dec1 st1 op gen term blob tract dv ok bad _ hint TS1 W1).
    set (cs1 := set_base cs (set_tasks st1 [T1 op gen term blob tract dv ok bad (Z.of_nat (length (h :: h2 :: l)) - 1)])).
    assert (PRES1 : forall x, In x (h2 :: l) -> exists r0, rget (s_reps (c_base cs1)) (x, tk) = Some r0 /\ (r_ver r0 = dv \/ r_ver r0 = dv + 1)).
    { intros x Ix. cbn [cs1 c_base set_base s_reps set_tasks set_reps st1]. rewrite OTH; [apply PRES; right; exact Ix|].
      intro X. inversion X; subst x. contradiction. }
    destruct (IH cs1 (Z.of_nat (length (h :: h2 :: l)) - 1)) as (E2 & C2 & F2 & T2' & (B1 & B2)); auto.
    + cbn [length]. lia.
    + discriminate.
    + cbv zeta. split; [eapply env_trans; [|exact E2]; repeat split|]. split; [exact C2|]. split; [exact F2|]. split; [exact T2'|].
      cbn [cs1 c_base set_base s_reps set_tasks set_reps st1] in B1, B2. split.
      * intros k N. rewrite B1.
        -- apply OTH. intro X. apply N. exists h. split; [left; auto | exact X].
        -- intros (x & Ix & X). apply N. exists x. split; [right; exact Ix | exact X].
      * intros x [X|Ix].
        -- subst x. exists r, r'. split; auto. split; [|auto]. rewrite B1; auto.
           intros (y & Iy & Y). inversion Y; subst y. contradiction.
        -- destruct (B2 x Ix) as (ra & rb & Ga & Gb & Vb & Ab). exists ra, rb. split; [|auto].
           rewrite <- Ga. symmetry. apply OTH. intro X. inversion X; subst x. contradiction.
Qed.

(* ------------------------------------------------------------------ the PullTract fan-out, delivered, and the commit *)
Variable srcs : list Z.

Definition pulled_rel (l : list Z) (reps : list (rkey * replica)) (cor : list rkey) (reps' : list (rkey * replica)) (cor' : list rkey) : Prop :=
  (forall k, ~ (exists n, In n l /\ k = (n, tk)) -> rget reps' k = rget reps k /\ rmem k cor' = rmem k cor) /\
  (forall n, In n l -> exists g s, In g srcs /\ rget reps (g, tk) = Some s /\ r_ver s = dv + 1 /\ rmem (g, tk) cor = false /\
                                   rget reps' (n, tk) = Some {| r_ver := dv + 1; r_app := r_app s |} /\ rmem (n, tk) cor' = false).

Lemma pull_step : forall cs n,
  (forall r, rget (s_reps (c_base cs)) (n, tk) = Some r -> r_ver r <= dv + 1) ->
  ~ In n srcs ->
  (exists g, In g srcs /\ good_source (s_reps (c_base cs)) (c_cor cs) (s_nts (c_base cs)) n tk (dv + 1) g) ->
  exists reps1 cor1 fl1,
    pull_one op blob tract (dv + 1) srcs hint cs n =
      set_disk cs (task_reply (set_reps (c_base cs) reps1) op cl_NoError hint) cor1 fl1 /\
    (forall k, k <> (n, tk) -> rget reps1 k = rget (s_reps (c_base cs)) k /\ rmem k cor1 = rmem k (c_cor cs)) /\
    (exists g s, In g srcs /\ rget (s_reps (c_base cs)) (g, tk) = Some s /\ r_ver s = dv + 1 /\ rmem (g, tk) (c_cor cs) = false /\
                 rget reps1 (n, tk) = Some {| r_ver := dv + 1; r_app := r_app s |} /\ rmem (n, tk) cor1 = false).
Proof.
  intros cs n LE NI GOOD. unfold pull_one. fold tk.
  assert (NS : forall s, In s srcs -> s <> n) by (intros s Is E; subst s; contradiction).
  destruct (c04_pull_progress srcs (s_reps (c_base cs)) (c_cor cs) (c_fl cs) (s_nts (c_base cs)) n tk (dv + 1) cl_NoError LE NS GOOD)
    as (reps1 & cor1 & fl1 & PL).
  unfold c04_pull. rewrite Z.eqb_refl. cbn [negb]. rewrite PL. exists reps1, cor1, fl1. split; [reflexivity|].
  apply c04_pull_loop_post in PL as [(SE & CS & OKc & _) _].
  split; [intros k N; split; [apply SE | apply CS]; exact N|].
  destruct (OKc eq_refl) as [(_ & _ & NIL)|(src & s & I & _ & G & V & M & D1 & D2)].
  - destruct GOOD as (g & Ig & _). rewrite NIL in Ig. destruct Ig.
  - exists src, s. split; [exact I|]. split; [exact G|]. split; [exact V|]. split; [exact M|]. split; [exact D1 | exact D2].
Qed.

Lemma pull_loop : forall l cs w repl nt hosts,
  gen = s_gen (c_base cs) -> term = s_term (c_base cs) ->
  s_tasks (c_base cs) = [T2 op gen term blob tract dv ok bad place w] -> w = Z.of_nat (length l) -> l <> [] -> NoDup l ->
  (forall n, In n l -> ~ In n srcs) ->
  (forall n r, In n l -> rget (s_reps (c_base cs)) (n, tk) = Some r -> r_ver r <= dv + 1) ->
  (exists g, In g srcs /\ 0 < g <= s_nts (c_base cs) /\
             exists s, rget (s_reps (c_base cs)) (g, tk) = Some s /\ r_ver s = dv + 1 /\ rmem (g, tk) (c_cor cs) = false) ->
  zget (s_blobs (c_base cs)) blob = Some (repl, nt) -> tract < nt ->
  tget (s_dtr (c_base cs)) tk = Some (dv, hosts) -> length (ok ++ place) = length hosts -> ok <> [] ->
  (forall x, In x place -> x <> -1) ->
  let cs' := fold_left (pull_one op blob tract (dv + 1) srcs hint) l cs in
  s_tasks (c_base cs') = [] /\
  tget (s_dtr (c_base cs')) tk = Some (dv + 1, ok ++ place) /\
  (forall tk', tk' <> tk -> tget (s_dtr (c_base cs')) tk' = tget (s_dtr (c_base cs)) tk') /\
  s_fin (c_base cs') = s_fin (c_base cs) ++ [(op, cl_NoError)] /\
  pulled_rel l (s_reps (c_base cs)) (c_cor cs) (s_reps (c_base cs')) (c_cor cs').
Proof.
  induction l as [|n l IH]; intros cs w repl nt hosts EG ET TS W NE ND DISJ LE GOOD B LT E LEN NEok NS; [contradiction|].
  cbn [fold_left]. inversion ND as [|? ? NI ND']; subst.
  assert (GS : exists g, In g srcs /\ good_source (s_reps (c_base cs)) (c_cor cs) (s_nts (c_base cs)) n tk (dv + 1) g).
  { destruct GOOD as (g & Ig & R & s & G & V & M). exists g. split; auto. split; auto. split; [|exists s; auto].
    intro X. subst g. exact (DISJ n (or_introl eq_refl) Ig). }
  destruct (pull_step cs n (fun r G => LE n r (or_introl eq_refl) G) (DISJ n (or_introl eq_refl)) GS)
    as (reps1 & cor1 & fl1 & PO & OTH & (g0 & s0 & Ig0 & G0 & V0 & M0 & D1 & D2)).
  rewrite PO. set (st1 := set_reps (c_base cs) reps1).
  assert (TS1 : s_tasks st1 = [T2 op (s_gen st1) (s_term st1) blob tract dv ok bad place (Z.of_nat (length (n :: l)))]) by exact TS.
  destruct l as [|n2 l].
  - (* the last new host: commit *)
    cbn [fold_left length] in *.
    destruct (task_reply_commit st1 op blob tract dv hosts ok bad place 1 repl nt TS1 ltac:(lia) B LT E LEN NEok NS) as (R1 & T1' & D1' & DO & F1).
    fold hint in R1, T1', D1', DO, F1. cbv zeta. cbn [c_base set_disk c_cor].
    split; [exact T1'|]. split; [exact D1'|]. split; [exact DO|]. split; [exact F1|].
    rewrite R1. cbn [s_reps set_reps st1]. split.
    + intros k N. apply OTH. intro X. apply N. exists n. split; [left; auto | exact X].
    + intros n' [X|[]]. subst n'. exists g0, s0. conjs.
  - assert (W1 : 1 < Z.of_nat (length (n :: n2 :: l))) by (cbn [length]; lia).
    rewrite (task_reply_dec2 st1 op (s_gen st1) (s_term st1) blob tract dv ok bad place _ hint TS1 W1).
    set (cs1 := set_disk cs (set_tasks st1 [T2 op (s_gen st1) (s_term st1) blob tract dv ok bad place (Z.of_nat (length (n :: n2 :: l)) - 1)]) cor1 fl1).
    assert (KEEP : forall x, x <> n -> rget (s_reps (c_base cs1)) (x, tk) = rget (s_reps (c_base cs)) (x, tk) /\ rmem (x, tk) (c_cor cs1) = rmem (x, tk) (c_cor cs)).
    { intros x N. cbn [cs1 c_base set_disk c_cor s_reps set_tasks set_reps st1]. apply OTH. intro X. inversion X. contradiction. }
    destruct (IH cs1 (Z.of_nat (length (n :: n2 :: l)) - 1) repl nt hosts) as (T2' & D2' & DO2 & F2 & (P1 & P2)); auto.
    + cbn [length]. lia.
    + discriminate.
    + intros x Ix. apply DISJ. right. exact Ix.
    + intros x r Ix G. destruct (KEEP x) as [K1 _]; [intro X; subst x; contradiction|]. rewrite K1 in G. eapply LE; eauto. right. exact Ix.
    + destruct GOOD as (g & Ig & R & s & G & V & M). exists g. split; auto. split; [exact R|].
      destruct (KEEP g) as [K1 K2]; [intro X; subst g; exact (DISJ n (or_introl eq_refl) Ig)|]. exists s. rewrite K1, K2. auto.
    + cbv zeta. split; [exact T2'|]. split; [exact D2'|]. split; [exact DO2|]. split; [exact F2|].
      cbn [cs1 c_base set_disk c_cor s_reps set_tasks set_reps st1] in P1, P2. split.
      * intros k N. destruct (P1 k) as [A1 A2].
        -- intros (x & Ix & X). apply N. exists x. split; [right; exact Ix | exact X].
        -- destruct (OTH k) as [B1 B2]; [intro X; apply N; exists n; split; [left; auto | exact X]|]. split; congruence.
      * intros x [X|Ix].
        -- subst x. exists g0, s0. split; auto. split; auto. split; auto. split; auto.
           destruct (P1 (n, tk)) as [A1 A2]; [intros (y & Iy & Y); inversion Y; subst y; contradiction|]. rewrite A1, A2. conjs.
        -- destruct (P2 x Ix) as (ga & sa & Iga & Ga & Va & Ma & Da & Db). exists ga, sa. split; auto.
           destruct (OTH (ga, tk)) as [B1 B2]; [intro X; inversion X; subst ga; exact (DISJ n (or_introl eq_refl) Iga)|].
           rewrite <- B1, <- B2. conjs.
Qed.

End Run.

(* ------------------------------------------------------------------ lists *)
Lemma distinct_NoDup : forall l, distinct l = true -> NoDup l.
Proof.
  induction l as [|x l IH]; intros H; [constructor|]. cbn in H. apply andb_true_iff in H as [N D]. apply negb_true_iff in N.
  constructor; [|auto]. intro I. rewrite (in_zmem _ _ I) in N. discriminate.
Qed.

Lemma sorted_in : forall h l, In h (sorted l) -> In h l.
Proof.
  assert (INS : forall x y l, In y (insert_sorted x l) -> y = x \/ In y l).
  { induction l as [|a l IH]; intros I; cbn in I; [destruct I as [I|[]]; auto|].
    destruct (x <? a); [destruct I as [I|I]; auto|]. destruct (x =? a) eqn:Q; [right; exact I|].
    destruct I as [I|I]; [right; left; exact I|]. destruct (IH I) as [X|X]; auto. right; right; exact X. }
  induction l as [|a l IH]; intros I; cbn in I; [destruct I|]. destruct (INS _ _ _ I) as [X|X]; [left; auto | right; auto].
Qed.

Lemma filter_split_length : forall (p q : Z -> bool) l,
  length (filter p l) = (length (filter p (filter q l)) + length (filter p (filter (fun x => negb (q x)) l)))%nat.
Proof.
  induction l as [|a l IH]; [reflexivity|]. cbn [filter]. destruct (q a); cbn [negb filter]; destruct (p a); cbn [length]; lia.
Qed.

Lemma nodup_app2 : forall (a b : list Z), NoDup a -> NoDup b -> (forall x, In x a -> In x b -> False) -> NoDup (a ++ b).
Proof.
  induction a as [|x a IH]; intros b Na Nb D; [exact Nb|]. inversion Na; subst. cbn. constructor.
  - intro I. apply in_app_or in I as [I|I]; [contradiction | exact (D x (or_introl eq_refl) I)].
  - apply IH; auto. intros y Ia Ib. exact (D y (or_intror Ia) Ib).
Qed.

(* ------------------------------------------------------------------ THE THEOREM *)
Theorem repair_completes : forall cs op blob tract bad place repl nt dv hosts,
  let st := c_base cs in
  let tk := tkey blob tract in
  let ok := survivors hosts bad in
  GL st -> s_tasks st = [] ->
  zget (s_blobs st) blob = Some (repl, nt) -> tract < nt ->
  tget (s_dtr st) tk = Some (dv, hosts) -> distinct hosts = true ->
  ok <> [] -> (length ok + length bad = length hosts)%nat -> bad <> [] ->
  subset ok (known_of st (s_gen st)) = true -> subset bad (known_of st (s_gen st)) = true ->
  (forall h, In h ok -> exists r, rget (s_reps st) (h, tk) = Some r) ->
  (exists g, In g ok /\ 0 < g <= s_nts st /\ rmem (g, tk) (c_cor cs) = false) ->
  length place = length bad -> distinct place = true ->
  subset place (spare_cands st (s_gen st) ok bad) = true -> (forall x, In x place -> x <> -1) ->
  let cs' := complete_repair cs op blob tract bad place in
  tget (s_dtr (c_base cs')) tk = Some (dv + 1, ok ++ place) /\
  length (ok ++ place) = length hosts /\ NoDup (ok ++ place) /\
  (forall tk', tk' <> tk -> tget (s_dtr (c_base cs')) tk' = tget (s_dtr st) tk') /\
  s_tasks (c_base cs') = [] /\ s_fin (c_base cs') = s_fin st ++ [(op, cl_NoError)] /\
  (forall h, In h ok -> exists r r', rget (s_reps st) (h, tk) = Some r /\ rget (s_reps (c_base cs')) (h, tk) = Some r' /\
                                     r_ver r' = dv + 1 /\ r_app r' = r_app r /\ rmem (h, tk) (c_cor cs') = rmem (h, tk) (c_cor cs)) /\
  (forall n, In n place -> exists g s, In g ok /\ rget (s_reps st) (g, tk) = Some s /\ rmem (g, tk) (c_cor cs) = false /\
                                       rget (s_reps (c_base cs')) (n, tk) = Some {| r_ver := dv + 1; r_app := r_app s |} /\
                                       rmem (n, tk) (c_cor cs') = false) /\
  (forall k, ~ (exists h, In h (ok ++ place) /\ k = (h, tk)) ->
             rget (s_reps (c_base cs')) k = rget (s_reps st) k /\ rmem k (c_cor cs') = rmem k (c_cor cs)).
Proof.
  intros cs op blob tract bad place repl nt dv hosts st tk ok GS TS B LT E DH NEok LEN NEbad KO KB PRES GOOD LP DP SP NS cs'.
  pose proof GS as [(((Ds & _) & _) & _) _]. destruct Ds as [_ D2].
  assert (DV : 1 <= dv) by (unfold tk, tkey in E; destruct (D2 _ _ _ _ E); lia).
  assert (OKH : forall h, In h ok -> In h hosts) by (intros h I; apply filter_In in I as [I _]; exact I).
  assert (NDok : NoDup ok) by (apply NoDup_filter; now apply distinct_NoDup).
  assert (NDpl : NoDup place) by now apply distinct_NoDup.
  assert (NL : length ok <> length hosts) by (destruct bad; [contradiction | cbn [length] in LEN; lia]).
  assert (PLC : forall n, In n place -> In n (spare_cands st (s_gen st) ok bad)) by (intros n I; eapply subset_in; eauto).
  assert (PLN : forall n, In n place -> ~ In n ok).
  { intros n I Io. apply PLC in I. apply filter_In in I as [_ I]. apply andb_true_iff in I as [I _]. apply negb_true_iff in I.
    rewrite (in_zmem _ _ Io) in I. discriminate. }
  assert (LC : Z.of_nat (length bad) <= Z.of_nat (length (spare_cands st (s_gen st) ok bad))).
  { rewrite <- LP. apply inj_le. apply NoDup_incl_length; [exact NDpl | exact PLC]. }
  assert (VER : forall h, In h ok -> exists r, rget (s_reps st) (h, tk) = Some r /\ (r_ver r = dv \/ r_ver r = dv + 1)).
  { intros h I. destruct (PRES h I) as (r & G). exists r. split; auto.
    pose proof (GL_lower _ _ _ _ _ _ GS E (OKH h I) G). pose proof (GL_upper _ _ _ _ _ _ GS E G). lia. }
  (* start *)
  assert (CR : cs' = fold_left (pull_one op blob tract (dv + 1) (sorted ok) (place ++ [-1])) place
                       (fold_left (bump_one op blob tract (dv + 1) (place ++ [-1])) ok
                          (set_base cs (start_task st (new_task op 5 (s_gen st) (s_term st) blob tract bad 0 0 0))))).
  { unfold cs', complete_repair. pose proof E as E'. unfold st, tk in E'. rewrite E'. reflexivity. }
  clearbody cs'. subst cs'.
  destruct (start_phase1 st op blob tract bad repl nt dv hosts TS B LT E NEok NL KO) as (E1 & R1 & T1').
  set (cs1 := set_base cs (start_task st (new_task op 5 (s_gen st) (s_term st) blob tract bad 0 0 0))) in *.
  fold ok in T1'.
  (* bump *)
  assert (KN1 : known_of (c_base cs1) (s_gen st) = known_of st (s_gen st)) by (apply known_env; exact E1).
  assert (SC1 : spare_cands (c_base cs1) (s_gen st) ok bad = spare_cands st (s_gen st) ok bad) by (apply spare_env; exact E1).
  assert (H1 : forall h, In h ok -> exists r, rget (s_reps (c_base cs1)) (h, tk) = Some r /\ (r_ver r = dv \/ r_ver r = dv + 1)).
  { intros h I. cbn [cs1 c_base set_base]. rewrite R1. now apply VER. }
  assert (H2 : subset bad (known_of (c_base cs1) (s_gen st)) = true) by (rewrite KN1; exact KB).
  assert (H3 : Z.of_nat (length place) = Z.of_nat (length bad)) by (now rewrite LP).
  assert (H4 : subset place (spare_cands (c_base cs1) (s_gen st) ok bad) = true) by (rewrite SC1; exact SP).
  assert (H5 : Z.of_nat (length bad) <= Z.of_nat (length (spare_cands (c_base cs1) (s_gen st) ok bad))) by (rewrite SC1; exact LC).
  destruct (bump_loop op blob tract dv (s_gen st) (s_term st) ok bad place ok cs1 (Z.of_nat (length ok)) T1' eq_refl NEok NDok DV H1 H2 H3 H4 DP H5 NS)
    as (E2 & C2 & F2 & T2' & (BU1 & BU2)).
  set (cs2 := fold_left (bump_one op blob tract (dv + 1) (place ++ [-1])) ok cs1) in *.
  cbn [cs1 c_base set_base c_cor c_fl] in E2, C2, F2, BU1, BU2. rewrite R1 in BU1, BU2.
  assert (E12 : env_eq st (c_base cs2)) by (eapply env_trans; eauto).
  destruct E12 as (EB & ED & ET & EG & EK & EN & EF).
  (* pull *)
  destruct GOOD as (g & Ig & Rg & Mg).
  assert (P1 : Z.of_nat (length bad) = Z.of_nat (length place)) by (now rewrite LP).
  assert (P2 : place <> []) by (intro X; subst place; destruct bad; [contradiction | discriminate LP]).
  assert (P3 : forall n, In n place -> ~ In n (sorted ok)) by (intros n I Is; apply (PLN n I); now apply sorted_in).
  assert (P4 : forall n r, In n place -> rget (s_reps (c_base cs2)) (n, tk) = Some r -> r_ver r <= dv + 1).
  { intros n r I G. rewrite BU1 in G; [eapply GL_upper; eauto|]. intros (h & Ih & X). inversion X; subst h. exact (PLN n I Ih). }
  assert (P5 : exists g, In g (sorted ok) /\ 0 < g <= s_nts (c_base cs2) /\
                         exists s, rget (s_reps (c_base cs2)) (g, tk) = Some s /\ r_ver s = dv + 1 /\ rmem (g, tk) (c_cor cs2) = false).
  { exists g. split; [now apply in_sorted|]. rewrite EN. split; [exact Rg|].
    destruct (BU2 g Ig) as (r & r' & G & G' & V' & A'). exists r'. rewrite C2. auto. }
  assert (P6 : zget (s_blobs (c_base cs2)) blob = Some (repl, nt)) by (rewrite EB; exact B).
  assert (P7 : tget (s_dtr (c_base cs2)) tk = Some (dv, hosts)) by (rewrite ED; exact E).
  assert (P8 : length (ok ++ place) = length hosts) by (rewrite app_length; lia).
  destruct (pull_loop op blob tract dv (s_gen st) (s_term st) ok bad place (sorted ok) place cs2 (Z.of_nat (length bad)) repl nt hosts
              (eq_sym EG) (eq_sym ET) T2' P1 P2 NDpl P3 P4 P5 P6 LT P7 P8 NEok NS)
    as (T3 & D3 & DO3 & F3 & (PU1 & PU2)).
  split; [exact D3|]. split; [rewrite app_length; lia|]. split.
  { apply nodup_app2; auto. intros x Io Ip. exact (PLN x Ip Io). }
  split; [intros tk' N; rewrite (DO3 tk' N), ED; reflexivity|]. split; [exact T3|]. split; [rewrite F3, EF; reflexivity|].
  split; [|split].
  - intros h I. destruct (BU2 h I) as (r & r' & G & G' & V' & A'). exists r, r'. split; auto.
    destruct (PU1 (h, tk)) as [Q1 Q2]; [intros (n & In' & X); inversion X; subst n; exact (PLN h In' I)|].
    rewrite Q1, Q2, C2. auto.
  - intros n I. destruct (PU2 n I) as (g0 & s0 & Ig0 & G0 & V0 & M0 & Dn & Mn).
    apply sorted_in in Ig0. destruct (BU2 g0 Ig0) as (r & r' & G & G' & V' & A').
    rewrite G' in G0. inversion G0; subst s0. exists g0, r. rewrite C2 in M0. rewrite <- A'. conjs.
  - intros k N. destruct (PU1 k) as [Q1 Q2].
    { intros (n & In' & X). apply N. exists n. split; [apply in_or_app; right; exact In' | exact X]. }
    rewrite Q1, Q2, C2. split; [|reflexivity]. apply BU1. intros (h & Ih & X). apply N. exists h. split; [apply in_or_app; left; exact Ih | exact X].
Qed.

(* ------------------------------------------------------------------ the premises, bundled; the deficit *)
(* state of a quiet cluster in which one replicateTract task for tract (blob, tract) with bad set bad and
   placement place can run: the run invariants hold (reachable state), no other task, the tract is durable at
   (dv, hosts) with distinct hosts, bad is a non-empty duplicate-free part of hosts that leaves survivors, the
   leader knows survivors and bad hosts, every survivor still holds a replica, at least one survivor is undamaged
   and reachable, and placement picked as many distinct eligible spares as there are bad hosts *)
Definition repair_pre (cs : cstate) (blob tract : Z) (bad place : list Z) (repl nt dv : Z) (hosts : list Z) : Prop :=
  let st := c_base cs in
  let tk := tkey blob tract in
  let ok := survivors hosts bad in
  GL st /\ s_tasks st = [] /\
  zget (s_blobs st) blob = Some (repl, nt) /\ tract < nt /\
  tget (s_dtr st) tk = Some (dv, hosts) /\ distinct hosts = true /\
  ok <> [] /\ (length ok + length bad = length hosts)%nat /\ bad <> [] /\
  subset ok (known_of st (s_gen st)) = true /\ subset bad (known_of st (s_gen st)) = true /\
  (forall h, In h ok -> exists r, rget (s_reps st) (h, tk) = Some r) /\
  (exists g, In g ok /\ 0 < g <= s_nts st /\ rmem (g, tk) (c_cor cs) = false) /\
  length place = length bad /\ distinct place = true /\
  subset place (spare_cands st (s_gen st) ok bad) = true /\ (forall x, In x place -> x <> -1).

Lemma filter_none : forall (p : Z -> bool) l, (forall x, In x l -> p x = false) -> filter p l = [].
Proof.
  induction l as [|a l IH]; intros H; [reflexivity|]. cbn. rewrite (H a (or_introl eq_refl)). apply IH. intros x Hx. apply H. now right.
Qed.

Theorem repair_restores : forall cs op blob tract bad place repl nt dv hosts,
  repair_pre cs blob tract bad place repl nt dv hosts ->
  let tk := tkey blob tract in
  let ok := survivors hosts bad in
  let cs' := complete_repair cs op blob tract bad place in
  (* committed: the next version, survivors ++ new hosts, as many as before, on distinct servers, task done *)
  tget (s_dtr (c_base cs')) tk = Some (dv + 1, ok ++ place) /\
  length (ok ++ place) = length hosts /\ NoDup (ok ++ place) /\
  s_tasks (c_base cs') = [] /\ s_fin (c_base cs') = s_fin (c_base cs) ++ [(op, cl_NoError)] /\
  (* every host holds a replica at the new version; a new host holds an undamaged copy of an undamaged survivor *)
  (forall h, In h (ok ++ place) -> exists r', rget (s_reps (c_base cs')) (h, tk) = Some r' /\ r_ver r' = dv + 1) /\
  (forall n, In n place -> undamaged_current cs' tk (dv + 1) n = true /\
     exists g s, In g ok /\ rget (s_reps (c_base cs)) (g, tk) = Some s /\ rmem (g, tk) (c_cor cs) = false /\
                 rget (s_reps (c_base cs')) (n, tk) = Some {| r_ver := dv + 1; r_app := r_app s |}) /\
  (forall h, In h ok -> undamaged_current cs' tk (dv + 1) h = undamaged_current cs tk dv h) /\
  (* the deficit: exactly the bad hosts that were not undamaged-current are made good *)
  (deficit cs tk = deficit cs' tk +
                   length (filter (fun h => negb (undamaged_current cs tk dv h)) (filter (fun h => zmem h bad) hosts)))%nat /\
  ((forall h, In h ok -> rmem (h, tk) (c_cor cs) = false) -> deficit cs' tk = O).
Proof.
  intros cs op blob tract bad place repl nt dv hosts
         (GS & TS & B & LT & E & DH & NEok & LEN & NEbad & KO & KB & PRES & GOOD & LP & DP & SP & NS) tk ok cs'.
  destruct (repair_completes cs op blob tract bad place repl nt dv hosts GS TS B LT E DH NEok LEN NEbad KO KB PRES GOOD LP DP SP NS)
    as (D3 & LN & ND & _ & T3 & F3 & OKS & NEW & _).
  fold tk ok cs' in D3, LN, ND, T3, F3, OKS, NEW.
  assert (UOK : forall h, In h ok -> undamaged_current cs' tk (dv + 1) h = undamaged_current cs tk dv h).
  { intros h I. destruct (OKS h I) as (r & r' & G & G' & V' & A' & M'). unfold undamaged_current. rewrite G, G', M', V'.
    assert (In h hosts) by (apply filter_In in I as [I _]; exact I).
    pose proof (GL_lower _ _ _ _ _ _ GS E H G) as LO.
    replace (dv + 1 <=? dv + 1) with true by (symmetry; apply Z.leb_le; lia).
    replace (dv <=? r_ver r) with true by (symmetry; apply Z.leb_le; lia). reflexivity. }
  assert (UNEW : forall n, In n place -> undamaged_current cs' tk (dv + 1) n = true).
  { intros n I. destruct (NEW n I) as (g & s & _ & _ & _ & Dn & Mn). unfold undamaged_current. rewrite Dn, Mn. cbn.
    rewrite Z.leb_refl. reflexivity. }
  assert (DEF' : deficit cs' tk = length (filter (fun h => negb (undamaged_current cs tk dv h)) ok)).
  { unfold deficit. rewrite D3. rewrite filter_app, app_length.
    rewrite (filter_none _ place); [|intros x Ix; rewrite (UNEW x Ix); reflexivity]. cbn [length]. rewrite Nat.add_0_r.
    f_equal. apply filter_ext_in. intros h I. now rewrite UOK. }
  split; [exact D3|]. split; [exact LN|]. split; [exact ND|]. split; [exact T3|]. split; [exact F3|].
  split.
  { intros h I. apply in_app_or in I as [I|I].
    - destruct (OKS h I) as (r & r' & G & G' & V' & _). eauto.
    - destruct (NEW h I) as (g & s & _ & _ & _ & Dn & _). eexists. split; [exact Dn | reflexivity]. }
  split.
  { intros n I. split; [now apply UNEW|]. destruct (NEW n I) as (g & s & Ig & G & M & Dn & _). exists g, s. auto. }
  split; [exact UOK|]. split.
  - rewrite DEF'. unfold deficit. fold tk in E. rewrite E.
    rewrite (filter_split_length (fun h => negb (undamaged_current cs tk dv h)) (fun h => negb (zmem h bad)) hosts).
    fold (survivors hosts bad). fold ok.
    rewrite (filter_ext (fun x => negb (negb (zmem x bad))) (fun h => zmem h bad)) by (intro; apply negb_involutive). reflexivity.
  - intros ALL. rewrite DEF'. rewrite filter_none; [reflexivity|]. intros h I.
    destruct (OKS h I) as (r & _ & G & _). unfold undamaged_current. rewrite G, (ALL h I).
    assert (In h hosts) by (apply filter_In in I as [I _]; exact I).
    pose proof (GL_lower _ _ _ _ _ _ GS E H G) as LO.
    replace (dv <=? r_ver r) with true by (symmetry; apply Z.leb_le; lia). reflexivity.
Qed.

(* ------------------------------------------------------------------ an instance: the retried repair of schedule dA *)
Lemma repair_dA :
  let cs0 := crun_state cinit (firstn 33 dA_ops) in
  let csA := complete_repair cs0 3 0 0 [2] [1] in
  let csB := crun_state cinit (firstn 37 dA_ops) in
  repair_pre cs0 0 0 [2] [1] 2 1 1 [2; 4] /\
  (tget (s_dtr (c_base csA)) (0, 0) = Some (2, [4; 1]) /\ tget (s_dtr (c_base csB)) (0, 0) = Some (2, [1; 4])) /\
  forallb (fun h => list_eqb (dump_replica (s_reps (c_base csA)) h (0, 0)) (dump_replica (s_reps (c_base csB)) h (0, 0))) [1; 2; 3; 4] = true /\
  (deficit cs0 (0, 0) = 1%nat /\ deficit csA (0, 0) = 0%nat /\ deficit csB (0, 0) = 0%nat).
Proof.
  intros cs0 csA csB. split; [|split; [split; vm_compute; reflexivity|split; [vm_compute; reflexivity|repeat split; vm_compute; reflexivity]]].
  unfold repair_pre.
  split. { apply (c04_GL_reachable 4). vm_compute. reflexivity. }
  split; [vm_compute; reflexivity|]. split; [vm_compute; reflexivity|]. split; [vm_compute; reflexivity|].
  split; [vm_compute; reflexivity|]. split; [vm_compute; reflexivity|]. split; [vm_compute; discriminate|].
  split; [vm_compute; reflexivity|]. split; [discriminate|]. split; [vm_compute; reflexivity|]. split; [vm_compute; reflexivity|].
  split. { intros h I. vm_compute in I. destruct I as [X|[]]. subst h. eexists. vm_compute. reflexivity. }
  split. { exists 4. split; [vm_compute; auto|]. split; [vm_compute; split; [reflexivity | discriminate] | vm_compute; reflexivity]. }
  split; [reflexivity|]. split; [reflexivity|]. split; [vm_compute; reflexivity|].
  intros x [X|[]]. subst x. discriminate.
Qed.

(* ------------------------------------------------------------------ the bad set the recovery loop selects *)
(* recovery.tractTask (Model.rec_each): the queue entry of a tract carries the sorted list of its hosts that are
   believed down or reported corrupt; it exists only if that list is neither empty nor everything.  Such a bad set
   meets the structural premises of repair_pre. *)
Lemma insert_sorted_length : forall x l, ~ In x l -> length (insert_sorted x l) = S (length l).
Proof.
  induction l as [|a l IH]; intros N; cbn; [reflexivity|].
  destruct (x <? a); [reflexivity|]. destruct (x =? a) eqn:Q; [apply Z.eqb_eq in Q; subst; exfalso; apply N; left; auto|].
  cbn. f_equal. apply IH. intro I. apply N. right. exact I.
Qed.

Lemma sorted_length : forall l, NoDup l -> length (sorted l) = length l.
Proof.
  induction l as [|a l IH]; intros ND; [reflexivity|]. inversion ND; subst. cbn [sorted fold_right].
  fold (sorted l). rewrite insert_sorted_length; [now rewrite IH|]. intro I. apply sorted_in in I. contradiction.
Qed.

Lemma zmem_sorted : forall h l, zmem h (sorted l) = zmem h l.
Proof.
  intros h l. destruct (zmem h l) eqn:Z.
  - apply in_zmem. apply in_sorted. now apply zmem_in.
  - destruct (zmem h (sorted l)) eqn:Y; [|reflexivity]. apply zmem_in in Y. apply sorted_in in Y. rewrite (in_zmem _ _ Y) in Z. discriminate.
Qed.

Lemma sortz_is_sorted : forall l, sortz l = sorted l.
Proof. reflexivity. Qed.

Lemma zmem_filter : forall (p : Z -> bool) h l, zmem h (filter p l) = zmem h l && p h.
Proof.
  intros p h l. destruct (zmem h (filter p l)) eqn:Z.
  - apply zmem_in in Z. apply filter_In in Z as [I P]. rewrite (in_zmem _ _ I), P. reflexivity.
  - destruct (zmem h l) eqn:Y; [|reflexivity]. destruct (p h) eqn:P; [|reflexivity].
    apply zmem_in in Y. assert (In h (filter p l)) by (apply filter_In; auto). rewrite (in_zmem _ _ H) in Z. discriminate.
Qed.

Theorem selected_bad_set : forall down rcor rent unrec tk dv hosts rcor' rent' unrec' e,
  rec_each down (rcor, rent, unrec) (tk, (dv, hosts)) = (rcor', rent', unrec') ->
  distinct hosts = true -> ent_get rent' tk = Some e ->
  let bad := e_bad e in
  survivors hosts bad <> [] /\ bad <> [] /\ (length (survivors hosts bad) + length bad = length hosts)%nat /\
  (forall h, In h bad -> In h hosts).
Proof.
  intros down rcor rent unrec tk dv hosts rcor' rent' unrec' e H DH EG bad. unfold rec_each in H.
  set (rcor1 := match tget rcor tk with
                | Some s => match filter (fun h => zmem h hosts) s with [] => tdel rcor tk | _ => tset rcor tk (filter (fun h => zmem h hosts) s) end
                | None => rcor end) in *.
  set (cset := match tget rcor1 tk with Some s => s | None => [] end) in *.
  set (b0 := bad_hosts down cset hosts) in *.
  destruct (Z.of_nat (length hosts) =? 0) eqn:Z0; [inversion H; subst; rewrite ent_get_del in EG; discriminate|].
  destruct (Z.of_nat (length b0) =? 0) eqn:Z1; [inversion H; subst; rewrite ent_get_del in EG; discriminate|].
  destruct (Z.of_nat (length b0) =? Z.of_nat (length hosts)) eqn:Z2; [inversion H; subst; rewrite ent_get_del in EG; discriminate|].
  inversion H; subst rcor' rent' unrec'. clear H. cbn [ent_get find e_tk] in EG.
  assert (TT : tk_eqb tk tk = true) by (apply tk_eqb_eq; reflexivity). rewrite TT in EG. inversion EG; subst e. clear EG.
  unfold bad. cbn [e_bad]. rewrite sortz_is_sorted.
  assert (NDh : NoDup hosts) by now apply distinct_NoDup.
  assert (NDb : NoDup b0) by (apply NoDup_filter; exact NDh).
  assert (SURV : survivors hosts (sorted b0) = filter (fun h => negb (zmem h down || zmem h cset)) hosts).
  { unfold survivors. apply filter_ext_in. intros h I. rewrite zmem_sorted. unfold b0, bad_hosts. rewrite zmem_filter, (in_zmem _ _ I). reflexivity. }
  assert (LEN : (length (filter (fun h => negb (zmem h down || zmem h cset)) hosts) + length b0 = length hosts)%nat).
  { assert (GEN : forall (c : list Z) l, (length (filter (fun h => negb (zmem h down || zmem h c)) l) +
                                            length (filter (fun h => zmem h down || zmem h c) l) = length l)%nat).
    { intros c l. induction l as [|a l IH]; [reflexivity|]. cbn [filter]. destruct (zmem a down || zmem a c); cbn [negb length]; lia. }
    unfold b0, bad_hosts. apply GEN. }
  rewrite SURV, (sorted_length _ NDb).
  apply Z.eqb_neq in Z1, Z2.
  split; [|split; [|split; [exact LEN|]]].
  - intro X. rewrite X in LEN. cbn in LEN. lia.
  - intro X. assert (length b0 = O) by (rewrite <- (sorted_length _ NDb), X; reflexivity). lia.
  - intros h I. apply sorted_in in I. unfold b0, bad_hosts in I. apply filter_In in I as [I _]. exact I.
Qed.
