(* C04/RSRunProofs.v — invariants of the one-chunk transition model (C04/RSRun.v) along every run accepted by
   rs_ok_ev, and the progress of a reconstruction. *)
From Coq Require Import List NArith ZArith Arith Bool Lia.
From BLB Require Import C13.Model C04.RSProofs C04.RSRun.
Import ListNotations.
Local Open Scope nat_scope.

(* ------------------------------------------------------------------ pieces *)
Lemma pupd_same : forall pc s i v, pupd pc s i v s i = v.
Proof. intros. unfold pupd. now rewrite N.eqb_refl, Nat.eqb_refl. Qed.
Lemma pupd_other : forall pc s i v s' i', (s', i') <> (s, i) -> pupd pc s i v s' i' = pc s' i'.
Proof.
  intros pc s i v s' i' H. unfold pupd. destruct (N.eqb s' s) eqn:A; [|reflexivity]. destruct (Nat.eqb i' i) eqn:B; [|reflexivity].
  apply N.eqb_eq in A. apply Nat.eqb_eq in B. subst. contradiction.
Qed.

Lemma key_dec : forall a b : N * nat, {a = b} + {a <> b}.
Proof. decide equality; [apply Nat.eq_dec | apply N.eq_dec]. Qed.

Lemma write_all_out : forall ks pc v s i, ~ In (s, i) ks -> write_all pc ks v s i = pc s i.
Proof.
  induction ks as [|k ks IH]; intros pc v s i N; [reflexivity|]. unfold write_all in *. cbn [fold_left].
  rewrite IH by (intro X; apply N; right; exact X). apply pupd_other. intro X. apply N. left. destruct k; cbn in *. congruence.
Qed.
Lemma write_all_in : forall ks pc v s i, In (s, i) ks -> write_all pc ks v s i = Some v.
Proof.
  induction ks as [|k ks IH]; intros pc v s i I; [destruct I|]. unfold write_all in *. cbn [fold_left].
  destruct (in_dec key_dec (s, i) ks) as [J|J]; [now apply IH|].
  destruct I as [I|I]; [|contradiction]. subst k. cbn [fst snd].
  change (fold_left (fun p k => pupd p (fst k) (snd k) (Some v)) ks (pupd pc s i (Some v)) s i) with (write_all (pupd pc s i (Some v)) ks v s i).
  rewrite write_all_out by exact J. apply pupd_same.
Qed.

Lemma memN_in : forall x l, memN x l = true <-> In x l.
Proof.
  intros x l. unfold memN. rewrite existsb_exists. split.
  - intros (y & I & E). apply N.eqb_eq in E. now subst.
  - intro I. exists x. split; auto. apply N.eqb_refl.
Qed.

Lemma fresh_not_in : forall hosts newids x, fresh hosts newids = true -> In x newids -> ~ In x hosts.
Proof.
  intros hosts newids x F I J. unfold fresh in F. rewrite forallb_forall in F. specialize (F x I).
  apply negb_true_iff in F. apply memN_in in J. congruence.
Qed.

Lemma dkeys_in : forall hosts a s i, In (s, i) (dkeys hosts a) -> In s (a_new a) /\ In i (dst_of hosts (a_bad a)).
Proof. intros hosts a s i I. unfold dkeys in I. split; [eapply in_combine_l | eapply in_combine_r]; eauto. Qed.

(* a key of a NAMED piece is not a destination key *)
Lemma named_not_dkey : forall hosts a i, fresh hosts (a_new a) = true -> i < length hosts -> ~ In (nth i hosts 0%N, i) (dkeys hosts a).
Proof. intros hosts a i F L I. apply dkeys_in in I as [I _]. exact (fresh_not_in _ _ _ F I (nth_In _ _ L)). Qed.

Lemma intact_count_ext : forall pc pc' hosts, (forall i, i < length hosts -> pc' (nth i hosts 0%N) i = pc (nth i hosts 0%N) i) ->
  intact_count pc' hosts = intact_count pc hosts.
Proof.
  intros pc pc' hosts H. unfold intact_count. f_equal. apply filter_ext_in. intros i I. apply in_seq in I. unfold intact_at. rewrite H by lia. reflexivity.
Qed.

Lemma bad_count_ext : forall pc pc' hosts, (forall i, i < length hosts -> pc' (nth i hosts 0%N) i = pc (nth i hosts 0%N) i) ->
  length (filter (fun i => negb (intact_at pc' hosts i)) (seq 0 (length hosts))) = length (filter (fun i => negb (intact_at pc hosts i)) (seq 0 (length hosts))).
Proof.
  intros pc pc' hosts H. f_equal. apply filter_ext_in. intros i I. apply in_seq in I. unfold intact_at. rewrite H by lia. reflexivity.
Qed.

(* ------------------------------------------------------------------ the plan *)
Lemma plan_src : forall n m hosts bad newids p, reconstruct_plan n m hosts bad newids = Some p -> p_src p = firstn n (ok_of hosts bad).
Proof.
  intros n m hosts bad newids p H. unfold reconstruct_plan in H. fold (dst_of hosts bad) in H. fold (ok_of hosts bad) in H.
  destruct (Nat.ltb (length (ok_of hosts bad)) n); [discriminate|].
  destruct (dst_of hosts bad) as [|x dst] eqn:D; [discriminate|].
  destruct (negb (Nat.eqb (length newids) (length (x :: dst)))); [discriminate|]. inversion H; subst. reflexivity.
Qed.

Lemma ok_not_dst : forall hosts bad i, In i (ok_of hosts bad) -> i < length hosts /\ ~ In i (dst_of hosts bad).
Proof.
  intros hosts bad i I. unfold ok_of in I. apply filter_In in I as [I N]. apply in_seq in I. split; [lia|].
  intro J. unfold dst_of in J. apply filter_In in J as [_ J]. rewrite J in N. discriminate.
Qed.

Lemma in_firstn : forall A (l : list A) n x, In x (firstn n l) -> In x l.
Proof. intros A l n x I. rewrite <- (firstn_skipn n l). apply in_or_app. now left. Qed.

Lemma nodup_firstn : forall A (l : list A) n, NoDup l -> NoDup (firstn n l).
Proof.
  intros A l n. revert l. induction n; intros l ND; [constructor|]. destruct l; [constructor|]. inversion ND; subst. cbn. constructor; auto.
  intro I. apply in_firstn in I. contradiction.
Qed.

(* with all sources intact and the destinations written completely, the list the plan would commit has >= n intact pieces *)
Lemma completion_safe : forall n m hosts a pc,
  reconstruct_plan n m hosts (a_bad a) (a_new a) = Some (a_plan a) -> fresh hosts (a_new a) = true ->
  forallb (intact_at pc hosts) (p_src (a_plan a)) = true ->
  n <= intact_count (write_all pc (dkeys hosts a) Intact) (p_hosts (a_plan a)).
Proof.
  intros n m hosts a pc P F S.
  destruct (plan_commit_exact _ _ _ _ _ _ P) as (LH & _ & KEEP). destruct (plan_newids_length _ _ _ _ _ _ P) as (_ & _ & LO).
  rewrite (plan_src _ _ _ _ _ _ P) in S. rewrite forallb_forall in S.
  set (src := firstn n (ok_of hosts (a_bad a))) in *.
  assert (LS : length src = n) by (unfold src; rewrite firstn_length; lia).
  assert (ND : NoDup src) by (apply nodup_firstn; unfold ok_of; apply NoDup_filter, seq_NoDup).
  rewrite <- LS. unfold intact_count. apply NoDup_incl_length; [exact ND|].
  intros i I. pose proof (S i I) as SI. apply in_firstn in I. destruct (ok_not_dst _ _ _ I) as [L ND'].
  apply filter_In. split; [apply in_seq; lia|]. unfold intact_at in *. rewrite (KEEP i ND').
  rewrite write_all_out; [exact SI|]. now apply named_not_dkey.
Qed.

(* ------------------------------------------------------------------ the invariant *)
Record Inv (st : rs) : Prop := {
  i_att : forall a, r_att st = Some a ->
            reconstruct_plan (r_n st) (r_m st) (r_hosts st) (a_bad a) (a_new a) = Some (a_plan a) /\
            fresh (r_hosts st) (a_new a) = true /\ distinctN (a_new a) = true /\ r_pend st = true;
  i_soup : forall s i g, In (s, i, g) (r_soup st) -> g <= r_gen st /\ (g = r_gen st -> named st i <> s /\ r_att st = None);
  i_safe : rs_safe st = true;
  i_enc : forall a, r_att st = Some a -> a_left a = 0 -> forall k, In k (dkeys (r_hosts st) a) -> r_pc st (fst k) (snd k) = Some Intact \/ In k (a_hit a)
}.

Lemma safe_none : forall st, r_att st = None -> rs_safe st = Nat.leb (r_n st) (intact_named st).
Proof. intros st E. unfold rs_safe. rewrite E. apply andb_true_r. Qed.

Lemma safe_named : forall st, rs_safe st = true -> r_n st <= intact_named st.
Proof. intros st S. unfold rs_safe in S. apply andb_true_iff in S as [S _]. now apply Nat.leb_le. Qed.

(* a state that differs only in beliefs / task / soup-irrelevant fields *)
Lemma Inv_beliefs : forall st down cor task unrec, Inv st ->
  Inv (upd st (r_hosts st) (r_pc st) down cor task unrec (r_pend st) (r_att st) (r_soup st) (r_gen st)).
Proof. intros st down cor task unrec [A B C D]. constructor; auto. Qed.

Lemma Inv_abort_pc : forall st pc, Inv st ->
  (forall i, i < length (r_hosts st) -> pc (nth i (r_hosts st) 0%N) i = r_pc st (nth i (r_hosts st) 0%N) i) ->
  Inv (abort (set_pc st pc)).
Proof.
  intros st pc [A B C D] E. constructor; cbn.
  - intros a X. discriminate X.
  - intros s i g I. destruct (B s i g I) as [L G]. split; [exact L|]. intro Y. destruct (G Y). split; auto.
  - rewrite safe_none by reflexivity. apply Nat.leb_le. change (r_n st <= intact_count pc (r_hosts st)). rewrite (intact_count_ext (r_pc st) pc _ E). exact (safe_named st C).
  - intros a X. discriminate X.
Qed.

Lemma Inv_abort : forall st, Inv st -> Inv (abort st).
Proof. intros st I. apply (Inv_abort_pc st (r_pc st) I). auto. Qed.

Lemma nth_error_in_split : forall A (l : list A) k x y, In y (firstn k l ++ skipn (S k) l) -> nth_error l k = Some x -> In y l.
Proof.
  intros A l k x y I _. apply in_app_or in I as [I|I]; [now apply in_firstn in I|].
  rewrite <- (firstn_skipn (S k) l). apply in_or_app. now right.
Qed.

Theorem Inv_step : forall st ev, Inv st -> rs_ok_ev st ev = true -> Inv (rstep st ev).
Proof.
  intros st ev I OK. pose proof I as [A B C D]. destruct ev; cbn [rstep].
  - (* fault *)
    cbn [rs_ok_ev rstep] in OK. constructor; cbn.
    + intros a X. destruct (r_att st) as [a0|] eqn:E; [|discriminate X]. inversion X; subst a. cbn. exact (A a0 eq_refl).
    + intros s0 i0 g I0. destruct (B s0 i0 g I0) as [L G]. split; [exact L|]. intro Y. destruct (G Y) as [G1 G2]. split; [exact G1|]. now rewrite G2.
    + exact OK.
    + intros a X L k Ik. destruct (r_att st) as [a0|] eqn:E; [|discriminate X]. inversion X; subst a. cbn in *.
      destruct (key_dec k (s, i)) as [EQ|NE]; [right; left; now symmetry|].
      destruct (D a0 eq_refl L k Ik) as [Y|Y]; [|right; right; exact Y]. left.
      destruct (r_pc st s i); [|exact Y]. rewrite pupd_other; [exact Y|]. destruct k; cbn. exact NE.
  - now apply Inv_beliefs.
  - destruct (r_att st) as [a|] eqn:E; [|exact I]. destruct (Nat.eqb (a_left a) 0); [exact I | now apply Inv_abort].
  - destruct (_ && _); [now apply Inv_beliefs | exact I].
  - destruct (r_att st) as [a|] eqn:E; [exact I|].
    assert (X : forall task unrec, Inv (upd st (r_hosts st) (r_pc st) (r_down st) (r_cor st) task unrec false None (r_soup st) (r_gen st))).
    { intros task unrec. constructor; cbn.
      - intros a Y. discriminate Y.
      - intros s i g I0. destruct (B s i g I0) as [L G]. split; [exact L|]. intro Y. destruct (G Y). split; auto.
      - rewrite safe_none by reflexivity. apply Nat.leb_le. exact (safe_named st C).
      - intros a Y. discriminate Y. }
    destruct (detect_bad st) as [|z l]; [apply X|]. destruct z as [|p|p]; try apply X. destruct p; try apply X.
    + destruct p; apply X.
    + destruct l; apply X.
  - (* start *)
    destruct (r_att st) as [a|] eqn:E; [exact I|]. destruct (r_task st) as [bad|] eqn:T; [|exact I].
    assert (X : Inv (upd st (r_hosts st) (r_pc st) (r_down st) (r_cor st) None (r_unrec st) false None (r_soup st) (r_gen st))).
    { constructor; cbn.
      - intros a Y. discriminate Y.
      - intros s i g I0. destruct (B s i g I0) as [L G]. split; [exact L|]. intro Y. destruct (G Y). split; auto.
      - rewrite safe_none by reflexivity. apply Nat.leb_le. exact (safe_named st C).
      - intros a Y. discriminate Y. }
    destruct (reconstruct_plan (r_n st) (r_m st) (r_hosts st) bad newids) as [p|] eqn:P; [|exact X].
    destruct (fresh (r_hosts st) newids && distinctN newids && Nat.ltb 0 incs) eqn:F; [|exact X].
    apply andb_true_iff in F as [F F3]. apply andb_true_iff in F as [F1 F2]. apply Nat.ltb_lt in F3.
    constructor; cbn.
    + intros a Y. inversion Y; subst a. cbn. auto.
    + intros s i g I0. destruct (B s i g I0) as [L G]. split; [lia|]. intro Y. lia.
    + unfold rs_safe. cbn. assert (Q : Nat.eqb incs 0 = false) by (apply Nat.eqb_neq; lia). rewrite Q. rewrite andb_true_r.
      apply Nat.leb_le. exact (safe_named st C).
    + intros a Y L. inversion Y; subst a. cbn in L. lia.
  - (* increment *)
    destruct (r_att st) as [a|] eqn:E; [|exact I]. destruct (a_left a) as [|k] eqn:LA; [exact I|].
    destruct (A a eq_refl) as (P & F & DN & PD).
    assert (NAMED : forall v i, i < length (r_hosts st) -> write_all (r_pc st) (dkeys (r_hosts st) a) v (nth i (r_hosts st) 0%N) i = r_pc st (nth i (r_hosts st) 0%N) i).
    { intros v i L. apply write_all_out. now apply named_not_dkey. }
    destruct (fail || negb (forallb (intact_at (r_pc st) (r_hosts st)) (p_src (a_plan a)))) eqn:FL.
    { destruct touch; [apply Inv_abort_pc; auto | now apply Inv_abort]. }
    apply orb_false_iff in FL as [_ SR]. apply negb_false_iff in SR.
    assert (S1 : forall v, r_n st <= intact_count (write_all (r_pc st) (dkeys (r_hosts st) a) v) (r_hosts st)).
    { intro v. rewrite (intact_count_ext (r_pc st) _ _ (NAMED v)). exact (safe_named st C). }
    constructor; cbn.
    + intros a' Y. inversion Y; subst a'. cbn. auto.
    + intros s i g I0. destruct (B s i g I0) as [L G]. split; [exact L|]. intro Y. destruct (G Y) as [_ G2]. congruence.
    + unfold rs_safe. cbn. apply andb_true_iff. split.
      * apply Nat.leb_le. exact (S1 _).
      * destruct k; [|reflexivity]. cbn. apply Nat.leb_le. exact (completion_safe _ _ _ a _ P F SR).
    + intros a' Y L kk Ik. inversion Y; subst a'. cbn in L, Ik |- *. subst k. left.
      destruct kk as [s i]. cbn [fst snd]. apply write_all_in. exact Ik.
  - destruct (r_att st) as [a|] eqn:E; [|exact I]. destruct (Nat.eqb (a_left a) 0); [now apply Inv_abort | exact I].
  - (* leader change *)
    constructor; cbn.
    + intros a Y. discriminate Y.
    + intros s i g I0. destruct (B s i g I0) as [L G]. split; [lia|]. intro Y. lia.
    + rewrite safe_none by reflexivity. apply Nat.leb_le. exact (safe_named st C).
    + intros a Y. discriminate Y.
  - (* commit *)
    destruct (r_att st) as [a|] eqn:E; [|exact I]. destruct (Nat.eqb (a_left a) 0) eqn:LA; [|exact I].
    constructor; cbn.
    + intros a' Y. discriminate Y.
    + intros s i g I0. destruct (B s i g I0) as [L G]. split; [lia|]. intro Y. lia.
    + rewrite safe_none by reflexivity. unfold intact_named. cbn. unfold rs_safe in C. rewrite E, LA in C. apply andb_true_iff in C as [_ C]. exact C.
    + intros a' Y. discriminate Y.
  - (* GC computes an instruction *)
    destruct (r_pc st s i); [|exact I]. destruct (negb (N.eqb (named st i) s) && negb (r_pend st)) eqn:G; [|exact I].
    apply andb_true_iff in G as [G1 G2]. apply negb_true_iff in G1, G2. apply N.eqb_neq in G1.
    constructor; cbn; auto.
    intros s0 i0 g I0. apply in_app_or in I0 as [I0|[I0|[]]]; [exact (B s0 i0 g I0)|]. inversion I0; subst. split; [lia|]. intros _. split; [exact G1|].
    destruct (r_att st) as [a|] eqn:E; [|reflexivity]. destruct (A a eq_refl) as (_ & _ & _ & PD). congruence.
  - (* undelayed delivery *)
    cbn [rs_ok_ev] in OK. destruct (nth_error (r_soup st) k) as [[[s i] g]|] eqn:NE; [|exact I].
    apply Nat.eqb_eq in OK. subst g. pose proof (nth_error_In _ _ NE) as IS. destruct (B s i _ IS) as [_ G]. destruct (G eq_refl) as [G1 G2].
    assert (NAMED : forall j, j < length (r_hosts st) -> pupd (r_pc st) s i None (nth j (r_hosts st) 0%N) j = r_pc st (nth j (r_hosts st) 0%N) j).
    { intros j L. apply pupd_other. intro X. inversion X; subst. apply G1. reflexivity. }
    constructor; cbn.
    + intros a Y. congruence.
    + intros s0 i0 g0 I0. apply (B s0 i0 g0). eapply nth_error_in_split; eauto.
    + rewrite safe_none by exact G2. apply Nat.leb_le. change (r_n st <= intact_count (pupd (r_pc st) s i None) (r_hosts st)).
      rewrite (intact_count_ext (r_pc st) _ _ NAMED). exact (safe_named st C).
    + intros a Y. congruence.
Qed.

Lemma filter_all : forall A (f : A -> bool) l, (forall x, In x l -> f x = true) -> filter f l = l.
Proof. induction l as [|a l IH]; intros H; [reflexivity|]. cbn. rewrite (H a (or_introl eq_refl)). f_equal. apply IH. intros x I. apply H. now right. Qed.

Lemma init_count : forall n m hosts, intact_named (rs_init n m hosts) = length hosts.
Proof.
  intros n m hosts. unfold intact_named, intact_count. cbn [r_pc r_hosts rs_init]. rewrite <- (seq_length (length hosts) 0) at 2. f_equal.
  apply filter_all. intros i I. apply in_seq in I. unfold intact_at.
  assert (X : Nat.ltb i (length hosts) = true) by (apply Nat.ltb_lt; lia). now rewrite X, N.eqb_refl.
Qed.

Lemma Inv_init : forall n m hosts, n <= length hosts -> Inv (rs_init n m hosts).
Proof.
  intros n m hosts L. constructor; cbn.
  - intros a X. discriminate X.
  - intros s i g [].
  - rewrite safe_none by reflexivity. apply Nat.leb_le. cbn [r_n rs_init]. now rewrite init_count.
  - intros a X. discriminate X.
Qed.

Theorem Inv_run : forall evs st, Inv st -> rs_ok_run rs_ok_ev st evs = true -> Inv (rrun st evs).
Proof.
  induction evs as [|ev evs IH]; intros st I OK; [exact I|]. cbn in OK. apply andb_true_iff in OK as [O1 O2]. cbn. apply IH; auto. now apply Inv_step.
Qed.

Lemma n_const : forall st ev, r_n (rstep st ev) = r_n st.
Proof.
  intros st ev. destruct ev; cbn; try reflexivity;
  repeat match goal with |- context [match ?x with _ => _ end] => destruct x end; reflexivity.
Qed.

Lemma rrun_app : forall l l' st, rrun st (l ++ l') = rrun (rrun st l) l'.
Proof. induction l as [|x l IH]; intros l' st; [reflexivity|]. cbn. apply IH. Qed.

Lemma n_run : forall evs st, r_n (rrun st evs) = r_n st.
Proof. induction evs as [|ev evs IH]; intros st; [reflexivity|]. cbn. rewrite IH. apply n_const. Qed.

(* ------------------------------------------------------------------ no loss *)
Theorem rs_no_loss : forall n m hosts evs, n <= length hosts ->
  rs_ok_run rs_ok_ev (rs_init n m hosts) evs = true ->
  let st := rrun (rs_init n m hosts) evs in
  n <= intact_named st /\
  (forall ev, is_fault ev = false -> rs_ok_ev st ev = true -> n <= intact_named (rstep st ev)).
Proof.
  intros n m hosts evs L OK st.
  pose proof (Inv_run evs _ (Inv_init n m hosts L) OK) as I. fold st in I.
  assert (N : r_n st = n) by (unfold st; rewrite n_run; reflexivity).
  split; [rewrite <- N; exact (safe_named st (i_safe st I))|].
  intros ev _ OKE. pose proof (Inv_step st ev I OKE) as I'. rewrite <- N, <- (n_const st ev). exact (safe_named _ (i_safe _ I')).
Qed.

Lemma combine_nth_in : forall A B (a : list A) (b : list B) q da db, q < length a -> length a = length b ->
  In (nth q a da, nth q b db) (combine a b).
Proof.
  intros A B a b q da db L E. rewrite <- (combine_nth a b q da db E). apply nth_In. rewrite combine_length. lia.
Qed.

(* what a commit names *)
Theorem commit_names : forall st a, Inv st -> r_att st = Some a -> a_left a = 0 ->
  let st' := rstep st ECommit in
  r_hosts st' = p_hosts (a_plan a) /\ length (r_hosts st') = length (r_hosts st) /\
  forall i, i < length (r_hosts st) ->
    nth i (r_hosts st') 0%N = nth i (r_hosts st) 0%N \/
    r_pc st' (nth i (r_hosts st') 0%N) i = Some Intact \/ In (nth i (r_hosts st') 0%N, i) (a_hit a).
Proof.
  intros st a I E L st'. destruct (i_att st I a E) as (P & F & DN & PD).
  destruct (plan_commit_exact _ _ _ _ _ _ P) as (LH & NEW & KEEP). destruct (plan_newids_length _ _ _ _ _ _ P) as (LN & _ & _).
  assert (H' : r_hosts st' = p_hosts (a_plan a)) by (unfold st'; cbn; rewrite E, L; reflexivity).
  assert (PC : r_pc st' = r_pc st) by (unfold st'; cbn; rewrite E, L; reflexivity).
  split; [exact H'|]. split; [rewrite H'; exact LH|]. intros i Li. rewrite H', PC.
  destruct (in_dec Nat.eq_dec i (dst_of (r_hosts st) (a_bad a))) as [J|J]; [|left; exact (KEEP i J)]. right.
  destruct (In_nth _ _ 0 J) as (q & Lq & Eq). rewrite <- Eq. rewrite (NEW q Lq).
  assert (K : In (nth q (a_new a) 0%N, nth q (dst_of (r_hosts st) (a_bad a)) 0) (dkeys (r_hosts st) a)) by (apply combine_nth_in; lia).
  exact (i_enc st I a E L _ K).
Qed.

(* ------------------------------------------------------------------ the measure *)
Lemma counts_add : forall pc hosts, intact_count pc hosts + length (filter (fun i => negb (intact_at pc hosts i)) (seq 0 (length hosts))) = length hosts.
Proof.
  intros pc hosts. unfold intact_count. rewrite <- (seq_length (length hosts) 0) at 3.
  induction (seq 0 (length hosts)) as [|a l IH]; [reflexivity|]. cbn [filter]. destruct (intact_at pc hosts a); cbn [negb length]; lia.
Qed.

Lemma measure_sum : forall st, intact_named st + bad_named st = length (r_hosts st).
Proof. intros st. apply counts_add. Qed.

(* an abandoned attempt (failed increment with or without a partial write, restart, lost reply, leader change) leaves
   the named list and the state of every named piece alone: the number of bad named indices is unchanged *)
Definition abandons (ev : rev) : bool :=
  match ev with EInc true _ => true | ERestart _ => true | EReplyLost => true | ELeader => true | _ => false end.

Theorem abandoned_keeps_measure : forall st ev, Inv st -> abandons ev = true ->
  r_hosts (rstep st ev) = r_hosts st /\ bad_named (rstep st ev) = bad_named st /\ intact_named (rstep st ev) = intact_named st.
Proof.
  intros st ev I AB.
  assert (KEY : r_hosts (rstep st ev) = r_hosts st /\
                forall i, i < length (r_hosts st) -> r_pc (rstep st ev) (nth i (r_hosts st) 0%N) i = r_pc st (nth i (r_hosts st) 0%N) i).
  { destruct ev; try discriminate AB; cbn [rstep].
    - destruct (r_att st) as [a|]; [|auto]. destruct (Nat.eqb (a_left a) 0); auto.
    - destruct fail; [|discriminate AB]. destruct (r_att st) as [a|] eqn:E; [|auto]. destruct (a_left a); [auto|]. cbn [orb].
      destruct touch; [|auto]. split; [reflexivity|]. intros i L. cbn. apply write_all_out. apply named_not_dkey; auto.
      destruct (i_att st I a E) as (_ & F & _). exact F.
    - destruct (r_att st) as [a|]; [|auto]. destruct (Nat.eqb (a_left a) 0); auto.
    - auto. }
  destruct KEY as [H K]. split; [exact H|]. unfold bad_named, intact_named. rewrite H. split.
  - apply bad_count_ext. exact K.
  - apply intact_count_ext. exact K.
Qed.

Lemma filter_none_nat : forall (f : nat -> bool) l, (forall x, In x l -> f x = false) -> filter f l = [].
Proof. induction l as [|a l IH]; intros H; [reflexivity|]. cbn. rewrite (H a (or_introl eq_refl)). apply IH. intros x I. apply H. now right. Qed.

(* ------------------------------------------------------------------ progress of one attempt *)
Definition repair_run (newids : list N) (incs : nat) : list rev := EStart newids incs :: repeat (EInc false false) incs ++ [ECommit].

Lemma inc_loop : forall k st a,
  r_att st = Some a -> a_left a = k -> fresh (r_hosts st) (a_new a) = true ->
  forallb (intact_at (r_pc st) (r_hosts st)) (p_src (a_plan a)) = true ->
  let st' := rrun st (repeat (EInc false false) k) in
  r_hosts st' = r_hosts st /\
  (exists a', r_att st' = Some a' /\ a_left a' = 0 /\ a_plan a' = a_plan a /\ a_new a' = a_new a /\ a_bad a' = a_bad a) /\
  (forall i, i < length (r_hosts st) -> r_pc st' (nth i (r_hosts st) 0%N) i = r_pc st (nth i (r_hosts st) 0%N) i) /\
  (0 < k -> forall s i, In (s, i) (dkeys (r_hosts st) a) -> r_pc st' s i = Some Intact).
Proof.
  induction k as [|k IH]; intros st a E L F S; cbn [repeat rrun].
  - split; [reflexivity|]. split; [exists a; auto|]. split; [auto | intro X; lia].
  - set (st1 := rstep st (EInc false false)).
    set (a1 := {| a_bad := a_bad a; a_new := a_new a; a_plan := a_plan a; a_left := k; a_hit := a_hit a |}).
    set (pc1 := write_all (r_pc st) (dkeys (r_hosts st) a) (match k with O => Intact | S _ => Partial end)).
    assert (ST1 : r_att st1 = Some a1 /\ r_hosts st1 = r_hosts st /\ r_pc st1 = pc1).
    { unfold st1. cbn [rstep]. rewrite E, L. cbn [orb]. rewrite S. cbn [negb]. auto. }
    destruct ST1 as (E1 & H1 & P1).
    assert (NAMED : forall i, i < length (r_hosts st) -> pc1 (nth i (r_hosts st) 0%N) i = r_pc st (nth i (r_hosts st) 0%N) i).
    { intros i Li. apply write_all_out. now apply named_not_dkey. }
    assert (S1 : forallb (intact_at (r_pc st1) (r_hosts st1)) (p_src (a_plan a1)) = true).
    { rewrite H1, P1. cbn [a_plan a1]. rewrite forallb_forall in *. intros i I. specialize (S i I). unfold intact_at in *.
      destruct (Nat.lt_ge_cases i (length (r_hosts st))) as [Li|Li]; [rewrite NAMED; auto|].
      (* an index beyond the list: the default host 0 *)
      rewrite nth_overflow in * by lia. unfold pc1. rewrite write_all_out; [exact S|]. intro X. apply dkeys_in in X as [_ X]. apply dst_of_lt in X. lia. }
    assert (F1 : fresh (r_hosts st1) (a_new a1) = true) by (rewrite H1; exact F).
    destruct (IH st1 a1 E1 eq_refl F1 S1) as (HH & (a' & EA & LA & PA & NA & BA) & KK & II).
    cbv zeta. split; [congruence|]. split; [exists a'; cbn in *; auto|]. split.
    + intros i Li. rewrite <- H1 in Li. rewrite <- (NAMED i ltac:(rewrite <- H1; exact Li)). rewrite <- P1. rewrite <- H1. apply KK. exact Li.
    + intros _ s i I. destruct k.
      * cbn [repeat rrun]. rewrite P1. apply write_all_in. exact I.
      * apply II; [lia|]. rewrite H1. exact I.
Qed.

Theorem attempt_repairs : forall st bad newids incs,
  Inv st -> r_att st = None -> r_task st = Some bad ->
  (forall i, i < length (r_hosts st) -> memN (nth i (r_hosts st) 0%N) bad = negb (intact_at (r_pc st) (r_hosts st) i)) ->
  0 < bad_named st -> fresh (r_hosts st) newids = true -> distinctN newids = true -> length newids = bad_named st -> 0 < incs ->
  let st' := rrun st (repair_run newids incs) in
  bad_named st' = 0 /\ intact_named st' = length (r_hosts st') /\ length (r_hosts st') = length (r_hosts st) /\ r_att st' = None.
Proof.
  intros st bad newids incs I EA ET EX BN F DN LN LI st'.
  assert (DST : dst_of (r_hosts st) bad = filter (fun i => negb (intact_at (r_pc st) (r_hosts st) i)) (seq 0 (length (r_hosts st)))).
  { unfold dst_of. apply filter_ext_in. intros i J. apply in_seq in J. apply EX. lia. }
  assert (OKF : ok_of (r_hosts st) bad = filter (intact_at (r_pc st) (r_hosts st)) (seq 0 (length (r_hosts st)))).
  { unfold ok_of. apply filter_ext_in. intros i J. apply in_seq in J. rewrite EX by lia. apply negb_involutive. }
  assert (LD : length (dst_of (r_hosts st) bad) = bad_named st) by (rewrite DST; reflexivity).
  assert (LO : r_n st <= length (ok_of (r_hosts st) bad)) by (rewrite OKF; exact (safe_named st (i_safe st I))).
  (* the plan exists *)
  destruct (reconstruct_plan (r_n st) (r_m st) (r_hosts st) bad newids) as [p|] eqn:P.
  2:{ exfalso. unfold reconstruct_plan in P. fold (dst_of (r_hosts st) bad) in P. fold (ok_of (r_hosts st) bad) in P.
      assert (X : Nat.ltb (length (ok_of (r_hosts st) bad)) (r_n st) = false) by (apply Nat.ltb_ge; lia). rewrite X in P.
      destruct (dst_of (r_hosts st) bad) as [|x d] eqn:D; [cbn in LD; lia|].
      assert (Y : Nat.eqb (length newids) (length (x :: d)) = true) by (apply Nat.eqb_eq; lia). rewrite Y in P. discriminate P. }
  set (a := {| a_bad := bad; a_new := newids; a_plan := p; a_left := incs; a_hit := [] |}).
  set (st1 := rstep st (EStart newids incs)).
  assert (ST1 : r_att st1 = Some a /\ r_hosts st1 = r_hosts st /\ r_pc st1 = r_pc st).
  { unfold st1. cbn [rstep]. rewrite EA, ET, P, F, DN. assert (X : Nat.ltb 0 incs = true) by (apply Nat.ltb_lt; lia). rewrite X. cbn. auto. }
  destruct ST1 as (E1 & H1 & P1).
  assert (SRC : forallb (intact_at (r_pc st1) (r_hosts st1)) (p_src (a_plan a)) = true).
  { rewrite H1, P1. cbn [a_plan a]. rewrite (plan_src _ _ _ _ _ _ P). apply forallb_forall. intros i J. apply in_firstn in J.
    rewrite OKF in J. apply filter_In in J as [_ J]. exact J. }
  assert (F1 : fresh (r_hosts st1) (a_new a) = true) by (rewrite H1; exact F).
  destruct (inc_loop incs st1 a E1 eq_refl F1 SRC) as (H2 & (a2 & E2 & L2 & PA & NA & BA) & K2 & I2).
  set (st2 := rrun st1 (repeat (EInc false false) incs)) in *.
  assert (ST' : st' = rstep st2 ECommit).
  { unfold st', repair_run. cbn [rrun]. fold st1. rewrite rrun_app. reflexivity. }
  destruct (plan_commit_exact _ _ _ _ _ _ P) as (LH & NEW & KEEP).
  assert (H3 : r_hosts st' = p_hosts p /\ r_pc st' = r_pc st2 /\ r_att st' = None).
  { rewrite ST'. cbn [rstep]. rewrite E2, L2. cbn. rewrite PA. auto. }
  destruct H3 as (H3 & P3 & A3).
  assert (ALL : forall i, i < length (r_hosts st') -> intact_at (r_pc st') (r_hosts st') i = true).
  { intros i Li. rewrite H3, LH in Li. unfold intact_at. rewrite H3, P3.
    destruct (in_dec Nat.eq_dec i (dst_of (r_hosts st) bad)) as [J|J].
    - destruct (In_nth _ _ 0 J) as (q & Lq & Eq). rewrite <- Eq, (NEW q Lq).
      rewrite (I2 LI (nth q newids 0%N) (nth q (dst_of (r_hosts st) bad) 0)); [reflexivity|].
      rewrite H1. unfold dkeys. cbn [a_new a_bad a]. apply combine_nth_in; lia.
    - rewrite (KEEP i J). rewrite <- H1. rewrite K2 by (rewrite H1; exact Li). rewrite H1, P1.
      assert (JO : In i (ok_of (r_hosts st) bad)).
      { unfold ok_of. apply filter_In. split; [apply in_seq; lia|]. destruct (memN (nth i (r_hosts st) 0%N) bad) eqn:M; [|reflexivity].
        exfalso. apply J. unfold dst_of. apply filter_In. split; [apply in_seq; lia | exact M]. }
      rewrite OKF in JO. apply filter_In in JO as [_ JO]. exact JO. }
  assert (B0 : bad_named st' = 0).
  { unfold bad_named. rewrite filter_none_nat; [reflexivity|]. intros i J. apply in_seq in J. rewrite ALL by lia. reflexivity. }
  split; [exact B0|]. split; [pose proof (measure_sum st'); lia|]. split; [rewrite H3; exact LH | exact A3].
Qed.

(* ------------------------------------------------------------------ detection after a leader change, then the attempt *)
From BLB Require Import Cluster.Model.
From BLB Require C04.RSModel.
Local Open Scope nat_scope.

Lemma ins_in : forall x y l, In y (insert_sorted x l) <-> y = x \/ In y l.
Proof.
  induction l as [|a l IH]; cbn; [intuition|].
  destruct (x <? a)%Z; [cbn; intuition|]. destruct (x =? a)%Z eqn:Q; [apply Z.eqb_eq in Q; subst; cbn; intuition|].
  cbn. rewrite IH. intuition.
Qed.
Lemma sortedz_in : forall y l, In y (fold_right insert_sorted [] l) <-> In y l.
Proof. induction l as [|a l IH]; cbn; [tauto|]. rewrite ins_in, IH. intuition. Qed.

Lemma scrub_fields : forall st i, r_hosts (rstep st (EScrub i)) = r_hosts st /\ r_pc (rstep st (EScrub i)) = r_pc st /\
  r_att (rstep st (EScrub i)) = r_att st /\ r_down (rstep st (EScrub i)) = r_down st /\ r_m (rstep st (EScrub i)) = r_m st /\
  (forall j, In j (r_cor (rstep st (EScrub i))) <-> In j (r_cor st) \/ (j = i /\ i < length (r_hosts st) /\ intact_at (r_pc st) (r_hosts st) i = false)).
Proof.
  intros st i. cbn [rstep]. destruct (Nat.ltb i (length (r_hosts st)) && negb (intact_at (r_pc st) (r_hosts st) i)) eqn:Cnd.
  - apply andb_true_iff in Cnd as [L T]. apply Nat.ltb_lt in L. apply negb_true_iff in T. cbn.
    split; [reflexivity|]. split; [reflexivity|]. split; [reflexivity|]. split; [reflexivity|]. split; [reflexivity|].
    intros j. split.
    + intros [X|X]; [right; subst; auto | left; exact X].
    + intros [X|(X & _)]; [right; exact X | left; subst; reflexivity].
  - split; [reflexivity|]. split; [reflexivity|]. split; [reflexivity|]. split; [reflexivity|]. split; [reflexivity|].
    intros j. split; [intro X; left; exact X|]. intros [X|(_ & L & T)]; [exact X|]. exfalso.
    apply Nat.ltb_lt in L. rewrite L, T in Cnd. discriminate Cnd.
Qed.

Lemma scrub_all : forall l st, let st' := rrun st (map EScrub l) in
  r_hosts st' = r_hosts st /\ r_pc st' = r_pc st /\ r_att st' = r_att st /\ r_down st' = r_down st /\ r_m st' = r_m st /\
  (forall j, In j (r_cor st') <-> In j (r_cor st) \/ (In j l /\ j < length (r_hosts st) /\ intact_at (r_pc st) (r_hosts st) j = false)).
Proof.
  induction l as [|i l IH]; intros st; cbn [map rrun].
  - repeat split; auto. intros [X|(X & _)]; [exact X | destruct X].
  - destruct (scrub_fields st i) as (H1 & P1 & A1 & D1 & M1 & C1). destruct (IH (rstep st (EScrub i))) as (H2 & P2 & A2 & D2 & M2 & C2).
    cbv zeta. split; [congruence|]. split; [congruence|]. split; [congruence|]. split; [congruence|]. split; [congruence|].
    intros j. rewrite C2, C1, H1, P1. cbn [In]. intuition (subst; auto).
Qed.

Lemma existsb_nat : forall i l, existsb (Nat.eqb i) l = true <-> In i l.
Proof. intros i l. rewrite existsb_exists. split; [intros (x & I & E); apply Nat.eqb_eq in E; now subst | intro I; exists i; split; auto; apply Nat.eqb_refl]. Qed.

Definition heal_run (L : nat) (newids : list N) (incs : nat) : list rev :=
  ELeader :: map EScrub (seq 0 L) ++ [EDetect] ++ repair_run newids incs.

Definition plain (ev : rev) : bool := match ev with EFault _ _ _ => false | EDeliver _ => false | _ => true end.
Lemma plain_ok : forall evs st, forallb plain evs = true -> rs_ok_run rs_ok_ev st evs = true.
Proof.
  induction evs as [|ev evs IH]; intros st H; [reflexivity|]. cbn in H. apply andb_true_iff in H as [H1 H2]. cbn.
  rewrite IH by exact H2. destruct ev; try discriminate H1; reflexivity.
Qed.

Theorem heal_repairs : forall st newids incs,
  Inv st -> NoDup (r_hosts st) -> length (r_hosts st) = r_n st + r_m st ->
  0 < bad_named st -> fresh (r_hosts st) newids = true -> distinctN newids = true -> length newids = bad_named st -> 0 < incs ->
  let evs := heal_run (length (r_hosts st)) newids incs in
  let st' := rrun st evs in
  rs_ok_run rs_ok_ev st evs = true /\ forallb plain evs = true /\
  bad_named st' = 0 /\ intact_named st' = r_n st + r_m st /\ r_att st' = None.
Proof.
  intros st newids incs I ND LH BN F DN LN LI evs st'.
  assert (Q1 : forall l, forallb plain (map EScrub l) = true) by (induction l; cbn; auto).
  assert (Q2 : forall k, forallb plain (repeat (EInc false false) k) = true) by (induction k; cbn; auto).
  assert (PL : forallb plain evs = true).
  { unfold evs, heal_run, repair_run. cbn [forallb plain andb]. rewrite forallb_app, Q1. cbn [app forallb plain andb].
    rewrite forallb_app, Q2. reflexivity. }
  pose proof (plain_ok evs st PL) as OK. split; [exact OK|]. split; [exact PL|].
  (* the states along the prefix *)
  set (s1 := rstep st ELeader).
  set (s2 := rrun s1 (map EScrub (seq 0 (length (r_hosts st))))).
  set (s3 := rstep s2 EDetect).
  assert (SPLIT : st' = rrun s3 (repair_run newids incs)).
  { unfold st', evs, heal_run. cbn [rrun]. fold s1. rewrite rrun_app. fold s2. reflexivity. }
  assert (I3 : Inv s3).
  { assert (OK3 : rs_ok_run rs_ok_ev st (ELeader :: map EScrub (seq 0 (length (r_hosts st))) ++ [EDetect]) = true).
    { apply plain_ok. cbn [forallb plain andb]. rewrite forallb_app, Q1. reflexivity. }
    pose proof (Inv_run _ st I OK3) as X. cbn [rrun] in X. fold s1 in X. rewrite rrun_app in X. exact X. }
  destruct (scrub_all (seq 0 (length (r_hosts st))) s1) as (H2 & P2 & A2 & D2 & M2 & C2). fold s2 in H2, P2, A2, D2, M2, C2.
  change (r_hosts s1) with (r_hosts st) in *. change (r_pc s1) with (r_pc st) in *. change (r_att s1) with (@None att) in *.
  change (r_down s1) with (@nil N) in *. change (r_cor s1) with (@nil nat) in *. change (r_m s1) with (r_m st) in *.
  assert (COR : forall j, j < length (r_hosts st) -> existsb (Nat.eqb j) (r_cor s2) = negb (intact_at (r_pc st) (r_hosts st) j)).
  { intros j Lj. destruct (intact_at (r_pc st) (r_hosts st) j) eqn:T; cbn.
    - destruct (existsb (Nat.eqb j) (r_cor s2)) eqn:X; [|reflexivity]. apply existsb_nat in X. apply C2 in X as [[]|(_ & _ & Y)]. congruence.
    - apply existsb_nat. apply C2. right. split; [apply in_seq; lia|]. auto. }
  (* what the detect round computes *)
  set (bidx := filter (fun i => negb (intact_at (r_pc st) (r_hosts st) i)) (seq 0 (length (r_hosts st)))).
  set (badz := map (fun i => nth i (map Z.of_N (r_hosts st)) 0%Z) bidx).
  assert (DB : detect_bad s2 = 1%Z :: Z.of_nat (length badz) :: fold_right insert_sorted [] badz).
  { unfold detect_bad, C04.RSModel.rs_chunk_task_of. rewrite H2, D2, M2. cbn [map]. rewrite (map_length Z.of_N (r_hosts st)).
    assert (FE : filter (fun i => zmem (nth i (map Z.of_N (r_hosts st)) 0%Z) [] || existsb (Nat.eqb i) (r_cor s2)) (seq 0 (length (r_hosts st))) = bidx).
    { unfold bidx. apply filter_ext_in. intros i J. apply in_seq in J. cbn [zmem existsb orb]. apply COR. lia. }
    rewrite FE. fold badz.
    assert (LB : length badz = bad_named st) by (unfold badz; rewrite map_length; reflexivity).
    assert (X1 : Nat.eqb (length badz) 0 = false) by (apply Nat.eqb_neq; lia). rewrite X1.
    assert (X2 : Nat.ltb (r_m st) (length badz) = false).
    { apply Nat.ltb_ge. rewrite LB. pose proof (measure_sum st). pose proof (safe_named st (i_safe st I)). lia. }
    rewrite X2. reflexivity. }
  set (bad := map Z.to_N (fold_right insert_sorted [] badz)).
  assert (S3 : r_task s3 = Some bad /\ r_att s3 = None /\ r_hosts s3 = r_hosts st /\ r_pc s3 = r_pc st).
  { unfold s3. cbn [rstep]. rewrite A2, DB. cbn. rewrite H2, P2. auto. }
  destruct S3 as (T3 & A3 & H3 & P3).
  assert (EX : forall i, i < length (r_hosts s3) -> memN (nth i (r_hosts s3) 0%N) bad = negb (intact_at (r_pc s3) (r_hosts s3) i)).
  { rewrite H3, P3. intros i Li.
    assert (IFF : In (nth i (r_hosts st) 0%N) bad <-> In i bidx).
    { unfold bad. rewrite in_map_iff. split.
      - intros (z & E & J). apply (proj1 (sortedz_in _ _)) in J. unfold badz in J. apply in_map_iff in J as (k & Ek & Jk). subst z.
        assert (Lk : k < length (r_hosts st)) by (unfold bidx in Jk; apply filter_In in Jk as [Jk _]; apply in_seq in Jk; lia).
        change 0%Z with (Z.of_N 0%N) in E. rewrite map_nth, N2Z.id in E.
        assert (k = i) by (apply (proj1 (NoDup_nth (r_hosts st) 0%N) ND); auto). subst k. exact Jk.
      - intros J. exists (Z.of_N (nth i (r_hosts st) 0%N)). split; [apply N2Z.id|]. apply (proj2 (sortedz_in _ _)). unfold badz. apply in_map_iff.
        exists i. split; [|exact J]. change 0%Z with (Z.of_N 0%N). apply map_nth. }
    destruct (intact_at (r_pc st) (r_hosts st) i) eqn:T; cbn.
    - destruct (memN (nth i (r_hosts st) 0%N) bad) eqn:M; [|reflexivity]. apply memN_in in M. apply IFF in M.
      unfold bidx in M. apply filter_In in M as [_ M]. rewrite T in M. discriminate.
    - apply memN_in. apply IFF. unfold bidx. apply filter_In. split; [apply in_seq; lia | now rewrite T]. }
  assert (BN3 : bad_named s3 = bad_named st) by (unfold bad_named; rewrite H3, P3; reflexivity).
  destruct (attempt_repairs s3 bad newids incs I3 A3 T3 EX) as (B0 & IN & LL & AT); try (rewrite ?BN3, ?H3; auto).
  rewrite <- SPLIT in B0, IN, LL, AT. split; [exact B0|]. split; [rewrite IN, LL, H3; exact LH | exact AT].
Qed.

Lemma m_const : forall st ev, r_m (rstep st ev) = r_m st.
Proof.
  intros st ev. destruct ev; cbn; try reflexivity;
  repeat match goal with |- context [match ?x with _ => _ end] => destruct x end; reflexivity.
Qed.
Lemma m_run : forall evs st, r_m (rrun st evs) = r_m st.
Proof. induction evs as [|ev evs IH]; intros st; [reflexivity|]. cbn. rewrite IH. apply m_const. Qed.

(* ------------------------------------------------------------------ property-level statements *)
Definition reach (n m : nat) (hosts : list N) (evs : list rev) : rs := rrun (rs_init n m hosts) evs.

Lemma rs_no_loss_run : forall n m hosts evs, n <= length hosts ->
  rs_ok_run rs_ok_ev (rs_init n m hosts) evs = true ->
  let st := reach n m hosts evs in
  n <= intact_named st /\
  (forall ev, is_fault ev = false -> rs_ok_ev st ev = true -> n <= intact_named (rstep st ev)) /\
  (forall a, r_att st = Some a -> a_left a = 0 ->
     let st' := rstep st ECommit in
     r_hosts st' = p_hosts (a_plan a) /\ length (r_hosts st') = length (r_hosts st) /\
     forall i, i < length (r_hosts st) ->
       nth i (r_hosts st') 0%N = nth i (r_hosts st) 0%N \/
       r_pc st' (nth i (r_hosts st') 0%N) i = Some Intact \/ In (nth i (r_hosts st') 0%N, i) (a_hit a)) /\
  (forall ev, r_hosts (rstep st ev) <> r_hosts st -> ev = ECommit).
Proof.
  intros n m hosts evs L OK st. destruct (rs_no_loss n m hosts evs L OK) as [A B]. fold (reach n m hosts evs) in A, B. fold st in A, B.
  pose proof (Inv_run evs _ (Inv_init n m hosts L) OK) as I. fold (reach n m hosts evs) in I. fold st in I.
  split; [exact A|]. split; [exact B|]. split; [intros a E LA; exact (commit_names st a I E LA)|].
  intros ev H. destruct ev; try reflexivity; exfalso; apply H; cbn [rstep];
    repeat match goal with |- context [match ?x with _ => _ end] => destruct x end; reflexivity.
Qed.

Lemma rs_repair_progress : forall n m hosts evs, n <= length hosts ->
  rs_ok_run rs_ok_ev (rs_init n m hosts) evs = true ->
  let st := reach n m hosts evs in
  (intact_named st + bad_named st = length (r_hosts st)) /\
  (forall ev, abandons ev = true ->
     r_hosts (rstep st ev) = r_hosts st /\ bad_named (rstep st ev) = bad_named st /\ intact_named (rstep st ev) = intact_named st) /\
  (forall newids incs,
     NoDup (r_hosts st) -> length (r_hosts st) = n + m ->
     0 < bad_named st -> fresh (r_hosts st) newids = true -> distinctN newids = true -> length newids = bad_named st -> 0 < incs ->
     let run := heal_run (length (r_hosts st)) newids incs in
     rs_ok_run rs_ok_ev st run = true /\ forallb plain run = true /\
     bad_named (rrun st run) = 0 /\ intact_named (rrun st run) = n + m /\ r_att (rrun st run) = None).
Proof.
  intros n m hosts evs L OK st.
  pose proof (Inv_run evs _ (Inv_init n m hosts L) OK) as I. fold (reach n m hosts evs) in I. fold st in I.
  assert (N : r_n st = n) by (unfold st, reach; rewrite n_run; reflexivity).
  assert (M : r_m st = m) by (unfold st, reach; rewrite m_run; reflexivity).
  split; [apply measure_sum|]. split; [intros ev AB; exact (abandoned_keeps_measure st ev I AB)|].
  intros newids incs ND LH BN F DN LN LI run. rewrite <- N, <- M in LH.
  destruct (heal_repairs st newids incs I ND LH BN F DN LN LI) as (A & B & C & D & E). rewrite N, M in D. auto.
Qed.

(* ------------------------------------------------------------------ instances (n = 2, m = 1, servers 1 2 3, spares 4 5) *)
Definition rs_g0 : list rev :=
  [EFault 3%N 2 false; EScrub 2; EDetect; EStart [4%N] 2; EInc false false; EInc false false; ECommit].
(* an attempt that dies after a partial write, a lost reply, a leader change, a retry onto the same spare, and the
   garbage collection of the replaced piece *)
Definition rs_g2 : list rev :=
  [EFault 3%N 2 true; EScrub 2; EDetect; EStart [4%N] 3; EInc false false; EInc true true;
   EDetect; EStart [4%N] 1; EInc false false; EReplyLost;
   ELeader; EScrub 2; EDetect; EStart [4%N] 2; EInc false false; EInc false false; ECommit;
   EFault 1%N 0 false; EScrub 0; EDetect; EStart [5%N] 1; EInc false false; ECommit;
   EGC 1%N 0; EDeliver 0].
(* the commit under the premise as worded: a healthy named piece is believed down, the reconstruction completes, two
   faults that respect "n intact named pieces" hit a source and the fresh piece, the commit names the damaged piece *)
Definition rs_o5 : list rev :=
  [EDown 3%N true; EDetect; EStart [4%N] 1; EInc false false; EFault 1%N 0 false; EFault 4%N 2 false].

Lemma rs_examples :
  let s0 := rs_init 2 1 [1; 2; 3]%N in
  (rs_ok_run rs_ok_ev s0 rs_g0 = true /\ intact_named (rrun s0 (firstn 1 rs_g0)) = 2 /\ intact_named (rrun s0 rs_g0) = 3 /\
   r_hosts (rrun s0 rs_g0) = [1; 2; 4]%N) /\
  (rs_ok_run rs_ok_ev s0 rs_g2 = true /\
   map (fun k => bad_named (rrun s0 (firstn k rs_g2))) [1; 6; 10; 11; 17; 18; 23; 25] = [1; 1; 1; 1; 0; 1; 0; 0] /\
   r_hosts (rrun s0 rs_g2) = [5; 2; 4]%N /\ r_pc (rrun s0 rs_g2) 1%N 0 = None /\ r_pc (rrun s0 (firstn 6 rs_g2)) 4%N 2 = Some Partial) /\
  (rs_ok_run rs_ok_ev_weak s0 rs_o5 = true /\ rs_ok_ev_weak (rrun s0 rs_o5) ECommit = true /\
   rs_premise (rrun s0 rs_o5) = true /\ rs_premise (rstep (rrun s0 rs_o5) ECommit) = false /\
   rs_ok_run rs_ok_ev s0 rs_o5 = false).
Proof. vm_compute. repeat split; reflexivity. Qed.

Lemma rs_commit_plain_premise_refuted :
  exists n m hosts evs, n <= length hosts /\ rs_ok_run rs_ok_ev_weak (rs_init n m hosts) evs = true /\
    rs_premise (reach n m hosts evs) = true /\ rs_ok_ev_weak (reach n m hosts evs) ECommit = true /\
    intact_named (rstep (reach n m hosts evs) ECommit) < n.
Proof. exists 2, 1, [1; 2; 3]%N, rs_o5. vm_compute. repeat split; auto. Qed.

(* ------------------------------------------------------------------ the named list stays distinct and n+m long *)
Definition HInv (st : rs) : Prop := NoDup (r_hosts st) /\ length (r_hosts st) = r_n st + r_m st.

Lemma hosts_step : forall st ev, r_hosts (rstep st ev) <> r_hosts st -> ev = ECommit.
Proof.
  intros st ev H. destruct ev; try reflexivity; exfalso; apply H; cbn [rstep];
    repeat match goal with |- context [match ?x with _ => _ end] => destruct x end; reflexivity.
Qed.

Lemma distinctN_NoDup : forall l, distinctN l = true -> NoDup l.
Proof.
  induction l as [|x l IH]; intros H; [constructor|]. cbn in H. apply andb_true_iff in H as [A B]. apply negb_true_iff in A.
  constructor; [|auto]. intro I. apply memN_in in I. congruence.
Qed.

Lemma plan_hosts_nodup : forall n m hosts bad newids p, reconstruct_plan n m hosts bad newids = Some p ->
  NoDup hosts -> fresh hosts newids = true -> distinctN newids = true -> NoDup (p_hosts p).
Proof.
  intros n m hosts bad newids p P ND F DN.
  destruct (plan_commit_exact _ _ _ _ _ _ P) as (LH & NEW & KEEP). destruct (plan_newids_length _ _ _ _ _ _ P) as (LN & _ & _).
  pose proof (distinctN_NoDup _ DN) as NDn. pose proof (dst_of_nodup hosts bad) as NDd.
  apply (proj2 (NoDup_nth (p_hosts p) 0%N)). intros i j Li Lj E. rewrite LH in Li, Lj.
  (* where a value of the new list comes from *)
  assert (SRC : forall k, k < length hosts ->
            (~ In k (dst_of hosts bad) /\ nth k (p_hosts p) 0%N = nth k hosts 0%N) \/
            (exists q, q < length (dst_of hosts bad) /\ nth q (dst_of hosts bad) 0 = k /\ nth k (p_hosts p) 0%N = nth q newids 0%N)).
  { intros k Lk. destruct (in_dec Nat.eq_dec k (dst_of hosts bad)) as [J|J]; [|left; split; auto].
    right. destruct (In_nth _ _ 0 J) as (q & Lq & Eq). exists q. split; auto. split; auto. rewrite <- Eq. auto. }
  destruct (SRC i Li) as [[Ni Ei]|(q & Lq & Eq & Ei)]; destruct (SRC j Lj) as [[Nj Ej]|(q' & Lq' & Eq' & Ej)]; rewrite Ei, Ej in E.
  - apply (proj1 (NoDup_nth hosts 0%N) ND); auto.
  - exfalso. apply (fresh_not_in hosts newids (nth q' newids 0%N) F); [apply nth_In; lia|]. rewrite <- E. apply nth_In. exact Li.
  - exfalso. apply (fresh_not_in hosts newids (nth q newids 0%N) F); [apply nth_In; lia|]. rewrite E. apply nth_In. exact Lj.
  - assert (q = q') by (apply (proj1 (NoDup_nth newids 0%N) NDn); auto; lia). subst q'. congruence.
Qed.

Lemma HInv_step : forall st ev, Inv st -> HInv st -> HInv (rstep st ev).
Proof.
  intros st ev I [ND LH]. unfold HInv. rewrite n_const, m_const.
  destruct (list_eq_dec N.eq_dec (r_hosts (rstep st ev)) (r_hosts st)) as [E|NE]; [rewrite E; auto|].
  pose proof (hosts_step st ev NE). subst ev. cbn [rstep] in *.
  destruct (r_att st) as [a|] eqn:EA; [|contradiction]. destruct (Nat.eqb (a_left a) 0); [|contradiction]. cbn [r_hosts upd].
  destruct (i_att st I a EA) as (P & F & DN & _). destruct (plan_commit_exact _ _ _ _ _ _ P) as (LP & _ & _).
  split; [eapply plan_hosts_nodup; eauto | congruence].
Qed.

Lemma InvH_run : forall evs st, Inv st -> HInv st -> rs_ok_run rs_ok_ev st evs = true -> Inv (rrun st evs) /\ HInv (rrun st evs).
Proof.
  induction evs as [|ev evs IH]; intros st I H OK; [auto|]. cbn in OK. apply andb_true_iff in OK as [O1 O2]. cbn.
  apply IH; auto; [now apply Inv_step | now apply HInv_step].
Qed.

Lemma rs_repair_progress2 : forall n m hosts evs, NoDup hosts -> length hosts = n + m ->
  rs_ok_run rs_ok_ev (rs_init n m hosts) evs = true ->
  let st := reach n m hosts evs in
  (NoDup (r_hosts st) /\ length (r_hosts st) = n + m) /\
  (intact_named st + bad_named st = length (r_hosts st)) /\
  (forall ev, abandons ev = true ->
     r_hosts (rstep st ev) = r_hosts st /\ bad_named (rstep st ev) = bad_named st /\ intact_named (rstep st ev) = intact_named st) /\
  (forall newids incs,
     0 < bad_named st -> fresh (r_hosts st) newids = true -> distinctN newids = true -> length newids = bad_named st -> 0 < incs ->
     let run := heal_run (length (r_hosts st)) newids incs in
     rs_ok_run rs_ok_ev st run = true /\ forallb plain run = true /\
     bad_named (rrun st run) = 0 /\ intact_named (rrun st run) = n + m /\ r_att (rrun st run) = None).
Proof.
  intros n m hosts evs ND LH OK st. assert (L : n <= length hosts) by lia.
  destruct (InvH_run evs _ (Inv_init n m hosts L) (conj ND LH) OK) as [I [H1 H2]]. fold (reach n m hosts evs) in I, H1, H2. fold st in I, H1, H2.
  assert (N : r_n st = n) by (unfold st, reach; rewrite n_run; reflexivity).
  assert (M : r_m st = m) by (unfold st, reach; rewrite m_run; reflexivity).
  rewrite N, M in H2. destruct (rs_repair_progress n m hosts evs L OK) as (A & B & C). fold st in A, B, C.
  split; [auto|]. split; [exact A|]. split; [exact B|]. intros newids incs. exact (C newids incs H1 H2).
Qed.

(* ------------------------------------------------------------------ the step line 94 of the harness *)
From BLB Require C04.RSModel.
Lemma ok_run_app : forall l l' st, rs_ok_run rs_ok_ev st (l ++ l') = rs_ok_run rs_ok_ev st l && rs_ok_run rs_ok_ev (rrun st l) l'.
Proof. induction l as [|x l IH]; intros l' st; [reflexivity|]. cbn. rewrite IH. apply andb_assoc. Qed.

Lemma hosts_seg : forall seg st, ~ In ECommit seg -> r_hosts (rrun st seg) = r_hosts st.
Proof.
  induction seg as [|ev seg IH]; intros st N; [reflexivity|]. cbn. rewrite IH by (intro X; apply N; right; exact X).
  destruct (list_eq_dec N.eq_dec (r_hosts (rstep st ev)) (r_hosts st)) as [E|NE]; [exact E|]. exfalso. apply N. left. rewrite (hosts_step st ev NE). reflexivity.
Qed.

(* a step of the harness = a segment of accepted model events (a reconstruction step is detect .. commit); kind 5 is the
   only kind whose segment may contain the commit; whatever the fault flag says, the verdict of line 94 is 1 *)
Lemma rs_step_verdict_sound : forall n m hosts evs seg kind fault, n <= length hosts ->
  rs_ok_run rs_ok_ev (rs_init n m hosts) evs = true ->
  let st := reach n m hosts evs in
  rs_ok_run rs_ok_ev st seg = true -> (kind <> C04.RSModel.K_STEP_RECON -> ~ In ECommit seg) ->
  let st' := rrun st seg in
  C04.RSModel.rs_step_judge kind (Z.of_nat n) (Z.of_nat (intact_named st)) (Z.of_nat (intact_named st'))
    (if list_eq_dec N.eq_dec (r_hosts st') (r_hosts st) then 0%Z else 1%Z) fault = 1%Z.
Proof.
  intros n m hosts evs seg kind fault L OK st OKS NC st'.
  assert (OK2 : rs_ok_run rs_ok_ev (rs_init n m hosts) (evs ++ seg) = true) by (rewrite ok_run_app, OK; exact OKS).
  destruct (rs_no_loss n m hosts (evs ++ seg) L OK2) as [A _]. rewrite rrun_app in A. fold (reach n m hosts evs) in A. fold st in A. fold st' in A.
  unfold C04.RSModel.rs_step_judge.
  assert (X : (Z.of_nat (intact_named st') <? Z.of_nat n)%Z = false) by (apply Z.ltb_ge; lia). rewrite X, andb_false_r.
  destruct (list_eq_dec N.eq_dec (r_hosts st') (r_hosts st)) as [E|NE]; [reflexivity|].
  destruct (Z.eq_dec kind C04.RSModel.K_STEP_RECON) as [K|K]; [subst kind; reflexivity|].
  exfalso. apply NE. unfold st'. apply hosts_seg. now apply NC.
Qed.
