(* C04/Entry.v — entry point of the extracted model: cluster cases and disk scenarios (C04/Model.v run_case) and
   the erasure-coded cases (C04/RSModel.v, first line 90). *)
From Coq Require Import List ZArith.
From BLB Require C04.Model C04.RSModel.
Import ListNotations.
Open Scope Z_scope.

Definition run_case_all (ops : list (list Z)) : list (list Z) :=
  match ops with
  | (90 :: _) :: _ => BLB.C04.RSModel.rs_run ops
  | _ => BLB.C04.Model.run_case ops
  end.
