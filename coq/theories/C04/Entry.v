(* C04/Entry.v — entry point of the extracted model: cluster cases (C04/Model.v cstep under C04/Seed.v's two window
   events), disk scenarios (first line 70, C04/Model.v drun) and the erasure-coded cases (C04/RSModel.v, first line 90). *)
From Coq Require Import List ZArith.
From BLB Require C04.Model C04.RSModel C04.Seed.
Import ListNotations.
Open Scope Z_scope.

Definition run_case_all (ops : list (list Z)) : list (list Z) :=
  match ops with
  | (90 :: _) :: _ => BLB.C04.RSModel.rs_run ops
  | [70] :: _ => BLB.C04.Model.run_case ops
  | _ => BLB.C04.Seed.srun BLB.C04.Model.cinit ops
  end.
