(* C04/NoLossHost.v — the destination of a PullTract for the NEXT version is never a durable host.
   PH: every PullTract request in the pool whose version is durable+1 is addressed to a server outside the
       durable host list;
   TH: every running replicateTract task whose t_dv is still the durable version has all durable hosts among
       its survivors and its bad set (placement picks new hosts outside both).
   Proved for every event but the probe event 17, over the Cluster model, then over the C04 alphabet. *)
From Coq Require Import List ZArith Bool Lia.
From BLB Require Import Gen.Consts Cluster.Model Cluster.Proofs Cluster.Frame Cluster.Inv Cluster.Window
     Cluster.Attempts Cluster.Sched Cluster.Order Cluster.Contain Cluster.Visible Cluster.Lower
     C04.Model C04.Proofs C04.NoLossInv C04.NoLossSched C04.NoLossRun.
Import ListNotations.
Open Scope Z_scope.

Definition PHe (st : state) (r : rpc) : Prop :=
  forall dv H, tget (s_dtr st) (rtk r) = Some (dv, H) -> k_ver r = dv + 1 -> ~ In (k_ts r) H.
Definition THt (st : state) (t : task) : Prop :=
  forall dv H, tget (s_dtr st) (ttk t) = Some (dv, H) -> t_dv t = dv -> forall h, In h H -> In h (t_ok t) \/ In h (t_bad t).

Definition PH (st : state) : Prop := forall e, In e (s_pool st) -> k_kind (p_rpc e) = K_PullTract -> PHe st (p_rpc e).
Definition TH (st : state) : Prop := forall t, In t (s_tasks st) -> t_kind t = 5 -> 0 < t_phase t -> THt st t.
Definition PT (st : state) : Prop := PH st /\ TH st.

Definition tsame (t t' : task) : Prop :=
  t_kind t = 5 /\ 0 < t_phase t /\ ttk t = ttk t' /\ t_dv t = t_dv t' /\ t_ok t = t_ok t' /\ t_bad t = t_bad t'.

(* nothing durable changes, no new PullTract, running replicate tasks keep their bookkeeping *)
Lemma PT_weaken : forall st st',
  s_dtr st' = s_dtr st ->
  (forall e', In e' (s_pool st') -> k_kind (p_rpc e') = K_PullTract -> exists e, In e (s_pool st) /\ p_rpc e = p_rpc e') ->
  (forall t', In t' (s_tasks st') -> t_kind t' = 5 -> 0 < t_phase t' -> exists t, In t (s_tasks st) /\ tsame t t') ->
  PT st -> PT st'.
Proof.
  intros st st' D P T [PHs THs]. split.
  - intros e' I K dv H E V. destruct (P _ I K) as (e & Ie & R). rewrite <- R in *. rewrite D in E. exact (PHs e Ie K dv H E V).
  - intros t' I K Ph dv H E V h Ih. destruct (T _ I K Ph) as (t & It & (K0 & P0 & TK & DV & OK & BD)).
    rewrite D in E. rewrite <- TK in E. rewrite <- DV in V. rewrite <- OK, <- BD. exact (THs t It K0 P0 dv H E V h Ih).
Qed.

Lemma tsame_refl : forall t, t_kind t = 5 -> 0 < t_phase t -> tsame t t.
Proof. intros; repeat split; auto. Qed.

Lemma PT_same : forall st st', s_dtr st' = s_dtr st -> s_pool st' = s_pool st -> s_tasks st' = s_tasks st -> PT st -> PT st'.
Proof.
  intros st st' D P T X. apply (PT_weaken st); auto.
  - intros e' I _. rewrite P in I. eauto.
  - intros t' I K Ph. rewrite T in I. exists t'. split; auto. now apply tsame_refl.
Qed.

Lemma PT_issue_cur : forall st r o, k_kind r <> K_PullTract -> PT st -> PT (issue_cur st r o).
Proof.
  intros st r o N X. apply (PT_weaken st); auto.
  - intros e' I K. cbn in I. apply in_app_or in I as [I|[I|[]]]; [eauto|]. subst e'. cbn in K. contradiction.
  - intros t' I K Ph. exists t'. split; auto. now apply tsame_refl.
Qed.

Lemma PT_fold_issue : forall (f : Z -> rpc) o l st, (forall h, k_kind (f h) <> K_PullTract) -> PT st ->
  PT (fold_left (fun s h => issue_cur s (f h) o) l st).
Proof. induction l; intros st N X; cbn [fold_left]; auto. apply IHl; auto. now apply PT_issue_cur. Qed.

Lemma PT_finish_task : forall st t err, PT st -> PT (finish_task st t err).
Proof.
  intros st t err X. apply (PT_weaken st); auto.
  - apply dtr_finish_task.
  - intros e' I K. unfold finish_task in I.
    assert (MAPS : forall x (g : pent -> pent) l, (forall y, p_rpc (g y) = p_rpc y) -> In x (map g l) -> exists e, In e l /\ p_rpc e = p_rpc x).
    { intros x g l G J. apply in_map_iff in J as (y & Ey & Iy). exists y. split; auto. rewrite <- Ey. symmetry. apply G. }
    destruct (t_rpc t =? 0); cbn [s_pool set_fin set_pool set_tasks] in I.
    + apply MAPS in I; auto. intro y. destruct (p_owner y =? t_op t); reflexivity.
    + apply MAPS in I; [|intro y; destruct (p_id y =? t_rpc t); reflexivity].
      destruct I as (e1 & I1 & R1). apply MAPS in I1; [|intro y; destruct (p_owner y =? t_op t); reflexivity].
      destruct I1 as (e0 & I0 & R0). exists e0. split; auto. congruence.
  - intros t' I K Ph. exists t'. split; [|now apply tsame_refl].
    unfold finish_task in I. destruct (t_rpc t =? 0); cbn [s_tasks set_fin set_pool set_tasks] in I;
      unfold del_task in I; apply filter_In in I as [I _]; exact I.
Qed.

Lemma upd_task_cases : forall ts t' x, In x (upd_task ts t') -> x = t' \/ In x ts.
Proof. intros ts t' x I. unfold upd_task in I. apply in_map_iff in I as (y & E & Iy). destruct (t_op y =? t_op t'); subst; auto. Qed.

Lemma PT_activate : forall st t, PT st -> PT (activate st t).
Proof.
  intros st t X. unfold activate.
  destruct (zget (s_blobs st) (t_blob t)) as [[repl nt]|]; [|now apply PT_finish_task].
  destruct (nt <=? t_tract t); [now apply PT_finish_task|].
  destruct (tget (s_dtr st) (tkey (t_blob t) (t_tract t))) as [[dv hosts]|] eqn:E; [|now apply PT_finish_task].
  destruct (t_kind t =? 5).
  - destruct (Z.of_nat (length _) =? 0); [now apply PT_finish_task|].
    destruct (Z.of_nat (length _) =? Z.of_nat (length hosts)); [now apply PT_finish_task|].
    destruct (negb (subset _ _)); [now apply PT_finish_task|].
    apply PT_fold_issue; [intro h; cbn; discriminate|].
    destruct X as [PHs THs]. split; [exact PHs|].
    intros x I K Ph. cbn [s_tasks set_tasks] in I. apply upd_task_cases in I as [I|I]; [|exact (THs x I K Ph)].
    subst x. intros dv' H' E' V' h Ih. cbn [s_dtr set_tasks ttk t_blob t_tract t_ok t_bad] in *. unfold ttk in E'. cbn in E'.
    rewrite E in E'. inversion E'; subst dv' H'.
    destruct (zmem h (t_bad t)) eqn:Z; [right; now apply zmem_in|]. left. apply filter_In. split; auto. now rewrite Z.
  - destruct (negb (zmem _ _)); [now apply PT_finish_task|]. destruct (negb (t_cliver t =? dv)); [now apply PT_finish_task|].
    destruct (negb (subset _ _)); [now apply PT_finish_task|].
    apply PT_fold_issue; [intro h; cbn; discriminate|].
    destruct X as [PHs THs]. split; [exact PHs|].
    intros x I K Ph. cbn [s_tasks set_tasks] in I. apply upd_task_cases in I as [I|I]; [|exact (THs x I K Ph)].
    subst x. cbn in K. discriminate K.
Qed.

Lemma PT_wake : forall n st, PT st -> PT (wake n st).
Proof.
  induction n; intros st X; [exact X|]. unfold wake; fold wake.
  destruct (find _ (s_tasks st)) as [t|]; [|exact X]. apply IHn. now apply PT_activate.
Qed.

Lemma PT_start_task : forall st t, t_phase t = 0 -> PT st -> PT (start_task st t).
Proof.
  intros st t P0 X. unfold start_task.
  assert (X1 : PT (set_tasks st (s_tasks st ++ [t]))).
  { apply (PT_weaken st); auto.
    - intros e' I _. eauto.
    - intros t' I K Ph. cbn in I. apply in_app_or in I as [I|[I|[]]]; [exists t'; split; auto; now apply tsame_refl|]. subst t'. lia. }
  destruct (_ && _); [now apply PT_finish_task | now apply PT_wake].
Qed.

(* the commit *)
Lemma PT_change_tract : forall st term b t v h, win_ok st -> PT st -> PT (fst (change_tract st term b t v h)).
Proof.
  intros st term b t v h (_ & U2 & U3) [PHs THs]. destruct (change_tract st term b t v h) as [st' c] eqn:X. cbn [fst].
  destruct (change_tract_cases _ _ _ _ _ _ _ _ X) as [E|(dv & hs & G & V & E)]; subst st'; [split; assumption|].
  split.
  - intros e I K dv' H' E' V'. cbn [s_dtr set_dtr s_pool] in *. destruct (tk_eqb (rtk (p_rpc e)) (b, t)) eqn:Q.
    + apply tk_eqb_eq in Q. rewrite Q in E'. rewrite tget_tset_same in E'. inversion E'; subst dv' H'.
      destruct (U2 e I (or_intror K)) as (dv0 & hs0 & G0 & L0). rewrite Q in G0. unfold tkey in G. rewrite G in G0. inversion G0; subst. lia.
    + rewrite tget_tset_other in E' by (intro Y; rewrite Y in Q; rewrite (proj2 (tk_eqb_eq _ _) eq_refl) in Q; discriminate).
      exact (PHs e I K dv' H' E' V').
  - intros x I K Ph dv' H' E' V' y Iy. cbn [s_dtr set_dtr s_tasks] in *. destruct (tk_eqb (ttk x) (b, t)) eqn:Q.
    + apply tk_eqb_eq in Q. rewrite Q in E'. rewrite tget_tset_same in E'. inversion E'; subst dv' H'.
      destruct (U3 x I Ph) as (dv0 & hs0 & G0 & L0). rewrite Q in G0. unfold tkey in G. rewrite G in G0. inversion G0; subst. lia.
    + rewrite tget_tset_other in E' by (intro Y; rewrite Y in Q; rewrite (proj2 (tk_eqb_eq _ _) eq_refl) in Q; discriminate).
      exact (THs x I K Ph dv' H' E' V' y Iy).
Qed.

(* ------------------------------------------------------------------ task_reply *)
Lemma pool_fold_issue : forall (f : Z -> rpc) o l st e,
  In e (s_pool (fold_left (fun s h => issue_cur s (f h) o) l st)) -> In e (s_pool st) \/ exists h, In h l /\ p_rpc e = f h.
Proof.
  induction l as [|x l IH]; intros st e I; cbn [fold_left] in I; [left; exact I|].
  apply IH in I as [I|(h & Ih & E)]; [|right; exists h; split; [right; exact Ih | exact E]].
  cbn in I. apply in_app_or in I as [I|[I|[]]]; [left; exact I|]. right. exists x. split; [left; auto | subst e; reflexivity].
Qed.

Lemma fields_fold_issue : forall (f : Z -> rpc) o l st,
  s_dtr (fold_left (fun s h => issue_cur s (f h) o) l st) = s_dtr st /\
  s_tasks (fold_left (fun s h => issue_cur s (f h) o) l st) = s_tasks st.
Proof. induction l; intros st; cbn [fold_left]; [auto|]. destruct (IHl (issue_cur st (f a) o)) as [A B]. rewrite A, B. auto. Qed.

Lemma PT_task_reply : forall st op err hint, win_ok st -> PT st -> PT (task_reply st op err hint).
Proof.
  intros st op err hint0 W X. unfold task_reply.
  destruct (find_task (s_tasks st) op) as [t|] eqn:F; [|exact X]. apply find_task_in in F.
  destruct (negb (err =? cl_NoError)); [apply PT_wake; now apply PT_finish_task|].
  destruct (1 <? t_wait t).
  { apply (PT_weaken st); auto.
    - intros e' I _. eauto.
    - intros x I K Ph. cbn [s_tasks set_tasks] in I. apply upd_task_cases in I as [I|I]; [|exists x; split; auto; now apply tsame_refl].
      subst x. exists t. split; auto. cbn in K, Ph. repeat split; auto. }
  destruct ((t_kind t =? 5) && (t_phase t =? 1)) eqn:KP.
  { apply andb_true_iff in KP as [K5 P1]. apply Z.eqb_eq in K5, P1.
    destruct (_ || _); [apply PT_wake; now apply PT_finish_task|].
    destruct (negb _) eqn:HC; [apply PT_wake; now apply PT_finish_task|].
    apply negb_false_iff in HC. apply andb_true_iff in HC as [HC _]. apply andb_true_iff in HC as [_ SUB].
    set (hint := before_sep hint0) in *.
    match goal with |- PT (fold_left ?FF hint ?S1) => set (st1 := S1) end.
    destruct X as [PHs THs].
    destruct (fields_fold_issue (fun h => mk_pull (t_gen t) h (t_blob t) (t_tract t) (t_dv t + 1) (t_ok t)) (t_op t) hint st1) as [FD FT].
    assert (TH1 : TH st1).
    { intros x I K Ph. cbn [s_tasks set_tasks st1] in I. apply upd_task_cases in I as [I|I]; [|exact (THs x I K Ph)].
      subst x. intros dv H E V h Ih. cbn in E, V |- *. apply (THs t F K5 ltac:(lia) dv H E V h Ih). }
    split.
    - intros e I K dv H E V. rewrite FD in E. cbn [s_dtr set_tasks st1] in E.
      apply pool_fold_issue in I as [I|(n & In' & R)]; [exact (PHs e I K dv H E V)|].
      rewrite R in *. cbn in E, V |- *. intro Ih.
      assert (VV : t_dv t = dv) by lia.
      destruct (THs t F K5 ltac:(lia) dv H E VV _ Ih) as [Y|Y].
      + pose proof (subset_in _ _ _ SUB In') as C. apply filter_In in C as [_ C]. apply andb_true_iff in C as [C _].
        apply negb_true_iff in C. rewrite (in_zmem _ _ Y) in C. discriminate.
      + pose proof (subset_in _ _ _ SUB In') as C. apply filter_In in C as [_ C]. apply andb_true_iff in C as [_ C].
        apply negb_true_iff in C. rewrite (in_zmem _ _ Y) in C. discriminate.
    - intros x I K Ph. rewrite FT in I. intros dv H E V. rewrite FD in E. exact (TH1 x I K Ph dv H E V). }
  match goal with |- context [change_tract ?a ?b ?c ?d ?e ?f] =>
    pose proof (PT_change_tract a b c d e f W X) as Y; destruct (change_tract a b c d e f) as [st1 e1] end.
  cbn [fst] in Y. apply PT_wake. now apply PT_finish_task.
Qed.

(* ------------------------------------------------------------------ reply delivery *)
Lemma dtr_client_learns : forall s r res tr, s_dtr (client_learns s r res tr) = s_dtr s.
Proof. intros. unfold client_learns. brk; reflexivity. Qed.

Lemma PT_resume : forall st e d h, Inv2 st -> PT st -> PT (resume st e d h).
Proof.
  intros st e d h [[Ds _] W] X. unfold resume.
  set (st1 := set_pool st (pool_remove (s_pool st) (p_id e))).
  assert (X1 : PT st1).
  { apply (PT_weaken st); auto.
    - intros e' I _. cbn in I. unfold pool_remove in I. apply filter_In in I as [I _]. eauto.
    - intros t' I K Ph. exists t'. split; auto. now apply tsame_refl. }
  assert (W1 : win_ok st1) by (apply win_pool_remove; auto).
  destruct (k_cli (p_rpc e) <? 0).
  - destruct (p_owner e =? 0); [exact X1 | now apply PT_task_reply].
  - set (st2 := if k_kind (p_rpc e) =? K_FixVersion then set_done st1 _ else st1).
    assert (X2 : PT st2) by (unfold st2; destruct (k_kind (p_rpc e) =? K_FixVersion); [apply (PT_same st1); auto | exact X1]).
    destruct d; [|exact X2]. destruct (learn_fields st2 (p_rpc e) (p_res e) (p_tr e)) as (_ & LP & LT).
    apply (PT_same st2); auto. apply dtr_client_learns.
Qed.

Lemma pool_tr_bound : forall st e, Inv2 st -> In e (s_pool st) -> tr_bound st (k_blob (p_rpc e)) (p_tr e).
Proof. intros st e [[_ (_ & _ & K3)] _] I x Hx. now apply K3. Qed.

Lemma PT_flush : forall n st h, Inv2 st -> PT st -> PT (flush n st h).
Proof.
  induction n; intros st h I2 X; [exact X|]. unfold flush; fold flush.
  destruct (find _ (s_pool st)) as [e|] eqn:F; [|exact X]. apply find_some in F as [F _].
  apply IHn; [apply inv2_resume; auto; now apply pool_tr_bound | now apply PT_resume].
Qed.

Lemma PT_fold_victims : forall victims s, Inv2 s -> (forall x, In x victims -> tr_bound s (k_blob (p_rpc x)) (p_tr x)) -> PT s ->
  PT (fold_left (fun s x => flush 8 (resume s x false []) []) victims s).
Proof.
  induction victims as [|v victims IH]; intros s I2 H X; cbn [fold_left]; [exact X|].
  pose proof (inv2_resume s v false [] I2 (H v (or_introl eq_refl))) as I3.
  pose proof (inv2_flush 8 _ [] I3) as I4.
  apply IH; auto.
  - intros x Hx y Hy. destruct I2 as [I W]. pose proof I as [D _].
    destruct (inv_resume s v false [] I (H v (or_introl eq_refl))) as [I1 A1].
    destruct (inv_flush 8 _ [] I1) as [_ A2].
    apply (bound_advances s); [apply (advances_trans s (resume s v false [])); auto | exact D | apply (H x (or_intror Hx) y Hy)].
  - apply PT_flush; auto. now apply PT_resume.
Qed.

(* ------------------------------------------------------------------ executed requests *)
Lemma PT_reps : forall st reps, PT st -> PT (set_reps st reps).
Proof. intros st reps X. apply (PT_same st); auto. Qed.

Lemma PT_ack_extend : forall st blob trs, Inv2 st -> PT st -> PT (fst (ack_extend st blob trs)).
Proof.
  intros st blob trs [[Ds _] (_ & U2 & U3)] [PHs THs].
  destruct (ack_extend_dtr st blob trs Ds) as (_ & _ & DNEW).
  destruct (ack_fields st blob trs) as (_ & FT & FP & _).
  set (st1 := fst (ack_extend st blob trs)) in *. split.
  - intros e I K dv H E V. rewrite FP in I. destruct (DNEW _ _ _ E) as [E0|[E0 _]]; [exact (PHs e I K dv H E0 V)|].
    destruct (U2 e I (or_intror K)) as (dv0 & hs0 & G0 & _). congruence.
  - intros t I K Ph dv H E V. rewrite FT in I. destruct (DNEW _ _ _ E) as [E0|[E0 _]]; [exact (THs t I K Ph dv H E0 V)|].
    destruct (U3 t I Ph) as (dv0 & hs0 & G0 & _). congruence.
Qed.

Lemma PT_exec : forall st e oracle st1 res tr, Inv2 st -> exec_rpc st e oracle = (st1, res, tr) -> PT st -> PT st1.
Proof.
  intros st e oracle st1 res tr I2 H X. unfold exec_rpc in H.
  destruct (k_kind (p_rpc e) =? K_Write). { destruct (ts_write _ _ _ _ _ _ _). inversion H; subst. now apply PT_reps. }
  destruct (k_kind (p_rpc e) =? K_Create). { destruct (ts_create _ _ _ _ _ _ _). inversion H; subst. now apply PT_reps. }
  destruct (k_kind (p_rpc e) =? K_Read). { destruct (ts_read _ _ _ _ _ _) as [[c n] runs]. inversion H; subst. exact X. }
  destruct (k_kind (p_rpc e) =? K_SetVersion). { destruct (ts_setversion _ _ _ _ _). inversion H; subst. now apply PT_reps. }
  destruct (k_kind (p_rpc e) =? K_PullTract). { destruct (ts_pull _ _ _ _ _ _ _). inversion H; subst. now apply PT_reps. }
  destruct (k_kind (p_rpc e) =? K_StatBlob). { destruct (zget (s_blobs st) (k_blob (p_rpc e))) as [[a b]|]; inversion H; subst; exact X. }
  destruct (k_kind (p_rpc e) =? K_GetTracts). { destruct (exec_gettracts st (p_rpc e)). inversion H; subst; exact X. }
  destruct (k_kind (p_rpc e) =? K_ExtendBlob). { destruct (exec_extend st (p_rpc e) oracle). inversion H; subst; exact X. }
  destruct (k_kind (p_rpc e) =? K_AckExtend).
  { pose proof (PT_ack_extend st (k_blob (p_rpc e)) (decode_tracts false (k_aux (p_rpc e))) I2 X) as Y.
    destruct (ack_extend _ _ _) as [s1 c]. inversion H; subst. exact Y. }
  destruct (k_kind (p_rpc e) =? K_ReportBadTS); inversion H; subst; exact X.
Qed.

Lemma PT_pool_update : forall st e stt res tr lose auto, In e (s_pool st) -> PT st ->
  PT (set_pool st (pool_update (s_pool st) (set_pent e stt res tr lose auto))).
Proof.
  intros st e stt res tr lose auto Ie X. apply (PT_weaken st); auto.
  - intros e' I _. cbn in I. apply in_pool_update in I as [I|I]; [subst e'; exists e; auto | eauto].
  - intros t' I K Ph. exists t'. split; auto. now apply tsame_refl.
Qed.

(* code 7 (the pieces of Inv2 are rebuilt as in Window.inv2_step_exec) *)
Lemma PT_step_exec : forall st mode r, Inv2 st -> PT st -> PT (fst (step_exec st mode r)).
Proof.
  intros st mode r I2 X. pose proof I2 as [I W]. unfold step_exec.
  destruct (parse_rpc r) as [[rp r1]|]; [|exact X].
  destruct r1 as [|nh r2]; [exact X|].
  destruct (take nh r2) as [place r3].
  destruct (find_pent (s_pool st) rp 0) as [e|] eqn:F; [|exact X].
  pose proof (find_pent_eq _ _ _ _ F) as ERP. apply find_pent_in in F.
  pose proof (pool_tr_bound st e I2 F) as TB.
  set (hint := place ++ [-1] ++ match r3 with nd :: r4 => fst (take nd r4) | [] => [] end).
  destruct (mode =? 4).
  { cbn [fst]. apply PT_flush; [apply inv2_resume; auto | now apply PT_resume]. }
  destruct (mode =? 6).
  { destruct (negb (k_kind rp =? K_PullTract)) eqn:KP; [exact X|]. cbn [fst].
    apply negb_false_iff in KP. apply Z.eqb_eq in KP.
    match goal with |- context [set_reps st ?x] => set (reps' := x); set (st1 := set_reps st reps') end.
    assert (I1 : Inv st1) by (apply (inv_quiet st); [apply quiet_set_reps | exact I]).
    assert (X1 : PT st1) by now apply PT_reps.
    assert (W1 : win_ok st1).
    { destruct W as (U1 & U2 & U3). split; [|split; [exact U2|exact U3]].
      intros k r' H. cbn [s_reps set_reps st1] in H. unfold reps' in H.
      destruct (k_ts rp =? aux_nth rp 0); [|exact (U1 _ _ H)].
      destruct (pull_crash_vrel _ _ _ _ _ _ _ _ H) as [(r0 & G0 & E0)|[Ek Ev]].
      - rewrite E0. exact (U1 _ _ G0).
      - subst k. rewrite Ev. cbn [snd]. apply durb_bound1. rewrite <- ERP. apply U2; auto. right. rewrite ERP. exact KP. }
    assert (TB1 : tr_bound st1 (k_blob (p_rpc e)) (p_tr e)) by exact TB.
    pose proof (inv2_resume st1 e false hint (conj I1 W1) TB1) as J2.
    pose proof (inv2_flush 8 _ hint J2) as J3.
    apply PT_fold_victims; [exact J3 | apply victims_bound; exact (proj1 J3)|].
    apply PT_flush; [exact J2|]. apply PT_resume; [exact (conj I1 W1) | exact X1]. }
  destruct (k_kind rp =? K_FixVersion).
  { cbn [fst].
    set (sa := set_pool st (pool_update (s_pool st) (set_pent e 1 [] [] (mode =? 2) (negb (mode =? 5))))).
    assert (Ja : Inv2 sa) by (split; [apply inv_pool_update; auto using tr_bound_nil | apply win_pool_update; auto]).
    assert (Xa : PT sa) by now apply PT_pool_update.
    set (sb := set_nsynth sa (s_nsynth st + 1)).
    assert (Jb : Inv2 sb) by exact Ja.
    assert (Xb : PT sb) by (apply (PT_same sa); auto).
    apply PT_flush.
    - eapply inv2_calm; [apply calm_start_task; apply new_task_phase | | exact Jb].
      apply (inv_quiet sb); [apply quiet_start_task | exact (proj1 Jb)].
    - apply PT_start_task; [apply new_task_phase | exact Xb]. }
  destruct (exec_rpc st e place) as [[st1 res] tr] eqn:X1.
  destruct (inv_exec _ _ _ _ _ _ I X1) as (E1 & P1 & T1).
  assert (J1 : Inv2 st1) by (split; [eapply evolves_inv; eauto | eapply win_exec; eauto]).
  pose proof (PT_exec _ _ _ _ _ _ I2 X1 X) as Y1.
  destruct (mode =? 3).
  - destruct (exec_rpc st1 e place) as [[st1b res2] tr2] eqn:X2. cbn [fst].
    destruct (inv_exec _ _ _ _ _ _ (proj1 J1) X2) as (E2 & P2 & T2).
    assert (F1 : In e (s_pool st1)) by (rewrite P1; exact F).
    assert (J2 : Inv2 st1b) by (split; [eapply evolves_inv; [exact E2|exact (proj1 J1)] | eapply win_exec; eauto]).
    pose proof (PT_exec _ _ _ _ _ _ J1 X2 Y1) as Y2.
    assert (F2 : In e (s_pool st1b)) by (rewrite P2; exact F1).
    apply PT_flush; [|now apply PT_pool_update]. split.
    + apply inv_pool_update; [exact (proj1 J2) | exact F2 |].
      intros x Hx. destruct J1 as [[D1 _] _]. eapply bound_advances; [apply evolves_advances; exact E2 | exact D1 | apply (T1 _ Hx)].
    + apply win_pool_update; [exact (proj2 J2) | exact F2].
  - cbn [fst]. assert (F1 : In e (s_pool st1)) by (rewrite P1; exact F).
    apply PT_flush; [|now apply PT_pool_update]. split.
    + apply inv_pool_update; [exact (proj1 J1) | exact F1 | exact T1].
    + apply win_pool_update; [exact (proj2 J1) | exact F1].
Qed.

(* one event of the Cluster model that is not the probe event 17 *)
Theorem PT_step : forall st ev, hd 0 ev <> 17 -> Inv2 st -> PT st -> PT (fst (step st ev)).
Proof.
  intros st ev NI J0 X0. unfold step.
  assert (J : Inv2 (set_out st [])) by exact J0. assert (X : PT (set_out st [])) by exact X0. clear J0 X0.
  set (s := set_out st []) in *. clearbody s. pose proof J as [I W].
  assert (SAME : forall s', s_dtr s' = s_dtr s -> s_pool s' = s_pool s -> s_tasks s' = s_tasks s -> PT s') by (intros; apply (PT_same s); auto).
  destruct ev as [|c a]; [exact X|]. cbn [hd] in NI.
  destruct (c =? 1). { destruct a; first [exact X | apply SAME; reflexivity]. }
  destruct (c =? 2). { destruct a as [|x [|y [|z a]]]; try exact X. destruct (zget (s_blobs s) x); first [exact X | apply SAME; reflexivity]. }
  destruct (c =? 3). { destruct a as [|x1 [|x2 [|x3 [|x4 [|x5 [|x6 [|x7 a]]]]]]]; first [exact X | apply SAME; reflexivity]. }
  destruct (c =? 4). { destruct a as [|x1 [|x2 [|x3 [|x4 [|x5 [|x6 a]]]]]]; first [exact X | apply SAME; reflexivity]. }
  destruct (c =? 5).
  { destruct a as [|x1 [|x2 [|x3 [|x4 [|x5 a]]]]]; try exact X. destruct (take x5 a) as [bad rest]. cbn [fst]. apply PT_flush.
    - eapply inv2_calm; [apply calm_start_task; apply new_task_phase | | exact J]. apply (inv_quiet s); [apply quiet_start_task | exact I].
    - apply PT_start_task; [apply new_task_phase | exact X]. }
  destruct (c =? 6).
  { destruct a as [|x1 [|x2 [|x3 [|x4 [|x5 [|x6 [|x7 a]]]]]]]; try exact X. cbn [fst]. apply PT_flush.
    - eapply inv2_calm; [apply calm_start_task; apply new_task_phase | | exact J]. apply (inv_quiet s); [apply quiet_start_task | exact I].
    - apply PT_start_task; [apply new_task_phase | exact X]. }
  destruct (c =? 7). { destruct a as [|mode rest]; [exact X|]. now apply PT_step_exec. }
  destruct (c =? 8).
  { destruct a as [|lose r]; [exact X|]. unfold step_reply.
    destruct (parse_rpc r) as [[rp r1]|]; [|exact X].
    destruct (find_pent (s_pool s) rp 2) as [e|] eqn:F; [|exact X].
    apply find_pent_in in F. cbn [fst]. apply PT_flush; [apply inv2_resume; auto; now apply pool_tr_bound | now apply PT_resume]. }
  destruct (c =? 9).
  { destruct a as [|ts [|y a]]; try exact X. unfold step_restart. cbn [fst].
    apply PT_fold_victims; [exact J | apply victims_bound; exact I | exact X]. }
  destruct (c =? 10). { destruct a; first [exact X | apply SAME; reflexivity]. }
  destruct (c =? 11). { destruct a as [|ts [|y a]]; first [exact X | apply SAME; reflexivity]. }
  destruct (c =? 12).
  { destruct a as [|x1 [|x2 [|x3 [|x4 [|x5 a]]]]]; try exact X. unfold step_probe.
    destruct (tget (s_dtr s) (tkey x1 x2)) as [[ver hosts]|]; [|exact X].
    destruct ((x3 =? 1) && (x4 =? 0)); [exact X|].
    match goal with |- context [change_tract ?a ?b ?c ?d ?e ?f] =>
      pose proof (PT_change_tract a b c d e f W X) as H; destruct (change_tract a b c d e f) end.
    exact H. }
  destruct (c =? 13).
  { unfold step_issue. destruct (parse_rpc a) as [[rp r1]|]; [|exact X].
    destruct (issue_allowed s rp) eqn:A; [|exact X]. cbn [fst].
    apply (PT_weaken s); auto.
    - intros e' I' K. cbn in I'. apply in_app_or in I' as [I'|[I'|[]]]; [eauto|]. subst e'. cbn in K.
      exfalso. unfold issue_allowed in A. apply andb_true_iff in A as [A _]. apply andb_true_iff in A as [_ A].
      exact (client_kind_not_cur rp A (or_intror K)).
    - intros t' I' K Ph. exists t'. split; auto. now apply tsame_refl. }
  destruct (c =? 14).
  { destruct a as [|x1 [|x2 [|x3 a]]]; try exact X. unfold step_finclient.
    repeat match goal with
           | |- context [match ?x with _ => _ end] => destruct x eqn:?
           | |- context [if ?x then _ else _] => destruct x eqn:?
           end; first [exact X | apply SAME; reflexivity]. }
  destruct (c =? 15). { destruct a as [|op [|y a]]; try exact X. destruct (zget (s_fin s) op); first [exact X | apply SAME; reflexivity]. }
  destruct (c =? 16).
  { unfold step_rpcdone. repeat match goal with |- context [match ?x with _ => _ end] => destruct x eqn:? end; first [exact X | apply SAME; reflexivity]. }
  destruct (c =? 17) eqn:C17. { apply Z.eqb_eq in C17. contradiction. }
  exact X.
Qed.

Lemma PT_init : PT init_state.
Proof. split; intros x I; destruct I. Qed.

(* ------------------------------------------------------------------ the C04 alphabet *)
Lemma GL_Inv2 : forall st, GL st -> Inv2 st.
Proof. intros st [(I2 & _) _]. exact I2. Qed.

Lemma PT_c04_exec : forall cs e oracle cs1 res tr, Inv2 (c_base cs) -> c04_exec_rpc cs e oracle = (cs1, res, tr) ->
  PT (c_base cs) -> PT (c_base cs1).
Proof.
  intros cs e oracle cs1 res tr I2 H X. unfold c04_exec_rpc in H.
  assert (LIFT : lift3 cs (exec_rpc (c_base cs) e oracle) = (cs1, res, tr) -> PT (c_base cs1)).
  { intro Y. destruct (exec_rpc (c_base cs) e oracle) as [[st1 r1] t1] eqn:E. cbn in Y. inversion Y; subst. cbn. eapply PT_exec; eauto. }
  assert (FAIL : forall fl', (set_fl cs fl', [cl_ErrCorruptData], @nil (Z * Z * list (Z * Z))) = (cs1, res, tr) -> PT (c_base cs1)).
  { intros fl' Y. inversion Y; subst. exact X. }
  destruct ((k_kind (p_rpc e) =? K_Read) || (k_kind (p_rpc e) =? K_Write)).
  { destruct (hits_corruption cs _ _ _); eauto. }
  destruct (k_kind (p_rpc e) =? K_Create).
  { destruct (_ && _); eauto. }
  destruct (k_kind (p_rpc e) =? K_PullTract); [|auto].
  destruct (c04_pull _ _ _ _ _ _ _ _ _) as [[[reps cor] fl] c]. inversion H; subst. cbn. now apply PT_reps.
Qed.

Lemma c04_step_exec_PT : forall L cs mode r rp rest,
  parse_rpc r = Some (rp, rest) -> C04.Model.data_kind (k_kind rp) = true -> (mode =? 4) = false ->
  ok_ev L (c_base cs) (7 :: mode :: r) = true -> GL (c_base cs) -> PT (c_base cs) ->
  PT (c_base (fst (c04_step_exec cs mode r))).
Proof.
  intros L cs mode r rp rest P DK M4 OK GS X. unfold c04_step_exec. rewrite P.
  cbn [ok_ev] in OK. change (7 =? 3) with false in OK. change (7 =? 4) with false in OK.
  change ((7 =? 5) || (7 =? 6)) with false in OK. change (7 =? 7) with true in OK. cbv iota in OK. rewrite P in OK.
  destruct rest as [|nh r2]; [exact X|].
  destruct (take nh r2) as [place r3].
  destruct (find_pent (s_pool (c_base cs)) rp 0) as [e|] eqn:F; [|exact X].
  pose proof (find_pent_eq _ _ _ _ F) as ERP. pose proof (find_pent_st _ _ _ _ F) as EST. apply find_pent_in in F.
  apply andb_true_iff in OK as [OK OKP]. apply andb_true_iff in OK as [OKM OKC].
  rewrite M4 in OKC, OKP. cbn [orb] in OKC, OKP.
  destruct (mode =? 6) eqn:M6.
  { exfalso. apply Z.eqb_eq in M6. pose proof (mode_ok_cases _ _ OKM). lia. }
  assert (DS : data_side (c_base cs) e).
  { rewrite <- ERP in OKC, OKP, DK. split; [|split].
    - intros K. rewrite K, Z.eqb_refl in OKC. apply negb_true_iff in OKC. unfold durable in OKC. unfold rtk.
      destruct (tget (s_dtr (c_base cs)) _); [discriminate | reflexivity].
    - intros K. rewrite K, Z.eqb_refl in OKP. now apply negb_true_iff in OKP.
    - now apply data_kind_not_setversion. }
  destruct (c04_exec_rpc cs e place) as [[cs1 res] tr] eqn:X1.
  pose proof (c04_exec_GL cs e place false GS F EST DS cs1 res tr X1) as [GS1 _]. cbv zeta in GS1.
  pose proof (c04_exec_GL cs e place (mode =? 3) GS F EST DS cs1 res tr X1) as [GS2 (Ie2 & TB2 & _)]. cbv zeta in GS2, Ie2, TB2.
  pose proof (PT_c04_exec _ _ _ _ _ _ (GL_Inv2 _ GS) X1 X) as Y1.
  assert (Y2 : PT (c_base (if mode =? 3 then fst (fst (c04_exec_rpc cs1 e place)) else cs1))).
  { destruct (mode =? 3); [|exact Y1]. destruct (c04_exec_rpc cs1 e place) as [[cs2 res2] tr2] eqn:X2. cbn [fst].
    exact (PT_c04_exec _ _ _ _ _ _ (GL_Inv2 _ GS1) X2 Y1). }
  cbn [fst c_base set_base].
  set (st1' := c_base (if mode =? 3 then fst (fst (c04_exec_rpc cs1 e place)) else cs1)) in *.
  pose proof (GL_Inv2 _ GS2) as J.
  apply PT_flush; [|now apply PT_pool_update].
  split; [apply inv_pool_update; [exact (proj1 J) | exact Ie2 | exact TB2] | apply win_pool_update; [exact (proj2 J) | exact Ie2]].
Qed.

Lemma ok_ev_not_probe : forall L st ev, ok_ev L st ev = true -> hd 0 ev <> 17.
Proof. intros L st ev OK. destruct ev as [|c a]; [cbn; lia|]. cbn. intro X. subst c. cbn in OK. discriminate OK. Qed.

Lemma lift_PT : forall L cs ev, ok_ev L (c_base cs) ev = true -> GL (c_base cs) -> PT (c_base cs) -> PT (c_base (fst (lift_step cs ev))).
Proof.
  intros L cs ev OK GS X. unfold lift_step.
  pose proof (PT_step (c_base cs) ev (ok_ev_not_probe _ _ _ OK) (GL_Inv2 _ GS) X) as Y.
  destruct (step (c_base cs) ev) as [st o]. exact Y.
Qed.

Theorem c04_cstep_PT : forall L cs ev, c04_ok_ev L cs ev = true -> GL (c_base cs) -> PT (c_base cs) -> PT (c_base (fst (cstep cs ev))).
Proof.
  intros L cs ev OK GS X. unfold cstep. destruct ev as [|c a]; [exact X|].
  destruct (c =? 7) eqn:C7.
  { apply Z.eqb_eq in C7. subst c. change (ok_ev L (c_base cs) (7 :: a) = true) in OK.
    destruct a as [|mode r]; [now apply (lift_PT L)|].
    destruct (parse_rpc r) as [[rp r1]|] eqn:P; [|now apply (lift_PT L)].
    destruct (C04.Model.data_kind (k_kind rp) && negb (mode =? 4)) eqn:D; [|now apply (lift_PT L)].
    apply andb_true_iff in D as [DK M4]. apply negb_true_iff in M4.
    apply (c04_step_exec_PT L (set_base cs (set_out (c_base cs) [])) mode r rp r1 P DK M4); [exact OK | exact GS | exact X]. }
  destruct (c =? 9) eqn:C9.
  { apply Z.eqb_eq in C9. subst c. change (ok_ev L (c_base cs) (9 :: a) = true) in OK.
    pose proof (lift_PT L cs (9 :: a) OK GS X) as Y. destruct (lift_step cs (9 :: a)) as [cs1 o].
    destruct a as [|ts [|y a]]; exact Y. }
  destruct (c =? 10) eqn:C10.
  { apply Z.eqb_eq in C10. subst c. change (ok_ev L (c_base cs) (10 :: a) = true) in OK.
    pose proof (lift_PT L cs (10 :: a) OK GS X) as Y. destruct (lift_step cs (10 :: a)) as [cs1 o]. exact Y. }
  destruct (c =? 15) eqn:C15.
  { apply Z.eqb_eq in C15. subst c. change (ok_ev L (c_base cs) (15 :: a) = true) in OK.
    pose proof (lift_PT L cs (15 :: a) OK GS X) as Y. destruct (lift_step cs (15 :: a)) as [cs1 o].
    destruct a as [|op [|y a]]; try exact Y. destruct o as [|cc [|z o]]; try exact Y.
    destruct (zget (c_rops cs1) op); try exact Y. destruct (0 <=? cc); exact Y. }
  destruct (c =? 60) eqn:C60.
  { destruct a as [|ts [|b [|t [|z a]]]]; try exact X. unfold ev_corrupt. destruct (rget _ _); exact X. }
  destruct (c =? 61) eqn:C61.
  { destruct a as [|ts [|b [|t [|z a]]]]; try exact X.
    unfold ev_delete. destruct (rget (s_reps (c_base cs)) (ts, tkey b t)); [|exact X]. cbn [fst c_base set_disk]. now apply PT_reps. }
  destruct (c =? 62) eqn:C62.
  { destruct a as [|ts [|b [|t [|z a]]]]; try exact X. unfold ev_scrub.
    destruct (rget _ _); try exact X. destruct (rmem (ts, tkey b t) (c_cor cs)); exact X. }
  destruct (c =? 63) eqn:C63.
  { destruct a as [|ts [|z a]]; exact X. }
  destruct (c =? 64) eqn:C64. { destruct a as [|ts [|z a]]; exact X. }
  destruct (c =? 65) eqn:C65. { destruct a as [|ts [|h [|z a]]]; exact X. }
  destruct (c =? 66) eqn:C66.
  { destruct a; try exact X. cbn [fst ev_detect]. destruct (rec_detect_disk cs) as (B & _). rewrite B. exact X. }
  destruct (c =? 67) eqn:C67.
  { apply Z.eqb_eq in C67. subst c. change (ok_ev L (c_base cs) (5 :: a) = true) in OK.
    unfold ev_pop. destruct a as [|op [|gen [|blob [|tract [|nbad r]]]]]; try exact X.
    destruct (ent_get (c_rent cs) (tkey blob tract)) as [en|]; [|exact X].
    match goal with |- context [if ?B then _ else _] => destruct B end; [exact X|].
    apply (lift_PT L); [exact OK | exact GS | exact X]. }
  assert (OK' : ok_ev L (c_base cs) (c :: a) = true).
  { unfold c04_ok_ev in OK. rewrite C61, C60, C62, C63, C64, C65, C66, C67 in OK. exact OK. }
  now apply (lift_PT L).
Qed.

Theorem c04_GLPT_run : forall L evs cs, c04_sched L cs evs = true -> GL (c_base cs) -> PT (c_base cs) ->
  GL (c_base (crun_state cs evs)) /\ PT (c_base (crun_state cs evs)).
Proof.
  induction evs as [|ev evs IH]; intros cs OK GS X; [split; assumption|].
  cbn in OK. apply andb_true_iff in OK as [OK1 OK2]. cbn [crun_state]. apply IH; auto.
  - eapply c04_cstep_GL; eauto.
  - eapply c04_cstep_PT; eauto.
Qed.

Theorem c04_PT_reachable : forall L evs, c04_sched L cinit evs = true -> PT (c_base (crun_state cinit evs)).
Proof. intros L evs OK. apply (c04_GLPT_run L evs cinit OK); [exact GL_init | exact PT_init]. Qed.

(* ------------------------------------------------------------------ a PullTract never re-copies an intact current replica *)
Lemma c04_pull_once_newer : forall reps cor fl nts x tk ver src r,
  rget reps (x, tk) = Some r -> ver < r_ver r ->
  c04_pull_once reps cor fl nts x tk ver src = (reps, cor, fl, cl_ErrInvalidState).
Proof.
  intros reps cor fl nts x tk ver src r G L. unfold c04_pull_once. rewrite G.
  assert (X : (ver <? r_ver r) = true) by (apply Z.ltb_lt; lia). rewrite X. reflexivity.
Qed.

Lemma c04_pull_loop_newer : forall srcs reps cor fl nts x tk ver last r,
  rget reps (x, tk) = Some r -> ver < r_ver r ->
  exists c, c04_pull_loop reps cor fl nts x tk ver srcs last = (reps, cor, fl, c).
Proof.
  induction srcs as [|s l IH]; intros reps cor fl nts x tk ver last r G L; cbn; [eauto|].
  rewrite (c04_pull_once_newer reps cor fl nts x tk ver s r G L).
  assert (N : (cl_ErrInvalidState =? cl_NoError) = false) by (vm_compute; reflexivity). rewrite N. eapply IH; eauto.
Qed.

Lemma c04_exec_pull_newer : forall cs e oracle r,
  k_kind (p_rpc e) = K_PullTract ->
  rget (s_reps (c_base cs)) (rpc_key_of (p_rpc e)) = Some r -> k_ver (p_rpc e) < r_ver r ->
  s_reps (c_base (fst (fst (c04_exec_rpc cs e oracle)))) = s_reps (c_base cs) /\
  c_cor (fst (fst (c04_exec_rpc cs e oracle))) = c_cor cs.
Proof.
  intros cs e oracle r K G L. unfold c04_exec_rpc. rewrite K. cbn [Z.eqb Pos.eqb orb].
  unfold c04_pull. destruct (negb (k_ts (p_rpc e) =? aux_nth (p_rpc e) 0)); [cbn; auto|].
  unfold rpc_key_of in G.
  destruct (c04_pull_loop_newer (tl (k_aux (p_rpc e))) (s_reps (c_base cs)) (c_cor cs) (c_fl cs) (s_nts (c_base cs)) (k_ts (p_rpc e))
              (tkey (k_blob (p_rpc e)) (k_tract (p_rpc e))) (k_ver (p_rpc e)) cl_NoError r G L) as (c & PL).
  rewrite PL. cbn. auto.
Qed.

(* at a state that satisfies the invariants, an accepted PullTract addressed to a durable host that holds a current
   replica leaves all replicas and damage marks alone *)
Lemma pull_at_host_noop : forall L cs mode rest rp r1 dv H r,
  GL (c_base cs) -> PT (c_base cs) -> ok_ev L (c_base cs) (7 :: mode :: rest) = true ->
  parse_rpc rest = Some (rp, r1) -> mode <> 4 -> k_kind rp = K_PullTract ->
  tget (s_dtr (c_base cs)) (rtk rp) = Some (dv, H) -> In (k_ts rp) H ->
  rget (s_reps (c_base cs)) (rpc_key_of rp) = Some r -> dv <= r_ver r ->
  s_reps (c_base (fst (cstep cs (7 :: mode :: rest)))) = s_reps (c_base cs) /\ c_cor (fst (cstep cs (7 :: mode :: rest))) = c_cor cs.
Proof.
  intros L cs mode rest rp r1 dv H r GS [PHs _] OK P M4 KP E Ih G LV.
  unfold cstep. cbn [Z.eqb Pos.eqb]. rewrite P. rewrite KP. change (C04.Model.data_kind K_PullTract) with true. cbn [andb].
  assert (M4' : (mode =? 4) = false) by (apply Z.eqb_neq; exact M4). rewrite M4'. cbn [negb].
  cbn [ok_ev] in OK. change (7 =? 3) with false in OK. change (7 =? 4) with false in OK.
  change ((7 =? 5) || (7 =? 6)) with false in OK. change (7 =? 7) with true in OK. cbv iota in OK. rewrite P in OK.
  unfold c04_step_exec. rewrite P. cbn [c_base set_base].
  destruct r1 as [|nh r2]; [split; reflexivity|].
  destruct (take nh r2) as [place r3].
  change (s_pool (set_out (c_base cs) [])) with (s_pool (c_base cs)).
  destruct (find_pent (s_pool (c_base cs)) rp 0) as [e|] eqn:F; [|split; reflexivity].
  pose proof (find_pent_eq _ _ _ _ F) as ERP. apply find_pent_in in F.
  apply andb_true_iff in OK as [OK OKP]. apply andb_true_iff in OK as [OKM _].
  rewrite M4', KP, Z.eqb_refl in OKP. cbn [orb] in OKP. apply negb_true_iff in OKP.
  destruct (mode =? 6) eqn:M6.
  { exfalso. apply Z.eqb_eq in M6. pose proof (mode_ok_cases _ _ OKM). lia. }
  (* the version of the request is below the local copy's *)
  assert (KPe : k_kind (p_rpc e) = K_PullTract) by (rewrite ERP; exact KP).
  assert (LT : k_ver rp < r_ver r).
  { pose proof GS as [((_ & (_ & U2 & _)) & _) _]. destruct (U2 e F (or_intror KPe)) as (dv0 & hs0 & G0 & L0).
    rewrite ERP in G0, L0. rewrite E in G0. inversion G0; subst dv0 hs0.
    assert (NE : k_ver rp <> dv + 1).
    { intro V. apply (PHs e F KPe dv H); rewrite ERP; auto. }
    unfold stale_pull in OKP. unfold rtk in E. rewrite E in OKP. unfold rpc_key_of in G. rewrite G in OKP.
    apply andb_false_iff in OKP as [Y|Y]; [apply Z.leb_gt in Y; lia | apply Z.leb_gt in Y; lia]. }
  set (cs0 := set_base cs (set_out (c_base cs) [])).
  assert (G0 : rget (s_reps (c_base cs0)) (rpc_key_of (p_rpc e)) = Some r) by (rewrite ERP; exact G).
  assert (LTe : k_ver (p_rpc e) < r_ver r) by (rewrite ERP; exact LT).
  destruct (c04_exec_pull_newer cs0 e place r KPe G0 LTe) as [R1 C1].
  destruct (c04_exec_rpc cs0 e place) as [[cs1 res] tr] eqn:X1. cbn [fst] in R1, C1.
  assert (G1 : rget (s_reps (c_base cs1)) (rpc_key_of (p_rpc e)) = Some r) by (rewrite R1; exact G0).
  destruct (c04_exec_pull_newer cs1 e place r KPe G1 LTe) as [R2 C2].
  unfold cs0 in R1, C1. cbn [c_base set_base s_reps set_out c_cor] in R1, C1.
  destruct (mode =? 3).
  - destruct (c04_exec_rpc cs1 e place) as [[cs2 res2] tr2]. cbn [fst] in *. cbn [c_base set_base c_cor]. rewrite reps_flush. cbn [s_reps set_pool].
    split; congruence.
  - cbn [fst c_base set_base c_cor]. rewrite reps_flush. cbn [s_reps set_pool]. split; congruence.
Qed.
