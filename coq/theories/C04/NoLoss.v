(* C04/NoLoss.v — what the invariants give along every C04 schedule: visibility of acknowledged data at every
   durable host, the premise in its simple form (an undamaged current replica IS intact), the exact reply of a
   Read at a C04 tractserver, and which events can take an undamaged current replica away. *)
From Coq Require Import List ZArith Bool Lia.
From BLB Require Import Gen.Consts Cluster.Model Cluster.Proofs Cluster.Frame Cluster.Inv Cluster.Window
     Cluster.Attempts Cluster.Sched Cluster.Order Cluster.Contain Cluster.Visible Cluster.Lower
     C04.Model C04.Proofs C04.NoLossInv C04.NoLossSched C04.NoLossRun.
Import ListNotations.
Open Scope Z_scope.

(* ------------------------------------------------------------------ consequences of the invariants *)
Lemma GL_vis : forall st b j h p, GL st -> 0 <= p < TL -> vis_ok st b j h p = true.
Proof. intros st b j h p [GS _] P. now apply vis_of_G. Qed.

Lemma GL_lower : forall st tk dv H h r, GL st -> tget (s_dtr st) tk = Some (dv, H) -> In h H ->
  rget (s_reps st) (h, tk) = Some r -> dv <= r_ver r.
Proof. intros st tk dv H h r [_ LS] E I G. destruct (low_lwp _ LS) as [HV _]. eapply HV; eauto. Qed.

Lemma GL_upper : forall st tk dv H g r, GL st -> tget (s_dtr st) tk = Some (dv, H) ->
  rget (s_reps st) (g, tk) = Some r -> r_ver r <= dv + 1.
Proof.
  intros st tk dv H g r [((_ & (U1 & _)) & _) _] E G. specialize (U1 _ _ G). unfold bound1 in U1. cbn in U1. rewrite E in U1. exact U1.
Qed.

Lemma wrec_eqb_refl : forall w, wrec_eqb w w = true.
Proof. intros w. unfold wrec_eqb. now rewrite !Z.eqb_refl. Qed.

(* a durable host at the durable version, and any copy one version ahead, holds every acknowledged write *)
Lemma GL_holds_acked : forall st tk dv H g r, GL st -> tget (s_dtr st) tk = Some (dv, H) ->
  rget (s_reps st) (g, tk) = Some r -> (In g H /\ r_ver r = dv) \/ r_ver r = dv + 1 -> holds_acked st tk r = true.
Proof.
  intros st [b j] dv H g r [(_ & _ & _ & _ & _ & (V1 & _)) _] E G Cu. unfold holds_acked. apply forallb_forall.
  intros [[b' wid] W] IA. cbn [fst snd].
  destruct (b' =? b) eqn:EB; [|reflexivity]. apply Z.eqb_eq in EB. subst b'. cbn [negb orb].
  destruct (snd (seg_of (w_off W) (w_len W) j) <=? 0) eqn:LN; [reflexivity|]. apply Z.leb_gt in LN. cbn [orb].
  apply existsb_exists. exists (rec_in wid W j). split; [|apply wrec_eqb_refl]. eapply V1; eauto.
Qed.

(* under the invariants "intact" adds nothing to "undamaged and current" for a durable host *)
Lemma intact_is_undamaged_current : forall cs tk dv H h, GL (c_base cs) -> tget (s_dtr (c_base cs)) tk = Some (dv, H) -> In h H ->
  intact_current cs tk dv h = undamaged_current cs tk dv h.
Proof.
  intros cs tk dv H h GS E I. unfold intact_current, undamaged_current.
  destruct (rget (s_reps (c_base cs)) (h, tk)) as [r|] eqn:G; [|reflexivity].
  destruct (dv <=? r_ver r) eqn:L; [|reflexivity]. apply Z.leb_le in L.
  destruct (negb (rmem (h, tk) (c_cor cs))); [|reflexivity]. cbn.
  pose proof (GL_upper _ _ _ _ _ _ GS E G) as U.
  apply (GL_holds_acked _ _ dv H h r GS E G). destruct (Z.eq_dec (r_ver r) dv); [left; auto | right; lia].
Qed.

Lemma premise_host : forall cs tk dv H, premise cs = true -> tget (s_dtr (c_base cs)) tk = Some (dv, H) ->
  exists h, In h H /\ intact_current cs tk dv h = true.
Proof.
  intros cs tk dv H P E. unfold premise in P. rewrite forallb_forall in P.
  specialize (P _ (tget_in _ _ _ _ E)). cbn in P. apply existsb_exists in P as (h & I & X). eauto.
Qed.

(* ------------------------------------------------------------------ the reply of a Read at a C04 tractserver *)
Definition read_reply (cs : cstate) (h : Z) (tk : tkt) (ver len off : Z) : list Z :=
  match rget (s_reps (c_base cs)) (h, tk) with
  | None => [cl_ErrNoSuchTract]
  | Some r =>
      if negb (r_ver r =? ver) then [cl_ErrVersionMismatch]
      else if rmem (h, tk) (c_cor cs) then [cl_ErrCorruptData]
      else let hi := Z.min (off + len) (app_len (r_app r)) in
           let n := Z.max 0 (hi - off) in
           (if n =? len then cl_NoError else cl_ErrEOF) :: n :: flat_runs (render (r_app r) off hi)
  end.

Lemma c04_read_reply : forall cs e oracle, k_kind (p_rpc e) = K_Read ->
  exists cs', c04_exec_rpc cs e oracle =
                (cs', read_reply cs (k_ts (p_rpc e)) (tkey (k_blob (p_rpc e)) (k_tract (p_rpc e))) (k_ver (p_rpc e)) (k_len (p_rpc e)) (k_off (p_rpc e)), []) /\
              c_base cs' = c_base cs /\ c_cor cs' = c_cor cs.
Proof.
  intros cs e oracle K. unfold c04_exec_rpc, read_reply, hits_corruption. rewrite K. cbn [Z.eqb Pos.eqb orb].
  destruct (rget (s_reps (c_base cs)) (k_ts (p_rpc e), tkey (k_blob (p_rpc e)) (k_tract (p_rpc e)))) as [r|] eqn:G.
  - destruct (r_ver r =? k_ver (p_rpc e)) eqn:V; cbn [andb negb].
    + destruct (rmem _ (c_cor cs)) eqn:M.
      * eexists. split; [reflexivity|]. split; reflexivity.
      * unfold exec_rpc. rewrite K. cbn [Z.eqb Pos.eqb]. unfold ts_read. rewrite G, V. cbn [negb].
        destruct (Z.max 0 (Z.min (k_off (p_rpc e) + k_len (p_rpc e)) (app_len (r_app r)) - k_off (p_rpc e)) =? k_len (p_rpc e));
          cbn; eexists; (split; [reflexivity|]; split; reflexivity).
    + unfold exec_rpc. rewrite K. cbn [Z.eqb Pos.eqb]. unfold ts_read. rewrite G, V. cbn.
      eexists. split; [reflexivity|]. split; reflexivity.
  - unfold exec_rpc. rewrite K. cbn [Z.eqb Pos.eqb]. unfold ts_read. rewrite G. cbn.
    eexists. split; [reflexivity|]. split; reflexivity.
Qed.

(* ------------------------------------------------------------------ which events can take a good replica away *)
Definition keeps_reps (a b : list (rkey * replica)) : Prop :=
  forall k r, rget a k = Some r -> exists r1, rget b k = Some r1 /\ r_ver r <= r_ver r1.

Lemma keeps_reps_refl : forall a, keeps_reps a a.
Proof. intros a k r G. exists r. split; auto; lia. Qed.
Lemma keeps_reps_trans : forall a b c, keeps_reps a b -> keeps_reps b c -> keeps_reps a c.
Proof. intros a b c H1 H2 k r G. destruct (H1 _ _ G) as (r1 & G1 & L1). destruct (H2 _ _ G1) as (r2 & G2 & L2). exists r2. split; auto; lia. Qed.

Lemma keeps_reps_onekey : forall a b k0, (forall k, k <> k0 -> rget b k = rget a k) ->
  (forall r, rget a k0 = Some r -> exists r1, rget b k0 = Some r1 /\ r_ver r <= r_ver r1) -> keeps_reps a b.
Proof.
  intros a b k0 OTH AT k r G. destruct (rkey_dec k k0) as [E|N]; [subst; auto|]. exists r. rewrite OTH by exact N. split; auto; lia.
Qed.

(* a request other than PullTract, as the Cluster model executes it, removes no replica and lowers no version *)
Lemma exec_keeps : forall st e oracle st1 res tr, exec_rpc st e oracle = (st1, res, tr) ->
  k_kind (p_rpc e) <> K_PullTract -> keeps_reps (s_reps st) (s_reps st1).
Proof.
  intros st e oracle st1 res tr H NP. unfold exec_rpc in H.
  set (x := k_ts (p_rpc e)) in *. set (tk := tkey (k_blob (p_rpc e)) (k_tract (p_rpc e))) in *.
  destruct (k_kind (p_rpc e) =? K_Write).
  { destruct (ts_write _ _ _ _ _ _ _) as [reps c] eqn:W. inversion H; subst. cbn [s_reps set_reps].
    destruct (ts_write_frame _ _ _ _ _ _ _ _ _ W) as (A & B & C). apply (keeps_reps_onekey _ _ (x, tk)); auto.
    intros r G. destruct (C r G) as (r' & G' & V & _). exists r'. split; auto; lia. }
  destruct (k_kind (p_rpc e) =? K_Create).
  { destruct (ts_create _ _ _ _ _ _ _) as [reps c] eqn:W. inversion H; subst. cbn [s_reps set_reps].
    destruct (ts_create_frame _ _ _ _ _ _ _ _ _ W) as (A & B & C). apply (keeps_reps_onekey _ _ (x, tk)); auto.
    intros r G. destruct (B r G) as (r' & G' & V & _). exists r'. split; auto; lia. }
  destruct (k_kind (p_rpc e) =? K_Read).
  { destruct (ts_read _ _ _ _ _ _) as [[c n] runs]. inversion H; subst. apply keeps_reps_refl. }
  destruct (k_kind (p_rpc e) =? K_SetVersion).
  { destruct (ts_setversion _ _ _ _ _) as [reps c] eqn:W. inversion H; subst. cbn [s_reps set_reps].
    destruct (ts_setversion_frame _ _ _ _ _ _ _ W) as (A & B & C). apply (keeps_reps_onekey _ _ (x, tk)); auto.
    intros r G. destruct (C r G) as (r' & G' & _ & L & _). exists r'. auto. }
  destruct (k_kind (p_rpc e) =? K_PullTract) eqn:KP; [apply Z.eqb_eq in KP; contradiction|].
  assert (SAME : s_reps st1 = s_reps st).
  { destruct (k_kind (p_rpc e) =? K_StatBlob).
    { destruct (zget (s_blobs st) (k_blob (p_rpc e))) as [[a b]|]; inversion H; subst; reflexivity. }
    destruct (k_kind (p_rpc e) =? K_GetTracts). { destruct (exec_gettracts st (p_rpc e)). inversion H; subst; reflexivity. }
    destruct (k_kind (p_rpc e) =? K_ExtendBlob). { destruct (exec_extend st (p_rpc e) oracle). inversion H; subst; reflexivity. }
    destruct (k_kind (p_rpc e) =? K_AckExtend).
    { pose proof (reps_ack_extend st (k_blob (p_rpc e)) (decode_tracts false (k_aux (p_rpc e)))) as R.
      destruct (ack_extend _ _ _) as [s1 c]. inversion H; subst. exact R. }
    destruct (k_kind (p_rpc e) =? K_ReportBadTS); inversion H; subst; reflexivity. }
  rewrite SAME. apply keeps_reps_refl.
Qed.

Lemma c04_exec_keeps : forall cs e oracle cs1 res tr, c04_exec_rpc cs e oracle = (cs1, res, tr) ->
  k_kind (p_rpc e) <> K_PullTract -> c_cor cs1 = c_cor cs /\ keeps_reps (s_reps (c_base cs)) (s_reps (c_base cs1)).
Proof.
  intros cs e oracle cs1 res tr H NP. unfold c04_exec_rpc in H.
  assert (LIFT : lift3 cs (exec_rpc (c_base cs) e oracle) = (cs1, res, tr) ->
                 c_cor cs1 = c_cor cs /\ keeps_reps (s_reps (c_base cs)) (s_reps (c_base cs1))).
  { intro Y. destruct (exec_rpc (c_base cs) e oracle) as [[st1 r1] t1] eqn:X. cbn in Y. inversion Y; subst. cbn.
    split; auto. eapply exec_keeps; eauto. }
  assert (FAIL : forall fl', (set_fl cs fl', [cl_ErrCorruptData], @nil (Z * Z * list (Z * Z))) = (cs1, res, tr) ->
                 c_cor cs1 = c_cor cs /\ keeps_reps (s_reps (c_base cs)) (s_reps (c_base cs1))).
  { intros fl' Y. inversion Y; subst. cbn. split; auto. apply keeps_reps_refl. }
  destruct ((k_kind (p_rpc e) =? K_Read) || (k_kind (p_rpc e) =? K_Write)).
  { destruct (hits_corruption cs _ _ _); eauto. }
  destruct (k_kind (p_rpc e) =? K_Create).
  { destruct (_ && _); eauto. }
  destruct (k_kind (p_rpc e) =? K_PullTract) eqn:KP; [apply Z.eqb_eq in KP; contradiction|]. auto.
Qed.

Lemma step_exec_keeps : forall st mode r rp r1, parse_rpc r = Some (rp, r1) -> k_kind rp <> K_PullTract ->
  keeps_reps (s_reps st) (s_reps (fst (step_exec st mode r))).
Proof.
  intros st mode r rp r1 P NP. unfold step_exec. rewrite P.
  destruct r1 as [|nh r2]; [apply keeps_reps_refl|].
  destruct (take nh r2) as [place r3].
  destruct (find_pent (s_pool st) rp 0) as [e|] eqn:F; [|apply keeps_reps_refl].
  pose proof (find_pent_eq _ _ _ _ F) as ERP.
  destruct (mode =? 4). { cbn [fst]. rewrite reps_flush, reps_resume. apply keeps_reps_refl. }
  destruct (mode =? 6).
  { destruct (negb (k_kind rp =? K_PullTract)) eqn:Q; [apply keeps_reps_refl|].
    apply negb_false_iff in Q. apply Z.eqb_eq in Q. contradiction. }
  destruct (k_kind rp =? K_FixVersion).
  { cbn [fst]. rewrite reps_flush, reps_start_task. apply keeps_reps_refl. }
  destruct (exec_rpc st e place) as [[st1 res] tr] eqn:X1.
  assert (NPe : k_kind (p_rpc e) <> K_PullTract) by (rewrite ERP; exact NP).
  pose proof (exec_keeps _ _ _ _ _ _ X1 NPe) as K1.
  destruct (mode =? 3).
  - destruct (exec_rpc st1 e place) as [[st1b res2] tr2] eqn:X2. cbn [fst]. rewrite reps_flush. cbn [s_reps set_pool].
    eapply keeps_reps_trans; [exact K1 | eapply exec_keeps; eauto].
  - cbn [fst]. rewrite reps_flush. exact K1.
Qed.

Lemma c04_step_exec_keeps : forall cs mode r rp r1, parse_rpc r = Some (rp, r1) -> k_kind rp <> K_PullTract ->
  c_cor (fst (c04_step_exec cs mode r)) = c_cor cs /\
  keeps_reps (s_reps (c_base cs)) (s_reps (c_base (fst (c04_step_exec cs mode r)))).
Proof.
  intros cs mode r rp r1 P NP. unfold c04_step_exec. rewrite P.
  destruct r1 as [|nh r2]; [split; auto using keeps_reps_refl|].
  destruct (take nh r2) as [place r3].
  destruct (find_pent (s_pool (c_base cs)) rp 0) as [e|] eqn:F; [|split; auto using keeps_reps_refl].
  pose proof (find_pent_eq _ _ _ _ F) as ERP.
  destruct (mode =? 6).
  { destruct (negb (k_kind rp =? K_PullTract)) eqn:Q; [split; auto using keeps_reps_refl|].
    apply negb_false_iff in Q. apply Z.eqb_eq in Q. contradiction. }
  assert (NPe : k_kind (p_rpc e) <> K_PullTract) by (rewrite ERP; exact NP).
  destruct (c04_exec_rpc cs e place) as [[cs1 res] tr] eqn:X1.
  destruct (c04_exec_keeps _ _ _ _ _ _ X1 NPe) as [C1 K1].
  destruct (mode =? 3).
  - destruct (c04_exec_rpc cs1 e place) as [[cs2 res2] tr2] eqn:X2. cbn [fst].
    destruct (c04_exec_keeps _ _ _ _ _ _ X2 NPe) as [C2 K2]. cbn [c_cor set_base c_base]. rewrite reps_flush. cbn [s_reps set_pool].
    split; [congruence | eapply keeps_reps_trans; eauto].
  - cbn [fst c_cor set_base c_base]. rewrite reps_flush. cbn [s_reps set_pool]. split; auto.
Qed.

(* THE STEP: a replica that is present and undamaged stays present and undamaged, at the same or a higher
   version, through every event except (1) a corrupt/delete fault that names it and (2) the execution of a
   PullTract addressed to it *)
Theorem good_replica_kept : forall cs ev k r,
  rget (s_reps (c_base cs)) k = Some r -> rmem k (c_cor cs) = false ->
  let cs' := fst (cstep cs ev) in
  (exists r', rget (s_reps (c_base cs')) k = Some r' /\ r_ver r <= r_ver r' /\ rmem k (c_cor cs') = false) \/
  (exists ts b t, (ev = [60; ts; b; t] \/ ev = [61; ts; b; t]) /\ k = (ts, tkey b t)) \/
  (exists mode rest rp r1, ev = 7 :: mode :: rest /\ parse_rpc rest = Some (rp, r1) /\ mode <> 4 /\
                           k_kind rp = K_PullTract /\ k = rpc_key_of rp).
Proof.
  intros cs ev k r G M cs'. subst cs'.
  destruct (cstep_frame_holds cs ev) as [[A B]|[(ts & b & t & E & SE & CS)|(mode & rest & rp & r1 & E & P & N & SE & CS)]].
  - left. exists r. rewrite A, B. split; auto. split; auto; lia.
  - destruct (rkey_dec k (ts, tkey b t)) as [EQ|NK].
    + right; left. exists ts, b, t. auto.
    + left. exists r. rewrite (SE k NK), (CS k NK). split; auto. split; auto; lia.
  - destruct (rkey_dec k (rpc_key_of rp)) as [EQ|NK].
    2:{ left. exists r. rewrite (SE k NK), (CS k NK). split; auto. split; auto; lia. }
    destruct (Z.eq_dec (k_kind rp) K_PullTract) as [KP|NP].
    { right; right. exists mode, rest, rp, r1. auto. }
    left. subst ev. unfold cstep. cbn [Z.eqb Pos.eqb]. rewrite P.
    destruct (C04.Model.data_kind (k_kind rp) && negb (mode =? 4)) eqn:D.
    + destruct (c04_step_exec_keeps (set_base cs (set_out (c_base cs) [])) mode rest rp r1 P NP) as [C1 K1].
      cbn [c_base set_base c_cor] in C1, K1. destruct (K1 _ _ G) as (r' & G' & L'). exists r'. rewrite C1. auto.
    + unfold lift_step. cbn [step]. cbn [Z.eqb Pos.eqb].
      pose proof (step_exec_keeps (set_out (c_base cs) []) mode rest rp r1 P NP) as K1.
      destruct (step_exec (set_out (c_base cs) []) mode rest) as [st o]. cbn [fst c_base set_base c_cor] in *.
      destruct (K1 _ _ G) as (r' & G' & L'). exists r'. auto.
Qed.

(* ------------------------------------------------------------------ the premise along a schedule, and its preservation *)
Lemma premise_run : forall L evs cs, c04_ok_run L cs evs = true -> premise cs = true -> premise (crun_state cs evs) = true.
Proof.
  induction evs as [|ev evs IH]; intros cs OK P; [exact P|].
  cbn in OK. apply andb_true_iff in OK as [OK OK2]. apply andb_true_iff in OK as [_ P1]. cbn [crun_state]. now apply IH.
Qed.

Lemma rec_eq_dec : forall a b : option (Z * list Z), {a = b} + {a <> b}.
Proof. decide equality. decide equality; [apply (list_eq_dec Z.eq_dec) | apply Z.eq_dec]. Qed.

(* an intact current replica stays intact and current through every admissible event, unless a fault names it, a
   PullTract addressed to it executes, or the event commits a new durable record for its tract *)
Theorem intact_replica_kept : forall L cs ev tk dv H h,
  c04_ok_ev L cs ev = true -> GL (c_base cs) ->
  tget (s_dtr (c_base cs)) tk = Some (dv, H) -> In h H -> intact_current cs tk dv h = true ->
  let cs' := fst (cstep cs ev) in
  (tget (s_dtr (c_base cs')) tk = Some (dv, H) /\ intact_current cs' tk dv h = true) \/
  (exists ts b t, (ev = [60; ts; b; t] \/ ev = [61; ts; b; t]) /\ (h, tk) = (ts, tkey b t)) \/
  (exists mode rest rp r1, ev = 7 :: mode :: rest /\ parse_rpc rest = Some (rp, r1) /\ mode <> 4 /\
                           k_kind rp = K_PullTract /\ (h, tk) = rpc_key_of rp) \/
  tget (s_dtr (c_base cs')) tk <> Some (dv, H).
Proof.
  intros L cs ev tk dv H h OK GS E I IC cs'.
  pose proof (c04_cstep_GL L cs ev OK GS) as GS'. fold cs' in GS'.
  destruct (rec_eq_dec (tget (s_dtr (c_base cs')) tk) (Some (dv, H))) as [E'|NE]; [|right; right; right; exact NE].
  rewrite (intact_is_undamaged_current cs tk dv H h GS E I) in IC. unfold undamaged_current in IC.
  destruct (rget (s_reps (c_base cs)) (h, tk)) as [r|] eqn:G; [|discriminate IC].
  apply andb_true_iff in IC as [LV NC]. apply Z.leb_le in LV. apply negb_true_iff in NC.
  destruct (good_replica_kept cs ev (h, tk) r G NC) as [(r' & G' & L' & NC')|[F|P]]; [|right; left; exact F | right; right; left; exact P].
  left. split; [exact E'|]. rewrite (intact_is_undamaged_current cs' tk dv H h GS' E' I). unfold undamaged_current.
  fold cs' in G', NC'. rewrite G', NC'. cbn. apply andb_true_iff. split; [apply Z.leb_le; lia | reflexivity].
Qed.

(* damage marks come from corrupt faults only *)
Lemma rmem_rrem_sub : forall l k k', rmem k' (rrem l k) = true -> rmem k' l = true.
Proof.
  induction l as [|x l IH]; intros k k' H; cbn in *; [exact H|].
  destruct (rk_eqb k x); cbn in H; [apply orb_true_iff; right; eapply IH; eauto|].
  apply orb_true_iff in H as [H|H]; apply orb_true_iff; [left; exact H | right; eapply IH; eauto].
Qed.

Definition cor_sub (cor cor' : list rkey) : Prop := forall k, rmem k cor' = true -> rmem k cor = true.

Lemma c04_pull_once_cor_sub : forall reps cor fl nts x tk ver src reps1 cor1 fl1 c,
  c04_pull_once reps cor fl nts x tk ver src = (reps1, cor1, fl1, c) -> cor_sub cor cor1.
Proof.
  intros reps cor fl nts x tk ver src reps1 cor1 fl1 c H. unfold c04_pull_once in H.
  assert (RR : cor_sub cor (rrem cor (x, tk))) by (intros k Y; eapply rmem_rrem_sub; eauto).
  assert (ID : cor_sub cor cor) by (intros k Y; exact Y).
  destruct (rget reps (x, tk)) as [r|].
  - destruct (ver <? r_ver r); [inversion H; subst; exact ID|].
    destruct ((src <=? 0) || (nts <? src)); [inversion H; subst; exact RR|].
    destruct (rget (rdel reps (x, tk)) (src, tk)) as [s|]; [|inversion H; subst; exact RR].
    destruct (r_ver s =? ver); [|inversion H; subst; exact RR].
    destruct (rmem (src, tk) (rrem cor (x, tk))); inversion H; subst; exact RR.
  - destruct ((src <=? 0) || (nts <? src)); [inversion H; subst; exact RR|].
    destruct (rget reps (src, tk)) as [s|]; [|inversion H; subst; exact RR].
    destruct (r_ver s =? ver); [|inversion H; subst; exact RR].
    destruct (rmem (src, tk) (rrem cor (x, tk))); inversion H; subst; exact RR.
Qed.

Lemma c04_pull_loop_cor_sub : forall srcs reps cor fl nts x tk ver last reps1 cor1 fl1 c,
  c04_pull_loop reps cor fl nts x tk ver srcs last = (reps1, cor1, fl1, c) -> cor_sub cor cor1.
Proof.
  induction srcs as [|s l IH]; intros reps cor fl nts x tk ver last reps1 cor1 fl1 c H; cbn in H.
  - inversion H; subst. intros k Y; exact Y.
  - destruct (c04_pull_once reps cor fl nts x tk ver s) as [[[r' c'] f'] e] eqn:P. apply c04_pull_once_cor_sub in P.
    destruct (e =? cl_NoError); [inversion H; subst; exact P|]. intros k Y. apply P. eapply IH; eauto.
Qed.

Lemma c04_pull_crash_cor_sub : forall srcs reps cor fl nts x tk ver reps1 cor1 fl1,
  c04_pull_crash reps cor fl nts x tk ver srcs = (reps1, cor1, fl1) -> cor_sub cor cor1.
Proof.
  induction srcs as [|s l IH]; intros reps cor fl nts x tk ver reps1 cor1 fl1 H; cbn in H.
  - inversion H; subst. intros k Y; exact Y.
  - destruct (c04_pull_once reps cor fl nts x tk ver s) as [[[r' c'] f'] e] eqn:P. apply c04_pull_once_cor_sub in P.
    destruct (e =? cl_NoError); [inversion H; subst; exact P|]. intros k Y. apply P. eapply IH; eauto.
Qed.

Lemma c04_exec_cor_sub : forall cs e oracle cs1 res tr, c04_exec_rpc cs e oracle = (cs1, res, tr) -> cor_sub (c_cor cs) (c_cor cs1).
Proof.
  intros cs e oracle cs1 res tr H.
  destruct (Z.eq_dec (k_kind (p_rpc e)) K_PullTract) as [KP|NP].
  - unfold c04_exec_rpc in H. rewrite KP in H. cbn [Z.eqb Pos.eqb orb] in H.
    destruct (c04_pull _ _ _ _ _ _ _ _ _) as [[[reps cor] fl] c] eqn:P. inversion H; subst. cbn.
    unfold c04_pull in P. destruct (negb _); [inversion P; subst; intros k Y; exact Y|]. eapply c04_pull_loop_cor_sub; eauto.
  - destruct (c04_exec_keeps _ _ _ _ _ _ H NP) as [C _]. rewrite C. intros k Y; exact Y.
Qed.

Lemma c04_step_exec_cor_sub : forall cs mode r, cor_sub (c_cor cs) (c_cor (fst (c04_step_exec cs mode r))).
Proof.
  intros cs mode r. assert (ID : cor_sub (c_cor cs) (c_cor cs)) by (intros k Y; exact Y).
  unfold c04_step_exec. destruct (parse_rpc r) as [[rp r1]|]; [|exact ID].
  destruct r1 as [|nh r2]; [exact ID|]. destruct (take nh r2) as [place r3].
  destruct (find_pent (s_pool (c_base cs)) rp 0) as [e|]; [|exact ID].
  destruct (mode =? 6).
  { destruct (negb (k_kind rp =? K_PullTract)); [exact ID|].
    destruct (k_ts rp =? aux_nth rp 0).
    - destruct (c04_pull_crash _ _ _ _ _ _ _ _) as [[reps' cor'] fl'] eqn:C. cbn. eapply c04_pull_crash_cor_sub; eauto.
    - exact ID. }
  destruct (c04_exec_rpc cs e place) as [[cs1 res] tr] eqn:X1. pose proof (c04_exec_cor_sub _ _ _ _ _ _ X1) as S1.
  destruct (mode =? 3).
  - destruct (c04_exec_rpc cs1 e place) as [[cs2 res2] tr2] eqn:X2. pose proof (c04_exec_cor_sub _ _ _ _ _ _ X2) as S2.
    cbn. intros k Y. apply S1, S2, Y.
  - cbn. exact S1.
Qed.

Lemma lift_cor : forall cs ev, c_cor (fst (lift_step cs ev)) = c_cor cs.
Proof. intros. unfold lift_step. destruct (step (c_base cs) ev). reflexivity. Qed.

Lemma rmem_radd_cases : forall l k k', rmem k' (radd l k) = true -> rmem k' l = true \/ k' = k.
Proof.
  intros l k k' H. destruct (rkey_dec k' k) as [E|N]; [right; exact E|]. left. rewrite rmem_radd_other in H by exact N. exact H.
Qed.

Theorem damage_only_from_faults : forall cs ev k,
  rmem k (c_cor (fst (cstep cs ev))) = true ->
  rmem k (c_cor cs) = true \/ exists ts b t, ev = [60; ts; b; t] /\ k = (ts, tkey b t).
Proof.
  intros cs ev k Y. unfold cstep in Y. destruct ev as [|c a]; [left; exact Y|].
  destruct (c =? 7).
  { left. destruct a as [|mode r]; [rewrite lift_cor in Y; exact Y|].
    destruct (parse_rpc r) as [[rp r1]|]; [|rewrite lift_cor in Y; exact Y].
    destruct (_ && _); [|rewrite lift_cor in Y; exact Y].
    exact (c04_step_exec_cor_sub (set_base cs (set_out (c_base cs) [])) mode r k Y). }
  destruct (c =? 9).
  { left. pose proof (lift_cor cs (c :: a)) as LC. destruct (lift_step cs (c :: a)) as [cs1 o]. cbn [fst] in LC.
    destruct a as [|ts [|y a]]; cbn in Y; rewrite <- LC; exact Y. }
  destruct (c =? 10).
  { left. pose proof (lift_cor cs (c :: a)) as LC. destruct (lift_step cs (c :: a)) as [cs1 o]. cbn [fst] in LC. cbn in Y. rewrite <- LC; exact Y. }
  destruct (c =? 15).
  { left. pose proof (lift_cor cs (c :: a)) as LC. destruct (lift_step cs (c :: a)) as [cs1 o]. cbn [fst] in LC. rewrite <- LC.
    destruct a as [|op [|y a]]; try exact Y. destruct o as [|cc [|z o]]; try exact Y.
    destruct (zget (c_rops cs1) op); try exact Y. destruct (0 <=? cc); exact Y. }
  destruct (c =? 60) eqn:C60.
  { apply Z.eqb_eq in C60. subst c. destruct a as [|ts [|b [|t [|z a]]]]; try (left; exact Y). unfold ev_corrupt in Y.
    destruct (rget _ _); [|left; exact Y]. cbn in Y. apply rmem_radd_cases in Y as [Y|Y]; [left; exact Y|].
    right. exists ts, b, t. auto. }
  destruct (c =? 61).
  { left. destruct a as [|ts [|b [|t [|z a]]]]; try exact Y. unfold ev_delete in Y.
    destruct (rget _ _); [|exact Y]. cbn in Y. eapply rmem_rrem_sub; eauto. }
  destruct (c =? 62).
  { left. destruct a as [|ts [|b [|t [|z a]]]]; try exact Y. unfold ev_scrub in Y.
    destruct (rget _ _); try exact Y. destruct (rmem (ts, tkey b t) (c_cor cs)); exact Y. }
  destruct (c =? 63).
  { left. destruct a as [|ts [|z a]]; exact Y. }
  destruct (c =? 64). { left. destruct a as [|ts [|z a]]; exact Y. }
  destruct (c =? 65). { left. destruct a as [|ts [|h [|z a]]]; exact Y. }
  destruct (c =? 66).
  { left. destruct a; try exact Y. cbn [fst ev_detect] in Y. destruct (rec_detect_disk cs) as (_ & B & _). rewrite B in Y. exact Y. }
  destruct (c =? 67).
  { left. unfold ev_pop in Y. destruct a as [|op [|gen [|blob [|tract [|nbad r]]]]]; try exact Y.
    destruct (ent_get (c_rent cs) (tkey blob tract)) as [en|]; [|exact Y].
    match type of Y with context [if ?B then _ else _] => destruct B end; [exact Y|].
    rewrite lift_cor in Y. exact Y. }
  left. rewrite lift_cor in Y. exact Y.
Qed.

(* ------------------------------------------------------------------ the run-level statement *)
Lemma c04_no_loss_run : forall evs,
  c04_ok_run 4 cinit evs = true ->
  let cs := crun_state cinit evs in
  (forall b t h p, 0 <= p < TL -> vis_ok (c_base cs) b t h p = true) /\
  (forall tk dv H, tget (s_dtr (c_base cs)) tk = Some (dv, H) ->
     (exists h r, In h H /\ rget (s_reps (c_base cs)) (h, tk) = Some r /\ rmem (h, tk) (c_cor cs) = false /\
                  dv <= r_ver r <= dv + 1 /\ holds_acked (c_base cs) tk r = true) /\
     (forall h r, In h H -> rget (s_reps (c_base cs)) (h, tk) = Some r ->
                  dv <= r_ver r <= dv + 1 /\ holds_acked (c_base cs) tk r = true)) /\
  (forall e oracle, k_kind (p_rpc e) = K_Read ->
     exists cs', c04_exec_rpc cs e oracle =
                   (cs', read_reply cs (k_ts (p_rpc e)) (tkey (k_blob (p_rpc e)) (k_tract (p_rpc e))) (k_ver (p_rpc e)) (k_len (p_rpc e)) (k_off (p_rpc e)), []) /\
                 c_base cs' = c_base cs /\ c_cor cs' = c_cor cs) /\
  (forall ev tk dv H h, c04_ok_ev 4 cs ev = true ->
     tget (s_dtr (c_base cs)) tk = Some (dv, H) -> In h H -> intact_current cs tk dv h = true ->
     let cs' := fst (cstep cs ev) in
     (tget (s_dtr (c_base cs')) tk = Some (dv, H) /\ intact_current cs' tk dv h = true) \/
     (exists ts b t, (ev = [60; ts; b; t] \/ ev = [61; ts; b; t]) /\ (h, tk) = (ts, tkey b t)) \/
     (exists mode rest rp r1, ev = 7 :: mode :: rest /\ parse_rpc rest = Some (rp, r1) /\ mode <> 4 /\
                              k_kind rp = K_PullTract /\ (h, tk) = rpc_key_of rp) \/
     tget (s_dtr (c_base cs')) tk <> Some (dv, H)).
Proof.
  intros evs OK cs.
  pose proof (c04_GL_reachable 4 evs (c04_ok_run_sched 4 evs cinit OK)) as GS. fold cs in GS.
  pose proof (premise_run 4 evs cinit OK eq_refl) as PR. fold cs in PR.
  split; [intros b t h p P; now apply GL_vis|]. split; [|split; [intros e oracle K; now apply c04_read_reply|]].
  - intros tk dv H E.
    assert (ALL : forall h r, In h H -> rget (s_reps (c_base cs)) (h, tk) = Some r ->
                    dv <= r_ver r <= dv + 1 /\ holds_acked (c_base cs) tk r = true).
    { intros h r I G. pose proof (GL_lower _ _ _ _ _ _ GS E I G) as LO. pose proof (GL_upper _ _ _ _ _ _ GS E G) as UP.
      split; [lia|]. apply (GL_holds_acked _ _ dv H h r GS E G). destruct (Z.eq_dec (r_ver r) dv); [left; auto | right; lia]. }
    split; [|exact ALL].
    destruct (premise_host cs tk dv H PR E) as (h & I & IC). unfold intact_current, undamaged_current in IC.
    destruct (rget (s_reps (c_base cs)) (h, tk)) as [r|] eqn:G; [|discriminate IC].
    apply andb_true_iff in IC as [IC _]. apply andb_true_iff in IC as [_ NC]. apply negb_true_iff in NC.
    exists h, r. destruct (ALL h r I G) as [V HA]. auto.
  - intros ev tk dv H h OKE E I IC. exact (intact_replica_kept 4 cs ev tk dv H h OKE GS E I IC).
Qed.


Lemma repair_never_degrades_run :
  (forall cs ev k r,
     rget (s_reps (c_base cs)) k = Some r -> rmem k (c_cor cs) = false ->
     let cs' := fst (cstep cs ev) in
     (exists r', rget (s_reps (c_base cs')) k = Some r' /\ r_ver r <= r_ver r' /\ rmem k (c_cor cs') = false) \/
     (exists ts b t, (ev = [60; ts; b; t] \/ ev = [61; ts; b; t]) /\ k = (ts, tkey b t)) \/
     (exists mode rest rp r1, ev = 7 :: mode :: rest /\ parse_rpc rest = Some (rp, r1) /\ mode <> 4 /\
                              k_kind rp = K_PullTract /\ k = rpc_key_of rp)) /\
  (forall cs ev k,
     rmem k (c_cor (fst (cstep cs ev))) = true ->
     rmem k (c_cor cs) = true \/ exists ts b t, ev = [60; ts; b; t] /\ k = (ts, tkey b t)) /\
  (forall evs ev, c04_sched 4 cinit evs = true ->
     let cs := crun_state cinit evs in
     c04_ok_ev 4 cs ev = true ->
     let cs' := fst (cstep cs ev) in
     forall tk dv' H', tget (s_dtr (c_base cs')) tk = Some (dv', H') -> tget (s_dtr (c_base cs)) tk <> Some (dv', H') ->
     forall h r', In h H' -> rget (s_reps (c_base cs')) (h, tk) = Some r' ->
       dv' <= r_ver r' <= dv' + 1 /\ holds_acked (c_base cs') tk r' = true /\
       (rmem (h, tk) (c_cor cs') = true ->
        rmem (h, tk) (c_cor cs) = true \/ exists ts b t, ev = [60; ts; b; t] /\ (h, tk) = (ts, tkey b t))).
Proof.
  split; [exact good_replica_kept|]. split; [exact damage_only_from_faults|].
  intros evs ev OK cs OKE cs' tk dv' H' E' _ h r' I G'.
  pose proof (c04_GL_reachable 4 evs OK) as GS. fold cs in GS.
  pose proof (c04_cstep_GL 4 cs ev OKE GS) as GS'. fold cs' in GS'.
  pose proof (GL_lower _ _ _ _ _ _ GS' E' I G') as LO. pose proof (GL_upper _ _ _ _ _ _ GS' E' G') as UP.
  split; [lia|]. split.
  - apply (GL_holds_acked _ _ dv' H' h r' GS' E' G'). destruct (Z.eq_dec (r_ver r') dv'); [left; auto | right; lia].
  - intro M. exact (damage_only_from_faults cs ev (h, tk) M).
Qed.
