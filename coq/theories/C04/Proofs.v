(* C04/Proofs.v — lemmas about the C04 model (Store with checksum failures, frame of every event,
   refusal, fault events vs the visibility predicate). *)
From Coq Require Import List ZArith Bool Lia.
From BLB Require Import Gen.Consts Cluster.Model Cluster.Proofs Cluster.Frame C04.Model.
Import ListNotations.
Open Scope Z_scope.

(* ------------------------------------------------------------------ sets of replica keys *)
Lemma rmem_rrem_other : forall l k k', k' <> k -> rmem k' (rrem l k) = rmem k' l.
Proof.
  induction l as [|x l IH]; intros k k' H; cbn; [reflexivity|].
  destruct (rk_eqb k x) eqn:E; cbn.
  - apply rk_eqb_eq in E; subst x. rewrite (rk_eqb_neq k' k H). cbn. now apply IH.
  - f_equal. now apply IH.
Qed.

Lemma rmem_rrem_same : forall l k, rmem k (rrem l k) = false.
Proof.
  induction l as [|x l IH]; intros k; cbn; [reflexivity|].
  destruct (rk_eqb k x) eqn:E; cbn; [apply IH|]. rewrite E. cbn. apply IH.
Qed.

Lemma rmem_radd_other : forall l k k', k' <> k -> rmem k' (radd l k) = rmem k' l.
Proof.
  intros l k k' H. unfold radd. destruct (rmem k l); [reflexivity|]. cbn. now rewrite (rk_eqb_neq k' k H).
Qed.

Lemma rmem_radd_same : forall l k, rmem k (radd l k) = true.
Proof.
  intros l k. unfold radd. destruct (rmem k l) eqn:E; [exact E|]. cbn. now rewrite rk_eqb_refl.
Qed.

(* ------------------------------------------------------------------ PullTract with checksum failures *)
(* corruption marks outside the destination are untouched *)
Definition cor_same (cor cor' : list rkey) (k : rkey) : Prop := forall k', k' <> k -> rmem k' cor' = rmem k' cor.

Lemma cor_same_refl : forall c k, cor_same c c k.
Proof. intros c k k' _. reflexivity. Qed.
Lemma cor_same_trans : forall a b c k, cor_same a b k -> cor_same b c k -> cor_same a c k.
Proof. intros a b c k H1 H2 k' Hk. rewrite (H2 k' Hk). now apply H1. Qed.

(* what one pull attempt from one source does *)
Definition pull_once_post (reps : list (rkey * replica)) (cor : list rkey) (ts : Z) (tk : tkt) (ver src : Z)
                          (reps' : list (rkey * replica)) (cor' : list rkey) (e : Z) : Prop :=
  same_except reps reps' (ts, tk) /\ cor_same cor cor' (ts, tk) /\
  (e = cl_NoError ->
     exists s, src <> ts /\ rget reps (src, tk) = Some s /\ r_ver s = ver /\ rmem (src, tk) cor = false /\
               rget reps' (ts, tk) = Some {| r_ver := ver; r_app := r_app s |} /\ rmem (ts, tk) cor' = false) /\
  (e <> cl_NoError ->
     (rget reps' (ts, tk) = None /\ rmem (ts, tk) cor' = false) \/
     (reps' = reps /\ cor' = cor /\ exists r, rget reps (ts, tk) = Some r /\ ver < r_ver r)).

Lemma key_neq_ts : forall (a b : Z) (tk : tkt), a <> b -> (a, tk) <> (b, tk).
Proof. intros a b tk H E. inversion E. contradiction. Qed.

Lemma c04_pull_once_post : forall reps cor fl nts ts tk ver src reps' cor' fl' e,
  c04_pull_once reps cor fl nts ts tk ver src = (reps', cor', fl', e) ->
  pull_once_post reps cor ts tk ver src reps' cor' e.
Proof.
  intros reps cor fl nts ts tk ver src reps' cor' fl' e H. unfold c04_pull_once in H. unfold pull_once_post.
  assert (NE : cl_ErrInvalidState <> cl_NoError) by (vm_compute; discriminate).
  assert (NR : cl_ErrRPC <> cl_NoError) by (vm_compute; discriminate).
  assert (NT : cl_ErrNoSuchTract <> cl_NoError) by (vm_compute; discriminate).
  assert (NC : cl_ErrCorruptData <> cl_NoError) by (vm_compute; discriminate).
  assert (NV : cl_ErrVersionMismatch <> cl_NoError) by (vm_compute; discriminate).
  destruct (rget reps (ts, tk)) as [r|] eqn:G.
  - destruct (ver <? r_ver r) eqn:V.
    + inversion H; subst. split; [apply same_except_refl|]. split; [apply cor_same_refl|]. split; [intro X; congruence|].
      intros _. right. split; [reflexivity|]. split; [reflexivity|]. exists r. split; [reflexivity|]. now apply Z.ltb_lt.
    + assert (SE : same_except reps (rdel reps (ts, tk)) (ts, tk)) by (intros k' Hk; now apply rget_rdel_other).
      assert (CS : cor_same cor (rrem cor (ts, tk)) (ts, tk)) by (intros k' Hk; now apply rmem_rrem_other).
      destruct ((src <=? 0) || (nts <? src)).
      { inversion H; subst. split; [exact SE|]. split; [exact CS|]. split; [intro X; congruence|].
        intros _. left. split; [apply rget_rdel_same | apply rmem_rrem_same]. }
      destruct (rget (rdel reps (ts, tk)) (src, tk)) as [s|] eqn:GS.
      * destruct (r_ver s =? ver) eqn:VS.
        -- destruct (rmem (src, tk) (rrem cor (ts, tk))) eqn:MC.
           ++ inversion H; subst. split; [exact SE|]. split; [exact CS|]. split; [intro X; congruence|].
              intros _. left. split; [apply rget_rdel_same | apply rmem_rrem_same].
           ++ inversion H; subst. split.
              { intros k' Hk. rewrite rget_rset_other by auto. now apply rget_rdel_other. }
              split; [exact CS|]. split.
              { intros _. assert (NS : src <> ts).
                { intro E; subst src. rewrite rget_rdel_same in GS. discriminate. }
                exists s. split; [exact NS|]. split.
                { rewrite <- GS. symmetry. apply rget_rdel_other. now apply key_neq_ts. }
                split; [now apply Z.eqb_eq|]. split.
                { rewrite <- MC. symmetry. apply rmem_rrem_other. now apply key_neq_ts. }
                split; [apply rget_rset_same | apply rmem_rrem_same]. }
              { intro X. exfalso. now apply X. }
        -- inversion H; subst. split; [exact SE|]. split; [exact CS|]. split; [intro X; congruence|].
           intros _. left. split; [apply rget_rdel_same | apply rmem_rrem_same].
      * inversion H; subst. split; [exact SE|]. split; [exact CS|]. split; [intro X; congruence|].
        intros _. left. split; [apply rget_rdel_same | apply rmem_rrem_same].
  - assert (CS : cor_same cor (rrem cor (ts, tk)) (ts, tk)) by (intros k' Hk; now apply rmem_rrem_other).
    destruct ((src <=? 0) || (nts <? src)).
    { inversion H; subst. split; [apply same_except_refl|]. split; [exact CS|]. split; [intro X; congruence|].
      intros _. left. split; [exact G | apply rmem_rrem_same]. }
    destruct (rget reps (src, tk)) as [s|] eqn:GS.
    + destruct (r_ver s =? ver) eqn:VS.
      * destruct (rmem (src, tk) (rrem cor (ts, tk))) eqn:MC.
        -- inversion H; subst. split; [apply same_except_refl|]. split; [exact CS|]. split; [intro X; congruence|].
           intros _. left. split; [exact G | apply rmem_rrem_same].
        -- inversion H; subst. split.
           { intros k' Hk. now apply rget_rset_other. }
           split; [exact CS|]. split.
           { intros _. assert (NS : src <> ts).
             { intro E; subst src. rewrite G in GS. discriminate. }
             exists s. split; [exact NS|]. split; [first [exact GS | reflexivity]|].
             split; [now apply Z.eqb_eq|]. split.
             { rewrite <- MC. symmetry. apply rmem_rrem_other. now apply key_neq_ts. }
             split; [apply rget_rset_same | apply rmem_rrem_same]. }
           { intro X. exfalso. now apply X. }
      * inversion H; subst. split; [apply same_except_refl|]. split; [exact CS|]. split; [intro X; congruence|].
        intros _. left. split; [exact G | apply rmem_rrem_same].
    + inversion H; subst. split; [apply same_except_refl|]. split; [exact CS|]. split; [intro X; congruence|].
      intros _. left. split; [exact G | apply rmem_rrem_same].
Qed.

(* the whole PullTract: sources tried in turn *)
Definition pull_post (reps : list (rkey * replica)) (cor : list rkey) (ts : Z) (tk : tkt) (ver : Z) (srcs : list Z)
                     (reps' : list (rkey * replica)) (cor' : list rkey) (e : Z) : Prop :=
  same_except reps reps' (ts, tk) /\ cor_same cor cor' (ts, tk) /\
  (e = cl_NoError ->
     (reps' = reps /\ cor' = cor /\ srcs = []) \/
     exists src s, In src srcs /\ src <> ts /\ rget reps (src, tk) = Some s /\ r_ver s = ver /\ rmem (src, tk) cor = false /\
                   rget reps' (ts, tk) = Some {| r_ver := ver; r_app := r_app s |} /\ rmem (ts, tk) cor' = false) /\
  (e <> cl_NoError -> rget reps' (ts, tk) = None \/ (reps' = reps /\ cor' = cor)).

Lemma c04_pull_loop_post : forall srcs reps cor fl nts ts tk ver last reps' cor' fl' e,
  c04_pull_loop reps cor fl nts ts tk ver srcs last = (reps', cor', fl', e) ->
  pull_post reps cor ts tk ver srcs reps' cor' e /\ (srcs = [] -> e = last).
Proof.
  induction srcs as [|s0 srcs IH]; intros reps cor fl nts ts tk ver last reps' cor' fl' e H.
  - cbn in H. inversion H; subst. split; [|auto]. split; [apply same_except_refl|]. split; [apply cor_same_refl|].
    split; [intros _; left; auto | intros _; right; auto].
  - cbn in H. destruct (c04_pull_once reps cor fl nts ts tk ver s0) as [[[r1 c1] f1] e1] eqn:P.
    apply c04_pull_once_post in P. destruct P as (SE1 & CS1 & OK1 & KO1).
    destruct (e1 =? cl_NoError) eqn:E1.
    + apply Z.eqb_eq in E1. inversion H; subst. split; [|intro X; discriminate].
      split; [exact SE1|]. split; [exact CS1|]. split.
      * intros _. right. destruct (OK1 eq_refl) as (s & A1 & A2 & A3 & A4 & A5 & A6).
        exists s0, s. split; [left; reflexivity|]. repeat split; assumption.
      * intro X. exfalso. now apply X.
    + apply Z.eqb_neq in E1. apply IH in H. destruct H as ((SE2 & CS2 & OK2 & KO2) & LAST). split; [|intro X; discriminate].
      split; [eapply same_except_trans; eauto|]. split; [eapply cor_same_trans; eauto|]. split.
      * intro EN. destruct (OK2 EN) as [(_ & _ & NIL)|(src & s & I & NS & G & V & M & D1 & D2)].
        { exfalso. apply E1. rewrite <- (LAST NIL). exact EN. }
        right. exists src, s. split; [right; exact I|]. split; [exact NS|]. split.
        { rewrite <- G. symmetry. apply SE1. now apply key_neq_ts. }
        split; [exact V|]. split.
        { rewrite <- M. symmetry. apply CS1. now apply key_neq_ts. }
        split; assumption.
      * intro EN. destruct (KO2 EN) as [N|(R & C)]; [left; exact N|]. subst reps' cor'.
        destruct (KO1 E1) as [(N & _)|(R & C & _)]; [left; exact N | right; auto].
Qed.

Lemma c04_pull_post : forall reps cor fl nts ts tsid tk ver srcs reps' cor' fl' e,
  c04_pull reps cor fl nts ts tsid tk ver srcs = (reps', cor', fl', e) ->
  pull_post reps cor ts tk ver srcs reps' cor' e \/ (e = cl_ErrWrongTractserver /\ reps' = reps /\ cor' = cor).
Proof.
  intros. unfold c04_pull in H. destruct (negb (ts =? tsid)).
  - right. inversion H; subst; auto.
  - left. now apply c04_pull_loop_post in H as [P _].
Qed.

(* a tractserver crash inside the pull: the destination is gone, untouched, or an EMPTY copy at the pulled version *)
Lemma c04_pull_crash_post : forall srcs reps cor fl nts ts tk ver reps' cor' fl',
  c04_pull_crash reps cor fl nts ts tk ver srcs = (reps', cor', fl') ->
  same_except reps reps' (ts, tk) /\ cor_same cor cor' (ts, tk) /\
  (rget reps' (ts, tk) = None \/ (reps' = reps /\ cor' = cor) \/
   (rget reps' (ts, tk) = Some {| r_ver := ver; r_app := [] |} /\ rmem (ts, tk) cor' = false)).
Proof.
  induction srcs as [|s0 srcs IH]; intros reps cor fl nts ts tk ver reps' cor' fl' H.
  - cbn in H. inversion H; subst. split; [apply same_except_refl|]. split; [apply cor_same_refl|]. right; left; auto.
  - cbn in H. destruct (c04_pull_once reps cor fl nts ts tk ver s0) as [[[r1 c1] f1] e1] eqn:P.
    apply c04_pull_once_post in P. destruct P as (SE1 & CS1 & OK1 & KO1).
    destruct (e1 =? cl_NoError) eqn:E1.
    + apply Z.eqb_eq in E1. inversion H; subst. destruct (OK1 eq_refl) as (s & _ & _ & _ & _ & _ & D2).
      split. { intros k' Hk. rewrite rget_rset_other by auto. now apply SE1. }
      split; [exact CS1|]. right; right. split; [apply rget_rset_same | exact D2].
    + apply Z.eqb_neq in E1. apply IH in H. destruct H as (SE2 & CS2 & D).
      split; [eapply same_except_trans; eauto|]. split; [eapply cor_same_trans; eauto|].
      destruct D as [N|[(R & C)|X]]; [left; exact N| |right; right; exact X]. subst reps' cor'.
      destruct (KO1 E1) as [(N & _)|(R & C & _)]; [left; exact N | right; left; auto].
Qed.

(* ------------------------------------------------------------------ frame of an executed RPC *)
Definition dsame (cs cs' : cstate) (k : rkey) : Prop :=
  same_except (s_reps (c_base cs)) (s_reps (c_base cs')) k /\ cor_same (c_cor cs) (c_cor cs') k.

Lemma dsame_refl : forall cs k, dsame cs cs k.
Proof. intros; split; [apply same_except_refl | apply cor_same_refl]. Qed.
Lemma dsame_trans : forall a b c k, dsame a b k -> dsame b c k -> dsame a c k.
Proof. intros a b c k [A1 A2] [B1 B2]. split; [eapply same_except_trans; eauto | eapply cor_same_trans; eauto]. Qed.

Lemma c04_exec_rpc_frame : forall cs e oracle cs' res tr,
  c04_exec_rpc cs e oracle = (cs', res, tr) -> dsame cs cs' (rpc_key_of (p_rpc e)).
Proof.
  intros cs e oracle cs' res tr H. unfold c04_exec_rpc in H.
  assert (LIFT : forall x, lift3 cs (exec_rpc (c_base cs) e oracle) = x -> dsame cs (fst (fst x)) (rpc_key_of (p_rpc e))).
  { intros x Hx. unfold lift3 in Hx. destruct (exec_rpc (c_base cs) e oracle) as [[st r] t] eqn:X. subst x. cbn.
    split; [cbn; eapply exec_rpc_frame; eauto | apply cor_same_refl]. }
  destruct ((k_kind (p_rpc e) =? K_Read) || (k_kind (p_rpc e) =? K_Write)).
  { destruct (hits_corruption cs (k_ts (p_rpc e)) (tkey (k_blob (p_rpc e)) (k_tract (p_rpc e))) (k_ver (p_rpc e))).
    - inversion H; subst. split; [apply same_except_refl | apply cor_same_refl].
    - apply LIFT in H. exact H. }
  destruct (k_kind (p_rpc e) =? K_Create).
  { destruct ((k_ts (p_rpc e) =? aux_nth (p_rpc e) 0) && hits_corruption cs (k_ts (p_rpc e)) (tkey (k_blob (p_rpc e)) (k_tract (p_rpc e))) 1).
    - inversion H; subst. split; [apply same_except_refl | apply cor_same_refl].
    - apply LIFT in H. exact H. }
  destruct (k_kind (p_rpc e) =? K_PullTract).
  { destruct (c04_pull _ _ _ _ _ _ _ _ _) as [[[reps cor] fl] c] eqn:P. inversion H; subst. unfold dsame, rpc_key_of. cbn.
    apply c04_pull_post in P. destruct P as [(SE & CS & _)|(_ & R & C)].
    - split; assumption.
    - subst. split; [apply same_except_refl | apply cor_same_refl]. }
  apply LIFT in H. exact H.
Qed.

(* ------------------------------------------------------------------ frame of every event *)
(* cs' differs from cs, as far as replica data and corruption marks go, only ... *)
Definition cframe (cs : cstate) (ev : list Z) (cs' : cstate) : Prop :=
  (* nowhere *)
  (s_reps (c_base cs') = s_reps (c_base cs) /\ c_cor cs' = c_cor cs) \/
  (* at the replica a fault event names *)
  (exists ts b t, (ev = [60; ts; b; t] \/ ev = [61; ts; b; t]) /\ dsame cs cs' (ts, tkey b t)) \/
  (* at the replica an executed RPC addresses *)
  (exists mode rest rp r1, ev = 7 :: mode :: rest /\ parse_rpc rest = Some (rp, r1) /\ mode <> 4 /\ dsame cs cs' (rpc_key_of rp)).

Lemma cframe_ext : forall cs ev cs1 cs2,
  cframe cs ev cs1 -> s_reps (c_base cs2) = s_reps (c_base cs1) -> c_cor cs2 = c_cor cs1 -> cframe cs ev cs2.
Proof.
  intros cs ev cs1 cs2 H R C. unfold cframe, dsame in *. rewrite R, C. exact H.
Qed.

Lemma lift_frame : forall cs ev, cframe cs ev (fst (lift_step cs ev)).
Proof.
  intros cs ev. unfold lift_step. pose proof (step_frame_holds (c_base cs) ev) as F. unfold step_frame in F.
  destruct (step (c_base cs) ev) as [st o] eqn:S. cbn in *.
  destruct F as [E|(mode & rest & rp & r1 & e & EV & P & _ & M & SE & _)].
  - left. split; [exact E | reflexivity].
  - right; right. exists mode, rest, rp, r1. repeat split; try assumption.
Qed.

(* an event that is not an RPC execution, delegated to the Cluster model, changes no replica *)
Lemma lift_quiet : forall cs ev c a, ev = c :: a -> c <> 7 ->
  s_reps (c_base (fst (lift_step cs ev))) = s_reps (c_base cs) /\ c_cor (fst (lift_step cs ev)) = c_cor cs.
Proof.
  intros cs ev c a E N. destruct (lift_frame cs ev) as [H|[(ts & b & t & [X|X] & _)|(mode & rest & rp & r1 & X & _)]].
  - exact H.
  - rewrite X. unfold lift_step, step. cbn. auto.
  - rewrite X. unfold lift_step, step. cbn. auto.
  - rewrite X in E. inversion E; subst. contradiction.
Qed.

Lemma c04_step_exec_frame : forall cs mode rest,
  mode <> 4 ->
  (s_reps (c_base (fst (c04_step_exec cs mode rest))) = s_reps (c_base cs) /\ c_cor (fst (c04_step_exec cs mode rest)) = c_cor cs) \/
  exists rp r1, parse_rpc rest = Some (rp, r1) /\ dsame cs (fst (c04_step_exec cs mode rest)) (rpc_key_of rp).
Proof.
  intros cs mode rest M. unfold c04_step_exec.
  destruct (parse_rpc rest) as [[rp r1]|] eqn:P; [|left; auto].
  destruct r1 as [|nh r2]; [left; auto|].
  destruct (take nh r2) as [place r3].
  destruct (find_pent (s_pool (c_base cs)) rp 0) as [e|] eqn:F; [|left; auto].
  destruct (mode =? 6) eqn:M6.
  { destruct (negb (k_kind rp =? K_PullTract)); [left; auto|].
    right. exists rp, (nh :: r2). split; [reflexivity|].
    destruct (k_ts rp =? aux_nth rp 0).
    - destruct (c04_pull_crash _ _ _ _ _ _ _ _) as [[reps' cor'] fl'] eqn:C. apply c04_pull_crash_post in C as (SE & CS & _).
      unfold dsame. cbn. rewrite reps_fold_resume, reps_flush, reps_resume. cbn. split; assumption.
    - unfold dsame. cbn. rewrite reps_fold_resume, reps_flush, reps_resume. cbn. split; [apply same_except_refl | apply cor_same_refl]. }
  right. exists rp, (nh :: r2). split; [reflexivity|].
  pose proof (find_pent_rpc _ _ _ _ F) as L. apply rpc_line_inj_fields in L as (LK & LT & LB & LR & _ & _).
  assert (KEY : rpc_key_of (p_rpc e) = rpc_key_of rp) by (unfold rpc_key_of; congruence).
  destruct (c04_exec_rpc cs e place) as [[cs1 res] tr] eqn:X1.
  pose proof (c04_exec_rpc_frame _ _ _ _ _ _ X1) as F1. rewrite KEY in F1.
  destruct (mode =? 3).
  - destruct (c04_exec_rpc cs1 e place) as [[cs2 res2] tr2] eqn:X2. cbn.
    pose proof (c04_exec_rpc_frame _ _ _ _ _ _ X2) as F2. rewrite KEY in F2.
    pose proof (dsame_trans _ _ _ _ F1 F2) as [A B]. unfold dsame. cbn. rewrite reps_flush. cbn. split; assumption.
  - cbn. destruct F1 as [A B]. unfold dsame. cbn. rewrite reps_flush. cbn. split; assumption.
Qed.

Lemma rec_detect_disk : forall cs, c_base (rec_detect cs) = c_base cs /\ c_cor (rec_detect cs) = c_cor cs /\ c_fl (rec_detect cs) = c_fl cs.
Proof.
  intros cs. unfold rec_detect. destruct (rec_completed _ _ _) as [rent1 rcor1].
  destruct (fold_left _ _ _) as [[rcor3 rent3] unrec]. cbn. auto.
Qed.

Definition cstep_frame (cs : cstate) (ev : list Z) : Prop := cframe cs ev (fst (cstep cs ev)).

Theorem cstep_frame_holds : forall cs ev, cstep_frame cs ev.
Proof.
  intros cs ev. unfold cstep_frame, cstep.
  destruct ev as [|c a]; [left; auto|].
  destruct (c =? 7) eqn:C7.
  { apply Z.eqb_eq in C7; subst c. destruct a as [|mode r]; [apply lift_frame|].
    destruct (parse_rpc r) as [[rp r1]|] eqn:P; [|apply lift_frame].
    destruct (data_kind (k_kind rp) && negb (mode =? 4)) eqn:D; [|apply lift_frame].
    apply andb_true_iff in D as [_ D]. apply negb_true_iff in D. apply Z.eqb_neq in D.
    destruct (c04_step_exec_frame (set_base cs (set_out (c_base cs) [])) mode r D) as [[A B]|(rp' & r1' & P' & [SE CS])].
    - left. split; [rewrite A; reflexivity | rewrite B; reflexivity].
    - right; right. exists mode, r, rp', r1'. split; [reflexivity|]. split; [exact P'|]. split; [exact D|].
      split; [exact SE | exact CS]. }
  assert (N7 : c <> 7) by (now apply Z.eqb_neq).
  destruct (c =? 9).
  { destruct (lift_step cs (c :: a)) as [cs1 o] eqn:L. pose proof (lift_quiet cs (c :: a) c a eq_refl N7) as [A B]. rewrite L in A, B. cbn in A, B.
    left. destruct a as [|ts [|y a]]; cbn; auto. }
  destruct (c =? 10).
  { destruct (lift_step cs (c :: a)) as [cs1 o] eqn:L. pose proof (lift_quiet cs (c :: a) c a eq_refl N7) as [A B]. rewrite L in A, B. cbn in A, B.
    left. cbn. auto. }
  destruct (c =? 15).
  { destruct (lift_step cs (c :: a)) as [cs1 o] eqn:L. pose proof (lift_quiet cs (c :: a) c a eq_refl N7) as [A B]. rewrite L in A, B. cbn in A, B.
    left. destruct a as [|op [|y a]]; cbn; auto. destruct o as [|cc [|z o]]; cbn; auto.
    destruct (zget (c_rops cs1) op); cbn; auto. destruct (0 <=? cc); cbn; auto. }
  destruct (c =? 60) eqn:C60.
  { apply Z.eqb_eq in C60; subst c. destruct a as [|ts [|b [|t [|z a]]]]; try (left; auto; fail).
    unfold ev_corrupt. destruct (rget (s_reps (c_base cs)) (ts, tkey b t)); [|left; auto].
    right; left. exists ts, b, t. split; [left; reflexivity|]. split; [apply same_except_refl|].
    intros k' Hk. cbn. now apply rmem_radd_other. }
  destruct (c =? 61) eqn:C61.
  { apply Z.eqb_eq in C61; subst c. destruct a as [|ts [|b [|t [|z a]]]]; try (left; auto; fail).
    unfold ev_delete. destruct (rget (s_reps (c_base cs)) (ts, tkey b t)); [|left; auto].
    right; left. exists ts, b, t. split; [right; reflexivity|]. split.
    - intros k' Hk. cbn. now apply rget_rdel_other.
    - intros k' Hk. cbn. now apply rmem_rrem_other. }
  destruct (c =? 62).
  { left. destruct a as [|ts [|b [|t [|z a]]]]; auto. unfold ev_scrub.
    destruct (rget (s_reps (c_base cs)) (ts, tkey b t)); auto. destruct (rmem (ts, tkey b t) (c_cor cs)); auto. }
  destruct (c =? 63).
  { left. destruct a as [|ts [|z a]]; auto. }
  destruct (c =? 64). { left. destruct a as [|ts [|z a]]; auto. }
  destruct (c =? 65). { left. destruct a as [|ts [|h [|z a]]]; auto. }
  destruct (c =? 66). { left. destruct a; cbn; auto. destruct (rec_detect_disk cs) as (A & B & _). rewrite A, B. auto. }
  destruct (c =? 67).
  { left. unfold ev_pop. destruct a as [|op [|gen [|blob [|tract [|nbad r]]]]]; auto.
    destruct (ent_get (c_rent cs) (tkey blob tract)) as [e|]; auto.
    match goal with |- context [if ?B then _ else _] => destruct B end; auto.
    match goal with |- context [lift_step ?X ?E] => pose proof (lift_quiet X E 5 (op :: gen :: blob :: tract :: nbad :: fst (take nbad r)) eq_refl ltac:(discriminate)) as [A B] end.
    cbn in *. auto. }
  apply lift_frame.
Qed.

(* ------------------------------------------------------------------ refusal when every host is bad *)
Lemma filter_all_bad : forall bad hosts, (forall h, In h hosts -> zmem h bad = true) ->
  filter (fun h => negb (zmem h bad)) hosts = [].
Proof.
  induction hosts as [|x hosts IH]; intros H; cbn; [reflexivity|].
  rewrite (H x (or_introl eq_refl)). cbn. apply IH. intros h Hh. apply H. now right.
Qed.

Lemma dtr_finish_task : forall st t e, s_dtr (finish_task st t e) = s_dtr st.
Proof. intros. unfold finish_task. destruct (t_rpc t =? 0); reflexivity. Qed.

Lemma pool_len_finish_task : forall st t e, length (s_pool (finish_task st t e)) = length (s_pool st).
Proof. intros. unfold finish_task. destruct (t_rpc t =? 0); cbn; now rewrite ?map_length. Qed.

(* replicateTract refuses: no RPC is issued, nothing durable and no replica changes, the task ends with an error *)
Lemma activate_hopeless : forall st t, t_kind t = 5 ->
  (forall dv hosts, tget (s_dtr st) (tkey (t_blob t) (t_tract t)) = Some (dv, hosts) -> forall h, In h hosts -> zmem h (t_bad t) = true) ->
  exists err, err <> cl_NoError /\ activate st t = finish_task st t err.
Proof.
  intros st t K H. unfold activate.
  destruct (zget (s_blobs st) (t_blob t)) as [[repl nt]|]; [|exists cl_ErrNoSuchBlob; split; [vm_compute; discriminate | reflexivity]].
  destruct (nt <=? t_tract t); [exists cl_ErrNoSuchTract; split; [vm_compute; discriminate | reflexivity]|].
  destruct (tget (s_dtr st) (tkey (t_blob t) (t_tract t))) as [[dv hosts]|] eqn:G;
    [|exists cl_ErrNoSuchTract; split; [vm_compute; discriminate | reflexivity]].
  rewrite K. cbn [Z.eqb Pos.eqb]. rewrite (filter_all_bad (t_bad t) hosts (H dv hosts eq_refl)). cbn.
  exists cl_ErrAllocHost. split; [vm_compute; discriminate | reflexivity].
Qed.

Lemma ent_get_del : forall l tk, ent_get (ent_del l tk) tk = None.
Proof.
  induction l as [|e l IH]; intros tk; cbn; [reflexivity|].
  destruct (tk_eqb (e_tk e) tk) eqn:E; cbn; [apply IH|]. rewrite E. apply IH.
Qed.

(* recovery.tractTask + syncTask: a tract all of whose hosts are bad gets no queue entry and is marked unrecoverable *)
Lemma rec_each_hopeless : forall down rcor rent unrec tk dv hosts rcor' rent' unrec',
  rec_each down (rcor, rent, unrec) (tk, (dv, hosts)) = (rcor', rent', unrec') ->
  hosts <> [] ->
  (forall h, In h hosts -> zmem h down = true \/ exists s, tget rcor tk = Some s /\ zmem h s = true) ->
  ent_get rent' tk = None /\ In tk unrec'.
Proof.
  intros down rcor rent unrec tk dv hosts rcor' rent' unrec' H NE BAD. unfold rec_each in H.
  set (rcor1 := match tget rcor tk with
                | Some s => match filter (fun h => zmem h hosts) s with [] => tdel rcor tk | _ => tset rcor tk (filter (fun h => zmem h hosts) s) end
                | None => rcor end) in *.
  set (cset := match tget rcor1 tk with Some s => s | None => [] end) in *.
  assert (ALL : bad_hosts down cset hosts = hosts).
  { unfold bad_hosts. assert (forall l, (forall h, In h l -> In h hosts) -> filter (fun h => zmem h down || zmem h cset) l = l) as F.
    { induction l as [|x l IH]; intros Hl; cbn; [reflexivity|].
      assert (X : zmem x down || zmem x cset = true).
      { destruct (BAD x (Hl x (or_introl eq_refl))) as [D|(s & G & M)]; [rewrite D; reflexivity|].
        apply orb_true_iff. right. unfold cset, rcor1. rewrite G.
        assert (IN : zmem x (filter (fun h => zmem h hosts) s) = true).
        { unfold zmem in *. apply existsb_exists in M as (y & Hy & E). apply Z.eqb_eq in E. subst y.
          apply existsb_exists. exists x. split; [|apply Z.eqb_refl]. apply filter_In. split; [exact Hy|].
          apply existsb_exists. exists x. split; [apply Hl; now left | apply Z.eqb_refl]. }
        destruct (filter (fun h => zmem h hosts) s) as [|y l'] eqn:FL; [discriminate IN|].
        rewrite tget_tset_same. exact IN. }
      rewrite X. f_equal. apply IH. intros h Hh. apply Hl. now right. }
    apply F. auto. }
  rewrite ALL in H.
  destruct (Z.of_nat (length hosts) =? 0) eqn:Z0.
  { apply Z.eqb_eq in Z0. destruct hosts; [contradiction|cbn in Z0; lia]. }
  rewrite Z.eqb_refl in H. inversion H; subst. split; [apply ent_get_del | now left].
Qed.

(* the runner cannot start a task for a tract that has no queue entry *)
Lemma ev_pop_needs_entry : forall cs op gen blob tract nbad r,
  ent_get (c_rent cs) (tkey blob tract) = None ->
  ev_pop cs (op :: gen :: blob :: tract :: nbad :: r) = (cs, [-8]).
Proof. intros. unfold ev_pop. now rewrite H. Qed.

(* ------------------------------------------------------------------ reads of damaged replicas fail closed *)
Lemma corrupt_access_fails_closed : forall cs e oracle,
  (k_kind (p_rpc e) = K_Read \/ k_kind (p_rpc e) = K_Write) ->
  hits_corruption cs (k_ts (p_rpc e)) (tkey (k_blob (p_rpc e)) (k_tract (p_rpc e))) (k_ver (p_rpc e)) = true ->
  exists cs', c04_exec_rpc cs e oracle = (cs', [cl_ErrCorruptData], []) /\
              c_base cs' = c_base cs /\ c_cor cs' = c_cor cs /\
              rmem (k_ts (p_rpc e), tkey (k_blob (p_rpc e)) (k_tract (p_rpc e))) (c_fl cs') = true.
Proof.
  intros cs e oracle K H. unfold c04_exec_rpc.
  assert (KK : (k_kind (p_rpc e) =? K_Read) || (k_kind (p_rpc e) =? K_Write) = true) by (destruct K as [K|K]; rewrite K; reflexivity).
  rewrite KK, H. eexists. split; [reflexivity|]. cbn. repeat split. apply rmem_radd_same.
Qed.

Lemma deleted_read_fails_closed : forall reps ts tk ver len off,
  rget reps (ts, tk) = None -> ts_read reps ts tk ver len off = (cl_ErrNoSuchTract, 0, []).
Proof. intros. unfold ts_read. now rewrite H. Qed.

(* a source with damaged blocks is never copied: the pull from it fails and the source reports itself *)
Lemma corrupt_source_not_copied : forall reps cor fl nts ts tk ver src s,
  rget reps (ts, tk) = None -> 0 < src <= nts -> rget reps (src, tk) = Some s -> r_ver s = ver -> rmem (src, tk) cor = true -> src <> ts ->
  exists cor', c04_pull_once reps cor fl nts ts tk ver src = (reps, cor', radd fl (src, tk), cl_ErrCorruptData).
Proof.
  intros reps cor fl nts ts tk ver src s G R GS V M NS. unfold c04_pull_once. rewrite G.
  assert (B : (src <=? 0) || (nts <? src) = false) by (apply orb_false_iff; split; [apply Z.leb_gt | apply Z.ltb_ge]; lia).
  rewrite B, GS. apply Z.eqb_eq in V. rewrite V.
  rewrite rmem_rrem_other by (now apply key_neq_ts). rewrite M. eexists. reflexivity.
Qed.

(* ------------------------------------------------------------------ fault events and the visibility predicate *)
Lemma vis_ok_same : forall st st' b t h p,
  s_dtr st' = s_dtr st -> s_att st' = s_att st -> s_acked st' = s_acked st ->
  (rget (s_reps st') (h, tkey b t) = rget (s_reps st) (h, tkey b t) \/ rget (s_reps st') (h, tkey b t) = None) ->
  vis_ok st b t h p = true -> vis_ok st' b t h p = true.
Proof.
  intros st st' b t h p D A K R V. unfold vis_ok, expected_byte, is_acked in *. rewrite D, A, K.
  destruct (tget (s_dtr st) (tkey b t)) as [[dv hosts]|]; [|reflexivity].
  destruct (negb (zmem h hosts)); [reflexivity|].
  destruct R as [R|R]; rewrite R; [exact V | reflexivity].
Qed.

Definition fault_code (c : Z) : bool := (c =? 60) || (c =? 61) || (c =? 62) || (c =? 64) || (c =? 65) || (c =? 66).

Lemma faults_keep_visibility : forall cs c a b t h p,
  fault_code c = true ->
  vis_ok (c_base cs) b t h p = true -> vis_ok (c_base (fst (cstep cs (c :: a)))) b t h p = true.
Proof.
  intros cs c a b t h p FC V. unfold fault_code in FC. unfold cstep.
  destruct (c =? 7) eqn:C7. { apply Z.eqb_eq in C7; subst c; discriminate. }
  destruct (c =? 9) eqn:C9. { apply Z.eqb_eq in C9; subst c; discriminate. }
  destruct (c =? 10) eqn:C10. { apply Z.eqb_eq in C10; subst c; discriminate. }
  destruct (c =? 15) eqn:C15. { apply Z.eqb_eq in C15; subst c; discriminate. }
  destruct (c =? 60).
  { destruct a as [|ts [|b0 [|t0 [|z a]]]]; try exact V. unfold ev_corrupt. destruct (rget _ _); exact V. }
  destruct (c =? 61).
  { destruct a as [|ts [|b0 [|t0 [|z a]]]]; try exact V. unfold ev_delete.
    destruct (rget (s_reps (c_base cs)) (ts, tkey b0 t0)) eqn:G; [|exact V]. cbn.
    apply (vis_ok_same (c_base cs)); try reflexivity; [|exact V]. cbn.
    destruct (rk_eqb (h, tkey b t) (ts, tkey b0 t0)) eqn:E.
    - apply rk_eqb_eq in E. rewrite E. right. apply rget_rdel_same.
    - left. apply rget_rdel_other. intro X. rewrite X, rk_eqb_refl in E. discriminate. }
  destruct (c =? 62).
  { destruct a as [|ts [|b0 [|t0 [|z a]]]]; try exact V. unfold ev_scrub.
    destruct (rget _ _); try exact V. destruct (rmem _ _); exact V. }
  destruct (c =? 63) eqn:C63. { apply Z.eqb_eq in C63; subst c; discriminate. }
  destruct (c =? 64). { destruct a as [|ts [|z a]]; exact V. }
  destruct (c =? 65). { destruct a as [|ts [|h0 [|z a]]]; exact V. }
  destruct (c =? 66). { destruct a; try exact V. cbn. destruct (rec_detect_disk cs) as (A & _). rewrite A. exact V. }
  cbn in FC. discriminate.
Qed.

(* ------------------------------------------------------------------ progress of the copy step *)
Definition good_source (reps : list (rkey * replica)) (cor : list rkey) (nts ts : Z) (tk : tkt) (ver src : Z) : Prop :=
  0 < src <= nts /\ src <> ts /\ exists s, rget reps (src, tk) = Some s /\ r_ver s = ver /\ rmem (src, tk) cor = false.

Lemma pull_once_good : forall reps cor fl nts ts tk ver src,
  (forall r, rget reps (ts, tk) = Some r -> r_ver r <= ver) ->
  good_source reps cor nts ts tk ver src ->
  exists reps' cor' fl', c04_pull_once reps cor fl nts ts tk ver src = (reps', cor', fl', cl_NoError).
Proof.
  intros reps cor fl nts ts tk ver src LE (R & NS & s & GS & V & M). unfold c04_pull_once.
  assert (B : (src <=? 0) || (nts <? src) = false) by (apply orb_false_iff; split; [apply Z.leb_gt | apply Z.ltb_ge]; lia).
  assert (KN : (src, tk) <> (ts, tk)) by (now apply key_neq_ts).
  apply Z.eqb_eq in V.
  destruct (rget reps (ts, tk)) as [r|] eqn:G.
  - assert (L : (ver <? r_ver r) = false) by (apply Z.ltb_ge; now apply LE).
    rewrite L, B. rewrite (rget_rdel_other reps (ts, tk) (src, tk) KN), GS, V.
    rewrite (rmem_rrem_other cor (ts, tk) (src, tk) KN), M. eauto.
  - rewrite B, GS, V. rewrite (rmem_rrem_other cor (ts, tk) (src, tk) KN), M. eauto.
Qed.

(* with the destination not ahead and at least one named source holding an undamaged copy at the requested
   version, PullTract succeeds whatever the other sources do (missing, damaged, older, unreachable) *)
Lemma c04_pull_progress : forall srcs reps cor fl nts ts tk ver last,
  (forall r, rget reps (ts, tk) = Some r -> r_ver r <= ver) ->
  (forall s, In s srcs -> s <> ts) ->
  (exists src, In src srcs /\ good_source reps cor nts ts tk ver src) ->
  exists reps' cor' fl', c04_pull_loop reps cor fl nts ts tk ver srcs last = (reps', cor', fl', cl_NoError).
Proof.
  induction srcs as [|s0 srcs IH]; intros reps cor fl nts ts tk ver last LE NS (src & I & GOOD).
  - destruct I.
  - cbn. destruct (c04_pull_once reps cor fl nts ts tk ver s0) as [[[r1 c1] f1] e1] eqn:P.
    destruct (e1 =? cl_NoError) eqn:E1.
    + apply Z.eqb_eq in E1. subst e1. eauto.
    + apply Z.eqb_neq in E1. destruct I as [I|I].
      * subst s0. destruct (pull_once_good reps cor fl nts ts tk ver src LE GOOD) as (a & b & c & Q). rewrite Q in P. inversion P; subst. contradiction.
      * pose proof (c04_pull_once_post _ _ _ _ _ _ _ _ _ _ _ _ P) as (SE & CS & _ & KO).
        apply IH.
        -- intros r Hr. destruct (KO E1) as [(N & _)|(R & _ & _)]; [rewrite N in Hr; discriminate | subst r1; now apply LE].
        -- intros s Hs. apply NS. now right.
        -- exists src. split; [exact I|]. destruct GOOD as (R & N & s & GS & V & M). split; [exact R|]. split; [exact N|].
           exists s. split; [rewrite <- GS; apply SE; now apply key_neq_ts|]. split; [exact V|].
           rewrite <- M. apply CS. now apply key_neq_ts.
Qed.

(* the bump of a survivor succeeds and keeps its content (Cluster.Proofs.ts_setversion_frame gives the general rule) *)
Lemma bump_progress : forall reps ts tk dv r,
  rget reps (ts, tk) = Some r -> r_ver r = dv \/ r_ver r = dv + 1 -> 1 <= dv ->
  exists reps', ts_setversion reps ts ts tk (dv + 1) = (reps', cl_NoError) /\
                exists r', rget reps' (ts, tk) = Some r' /\ r_ver r' = dv + 1 /\ r_app r' = r_app r.
Proof.
  intros reps ts tk dv r G V D. unfold ts_setversion. rewrite Z.eqb_refl. cbn [negb].
  assert (B : (dv + 1 <=? 1) = false) by (apply Z.leb_gt; lia). rewrite B, G.
  destruct V as [V|V]; rewrite V.
  - assert (L : (dv + 1 <=? dv) = false) by (apply Z.leb_gt; lia). rewrite L, Z.eqb_refl.
    eexists. split; [reflexivity|]. eexists. split; [apply rget_rset_same|]. cbn. auto.
  - rewrite Z.leb_refl. eexists. split; [reflexivity|]. exists r. auto.
Qed.

(* the commit succeeds under the leader's own term at old+1 with a host list of the same length *)
Lemma commit_progress : forall st blob tract dv hosts hosts' repl nt,
  zget (s_blobs st) blob = Some (repl, nt) -> tract <= nt ->
  tget (s_dtr st) (tkey blob tract) = Some (dv, hosts) -> length hosts' = length hosts ->
  exists st', change_tract st (s_term st) blob tract (dv + 1) hosts' = (st', cl_NoError) /\
              tget (s_dtr st') (tkey blob tract) = Some (dv + 1, hosts') /\ s_reps st' = s_reps st.
Proof.
  intros st blob tract dv hosts hosts' repl nt B T G L. unfold change_tract.
  rewrite Z.eqb_refl. cbn [negb]. rewrite B.
  assert (X : (nt <? tract) = false) by (apply Z.ltb_ge; lia). rewrite X, G, L, !Z.eqb_refl. cbn [negb].
  eexists. split; [reflexivity|]. split; [cbn; apply tget_tset_same | reflexivity].
Qed.
