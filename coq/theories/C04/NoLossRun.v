(* C04/NoLossRun.v — every event of the C04 alphabet accepted by NoLossSched.c04_ok_ev keeps the invariants of
   the C01 visibility proof (G and low) on the underlying Cluster state; hence the visibility ladder holds along
   every C04 schedule: faults, detection, recovery steps, PullTract that skips damaged sources. *)
From Coq Require Import List ZArith Bool Lia.
From BLB Require Import Gen.Consts Cluster.Model Cluster.Proofs Cluster.Frame Cluster.Inv Cluster.Window
     Cluster.Attempts Cluster.Sched Cluster.Order Cluster.Contain Cluster.Visible Cluster.Lower
     C04.Model C04.Proofs C04.NoLossInv C04.NoLossSched.
Import ListNotations.
Open Scope Z_scope.

(* ------------------------------------------------------------------ PullTract with damaged sources is still a pull *)
Lemma c04_pull_once_pulled : forall reps cor fl nts x tk ver src reps1 cor1 fl1 c,
  c04_pull_once reps cor fl nts x tk ver src = (reps1, cor1, fl1, c) -> pulled reps reps1 x tk ver.
Proof.
  intros reps cor fl nts x tk ver src reps1 cor1 fl1 c H. unfold c04_pull_once in H.
  destruct (rget reps (x, tk)) as [r|] eqn:G.
  - destruct (ver <? r_ver r) eqn:LT.
    + inversion H; subst. split; auto.
    + apply Z.ltb_ge in LT.
      assert (PRE : rget reps (x, tk) = None \/ exists r0, rget reps (x, tk) = Some r0 /\ r_ver r0 <= ver) by (right; exists r; auto).
      assert (OTH : forall k, k <> (x, tk) -> rget (rdel reps (x, tk)) k = rget reps k) by (intros; now apply rget_rdel_other).
      assert (GONE : pulled reps (rdel reps (x, tk)) x tk ver).
      { split; auto. right. split; auto. left. apply rget_rdel_same. }
      destruct ((src <=? 0) || (nts <? src)); [inversion H; subst; exact GONE|].
      destruct (rget (rdel reps (x, tk)) (src, tk)) as [s|] eqn:GS; [|inversion H; subst; exact GONE].
      destruct (r_ver s =? ver) eqn:V; [|inversion H; subst; exact GONE].
      destruct (rmem (src, tk) (rrem cor (x, tk))); [inversion H; subst; exact GONE|].
      inversion H; subst.
      split; [intros k N; rewrite rget_rset_other by exact N; auto|]. right. split; auto. right.
      exists src, s. apply Z.eqb_eq in V. split; [|split; auto using rget_rset_same].
      destruct (rkey_dec (src, tk) (x, tk)) as [EQ|NE]; [rewrite EQ, rget_rdel_same in GS; discriminate|].
      rewrite <- GS. symmetry. now apply rget_rdel_other.
  - assert (PRE : rget reps (x, tk) = None \/ exists r0, rget reps (x, tk) = Some r0 /\ r_ver r0 <= ver) by (left; auto).
    assert (SAME : pulled reps reps x tk ver) by (split; auto).
    destruct ((src <=? 0) || (nts <? src)); [inversion H; subst; exact SAME|].
    destruct (rget reps (src, tk)) as [s|] eqn:GS; [|inversion H; subst; exact SAME].
    destruct (r_ver s =? ver) eqn:V; [|inversion H; subst; exact SAME].
    destruct (rmem (src, tk) (rrem cor (x, tk))); [inversion H; subst; exact SAME|].
    inversion H; subst.
    split; [intros k N; rewrite rget_rset_other by exact N; auto|]. right. split; auto. right.
    exists src, s. apply Z.eqb_eq in V. split; auto. split; auto using rget_rset_same.
Qed.

Lemma c04_pull_loop_pulled : forall srcs reps cor fl nts x tk ver last reps1 cor1 fl1 c,
  c04_pull_loop reps cor fl nts x tk ver srcs last = (reps1, cor1, fl1, c) -> pulled reps reps1 x tk ver.
Proof.
  induction srcs as [|s l IH]; intros reps cor fl nts x tk ver last reps1 cor1 fl1 c H; cbn in H.
  - inversion H; subst. split; auto.
  - destruct (c04_pull_once reps cor fl nts x tk ver s) as [[[r' c'] f'] e] eqn:P. apply c04_pull_once_pulled in P.
    destruct (e =? cl_NoError); [inversion H; subst; exact P|]. eapply pulled_trans; [exact P | eapply IH; eauto].
Qed.

(* the pull of a request accepted by the schedule predicate: the copy is untouched, removed, or replaced by the
   copy of a replica one version ahead of the durable record *)
Lemma pulled_repl_out : forall st reps1 x tk ver dv H,
  tget (s_dtr st) tk = Some (dv, H) -> ver <= dv + 1 ->
  ~ (ver <= dv /\ (rget (s_reps st) (x, tk) = None \/ exists r0, rget (s_reps st) (x, tk) = Some r0 /\ r_ver r0 <= ver)) ->
  pulled (s_reps st) reps1 x tk ver -> repl_out st reps1 x tk dv.
Proof.
  intros st reps1 x tk ver dv H E L NS [OTH [SAME|[PRE RES]]].
  - split; auto.
  - assert (VV : ver = dv + 1) by (destruct (Z_le_gt_dec ver dv); [exfalso; apply NS; auto | lia]). subst ver.
    split; auto.
Qed.

Lemma not_stale : forall st r dv H,
  tget (s_dtr st) (rtk r) = Some (dv, H) -> stale_pull st r = false ->
  ~ (k_ver r <= dv /\ (rget (s_reps st) (k_ts r, rtk r) = None \/ exists r0, rget (s_reps st) (k_ts r, rtk r) = Some r0 /\ r_ver r0 <= k_ver r)).
Proof.
  intros st r dv H E SP [L1 L2]. unfold stale_pull in SP. unfold rtk in *. rewrite E in SP.
  apply andb_false_iff in SP as [SP|SP]; [apply Z.leb_gt in SP; lia|].
  destruct L2 as [L2|(r0 & L2 & L3)]; rewrite L2 in SP; [discriminate|]. apply Z.leb_gt in SP. lia.
Qed.

(* PullTract as C04 executes it, on a state that satisfies the invariants *)
Lemma GL_c04_pull : forall st e cor fl reps1 cor1 fl1 c,
  GL st -> In e (s_pool st) -> k_kind (p_rpc e) = K_PullTract -> stale_pull st (p_rpc e) = false ->
  c04_pull (s_reps st) cor fl (s_nts st) (k_ts (p_rpc e)) (aux_nth (p_rpc e) 0) (rtk (p_rpc e)) (k_ver (p_rpc e)) (tl (k_aux (p_rpc e)))
    = (reps1, cor1, fl1, c) ->
  GL (set_reps st reps1) /\ stale_pull (set_reps st reps1) (p_rpc e) = false /\
  (c = cl_NoError -> bumpedk (set_reps st reps1) (k_ts (p_rpc e)) (rtk (p_rpc e)) (k_ver (p_rpc e))) /\
  (bumpedk st (k_ts (p_rpc e)) (rtk (p_rpc e)) (k_ver (p_rpc e)) ->
   bumpedk (set_reps st reps1) (k_ts (p_rpc e)) (rtk (p_rpc e)) (k_ver (p_rpc e))).
Proof.
  intros st e cor fl reps1 cor1 fl1 c GS Ie K SP X.
  pose proof GS as [(I2 & _) LW]. pose proof I2 as [_ (U1 & U2 & U3)].
  destruct (U2 _ Ie (or_intror K)) as (dv & H & E & L).
  destruct LW as (_ & _ & _ & _ & PE & _). destruct (PE _ Ie K) as [NE AX].
  set (x := k_ts (p_rpc e)) in *. set (tk := rtk (p_rpc e)) in *. set (ver := k_ver (p_rpc e)) in *.
  unfold c04_pull in X. rewrite AX, Z.eqb_refl in X. cbn [negb] in X.
  pose proof (c04_pull_loop_pulled _ _ _ _ _ _ _ _ _ _ _ _ _ X) as PL.
  pose proof (not_stale st (p_rpc e) dv H E SP) as NS. fold x tk ver in NS.
  pose proof (pulled_repl_out st reps1 x tk ver dv H E L NS PL) as RO.
  split; [exact (GL_repl_out st reps1 x tk dv H GS E RO)|].
  destruct PL as [OTH CASES].
  split; [|split].
  - subst x tk ver. unfold stale_pull, rtk in *. cbn [s_dtr s_reps set_reps]. rewrite E in *.
    destruct (k_ver (p_rpc e) <=? dv) eqn:LV; [|reflexivity]. cbn [andb] in *.
    destruct CASES as [SAME|[PRE RES]]; [rewrite SAME; exact SP|].
    exfalso. destruct PRE as [PRE|(r0 & G0 & L0)]; rewrite ?PRE in SP; [discriminate SP|]. rewrite G0 in SP. apply Z.leb_gt in SP. lia.
  - intro OKc. subst c. apply c04_pull_loop_post in X as [(_ & _ & OK & _) _].
    destruct (OK eq_refl) as [(_ & _ & NIL)|(src & s & _ & _ & _ & _ & _ & D & _)]; [contradiction|].
    unfold bumpedk. cbn [s_reps set_reps]. rewrite D. cbn. lia.
  - unfold bumpedk. cbn [s_reps set_reps]. intro B.
    destruct CASES as [SAME|[PRE RES]]; [rewrite SAME; exact B|].
    destruct RES as [RES|(src & s & GS' & V & RES)]; rewrite RES; [exact I | cbn; lia].
Qed.

(* ------------------------------------------------------------------ one request executed by a C04 tractserver *)
Lemma lift3_base : forall cs st res tr, c_base (fst (fst (lift3 cs (st, res, tr)))) = st.
Proof. reflexivity. Qed.

Lemma posts_error : forall st e c, In e (s_pool st) -> c <> cl_NoError -> posts st e [c] [].
Proof.
  intros st e c Ie NE. split; [exact Ie|]. split; [apply tr_bound_nil|].
  split; [intros _ Y; cbn in Y; contradiction|]. split; [intros _ x Ix; destruct Ix|].
  split; intros _ Y; cbn in Y; contradiction.
Qed.

Lemma corrupt_not_ok : cl_ErrCorruptData <> cl_NoError.
Proof. vm_compute. discriminate. Qed.

(* the second execution of a request that is not a PullTract *)
Lemma c04_exec_second : forall cs1 e oracle st res tr,
  dur_ok st -> exec_rpc st e oracle = (c_base cs1, res, tr) ->
  GL (c_base cs1) -> p_st e = 0 -> posts (c_base cs1) e res tr -> data_side (c_base cs1) e ->
  k_kind (p_rpc e) <> K_PullTract ->
  GL (c_base (fst (fst (c04_exec_rpc cs1 e oracle)))) /\ posts (c_base (fst (fst (c04_exec_rpc cs1 e oracle)))) e res tr.
Proof.
  intros cs1 e oracle st res tr Ds X1 GS1 Pz PS DS NP.
  assert (AGAIN : GL (c_base (fst (fst (lift3 cs1 (exec_rpc (c_base cs1) e oracle))))) /\
                  posts (c_base (fst (fst (lift3 cs1 (exec_rpc (c_base cs1) e oracle))))) e res tr).
  { destruct (exec_rpc (c_base cs1) e oracle) as [[st1b res2] tr2] eqn:X2. rewrite lift3_base.
    eapply GL_exec_again; eauto. }
  unfold c04_exec_rpc.
  destruct ((k_kind (p_rpc e) =? K_Read) || (k_kind (p_rpc e) =? K_Write)).
  { destruct (hits_corruption cs1 _ _ _); [cbn; auto | exact AGAIN]. }
  destruct (k_kind (p_rpc e) =? K_Create).
  { destruct (_ && _); [cbn; auto | exact AGAIN]. }
  destruct (k_kind (p_rpc e) =? K_PullTract) eqn:KP; [apply Z.eqb_eq in KP; contradiction|].
  exact AGAIN.
Qed.

(* the execution, once or twice, as c04_step_exec performs it *)
Lemma hits_set_fl : forall cs fl ts tk ver, hits_corruption (set_fl cs fl) ts tk ver = hits_corruption cs ts tk ver.
Proof. reflexivity. Qed.

Lemma c04_exec_GL : forall cs e oracle (twice : bool),
  GL (c_base cs) -> In e (s_pool (c_base cs)) -> p_st e = 0 -> data_side (c_base cs) e ->
  forall cs1 res tr, c04_exec_rpc cs e oracle = (cs1, res, tr) ->
  let cs1' := if twice then fst (fst (c04_exec_rpc cs1 e oracle)) else cs1 in
  GL (c_base cs1') /\ posts (c_base cs1') e res tr.
Proof.
  intros cs e oracle twice GS Ie Pz DS cs1 res tr X.
  pose proof GS as [((Ds & _) & _) _]. destruct Ds as [Ds _].
  (* a request that the Cluster model serves *)
  assert (SERVED : lift3 cs (exec_rpc (c_base cs) e oracle) = (cs1, res, tr) -> k_kind (p_rpc e) <> K_PullTract ->
                   let cs1' := if twice then fst (fst (c04_exec_rpc cs1 e oracle)) else cs1 in
                   GL (c_base cs1') /\ posts (c_base cs1') e res tr).
  { intros Y NP. destruct (exec_rpc (c_base cs) e oracle) as [[st1 res1] tr1] eqn:X1. cbn in Y. inversion Y; subst cs1 res1 tr1. clear Y.
    destruct (GL_exec _ _ _ _ _ _ GS Ie Pz DS X1) as (GS1 & PS1 & DS1).
    destruct twice; cbn zeta; [|split; assumption].
    apply (c04_exec_second (set_base cs st1) e oracle (c_base cs) res tr); auto. }
  (* a data access that ran into the checksum failure: only the failure map changed *)
  assert (FAILED : forall cs2, c_base cs2 = c_base cs -> GL (c_base cs2) /\ posts (c_base cs2) e [cl_ErrCorruptData] []).
  { intros cs2 E2. rewrite E2. split; [exact GS|]. apply posts_error; auto using corrupt_not_ok. }
  unfold c04_exec_rpc in X.
  destruct ((k_kind (p_rpc e) =? K_Read) || (k_kind (p_rpc e) =? K_Write)) eqn:KRW.
  { assert (NP : k_kind (p_rpc e) <> K_PullTract).
    { intro Y. rewrite Y in KRW. discriminate KRW. }
    destruct (hits_corruption cs (k_ts (p_rpc e)) (tkey (k_blob (p_rpc e)) (k_tract (p_rpc e))) (k_ver (p_rpc e))) eqn:HC; [|exact (SERVED X NP)].
    inversion X; subst cs1 res tr. clear X. destruct twice; cbn zeta; [|apply FAILED; reflexivity].
    apply FAILED. unfold c04_exec_rpc. rewrite KRW, hits_set_fl, HC. reflexivity. }
  destruct (k_kind (p_rpc e) =? K_Create) eqn:KC.
  { assert (NP : k_kind (p_rpc e) <> K_PullTract).
    { intro Y. rewrite Y in KC. discriminate KC. }
    destruct ((k_ts (p_rpc e) =? aux_nth (p_rpc e) 0) && hits_corruption cs (k_ts (p_rpc e)) (tkey (k_blob (p_rpc e)) (k_tract (p_rpc e))) 1) eqn:HC; [|exact (SERVED X NP)].
    inversion X; subst cs1 res tr. clear X. destruct twice; cbn zeta; [|apply FAILED; reflexivity].
    apply FAILED. unfold c04_exec_rpc. rewrite KRW, KC, hits_set_fl, HC. reflexivity. }
  destruct (k_kind (p_rpc e) =? K_PullTract) eqn:KP.
  2:{ apply SERVED; auto. intro Y. rewrite Y in KP. discriminate KP. }
  apply Z.eqb_eq in KP. destruct DS as (_ & SP & _). specialize (SP KP).
  destruct (c04_pull _ _ _ _ _ _ _ _ _) as [[[reps1 cor1] fl1] c] eqn:PL. inversion X; subst cs1 res tr. clear X.
  change (tkey (k_blob (p_rpc e)) (k_tract (p_rpc e))) with (rtk (p_rpc e)) in PL.
  destruct (GL_c04_pull _ _ _ _ _ _ _ _ GS Ie KP SP PL) as (GS1 & SP1 & OK1 & _).
  assert (PS1 : posts (set_reps (c_base cs) reps1) e [c] []).
  { split; [exact Ie|]. split; [apply tr_bound_nil|].
    split; [intros [Y|Y]; rewrite Y in KP; discriminate KP|]. split; [intros Y; rewrite Y in KP; discriminate KP|].
    split; [intros Y; rewrite Y in KP; discriminate KP|]. intros _ Y. cbn in Y. auto. }
  destruct twice; cbn zeta; [|split; assumption].
  unfold c04_exec_rpc. rewrite KRW, KC. rewrite KP. cbn [Z.eqb Pos.eqb].
  cbn [c_base set_disk c_cor c_fl].
  change (tkey (k_blob (p_rpc e)) (k_tract (p_rpc e))) with (rtk (p_rpc e)).
  change (s_nts (set_reps (c_base cs) reps1)) with (s_nts (c_base cs)).
  destruct (c04_pull (s_reps (set_reps (c_base cs) reps1)) cor1 fl1 (s_nts (c_base cs)) (k_ts (p_rpc e)) (aux_nth (p_rpc e) 0) (rtk (p_rpc e)) (k_ver (p_rpc e)) (tl (k_aux (p_rpc e))))
    as [[[reps2 cor2] fl2] c2] eqn:PL2.
  cbn [fst c_base set_disk].
  assert (Ie1 : In e (s_pool (set_reps (c_base cs) reps1))) by exact Ie.
  change (s_nts (c_base cs)) with (s_nts (set_reps (c_base cs) reps1)) in PL2.
  destruct (GL_c04_pull _ _ _ _ _ _ _ _ GS1 Ie1 KP SP1 PL2) as (GS2 & _ & _ & KEEP).
  change (set_reps (set_reps (c_base cs) reps1) reps2) with (set_reps (c_base cs) reps2) in *.
  split; [exact GS2|].
  split; [exact Ie|]. split; [apply tr_bound_nil|].
  split; [intros [Y|Y]; rewrite Y in KP; discriminate KP|]. split; [intros Y; rewrite Y in KP; discriminate KP|].
  split; [intros Y; rewrite Y in KP; discriminate KP|]. intros _ Y. cbn in Y. apply KEEP. auto.
Qed.

(* ------------------------------------------------------------------ code 7 for the data kinds *)
Lemma data_kind_not_setversion : forall k, C04.Model.data_kind k = true -> k <> K_SetVersion.
Proof. intros k H E. subst k. discriminate H. Qed.

Lemma c04_step_exec_GL : forall L cs mode r rp rest,
  parse_rpc r = Some (rp, rest) -> C04.Model.data_kind (k_kind rp) = true -> (mode =? 4) = false ->
  ok_ev L (c_base cs) (7 :: mode :: r) = true -> GL (c_base cs) ->
  GL (c_base (fst (c04_step_exec cs mode r))).
Proof.
  intros L cs mode r rp rest P DK M4 OK GS. unfold c04_step_exec. rewrite P.
  cbn [ok_ev] in OK. change (7 =? 3) with false in OK. change (7 =? 4) with false in OK.
  change ((7 =? 5) || (7 =? 6)) with false in OK. change (7 =? 7) with true in OK. cbv iota in OK. rewrite P in OK.
  destruct rest as [|nh r2]; [exact GS|].
  destruct (take nh r2) as [place r3].
  destruct (find_pent (s_pool (c_base cs)) rp 0) as [e|] eqn:F; [|exact GS].
  pose proof (find_pent_eq _ _ _ _ F) as ERP. pose proof (find_pent_st _ _ _ _ F) as EST. apply find_pent_in in F.
  apply andb_true_iff in OK as [OK OKP]. apply andb_true_iff in OK as [OKM OKC].
  rewrite M4 in OKC, OKP. cbn [orb] in OKC, OKP.
  destruct (mode =? 6) eqn:M6.
  { exfalso. apply Z.eqb_eq in M6. pose proof (mode_ok_cases _ _ OKM). lia. }
  assert (DS : data_side (c_base cs) e).
  { rewrite <- ERP in OKC, OKP, DK. split; [|split].
    - intros K. rewrite K, Z.eqb_refl in OKC. apply negb_true_iff in OKC. unfold durable in OKC. unfold rtk.
      destruct (tget (s_dtr (c_base cs)) _); [discriminate | reflexivity].
    - intros K. rewrite K, Z.eqb_refl in OKP. now apply negb_true_iff in OKP.
    - now apply data_kind_not_setversion. }
  destruct (c04_exec_rpc cs e place) as [[cs1 res] tr] eqn:X1.
  pose proof (c04_exec_GL cs e place (mode =? 3) GS F EST DS cs1 res tr X1) as [GS1 (Ie1 & TB1 & PW & PG & PX & PB)].
  cbv zeta in GS1, Ie1, TB1, PW, PG, PX, PB.
  cbn [fst c_base set_base].
  apply GL_fin; auto.
Qed.

(* ------------------------------------------------------------------ one event *)
Lemma lift_GL : forall L cs ev, ok_ev L (c_base cs) ev = true -> GL (c_base cs) -> GL (c_base (fst (lift_step cs ev))).
Proof.
  intros L cs ev OK GS. unfold lift_step. pose proof (GL_step L (c_base cs) ev OK GS) as X.
  destruct (step (c_base cs) ev) as [st o]. exact X.
Qed.

Lemma tget_durable : forall st tk, durable st tk = true -> exists dv H, tget (s_dtr st) tk = Some (dv, H).
Proof. intros st tk D. unfold durable in D. destruct (tget (s_dtr st) tk) as [[dv H]|]; [eauto | discriminate]. Qed.

(* a replica of a durable tract disappears *)
Lemma GL_delete : forall st x tk, GL st -> durable st tk = true -> GL (set_reps st (rdel (s_reps st) (x, tk))).
Proof.
  intros st x tk GS D. destruct (tget_durable _ _ D) as (dv & H & E).
  apply (GL_repl_out st _ x tk dv H GS E). split; [intros k N; now apply rget_rdel_other|].
  right; left. apply rget_rdel_same.
Qed.

Theorem c04_cstep_GL : forall L cs ev, c04_ok_ev L cs ev = true -> GL (c_base cs) -> GL (c_base (fst (cstep cs ev))).
Proof.
  intros L cs ev OK GS. unfold cstep. destruct ev as [|c a]; [exact GS|].
  destruct (c =? 7) eqn:C7.
  { apply Z.eqb_eq in C7. subst c. change (ok_ev L (c_base cs) (7 :: a) = true) in OK.
    destruct a as [|mode r]; [now apply (lift_GL L)|].
    destruct (parse_rpc r) as [[rp r1]|] eqn:P; [|now apply (lift_GL L)].
    destruct (C04.Model.data_kind (k_kind rp) && negb (mode =? 4)) eqn:D; [|now apply (lift_GL L)].
    apply andb_true_iff in D as [DK M4]. apply negb_true_iff in M4.
    apply (c04_step_exec_GL L (set_base cs (set_out (c_base cs) [])) mode r rp r1 P DK M4); [exact OK | exact GS]. }
  destruct (c =? 9) eqn:C9.
  { apply Z.eqb_eq in C9. subst c. change (ok_ev L (c_base cs) (9 :: a) = true) in OK.
    pose proof (lift_GL L cs (9 :: a) OK GS) as X. destruct (lift_step cs (9 :: a)) as [cs1 o].
    destruct a as [|ts [|y a]]; exact X. }
  destruct (c =? 10) eqn:C10.
  { apply Z.eqb_eq in C10. subst c. change (ok_ev L (c_base cs) (10 :: a) = true) in OK.
    pose proof (lift_GL L cs (10 :: a) OK GS) as X. destruct (lift_step cs (10 :: a)) as [cs1 o]. exact X. }
  destruct (c =? 15) eqn:C15.
  { apply Z.eqb_eq in C15. subst c. change (ok_ev L (c_base cs) (15 :: a) = true) in OK.
    pose proof (lift_GL L cs (15 :: a) OK GS) as X. destruct (lift_step cs (15 :: a)) as [cs1 o].
    destruct a as [|op [|y a]]; try exact X. destruct o as [|cc [|z o]]; try exact X.
    destruct (zget (c_rops cs1) op); try exact X. destruct (0 <=? cc); exact X. }
  destruct (c =? 60) eqn:C60.
  { destruct a as [|ts [|b [|t [|z a]]]]; try exact GS. unfold ev_corrupt. destruct (rget _ _); exact GS. }
  destruct (c =? 61) eqn:C61.
  { apply Z.eqb_eq in C61. subst c. destruct a as [|ts [|b [|t [|z a]]]]; try exact GS. cbn in OK.
    unfold ev_delete. destruct (rget (s_reps (c_base cs)) (ts, tkey b t)); [|exact GS]. cbn [fst c_base set_disk].
    now apply GL_delete. }
  destruct (c =? 62) eqn:C62.
  { destruct a as [|ts [|b [|t [|z a]]]]; try exact GS. unfold ev_scrub.
    destruct (rget _ _); try exact GS. destruct (rmem _ _); exact GS. }
  destruct (c =? 63) eqn:C63.
  { destruct a as [|ts [|z a]]; exact GS. }
  destruct (c =? 64) eqn:C64. { destruct a as [|ts [|z a]]; exact GS. }
  destruct (c =? 65) eqn:C65. { destruct a as [|ts [|h [|z a]]]; exact GS. }
  destruct (c =? 66) eqn:C66.
  { destruct a; try exact GS. cbn [fst ev_detect]. destruct (rec_detect_disk cs) as (B & _). rewrite B. exact GS. }
  destruct (c =? 67) eqn:C67.
  { apply Z.eqb_eq in C67. subst c. change (ok_ev L (c_base cs) (5 :: a) = true) in OK.
    unfold ev_pop. destruct a as [|op [|gen [|blob [|tract [|nbad r]]]]]; try exact GS.
    destruct (ent_get (c_rent cs) (tkey blob tract)) as [en|]; [|exact GS].
    match goal with |- context [if ?B then _ else _] => destruct B end; [exact GS|].
    apply (lift_GL L); [exact OK | exact GS]. }
  assert (OK' : ok_ev L (c_base cs) (c :: a) = true).
  { unfold c04_ok_ev in OK. rewrite C61, C60, C62, C63, C64, C65, C66, C67 in OK. exact OK. }
  now apply (lift_GL L).
Qed.

(* ------------------------------------------------------------------ along a schedule *)
Theorem c04_GL_run : forall L evs cs, c04_sched L cs evs = true -> GL (c_base cs) -> GL (c_base (crun_state cs evs)).
Proof.
  induction evs as [|ev evs IH]; intros cs OK GS; [exact GS|].
  cbn in OK. apply andb_true_iff in OK as [OK1 OK2]. cbn [crun_state]. apply IH; auto. eapply c04_cstep_GL; eauto.
Qed.

Theorem c04_GL_reachable : forall L evs, c04_sched L cinit evs = true -> GL (c_base (crun_state cinit evs)).
Proof. intros L evs OK. apply (c04_GL_run L); auto. exact GL_init. Qed.
