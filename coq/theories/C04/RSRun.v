(* C04/RSRun.v — a small transition model of ONE erasure-coded chunk under faults, detection and reconstruction.
   State: the named host of every index, the state of every piece (server, index): intact (holds the original piece of
   that index) / damaged / partial (a reconstruction wrote only part of it) / absent, the curator's beliefs (servers
   believed down, indices reported corrupt), the queued task, the pendingPieces mark, the attempt in flight with its
   plan, GC "gone" instructions under way and a generation counter.
   The plan of an attempt is C13.Model.reconstruct_plan and the detect round is C04.RSModel.rs_chunk_task_of: the very
   definitions the relational lines 92 / 93 of the RS harness are judged with.
   Events: fault on a piece, down belief, tractserver restart, scrub/CheckTracts + report, detect round (chunkTask),
   attempt start (markPendingPieces + plan), one RSEncode increment (may fail at a source read or a destination write),
   reply lost, leader change, commit (UpdateRSHosts), GC computing a gone instruction (pendingPieces filter), delivery
   of an instruction.  Schedule predicate rs_ok_ev: a fault must respect the premise (rs_safe afterwards); an
   instruction is delivered UNDELAYED, i.e. in the generation it was computed in — the condition of
   C05.c05_gc_safe_rs_undelayed (before the next UpdateRSHosts) extended by the attempt boundary of C05's second F5
   witness (markPendingPieces) and by leader change; the delayed instruction is the known finding F5. *)
From Coq Require Import List NArith ZArith Arith Bool Lia.
From BLB Require Import C13.Model C04.RSProofs.
From BLB Require C04.RSModel.
Import ListNotations.
Local Open Scope nat_scope.

Inductive pst := Intact | Damaged | Partial.
Definition pst_intact (o : option pst) : bool := match o with Some Intact => true | _ => false end.

Definition pmap := N -> nat -> option pst.
Definition pupd (pc : pmap) (s : N) (i : nat) (v : option pst) : pmap :=
  fun s' i' => if N.eqb s' s && Nat.eqb i' i then v else pc s' i'.

Record att := { a_bad : list N; a_new : list N; a_plan : plan; a_left : nat; a_hit : list (N * nat) }.

Record rs := {
  r_n : nat; r_m : nat;
  r_hosts : list N;
  r_pc : pmap;
  r_down : list N;
  r_cor : list nat;
  r_task : option (list N);
  r_unrec : bool;
  r_pend : bool;
  r_att : option att;
  r_soup : list (N * nat * nat);
  r_gen : nat }.

Inductive rev :=
| EFault (s : N) (i : nat) (del : bool)
| EDown (s : N) (b : bool)
| ERestart (s : N)
| EScrub (i : nat)
| EDetect
| EStart (newids : list N) (incs : nat)
| EInc (fail touch : bool)
| EReplyLost
| ELeader
| ECommit
| EGC (s : N) (i : nat)
| EDeliver (k : nat).

Definition upd st hosts pc down cor task unrec pend a soup gen : rs :=
  {| r_n := r_n st; r_m := r_m st; r_hosts := hosts; r_pc := pc; r_down := down; r_cor := cor; r_task := task;
     r_unrec := unrec; r_pend := pend; r_att := a; r_soup := soup; r_gen := gen |}.
Definition set_pc st pc := upd st (r_hosts st) pc (r_down st) (r_cor st) (r_task st) (r_unrec st) (r_pend st) (r_att st) (r_soup st) (r_gen st).
Definition set_att st pend a := upd st (r_hosts st) (r_pc st) (r_down st) (r_cor st) (r_task st) (r_unrec st) pend a (r_soup st) (r_gen st).

Definition named (st : rs) (i : nat) : N := nth i (r_hosts st) 0%N.
Definition intact_at (pc : pmap) (hosts : list N) (i : nat) : bool := pst_intact (pc (nth i hosts 0%N) i).
Definition intact_count (pc : pmap) (hosts : list N) : nat := length (filter (intact_at pc hosts) (seq 0 (length hosts))).
Definition intact_named (st : rs) : nat := intact_count (r_pc st) (r_hosts st).
Definition bad_named (st : rs) : nat := length (filter (fun i => negb (intact_at (r_pc st) (r_hosts st) i)) (seq 0 (length (r_hosts st)))).

(* the destination pieces of an attempt: (chosen server, bad index) *)
Definition dkeys (hosts : list N) (a : att) : list (N * nat) := combine (a_new a) (dst_of hosts (a_bad a)).
Definition write_all (pc : pmap) (ks : list (N * nat)) (v : pst) : pmap :=
  fold_left (fun p k => pupd p (fst k) (snd k) (Some v)) ks pc.

Definition fresh (hosts newids : list N) : bool := forallb (fun x => negb (memN x hosts)) newids.
Fixpoint distinctN (l : list N) : bool := match l with [] => true | x :: r => negb (memN x r) && distinctN r end.

(* recovery.chunkTask, through the definition the harness line 93 is judged with *)
Definition detect_bad (st : rs) : list Z := C04.RSModel.rs_chunk_task_of (r_m st) (map Z.of_N (r_hosts st)) (map Z.of_N (r_down st)) (r_cor st).

Definition abort (st : rs) : rs := set_att st false None.

Definition rstep (st : rs) (ev : rev) : rs :=
  match ev with
  | EFault s i del =>
      let pc := match r_pc st s i with
                | None => r_pc st
                | Some _ => pupd (r_pc st) s i (if del then None else Some Damaged)
                end in
      let a := match r_att st with
               | Some a => Some {| a_bad := a_bad a; a_new := a_new a; a_plan := a_plan a; a_left := a_left a; a_hit := (s, i) :: a_hit a |}
               | None => None end in
      upd st (r_hosts st) pc (r_down st) (r_cor st) (r_task st) (r_unrec st) (r_pend st) a (r_soup st) (r_gen st)
  | EDown s b =>
      let d := filter (fun x => negb (N.eqb x s)) (r_down st) in
      upd st (r_hosts st) (r_pc st) (if b then s :: d else d) (r_cor st) (r_task st) (r_unrec st) (r_pend st) (r_att st) (r_soup st) (r_gen st)
  | ERestart _ =>
      match r_att st with
      | Some a => if Nat.eqb (a_left a) 0 then st else abort st
      | None => st
      end
  | EScrub i =>
      if Nat.ltb i (length (r_hosts st)) && negb (intact_at (r_pc st) (r_hosts st) i)
      then upd st (r_hosts st) (r_pc st) (r_down st) (i :: r_cor st) (r_task st) (r_unrec st) (r_pend st) (r_att st) (r_soup st) (r_gen st)
      else st
  | EDetect =>
      match r_att st with
      | Some _ => st
      | None =>
          match detect_bad st with
          | 1%Z :: _ :: bad => upd st (r_hosts st) (r_pc st) (r_down st) (r_cor st) (Some (map Z.to_N bad)) false false None (r_soup st) (r_gen st)
          | 2%Z :: _ => upd st (r_hosts st) (r_pc st) (r_down st) (r_cor st) None true false None (r_soup st) (r_gen st)
          | _ => upd st (r_hosts st) (r_pc st) (r_down st) (r_cor st) None false false None (r_soup st) (r_gen st)
          end
      end
  | EStart newids incs =>
      match r_att st, r_task st with
      | None, Some bad =>
          match reconstruct_plan (r_n st) (r_m st) (r_hosts st) bad newids with
          | Some p =>
              if fresh (r_hosts st) newids && distinctN newids && Nat.ltb 0 incs
              then upd st (r_hosts st) (r_pc st) (r_down st) (r_cor st) None (r_unrec st) true
                       (Some {| a_bad := bad; a_new := newids; a_plan := p; a_left := incs; a_hit := [] |}) (r_soup st) (S (r_gen st))
              else upd st (r_hosts st) (r_pc st) (r_down st) (r_cor st) None (r_unrec st) false None (r_soup st) (r_gen st)
          | None => upd st (r_hosts st) (r_pc st) (r_down st) (r_cor st) None (r_unrec st) false None (r_soup st) (r_gen st)
          end
      | _, _ => st
      end
  | EInc fail touch =>
      match r_att st with
      | Some a =>
          match a_left a with
          | O => st
          | S k =>
              let srcs_ok := forallb (intact_at (r_pc st) (r_hosts st)) (p_src (a_plan a)) in
              if fail || negb srcs_ok
              then abort (if touch then set_pc st (write_all (r_pc st) (dkeys (r_hosts st) a) Partial) else st)
              else
                let pc := write_all (r_pc st) (dkeys (r_hosts st) a) (match k with O => Intact | S _ => Partial end) in
                upd st (r_hosts st) pc (r_down st) (r_cor st) (r_task st) (r_unrec st) (r_pend st)
                    (Some {| a_bad := a_bad a; a_new := a_new a; a_plan := a_plan a; a_left := k; a_hit := a_hit a |}) (r_soup st) (r_gen st)
          end
      | None => st
      end
  | EReplyLost =>
      match r_att st with
      | Some a => if Nat.eqb (a_left a) 0 then abort st else st
      | None => st
      end
  | ELeader => upd st (r_hosts st) (r_pc st) [] [] None false false None (r_soup st) (S (r_gen st))
  | ECommit =>
      match r_att st with
      | Some a => if Nat.eqb (a_left a) 0
                  then upd st (p_hosts (a_plan a)) (r_pc st) (r_down st) [] (r_task st) (r_unrec st) false None (r_soup st) (S (r_gen st))
                  else st
      | None => st
      end
  | EGC s i =>
      match r_pc st s i with
      | Some _ => if negb (N.eqb (named st i) s) && negb (r_pend st)
                  then upd st (r_hosts st) (r_pc st) (r_down st) (r_cor st) (r_task st) (r_unrec st) (r_pend st) (r_att st)
                           (r_soup st ++ [(s, i, r_gen st)]) (r_gen st)
                  else st
      | None => st
      end
  | EDeliver k =>
      match nth_error (r_soup st) k with
      | Some (s, i, _) =>
          upd st (r_hosts st) (pupd (r_pc st) s i None) (r_down st) (r_cor st) (r_task st) (r_unrec st) (r_pend st) (r_att st)
              (firstn k (r_soup st) ++ skipn (S k) (r_soup st)) (r_gen st)
      | None => st
      end
  end.

(* the premise, on the named list and on the list of an encoded attempt that awaits its commit *)
Definition rs_safe (st : rs) : bool :=
  Nat.leb (r_n st) (intact_named st) &&
  match r_att st with
  | Some a => if Nat.eqb (a_left a) 0 then Nat.leb (r_n st) (intact_count (r_pc st) (p_hosts (a_plan a))) else true
  | None => true
  end.
(* the premise as worded: on the named list only *)
Definition rs_premise (st : rs) : bool := Nat.leb (r_n st) (intact_named st).

Definition is_fault (ev : rev) : bool := match ev with EFault _ _ _ => true | _ => false end.

Definition rs_ok_ev (st : rs) (ev : rev) : bool :=
  match ev with
  | EFault _ _ _ => rs_safe (rstep st ev)
  | EDeliver k => match nth_error (r_soup st) k with Some (_, _, g) => Nat.eqb g (r_gen st) | None => true end
  | _ => true
  end.
(* the weaker schedule: faults bounded by the premise as worded *)
Definition rs_ok_ev_weak (st : rs) (ev : rev) : bool :=
  match ev with
  | EFault _ _ _ => rs_premise (rstep st ev)
  | _ => rs_ok_ev st ev
  end.

Fixpoint rs_ok_run (f : rs -> rev -> bool) (st : rs) (evs : list rev) : bool :=
  match evs with [] => true | ev :: r => f st ev && rs_ok_run f (rstep st ev) r end.
Fixpoint rrun (st : rs) (evs : list rev) : rs := match evs with [] => st | ev :: r => rrun (rstep st ev) r end.

(* a freshly committed chunk: every named piece intact *)
Definition rs_init (n m : nat) (hosts : list N) : rs :=
  {| r_n := n; r_m := m; r_hosts := hosts;
     r_pc := fun s i => if Nat.ltb i (length hosts) && N.eqb (nth i hosts 0%N) s then Some Intact else None;
     r_down := []; r_cor := []; r_task := None; r_unrec := false; r_pend := false; r_att := None; r_soup := []; r_gen := 0 |}.
