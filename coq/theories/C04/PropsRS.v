(* C04/PropsRS.v — property-level theorems of C04 for erasure-coded chunks: corollaries of the C13 development
   (Lib/RS codec theorems, C13.Model reconstruct_plan / rs_encode_one) and of the judgements of C04/RSModel.v that the
   RS harness of C04 is checked against on every run. *)
From Coq Require Import List NArith ZArith Arith Bool Lia.
From BLB Require Import Lib.RS C13.Model C04.RSProofs.
From BLB Require C04.RSModel.
(* This file imports DEFINITIONS of the C13 development only (see the remark in RSProofs.v); the corollaries that rest on
   C13's codec proofs (c04_rs_reconstruction_exact, c04_rs_data_recoverable, the codec clause of refusal) are compiled in
   C04/PropsRSCodec.v. *)
Import ListNotations.
Local Open Scope nat_scope.

(* [FULL] c04_rs_verdict_sound - what the verdict that the RS harness obtains for every reconstruction attempt means. If an attempt that sent an RSEncode is judged consistent then reconstructChunk's plan for the observed host list and bad set and chosen servers exists and the index map and destinations on the wire are the plan's and if the attempt reported success the pieces found at the destinations are exactly what the reconstruct verify and write loop yields from the pieces the sources held and the host list found in the durable state afterwards is the plan's while if it reported an error the durable host list is unchanged. With c04_rs_reconstruction_exact this is the statement that a reconstruction never commits a host whose piece differs from the original piece at that index *)
Theorem c04_rs_verdict_sound :
  forall n m hosts bad sent imap dests pieces errf written after,
    C04.RSModel.rs_judge n m hosts bad sent imap dests pieces errf written after = 1%Z -> sent <> 0%Z ->
    exists p, reconstruct_plan n m (C04.RSModel.to_vec hosts) (C04.RSModel.to_vec bad)
                (firstn (length (filter (fun h => existsb (N.eqb h) (C04.RSModel.to_vec bad)) (C04.RSModel.to_vec hosts))) (C04.RSModel.to_vec dests)) = Some p /\
              C04.RSModel.zlist_eqb imap (p_map p) = true /\ C04.RSModel.nlist_eqb (C04.RSModel.to_vec dests) (p_dests p) = true /\
              (errf = 0%Z ->
                 exists expect, rs_encode_one n m (C04.RSModel.rs_M n m) (map C04.RSModel.to_vec pieces) imap (map (fun d => negb (d =? 0)%Z) dests) = Some expect /\
                                C04.RSModel.written_ok expect written = true /\
                                C04.RSModel.nlist_eqb (C04.RSModel.to_vec after) (p_hosts p) = true) /\
              (errf <> 0%Z -> C04.RSModel.zlist_eqb after hosts = true).
Proof. exact judge_ok_sent. Qed.
Print Assumptions c04_rs_verdict_sound.

(* [FULL] c04_rs_refuse_when_hopeless - fewer than n good pieces means no reconstruction at every layer. The plan of reconstructChunk does not exist when fewer than n hosts are outside the bad set or when no host is bad so no RSEncode may be sent and the harness verdict for an RSEncode sent without a plan is a violation code. The recovery loop's chunkTask queues nothing and marks the chunk unrecoverable when more than m pieces are bad. The codec clause which says that with fewer than n shards present the library returns an error and no shards is C13's rs_too_few and is restated in PropsRSCodec *)
Theorem c04_rs_refuse_when_hopeless :
  (forall n m hosts bad newids, length (ok_of hosts bad) < n -> reconstruct_plan n m hosts bad newids = None) /\
  (forall n m hosts bad newids, dst_of hosts bad = [] -> reconstruct_plan n m hosts bad newids = None) /\
  (forall n m hosts bad sent imap dests pieces errf written after,
     sent <> 0%Z ->
     reconstruct_plan n m (C04.RSModel.to_vec hosts) (C04.RSModel.to_vec bad)
       (firstn (length (filter (fun h => existsb (N.eqb h) (C04.RSModel.to_vec bad)) (C04.RSModel.to_vec hosts))) (C04.RSModel.to_vec dests)) = None ->
     C04.RSModel.rs_judge n m hosts bad sent imap dests pieces errf written after = 25%Z) /\
  (forall m hosts down cor,
     m < length (filter (fun i => Cluster.Model.zmem (nth i hosts 0%Z) down || existsb (Nat.eqb i) cor) (seq 0 (length hosts))) ->
     C04.RSModel.rs_chunk_task_of m hosts down cor = [2%Z; 0%Z]).
Proof.
  split; [exact plan_refuses_too_few|]. split; [exact plan_refuses_nothing_bad|]. split; [exact judge_refuse|].
  exact chunk_task_hopeless.
Qed.
Print Assumptions c04_rs_refuse_when_hopeless.

(* [FULL] c04_rs_commit_changes_exactly_bad_indices - whenever reconstructChunk's plan exists which is the only way an RSEncode and a commit can happen the bad set leaves at least n hosts good and covers at least one host and one server was chosen per bad index and the host list the plan commits has the length of the old one and names the chosen server q at the q th bad index and the old server at every index that is not bad. So a reconstruction never replaces the host of a good piece and never leaves a bad host in place *)
Theorem c04_rs_commit_changes_exactly_bad_indices :
  forall n m hosts bad newids p,
    reconstruct_plan n m hosts bad newids = Some p ->
    n <= length (ok_of hosts bad) /\ dst_of hosts bad <> [] /\ length newids = length (dst_of hosts bad) /\
    length (p_hosts p) = length hosts /\
    (forall q, q < length (dst_of hosts bad) -> nth (nth q (dst_of hosts bad) 0) (p_hosts p) 0%N = nth q newids 0%N) /\
    (forall i, ~ In i (dst_of hosts bad) -> nth i (p_hosts p) 0%N = nth i hosts 0%N).
Proof.
  intros n m hosts bad newids p H. destruct (plan_newids_length _ _ _ _ _ _ H) as (L & D & O).
  destruct (plan_commit_exact _ _ _ _ _ _ H) as (A & B & C). repeat split; assumption.
Qed.
Print Assumptions c04_rs_commit_changes_exactly_bad_indices.
