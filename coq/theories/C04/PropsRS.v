(* C04/PropsRS.v — property-level theorems of C04 for erasure-coded chunks: corollaries of the C13 development
   (Lib/RS codec theorems, C13.Model reconstruct_plan / rs_encode_one) and of the judgements of C04/RSModel.v that the
   RS harness of C04 is checked against on every run. *)
From Coq Require Import List NArith ZArith Arith Bool Lia.
From BLB Require Import Lib.RS Lib.RSProofs C13.Model C13.Props C04.RSProofs.
From BLB Require C04.RSModel.
Import ListNotations.

(* [FULL] c04_rs_reconstruction_exact - for every configured class and every stripe contents and every durable host list and every bad set that covers between one and m pieces with the first n good pieces holding their original bytes whatever the bad pieces hold and whatever nonzero servers placement chose the plan of reconstructChunk exists and its index map sources destinations and padding make the reconstruct verify and write loop of RSEncode write exactly original piece i to the destination chosen for every bad index i and nothing to the padded destinations and the host list it commits has the same length and names the new server at every bad index and the old server at every other index *)
Theorem c04_rs_reconstruction_exact :
  forall n m, In (n, m) rs_classes ->
  forall len d hosts bad newids pieces,
    wf_data n len d -> length hosts = n + m ->
    let E := encode_shards n m d in
    let dst := dst_of hosts bad in
    let ok := ok_of hosts bad in
    dst <> [] -> length dst <= m -> length newids = length dst -> Forall (fun id => id <> 0%N) newids ->
    (forall i, In i (firstn n ok) -> nth i pieces [] = nth i E []) ->
    exists p, reconstruct_plan n m hosts bad newids = Some p /\
              rs_encode_one n m (class_matrix n m) pieces (p_map p) (map (fun id => negb (N.eqb id 0)) (p_dests p))
              = Some (map (fun i => Some (nth i E [])) dst ++ repeat None (m - length dst)) /\
              length (p_hosts p) = length hosts /\
              (forall q, q < length dst -> nth (nth q dst 0) (p_hosts p) 0%N = nth q newids 0%N) /\
              (forall i, ~ In i dst -> nth i (p_hosts p) 0%N = nth i hosts 0%N).
Proof.
  intros n m C len d hosts bad newids pieces WF L E dst ok ND LM LN NZ SRC.
  subst dst ok. unfold dst_of, ok_of in *.
  assert (SQ : seq 0 (length hosts) = seq 0 (n + m)) by now rewrite L.
  rewrite SQ in *.
  destruct (indexmap_correct n m C len d hosts bad newids pieces WF L ND LM LN NZ SRC) as (p & P & _ & _ & _ & ENC).
  exists p. split; [exact P|]. split; [exact ENC|].
  pose proof (plan_hosts_eq _ _ _ _ _ _ P) as H. unfold dst_of in H. rewrite SQ in H. rewrite H.
  apply reconstruct_hosts_updated.
  - apply NoDup_filter, seq_NoDup.
  - exact LN.
  - intros i Hi. apply filter_In in Hi as [Hi _]. apply in_seq in Hi. lia.
Qed.
Print Assumptions c04_rs_reconstruction_exact.

(* [FULL] c04_rs_verdict_sound - what the verdict that the RS harness obtains for every reconstruction attempt means. If an attempt that sent an RSEncode is judged consistent then reconstructChunk's plan for the observed host list and bad set and chosen servers exists and the index map and destinations on the wire are the plan's and if the attempt reported success the pieces found at the destinations are exactly what the reconstruct verify and write loop yields from the pieces the sources held and the host list found in the durable state afterwards is the plan's while if it reported an error the durable host list is unchanged. With c04_rs_reconstruction_exact this is the statement that a reconstruction never commits a host whose piece differs from the original piece at that index *)
Theorem c04_rs_verdict_sound :
  forall n m hosts bad sent imap dests pieces errf written after,
    C04.RSModel.rs_judge n m hosts bad sent imap dests pieces errf written after = 1%Z -> sent <> 0%Z ->
    exists p, reconstruct_plan n m (C04.RSModel.to_vec hosts) (C04.RSModel.to_vec bad)
                (firstn (length (filter (fun h => existsb (N.eqb h) (C04.RSModel.to_vec bad)) (C04.RSModel.to_vec hosts))) (C04.RSModel.to_vec dests)) = Some p /\
              C04.RSModel.zlist_eqb imap (p_map p) = true /\ C04.RSModel.nlist_eqb (C04.RSModel.to_vec dests) (p_dests p) = true /\
              (errf = 0%Z ->
                 exists expect, rs_encode_one n m (C04.RSModel.rs_M n m) (map C04.RSModel.to_vec pieces) imap (map (fun d => negb (d =? 0)%Z) dests) = Some expect /\
                                C04.RSModel.written_ok expect written = true /\
                                C04.RSModel.nlist_eqb (C04.RSModel.to_vec after) (p_hosts p) = true) /\
              (errf <> 0%Z -> C04.RSModel.zlist_eqb after hosts = true).
Proof. exact judge_ok_sent. Qed.
Print Assumptions c04_rs_verdict_sound.

(* [FULL] c04_rs_refuse_when_hopeless - fewer than n good pieces means no reconstruction at every layer. The plan of reconstructChunk does not exist when fewer than n hosts are outside the bad set or when no host is bad so no RSEncode may be sent and the harness verdict for an RSEncode sent without a plan is a violation code. The recovery loop's chunkTask queues nothing and marks the chunk unrecoverable when more than m pieces are bad. And the codec itself returns an error and no shards when fewer than n shards are present whatever the matrix and the contents *)
Theorem c04_rs_refuse_when_hopeless :
  (forall n m hosts bad newids, length (ok_of hosts bad) < n -> reconstruct_plan n m hosts bad newids = None) /\
  (forall n m hosts bad newids, dst_of hosts bad = [] -> reconstruct_plan n m hosts bad newids = None) /\
  (forall n m hosts bad sent imap dests pieces errf written after,
     sent <> 0%Z ->
     reconstruct_plan n m (C04.RSModel.to_vec hosts) (C04.RSModel.to_vec bad)
       (firstn (length (filter (fun h => existsb (N.eqb h) (C04.RSModel.to_vec bad)) (C04.RSModel.to_vec hosts))) (C04.RSModel.to_vec dests)) = None ->
     C04.RSModel.rs_judge n m hosts bad sent imap dests pieces errf written after = 25%Z) /\
  (forall m hosts down cor,
     m < length (filter (fun i => Cluster.Model.zmem (nth i hosts 0%Z) down || existsb (Nat.eqb i) cor) (seq 0 (length hosts))) ->
     C04.RSModel.rs_chunk_task_of m hosts down cor = [2%Z; 0%Z]) /\
  (forall n total M shards data_only,
     length shards = total -> length (present_indices shards) < n -> length (present_indices shards) <> total ->
     exists e, rs_reconstruct_gen n total M shards data_only = inl e).
Proof.
  split; [exact plan_refuses_too_few|]. split; [exact plan_refuses_nothing_bad|]. split; [exact judge_refuse|].
  split; [exact chunk_task_hopeless | exact rs_too_few].
Qed.
Print Assumptions c04_rs_refuse_when_hopeless.

(* [FULL] c04_rs_data_recoverable - the codec half of no loss for chunks. For every configured class and every stripe contents erasing any set of at most m pieces and decoding gives back exactly the data pieces and with the full reconstruction exactly all original pieces so as long as n intact pieces are named every original piece content is recoverable which is what the harness monitor recomputes with the real library after every step *)
Theorem c04_rs_data_recoverable :
  forall n m, In (n, m) rs_classes ->
  forall len d S data_only,
    wf_data n len d -> erased_count n m S <= m ->
    rs_reconstruct_gen n (n + m) (class_matrix n m) (erase S (encode_shards n m d)) data_only
    = inr (d ++ (if data_only then skipn n (erase S (encode_shards n m d)) else skipn n (encode_shards n m d))).
Proof. exact rs_reconstruct_exact. Qed.
Print Assumptions c04_rs_data_recoverable.
