(* C04/Props.v — property-level theorems of C04 over the C04 model (Cluster model + fault events + recovery
   bookkeeping, coq/theories/C04/Model.v). *)
From Coq Require Import List ZArith Bool Lia.
From BLB Require Import Gen.Consts Cluster.Model Cluster.Proofs Cluster.Frame Cluster.Window Cluster.Sched C04.Model C04.Proofs C04.Witness
     C04.NoLossInv C04.NoLossSched C04.NoLossRun C04.NoLoss C04.NoLossHost C04.NoLossKeep C04.Progress.
Import ListNotations.
Open Scope Z_scope.

(* [FULL] c04_event_frame - one event of the extended alphabet whatever it is - a fault or a repair step or a client step with any delivery mode including lost and duplicated replies and the crash inside a pull or a detect round or the start of a recovery task or a leader change - changes replica data and on disk corruption marks nowhere or only at the one replica a corrupt or delete fault names or only at the one replica that an executed RPC addresses. So no step of replicateTract or PullTract or of the recovery loop however interrupted or repeated touches any replica other than the destination of a pull or the target of a bump *)
Theorem c04_event_frame : forall cs ev, cstep_frame cs ev.
Proof. exact cstep_frame_holds. Qed.
Print Assumptions c04_event_frame.

(* [PARTIAL] c04_repair_never_degrades - intact replicas stay intact in the event form. A replica that is present and undamaged before an event is present and undamaged with identical version and content after it unless the event is a fault that names this replica or the execution of an RPC addressed to this very replica. Missing for the full claim is the run level half that a replica becomes a durable host only after a pull that succeeded for the committing task which the F21 family of schedules contradicts on the current code *)
Theorem c04_repair_never_degrades_partial : forall cs ev k r,
  rget (s_reps (c_base cs)) k = Some r -> rmem k (c_cor cs) = false ->
  let cs' := fst (cstep cs ev) in
  (rget (s_reps (c_base cs')) k = Some r /\ rmem k (c_cor cs') = false) \/
  (exists ts b t, (ev = [60; ts; b; t] \/ ev = [61; ts; b; t]) /\ k = (ts, tkey b t)) \/
  (exists mode rest rp r1, ev = 7 :: mode :: rest /\ parse_rpc rest = Some (rp, r1) /\ mode <> 4 /\ k = rpc_key_of rp).
Proof.
  intros cs ev k r G M cs'. subst cs'.
  destruct (cstep_frame_holds cs ev) as [[A B]|[(ts & b & t & E & SE & CS)|(mode & rest & rp & r1 & E & P & N & SE & CS)]].
  - left. rewrite A, B. auto.
  - destruct (rk_eqb k (ts, tkey b t)) eqn:K.
    + right; left. exists ts, b, t. split; [exact E|]. now apply rk_eqb_eq.
    + left. assert (NK : k <> (ts, tkey b t)) by (intro X; rewrite X, rk_eqb_refl in K; discriminate).
      rewrite (SE k NK), (CS k NK). auto.
  - destruct (rk_eqb k (rpc_key_of rp)) eqn:K.
    + right; right. exists mode, rest, rp, r1. repeat split; try assumption. now apply rk_eqb_eq.
    + left. assert (NK : k <> rpc_key_of rp) by (intro X; rewrite X, rk_eqb_refl in K; discriminate).
      rewrite (SE k NK), (CS k NK). auto.
Qed.
Print Assumptions c04_repair_never_degrades_partial.

(* [FULL] c04_pull_copies_only_undamaged_current_source - the Store rule of PullTract with checksum failures for every state and every source list. Replicas other than the destination keep data and marks. If the pull reports success then unless the source list was empty the destination holds exactly the content of one of the named sources which is another server whose copy is at exactly the requested version and has no damaged blocks and the destination carries that version and no damage mark. If it reports an error the destination is either gone or completely untouched. A pull addressed to the wrong server changes nothing *)
Theorem c04_pull_copies_only_undamaged_current_source :
  forall reps cor fl nts ts tsid tk ver srcs reps' cor' fl' e,
    c04_pull reps cor fl nts ts tsid tk ver srcs = (reps', cor', fl', e) ->
    pull_post reps cor ts tk ver srcs reps' cor' e \/ (e = cl_ErrWrongTractserver /\ reps' = reps /\ cor' = cor).
Proof. exact c04_pull_post. Qed.
Print Assumptions c04_pull_copies_only_undamaged_current_source.

(* [FULL] c04_crashed_pull_leaves_no_plausible_copy_elsewhere - a tractserver crash inside PullTract for every state and source list leaves every other replica alone and leaves the destination absent or untouched or as an EMPTY file that already carries the pulled version which is the partial copy the retry logic must cope with *)
Theorem c04_crashed_pull_leaves_no_plausible_copy_elsewhere :
  forall srcs reps cor fl nts ts tk ver reps' cor' fl',
    c04_pull_crash reps cor fl nts ts tk ver srcs = (reps', cor', fl') ->
    same_except reps reps' (ts, tk) /\ cor_same cor cor' (ts, tk) /\
    (rget reps' (ts, tk) = None \/ (reps' = reps /\ cor' = cor) \/
     (rget reps' (ts, tk) = Some {| r_ver := ver; r_app := [] |} /\ rmem (ts, tk) cor' = false)).
Proof. exact c04_pull_crash_post. Qed.
Print Assumptions c04_crashed_pull_leaves_no_plausible_copy_elsewhere.

(* [FULL] c04_refuse_when_hopeless - all hosts bad means no durable change. First replicateTract whose bad set covers every durable host ends at once with an error and issues no RPC and changes no durable record and no replica. Second the recovery loop's tract scan gives a tract all of whose hosts are down or reported corrupt no queue entry and marks it unrecoverable. Third the runner cannot start a task for a tract without a queue entry *)
Theorem c04_refuse_when_hopeless :
  (forall st t, t_kind t = 5 ->
     (forall dv hosts, tget (s_dtr st) (tkey (t_blob t) (t_tract t)) = Some (dv, hosts) -> forall h, In h hosts -> zmem h (t_bad t) = true) ->
     exists err, err <> cl_NoError /\ activate st t = finish_task st t err /\
                 s_dtr (activate st t) = s_dtr st /\ s_reps (activate st t) = s_reps st /\
                 length (s_pool (activate st t)) = length (s_pool st)) /\
  (forall down rcor rent unrec tk dv hosts rcor' rent' unrec',
     rec_each down (rcor, rent, unrec) (tk, (dv, hosts)) = (rcor', rent', unrec') -> hosts <> [] ->
     (forall h, In h hosts -> zmem h down = true \/ exists s, tget rcor tk = Some s /\ zmem h s = true) ->
     ent_get rent' tk = None /\ In tk unrec') /\
  (forall cs op gen blob tract nbad r,
     ent_get (c_rent cs) (tkey blob tract) = None -> ev_pop cs (op :: gen :: blob :: tract :: nbad :: r) = (cs, [-8])).
Proof.
  split; [|split; [exact rec_each_hopeless | exact ev_pop_needs_entry]].
  intros st t K H. destruct (activate_hopeless st t K H) as (err & NE & A). exists err. split; [exact NE|]. split; [exact A|].
  rewrite A. split; [apply dtr_finish_task|]. split; [apply reps_finish_task | apply pool_len_finish_task].
Qed.
Print Assumptions c04_refuse_when_hopeless.

(* [PARTIAL] c04_no_loss - the fault half. Every fault or detection event namely corrupt and delete and scrub step and CheckTracts and health belief and detect round preserves the C01 visibility predicate at every replica. A client Read or Write that reaches a replica with damaged blocks at the matching version returns the corrupt data error class with no payload and leaves data untouched and lands in the failure report. A read of a deleted replica returns no such tract with no payload. A damaged source is never copied by a pull because the attempt fails and the source reports itself. Missing is preservation of the visibility predicate by the repair events themselves which needs the C01 invariants that F21 refutes on the current code *)
Theorem c04_no_loss_partial :
  (forall cs c a b t h p, fault_code c = true ->
     vis_ok (c_base cs) b t h p = true -> vis_ok (c_base (fst (cstep cs (c :: a)))) b t h p = true) /\
  (forall cs e oracle,
     (k_kind (p_rpc e) = K_Read \/ k_kind (p_rpc e) = K_Write) ->
     hits_corruption cs (k_ts (p_rpc e)) (tkey (k_blob (p_rpc e)) (k_tract (p_rpc e))) (k_ver (p_rpc e)) = true ->
     exists cs', c04_exec_rpc cs e oracle = (cs', [cl_ErrCorruptData], []) /\
                 c_base cs' = c_base cs /\ c_cor cs' = c_cor cs /\
                 rmem (k_ts (p_rpc e), tkey (k_blob (p_rpc e)) (k_tract (p_rpc e))) (c_fl cs') = true) /\
  (forall reps ts tk ver len off, rget reps (ts, tk) = None -> ts_read reps ts tk ver len off = (cl_ErrNoSuchTract, 0, [])) /\
  (forall reps cor fl nts ts tk ver src s,
     rget reps (ts, tk) = None -> 0 < src <= nts -> rget reps (src, tk) = Some s -> r_ver s = ver -> rmem (src, tk) cor = true -> src <> ts ->
     exists cor', c04_pull_once reps cor fl nts ts tk ver src = (reps, cor', radd fl (src, tk), cl_ErrCorruptData)).
Proof.
  split; [exact faults_keep_visibility|]. split; [exact corrupt_access_fails_closed|].
  split; [exact deleted_read_fails_closed | exact corrupt_source_not_copied].
Qed.
Print Assumptions c04_no_loss_partial.

(* [PARTIAL] c04_repair_progress - functional form for the three steps of a repair taken one by one. The bump of a survivor at the durable version or already bumped succeeds and keeps its content. PullTract succeeds as soon as the destination is not ahead of the requested version and one named source on another server holds an undamaged copy at that version whatever the other sources do and then by the pull theorem the destination is a copy of such a source. The commit under the leader's own term at old plus one with a host list of the same length succeeds and installs exactly that list. Missing is the composition over the event scheduler with the selected task running to completion and the deficit measure *)
Theorem c04_repair_progress_partial :
  (forall reps ts tk dv r,
     rget reps (ts, tk) = Some r -> r_ver r = dv \/ r_ver r = dv + 1 -> 1 <= dv ->
     exists reps', ts_setversion reps ts ts tk (dv + 1) = (reps', cl_NoError) /\
                   exists r', rget reps' (ts, tk) = Some r' /\ r_ver r' = dv + 1 /\ r_app r' = r_app r) /\
  (forall srcs reps cor fl nts ts tk ver last,
     (forall r, rget reps (ts, tk) = Some r -> r_ver r <= ver) ->
     (forall s, In s srcs -> s <> ts) ->
     (exists src, In src srcs /\ good_source reps cor nts ts tk ver src) ->
     exists reps' cor' fl', c04_pull_loop reps cor fl nts ts tk ver srcs last = (reps', cor', fl', cl_NoError)) /\
  (forall st blob tract dv hosts hosts' repl nt,
     zget (s_blobs st) blob = Some (repl, nt) -> tract <= nt ->
     tget (s_dtr st) (tkey blob tract) = Some (dv, hosts) -> length hosts' = length hosts ->
     exists st', change_tract st (s_term st) blob tract (dv + 1) hosts' = (st', cl_NoError) /\
                 tget (s_dtr st') (tkey blob tract) = Some (dv + 1, hosts') /\ s_reps st' = s_reps st).
Proof. split; [exact bump_progress|]. split; [exact c04_pull_progress | exact commit_progress]. Qed.
Print Assumptions c04_repair_progress_partial.

(* ------------------------------------------------------------------ non-vacuity: the directed schedule dA *)
(* every durable host of the tract holds an undamaged replica at the durable version, all with the same content *)
Definition full_redundancy (cs : cstate) (blob tract repl : Z) : bool :=
  match tget (s_dtr (c_base cs)) (tkey blob tract) with
  | None => false
  | Some (dv, hosts) =>
      (Z.of_nat (length hosts) =? repl) && distinct hosts &&
      forallb (fun h => match rget (s_reps (c_base cs)) (h, tkey blob tract) with
                        | Some r => (r_ver r =? dv) && negb (rmem (h, tkey blob tract) (c_cor cs)) &&
                                    list_eqb (dump_replica (s_reps (c_base cs)) h (tkey blob tract))
                                             (dump_replica (s_reps (c_base cs)) (hd 0 hosts) (tkey blob tract))
                        | None => false
                        end) hosts
  end.

(* after the failed first attempt the tract is degraded and the report is still on the books; at the end of
   the schedule redundancy is back; the model had no complaint along the way *)
Example dA_degraded_then_restored :
  full_redundancy (crun_state cinit dA_prefix) 0 0 2 = false /\
  c_rcor (fst (cstep (crun_state cinit dA_prefix) [66])) <> [] /\
  full_redundancy (crun_state cinit dA_ops) 0 0 2 = true /\
  forallb line_ok (crun cinit dA_ops) = true.
Proof. repeat split; try (vm_compute; reflexivity). vm_compute. discriminate. Qed.

(* the scenario above resolveConflicts (disk scenario dX0): create lands on disk 0 and is never acknowledged,
   restart without disk 0, retried create and an overwrite on disk 1 are acknowledged, restart with both disks,
   disk 0 first: equal versions, both copies go, the read fails closed and Check reports the tract missing *)
Example dX0_tie_fails_closed :
  drun (BLB.Store.Model.init false)
       [[70]; [75; 0]; [71; 0; 1; 40; 0; 0]; [74]; [75; 1]; [71; 0; 2; 40; 0; 0]; [72; 0; 1; 3; 40; 0]; [74]; [75; 0]; [75; 1];
        [73; 0; 1; 40; 0]; [77; 1; 0; 1]]
  = [[]; [0]; [0]; []; [0]; [0]; [0]; []; [0]; [0]; [cl_ErrNoSuchTract; 0]; [1; 0; 1]].
Proof. vm_compute. reflexivity. Qed.

(* ------------------------------------------------------------------ run level: the visibility ladder over the C04 alphabet *)
(* The schedules are those accepted by the decidable predicate NoLossSched.c04_ok_run 4 (text in NoLossSched.v):
   on the events of the Cluster alphabet exactly Sched.ok_ev 4 of the C01 ladder (single writer discipline, what the
   real client does, fresh task ids, no probe event 17, lost and duplicated replies, failed requests, restarts and
   leader changes allowed) with C01's two carve outs - no superseded PullTract takes effect (Sched.stale_pull, the F21
   trigger) and no crash in the middle of PullTract (mode 6); corrupt faults on any replica, delete faults on replicas
   of durable tracts, scrub steps, heartbeats with failure reports, CheckTracts, health beliefs, detect rounds and
   popTask plus runTask under a fresh id are all accepted; and after every event the premise of the property must
   hold as the decidable check NoLossSched.premise - every durable tract has a durable host whose replica is present
   and undamaged and at a version not below the durable one and holds the record of every acknowledged write. *)

(* [PARTIAL] c04_no_loss at run level - along every schedule accepted by c04_ok_run 4 which is the alphabet of the C01 visibility ladder at its top level extended by corrupt and delete faults and scrub and heartbeat and CheckTracts and health belief and detect round and popTask plus runTask events with the property's premise checked after every event and with exactly the two carve outs of C01 namely no superseded PullTract takes effect and no crash inside PullTract - first every durable host of every tract damaged or not shows at the durable version on every byte the newest write covering it whenever that write was acknowledged and zero if never written so reads keep returning acknowledged bytes whichever undamaged host answers - second every durable tract has a host whose replica is present and undamaged at the durable version or one ahead and holds the record of every acknowledged write and every present replica of a durable host is in that version window and holds all those records - third a Read executed at a tractserver answers exactly read_reply that is no such tract if the replica is gone and version mismatch if the version differs and the corrupt data error with no payload if the replica is damaged and otherwise the rendering of the replica's content and it changes neither data nor damage marks so a read answered by a damaged replica fails closed - fourth the premise is preserved by repair in the sense that an intact current replica stays intact and current through every accepted event whether SetVersion or PullTract however late or duplicated or retried or a reply delivery or task step or detect round unless a corrupt or delete fault names it or the event commits a new durable record for its tract. PARTIAL because of the two carve outs inherited from C01 and because the commit case of the fourth clause is refuted by c04_repair_keeps_premise_refuted *)
Theorem c04_no_loss_run_partial : forall evs,
  c04_ok_run 4 cinit evs = true ->
  let cs := crun_state cinit evs in
  (forall b t h p, 0 <= p < TL -> vis_ok (c_base cs) b t h p = true) /\
  (forall tk dv H, tget (s_dtr (c_base cs)) tk = Some (dv, H) ->
     (exists h r, In h H /\ rget (s_reps (c_base cs)) (h, tk) = Some r /\ rmem (h, tk) (c_cor cs) = false /\
                  dv <= r_ver r <= dv + 1 /\ holds_acked (c_base cs) tk r = true) /\
     (forall h r, In h H -> rget (s_reps (c_base cs)) (h, tk) = Some r ->
                  dv <= r_ver r <= dv + 1 /\ holds_acked (c_base cs) tk r = true)) /\
  (forall e oracle, k_kind (p_rpc e) = K_Read ->
     exists cs', c04_exec_rpc cs e oracle =
                   (cs', read_reply cs (k_ts (p_rpc e)) (tkey (k_blob (p_rpc e)) (k_tract (p_rpc e))) (k_ver (p_rpc e)) (k_len (p_rpc e)) (k_off (p_rpc e)), []) /\
                 c_base cs' = c_base cs /\ c_cor cs' = c_cor cs) /\
  (forall ev tk dv H h, c04_ok_ev 4 cs ev = true ->
     tget (s_dtr (c_base cs)) tk = Some (dv, H) -> In h H -> intact_current cs tk dv h = true ->
     let cs' := fst (cstep cs ev) in
     (tget (s_dtr (c_base cs')) tk = Some (dv, H) /\ intact_current cs' tk dv h = true) \/
     (exists ts b t, (ev = [60; ts; b; t] \/ ev = [61; ts; b; t]) /\ (h, tk) = (ts, tkey b t)) \/
     tget (s_dtr (c_base cs')) tk <> Some (dv, H)).
Proof. exact c04_no_loss_run2. Qed.
Print Assumptions c04_no_loss_run_partial.

(* non-vacuity: the directed schedule dA (corrupt fault, scrub, report, failed repair, detect rounds, retried repair,
   reads) is accepted with the premise holding after every event, at level 2 and above but not at level 1 (it
   contains a request that fails without executing); one write is acknowledged, a fault and a repair happen *)
Example c04_no_loss_run_nonvacuous :
  c04_ok_run 4 cinit dA_ops && c04_ok_run 2 cinit dA_ops && negb (c04_ok_run 1 cinit dA_ops) &&
  (1 <=? Z.of_nat (length (s_acked (c_base (crun_state cinit dA_ops))))) &&
  existsb (fun ev => hd 0 ev =? 60) dA_ops && existsb (fun ev => hd 0 ev =? 67) dA_ops &&
  full_redundancy (crun_state cinit dA_ops) 0 0 2 = true.
Proof. vm_compute. reflexivity. Qed.

(* [REFUTED] c04_repair_keeps_premise - the claim that every repair event preserves the premise fails in the model at the commit - there is a schedule accepted by c04_ok_run 4 so with the premise holding after every event and every fault respecting it followed by one accepted event that is no fault namely the delivery of a PullTract reply code 8 after which the premise is false. In the witness which is dA followed by NoLossKeep.drop_ext the curator believes a serving host down and repairs around it and the survivor and the fresh copy are damaged by two faults while the believed down host still holds the intact current replica and the commit then installs the two damaged replicas and drops the intact one which stays at the old version. NoLossKeep.repair_drops_last_intact_replica has the details by computation. Model level only - not replayed on the real code *)
Theorem c04_repair_keeps_premise_refuted :
  exists evs ev, c04_ok_run 4 cinit evs = true /\ c04_ok_ev 4 (crun_state cinit evs) ev = true /\ hd 0 ev = 8 /\
                 premise (crun_state cinit evs) = true /\ premise (fst (cstep (crun_state cinit evs) ev)) = false.
Proof. exact repair_keeps_premise_refuted. Qed.
Print Assumptions c04_repair_keeps_premise_refuted.

(* ------------------------------------------------------------------ run level: repair never degrades *)
(* [PARTIAL] c04_repair_never_degrades at run level - first for every state and every event of the extended alphabet whether a step of replicateTract or of PullTract or a duplicate or a retry or a late straggler a replica that is present and undamaged is afterwards still present and undamaged with a version that is not lower unless a corrupt or delete fault names it or a PullTract addressed to this very replica executes - second damage marks only come from corrupt faults so no repair step ever marks or produces a damaged copy - third along every schedule accepted by c04_sched 4 which is c04_ok_run 4 without the premise and so with the two carve outs of C01 whenever an accepted event changes the durable record of a tract every replica held by a host of the new record is at the new durable version or one ahead and holds the record of every acknowledged write and is damaged only if it was damaged before or the event is the corrupt fault on it so repair never installs a stale or partially copied or freshly corrupted replica as a durable host - fourth along these schedules an undamaged replica of a durable host at a version not below the durable one is kept by every accepted event other than a fault on it so also by every PullTract however late or duplicated or retried - fifth the two task invariants behind the fourth clause hold in every reachable state namely a PullTract request for the version after the durable one is never addressed to a durable host and a running replicateTract task whose version is still the durable one has every durable host among its survivors or its bad set. Open and therefore PARTIAL - that the content of a new host equals that of a bumped undamaged source at the committed version across interleavings which is proved at the Store level in c04_pull_copies_only_undamaged_current_source and in functional form in c04_repair_progress_functional_partial and at run level only in the weaker form of the third clause *)
Theorem c04_repair_never_degrades_run_partial :
  (forall cs ev k r,
     rget (s_reps (c_base cs)) k = Some r -> rmem k (c_cor cs) = false ->
     let cs' := fst (cstep cs ev) in
     (exists r', rget (s_reps (c_base cs')) k = Some r' /\ r_ver r <= r_ver r' /\ rmem k (c_cor cs') = false) \/
     (exists ts b t, (ev = [60; ts; b; t] \/ ev = [61; ts; b; t]) /\ k = (ts, tkey b t)) \/
     (exists mode rest rp r1, ev = 7 :: mode :: rest /\ parse_rpc rest = Some (rp, r1) /\ mode <> 4 /\
                              k_kind rp = K_PullTract /\ k = rpc_key_of rp)) /\
  (forall cs ev k,
     rmem k (c_cor (fst (cstep cs ev))) = true ->
     rmem k (c_cor cs) = true \/ exists ts b t, ev = [60; ts; b; t] /\ k = (ts, tkey b t)) /\
  (forall evs ev, c04_sched 4 cinit evs = true ->
     let cs := crun_state cinit evs in
     c04_ok_ev 4 cs ev = true ->
     let cs' := fst (cstep cs ev) in
     forall tk dv' H', tget (s_dtr (c_base cs')) tk = Some (dv', H') -> tget (s_dtr (c_base cs)) tk <> Some (dv', H') ->
     forall h r', In h H' -> rget (s_reps (c_base cs')) (h, tk) = Some r' ->
       dv' <= r_ver r' <= dv' + 1 /\ holds_acked (c_base cs') tk r' = true /\
       (rmem (h, tk) (c_cor cs') = true ->
        rmem (h, tk) (c_cor cs) = true \/ exists ts b t, ev = [60; ts; b; t] /\ (h, tk) = (ts, tkey b t))) /\
  (forall evs ev tk dv H h r, c04_sched 4 cinit evs = true ->
     let cs := crun_state cinit evs in
     c04_ok_ev 4 cs ev = true ->
     tget (s_dtr (c_base cs)) tk = Some (dv, H) -> In h H ->
     rget (s_reps (c_base cs)) (h, tk) = Some r -> dv <= r_ver r -> rmem (h, tk) (c_cor cs) = false ->
     let cs' := fst (cstep cs ev) in
     (exists r', rget (s_reps (c_base cs')) (h, tk) = Some r' /\ r_ver r <= r_ver r' /\ rmem (h, tk) (c_cor cs') = false) \/
     (exists ts b t, (ev = [60; ts; b; t] \/ ev = [61; ts; b; t]) /\ (h, tk) = (ts, tkey b t))) /\
  (forall evs, c04_sched 4 cinit evs = true ->
     let st := c_base (crun_state cinit evs) in
     (forall e, In e (s_pool st) -> k_kind (p_rpc e) = K_PullTract ->
        forall dv H, tget (s_dtr st) (rtk (p_rpc e)) = Some (dv, H) -> k_ver (p_rpc e) = dv + 1 -> ~ In (k_ts (p_rpc e)) H) /\
     (forall t, In t (s_tasks st) -> t_kind t = 5 -> 0 < t_phase t ->
        forall dv H, tget (s_dtr st) (ttk t) = Some (dv, H) -> t_dv t = dv -> forall h, In h H -> In h (t_ok t) \/ In h (t_bad t))).
Proof. exact repair_never_degrades_run2. Qed.
Print Assumptions c04_repair_never_degrades_run_partial.

(* ------------------------------------------------------------------ progress, functional form *)
(* [PARTIAL] c04_repair_progress in functional form - Progress.complete_repair runs one replicateTract task of the model to completion with every reply delivered using the model's own start_task and activate and Store.SetVersion and task_reply and the C04 PullTract that skips damaged sources and change_tract and finish_task where only the transport of a request through the RPC pool is idealised. From every state that satisfies the run invariants and in which no other task is active and the tract is durable with distinct hosts and the bad set is a non empty duplicate free part of the hosts that leaves survivors and the leader knows survivors and bad hosts and every survivor still holds a replica and at least one survivor is undamaged and placement picked as many distinct eligible spares as there are bad hosts the run ends with the task finished without error and the durable record at the next version with the hosts survivors then new hosts which are as many as before and on distinct servers and every host holds a replica at the new version and every new host holds an undamaged copy of the content of an undamaged survivor and the survivors keep content and damage status. The deficit that is the number of durable hosts without an undamaged current replica drops by exactly the number of bad hosts that had none so every completed task whose bad set contains such a host strictly decreases it and it is zero afterwards when all survivors were undamaged which is full redundancy. Open and therefore PARTIAL - the pool transport find_pent and resume and flush is not traversed so this is not yet a statement about cstep event sequences and the bad set is an input tied to the recovery loop's selection only through c04_selected_bad_set_wellformed and a survivor whose replica was deleted makes the bump fail so that tract needs another detection round first *)
Theorem c04_repair_progress_functional_partial : forall cs op blob tract bad place repl nt dv hosts,
  repair_pre cs blob tract bad place repl nt dv hosts ->
  let tk := tkey blob tract in
  let ok := survivors hosts bad in
  let cs' := complete_repair cs op blob tract bad place in
  tget (s_dtr (c_base cs')) tk = Some (dv + 1, ok ++ place) /\
  length (ok ++ place) = length hosts /\ NoDup (ok ++ place) /\
  s_tasks (c_base cs') = [] /\ s_fin (c_base cs') = s_fin (c_base cs) ++ [(op, cl_NoError)] /\
  (forall h, In h (ok ++ place) -> exists r', rget (s_reps (c_base cs')) (h, tk) = Some r' /\ r_ver r' = dv + 1) /\
  (forall n, In n place -> undamaged_current cs' tk (dv + 1) n = true /\
     exists g s, In g ok /\ rget (s_reps (c_base cs)) (g, tk) = Some s /\ rmem (g, tk) (c_cor cs) = false /\
                 rget (s_reps (c_base cs')) (n, tk) = Some {| r_ver := dv + 1; r_app := r_app s |}) /\
  (forall h, In h ok -> undamaged_current cs' tk (dv + 1) h = undamaged_current cs tk dv h) /\
  (deficit cs tk = deficit cs' tk +
                   length (filter (fun h => negb (undamaged_current cs tk dv h)) (filter (fun h => zmem h bad) hosts)))%nat /\
  ((forall h, In h ok -> rmem (h, tk) (c_cor cs) = false) -> deficit cs' tk = O).
Proof. exact repair_restores. Qed.
Print Assumptions c04_repair_progress_functional_partial.

(* non-vacuity and the tie to the event scheduler on one instance: in the directed schedule dA, right before the
   retried repair is popped (event 33), the premises of the theorem hold for bad = [2] and placement [1]; the
   functional run and the events 33..36 of the schedule (popTask, SetVersion, PullTract, commit) reach the same
   durable version, the same host set and identical replicas, and the deficit goes from 1 to 0 *)
Example c04_repair_progress_nonvacuous :
  let cs0 := crun_state cinit (firstn 33 dA_ops) in
  let csA := complete_repair cs0 3 0 0 [2] [1] in
  let csB := crun_state cinit (firstn 37 dA_ops) in
  repair_pre cs0 0 0 [2] [1] 2 1 1 [2; 4] /\
  (tget (s_dtr (c_base csA)) (0, 0) = Some (2, [4; 1]) /\ tget (s_dtr (c_base csB)) (0, 0) = Some (2, [1; 4])) /\
  forallb (fun h => list_eqb (dump_replica (s_reps (c_base csA)) h (0, 0)) (dump_replica (s_reps (c_base csB)) h (0, 0))) [1; 2; 3; 4] = true /\
  (deficit cs0 (0, 0) = 1%nat /\ deficit csA (0, 0) = 0%nat /\ deficit csB (0, 0) = 0%nat).
Proof. exact repair_dA. Qed.

(* [FULL] c04_selected_bad_set_wellformed - the tie of the functional progress theorem to the recovery loop's choice. Whenever the tract scan of one detect round which is recovery.tractTask plus syncTask transcribed as Model.rec_each leaves a queue entry for a tract whose durable hosts are distinct the bad set of that entry which is the sorted list of the hosts believed down or reported corrupt and which popTask must hand to replicateTract unchanged is not empty and leaves at least one survivor and consists of hosts only and survivors plus bad hosts are exactly as many as the hosts so the structural premises of repair_pre on the bad set hold for every task the model selects *)
Theorem c04_selected_bad_set_wellformed : forall down rcor rent unrec tk dv hosts rcor' rent' unrec' e,
  rec_each down (rcor, rent, unrec) (tk, (dv, hosts)) = (rcor', rent', unrec') ->
  distinct hosts = true -> ent_get rent' tk = Some e ->
  let bad := e_bad e in
  survivors hosts bad <> [] /\ bad <> [] /\ (length (survivors hosts bad) + length bad = length hosts)%nat /\
  (forall h, In h bad -> In h hosts).
Proof. exact selected_bad_set. Qed.
Print Assumptions c04_selected_bad_set_wellformed.
