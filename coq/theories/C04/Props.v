(* C04/Props.v — property-level theorems of C04 over the C04 model (Cluster model + fault events + recovery
   bookkeeping, coq/theories/C04/Model.v). *)
From Coq Require Import List ZArith Bool Lia.
From BLB Require Import Gen.Consts Cluster.Model Cluster.Proofs Cluster.Frame C04.Model C04.Proofs C04.Witness.
Import ListNotations.
Open Scope Z_scope.

(* [FULL] c04_event_frame - one event of the extended alphabet whatever it is - a fault or a repair step or a client step with any delivery mode including lost and duplicated replies and the crash inside a pull or a detect round or the start of a recovery task or a leader change - changes replica data and on disk corruption marks nowhere or only at the one replica a corrupt or delete fault names or only at the one replica that an executed RPC addresses. So no step of replicateTract or PullTract or of the recovery loop however interrupted or repeated touches any replica other than the destination of a pull or the target of a bump *)
Theorem c04_event_frame : forall cs ev, cstep_frame cs ev.
Proof. exact cstep_frame_holds. Qed.
Print Assumptions c04_event_frame.

(* [PARTIAL] c04_repair_never_degrades - intact replicas stay intact in the event form. A replica that is present and undamaged before an event is present and undamaged with identical version and content after it unless the event is a fault that names this replica or the execution of an RPC addressed to this very replica. Missing for the full claim is the run level half that a replica becomes a durable host only after a pull that succeeded for the committing task which the F21 family of schedules contradicts on the current code *)
Theorem c04_repair_never_degrades_partial : forall cs ev k r,
  rget (s_reps (c_base cs)) k = Some r -> rmem k (c_cor cs) = false ->
  let cs' := fst (cstep cs ev) in
  (rget (s_reps (c_base cs')) k = Some r /\ rmem k (c_cor cs') = false) \/
  (exists ts b t, (ev = [60; ts; b; t] \/ ev = [61; ts; b; t]) /\ k = (ts, tkey b t)) \/
  (exists mode rest rp r1, ev = 7 :: mode :: rest /\ parse_rpc rest = Some (rp, r1) /\ mode <> 4 /\ k = rpc_key_of rp).
Proof.
  intros cs ev k r G M cs'. subst cs'.
  destruct (cstep_frame_holds cs ev) as [[A B]|[(ts & b & t & E & SE & CS)|(mode & rest & rp & r1 & E & P & N & SE & CS)]].
  - left. rewrite A, B. auto.
  - destruct (rk_eqb k (ts, tkey b t)) eqn:K.
    + right; left. exists ts, b, t. split; [exact E|]. now apply rk_eqb_eq.
    + left. assert (NK : k <> (ts, tkey b t)) by (intro X; rewrite X, rk_eqb_refl in K; discriminate).
      rewrite (SE k NK), (CS k NK). auto.
  - destruct (rk_eqb k (rpc_key_of rp)) eqn:K.
    + right; right. exists mode, rest, rp, r1. repeat split; try assumption. now apply rk_eqb_eq.
    + left. assert (NK : k <> rpc_key_of rp) by (intro X; rewrite X, rk_eqb_refl in K; discriminate).
      rewrite (SE k NK), (CS k NK). auto.
Qed.
Print Assumptions c04_repair_never_degrades_partial.

(* [FULL] c04_pull_copies_only_undamaged_current_source - the Store rule of PullTract with checksum failures for every state and every source list. Replicas other than the destination keep data and marks. If the pull reports success then unless the source list was empty the destination holds exactly the content of one of the named sources which is another server whose copy is at exactly the requested version and has no damaged blocks and the destination carries that version and no damage mark. If it reports an error the destination is either gone or completely untouched. A pull addressed to the wrong server changes nothing *)
Theorem c04_pull_copies_only_undamaged_current_source :
  forall reps cor fl nts ts tsid tk ver srcs reps' cor' fl' e,
    c04_pull reps cor fl nts ts tsid tk ver srcs = (reps', cor', fl', e) ->
    pull_post reps cor ts tk ver srcs reps' cor' e \/ (e = cl_ErrWrongTractserver /\ reps' = reps /\ cor' = cor).
Proof. exact c04_pull_post. Qed.
Print Assumptions c04_pull_copies_only_undamaged_current_source.

(* [FULL] c04_crashed_pull_leaves_no_plausible_copy_elsewhere - a tractserver crash inside PullTract for every state and source list leaves every other replica alone and leaves the destination absent or untouched or as an EMPTY file that already carries the pulled version which is the partial copy the retry logic must cope with *)
Theorem c04_crashed_pull_leaves_no_plausible_copy_elsewhere :
  forall srcs reps cor fl nts ts tk ver reps' cor' fl',
    c04_pull_crash reps cor fl nts ts tk ver srcs = (reps', cor', fl') ->
    same_except reps reps' (ts, tk) /\ cor_same cor cor' (ts, tk) /\
    (rget reps' (ts, tk) = None \/ (reps' = reps /\ cor' = cor) \/
     (rget reps' (ts, tk) = Some {| r_ver := ver; r_app := [] |} /\ rmem (ts, tk) cor' = false)).
Proof. exact c04_pull_crash_post. Qed.
Print Assumptions c04_crashed_pull_leaves_no_plausible_copy_elsewhere.

(* [FULL] c04_refuse_when_hopeless - all hosts bad means no durable change. First replicateTract whose bad set covers every durable host ends at once with an error and issues no RPC and changes no durable record and no replica. Second the recovery loop's tract scan gives a tract all of whose hosts are down or reported corrupt no queue entry and marks it unrecoverable. Third the runner cannot start a task for a tract without a queue entry *)
Theorem c04_refuse_when_hopeless :
  (forall st t, t_kind t = 5 ->
     (forall dv hosts, tget (s_dtr st) (tkey (t_blob t) (t_tract t)) = Some (dv, hosts) -> forall h, In h hosts -> zmem h (t_bad t) = true) ->
     exists err, err <> cl_NoError /\ activate st t = finish_task st t err /\
                 s_dtr (activate st t) = s_dtr st /\ s_reps (activate st t) = s_reps st /\
                 length (s_pool (activate st t)) = length (s_pool st)) /\
  (forall down rcor rent unrec tk dv hosts rcor' rent' unrec',
     rec_each down (rcor, rent, unrec) (tk, (dv, hosts)) = (rcor', rent', unrec') -> hosts <> [] ->
     (forall h, In h hosts -> zmem h down = true \/ exists s, tget rcor tk = Some s /\ zmem h s = true) ->
     ent_get rent' tk = None /\ In tk unrec') /\
  (forall cs op gen blob tract nbad r,
     ent_get (c_rent cs) (tkey blob tract) = None -> ev_pop cs (op :: gen :: blob :: tract :: nbad :: r) = (cs, [-8])).
Proof.
  split; [|split; [exact rec_each_hopeless | exact ev_pop_needs_entry]].
  intros st t K H. destruct (activate_hopeless st t K H) as (err & NE & A). exists err. split; [exact NE|]. split; [exact A|].
  rewrite A. split; [apply dtr_finish_task|]. split; [apply reps_finish_task | apply pool_len_finish_task].
Qed.
Print Assumptions c04_refuse_when_hopeless.

(* [PARTIAL] c04_no_loss - the fault half. Every fault or detection event namely corrupt and delete and scrub step and CheckTracts and health belief and detect round preserves the C01 visibility predicate at every replica. A client Read or Write that reaches a replica with damaged blocks at the matching version returns the corrupt data error class with no payload and leaves data untouched and lands in the failure report. A read of a deleted replica returns no such tract with no payload. A damaged source is never copied by a pull because the attempt fails and the source reports itself. Missing is preservation of the visibility predicate by the repair events themselves which needs the C01 invariants that F21 refutes on the current code *)
Theorem c04_no_loss_partial :
  (forall cs c a b t h p, fault_code c = true ->
     vis_ok (c_base cs) b t h p = true -> vis_ok (c_base (fst (cstep cs (c :: a)))) b t h p = true) /\
  (forall cs e oracle,
     (k_kind (p_rpc e) = K_Read \/ k_kind (p_rpc e) = K_Write) ->
     hits_corruption cs (k_ts (p_rpc e)) (tkey (k_blob (p_rpc e)) (k_tract (p_rpc e))) (k_ver (p_rpc e)) = true ->
     exists cs', c04_exec_rpc cs e oracle = (cs', [cl_ErrCorruptData], []) /\
                 c_base cs' = c_base cs /\ c_cor cs' = c_cor cs /\
                 rmem (k_ts (p_rpc e), tkey (k_blob (p_rpc e)) (k_tract (p_rpc e))) (c_fl cs') = true) /\
  (forall reps ts tk ver len off, rget reps (ts, tk) = None -> ts_read reps ts tk ver len off = (cl_ErrNoSuchTract, 0, [])) /\
  (forall reps cor fl nts ts tk ver src s,
     rget reps (ts, tk) = None -> 0 < src <= nts -> rget reps (src, tk) = Some s -> r_ver s = ver -> rmem (src, tk) cor = true -> src <> ts ->
     exists cor', c04_pull_once reps cor fl nts ts tk ver src = (reps, cor', radd fl (src, tk), cl_ErrCorruptData)).
Proof.
  split; [exact faults_keep_visibility|]. split; [exact corrupt_access_fails_closed|].
  split; [exact deleted_read_fails_closed | exact corrupt_source_not_copied].
Qed.
Print Assumptions c04_no_loss_partial.

(* [PARTIAL] c04_repair_progress - functional form for the three steps of a repair taken one by one. The bump of a survivor at the durable version or already bumped succeeds and keeps its content. PullTract succeeds as soon as the destination is not ahead of the requested version and one named source on another server holds an undamaged copy at that version whatever the other sources do and then by the pull theorem the destination is a copy of such a source. The commit under the leader's own term at old plus one with a host list of the same length succeeds and installs exactly that list. Missing is the composition over the event scheduler with the selected task running to completion and the deficit measure *)
Theorem c04_repair_progress_partial :
  (forall reps ts tk dv r,
     rget reps (ts, tk) = Some r -> r_ver r = dv \/ r_ver r = dv + 1 -> 1 <= dv ->
     exists reps', ts_setversion reps ts ts tk (dv + 1) = (reps', cl_NoError) /\
                   exists r', rget reps' (ts, tk) = Some r' /\ r_ver r' = dv + 1 /\ r_app r' = r_app r) /\
  (forall srcs reps cor fl nts ts tk ver last,
     (forall r, rget reps (ts, tk) = Some r -> r_ver r <= ver) ->
     (forall s, In s srcs -> s <> ts) ->
     (exists src, In src srcs /\ good_source reps cor nts ts tk ver src) ->
     exists reps' cor' fl', c04_pull_loop reps cor fl nts ts tk ver srcs last = (reps', cor', fl', cl_NoError)) /\
  (forall st blob tract dv hosts hosts' repl nt,
     zget (s_blobs st) blob = Some (repl, nt) -> tract <= nt ->
     tget (s_dtr st) (tkey blob tract) = Some (dv, hosts) -> length hosts' = length hosts ->
     exists st', change_tract st (s_term st) blob tract (dv + 1) hosts' = (st', cl_NoError) /\
                 tget (s_dtr st') (tkey blob tract) = Some (dv + 1, hosts') /\ s_reps st' = s_reps st).
Proof. split; [exact bump_progress|]. split; [exact c04_pull_progress | exact commit_progress]. Qed.
Print Assumptions c04_repair_progress_partial.

(* ------------------------------------------------------------------ non-vacuity: the directed schedule dA *)
(* every durable host of the tract holds an undamaged replica at the durable version, all with the same content *)
Definition full_redundancy (cs : cstate) (blob tract repl : Z) : bool :=
  match tget (s_dtr (c_base cs)) (tkey blob tract) with
  | None => false
  | Some (dv, hosts) =>
      (Z.of_nat (length hosts) =? repl) && distinct hosts &&
      forallb (fun h => match rget (s_reps (c_base cs)) (h, tkey blob tract) with
                        | Some r => (r_ver r =? dv) && negb (rmem (h, tkey blob tract) (c_cor cs)) &&
                                    list_eqb (dump_replica (s_reps (c_base cs)) h (tkey blob tract))
                                             (dump_replica (s_reps (c_base cs)) (hd 0 hosts) (tkey blob tract))
                        | None => false
                        end) hosts
  end.

(* after the failed first attempt the tract is degraded and the report is still on the books; at the end of
   the schedule redundancy is back; the model had no complaint along the way *)
Example dA_degraded_then_restored :
  full_redundancy (crun_state cinit dA_prefix) 0 0 2 = false /\
  c_rcor (fst (cstep (crun_state cinit dA_prefix) [66])) <> [] /\
  full_redundancy (crun_state cinit dA_ops) 0 0 2 = true /\
  forallb line_ok (crun cinit dA_ops) = true.
Proof. repeat split; try (vm_compute; reflexivity). vm_compute. discriminate. Qed.

(* the scenario above resolveConflicts (disk scenario dX0): create lands on disk 0 and is never acknowledged,
   restart without disk 0, retried create and an overwrite on disk 1 are acknowledged, restart with both disks,
   disk 0 first: equal versions, both copies go, the read fails closed and Check reports the tract missing *)
Example dX0_tie_fails_closed :
  drun (BLB.Store.Model.init false)
       [[70]; [75; 0]; [71; 0; 1; 40; 0; 0]; [74]; [75; 1]; [71; 0; 2; 40; 0; 0]; [72; 0; 1; 3; 40; 0]; [74]; [75; 0]; [75; 1];
        [73; 0; 1; 40; 0]; [77; 1; 0; 1]]
  = [[]; [0]; [0]; []; [0]; [0]; [0]; []; [0]; [0]; [cl_ErrNoSuchTract; 0]; [1; 0; 1]].
Proof. vm_compute. reflexivity. Qed.
