(* C04/Model.v — the Cluster model (coq/theories/Cluster/Model.v, read-only) extended with fault events
   and the repair bookkeeping of C04.

   Added state: which replica files have corrupt blocks on disk (c_cor), every tractserver's failure
   map (c_fl, Store.failures), and for the CURRENT leader incarnation the heartbeat batch of failure
   reports (c_cb, Curator.corruptBatch) and the recovery loop's bookkeeping (recovery_loop.go):
   corrupt map, entryMap (queued / working), completion queue, servers seen as down, unrecoverable set.

   Event codes 1..17 are the Cluster model's; those that touch data at a tractserver (execution of a
   client Read / Write / Create and of PullTract, including the crash inside a pull) are re-transcribed
   here with the checksum failure path of store.go / store_internal.go (a data access to a corrupt file
   fails with ErrCorruptData and lands in Store.failures; PullTract's removeTract clears the mark and
   the failure entry); all others are delegated to Cluster.Model.step.
   New codes: 60 corrupt, 61 delete, 62 scrub step, 63 heartbeat with failure report, 64 CheckTracts,
   65 health belief, 66 detect round, 67 popTask + runTask.
   A case whose first line is 70 is a disk scenario (Store-level, two disks): see the second half. *)
From Coq Require Import List ZArith NArith Bool Lia.
From BLB Require Import Gen.Consts Cluster.Model.
From BLB Require Store.Bytes Store.Model.
Import ListNotations.
Open Scope Z_scope.

(* ------------------------------------------------------------------ small sets and sorting *)
Definition rmem (k : rkey) (l : list rkey) : bool := existsb (rk_eqb k) l.
Definition rrem (l : list rkey) (k : rkey) : list rkey := filter (fun x => negb (rk_eqb k x)) l.
Definition radd (l : list rkey) (k : rkey) : list rkey := if rmem k l then l else k :: l.

Definition tk_ltb (a b : tkt) : bool := (fst a <? fst b) || ((fst a =? fst b) && (snd a <? snd b)).
Fixpoint ins_tk {A} (x : tkt * A) (l : list (tkt * A)) : list (tkt * A) :=
  match l with
  | [] => [x]
  | y :: r => if tk_ltb (fst x) (fst y) then x :: l else y :: ins_tk x r
  end.
Definition sort_tk {A} (l : list (tkt * A)) : list (tkt * A) := fold_right ins_tk [] l.
Definition sortz (l : list Z) : list Z := fold_right insert_sorted [] l.

(* ------------------------------------------------------------------ state *)
Record entry := { e_tk : tkt; e_bad : list Z; e_good : Z; e_heap : bool }.

Record cstate := {
  c_base : state;
  c_cor : list rkey;              (* replica files with corrupt blocks *)
  c_fl : list rkey;               (* Store.failures, all tractservers *)
  c_cb : list (tkt * list Z);     (* Curator.corruptBatch of the current incarnation *)
  c_rcor : list (tkt * list Z);   (* recovery.corrupt *)
  c_rent : list entry;            (* recovery.entryMap *)
  c_rcomp : list (tkt * Z);       (* recovery.completed, oldest first *)
  c_down : list Z;                (* tsStatus.down as the current incarnation's monitor sees it *)
  c_rops : list (Z * tkt);        (* tasks the current incarnation's runner started: op -> tract *)
  c_unrec : list tkt              (* recovery.unrecoverable *)
}.

Definition cinit : cstate :=
  {| c_base := init_state; c_cor := []; c_fl := []; c_cb := []; c_rcor := []; c_rent := []; c_rcomp := [];
     c_down := []; c_rops := []; c_unrec := [] |}.

Definition set_base (cs : cstate) (st : state) : cstate :=
  {| c_base := st; c_cor := c_cor cs; c_fl := c_fl cs; c_cb := c_cb cs; c_rcor := c_rcor cs; c_rent := c_rent cs;
     c_rcomp := c_rcomp cs; c_down := c_down cs; c_rops := c_rops cs; c_unrec := c_unrec cs |}.
Definition set_disk (cs : cstate) (st : state) (cor fl : list rkey) : cstate :=
  {| c_base := st; c_cor := cor; c_fl := fl; c_cb := c_cb cs; c_rcor := c_rcor cs; c_rent := c_rent cs;
     c_rcomp := c_rcomp cs; c_down := c_down cs; c_rops := c_rops cs; c_unrec := c_unrec cs |}.
Definition set_fl (cs : cstate) (fl : list rkey) : cstate := set_disk cs (c_base cs) (c_cor cs) fl.
Definition set_rec (cs : cstate) cb rcor rent rcomp down rops unrec : cstate :=
  {| c_base := c_base cs; c_cor := c_cor cs; c_fl := c_fl cs; c_cb := cb; c_rcor := rcor; c_rent := rent;
     c_rcomp := rcomp; c_down := down; c_rops := rops; c_unrec := unrec |}.

(* ------------------------------------------------------------------ the Store with checksum failures *)
(* Store.pullTractOnce from one source.  The local part is the Cluster model's; removeTract also drops the
   failure entry and, the file being gone, the corruption; the source read (CtlRead = Store.Read) checks
   the version first and then hits the checksum failure, which the SOURCE records. *)
Definition c04_pull_once (reps : list (rkey * replica)) (cor fl : list rkey) (nts ts : Z) (tk : tkt) (ver src : Z)
  : list (rkey * replica) * list rkey * list rkey * Z :=
  let '(reps1, cor1, fl1, stop) :=
    match rget reps (ts, tk) with
    | Some r => if ver <? r_ver r then (reps, cor, fl, true)
                else (rdel reps (ts, tk), rrem cor (ts, tk), rrem fl (ts, tk), false)
    | None => (reps, rrem cor (ts, tk), fl, false)   (* no file, hence no damaged blocks; a failure entry left by CheckTracts stays *)
    end in
  if stop then (reps, cor, fl, cl_ErrInvalidState)
  else if (src <=? 0) || (nts <? src) then (reps1, cor1, fl1, cl_ErrRPC)
  else match rget reps1 (src, tk) with
       | None => (reps1, cor1, fl1, cl_ErrNoSuchTract)
       | Some s => if r_ver s =? ver
                   then if rmem (src, tk) cor1 then (reps1, cor1, radd fl1 (src, tk), cl_ErrCorruptData)
                        else (rset reps1 (ts, tk) {| r_ver := ver; r_app := r_app s |}, cor1, fl1, cl_NoError)
                   else (reps1, cor1, fl1, cl_ErrVersionMismatch)
       end.

Fixpoint c04_pull_loop (reps : list (rkey * replica)) (cor fl : list rkey) (nts ts : Z) (tk : tkt) (ver : Z) (srcs : list Z) (last : Z)
  : list (rkey * replica) * list rkey * list rkey * Z :=
  match srcs with
  | [] => (reps, cor, fl, last)
  | s :: r => let '(reps', cor', fl', e) := c04_pull_once reps cor fl nts ts tk ver s in
              if e =? cl_NoError then (reps', cor', fl', e) else c04_pull_loop reps' cor' fl' nts ts tk ver r e
  end.

Definition c04_pull (reps : list (rkey * replica)) (cor fl : list rkey) (nts ts tsid : Z) (tk : tkt) (ver : Z) (srcs : list Z)
  : list (rkey * replica) * list rkey * list rkey * Z :=
  if negb (ts =? tsid) then (reps, cor, fl, cl_ErrWrongTractserver)
  else c04_pull_loop reps cor fl nts ts tk ver srcs cl_NoError.

(* crash inside the pull: file created, version recorded, data not written *)
Fixpoint c04_pull_crash (reps : list (rkey * replica)) (cor fl : list rkey) (nts ts : Z) (tk : tkt) (ver : Z) (srcs : list Z)
  : list (rkey * replica) * list rkey * list rkey :=
  match srcs with
  | [] => (reps, cor, fl)
  | s :: r => let '(reps', cor', fl', e) := c04_pull_once reps cor fl nts ts tk ver s in
              if e =? cl_NoError then (rset reps' (ts, tk) {| r_ver := ver; r_app := [] |}, cor', fl')
              else c04_pull_crash reps' cor' fl' nts ts tk ver r
  end.

(* does this data access run into the checksum failure?  (the version check comes first) *)
Definition hits_corruption (cs : cstate) (ts : Z) (tk : tkt) (ver : Z) : bool :=
  match rget (s_reps (c_base cs)) (ts, tk) with
  | Some r => (r_ver r =? ver) && rmem (ts, tk) (c_cor cs)
  | None => false
  end.

Definition lift3 (cs : cstate) (x : state * list Z * list (Z * Z * list (Z * Z))) : cstate * list Z * list (Z * Z * list (Z * Z)) :=
  let '(st, res, tr) := x in (set_base cs st, res, tr).

(* executing an RPC at its callee *)
Definition c04_exec_rpc (cs : cstate) (e : pent) (oracle : list Z) : cstate * list Z * list (Z * Z * list (Z * Z)) :=
  let r := p_rpc e in
  let tk := tkey (k_blob r) (k_tract r) in
  let k := k_kind r in
  let st := c_base cs in
  if (k =? K_Read) || (k =? K_Write) then
    if hits_corruption cs (k_ts r) tk (k_ver r)
    then (set_fl cs (radd (c_fl cs) (k_ts r, tk)), [cl_ErrCorruptData], [])
    else lift3 cs (exec_rpc st e oracle)
  else if k =? K_Create then
    (* Create of an existing tract = doWrite at version 1 *)
    if (k_ts r =? aux_nth r 0) && hits_corruption cs (k_ts r) tk 1
    then (set_fl cs (radd (c_fl cs) (k_ts r, tk)), [cl_ErrCorruptData], [])
    else lift3 cs (exec_rpc st e oracle)
  else if k =? K_PullTract then
    let '(reps, cor, fl, c) := c04_pull (s_reps st) (c_cor cs) (c_fl cs) (s_nts st) (k_ts r) (aux_nth r 0) tk (k_ver r) (tl (k_aux r)) in
    (set_disk cs (set_reps st reps) cor fl, [c], [])
  else lift3 cs (exec_rpc st e oracle).

Definition data_kind (k : Z) : bool := (k =? K_Read) || (k =? K_Write) || (k =? K_Create) || (k =? K_PullTract).

Definition clear_ts (fl : list rkey) (ts : Z) : list rkey := filter (fun k => negb (fst k =? ts)) fl.

(* code 7 for the data kinds: Cluster.Model.step_exec with c04_exec_rpc / c04_pull_crash *)
Definition c04_step_exec (cs : cstate) (mode : Z) (r : list Z) : cstate * list Z :=
  let st := c_base cs in
  match parse_rpc r with
  | None => (cs, [-1])
  | Some (rp, r1) =>
      match r1 with
      | nh :: r2 =>
          let '(place, r3) := take nh r2 in
          let dur := match r3 with nd :: r4 => fst (take nd r4) | [] => [] end in
          let hint := place ++ [-1] ++ dur in
          match find_pent (s_pool st) rp 0 with
          | None => (cs, [-2])
          | Some e =>
              let dump s := dump_replica (s_reps s) (k_ts rp) (tkey (k_blob rp) (k_tract rp)) in
              if mode =? 6 then
                if negb (k_kind rp =? K_PullTract) then (cs, [-5])
                else
                  let '(reps', cor', fl') :=
                    if k_ts rp =? aux_nth rp 0
                    then c04_pull_crash (s_reps st) (c_cor cs) (c_fl cs) (s_nts st) (k_ts rp) (tkey (k_blob rp) (k_tract rp)) (k_ver rp) (tl (k_aux rp))
                    else (s_reps st, c_cor cs, c_fl cs) in
                  let st1 := set_reps st reps' in
                  let st2 := flush 8 (resume st1 e false hint) hint in
                  let victims := filter (fun x => (p_st x =? 0) && (k_ts (p_rpc x) =? k_ts rp)) (s_pool st2) in
                  let st3 := fold_left (fun s x => flush 8 (resume s x false []) []) victims st2 in
                  (set_disk cs st3 cor' (clear_ts fl' (k_ts rp)), [1] ++ dump st3 ++ out_section st3)
              else
                let '(cs1, res, tr) := c04_exec_rpc cs e place in
                let cs1' := if mode =? 3 then fst (fst (c04_exec_rpc cs1 e place)) else cs1 in
                let st1' := c_base cs1' in
                let st2 := set_pool st1' (pool_update (s_pool st1') (set_pent e 2 res tr (mode =? 2) (negb (mode =? 5)))) in
                let st3 := flush 8 st2 hint in
                (set_base cs1' st3, [1] ++ res ++ dump st3 ++ out_section st3)
          end
      | [] => (cs, [-1])
      end
  end.

(* delegate an event to the Cluster model *)
Definition lift_step (cs : cstate) (ev : list Z) : cstate * list Z :=
  let '(st, o) := step (c_base cs) ev in (set_base cs st, o).

(* ------------------------------------------------------------------ fault events and the detection path *)
Definition failures_of (cs : cstate) (ts : Z) : list Z :=
  let l := sort_tk (map (fun k => (snd k, tt)) (filter (fun k => fst k =? ts) (c_fl cs))) in
  Z.of_nat (length l) :: flat_map (fun '(tk, _) => [fst tk; snd tk]) l.

Definition ev_corrupt (cs : cstate) (ts blob tract : Z) : cstate * list Z :=
  match rget (s_reps (c_base cs)) (ts, tkey blob tract) with
  | Some _ => (set_disk cs (c_base cs) (radd (c_cor cs) (ts, tkey blob tract)) (c_fl cs), [1])
  | None => (cs, [0])
  end.

(* Store.removeTract behind the curator's back *)
Definition ev_delete (cs : cstate) (ts blob tract : Z) : cstate * list Z :=
  let k := (ts, tkey blob tract) in
  match rget (s_reps (c_base cs)) k with
  | Some _ => (set_disk cs (set_reps (c_base cs) (rdel (s_reps (c_base cs)) k)) (rrem (c_cor cs) k) (rrem (c_fl cs) k), [0])
  | None => (cs, [0])      (* removeTract of an unknown tract touches nothing, not even the failure entry *)
  end.

(* one step of scrubDisk: Disk.Scrub + maybeReportError *)
Definition ev_scrub (cs : cstate) (ts blob tract : Z) : cstate * list Z :=
  let k := (ts, tkey blob tract) in
  match rget (s_reps (c_base cs)) k with
  | Some _ => if rmem k (c_cor cs)
              then let cs' := set_fl cs (radd (c_fl cs) k) in (cs', 1 :: failures_of cs' ts)
              else (cs, 0 :: failures_of cs ts)
  | None => (cs, 0 :: failures_of cs ts)
  end.

Definition cb_add (cb : list (tkt * list Z)) (tk : tkt) (ts : Z) : list (tkt * list Z) :=
  match tget cb tk with
  | Some s => if zmem ts s then cb else tset cb tk (s ++ [ts])
  | None => tset cb tk [ts]
  end.

(* Server.beatToCurator + Curator.tractserverHeartbeat *)
Definition ev_beat (cs : cstate) (ts : Z) : cstate * list Z :=
  let mine := map snd (filter (fun k => fst k =? ts) (c_fl cs)) in
  let obs := failures_of cs ts in
  let cb' := fold_left (fun cb tk => cb_add cb tk ts) mine (c_cb cs) in
  let cs1 := set_rec (set_fl cs (clear_ts (c_fl cs) ts)) cb' (c_rcor cs) (c_rent cs) (c_rcomp cs) (c_down cs) (c_rops cs) (c_unrec cs) in
  let '(cs2, _) := lift_step cs1 [11; ts] in
  (cs2, obs).

(* sync_state.go checkTracts for one server + Store.Check + checkTractsLoop *)
Definition ev_check (cs : cstate) (ts : Z) : cstate * list Z :=
  let st := c_base cs in
  let fl' := fold_left (fun fl '(tk, (dv, hosts)) =>
                          if zmem ts hosts then
                            match rget (s_reps st) (ts, tk) with
                            | Some r => if r_ver r <? dv then radd fl (ts, tk) else fl
                            | None => radd fl (ts, tk)
                            end
                          else fl) (s_dtr st) (c_fl cs) in
  let cs' := set_fl cs fl' in
  (cs', failures_of cs' ts).

Definition ev_health (cs : cstate) (ts h : Z) : cstate * list Z :=
  let d := filter (fun x => negb (x =? ts)) (c_down cs) in
  (set_rec cs (c_cb cs) (c_rcor cs) (c_rent cs) (c_rcomp cs) (if h =? 2 then ts :: d else d) (c_rops cs) (c_unrec cs), []).

(* ------------------------------------------------------------------ the recovery loop *)
Definition ent_del (l : list entry) (tk : tkt) : list entry := filter (fun e => negb (tk_eqb (e_tk e) tk)) l.
Definition ent_get (l : list entry) (tk : tkt) : option entry := find (fun e => tk_eqb (e_tk e) tk) l.

(* recovery.tractTask: the bad hosts of a tract *)
Definition bad_hosts (down : list Z) (cset : list Z) (hosts : list Z) : list Z :=
  filter (fun h => zmem h down || zmem h cset) hosts.

(* removeCompletedTasks *)
Definition rec_completed (rent : list entry) (rcor : list (tkt * list Z)) (comp : list (tkt * Z)) : list entry * list (tkt * list Z) :=
  fold_left (fun '(en, co) '(tk, err) => (ent_del en tk, if err =? cl_NoError then tdel co tk else co)) comp (rent, rcor).

(* updateCorrupt: TSIDSet.Merge *)
Definition merge_set (a b : list Z) : list Z := fold_left (fun s x => if zmem x s then s else s ++ [x]) b a.
Definition rec_merge (rcor : list (tkt * list Z)) (cb : list (tkt * list Z)) : list (tkt * list Z) :=
  fold_left (fun co '(tk, hs) => tset co tk (merge_set (match tget co tk with Some s => s | None => [] end) hs)) cb rcor.

(* eachTract = pruneCorruptTractSet + tractTask + syncTask for one durable tract *)
Definition rec_each (down : list Z) (acc : list (tkt * list Z) * list entry * list tkt) (x : tkt * (Z * list Z))
  : list (tkt * list Z) * list entry * list tkt :=
  let '(rcor, rent, unrec) := acc in
  let '(tk, (_, hosts)) := x in
  let rcor1 := match tget rcor tk with
               | Some s => let s' := filter (fun h => zmem h hosts) s in
                           match s' with [] => tdel rcor tk | _ => tset rcor tk s' end
               | None => rcor
               end in
  let cset := match tget rcor1 tk with Some s => s | None => [] end in
  let bad := bad_hosts down cset hosts in
  let nb := Z.of_nat (length bad) in
  let nh := Z.of_nat (length hosts) in
  if nh =? 0 then (rcor1, ent_del rent tk, unrec)
  else if nb =? 0 then (rcor1, ent_del rent tk, unrec)
  else if nb =? nh then (rcor1, ent_del rent tk, tk :: unrec)
  else
    let heap := match ent_get rent tk with Some e => e_heap e | None => true end in
    (rcor1, {| e_tk := tk; e_bad := sortz bad; e_good := nh - nb; e_heap := heap |} :: ent_del rent tk, unrec).

Definition enc_set (tk : tkt) (s : list Z) : list Z := [fst tk; snd tk; Z.of_nat (length s)] ++ s.

Definition detect_obs (cs : cstate) : list Z :=
  let co := sort_tk (map (fun '(tk, s) => (tk, sortz s)) (c_rcor cs)) in
  let en := sort_tk (map (fun e => (e_tk e, e)) (c_rent cs)) in
  let un := sort_tk (map (fun tk => (tk, tt)) (c_unrec cs)) in
  [Z.of_nat (length co)] ++ flat_map (fun '(tk, s) => enc_set tk s) co ++
  [Z.of_nat (length en)] ++ flat_map (fun '(tk, e) => [fst tk; snd tk; if e_heap e then 1 else 0; Z.of_nat (length (e_bad e))] ++ e_bad e) en ++
  [Z.of_nat (length un)] ++ flat_map (fun '(tk, _) => [fst tk; snd tk]) un.

(* one iteration of detectLoop *)
Definition rec_detect (cs : cstate) : cstate :=
  let '(rent1, rcor1) := rec_completed (c_rent cs) (c_rcor cs) (c_rcomp cs) in
  let rcor2 := rec_merge rcor1 (c_cb cs) in
  let merged := map fst (c_cb cs) in
  let dtr := s_dtr (c_base cs) in
  (* tsStatus.down of this incarnation's monitor: a server that has heartbeaten to it and is believed down, or a server
     the monitor only EXPECTS - updateTsmonLoop seeds the monitor with the durable known-tractserver set, which contains
     every server of every committed host list (ExtendBlob, ChangeTract ... call ensureKnownTSIDs) - and that has not
     heartbeaten to this incarnation (the start-up grace period is over).  Only hosts of durable tracts matter to
     tractTask, and those are all in the durable set. *)
  let beaten := known_of (c_base cs) (s_gen (c_base cs)) in
  let down := filter (fun ts => zmem ts beaten) (c_down cs) ++
              filter (fun h => negb (zmem h beaten)) (flat_map (fun x => snd (snd x)) dtr) in
  let '(rcor3, rent3, unrec) := fold_left (rec_each down) dtr (rcor2, rent1, []) in
  (* pruneDeletedCorrupt: records neither merged nor visited in this round go *)
  let rcor4 := filter (fun '(tk, _) => tmem tk merged || match tget dtr tk with Some _ => true | None => false end) rcor3 in
  set_rec cs [] rcor4 rent3 [] (c_down cs) (c_rops cs) unrec.

Definition ev_detect (cs : cstate) : cstate * list Z :=
  let cs' := rec_detect cs in (cs', detect_obs cs').

(* runnerLoop: popTask must return a queued task of minimal score (score = 1000*good - 1); which one among
   equals is the heap's business: the harness says which, the model checks that it was allowed *)
Definition ev_pop (cs : cstate) (a : list Z) : cstate * list Z :=
  match a with
  | op :: gen :: blob :: tract :: nbad :: r =>
      let tk := tkey blob tract in
      let bad := fst (take nbad r) in
      match ent_get (c_rent cs) tk with
      | None => (cs, [-8])
      | Some e =>
          if negb (e_heap e) || negb (list_eqb (sortz bad) (e_bad e)) ||
             negb (forallb (fun x => negb (e_heap x) || (e_good e <=? e_good x)) (c_rent cs))
          then (cs, [-8])
          else
            let rent' := {| e_tk := tk; e_bad := e_bad e; e_good := e_good e; e_heap := false |} :: ent_del (c_rent cs) tk in
            let cs1 := set_rec cs (c_cb cs) (c_rcor cs) rent' (c_rcomp cs) (c_down cs) ((op, tk) :: c_rops cs) (c_unrec cs) in
            lift_step cs1 (5 :: op :: gen :: blob :: tract :: nbad :: bad)
      end
  | _ => (cs, [-1])
  end.

(* ------------------------------------------------------------------ one event *)
Definition cstep (cs0 : cstate) (ev : list Z) : cstate * list Z :=
  match ev with
  | [] => (cs0, [-1])
  | c :: a =>
      if c =? 7 then
        match a with
        | mode :: r =>
            match parse_rpc r with
            | Some (rp, _) =>
                if data_kind (k_kind rp) && negb (mode =? 4)
                then c04_step_exec (set_base cs0 (set_out (c_base cs0) [])) mode r
                else lift_step cs0 ev
            | None => lift_step cs0 ev
            end
        | [] => lift_step cs0 ev
        end
      else if c =? 9 then
        let '(cs, o) := lift_step cs0 ev in
        match a with [ts] => (set_fl cs (clear_ts (c_fl cs) ts), o) | _ => (cs, o) end
      else if c =? 10 then
        let '(cs, o) := lift_step cs0 ev in
        (set_rec cs [] [] [] [] [] [] [], o)
      else if c =? 15 then
        let '(cs, o) := lift_step cs0 ev in
        match a, o with
        | [op], [cc] =>
            match zget (c_rops cs) op with
            | Some tk => if 0 <=? cc
                         then (set_rec cs (c_cb cs) (c_rcor cs) (c_rent cs) (c_rcomp cs ++ [(tk, cc)]) (c_down cs) (zdel (c_rops cs) op) (c_unrec cs), o)
                         else (cs, o)
            | None => (cs, o)
            end
        | _, _ => (cs, o)
        end
      else if c =? 60 then match a with [ts; b; t] => ev_corrupt cs0 ts b t | _ => (cs0, [-1]) end
      else if c =? 61 then match a with [ts; b; t] => ev_delete cs0 ts b t | _ => (cs0, [-1]) end
      else if c =? 62 then match a with [ts; b; t] => ev_scrub cs0 ts b t | _ => (cs0, [-1]) end
      else if c =? 63 then match a with [ts] => ev_beat cs0 ts | _ => (cs0, [-1]) end
      else if c =? 64 then match a with [ts] => ev_check cs0 ts | _ => (cs0, [-1]) end
      else if c =? 65 then match a with [ts; h] => ev_health cs0 ts h | _ => (cs0, [-1]) end
      else if c =? 66 then match a with [] => ev_detect cs0 | _ => (cs0, [-1]) end
      else if c =? 67 then ev_pop cs0 a
      else lift_step cs0 ev
  end.

Fixpoint crun (cs : cstate) (evs : list (list Z)) : list (list Z) :=
  match evs with
  | [] => []
  | ev :: r => let '(cs', o) := cstep cs ev in o :: crun cs' r
  end.

Fixpoint crun_state (cs : cstate) (evs : list (list Z)) : cstate :=
  match evs with
  | [] => cs
  | ev :: r => crun_state (fst (cstep cs ev)) r
  end.

(* ------------------------------------------------------------------ disk scenarios (cases that start with line 70) *)
(* One tractserver, several disks: the sequential Store model of coq/theories/Store (Create, Write, Read,
   SetVersion, Check, restart, AddDisk = resolveConflicts, RemoveDisk), driven through a small wire:
   71 tract wid len off slot (Create), 72 tract ver wid len off (Write), 73 tract ver len off (Read),
   74 (restart), 75 disk (AddDisk), 76 disk (RemoveDisk), 77 n (tract ver)* (Check), 78 tract ver (SetVersion).
   Payloads are constant bytes (the write id). *)

Definition zN (z : Z) : N := Z.to_N z.
Definition drle (wid len : Z) : BLB.Store.Bytes.rle := if len <=? 0 then [] else [(zN len, zN wid)].
Definition enc_rle (r : BLB.Store.Bytes.rle) : list Z := Z.of_nat (length r) :: flat_map (fun '(n, v) => [Z.of_N n; Z.of_N v]) r.

Definition enc_res (r : BLB.Store.Model.res) : list Z :=
  match r with
  | BLB.Store.Model.RErr e => [e]
  | BLB.Store.Model.RRead e d => e :: enc_rle d
  | BLB.Store.Model.RStat e _ _ => [e]
  | BLB.Store.Model.RSetV e _ => [e]
  | BLB.Store.Model.RUnit => []
  | BLB.Store.Model.RCheck l => Z.of_nat (length l) :: flat_map (fun '(t, v) => [Z.of_N t; v]) l
  end.

Fixpoint take_tv (n : nat) (l : list Z) : list (N * Z) :=
  match n with
  | O => []
  | S n' => match l with t :: v :: r => (zN t, v) :: take_tv n' r | _ => [] end
  end.

Definition decode_disk (ev : list Z) : option BLB.Store.Model.op :=
  match ev with
  | [71; t; wid; len; off; slot] => Some (BLB.Store.Model.Create (zN t) (drle wid len) (zN off) (zN slot))
  | [72; t; ver; wid; len; off] => Some (BLB.Store.Model.Write (zN t) ver (drle wid len) (zN off))
  | [73; t; ver; len; off] => Some (BLB.Store.Model.Read (zN t) ver (zN len) (zN off))
  | [74] => Some BLB.Store.Model.Restart
  | [75; pd] => Some (BLB.Store.Model.AddDisk (zN pd))
  | [76; pd] => Some (BLB.Store.Model.RemoveDisk (zN pd))
  | 77 :: n :: r => Some (BLB.Store.Model.Check (take_tv (Z.to_nat n) r))
  | [78; t; v] => Some (BLB.Store.Model.SetVersion (zN t) v None)
  | _ => None
  end.

Definition dstep (s : BLB.Store.Model.store) (ev : list Z) : BLB.Store.Model.store * list Z :=
  match ev with
  | [70] => (s, [])
  | _ => match decode_disk ev with
         | Some o => let '(s', r) := BLB.Store.Model.step s o in (s', enc_res r)
         | None => (s, [-1])
         end
  end.

Fixpoint drun (s : BLB.Store.Model.store) (evs : list (list Z)) : list (list Z) :=
  match evs with
  | [] => []
  | ev :: r => let '(s', o) := dstep s ev in o :: drun s' r
  end.

Definition drun_state (s : BLB.Store.Model.store) (evs : list (list Z)) : BLB.Store.Model.store := fold_left (fun s ev => fst (dstep s ev)) evs s.

Definition run_case (ops : list (list Z)) : list (list Z) :=
  match ops with
  | [70] :: _ => drun (BLB.Store.Model.init false) ops
  | _ => crun cinit ops
  end.
