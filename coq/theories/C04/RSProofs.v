(* C04/RSProofs.v — lemmas for the erasure-coded corollaries of C04 (over C13's reconstruct_plan / rs_encode_one
   and C04/RSModel.v's judgements). *)
From Coq Require Import List NArith ZArith Arith Bool Lia.
From BLB Require Import Lib.RS C13.Model.
From BLB Require C04.RSModel.
(* Only DEFINITIONS of the C13 development are imported here (Lib/RS.v, C13/Model.v): the thorough tier re-checks the
   closure of the property files with coqchk, which does not use the VM, and the exhaustive GF(256) laws behind the C13
   proofs do not get through it in any reasonable time.  The corollaries that need those proofs are in PropsRSCodec.v. *)
Import ListNotations.
Local Open Scope nat_scope.

Definition dst_of (hosts bad : list N) : list nat :=
  filter (fun i => memN (nth i hosts 0%N) bad) (seq 0 (length hosts)).
Definition ok_of (hosts bad : list N) : list nat :=
  filter (fun i => negb (memN (nth i hosts 0%N) bad)) (seq 0 (length hosts)).

Lemma plan_hosts_eq : forall n m hosts bad newids p,
  reconstruct_plan n m hosts bad newids = Some p ->
  p_hosts p = fold_left (fun h q => set_nth (fst q) (snd q) h) (combine (dst_of hosts bad) newids) hosts.
Proof.
  intros n m hosts bad newids p H. unfold reconstruct_plan in H. fold (dst_of hosts bad) in H. fold (ok_of hosts bad) in H.
  destruct (Nat.ltb (length (ok_of hosts bad)) n); [discriminate|].
  destruct (dst_of hosts bad) as [|x dst] eqn:D; [discriminate|].
  destruct (negb (Nat.eqb (length newids) (length (x :: dst)))); [discriminate|].
  inversion H; subst. reflexivity.
Qed.

Lemma plan_refuses_too_few : forall n m hosts bad newids,
  length (ok_of hosts bad) < n -> reconstruct_plan n m hosts bad newids = None.
Proof.
  intros. unfold reconstruct_plan. fold (ok_of hosts bad).
  assert (E : Nat.ltb (length (ok_of hosts bad)) n = true) by now apply Nat.ltb_lt. now rewrite E.
Qed.

Lemma plan_refuses_nothing_bad : forall n m hosts bad newids,
  dst_of hosts bad = [] -> reconstruct_plan n m hosts bad newids = None.
Proof.
  intros. unfold reconstruct_plan. fold (ok_of hosts bad). fold (dst_of hosts bad). rewrite H.
  destruct (Nat.ltb (length (ok_of hosts bad)) n); reflexivity.
Qed.

Lemma dst_of_nodup : forall hosts bad, NoDup (dst_of hosts bad).
Proof. intros. unfold dst_of. apply NoDup_filter. apply seq_NoDup. Qed.

Lemma dst_of_lt : forall hosts bad i, In i (dst_of hosts bad) -> i < length hosts.
Proof. intros hosts bad i H. unfold dst_of in H. apply filter_In in H as [H _]. apply in_seq in H. lia. Qed.

(* the judgement of an attempt, read backwards *)
Lemma judge_ok_sent : forall n m hosts bad sent imap dests pieces errf written after,
  C04.RSModel.rs_judge n m hosts bad sent imap dests pieces errf written after = 1%Z -> sent <> 0%Z ->
  exists p, reconstruct_plan n m (C04.RSModel.to_vec hosts) (C04.RSModel.to_vec bad)
              (firstn (length (filter (fun h => existsb (N.eqb h) (C04.RSModel.to_vec bad)) (C04.RSModel.to_vec hosts))) (C04.RSModel.to_vec dests)) = Some p /\
            C04.RSModel.zlist_eqb imap (p_map p) = true /\ C04.RSModel.nlist_eqb (C04.RSModel.to_vec dests) (p_dests p) = true /\
            (errf = 0%Z ->
               exists expect, rs_encode_one n m (C04.RSModel.rs_M n m) (map C04.RSModel.to_vec pieces) imap (map (fun d => negb (d =? 0)%Z) dests) = Some expect /\
                              C04.RSModel.written_ok expect written = true /\
                              C04.RSModel.nlist_eqb (C04.RSModel.to_vec after) (p_hosts p) = true) /\
            (errf <> 0%Z -> C04.RSModel.zlist_eqb after hosts = true).
Proof.
  intros n m hosts bad sent imap dests pieces errf written after H S. unfold C04.RSModel.rs_judge in H.
  assert (S0 : (sent =? 0)%Z = false) by now apply Z.eqb_neq. rewrite S0 in H.
  destruct (reconstruct_plan _ _ _ _ _) as [p|]; [|discriminate]. exists p. split; [reflexivity|].
  destruct (C04.RSModel.zlist_eqb imap (p_map p)); [|discriminate].
  destruct (C04.RSModel.nlist_eqb (C04.RSModel.to_vec dests) (p_dests p)); [|discriminate]. cbn in H.
  split; [reflexivity|]. split; [reflexivity|].
  destruct (errf =? 0)%Z eqn:E.
  - split; [|intro X; apply Z.eqb_eq in E; contradiction]. intros _.
    destruct (rs_encode_one _ _ _ _ _ _) as [expect|]; [|discriminate]. exists expect. split; [reflexivity|].
    destruct (C04.RSModel.written_ok expect written); [|discriminate]. cbn in H. split; [reflexivity|].
    destruct (C04.RSModel.nlist_eqb (C04.RSModel.to_vec after) (p_hosts p)); [reflexivity|discriminate].
  - split; [intro X; rewrite X in E; discriminate|]. intros _.
    destruct (C04.RSModel.zlist_eqb after hosts); [reflexivity|discriminate].
Qed.

Lemma judge_refuse : forall n m hosts bad sent imap dests pieces errf written after,
  sent <> 0%Z ->
  reconstruct_plan n m (C04.RSModel.to_vec hosts) (C04.RSModel.to_vec bad)
    (firstn (length (filter (fun h => existsb (N.eqb h) (C04.RSModel.to_vec bad)) (C04.RSModel.to_vec hosts))) (C04.RSModel.to_vec dests)) = None ->
  C04.RSModel.rs_judge n m hosts bad sent imap dests pieces errf written after = 25%Z.
Proof.
  intros. unfold C04.RSModel.rs_judge. assert (S0 : (sent =? 0)%Z = false) by now apply Z.eqb_neq. rewrite S0, H0. reflexivity.
Qed.

(* chunkTask: more than m bad pieces => no task, unrecoverable *)
Lemma chunk_task_hopeless : forall m hosts down cor,
  m < length (filter (fun i => Cluster.Model.zmem (nth i hosts 0%Z) down || existsb (Nat.eqb i) cor) (seq 0 (length hosts))) ->
  C04.RSModel.rs_chunk_task_of m hosts down cor = [2%Z; 0%Z].
Proof.
  intros m hosts down cor H. unfold C04.RSModel.rs_chunk_task_of. rewrite map_length.
  set (l := length _) in *.
  assert (A : Nat.eqb l 0 = false) by (apply Nat.eqb_neq; lia). assert (B : Nat.ltb m l = true) by now apply Nat.ltb_lt.
  now rewrite A, B.
Qed.

(* ---------- the committed host list (same statement and proof as C13's plan_hosts, re-proved here to keep this file
   free of the heavy proof closure) ---------- *)
Lemma set_nth_length' : forall A k (v : A) l, length (set_nth k v l) = length l.
Proof. induction k; destruct l; simpl; auto. Qed.

Lemma nth_set_nth_same' : forall A k (v d : A) l, k < length l -> nth k (set_nth k v l) d = v.
Proof. induction k; destruct l; simpl; intros; try lia; [reflexivity | apply IHk; lia]. Qed.

Lemma nth_set_nth_other' : forall A k i (v d : A) l, i <> k -> nth i (set_nth k v l) d = nth i l d.
Proof.
  induction k; destruct l; destruct i; simpl; intros; try reflexivity; try lia.
  apply IHk. lia.
Qed.

Lemma plan_hosts' : forall (dst : list nat) (ids hosts : list N),
  NoDup dst -> length ids = length dst -> (forall i, In i dst -> i < length hosts) ->
  let h' := fold_left (fun h p => set_nth (fst p) (snd p) h) (combine dst ids) hosts in
  length h' = length hosts /\
  (forall q, q < length dst -> nth (nth q dst 0) h' 0%N = nth q ids 0%N) /\
  (forall i, ~ In i dst -> nth i h' 0%N = nth i hosts 0%N).
Proof.
  induction dst as [|x dst IH]; intros ids hosts Hnd Hl Hlt; cbv zeta.
  - simpl. split; [reflexivity|]. split; [intros; lia | reflexivity].
  - destruct ids as [|id ids]; [discriminate|]. simpl in Hl. inversion Hnd; subst.
    cbn [combine fold_left fst snd].
    destruct (IH ids (set_nth x id hosts) H2 ltac:(lia)) as [A [B C]].
    { intros i Hi. rewrite set_nth_length'. apply Hlt. right. exact Hi. }
    cbv zeta in A, B, C. rewrite set_nth_length' in A.
    split; [exact A|]. split.
    + intros [|q] Hq.
      * cbn [nth]. rewrite (C x H1). apply nth_set_nth_same'. apply Hlt. left. reflexivity.
      * cbn [nth]. apply B. simpl in Hq. lia.
    + intros i Hi. rewrite C by (intro; apply Hi; right; assumption).
      apply nth_set_nth_other'. intro; apply Hi; left; congruence.
Qed.

Lemma plan_newids_length : forall n m hosts bad newids p,
  reconstruct_plan n m hosts bad newids = Some p -> length newids = length (dst_of hosts bad) /\ dst_of hosts bad <> [] /\ n <= length (ok_of hosts bad).
Proof.
  intros n m hosts bad newids p H. unfold reconstruct_plan in H. fold (dst_of hosts bad) in H. fold (ok_of hosts bad) in H.
  destruct (Nat.ltb (length (ok_of hosts bad)) n) eqn:L; [discriminate|]. apply Nat.ltb_ge in L.
  destruct (dst_of hosts bad) as [|x dst] eqn:D; [discriminate|].
  destruct (Nat.eqb (length newids) (length (x :: dst))) eqn:E; [|discriminate]. apply Nat.eqb_eq in E.
  split; [exact E|]. split; [discriminate | exact L].
Qed.

Lemma plan_commit_exact : forall n m hosts bad newids p,
  reconstruct_plan n m hosts bad newids = Some p ->
  length (p_hosts p) = length hosts /\
  (forall q, q < length (dst_of hosts bad) -> nth (nth q (dst_of hosts bad) 0) (p_hosts p) 0%N = nth q newids 0%N) /\
  (forall i, ~ In i (dst_of hosts bad) -> nth i (p_hosts p) 0%N = nth i hosts 0%N).
Proof.
  intros n m hosts bad newids p H. rewrite (plan_hosts_eq _ _ _ _ _ _ H).
  destruct (plan_newids_length _ _ _ _ _ _ H) as (L & _ & _).
  apply plan_hosts'; [apply dst_of_nodup | exact L | apply dst_of_lt].
Qed.
