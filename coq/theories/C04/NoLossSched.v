(* C04/NoLossSched.v — the schedules the run-level theorems of C04 quantify over (decidable), and the
   property's premise "every tract keeps at least one intact current replica" as a decidable state check.

   c04_ok_ev L cs ev:
     - events of the Cluster alphabet (codes 1..17): exactly Sched.ok_ev L on the underlying Cluster state, i.e.
       the single-writer discipline, what the real client does, fresh task ids, no probe event 17, and C01's two
       carve-outs: no SUPERSEDED PullTract takes effect (Sched.stale_pull, the F21 trigger) and no crash in the
       middle of PullTract (mode 6);  L = 4 allows lost/duplicated replies, failed requests, restarts, leader changes;
     - 60 corrupt: any existing replica;  61 delete: a replica of a tract that is durable (a fault destroys a
       replica of a tract, not a file that is just being created);
     - 62 scrub step, 63 heartbeat with failure report, 64 CheckTracts, 65 health belief, 66 detect round: always;
     - 67 popTask + runTask: the task starts under a fresh positive id (Sched.ok_ev of the start event 5).
   c04_ok_run additionally demands the premise after every event. *)
From Coq Require Import List ZArith Bool Lia.
From BLB Require Import Gen.Consts Cluster.Model Cluster.Sched Cluster.Order C04.Model.
Import ListNotations.
Open Scope Z_scope.

Definition wrec_eqb (a b : wrec) : bool := (w_id a =? w_id b) && (w_off a =? w_off b) && (w_len a =? w_len b).

(* the replica holds the record of every acknowledged write that touches its tract *)
Definition holds_acked (st : state) (tk : tkt) (r : replica) : bool :=
  forallb (fun '(b, wid, W) =>
             negb (b =? fst tk) || (snd (seg_of (w_off W) (w_len W) (snd tk)) <=? 0) ||
             existsb (wrec_eqb (rec_in wid W (snd tk))) (r_app r)) (s_acked st).

(* current = held by a durable host at a version >= the durable one; undamaged = no corrupt blocks *)
Definition undamaged_current (cs : cstate) (tk : tkt) (dv h : Z) : bool :=
  match rget (s_reps (c_base cs)) (h, tk) with
  | Some r => (dv <=? r_ver r) && negb (rmem (h, tk) (c_cor cs))
  | None => false
  end.

(* intact = undamaged and containing all acknowledged writes *)
Definition intact_current (cs : cstate) (tk : tkt) (dv h : Z) : bool :=
  undamaged_current cs tk dv h &&
  match rget (s_reps (c_base cs)) (h, tk) with Some r => holds_acked (c_base cs) tk r | None => false end.

(* the premise of the property *)
Definition premise (cs : cstate) : bool :=
  forallb (fun '(tk, (dv, hosts)) => existsb (intact_current cs tk dv) hosts) (s_dtr (c_base cs)).

Definition c04_ok_ev (L : Z) (cs : cstate) (ev : list Z) : bool :=
  match ev with
  | [] => true
  | c :: a =>
      if c =? 61 then match a with [ts; b; t] => durable (c_base cs) (tkey b t) | _ => true end
      else if (c =? 60) || (c =? 62) || (c =? 63) || (c =? 64) || (c =? 65) || (c =? 66) then true
      else if c =? 67 then ok_ev L (c_base cs) (5 :: a)
      else ok_ev L (c_base cs) ev
  end.

Fixpoint c04_ok_run (L : Z) (cs : cstate) (evs : list (list Z)) : bool :=
  match evs with
  | [] => true
  | ev :: r => c04_ok_ev L cs ev && premise (fst (cstep cs ev)) && c04_ok_run L (fst (cstep cs ev)) r
  end.

(* the schedule without the premise (used to say what holds unconditionally) *)
Fixpoint c04_sched (L : Z) (cs : cstate) (evs : list (list Z)) : bool :=
  match evs with
  | [] => true
  | ev :: r => c04_ok_ev L cs ev && c04_sched L (fst (cstep cs ev)) r
  end.

Lemma c04_ok_run_sched : forall L evs cs, c04_ok_run L cs evs = true -> c04_sched L cs evs = true.
Proof.
  induction evs as [|ev evs IH]; intros cs H; [reflexivity|]. cbn in *.
  apply andb_true_iff in H as [H H2]. apply andb_true_iff in H as [H1 _]. rewrite H1. cbn. now apply IH.
Qed.
