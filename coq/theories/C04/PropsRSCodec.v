(* C04/PropsRSCodec.v — the erasure-coded corollaries of C04 that rest on the PROOFS of the C13 development
   (Lib/RSProofs, Lib/RSMds, C13/ProofsIndexMap: exhaustive GF(256) laws by vm_compute).  Compiled on every run
   (coq target, Print Assumptions below), but not listed among the property files of C04: the thorough tier re-checks
   the closure of the property files with coqchk, which does not use the VM, and this closure does not get through it
   within any reasonable budget (> 30 min, not finished).  Moving this file into props "props_files" is all it takes to
   count these theorems if that cost is accepted. *)
From Coq Require Import List NArith ZArith Arith Bool Lia.
From BLB Require Import Lib.RS Lib.RSProofs C13.Model C13.Props C04.RSProofs.
Import ListNotations.

(* [FULL] c04_rs_reconstruction_exact - for every configured class and every stripe contents and every durable host list and every bad set that covers between one and m pieces with the first n good pieces holding their original bytes whatever the bad pieces hold and whatever nonzero servers placement chose the plan of reconstructChunk exists and its index map sources destinations and padding make the reconstruct verify and write loop of RSEncode write exactly original piece i to the destination chosen for every bad index i and nothing to the padded destinations and the host list it commits has the same length and names the new server at every bad index and the old server at every other index *)
Theorem c04_rs_reconstruction_exact :
  forall n m, In (n, m) rs_classes ->
  forall len d hosts bad newids pieces,
    wf_data n len d -> length hosts = n + m ->
    let E := encode_shards n m d in
    let dst := dst_of hosts bad in
    let ok := ok_of hosts bad in
    dst <> [] -> length dst <= m -> length newids = length dst -> Forall (fun id => id <> 0%N) newids ->
    (forall i, In i (firstn n ok) -> nth i pieces [] = nth i E []) ->
    exists p, reconstruct_plan n m hosts bad newids = Some p /\
              rs_encode_one n m (class_matrix n m) pieces (p_map p) (map (fun id => negb (N.eqb id 0)) (p_dests p))
              = Some (map (fun i => Some (nth i E [])) dst ++ repeat None (m - length dst)) /\
              length (p_hosts p) = length hosts /\
              (forall q, q < length dst -> nth (nth q dst 0) (p_hosts p) 0%N = nth q newids 0%N) /\
              (forall i, ~ In i dst -> nth i (p_hosts p) 0%N = nth i hosts 0%N).
Proof.
  intros n m C len d hosts bad newids pieces WF L E dst ok ND LM LN NZ SRC.
  subst dst ok. unfold dst_of, ok_of in *.
  assert (SQ : seq 0 (length hosts) = seq 0 (n + m)) by now rewrite L.
  rewrite SQ in *.
  destruct (indexmap_correct n m C len d hosts bad newids pieces WF L ND LM LN NZ SRC) as (p & P & _ & _ & _ & ENC).
  exists p. split; [exact P|]. split; [exact ENC|].
  pose proof (plan_hosts_eq _ _ _ _ _ _ P) as H. unfold dst_of in H. rewrite SQ in H. rewrite H.
  apply reconstruct_hosts_updated.
  - apply NoDup_filter, seq_NoDup.
  - exact LN.
  - intros i Hi. apply filter_In in Hi as [Hi _]. apply in_seq in Hi. lia.
Qed.
Print Assumptions c04_rs_reconstruction_exact.

(* [FULL] c04_rs_data_recoverable - the codec half of no loss for chunks. For every configured class and every stripe contents erasing any set of at most m pieces and decoding gives back exactly the data pieces and with the full reconstruction exactly all original pieces so as long as n intact pieces are named every original piece content is recoverable which is what the harness monitor recomputes with the real library after every step *)
Theorem c04_rs_data_recoverable :
  forall n m, In (n, m) rs_classes ->
  forall len d S data_only,
    wf_data n len d -> erased_count n m S <= m ->
    rs_reconstruct_gen n (n + m) (class_matrix n m) (erase S (encode_shards n m d)) data_only
    = inr (d ++ (if data_only then skipn n (erase S (encode_shards n m d)) else skipn n (encode_shards n m d))).
Proof. exact rs_reconstruct_exact. Qed.
Print Assumptions c04_rs_data_recoverable.

(* [FULL] c04_rs_codec_refuses - with fewer than n shards present the library's Reconstruct and ReconstructData return an error and no shards for every matrix and every contents which is the last line of defence of refusal when fewer than n pieces are intact *)
Theorem c04_rs_codec_refuses :
  forall n total M shards data_only,
    length shards = total -> length (present_indices shards) < n -> length (present_indices shards) <> total ->
    exists e, rs_reconstruct_gen n total M shards data_only = inl e.
Proof. exact rs_too_few. Qed.
Print Assumptions c04_rs_codec_refuses.
