(* C01/Props.v — property-level theorems of C01 over the Cluster model (coq/theories/Cluster/Model.v). *)
From Coq Require Import List ZArith Bool Lia.
From BLB Require Import Gen.Consts C01.Model Cluster.Proofs.
Import ListNotations.
Open Scope Z_scope.

(* [PARTIAL] Store level of c01_failed_write_confined - whatever its outcome a client Write executed at a tractserver leaves every other replica untouched and on its own replica keeps the version and every byte outside its own range *)
Theorem c01_write_rpc_confined_partial :
  forall reps ts tk ver wid off len reps' c,
    ts_write reps ts tk ver wid off len = (reps', c) ->
    (forall k', k' <> (ts, tk) -> rget reps' k' = rget reps k') /\
    (rget reps (ts, tk) = None -> rget reps' (ts, tk) = None) /\
    (forall r, rget reps (ts, tk) = Some r ->
       exists r', rget reps' (ts, tk) = Some r' /\ r_ver r' = r_ver r /\
                  (forall p, ~ (off <= p < off + len) -> byte_at (r_app r') p = byte_at (r_app r) p)).
Proof. exact ts_write_frame. Qed.
Print Assumptions c01_write_rpc_confined_partial.

(* [PARTIAL] Store level of c01_failed_write_confined for Create - creating on an existing tract is a write at version 1 that keeps all bytes outside its range and a fresh tract reads as zero outside the range *)
Theorem c01_create_rpc_confined_partial :
  forall reps ts tsid tk wid off len reps' c,
    ts_create reps ts tsid tk wid off len = (reps', c) ->
    (forall k', k' <> (ts, tk) -> rget reps' k' = rget reps k') /\
    (forall r, rget reps (ts, tk) = Some r ->
       exists r', rget reps' (ts, tk) = Some r' /\ r_ver r' = r_ver r /\
                  (forall p, ~ (off <= p < off + len) -> byte_at (r_app r') p = byte_at (r_app r) p)) /\
    (rget reps (ts, tk) = None ->
       forall r', rget reps' (ts, tk) = Some r' ->
                  r_ver r' = 1 /\ forall p, ~ (off <= p < off + len) -> byte_at (r_app r') p = 0).
Proof. exact ts_create_frame. Qed.
Print Assumptions c01_create_rpc_confined_partial.

(* [PARTIAL] Store level of bumped_is_frozen - a replica whose version differs from the version a write names rejects it with a version mismatch and no replica changes *)
Theorem bumped_is_frozen_store_partial :
  forall reps ts tk ver wid off len r,
    rget reps (ts, tk) = Some r -> r_ver r <> ver ->
    ts_write reps ts tk ver wid off len = (reps, cl_ErrVersionMismatch).
Proof. exact ts_write_wrong_version. Qed.
Print Assumptions bumped_is_frozen_store_partial.

(* [PARTIAL] Store level of host_version_window - SetVersion never lowers a version never changes content and raises the version by at most one namely to the requested value and after a successful reply the version is at least the requested one *)
Theorem setversion_window_partial :
  forall reps ts tsid tk nv reps' c,
    ts_setversion reps ts tsid tk nv = (reps', c) -> setversion_post reps reps' ts tk nv c.
Proof. exact ts_setversion_frame. Qed.
Print Assumptions setversion_window_partial.

(* [FULL] commit_is_unique_per_version - once ChangeTract committed version v for a tract no later ChangeTract naming v can succeed whatever its term and hosts and a proposal under a stale term changes nothing *)
Theorem commit_is_unique_per_version :
  (forall st term blob tract ver hosts st' term2 hosts2 st2 c,
      change_tract st term blob tract ver hosts = (st', cl_NoError) ->
      change_tract st' term2 blob tract ver hosts2 = (st2, c) -> c <> cl_NoError) /\
  (forall st term blob tract ver hosts,
      term <> s_term st -> change_tract st term blob tract ver hosts = (st, cl_ErrLeaderContinuityBroken)).
Proof. split; [exact commit_unique_per_version | exact change_tract_stale_term]. Qed.
Print Assumptions commit_is_unique_per_version.
