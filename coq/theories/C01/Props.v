(* C01/Props.v — property-level theorems of C01 over the Cluster model (coq/theories/Cluster/Model.v). *)
From Coq Require Import List ZArith Bool Lia.
From BLB Require Import Gen.Consts C01.Model Cluster.Proofs Cluster.Frame Cluster.Inv Cluster.Window Cluster.Attempts C01.Witness.
From BLB Require Import Cluster.Sched Cluster.Order Cluster.Contain Cluster.Visible Cluster.Lower Cluster.Prov Cluster.Cand Cluster.Crash Cluster.Reader C01.Ladder.
Import ListNotations.
Open Scope Z_scope.

(* [FULL] c01_failed_write_confined - one scheduling decision changes replica data only if it executes an RPC and then only the one replica that RPC addresses and if the RPC is a client Write or Create only bytes inside the range the RPC names with the version kept and a newly created replica reading zero elsewhere. Together with c01_client_rpc_in_own_range this confines every write whatever its outcome to its own range of its own tracts *)
Theorem c01_failed_write_confined : forall st ev, step_frame st ev.
Proof. exact step_frame_holds. Qed.
Print Assumptions c01_failed_write_confined.

(* [FULL] c01_client_rpc_in_own_range - rule V_ISSUE which the real client is checked against on every run lets a data carrying Write or Create pass only if it carries the id of the client's current write and names exactly the part of that write's range that lies in the named tract of the write's blob *)
Theorem c01_client_rpc_in_own_range :
  forall st rp, issue_allowed st rp = true ->
    (k_kind rp = K_Write \/ k_kind rp = K_Create) -> k_len rp <> 0 ->
    exists o, op_of_client (s_ops st) (k_cli rp) = Some o /\ o_kind o = 3 /\ o_blob o = k_blob rp /\
              o_wid o = k_wid rp /\ seg_of (o_off o) (o_len o) (k_tract rp) = (k_off rp, k_len rp).
Proof.
  intros st rp H K L. unfold issue_allowed in H.
  apply andb_true_iff in H as [_ H].
  assert (TS : is_ts_kind (k_kind rp) = true) by (destruct K as [K|K]; rewrite K; reflexivity).
  rewrite TS in H. apply andb_true_iff in H as [_ H].
  assert (WK : (k_kind rp =? K_Write) || (k_kind rp =? K_Create) = true) by (destruct K as [K|K]; rewrite K; reflexivity).
  rewrite WK in H. destruct (op_of_client (s_ops st) (k_cli rp)) as [o|]; [|discriminate].
  exists o. apply andb_true_iff in H as [H H3]. apply andb_true_iff in H as [H1 H2].
  apply Z.eqb_eq in H1, H2. apply orb_true_iff in H3 as [H3|H3]. { apply Z.eqb_eq in H3; contradiction. }
  apply andb_true_iff in H3 as [H3 H6]. apply andb_true_iff in H3 as [H4 H5]. apply Z.eqb_eq in H4, H5, H6.
  repeat split; auto. destruct (seg_of (o_off o) (o_len o) (k_tract rp)); cbn in *; congruence.
Qed.
Print Assumptions c01_client_rpc_in_own_range.

(* [FULL] c01_failed_write_confined_run - run level form of the failed write clause - in every reachable state every write record held by any replica is exactly the part lying in that replica's tract of a write attempt that was started on that replica's blob so whatever its outcome and whatever repairs crashes lost or duplicated replies and leader changes happen a write can only ever show up inside its own range of its own blob on any server *)
Theorem c01_failed_write_confined_run :
  forall evs ts b j r wr,
    let st := run_state init_state evs in
    rget (s_reps st) (ts, (b, j)) = Some r -> In wr (r_app r) ->
    exists W, In (b, w_id wr, W) (s_att st) /\ seg_of (w_off W) (w_len W) j = (w_off wr, w_len wr).
Proof. exact records_are_attempt_parts. Qed.
Print Assumptions c01_failed_write_confined_run.

(* [FULL] c01_unwritten_reads_zero - the never written part of c01_acked_write_visible - in every reachable state a byte that no write attempt on the blob ever covered reads as zero on every replica of its tract whichever replica answers *)
Theorem c01_unwritten_reads_zero :
  forall evs ts b j r p,
    let st := run_state init_state evs in
    rget (s_reps st) (ts, (b, j)) = Some r ->
    newest_cover (s_att st) b (j * TL + p) = None ->
    byte_at (r_app r) p = 0.
Proof. exact unwritten_reads_zero. Qed.
Print Assumptions c01_unwritten_reads_zero.

(* [REFUTED] c01_acked_write_visible - on the model that is faithful to the current code there is a run with no complaint of the model about any client in which a durable host at the durable version does not show an acknowledged write with no newer attempt on that byte - the witness is the directed schedule d1 replayed on the real code on every run of the check which is finding F21 *)
Theorem c01_acked_write_visible_refuted :
  exists evs blob tract h p,
    clean_run evs = true /\ vis_ok (run_state init_state evs) blob tract h p = false.
Proof. exists d1_ops, 0, 0, 1, 40. split; vm_compute; reflexivity. Qed.
Print Assumptions c01_acked_write_visible_refuted.

(* [FULL] clients_name_only_durable_versions - in every reachable state the durable records are well formed with tract records only below the tract count of an existing blob and versions at least 1 and every version a client can still name is at most the durable version of that tract or at most 1 while the tract is not durable yet and this covers the location entries delivered to clients the tract lists inside replies that are still under way and the pending client Write RPCs. Holds for every schedule with lost and duplicated replies restarts crashes during a pull leader changes and stragglers *)
Theorem clients_name_only_durable_versions : forall evs, Inv (run_state init_state evs).
Proof. intro evs. apply inv_reachable. exact inv_init. Qed.
Print Assumptions clients_name_only_durable_versions.

(* [FULL] bumped_is_frozen - in every reachable state a replica whose version is above the durable version of its tract which is what a repair that has bumped but not yet committed leaves behind rejects every client Write that is still pending with a version mismatch and is left unchanged by it and a pending Create that finds such a replica changes nothing either so no write can be acknowledged through a bumped replica until the commit *)
Theorem bumped_is_frozen :
  forall evs e r dv hs,
    let st := run_state init_state evs in
    In e (s_pool st) ->
    let tk := tkey (k_blob (p_rpc e)) (k_tract (p_rpc e)) in
    rget (s_reps st) (k_ts (p_rpc e), tk) = Some r ->
    tget (s_dtr st) tk = Some (dv, hs) -> dv < r_ver r ->
    (k_kind (p_rpc e) = K_Write ->
       ts_write (s_reps st) (k_ts (p_rpc e)) tk (k_ver (p_rpc e)) (k_wid (p_rpc e)) (k_off (p_rpc e)) (k_len (p_rpc e))
       = (s_reps st, cl_ErrVersionMismatch)) /\
    (k_kind (p_rpc e) = K_Create ->
       forall tsid, fst (ts_create (s_reps st) (k_ts (p_rpc e)) tsid tk (k_wid (p_rpc e)) (k_off (p_rpc e)) (k_len (p_rpc e)))
                    = s_reps st).
Proof. exact bumped_is_frozen_reachable. Qed.
Print Assumptions bumped_is_frozen.

(* [FULL] durable_versions_monotone - from every reachable state and along every continuation of the run a durable tract record never disappears and its version never decreases and with commit_is_unique_per_version each commit raises it by exactly one *)
Theorem durable_versions_monotone :
  forall evs2 evs1 tk dv hs,
    let st := run_state init_state evs1 in
    tget (s_dtr st) tk = Some (dv, hs) ->
    exists dv' hs', tget (s_dtr (run_state st evs2)) tk = Some (dv', hs') /\ dv <= dv'.
Proof. exact durable_monotone. Qed.
Print Assumptions durable_versions_monotone.

(* [PARTIAL] host_version_window upper half - in every state reachable by a schedule that contains no injected probe RPC which is event 17 and exists only to test the tractserver's own rules no replica of a durable tract is more than one version ahead of the durable record and a replica of a tract that is not durable yet is at version 1 at most and this holds with lost and duplicated replies restarts crashes during a pull leader changes and stragglers. Missing for the full window are presence and the lower bound for durable hosts which fail in the F21 case *)
Theorem host_version_window_upper_partial :
  forall evs ts tk r,
    no_inject evs ->
    let st := run_state init_state evs in
    rget (s_reps st) (ts, tk) = Some r ->
    match tget (s_dtr st) tk with Some (dv, _) => r_ver r <= dv + 1 | None => r_ver r <= 1 end.
Proof. exact replica_at_most_one_ahead. Qed.
Print Assumptions host_version_window_upper_partial.

(* [PARTIAL] host_version_window at the Store - SetVersion never lowers a version never changes content and raises the version by at most one namely to the requested value and after a successful reply the version is at least the requested one *)
Theorem setversion_window_partial :
  forall reps ts tsid tk nv reps' c,
    ts_setversion reps ts tsid tk nv = (reps', c) -> setversion_post reps reps' ts tk nv c.
Proof. exact ts_setversion_frame. Qed.
Print Assumptions setversion_window_partial.

(* [FULL] commit_is_unique_per_version - once ChangeTract committed version v for a tract no later ChangeTract naming v can succeed whatever its term and hosts and a proposal under a stale term changes nothing *)
Theorem commit_is_unique_per_version :
  (forall st term blob tract ver hosts st' term2 hosts2 st2 c,
      change_tract st term blob tract ver hosts = (st', cl_NoError) ->
      change_tract st' term2 blob tract ver hosts2 = (st2, c) -> c <> cl_NoError) /\
  (forall st term blob tract ver hosts,
      term <> s_term st -> change_tract st term blob tract ver hosts = (st, cl_ErrLeaderContinuityBroken)).
Proof. split; [exact commit_unique_per_version | exact change_tract_stale_term]. Qed.
Print Assumptions commit_is_unique_per_version.

(* ------------------------------------------------------------------ the visibility ladder *)
(* The schedules are those accepted by the decidable predicate Sched.ok_run L (Cluster/Sched.v has the full
   text of ok_ev).  At every level: the single-writer discipline of the property (one write at a time, with a
   fresh larger write id, non-empty; an operation ends only after its data and lookup RPCs came back; one
   operation per client); a Write rests on a location entry from GetTracts, a Create reaches a server only
   while the tract is not durable yet, an AckExtend names the consecutive tracts ExtendBlob handed out and hosts
   that accepted the write; curator tasks start under fresh ids; no injected probe RPC (event 17); and the
   carve-outs: no superseded PullTract takes effect (Sched.stale_pull, the F21 trigger) and no crash in the
   middle of a PullTract.
   Per level: L=1 requests are delivered or executed with a delayed reply only; L=2 adds lost replies,
   requests executed twice and requests that fail without executing; L=3 adds tractserver restarts; L=4 adds leader changes.
   Re-replication, fixVersion, stale client caches, delayed replies and ChangeTract probes occur at every level. *)
Definition acked_count (st : state) : Z := Z.of_nat (length (s_acked st)).
Definition max_version (st : state) : Z := fold_right (fun '(_, (dv, _)) a => Z.max dv a) 0 (s_dtr st).

(* [PARTIAL] c01_partial_no_faults - along every schedule of level 1 of Sched.ok_run that is with no lost or duplicated reply no failed request no restart no crash and no leader change but with re-replication fixVersion delayed replies and stale client caches every byte of every blob read at any durable host at the durable version that is by the writer or by any reader that looked the tract up after the acknowledgement whichever host answers is the byte of the newest write covering it whenever that write was acknowledged and zero if no write attempt ever covered it *)
Theorem c01_partial_no_faults : forall evs,
  ok_run 1 init_state evs = true ->
  forall blob tract host p, 0 <= p < TL -> vis_ok (run_state init_state evs) blob tract host p = true.
Proof. exact (acked_visible_run 1). Qed.
Print Assumptions c01_partial_no_faults.

Example c01_partial_no_faults_nonvacuous :
  ok_run 1 init_state l1_ops &&
  (3 <=? acked_count (run_state init_state l1_ops)) && (2 <=? max_version (run_state init_state l1_ops)) = true.
Proof. vm_compute. reflexivity. Qed.

(* [PARTIAL] c01_partial_lost_replies - the same statement along every schedule of level 2 which adds lost replies requests executed twice and requests that fail without executing to level 1 *)
Theorem c01_partial_lost_replies : forall evs,
  ok_run 2 init_state evs = true ->
  forall blob tract host p, 0 <= p < TL -> vis_ok (run_state init_state evs) blob tract host p = true.
Proof. exact (acked_visible_run 2). Qed.
Print Assumptions c01_partial_lost_replies.

Example c01_partial_lost_replies_nonvacuous :
  ok_run 2 init_state l2_ops && negb (ok_run 1 init_state l2_ops) &&
  (2 <=? acked_count (run_state init_state l2_ops)) && (2 <=? max_version (run_state init_state l2_ops)) = true.
Proof. vm_compute. reflexivity. Qed.

Example c01_partial_lost_replies_nonvacuous_twice :
  ok_run 2 init_state l2b_ops && negb (ok_run 1 init_state l2b_ops) &&
  existsb (fun ev => (hd 0 ev =? 7) && (nth 1 ev 0 =? 3)) l2b_ops && existsb (fun ev => (hd 0 ev =? 7) && (nth 1 ev 0 =? 2)) l2b_ops &&
  (2 <=? acked_count (run_state init_state l2b_ops)) = true.
Proof. vm_compute. reflexivity. Qed.

(* [PARTIAL] c01_partial_restart - the same statement along every schedule of level 3 which adds tractserver restarts to level 2. A crash in the middle of PullTract is not in the alphabet because the model like the code leaves an empty copy that already carries the version *)
Theorem c01_partial_restart : forall evs,
  ok_run 3 init_state evs = true ->
  forall blob tract host p, 0 <= p < TL -> vis_ok (run_state init_state evs) blob tract host p = true.
Proof. exact (acked_visible_run 3). Qed.
Print Assumptions c01_partial_restart.

Example c01_partial_restart_nonvacuous :
  ok_run 3 init_state l3_ops && negb (ok_run 2 init_state l3_ops) &&
  (2 <=? acked_count (run_state init_state l3_ops)) && (4 <=? max_version (run_state init_state l3_ops)) = true.
Proof. vm_compute. reflexivity. Qed.

(* [PARTIAL] c01_acked_write_visible_except_late_repull - the same statement along every schedule of level 4 which adds leader changes so that superseded incarnations keep running their tasks. The F21 trigger is carved out as the decidable side condition Sched.stale_pull - no PullTract whose requested version is already committed executes at a server whose copy is absent or not newer than the request. There is no further hypothesis. It is tagged PARTIAL and not FULL only because one fault class of the property is still outside the alphabet - a crash in the middle of PullTract which like in the code leaves an empty copy that already carries the version *)
Theorem c01_acked_write_visible_except_late_repull : forall evs,
  ok_run 4 init_state evs = true ->
  forall blob tract host p, 0 <= p < TL -> vis_ok (run_state init_state evs) blob tract host p = true.
Proof. exact (acked_visible_run 4). Qed.
Print Assumptions c01_acked_write_visible_except_late_repull.

Example c01_acked_write_visible_except_late_repull_nonvacuous :
  ok_run 4 init_state l4_ops && negb (ok_run 3 init_state l4_ops) &&
  (2 <=? acked_count (run_state init_state l4_ops)) && (3 <=? max_version (run_state init_state l4_ops)) = true.
Proof. vm_compute. reflexivity. Qed.

(* the refuting schedule d1 of c01_acked_write_visible_refuted leaves the alphabet exactly at its late PullTract *)
Example d1_leaves_alphabet_at_late_pull :
  ok_run 4 init_state (firstn 38 d1_ops) && negb (ok_run 4 init_state (firstn 39 d1_ops)) &&
  (hd 0 (nth 38 d1_ops []) =? 7) && (nth 2 (nth 38 d1_ops []) 0 =? K_PullTract) = true.
Proof. vm_compute. reflexivity. Qed.

(* [PARTIAL] hosts_contain_acked_writes_partial - invariant I1 behind the ladder - along every schedule of level 4 every copy that a reader can be sent to now or after the next commit that is a durable host at the durable version or any copy one version ahead holds the record of every acknowledged write for each tract the write touches *)
Theorem hosts_contain_acked_writes_partial : forall evs,
  ok_run 4 init_state evs = true ->
  let st := run_state init_state evs in
  forall b wid W j dv H g r,
    In (b, wid, W) (s_acked st) -> tget (s_dtr st) (b, j) = Some (dv, H) -> rget (s_reps st) (g, (b, j)) = Some r ->
    (In g H /\ r_ver r = dv) \/ r_ver r = dv + 1 ->
    0 < snd (seg_of (w_off W) (w_len W) j) -> In (rec_in wid W j) (r_app r).
Proof. exact (hosts_contain_acked 4). Qed.
Print Assumptions hosts_contain_acked_writes_partial.

(* [PARTIAL] host_version_window_lower_partial - lower half of the host version window - along every schedule of level 4 a durable host that holds a copy of the tract holds it at least at the durable version. Together with host_version_window_upper_partial a present copy of a durable host is at the durable version or one ahead. Presence itself is not claimed because a failed pull removes the local copy *)
Theorem host_version_window_lower_partial : forall evs,
  ok_run 4 init_state evs = true ->
  let st := run_state init_state evs in
  forall tk dv H h r, tget (s_dtr st) tk = Some (dv, H) -> In h H -> rget (s_reps st) (h, tk) = Some r -> dv <= r_ver r.
Proof. exact (lower_window 4). Qed.
Print Assumptions host_version_window_lower_partial.

(* ------------------------------------------------------------------ rung 5: crashes in the middle of PullTract *)
(* Level 5 (Sched.ok_run5) is level 4 plus the crash event (delivery mode 6 of a parked PullTract): the tractserver
   dies after it created the local file and recorded the pulled version but before the data arrived, so an EMPTY copy
   that already carries the version stays behind, the curator sees an RPC error and every request parked at that
   server fails (restart).  The crash is admissible when it is not a superseded pull (Sched.stale_pull) and when
   Sched.crash_safe holds: the target is not a durable host and nobody counts it as pulled at that version, i.e.
   there is no completed pull to it whose reply is still under way and no task that has consumed such a reply.
   Both side conditions say that the PullTract is not a LATE RE-PULL of a copy that is already complete at the
   requested version, which is the trigger of F21. *)

(* [FULL] c01_acked_write_visible_with_crashed_pulls - along every schedule of level 5 of Sched.ok_run5 that is the whole fault alphabet of the property which is lost replies requests executed twice requests failed without executing tractserver restarts leader changes and crashes in the middle of PullTract together with re-replication fixVersion delayed replies and stale client caches every byte of every blob read at any durable host at the durable version is the byte of the newest write covering it whenever that write was acknowledged and zero if no write attempt ever covered it. The only carve-out is the late re-pull of F21 in its two forms - a superseded PullTract taking effect which is Sched.stale_pull and a crash inside a PullTract for a copy that a completed pull already delivered at that version which is the negation of Sched.crash_safe. The proof counts a copy one version ahead as a candidate host only if it is a durable host or a completed pull put it there and shows that pull sources are durable hosts *)
Theorem c01_acked_write_visible_with_crashed_pulls : forall evs,
  ok_run5 init_state evs = true ->
  forall blob tract host p, 0 <= p < TL -> vis_ok (run_state init_state evs) blob tract host p = true.
Proof. exact acked_visible_run5. Qed.
Print Assumptions c01_acked_write_visible_with_crashed_pulls.

Example c01_acked_write_visible_with_crashed_pulls_nonvacuous :
  ok_run5 init_state l5_ops && negb (ok_run 4 init_state l5_ops) &&
  existsb (fun ev => (hd 0 ev =? 7) && (nth 1 ev 0 =? 6)) l5_ops &&
  (2 <=? acked_count (run_state init_state l5_ops)) && (2 <=? max_version (run_state init_state l5_ops)) = true.
Proof. vm_compute. reflexivity. Qed.

(* [FULL] ladder_levels_nested - every schedule of a level up to 4 is a schedule of level 5 so the theorem above contains the four rungs below it *)
Theorem ladder_levels_nested : forall L evs, L <= 4 -> ok_run L init_state evs = true -> ok_run5 init_state evs = true.
Proof. intros L evs. apply ok_run_5. Qed.
Print Assumptions ladder_levels_nested.

(* ------------------------------------------------------------------ the reader clause beyond the lookup instant *)
(* Store.Read checks the version with == (Model.ts_read: a copy whose version differs answers ErrVersionMismatch, a
   missing copy ErrNoSuchTract), so a Read through a location entry is answered only by a host that still holds its copy
   at exactly the entry's version.  ke_acks is the number of acknowledged writes at the moment the lookup executed:
   Reader.before st (ke_acks ke) are the writes acknowledged before the lookup. *)

(* [FULL] c01_stale_location_read_is_fresh_or_refused - along every schedule of level 5 and at any later moment for every location entry a client obtained from GetTracts however stale and every host the entry names a Read through the entry is either refused with no such tract or version mismatch which makes the client look up again or it is answered with OK or EOF by a copy at exactly the entry's version and then the bytes are those of that copy and on every byte the copy shows a write at least as new as every write that was acknowledged before the lookup and covers the byte and exactly that write if it is still the newest attempt on the byte. So a reader whose lookup followed the acknowledgement never gets older or partial data whichever named host answers and however late it reads. A reader whose lookup preceded the acknowledgement is outside the clause - a host dropped from the host list that still answers at the old version serves such a reader the old bytes legitimately *)
Theorem c01_stale_location_read_is_fresh_or_refused : forall evs, ok_run5 init_state evs = true ->
  let st := run_state init_state evs in
  forall ke h len off c n runs,
    In ke (s_know st) -> ke_durable ke = true -> In h (ke_hosts ke) ->
    ts_read (s_reps st) h (ke_tk ke) (ke_ver ke) len off = (c, n, runs) ->
    (c = cl_ErrNoSuchTract \/ c = cl_ErrVersionMismatch) \/
    ((c = cl_NoError \/ c = cl_ErrEOF) /\
     exists r, rget (s_reps st) (h, ke_tk ke) = Some r /\ r_ver r = ke_ver ke /\
       runs = render (r_app r) off (Z.min (off + len) (app_len (r_app r))) /\
       forall wid W p, In (fst (ke_tk ke), wid, W) (before st (ke_acks ke)) -> 0 <= p < TL ->
         covers W (snd (ke_tk ke) * TL + p) = true ->
         wid <= byte_at (r_app r) p /\
         (newest_cover (s_att st) (fst (ke_tk ke)) (snd (ke_tk ke) * TL + p) = Some wid -> byte_at (r_app r) p = wid)).
Proof. exact stale_location_read. Qed.
Print Assumptions c01_stale_location_read_is_fresh_or_refused.

(* non-vacuity: at some moment of the level 3 witness a client holds an entry from a lookup that saw an acknowledgement whose version is already superseded while a host it names still answers at that old version *)
Definition stale_entry_answering (st : state) : bool :=
  existsb (fun ke => ke_durable ke && (1 <=? ke_acks ke) &&
    match tget (s_dtr st) (ke_tk ke) with Some (dv, _) => ke_ver ke <? dv | None => false end &&
    existsb (fun h => match rget (s_reps st) (h, ke_tk ke) with Some r => r_ver r =? ke_ver ke | None => false end) (ke_hosts ke)) (s_know st).
Example c01_stale_location_read_nonvacuous :
  ok_run5 init_state l3_ops &&
  existsb (fun n => stale_entry_answering (run_state init_state (firstn n l3_ops))) (seq 0 (S (length l3_ops))) = true.
Proof. vm_compute. reflexivity. Qed.

(* [FULL] host_version_window - along every schedule of level 5 a durable host that holds a copy of the tract holds it at the durable version or one version ahead. Presence of the copy is a premise and not a conclusion because a PullTract whose sources all fail removes the local copy and a host without a copy refuses every request which is all the property needs *)
Theorem host_version_window : forall evs, ok_run5 init_state evs = true ->
  let st := run_state init_state evs in
  forall tk dv H h r, tget (s_dtr st) tk = Some (dv, H) -> In h H -> rget (s_reps st) (h, tk) = Some r -> dv <= r_ver r <= dv + 1.
Proof. exact version_window. Qed.
Print Assumptions host_version_window.
