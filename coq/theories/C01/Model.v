(* C01/Model.v — the C01 check uses the shared Cluster model (replicated tracts):
   run_case is Cluster.Model.run_case. *)
From BLB Require Export Cluster.Model.
