(* Lib/GF256Laws.v — commutative-ring and field laws of GF(2^8) as modelled in GF256.v.
   The byte domain is finite (256 values): the binary laws are checked on all 256^2 pairs and
   associativity / distributivity on all 256^3 = 16 777 216 triples by vm_compute (exhaustive, the
   bound is part of each *_bytes statement); the unconditional statements over N follow because every
   operation masks its operands with 255.  Kept in its own file so that it is compiled once. *)
From Coq Require Import NArith List Bool Lia ZifyN ZifyNat ZifyBool.
From BLB Require Import Lib.GF256.
Import ListNotations.
Open Scope N_scope.

Lemma byte_of_lt : forall a, byte_of a < 256.
Proof.
  intro a. unfold byte_of. change 255 with (N.ones 8). rewrite N.land_ones.
  apply N.mod_lt. discriminate.
Qed.

Lemma byte_of_id : forall a, a < 256 -> byte_of a = a.
Proof.
  intros a H. unfold byte_of. change 255 with (N.ones 8). rewrite N.land_ones.
  apply N.mod_small. exact H.
Qed.

Lemma byte_of_idem : forall a, byte_of (byte_of a) = byte_of a.
Proof. intro a. apply byte_of_id, byte_of_lt. Qed.

Lemma in_bytes256 : forall a, a < 256 -> In a bytes256.
Proof.
  intros a H. unfold bytes256. apply in_map_iff. exists (N.to_nat a). split.
  - apply N2Nat.id.
  - apply in_seq. lia.
Qed.

Lemma byte_of_in : forall a, In (byte_of a) bytes256.
Proof. intro a. apply in_bytes256, byte_of_lt. Qed.

Definition all1 (f : N -> bool) : bool := forallb f bytes256.
Definition all2 (f : N -> N -> bool) : bool := forallb (fun a => forallb (f a) bytes256) bytes256.
Definition all3 (f : N -> N -> N -> bool) : bool :=
  forallb (fun a => forallb (fun b => forallb (f a b) bytes256) bytes256) bytes256.

Lemma all1_spec : forall f, all1 f = true -> forall a, a < 256 -> f a = true.
Proof. intros f H a Ha. unfold all1 in H. rewrite forallb_forall in H. apply H, in_bytes256, Ha. Qed.
Lemma all2_spec : forall f, all2 f = true -> forall a b, a < 256 -> b < 256 -> f a b = true.
Proof.
  intros f H a b Ha Hb. unfold all2 in H. rewrite forallb_forall in H.
  specialize (H a (in_bytes256 a Ha)). rewrite forallb_forall in H. apply H, in_bytes256, Hb.
Qed.
Lemma all3_spec : forall f, all3 f = true ->
  forall a b c, a < 256 -> b < 256 -> c < 256 -> f a b c = true.
Proof.
  intros f H a b c Ha Hb Hc. unfold all3 in H. rewrite forallb_forall in H.
  specialize (H a (in_bytes256 a Ha)). rewrite forallb_forall in H.
  specialize (H b (in_bytes256 b Hb)). rewrite forallb_forall in H. apply H, in_bytes256, Hc.
Qed.

(* ---------- exhaustive facts over bytes ---------- *)
Lemma gmul8_lt_bytes : forall a b, a < 256 -> b < 256 -> gmul8 a b < 256.
Proof.
  intros a b Ha Hb. apply N.ltb_lt.
  apply (all2_spec (fun a b => gmul8 a b <? 256)); [vm_compute; reflexivity | exact Ha | exact Hb].
Qed.

Lemma gmul8_comm_bytes : forall a b, a < 256 -> b < 256 -> gmul8 a b = gmul8 b a.
Proof.
  intros a b Ha Hb. apply N.eqb_eq.
  apply (all2_spec (fun a b => gmul8 a b =? gmul8 b a)); [vm_compute; reflexivity | exact Ha | exact Hb].
Qed.

(* the tables agree with multiplication of polynomials over GF(2) modulo 0x11D, on all 65 536 pairs *)
Lemma gmul_is_carryless_bytes : forall a b, a < 256 -> b < 256 -> gmul8 a b = gmul_slow a b.
Proof.
  intros a b Ha Hb. apply N.eqb_eq.
  apply (all2_spec (fun a b => gmul8 a b =? gmul_slow a b)); [vm_compute; reflexivity | exact Ha | exact Hb].
Qed.

Lemma gmul8_1_l_bytes : forall a, a < 256 -> gmul8 1 a = a.
Proof.
  intros a Ha. apply N.eqb_eq.
  apply (all1_spec (fun a => gmul8 1 a =? a)); [vm_compute; reflexivity | exact Ha].
Qed.

Lemma ginv8_lt_bytes : forall a, a < 256 -> ginv8 a < 256.
Proof.
  intros a Ha. apply N.ltb_lt.
  apply (all1_spec (fun a => ginv8 a <? 256)); [vm_compute; reflexivity | exact Ha].
Qed.

Lemma gmul8_inv_bytes : forall a, a < 256 -> a <> 0 -> gmul8 a (ginv8 a) = 1.
Proof.
  intros a Ha Hn.
  assert (H : ((a =? 0) || (gmul8 a (ginv8 a) =? 1)) = true).
  { apply (all1_spec (fun a => (a =? 0) || (gmul8 a (ginv8 a) =? 1))); [vm_compute; reflexivity | exact Ha]. }
  apply orb_true_iff in H. destruct H as [H | H].
  - apply N.eqb_eq in H. contradiction.
  - apply N.eqb_eq. exact H.
Qed.

Lemma lxor_lt_bytes : forall a b, a < 256 -> b < 256 -> N.lxor a b < 256.
Proof.
  intros a b Ha Hb. apply N.ltb_lt.
  apply (all2_spec (fun a b => N.lxor a b <? 256)); [vm_compute; reflexivity | exact Ha | exact Hb].
Qed.

(* 16 777 216 triples each *)
Lemma gmul8_assoc_bytes : forall a b c, a < 256 -> b < 256 -> c < 256 ->
  gmul8 (gmul8 a b) c = gmul8 a (gmul8 b c).
Proof.
  intros a b c Ha Hb Hc. apply N.eqb_eq.
  apply (all3_spec (fun a b c => gmul8 (gmul8 a b) c =? gmul8 a (gmul8 b c)));
    [vm_compute; reflexivity | exact Ha | exact Hb | exact Hc].
Qed.

Lemma gmul8_distr_bytes : forall a b c, a < 256 -> b < 256 -> c < 256 ->
  gmul8 a (N.lxor b c) = N.lxor (gmul8 a b) (gmul8 a c).
Proof.
  intros a b c Ha Hb Hc. apply N.eqb_eq.
  apply (all3_spec (fun a b c => gmul8 a (N.lxor b c) =? N.lxor (gmul8 a b) (gmul8 a c)));
    [vm_compute; reflexivity | exact Ha | exact Hb | exact Hc].
Qed.

(* ---------- the same laws, unconditionally over N ---------- *)
Lemma gmul_lt : forall a b, gmul a b < 256.
Proof. intros. unfold gmul. apply gmul8_lt_bytes; apply byte_of_lt. Qed.

Lemma gadd_lt : forall a b, gadd a b < 256.
Proof. intros. unfold gadd. apply lxor_lt_bytes; apply byte_of_lt. Qed.

Lemma ginv_lt : forall a, ginv a < 256.
Proof. intros. unfold ginv. apply ginv8_lt_bytes, byte_of_lt. Qed.

Lemma byte_of_gmul : forall a b, byte_of (gmul a b) = gmul a b.
Proof. intros. apply byte_of_id, gmul_lt. Qed.
Lemma byte_of_gadd : forall a b, byte_of (gadd a b) = gadd a b.
Proof. intros. apply byte_of_id, gadd_lt. Qed.

Lemma gmul_comm : forall a b, gmul a b = gmul b a.
Proof. intros. unfold gmul. apply gmul8_comm_bytes; apply byte_of_lt. Qed.

Lemma gmul_assoc : forall a b c, gmul (gmul a b) c = gmul a (gmul b c).
Proof.
  intros. unfold gmul at 1 3. rewrite !byte_of_gmul. unfold gmul.
  apply gmul8_assoc_bytes; apply byte_of_lt.
Qed.

Lemma gmul_distr_l : forall a b c, gmul a (gadd b c) = gadd (gmul a b) (gmul a c).
Proof.
  intros. unfold gmul at 1. rewrite byte_of_gadd. unfold gadd. rewrite !byte_of_gmul. unfold gmul.
  apply gmul8_distr_bytes; apply byte_of_lt.
Qed.

Lemma gmul_distr_r : forall a b c, gmul (gadd a b) c = gadd (gmul a c) (gmul b c).
Proof. intros. rewrite gmul_comm, gmul_distr_l, (gmul_comm c a), (gmul_comm c b). reflexivity. Qed.

Lemma gmul_1_l : forall a, gmul 1 a = byte_of a.
Proof. intros. unfold gmul. change (byte_of 1) with 1. apply gmul8_1_l_bytes, byte_of_lt. Qed.

Lemma gmul_0_l : forall a, gmul 0 a = 0.
Proof. intros. reflexivity. Qed.

Lemma gmul_0_r : forall a, gmul a 0 = 0.
Proof. intros. rewrite gmul_comm. reflexivity. Qed.

Lemma gmul_inv : forall a, byte_of a <> 0 -> gmul a (ginv a) = 1.
Proof.
  intros a H. unfold gmul, ginv. rewrite (byte_of_id (ginv8 _)) by (apply ginv8_lt_bytes, byte_of_lt).
  apply gmul8_inv_bytes; [apply byte_of_lt | exact H].
Qed.

Lemma gmul_is_carryless : forall a b, a < 256 -> b < 256 -> gmul a b = gmul_slow a b.
Proof. intros a b Ha Hb. unfold gmul. rewrite !byte_of_id by assumption. apply gmul_is_carryless_bytes; assumption. Qed.

Lemma gadd_comm : forall a b, gadd a b = gadd b a.
Proof. intros. unfold gadd. apply N.lxor_comm. Qed.

Lemma gadd_assoc : forall a b c, gadd (gadd a b) c = gadd a (gadd b c).
Proof.
  intros. unfold gadd at 1 3. rewrite !byte_of_gadd. unfold gadd. apply N.lxor_assoc.
Qed.

Lemma gadd_0_l : forall a, gadd 0 a = byte_of a.
Proof. intros. unfold gadd. change (byte_of 0) with 0. apply N.lxor_0_l. Qed.

Lemma gadd_0_r : forall a, gadd a 0 = byte_of a.
Proof. intros. rewrite gadd_comm. apply gadd_0_l. Qed.

Lemma gadd_nilpotent : forall a, gadd a a = 0.
Proof. intros. unfold gadd. apply N.lxor_nilpotent. Qed.

Lemma gadd_byte_of_l : forall a b, gadd (byte_of a) b = gadd a b.
Proof. intros. unfold gadd. rewrite byte_of_idem. reflexivity. Qed.
Lemma gadd_byte_of_r : forall a b, gadd a (byte_of b) = gadd a b.
Proof. intros. unfold gadd. rewrite byte_of_idem. reflexivity. Qed.
Lemma gmul_byte_of_l : forall a b, gmul (byte_of a) b = gmul a b.
Proof. intros. unfold gmul. rewrite byte_of_idem. reflexivity. Qed.
Lemma gmul_byte_of_r : forall a b, gmul a (byte_of b) = gmul a b.
Proof. intros. unfold gmul. rewrite byte_of_idem. reflexivity. Qed.
