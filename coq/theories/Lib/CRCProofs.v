(* Lib/CRCProofs.v — CRC-32C detects every single burst error of at most 32 bits.
   Builds on Lib/CRCFast.v (linearity, bounds, incremental law, table variant), which it re-exports.
   No axioms (see Print Assumptions at the end). *)
From Coq Require Import List NArith Bool Lia ZifyN ZifyNat ZifyBool.
From BLB Require Import Lib.CRC.
From BLB Require Export Lib.CRCFast.
Import ListNotations.
Open Scope N_scope.

(* ------------------------------------------------------------------ *)
(* all-false bit strings                                               *)

Definition allfalse (w : list bool) : bool := forallb negb w.

Lemma allfalse_repeat n : allfalse (repeat false n) = true.
Proof. induction n; simpl; auto. Qed.

Lemma allfalse_eq_repeat w : allfalse w = true -> w = repeat false (length w).
Proof.
  induction w as [|x w IH]; simpl; [reflexivity|].
  destruct x; simpl; [discriminate|]. intros H. f_equal. apply IH, H.
Qed.

Lemma allfalse_app a b : allfalse (a ++ b) = allfalse a && allfalse b.
Proof. apply forallb_app. Qed.

Lemma existsb_id_allfalse w : existsb id w = negb (allfalse w).
Proof.
  induction w as [|x w IH]; simpl; [reflexivity|].
  rewrite IH. destruct x; reflexivity.
Qed.

(* ------------------------------------------------------------------ *)
(* zero register, zero input                                           *)

Lemma crc_step_bit_0_false : crc_step_bit 0 false = 0.
Proof. reflexivity. Qed.

Lemma crc_run_0_zeros n : crc_run 0 (repeat false n) = 0.
Proof.
  induction n as [|n IH]; [reflexivity|].
  cbn [repeat]. rewrite crc_run_cons, crc_step_bit_0_false. exact IH.
Qed.

Lemma crc_run_0_allfalse w : allfalse w = true -> crc_run 0 w = 0.
Proof. intros H. rewrite (allfalse_eq_repeat w H). apply crc_run_0_zeros. Qed.

(* bit 31 of the new register is the feedback bit *)
Lemma crc_step_bit_bit31 s b :
  s < 2 ^ 32 -> N.testbit (crc_step_bit s b) 31 = xorb (N.testbit s 0) b.
Proof.
  intros H. unfold crc_step_bit.
  rewrite N.lxor_spec, N.shiftr_spec by lia.
  rewrite lt_pow2_bits in H. rewrite (H (31 + 1)) by lia.
  destruct (xorb (N.testbit s 0) b); [rewrite crcP_bit31 | rewrite N.bits_0]; reflexivity.
Qed.

Lemma crc_step_bit_nofeedback s b :
  xorb (N.testbit s 0) b = false -> crc_step_bit s b = N.shiftr s 1.
Proof. intros H. unfold crc_step_bit. rewrite H. apply N.lxor_0_r. Qed.

(* ------------------------------------------------------------------ *)
(* run0_nz                                                             *)

(* generalised: after k <= 32 steps from the zero register, if the top (32 - m) bits
   of the register are clear with k + m <= 32, then all input bits were zero *)
Lemma crc_run0_small : forall w m,
  (length w + m <= 32)%nat ->
  crc_run 0 w < 2 ^ N.of_nat m -> allfalse w = true.
Proof.
  induction w as [|b w IH] using rev_ind; intros m Hlen Hlt; [reflexivity|].
  rewrite app_length in Hlen. simpl in Hlen.
  rewrite crc_run_app, crc_run_cons in Hlt. cbn [crc_run fold_left] in Hlt.
  set (s := crc_run 0 w) in *.
  assert (Hs : s < 2 ^ 32) by (apply crc_run_lt; reflexivity).
  assert (Hfb : xorb (N.testbit s 0) b = false).
  { rewrite <- (crc_step_bit_bit31 s b Hs).
    rewrite lt_pow2_bits in Hlt. apply Hlt. lia. }
  rewrite (crc_step_bit_nofeedback s b Hfb) in Hlt.
  assert (Hs' : s < 2 ^ N.of_nat (S m)).
  { rewrite lt_pow2_bits in Hlt |- *. intros k Hk.
    replace k with ((k - 1) + 1) by lia.
    rewrite <- N.shiftr_spec by lia. apply Hlt. lia. }
  assert (Hw : allfalse w = true) by (apply (IH (S m)); [lia | exact Hs']).
  rewrite allfalse_app, Hw. simpl. rewrite andb_true_r.
  assert (Hz : s = 0) by (apply crc_run_0_allfalse, Hw).
  rewrite Hz in Hfb. simpl in Hfb. destruct b; [discriminate | reflexivity].
Qed.

Theorem crc_run0_nz : forall w,
  (length w <= 32)%nat -> (crc_run 0 w = 0 <-> allfalse w = true).
Proof.
  intros w Hlen. split.
  - intros H. apply (crc_run0_small w 0); [lia|]. rewrite H. reflexivity.
  - apply crc_run_0_allfalse.
Qed.

(* ------------------------------------------------------------------ *)
(* step0_inj                                                           *)

Lemma crc_step0_zero s : s < 2 ^ 32 -> crc_step_bit s false = 0 -> s = 0.
Proof.
  intros Hs H.
  assert (Hb : N.testbit s 0 = false).
  { pose proof (crc_step_bit_bit31 s false Hs) as E.
    rewrite H, N.bits_0, xorb_false_r in E. symmetry. exact E. }
  rewrite crc_step_bit_nofeedback in H by (rewrite Hb; reflexivity).
  apply N.bits_inj; intro n. rewrite N.bits_0.
  destruct (N.eq_dec n 0) as [->|Hn]; [exact Hb|].
  replace n with ((n - 1) + 1) by lia.
  rewrite <- N.shiftr_spec by lia. rewrite H. apply N.bits_0.
Qed.

Theorem crc_step0_inj s1 s2 :
  s1 < 2 ^ 32 -> s2 < 2 ^ 32 ->
  crc_step_bit s1 false = crc_step_bit s2 false -> s1 = s2.
Proof.
  intros H1 H2 E. apply N.lxor_eq.
  apply crc_step0_zero; [apply lxor_lt_pow2; assumption|].
  change false with (xorb false false) at 1.
  rewrite crc_step_bit_linear, E. apply N.lxor_nilpotent.
Qed.

Lemma crc_run_zeros_zero : forall n s,
  s < 2 ^ 32 -> crc_run s (repeat false n) = 0 -> s = 0.
Proof.
  induction n as [|n IH]; intros s Hs H; [exact H|].
  cbn [repeat] in H. rewrite crc_run_cons in H.
  apply IH in H; [|apply crc_step_bit_lt, Hs].
  apply crc_step0_zero; assumption.
Qed.

Lemma xorl_repeat_false n : xorl (repeat false n) (repeat false n) = repeat false n.
Proof. rewrite xorl_self, repeat_length. reflexivity. Qed.

Theorem crc_run_zeros_inj n s1 s2 :
  s1 < 2 ^ 32 -> s2 < 2 ^ 32 ->
  crc_run s1 (repeat false n) = crc_run s2 (repeat false n) -> s1 = s2.
Proof.
  intros H1 H2 E. apply N.lxor_eq.
  apply (crc_run_zeros_zero n); [apply lxor_lt_pow2; assumption|].
  rewrite <- (xorl_repeat_false n).
  rewrite crc_run_linear' by reflexivity.
  rewrite E. apply N.lxor_nilpotent.
Qed.

(* a burst: zeros, then at most 32 bits not all zero, then zeros — never has residue 0 *)
Theorem crc_run0_burst_nz pre e post :
  (length e <= 32)%nat -> existsb id e = true ->
  crc_run 0 (repeat false pre ++ e ++ repeat false post) <> 0.
Proof.
  intros Hlen Hex H.
  rewrite !crc_run_app, crc_run_0_zeros in H.
  apply crc_run_zeros_zero in H; [|apply crc_run_lt; reflexivity].
  apply crc_run0_nz in H; [|exact Hlen].
  rewrite existsb_id_allfalse, H in Hex. discriminate.
Qed.

(* ------------------------------------------------------------------ *)
(* the 32 bits of a register, as fed by le32                           *)

Definition idx32 : list N := Eval compute in map N.of_nat (seq 0 32).

Lemma byte_bits_shift s j :
  byte_bits (N.land (N.shiftr s j) 255)
  = map (fun i => N.testbit s (i + j)) [0;1;2;3;4;5;6;7].
Proof.
  unfold byte_bits. apply map_ext_in. intros i Hi.
  rewrite N.land_spec, N.shiftr_spec by lia.
  rewrite testbit_255_low; [apply andb_true_r|]. simpl in Hi. lia.
Qed.

Lemma le32_bits s : bits_of (le32 s) = map (N.testbit s) idx32.
Proof.
  unfold le32, bits_of. cbn [flat_map].
  change (N.land s 255) with (N.land (N.shiftr s 0) 255).
  rewrite !byte_bits_shift. reflexivity.
Qed.

Lemma le32_length s : length (le32 s) = 4%nat.
Proof. reflexivity. Qed.

Lemma le32_bits_length s : length (bits_of (le32 s)) = 32%nat.
Proof. rewrite le32_bits. reflexivity. Qed.

Lemma map_testbit_lxor a b : forall l,
  map (N.testbit (N.lxor a b)) l = xorl (map (N.testbit a) l) (map (N.testbit b) l).
Proof.
  induction l as [|i l IH]; [reflexivity|].
  cbn [map xorl]. rewrite N.lxor_spec, IH. reflexivity.
Qed.

Lemma le32_bits_lxor a b :
  bits_of (le32 (N.lxor a b)) = xorl (bits_of (le32 a)) (bits_of (le32 b)).
Proof. rewrite !le32_bits. apply map_testbit_lxor. Qed.

(* feeding a register its own low n bits shifts them out without feedback *)
Lemma crc_run_self_gen : forall n s,
  crc_run s (map (N.testbit s) (map N.of_nat (seq 0 n))) = N.shiftr s (N.of_nat n).
Proof.
  induction n as [|n IH]; intros s.
  - change (N.of_nat 0) with 0. rewrite N.shiftr_0_r. reflexivity.
  - rewrite <- cons_seq, <- seq_shift. cbn [map]. rewrite crc_run_cons.
    rewrite crc_step_bit_nofeedback by apply xorb_nilpotent.
    rewrite !map_map.
    rewrite (map_ext (fun x => N.testbit s (N.of_nat (S x)))
                     (fun x => N.testbit (N.shiftr s 1) (N.of_nat x))).
    + rewrite <- (map_map N.of_nat (N.testbit (N.shiftr s 1))).
      rewrite IH, N.shiftr_shiftr. f_equal. lia.
    + intros i. rewrite N.shiftr_spec by lia. f_equal. lia.
Qed.

Theorem crc_run_self s : s < 2 ^ 32 -> crc_run s (bits_of (le32 s)) = 0.
Proof.
  intros H. rewrite le32_bits.
  change idx32 with (map N.of_nat (seq 0 32)).
  rewrite crc_run_self_gen. change (N.of_nat 32) with 32.
  apply N.bits_inj; intro n. rewrite N.bits_0, N.shiftr_spec by lia.
  rewrite lt_pow2_bits in H. apply H. lia.
Qed.

(* ------------------------------------------------------------------ *)
(* codewords                                                           *)

(* the bit string protected by the checksum: data bits followed by the 32 checksum bits *)
Definition codeword (data : list byte) (c : N) : list bool :=
  bits_of data ++ bits_of (le32 c).

Lemma codeword_bytes data c : codeword data c = bits_of (data ++ le32 c).
Proof. unfold codeword. rewrite bits_of_app. reflexivity. Qed.

Lemma codeword_length data c : length (codeword data c) = (8 * length data + 32)%nat.
Proof. unfold codeword. rewrite app_length, bits_of_length, le32_bits_length. reflexivity. Qed.

(* the residue of every valid codeword *)
Definition crcK : N := Eval vm_compute in crc_run 0 (bits_of (le32 mask32)).

Theorem codeword_const c0 data :
  c0 < 2 ^ 32 ->
  crc_run (N.lxor c0 mask32) (codeword data (crc_update c0 data)) = crcK.
Proof.
  intros Hc. unfold codeword. rewrite crc_run_app, crc_update_run.
  set (r := crc_run (N.lxor c0 mask32) (bits_of data)).
  assert (Hr : r < 2 ^ 32).
  { apply crc_run_lt, lxor_lt_pow2; [exact Hc | apply mask32_lt]. }
  rewrite le32_bits_lxor.
  rewrite <- (N.lxor_0_r r) at 1.
  rewrite crc_run_linear' by (rewrite !le32_bits_length; reflexivity).
  rewrite (crc_run_self r Hr). reflexivity.
Qed.

(* conversely the residue pins the checksum *)
Theorem codeword_const_inv c0 data c :
  c0 < 2 ^ 32 -> c < 2 ^ 32 ->
  crc_run (N.lxor c0 mask32) (codeword data c) = crcK -> c = crc_update c0 data.
Proof.
  intros Hc0 Hc H.
  rewrite <- (codeword_const c0 data Hc0) in H.
  unfold codeword in H. rewrite !crc_run_app in H.
  set (r := crc_run (N.lxor c0 mask32) (bits_of data)) in *.
  assert (Hd : crc_run 0 (bits_of (le32 (N.lxor c (crc_update c0 data)))) = 0).
  { rewrite le32_bits_lxor.
    pose proof (crc_run_linear' (bits_of (le32 c)) (bits_of (le32 (crc_update c0 data))) r r) as L.
    rewrite N.lxor_nilpotent in L.
    rewrite L by (rewrite !le32_bits_length; reflexivity).
    rewrite H. apply N.lxor_nilpotent. }
  apply crc_run0_nz in Hd; [|rewrite le32_bits_length; lia].
  apply N.lxor_eq. apply N.bits_inj; intro n. rewrite N.bits_0.
  set (d := N.lxor c (crc_update c0 data)) in *.
  assert (Hdlt : d < 2 ^ 32) by (apply lxor_lt_pow2; [exact Hc | apply crc_update_lt, Hc0]).
  destruct (N.lt_ge_cases n 32) as [Hn|Hn].
  - rewrite le32_bits in Hd. unfold allfalse in Hd. rewrite forallb_forall in Hd.
    apply negb_true_iff, Hd, in_map.
    change idx32 with (map N.of_nat (seq 0 32)).
    rewrite <- (N2Nat.id n). apply in_map, in_seq. lia.
  - rewrite lt_pow2_bits in Hdlt. apply Hdlt, Hn.
Qed.

(* ------------------------------------------------------------------ *)
(* burst errors                                                        *)

(* e is a single burst of at most 32 bits *)
Definition burst32 (e : list bool) : Prop :=
  exists (pre : nat) (b : list bool) (post : nat),
    (length b <= 32)%nat /\ existsb id b = true /\
    e = repeat false pre ++ b ++ repeat false post.

(* cw' is cw hit by a single burst of at most 32 bits *)
Definition burst_error (cw cw' : list bool) : Prop :=
  exists e, burst32 e /\ length e = length cw /\ cw' = xorl cw e.

Lemma burst32_nz e : burst32 e -> crc_run 0 e <> 0.
Proof.
  intros (pre & b & post & Hlen & Hex & ->). apply crc_run0_burst_nz; assumption.
Qed.

(* general initial value c0 (Go's crc32.Update(c0, tab, data)) *)
Theorem crc_update_detects_burst (c0 : N) (data data' : list byte) (c c' : N) :
  c0 < 2 ^ 32 ->
  c = crc_update c0 data ->
  burst_error (codeword data c) (codeword data' c') ->
  crc_update c0 data' <> c'.
Proof.
  intros Hc0 -> (e & Hb & Hlen & Hcw) Heq. subst c'.
  pose proof (codeword_const c0 data' Hc0) as K'.
  rewrite Hcw in K'.
  rewrite <- (N.lxor_0_r (N.lxor c0 mask32)) in K'.
  rewrite crc_run_linear' in K' by (symmetry; exact Hlen).
  rewrite (codeword_const c0 data Hc0) in K'.
  apply (burst32_nz e Hb).
  apply (f_equal (N.lxor crcK)) in K'.
  rewrite <- N.lxor_assoc, N.lxor_nilpotent, N.lxor_0_l in K'. exact K'.
Qed.

(* MAIN THEOREM.  The hypotheses "bytes < 256", "c' < 2^32" and "length data' = length data"
   are not needed (the last follows from the length clause inside burst_error). *)
Theorem crc_detects_burst (data data' : list byte) (c c' : N) :
  c = crc32c data ->
  burst_error (codeword data c) (codeword data' c') ->
  crc32c data' <> c'.
Proof. apply crc_update_detects_burst. reflexivity. Qed.

(* the trivial direction: an unmodified pair passes the check *)
Lemma crc_check_passes data c : crc32c data = c -> (crc32c data =? c) = true.
Proof. intros ->. apply N.eqb_refl. Qed.

Print Assumptions crc_detects_burst.
