(* Lib/CRCProofs.v — CRC-32C detects every single burst error of at most 32 bits.
   Builds on Lib/CRCFast.v (linearity, bounds, incremental law, table variant), which it re-exports.
   No axioms (see Print Assumptions at the end). *)
From Coq Require Import List Arith NArith Bool Lia ZifyN ZifyNat ZifyBool.
From BLB Require Import Lib.CRC.
From BLB Require Export Lib.CRCFast.
Import ListNotations.
Open Scope N_scope.

(* ------------------------------------------------------------------ *)
(* all-false bit strings                                               *)

Definition allfalse (w : list bool) : bool := forallb negb w.

Lemma allfalse_repeat n : allfalse (repeat false n) = true.
Proof. induction n; simpl; auto. Qed.

Lemma allfalse_eq_repeat w : allfalse w = true -> w = repeat false (length w).
Proof.
  induction w as [|x w IH]; simpl; [reflexivity|].
  destruct x; simpl; [discriminate|]. intros H. f_equal. apply IH, H.
Qed.

Lemma allfalse_app a b : allfalse (a ++ b) = allfalse a && allfalse b.
Proof. apply forallb_app. Qed.

Lemma existsb_id_allfalse w : existsb id w = negb (allfalse w).
Proof.
  induction w as [|x w IH]; simpl; [reflexivity|].
  rewrite IH. destruct x; reflexivity.
Qed.

(* ------------------------------------------------------------------ *)
(* zero register, zero input                                           *)

Lemma crc_step_bit_0_false : crc_step_bit 0 false = 0.
Proof. reflexivity. Qed.

Lemma crc_run_0_zeros n : crc_run 0 (repeat false n) = 0.
Proof.
  induction n as [|n IH]; [reflexivity|].
  cbn [repeat]. rewrite crc_run_cons, crc_step_bit_0_false. exact IH.
Qed.

Lemma crc_run_0_allfalse w : allfalse w = true -> crc_run 0 w = 0.
Proof. intros H. rewrite (allfalse_eq_repeat w H). apply crc_run_0_zeros. Qed.

(* bit 31 of the new register is the feedback bit *)
Lemma crc_step_bit_bit31 s b :
  s < 2 ^ 32 -> N.testbit (crc_step_bit s b) 31 = xorb (N.testbit s 0) b.
Proof.
  intros H. unfold crc_step_bit.
  rewrite N.lxor_spec, N.shiftr_spec by lia.
  rewrite lt_pow2_bits in H. rewrite (H (31 + 1)) by lia.
  destruct (xorb (N.testbit s 0) b); [rewrite crcP_bit31 | rewrite N.bits_0]; reflexivity.
Qed.

Lemma crc_step_bit_nofeedback s b :
  xorb (N.testbit s 0) b = false -> crc_step_bit s b = N.shiftr s 1.
Proof. intros H. unfold crc_step_bit. rewrite H. apply N.lxor_0_r. Qed.

(* ------------------------------------------------------------------ *)
(* run0_nz                                                             *)

(* generalised: after k <= 32 steps from the zero register, if the top (32 - m) bits
   of the register are clear with k + m <= 32, then all input bits were zero *)
Lemma crc_run0_small : forall w m,
  (length w + m <= 32)%nat ->
  crc_run 0 w < 2 ^ N.of_nat m -> allfalse w = true.
Proof.
  induction w as [|b w IH] using rev_ind; intros m Hlen Hlt; [reflexivity|].
  rewrite app_length in Hlen. simpl in Hlen.
  rewrite crc_run_app, crc_run_cons in Hlt. cbn [crc_run fold_left] in Hlt.
  set (s := crc_run 0 w) in *.
  assert (Hs : s < 2 ^ 32) by (apply crc_run_lt; reflexivity).
  assert (Hfb : xorb (N.testbit s 0) b = false).
  { rewrite <- (crc_step_bit_bit31 s b Hs).
    rewrite lt_pow2_bits in Hlt. apply Hlt. lia. }
  rewrite (crc_step_bit_nofeedback s b Hfb) in Hlt.
  assert (Hs' : s < 2 ^ N.of_nat (S m)).
  { rewrite lt_pow2_bits in Hlt |- *. intros k Hk.
    replace k with ((k - 1) + 1) by lia.
    rewrite <- N.shiftr_spec by lia. apply Hlt. lia. }
  assert (Hw : allfalse w = true) by (apply (IH (S m)); [lia | exact Hs']).
  rewrite allfalse_app, Hw. simpl. rewrite andb_true_r.
  assert (Hz : s = 0) by (apply crc_run_0_allfalse, Hw).
  rewrite Hz in Hfb. simpl in Hfb. destruct b; [discriminate | reflexivity].
Qed.

Theorem crc_run0_nz : forall w,
  (length w <= 32)%nat -> (crc_run 0 w = 0 <-> allfalse w = true).
Proof.
  intros w Hlen. split.
  - intros H. apply (crc_run0_small w 0); [lia|]. rewrite H. reflexivity.
  - apply crc_run_0_allfalse.
Qed.

(* ------------------------------------------------------------------ *)
(* step0_inj                                                           *)

Lemma crc_step0_zero s : s < 2 ^ 32 -> crc_step_bit s false = 0 -> s = 0.
Proof.
  intros Hs H.
  assert (Hb : N.testbit s 0 = false).
  { pose proof (crc_step_bit_bit31 s false Hs) as E.
    rewrite H, N.bits_0, xorb_false_r in E. symmetry. exact E. }
  rewrite crc_step_bit_nofeedback in H by (rewrite Hb; reflexivity).
  apply N.bits_inj; intro n. rewrite N.bits_0.
  destruct (N.eq_dec n 0) as [->|Hn]; [exact Hb|].
  replace n with ((n - 1) + 1) by lia.
  rewrite <- N.shiftr_spec by lia. rewrite H. apply N.bits_0.
Qed.

Theorem crc_step0_inj s1 s2 :
  s1 < 2 ^ 32 -> s2 < 2 ^ 32 ->
  crc_step_bit s1 false = crc_step_bit s2 false -> s1 = s2.
Proof.
  intros H1 H2 E. apply N.lxor_eq.
  apply crc_step0_zero; [apply lxor_lt_pow2; assumption|].
  change false with (xorb false false) at 1.
  rewrite crc_step_bit_linear, E. apply N.lxor_nilpotent.
Qed.

Lemma crc_run_zeros_zero : forall n s,
  s < 2 ^ 32 -> crc_run s (repeat false n) = 0 -> s = 0.
Proof.
  induction n as [|n IH]; intros s Hs H; [exact H|].
  cbn [repeat] in H. rewrite crc_run_cons in H.
  apply IH in H; [|apply crc_step_bit_lt, Hs].
  apply crc_step0_zero; assumption.
Qed.

Lemma xorl_repeat_false n : xorl (repeat false n) (repeat false n) = repeat false n.
Proof. rewrite xorl_self, repeat_length. reflexivity. Qed.

Theorem crc_run_zeros_inj n s1 s2 :
  s1 < 2 ^ 32 -> s2 < 2 ^ 32 ->
  crc_run s1 (repeat false n) = crc_run s2 (repeat false n) -> s1 = s2.
Proof.
  intros H1 H2 E. apply N.lxor_eq.
  apply (crc_run_zeros_zero n); [apply lxor_lt_pow2; assumption|].
  rewrite <- (xorl_repeat_false n).
  rewrite crc_run_linear' by reflexivity.
  rewrite E. apply N.lxor_nilpotent.
Qed.

(* a burst: zeros, then at most 32 bits not all zero, then zeros — never has residue 0 *)
Theorem crc_run0_burst_nz pre e post :
  (length e <= 32)%nat -> existsb id e = true ->
  crc_run 0 (repeat false pre ++ e ++ repeat false post) <> 0.
Proof.
  intros Hlen Hex H.
  rewrite !crc_run_app, crc_run_0_zeros in H.
  apply crc_run_zeros_zero in H; [|apply crc_run_lt; reflexivity].
  apply crc_run0_nz in H; [|exact Hlen].
  rewrite existsb_id_allfalse, H in Hex. discriminate.
Qed.

(* ------------------------------------------------------------------ *)
(* the 32 bits of a register, as fed by le32                           *)

Definition idx32 : list N := Eval compute in map N.of_nat (seq 0 32).

Lemma byte_bits_shift s j :
  byte_bits (N.land (N.shiftr s j) 255)
  = map (fun i => N.testbit s (i + j)) [0;1;2;3;4;5;6;7].
Proof.
  unfold byte_bits. apply map_ext_in. intros i Hi.
  rewrite N.land_spec, N.shiftr_spec by lia.
  rewrite testbit_255_low; [apply andb_true_r|]. simpl in Hi. lia.
Qed.

Lemma le32_bits s : bits_of (le32 s) = map (N.testbit s) idx32.
Proof.
  unfold le32, bits_of. cbn [flat_map].
  change (N.land s 255) with (N.land (N.shiftr s 0) 255).
  rewrite !byte_bits_shift. reflexivity.
Qed.

Lemma le32_length s : length (le32 s) = 4%nat.
Proof. reflexivity. Qed.

Lemma le32_bits_length s : length (bits_of (le32 s)) = 32%nat.
Proof. rewrite le32_bits. reflexivity. Qed.

Lemma map_testbit_lxor a b : forall l,
  map (N.testbit (N.lxor a b)) l = xorl (map (N.testbit a) l) (map (N.testbit b) l).
Proof.
  induction l as [|i l IH]; [reflexivity|].
  cbn [map xorl]. rewrite N.lxor_spec, IH. reflexivity.
Qed.

Lemma le32_bits_lxor a b :
  bits_of (le32 (N.lxor a b)) = xorl (bits_of (le32 a)) (bits_of (le32 b)).
Proof. rewrite !le32_bits. apply map_testbit_lxor. Qed.

(* feeding a register its own low n bits shifts them out without feedback *)
Lemma crc_run_self_gen : forall n s,
  crc_run s (map (N.testbit s) (map N.of_nat (seq 0 n))) = N.shiftr s (N.of_nat n).
Proof.
  induction n as [|n IH]; intros s.
  - change (N.of_nat 0) with 0. rewrite N.shiftr_0_r. reflexivity.
  - rewrite <- cons_seq, <- seq_shift. cbn [map]. rewrite crc_run_cons.
    rewrite crc_step_bit_nofeedback by apply xorb_nilpotent.
    rewrite !map_map.
    rewrite (map_ext (fun x => N.testbit s (N.of_nat (S x)))
                     (fun x => N.testbit (N.shiftr s 1) (N.of_nat x))).
    + rewrite <- (map_map N.of_nat (N.testbit (N.shiftr s 1))).
      rewrite IH, N.shiftr_shiftr. f_equal. lia.
    + intros i. rewrite N.shiftr_spec by lia. f_equal. lia.
Qed.

Theorem crc_run_self s : s < 2 ^ 32 -> crc_run s (bits_of (le32 s)) = 0.
Proof.
  intros H. rewrite le32_bits.
  change idx32 with (map N.of_nat (seq 0 32)).
  rewrite crc_run_self_gen. change (N.of_nat 32) with 32.
  apply N.bits_inj; intro n. rewrite N.bits_0, N.shiftr_spec by lia.
  rewrite lt_pow2_bits in H. apply H. lia.
Qed.

(* ------------------------------------------------------------------ *)
(* codewords                                                           *)

(* the bit string protected by the checksum: data bits followed by the 32 checksum bits *)
Definition codeword (data : list byte) (c : N) : list bool :=
  bits_of data ++ bits_of (le32 c).

Lemma codeword_bytes data c : codeword data c = bits_of (data ++ le32 c).
Proof. unfold codeword. rewrite bits_of_app. reflexivity. Qed.

Lemma codeword_length data c : length (codeword data c) = (8 * length data + 32)%nat.
Proof. unfold codeword. rewrite app_length, bits_of_length, le32_bits_length. reflexivity. Qed.

(* the residue of every valid codeword *)
Definition crcK : N := Eval vm_compute in crc_run 0 (bits_of (le32 mask32)).

Theorem codeword_const c0 data :
  c0 < 2 ^ 32 ->
  crc_run (N.lxor c0 mask32) (codeword data (crc_update c0 data)) = crcK.
Proof.
  intros Hc. unfold codeword. rewrite crc_run_app, crc_update_run.
  set (r := crc_run (N.lxor c0 mask32) (bits_of data)).
  assert (Hr : r < 2 ^ 32).
  { apply crc_run_lt, lxor_lt_pow2; [exact Hc | apply mask32_lt]. }
  rewrite le32_bits_lxor.
  rewrite <- (N.lxor_0_r r) at 1.
  rewrite crc_run_linear' by (rewrite !le32_bits_length; reflexivity).
  rewrite (crc_run_self r Hr). reflexivity.
Qed.

(* conversely the residue pins the checksum *)
Theorem codeword_const_inv c0 data c :
  c0 < 2 ^ 32 -> c < 2 ^ 32 ->
  crc_run (N.lxor c0 mask32) (codeword data c) = crcK -> c = crc_update c0 data.
Proof.
  intros Hc0 Hc H.
  rewrite <- (codeword_const c0 data Hc0) in H.
  unfold codeword in H. rewrite !crc_run_app in H.
  set (r := crc_run (N.lxor c0 mask32) (bits_of data)) in *.
  assert (Hd : crc_run 0 (bits_of (le32 (N.lxor c (crc_update c0 data)))) = 0).
  { rewrite le32_bits_lxor.
    pose proof (crc_run_linear' (bits_of (le32 c)) (bits_of (le32 (crc_update c0 data))) r r) as L.
    rewrite N.lxor_nilpotent in L.
    rewrite L by (rewrite !le32_bits_length; reflexivity).
    rewrite H. apply N.lxor_nilpotent. }
  apply crc_run0_nz in Hd; [|rewrite le32_bits_length; lia].
  apply N.lxor_eq. apply N.bits_inj; intro n. rewrite N.bits_0.
  set (d := N.lxor c (crc_update c0 data)) in *.
  assert (Hdlt : d < 2 ^ 32) by (apply lxor_lt_pow2; [exact Hc | apply crc_update_lt, Hc0]).
  destruct (N.lt_ge_cases n 32) as [Hn|Hn].
  - rewrite le32_bits in Hd. unfold allfalse in Hd. rewrite forallb_forall in Hd.
    apply negb_true_iff, Hd, in_map.
    change idx32 with (map N.of_nat (seq 0 32)).
    rewrite <- (N2Nat.id n). apply in_map, in_seq. lia.
  - rewrite lt_pow2_bits in Hdlt. apply Hdlt, Hn.
Qed.

(* ------------------------------------------------------------------ *)
(* burst errors                                                        *)

(* e is a single burst of at most 32 bits *)
Definition burst32 (e : list bool) : Prop :=
  exists (pre : nat) (b : list bool) (post : nat),
    (length b <= 32)%nat /\ existsb id b = true /\
    e = repeat false pre ++ b ++ repeat false post.

(* cw' is cw hit by a single burst of at most 32 bits *)
Definition burst_error (cw cw' : list bool) : Prop :=
  exists e, burst32 e /\ length e = length cw /\ cw' = xorl cw e.

Lemma burst32_nz e : burst32 e -> crc_run 0 e <> 0.
Proof.
  intros (pre & b & post & Hlen & Hex & ->). apply crc_run0_burst_nz; assumption.
Qed.

(* general initial value c0 (Go's crc32.Update(c0, tab, data)) *)
Theorem crc_update_detects_burst (c0 : N) (data data' : list byte) (c c' : N) :
  c0 < 2 ^ 32 ->
  c = crc_update c0 data ->
  burst_error (codeword data c) (codeword data' c') ->
  crc_update c0 data' <> c'.
Proof.
  intros Hc0 -> (e & Hb & Hlen & Hcw) Heq. subst c'.
  pose proof (codeword_const c0 data' Hc0) as K'.
  rewrite Hcw in K'.
  rewrite <- (N.lxor_0_r (N.lxor c0 mask32)) in K'.
  rewrite crc_run_linear' in K' by (symmetry; exact Hlen).
  rewrite (codeword_const c0 data Hc0) in K'.
  apply (burst32_nz e Hb).
  apply (f_equal (N.lxor crcK)) in K'.
  rewrite <- N.lxor_assoc, N.lxor_nilpotent, N.lxor_0_l in K'. exact K'.
Qed.

(* MAIN THEOREM.  The hypotheses "bytes < 256", "c' < 2^32" and "length data' = length data"
   are not needed (the last follows from the length clause inside burst_error). *)
Theorem crc_detects_burst (data data' : list byte) (c c' : N) :
  c = crc32c data ->
  burst_error (codeword data c) (codeword data' c') ->
  crc32c data' <> c'.
Proof. apply crc_update_detects_burst. reflexivity. Qed.

(* the trivial direction: an unmodified pair passes the check *)
Lemma crc_check_passes data c : crc32c data = c -> (crc32c data =? c) = true.
Proof. intros ->. apply N.eqb_refl. Qed.

Lemma burst_error_intro cw cw' pre b post :
  (length b <= 32)%nat -> existsb id b = true ->
  length cw = (pre + length b + post)%nat ->
  cw' = xorl cw (repeat false pre ++ b ++ repeat false post) ->
  burst_error cw cw'.
Proof.
  intros Hlen Hex Hl Hcw. exists (repeat false pre ++ b ++ repeat false post).
  split; [exists pre, b, post; auto|]. split; [|exact Hcw].
  rewrite !app_length, !repeat_length. lia.
Qed.

(* ------------------------------------------------------------------ *)
(* a decidable burst predicate on error patterns                       *)

Fixpoint drop_false (l : list bool) : list bool :=
  match l with
  | false :: l' => drop_false l'
  | _ => l
  end.

(* the error pattern with leading and trailing zeros stripped *)
Definition burst_core (e : list bool) : list bool :=
  rev (drop_false (rev (drop_false e))).

Definition is_burst32 (e : list bool) : bool :=
  match burst_core e with
  | [] => false
  | _ :: _ => Nat.leb (length (burst_core e)) 32
  end.

Lemma drop_false_split l : exists n, l = repeat false n ++ drop_false l.
Proof.
  induction l as [|x l [n IH]]; [exists 0%nat; reflexivity|].
  destruct x; [exists 0%nat; reflexivity|].
  exists (S n). simpl. f_equal. exact IH.
Qed.

Lemma drop_false_head l : drop_false l = [] \/ exists t, drop_false l = true :: t.
Proof.
  induction l as [|x l IH]; [left; reflexivity|].
  destruct x; [right; eexists; reflexivity | exact IH].
Qed.

Lemma rev_repeat_false n : rev (repeat false n) = repeat false n.
Proof.
  induction n as [|n IH]; [reflexivity|].
  simpl. rewrite IH. clear IH.
  induction n as [|n IH]; [reflexivity|]. simpl. f_equal. exact IH.
Qed.

Lemma existsb_id_rev l : existsb id (rev l) = existsb id l.
Proof.
  induction l as [|x l IH]; [reflexivity|].
  simpl. rewrite existsb_app, IH. simpl. rewrite orb_false_r. apply orb_comm.
Qed.

Lemma drop_false_repeat_app n x : drop_false (repeat false n ++ x) = drop_false x.
Proof. induction n as [|n IH]; [reflexivity|exact IH]. Qed.

Lemma drop_false_app b x : existsb id b = true -> drop_false (b ++ x) = drop_false b ++ x.
Proof.
  induction b as [|y b IH]; [discriminate|].
  destruct y; [reflexivity|]. simpl. exact IH.
Qed.

Lemma existsb_id_drop_false b : existsb id (drop_false b) = existsb id b.
Proof. induction b as [|y b IH]; [reflexivity|]. destruct y; [reflexivity | exact IH]. Qed.

Lemma drop_false_length b : (length (drop_false b) <= length b)%nat.
Proof. induction b as [|y b IH]; [simpl; lia|]. destruct y; simpl in *; lia. Qed.

Theorem is_burst32_spec e : is_burst32 e = true <-> burst32 e.
Proof.
  split.
  - unfold is_burst32, burst_core. intros H.
    destruct (drop_false_split e) as [n Hn].
    set (t := drop_false e) in *.
    destruct (drop_false_split (rev t)) as [m Hm].
    destruct (drop_false_head (rev t)) as [Hu|[u' Hu]].
    { rewrite Hu in H. discriminate. }
    set (u := drop_false (rev t)) in *.
    assert (Ht : t = rev u ++ repeat false m).
    { rewrite <- (rev_involutive t), Hm, rev_app_distr, rev_repeat_false. reflexivity. }
    exists n, (rev u), m. repeat split.
    + destruct (rev u); [discriminate|]. apply Nat.leb_le in H. exact H.
    + rewrite existsb_id_rev, Hu. reflexivity.
    + rewrite <- Ht. exact Hn.
  - intros (pre & b & post & Hlen & Hex & ->).
    unfold is_burst32, burst_core.
    rewrite drop_false_repeat_app, drop_false_app by exact Hex.
    rewrite rev_app_distr, rev_repeat_false, drop_false_repeat_app.
    set (b1 := drop_false b).
    assert (H1 : existsb id (drop_false (rev b1)) = true).
    { rewrite existsb_id_drop_false, existsb_id_rev. unfold b1.
      rewrite existsb_id_drop_false. exact Hex. }
    assert (H2 : (length (rev (drop_false (rev b1))) <= 32)%nat).
    { rewrite rev_length.
      pose proof (drop_false_length (rev b1)) as L1. rewrite rev_length in L1.
      pose proof (drop_false_length b) as L2. fold b1 in L2. lia. }
    rewrite <- existsb_id_rev in H1.
    destruct (rev (drop_false (rev b1))); [discriminate|].
    apply Nat.leb_le. exact H2.
Qed.

(* decidable form: the xor of the two codewords is a burst *)
Theorem crc_update_detects_burst_dec (c0 : N) (data data' : list byte) (c c' : N) :
  c0 < 2 ^ 32 ->
  c = crc_update c0 data ->
  length data' = length data ->
  is_burst32 (xorl (codeword data c) (codeword data' c')) = true ->
  crc_update c0 data' <> c'.
Proof.
  intros Hc0 Hc Hlen Hb. apply (crc_update_detects_burst c0 data data' c c' Hc0 Hc).
  assert (Hl : length (codeword data c) = length (codeword data' c')).
  { rewrite !codeword_length, Hlen. reflexivity. }
  exists (xorl (codeword data c) (codeword data' c')). split; [|split].
  - apply is_burst32_spec, Hb.
  - apply xorl_length, Hl.
  - symmetry. apply xorl_cancel, Hl.
Qed.

Theorem crc_detects_burst_dec (data data' : list byte) (c c' : N) :
  c = crc32c data ->
  length data' = length data ->
  is_burst32 (xorl (codeword data c) (codeword data' c')) = true ->
  crc32c data' <> c'.
Proof. apply crc_update_detects_burst_dec. reflexivity. Qed.

(* the same on the byte strings (data ++ le32 c) as stored on disk / sent on the wire *)
Corollary crc_detects_burst_bytes (data data' : list byte) (c c' : N) :
  c = crc32c data ->
  length data' = length data ->
  is_burst32 (xorl (bits_of (data ++ le32 c)) (bits_of (data' ++ le32 c'))) = true ->
  crc32c data' <> c'.
Proof. rewrite <- !codeword_bytes. apply crc_detects_burst_dec. Qed.

(* ------------------------------------------------------------------ *)
(* byte-level corollary: any change confined to 4 consecutive bytes    *)

Lemma xorl_allfalse_eq a : forall b,
  length a = length b -> allfalse (xorl a b) = true -> a = b.
Proof.
  induction a as [|x a IH]; intros [|y b] Hl H; simpl in *; try discriminate; [reflexivity|].
  apply andb_true_iff in H. destruct H as [Hx H].
  f_equal; [destruct x, y; simpl in Hx; congruence | apply IH; [lia | exact H]].
Qed.

Lemma byte_bits_inj x y : x < 256 -> y < 256 -> byte_bits x = byte_bits y -> x = y.
Proof.
  intros Hx Hy H. unfold byte_bits in H. cbn [map] in H.
  injection H as H0 H1 H2 H3 H4 H5 H6 H7.
  apply N.bits_inj; intro n.
  destruct (N.lt_ge_cases n 8) as [Hn|Hn].
  - assert (n = 0 \/ n = 1 \/ n = 2 \/ n = 3 \/ n = 4 \/ n = 5 \/ n = 6 \/ n = 7) as Hc
      by (clear - Hn; lia).
    destruct Hc as [->|[->|[->|[->|[->|[->|[->| ->]]]]]]]; assumption.
  - change 256 with (2 ^ 8) in Hx, Hy. rewrite lt_pow2_bits in Hx, Hy.
    rewrite Hx, Hy by exact Hn. reflexivity.
Qed.

Lemma bits_of_inj : forall a b,
  Forall (fun x => x < 256) a -> Forall (fun x => x < 256) b ->
  bits_of a = bits_of b -> a = b.
Proof.
  induction a as [|x a IH]; intros [|y b] Ha Hb H.
  - reflexivity.
  - discriminate.
  - discriminate.
  - pose proof (Forall_inv Ha) as Hx. pose proof (Forall_inv_tail Ha) as Ha'.
    pose proof (Forall_inv Hb) as Hy. pose proof (Forall_inv_tail Hb) as Hb'.
    simpl in Hx, Hy. clear Ha Hb.
    rewrite !bits_of_cons in H. unfold byte_bits at 1 2 in H. cbn [map app] in H.
    injection H as H0 H1 H2 H3 H4 H5 H6 H7 Hr.
    f_equal; [|apply IH; assumption].
    apply byte_bits_inj; try assumption.
    unfold byte_bits. cbn [map]. congruence.
Qed.

Theorem crc_update_detects_4bytes (c0 : N) (data data' : list byte) (c c' : N)
        (p m m' q : list byte) :
  c0 < 2 ^ 32 ->
  c = crc_update c0 data ->
  data ++ le32 c = p ++ m ++ q ->
  data' ++ le32 c' = p ++ m' ++ q ->
  length m' = length m -> (length m <= 4)%nat ->
  bits_of m' <> bits_of m ->
  crc_update c0 data' <> c'.
Proof.
  intros Hc0 Hc E E' Hlm Hl4 Hne.
  apply (crc_update_detects_burst c0 data data' c c' Hc0 Hc).
  rewrite !codeword_bytes, E, E', !bits_of_app.
  assert (Hbl : length (bits_of m) = length (bits_of m')).
  { rewrite !bits_of_length, Hlm. reflexivity. }
  apply (burst_error_intro _ _ (length (bits_of p)) (xorl (bits_of m) (bits_of m'))
                           (length (bits_of q))).
  - rewrite xorl_length by exact Hbl. rewrite bits_of_length. lia.
  - rewrite existsb_id_allfalse. apply negb_true_iff.
    destruct (allfalse (xorl (bits_of m) (bits_of m'))) eqn:Ea; [|reflexivity].
    exfalso. apply Hne. symmetry. apply xorl_allfalse_eq; assumption.
  - rewrite !app_length, xorl_length by exact Hbl. lia.
  - rewrite xorl_app by (rewrite repeat_length; reflexivity).
    rewrite xorl_app by (rewrite xorl_length by exact Hbl; reflexivity).
    rewrite !xorl_false_r, xorl_cancel by exact Hbl. reflexivity.
Qed.

(* any modification of the stored pair (data, checksum) confined to at most 4 consecutive
   bytes of data ++ le32 c is detected *)
Theorem crc_detects_4bytes (data data' : list byte) (c c' : N) (p m m' q : list byte) :
  c = crc32c data ->
  data ++ le32 c = p ++ m ++ q ->
  data' ++ le32 c' = p ++ m' ++ q ->
  length m' = length m -> (length m <= 4)%nat ->
  Forall (fun x => x < 256) m -> Forall (fun x => x < 256) m' ->
  m' <> m ->
  crc32c data' <> c'.
Proof.
  intros Hc E E' Hlm Hl4 Fm Fm' Hne.
  apply (crc_update_detects_4bytes 0 data data' c c' p m m' q); try assumption; [reflexivity|].
  intros Hb. apply Hne. apply bits_of_inj; assumption.
Qed.

(* a single corrupted data byte *)
Corollary crc_detects_byte_flip (p q : list byte) (x y : byte) :
  x < 256 -> y < 256 -> x <> y ->
  crc32c (p ++ y :: q) <> crc32c (p ++ x :: q).
Proof.
  intros Hx Hy Hne.
  apply (crc_detects_4bytes (p ++ x :: q) (p ++ y :: q) (crc32c (p ++ x :: q)) _
                            p [x] [y] (q ++ le32 (crc32c (p ++ x :: q)))).
  - reflexivity.
  - rewrite <- !app_assoc. reflexivity.
  - rewrite <- !app_assoc. reflexivity.
  - reflexivity.
  - simpl; lia.
  - repeat constructor; assumption.
  - repeat constructor; assumption.
  - congruence.
Qed.

(* ------------------------------------------------------------------ *)
(* le32 / of_le round trips; checksum given as 4 raw bytes             *)

Lemma land_shiftr_byte a r :
  a < 256 -> N.land (a + 256 * r) 255 = a /\ N.shiftr (a + 256 * r) 8 = r.
Proof.
  intros Ha. change 255 with (N.ones 8).
  rewrite N.land_ones, N.shiftr_div_pow2. change (2 ^ 8) with 256. split.
  - symmetry. apply (N.mod_unique _ 256 r a); [exact Ha | lia].
  - symmetry. apply (N.div_unique _ 256 r a); [exact Ha | lia].
Qed.

Theorem le32_of_le cf :
  length cf = 4%nat -> Forall (fun x => x < 256) cf -> le32 (of_le cf) = cf.
Proof.
  intros Hl HF.
  destruct cf as [|a [|b [|c [|d [|]]]]]; try discriminate. clear Hl.
  pose proof (Forall_inv HF) as Ha. apply Forall_inv_tail in HF.
  pose proof (Forall_inv HF) as Hb. apply Forall_inv_tail in HF.
  pose proof (Forall_inv HF) as Hc. apply Forall_inv_tail in HF.
  pose proof (Forall_inv HF) as Hd. clear HF. simpl in Ha, Hb, Hc, Hd.
  unfold of_le. cbn [fold_right]. unfold le32.
  change 24 with (8 + (8 + 8)). change 16 with (8 + 8).
  rewrite <- !N.shiftr_shiftr.
  destruct (land_shiftr_byte a (b + 256 * (c + 256 * (d + 256 * 0))) Ha) as [-> ->].
  destruct (land_shiftr_byte b (c + 256 * (d + 256 * 0)) Hb) as [-> ->].
  destruct (land_shiftr_byte c (d + 256 * 0) Hc) as [-> ->].
  destruct (land_shiftr_byte d 0 Hd) as [-> _].
  reflexivity.
Qed.

Lemma le32_bytes_lt x : Forall (fun b => b < 256) (le32 x).
Proof. unfold le32. repeat constructor; apply land_255_lt. Qed.

Theorem of_le_le32 x : x < 2 ^ 32 -> of_le (le32 x) = x.
Proof.
  intros Hx. unfold le32, of_le. cbn [fold_right].
  change 255 with (N.ones 8). rewrite !N.land_ones, !N.shiftr_div_pow2.
  change (2 ^ 8) with 256. change (2 ^ 16) with (256 * 256).
  change (2 ^ 24) with (256 * (256 * 256)).
  rewrite <- !N.div_div by lia.
  set (x1 := x / 256). set (x2 := x1 / 256). set (x3 := x2 / 256).
  pose proof (N.div_mod' x 256) as E0. fold x1 in E0.
  pose proof (N.div_mod' x1 256) as E1. fold x2 in E1.
  pose proof (N.div_mod' x2 256) as E2. fold x3 in E2.
  assert (H3 : x3 < 256).
  { unfold x3, x2, x1. rewrite !N.div_div by lia.
    apply N.div_lt_upper_bound; [lia|]. change (2 ^ 32) with 4294967296 in Hx. lia. }
  rewrite (N.mod_small x3 256 H3). lia.
Qed.

(* the corrupted checksum field given as 4 raw bytes cf' (compare with of_le cf') *)
Theorem crc_detects_burst_raw (data data' cf' : list byte) :
  length cf' = 4%nat -> Forall (fun x => x < 256) cf' ->
  burst_error (bits_of (data ++ le32 (crc32c data))) (bits_of (data' ++ cf')) ->
  crc32c data' <> of_le cf'.
Proof.
  intros Hl HF Hb. rewrite <- (le32_of_le cf' Hl HF) in Hb.
  rewrite <- !codeword_bytes in Hb.
  apply (crc_detects_burst data data' (crc32c data) (of_le cf') eq_refl Hb).
Qed.

(* checksums of equal-length inputs differ by the zero-register residue of the xor of the inputs *)
Theorem crc_update_lxor c0 a b :
  length a = length b ->
  N.lxor (crc_update c0 a) (crc_update c0 b) = crc_run 0 (xorl (bits_of a) (bits_of b)).
Proof.
  intros Hl. rewrite !crc_update_run.
  rewrite <- (N.lxor_nilpotent (N.lxor c0 mask32)).
  rewrite crc_run_linear' by (rewrite !bits_of_length, Hl; reflexivity).
  apply N.bits_inj; intro n. rewrite !N.lxor_spec.
  destruct (N.testbit mask32 n), (N.testbit (crc_run (N.lxor c0 mask32) (bits_of a)) n),
           (N.testbit (crc_run (N.lxor c0 mask32) (bits_of b)) n); reflexivity.
Qed.

Corollary crc32c_lxor a b :
  length a = length b ->
  N.lxor (crc32c a) (crc32c b) = crc_run 0 (xorl (bits_of a) (bits_of b)).
Proof. apply crc_update_lxor. Qed.

(* sanity: a 32-bit burst straddling five bytes of "123456789" is recognised and detected *)
Example is_burst32_example :
  is_burst32 (xorl (codeword ascii_123456789 0xE3069283)
                   (codeword [49;50;51;180;203;201;201;52;57] 0xE3069283)) = true.
Proof. vm_compute. reflexivity. Qed.

Example burst_detected_example : crc32c [49;50;51;180;203;201;201;52;57] <> 0xE3069283.
Proof.
  apply (crc_detects_burst_dec ascii_123456789 _ 0xE3069283); [vm_compute; reflexivity | reflexivity |].
  exact is_burst32_example.
Qed.

Print Assumptions crc_detects_burst.
Print Assumptions crc_detects_burst_dec.
Print Assumptions crc_detects_4bytes.
