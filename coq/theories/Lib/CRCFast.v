(* Lib/CRCFast.v — basic algebra of the bit-serial CRC-32C register of Lib/CRC.v:
   GF(2)-linearity, register bounds, the incremental law of crc_update, and a
   table-driven byte step proved equal to the bit-serial one for ALL registers.
   No axioms. The burst-detection theorems are in Lib/CRCProofs.v. *)
From Coq Require Import List NArith Bool Lia ZifyN ZifyNat ZifyBool.
From BLB Require Import Lib.CRC.
Import ListNotations.
Open Scope N_scope.

(* ------------------------------------------------------------------ *)
(* small facts on N bits                                               *)

Lemma lt_pow2_bits a n :
  a < 2 ^ n <-> (forall m, n <= m -> N.testbit a m = false).
Proof.
  split.
  - intros H m Hm. destruct (N.eq_dec a 0) as [->|Hz]; [apply N.bits_0|].
    apply N.bits_above_log2. apply N.log2_lt_pow2 in H; lia.
  - intros H. destruct (N.eq_dec a 0) as [->|Hz].
    + assert (2 ^ n <> 0) by (apply N.pow_nonzero; lia). lia.
    + apply N.log2_lt_pow2; [lia|].
      destruct (N.lt_ge_cases (N.log2 a) n) as [Hl|Hl]; [exact Hl|].
      specialize (H _ Hl). rewrite N.bit_log2 in H by exact Hz. discriminate.
Qed.

Lemma lxor_lt_pow2 a b n : a < 2 ^ n -> b < 2 ^ n -> N.lxor a b < 2 ^ n.
Proof.
  rewrite !lt_pow2_bits. intros Ha Hb m Hm.
  rewrite N.lxor_spec, Ha, Hb by exact Hm. reflexivity.
Qed.

Lemma shiftr_lt_pow2 a k n : a < 2 ^ n -> N.shiftr a k < 2 ^ n.
Proof.
  rewrite !lt_pow2_bits. intros Ha m Hm.
  rewrite N.shiftr_spec by lia. apply Ha. lia.
Qed.

Lemma crcP_lt : crcP < 2 ^ 32.
Proof. reflexivity. Qed.

Lemma mask32_lt : mask32 < 2 ^ 32.
Proof. reflexivity. Qed.

Lemma crcP_bit31 : N.testbit crcP 31 = true.
Proof. reflexivity. Qed.

(* ------------------------------------------------------------------ *)
(* bit strings: pointwise xor                                          *)

Fixpoint xorl (a b : list bool) : list bool :=
  match a, b with
  | x :: a', y :: b' => xorb x y :: xorl a' b'
  | _, _ => []
  end.

Lemma xorl_length a : forall b, length a = length b -> length (xorl a b) = length a.
Proof.
  induction a as [|x a IH]; intros [|y b] H; simpl in *; try discriminate; auto.
Qed.

Lemma xorl_app a1 : forall b1 a2 b2, length a1 = length b1 ->
  xorl (a1 ++ a2) (b1 ++ b2) = xorl a1 b1 ++ xorl a2 b2.
Proof.
  induction a1 as [|x a1 IH]; intros [|y b1] a2 b2 H; simpl in *; try discriminate; auto.
  f_equal. apply IH. lia.
Qed.

Lemma xorl_false_r a : xorl a (repeat false (length a)) = a.
Proof. induction a as [|x a IH]; simpl; [reflexivity|]. rewrite xorb_false_r, IH. reflexivity. Qed.

Lemma xorl_false_l a : xorl (repeat false (length a)) a = a.
Proof. induction a as [|x a IH]; simpl; [reflexivity|]. rewrite IH. destruct x; reflexivity. Qed.

Lemma xorl_comm a : forall b, xorl a b = xorl b a.
Proof. induction a as [|x a IH]; intros [|y b]; simpl; auto. rewrite xorb_comm, IH. reflexivity. Qed.

Lemma xorl_self a : xorl a a = repeat false (length a).
Proof. induction a as [|x a IH]; simpl; [reflexivity|]. rewrite xorb_nilpotent, IH. reflexivity. Qed.

Lemma xorl_assoc a : forall b c, xorl (xorl a b) c = xorl a (xorl b c).
Proof.
  induction a as [|x a IH]; intros [|y b] [|z c]; simpl; auto.
  rewrite xorb_assoc, IH. reflexivity.
Qed.

(* a xor (a xor b) = b for equal lengths *)
Lemma xorl_cancel a b : length a = length b -> xorl a (xorl a b) = b.
Proof.
  intros H. rewrite <- xorl_assoc, xorl_self, H. apply xorl_false_l.
Qed.

(* ------------------------------------------------------------------ *)
(* linearity of the register                                           *)

Lemma crc_step_bit_linear s1 s2 b1 b2 :
  crc_step_bit (N.lxor s1 s2) (xorb b1 b2)
  = N.lxor (crc_step_bit s1 b1) (crc_step_bit s2 b2).
Proof.
  unfold crc_step_bit. rewrite N.shiftr_lxor, N.lxor_spec.
  apply N.bits_inj; intro n. rewrite !N.lxor_spec.
  destruct (N.testbit s1 0), (N.testbit s2 0), b1, b2; cbn [xorb];
    rewrite ?N.bits_0;
    destruct (N.testbit crcP n), (N.testbit (N.shiftr s1 1) n), (N.testbit (N.shiftr s2 1) n);
    reflexivity.
Qed.

Lemma crc_run_app s a b : crc_run s (a ++ b) = crc_run (crc_run s a) b.
Proof. unfold crc_run. apply fold_left_app. Qed.

Lemma crc_run_cons s x w : crc_run s (x :: w) = crc_run (crc_step_bit s x) w.
Proof. reflexivity. Qed.

Theorem crc_run_linear' : forall w1 w2 s1 s2, length w1 = length w2 ->
  crc_run (N.lxor s1 s2) (xorl w1 w2) = N.lxor (crc_run s1 w1) (crc_run s2 w2).
Proof.
  induction w1 as [|x w1 IH]; intros [|y w2] s1 s2 H; simpl in H; try discriminate.
  - reflexivity.
  - cbn [xorl]. rewrite !crc_run_cons, crc_step_bit_linear. apply IH. lia.
Qed.

(* the statement asked for (the register bounds are not needed) *)
Theorem crc_run_linear : forall s1 s2 w1 w2,
  s1 < 2 ^ 32 -> s2 < 2 ^ 32 -> length w1 = length w2 ->
  crc_run (N.lxor s1 s2) (xorl w1 w2) = N.lxor (crc_run s1 w1) (crc_run s2 w2).
Proof. intros. apply crc_run_linear'. assumption. Qed.

(* ------------------------------------------------------------------ *)
(* register bounds                                                     *)

Lemma crc_step_bit_lt s b : s < 2 ^ 32 -> crc_step_bit s b < 2 ^ 32.
Proof.
  intros H. unfold crc_step_bit. apply lxor_lt_pow2.
  - apply shiftr_lt_pow2, H.
  - destruct (xorb _ _); [apply crcP_lt | reflexivity].
Qed.

Theorem crc_run_lt : forall w s, s < 2 ^ 32 -> crc_run s w < 2 ^ 32.
Proof.
  induction w as [|x w IH]; intros s H; [exact H|].
  rewrite crc_run_cons. apply IH, crc_step_bit_lt, H.
Qed.

Lemma crc_step_byte_lt s x : s < 2 ^ 32 -> crc_step_byte s x < 2 ^ 32.
Proof. apply crc_run_lt. Qed.

Lemma fold_crc_step_byte_lt : forall d s, s < 2 ^ 32 -> fold_left crc_step_byte d s < 2 ^ 32.
Proof.
  induction d as [|x d IH]; intros s H; [exact H|].
  simpl. apply IH, crc_step_byte_lt, H.
Qed.

Theorem crc_update_lt c d : c < 2 ^ 32 -> crc_update c d < 2 ^ 32.
Proof.
  intros H. unfold crc_update. apply lxor_lt_pow2; [|apply mask32_lt].
  apply fold_crc_step_byte_lt, lxor_lt_pow2; [exact H|apply mask32_lt].
Qed.

Theorem crc32c_lt d : crc32c d < 2 ^ 32.
Proof. apply crc_update_lt. reflexivity. Qed.

(* ------------------------------------------------------------------ *)
(* byte fold = bit run; incremental law                                *)

Lemma bits_of_app a b : bits_of (a ++ b) = bits_of a ++ bits_of b.
Proof. apply flat_map_app. Qed.

Lemma bits_of_cons x d : bits_of (x :: d) = byte_bits x ++ bits_of d.
Proof. reflexivity. Qed.

Lemma byte_bits_length x : length (byte_bits x) = 8%nat.
Proof. reflexivity. Qed.

Lemma bits_of_length d : length (bits_of d) = (8 * length d)%nat.
Proof.
  induction d as [|x d IH]; [reflexivity|].
  rewrite bits_of_cons, app_length, IH, byte_bits_length. simpl length. lia.
Qed.

Lemma fold_crc_step_byte_run : forall d s, fold_left crc_step_byte d s = crc_run s (bits_of d).
Proof.
  induction d as [|x d IH]; intros s; [reflexivity|].
  rewrite bits_of_cons, crc_run_app. simpl. apply IH.
Qed.

Lemma lxor_lxor_cancel a m : N.lxor (N.lxor a m) m = a.
Proof. rewrite N.lxor_assoc, N.lxor_nilpotent, N.lxor_0_r. reflexivity. Qed.

Theorem crc_update_app c a b : crc_update (crc_update c a) b = crc_update c (a ++ b).
Proof.
  unfold crc_update. rewrite lxor_lxor_cancel, fold_left_app. reflexivity.
Qed.

Lemma crc_update_nil c : crc_update c [] = c.
Proof. unfold crc_update. simpl. apply lxor_lxor_cancel. Qed.

Corollary crc32c_app a b : crc32c (a ++ b) = crc_update (crc32c a) b.
Proof. unfold crc32c. symmetry. apply crc_update_app. Qed.

(* crc_update as a raw bit run *)
Lemma crc_update_run c d :
  crc_update c d = N.lxor (crc_run (N.lxor c mask32) (bits_of d)) mask32.
Proof. unfold crc_update. rewrite fold_crc_step_byte_run. reflexivity. Qed.

(* ------------------------------------------------------------------ *)
(* exhaustive checks over bytes                                        *)

Definition range256 : list N := map N.of_nat (seq 0 256).

Lemma in_range256 x : x < 256 -> In x range256.
Proof.
  intros H. unfold range256. rewrite <- (N2Nat.id x). apply in_map, in_seq. lia.
Qed.

Lemma forall256 (P : N -> bool) :
  forallb P range256 = true -> forall x, x < 256 -> P x = true.
Proof.
  intros H x Hx. rewrite forallb_forall in H. apply H, in_range256, Hx.
Qed.

(* ------------------------------------------------------------------ *)
(* table-driven byte step                                              *)

Definition zeros8 : list bool := [false;false;false;false;false;false;false;false].

Definition crc_table : list N :=
  Eval vm_compute in map crc_table_entry range256.

Definition crc_step_byte_tbl (s : N) (x : byte) : N :=
  N.lxor (nth (N.to_nat (N.land (N.lxor s x) 0xFF)) crc_table 0) (N.shiftr s 8).

Lemma crc_table_length : length crc_table = 256%nat.
Proof. reflexivity. Qed.

Lemma crc_table_nth i : i < 256 -> nth (N.to_nat i) crc_table 0 = crc_run i zeros8.
Proof.
  intros H. apply N.eqb_eq. revert i H.
  apply (forall256 (fun i => nth (N.to_nat i) crc_table 0 =? crc_run i zeros8)).
  vm_compute. reflexivity.
Qed.

(* feeding a byte to the zero register = preloading it and feeding zeros *)
Lemma crc_run0_byte x : x < 256 -> crc_run 0 (byte_bits x) = crc_run x zeros8.
Proof.
  intros H. apply N.eqb_eq. revert x H.
  apply (forall256 (fun x => crc_run 0 (byte_bits x) =? crc_run x zeros8)).
  vm_compute. reflexivity.
Qed.

Lemma land_255_lt x : N.land x 255 < 256.
Proof.
  change 256 with (2 ^ 8). apply lt_pow2_bits. intros m Hm.
  rewrite N.land_spec.
  assert (H255 : 255 < 2 ^ 8) by reflexivity.
  rewrite lt_pow2_bits in H255. rewrite (H255 m Hm). apply andb_false_r.
Qed.

Lemma testbit_255_low m : m < 8 -> N.testbit 255 m = true.
Proof.
  intros H.
  assert (m = 0 \/ m = 1 \/ m = 2 \/ m = 3 \/ m = 4 \/ m = 5 \/ m = 6 \/ m = 7) as Hc by lia.
  destruct Hc as [->|[->|[->|[->|[->|[->|[->| ->]]]]]]]; reflexivity.
Qed.

Lemma testbit_255_high m : 8 <= m -> N.testbit 255 m = false.
Proof.
  assert (H255 : 255 < 2 ^ 8) by reflexivity.
  rewrite lt_pow2_bits in H255. apply H255.
Qed.

Lemma byte_bits_land x : byte_bits (N.land x 255) = byte_bits x.
Proof.
  unfold byte_bits. apply map_ext_in. intros m Hm.
  rewrite N.land_spec, testbit_255_low; [apply andb_true_r|].
  simpl in Hm. lia.
Qed.

(* zero input bits with a zero low bit: pure shift *)
Lemma crc_run_zeros_shift : forall n s,
  (forall m, m < N.of_nat n -> N.testbit s m = false) ->
  crc_run s (repeat false n) = N.shiftr s (N.of_nat n).
Proof.
  induction n as [|n IH]; intros s H.
  - change (N.of_nat 0) with 0. rewrite N.shiftr_0_r. reflexivity.
  - cbn [repeat]. rewrite crc_run_cons.
    assert (Hs : crc_step_bit s false = N.shiftr s 1).
    { unfold crc_step_bit. rewrite (H 0) by lia. simpl xorb. cbv iota. apply N.lxor_0_r. }
    rewrite Hs, IH.
    + rewrite N.shiftr_shiftr. f_equal. lia.
    + intros m Hm. rewrite N.shiftr_spec by lia. apply H. lia.
Qed.

Lemma split_low8 u : u = N.lxor (N.land u 255) (N.ldiff u 255).
Proof.
  apply N.bits_inj; intro n.
  rewrite N.lxor_spec, N.land_spec, N.ldiff_spec.
  destruct (N.testbit u n), (N.testbit 255 n); reflexivity.
Qed.

(* feeding a byte = xoring it into the low byte of the register, then 8 zero bits *)
Lemma crc_run_byte_preload s x :
  x < 256 -> crc_run s (byte_bits x) = crc_run (N.lxor s x) zeros8.
Proof.
  intros Hx.
  transitivity (N.lxor (crc_run s zeros8) (crc_run 0 (byte_bits x))).
  - rewrite <- crc_run_linear' by reflexivity. rewrite N.lxor_0_r. f_equal.
    symmetry. apply (xorl_false_l (byte_bits x)).
  - rewrite (crc_run0_byte x Hx). rewrite <- crc_run_linear' by reflexivity. reflexivity.
Qed.

(* a register whose low byte is clear just shifts under 8 zero bits *)
Lemma crc_run_high_zeros8 u : crc_run (N.ldiff u 255) zeros8 = N.shiftr u 8.
Proof.
  change zeros8 with (repeat false 8).
  rewrite crc_run_zeros_shift.
  2:{ intros m Hm. rewrite N.ldiff_spec, testbit_255_low by (simpl in Hm; lia). apply andb_false_r. }
  change (N.of_nat 8) with 8.
  apply N.bits_inj; intro n.
  rewrite !N.shiftr_spec by lia. rewrite N.ldiff_spec, testbit_255_high by lia.
  apply andb_true_r.
Qed.

Lemma crc_run_zeros8_split u :
  crc_run u zeros8 = N.lxor (nth (N.to_nat (N.land u 255)) crc_table 0) (N.shiftr u 8).
Proof.
  rewrite crc_table_nth by apply land_255_lt.
  rewrite <- crc_run_high_zeros8.
  rewrite <- crc_run_linear' by reflexivity.
  rewrite <- split_low8. reflexivity.
Qed.

(* the table step equals the bit-serial step, for every register and every byte value *)
Theorem crc_step_byte_tbl_correct' s x : crc_step_byte_tbl s x = crc_step_byte s x.
Proof.
  unfold crc_step_byte_tbl, crc_step_byte.
  set (x' := N.land x 255).
  assert (Hx' : x' < 256) by apply land_255_lt.
  rewrite <- (byte_bits_land x). fold x'.
  rewrite (crc_run_byte_preload s x' Hx'), crc_run_zeros8_split.
  f_equal.
  - f_equal. f_equal. subst x'. apply N.bits_inj; intro n.
    rewrite !N.land_spec, !N.lxor_spec, N.land_spec.
    destruct (N.testbit s n), (N.testbit x n), (N.testbit 255 n); reflexivity.
  - apply N.bits_inj; intro n.
    rewrite !N.shiftr_spec by lia.
    rewrite N.lxor_spec.
    assert (Hb : N.testbit x' (n + 8) = false).
    { change 256 with (2 ^ 8) in Hx'. rewrite lt_pow2_bits in Hx'. apply Hx'. lia. }
    rewrite Hb, xorb_false_r. reflexivity.
Qed.

Theorem crc_step_byte_tbl_correct s x :
  s < 2 ^ 32 -> x < 256 -> crc_step_byte_tbl s x = crc_step_byte s x.
Proof. intros _ _. apply crc_step_byte_tbl_correct'. Qed.

Definition crc_update_fast (crc : N) (data : list byte) : N :=
  N.lxor (fold_left crc_step_byte_tbl data (N.lxor crc mask32)) mask32.

Definition crc32c_fast (data : list byte) : N := crc_update_fast 0 data.

Lemma fold_tbl_eq : forall d s, fold_left crc_step_byte_tbl d s = fold_left crc_step_byte d s.
Proof.
  induction d as [|x d IH]; intros s; [reflexivity|].
  simpl. rewrite crc_step_byte_tbl_correct'. apply IH.
Qed.

Theorem crc_update_fast_correct' c d : crc_update_fast c d = crc_update c d.
Proof. unfold crc_update_fast, crc_update. rewrite fold_tbl_eq. reflexivity. Qed.

Theorem crc32c_fast_correct' d : crc32c_fast d = crc32c d.
Proof. apply crc_update_fast_correct'. Qed.

Theorem crc_update_fast_correct c d :
  Forall (fun b => b < 256) d -> crc_update_fast c d = crc_update c d.
Proof. intros _. apply crc_update_fast_correct'. Qed.

Theorem crc32c_fast_correct d :
  Forall (fun b => b < 256) d -> crc32c_fast d = crc32c d.
Proof. intros _. apply crc32c_fast_correct'. Qed.

Example crc32c_fast_check : crc32c_fast ascii_123456789 = 0xE3069283.
Proof. vm_compute. reflexivity. Qed.

Print Assumptions crc_step_byte_tbl_correct'.
Print Assumptions crc_update_app.
Print Assumptions crc32c_lt.
