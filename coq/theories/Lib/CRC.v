(* Lib/CRC.v — CRC-32C (Castagnoli, reflected, as Go's hash/crc32 with crc32.Castagnoli).
   Definitions only (shared by C06, C08, C16); theorems live in Lib/CRCProofs.v.
   Bytes are N in [0,256). Registers are N in [0,2^32). *)
From Coq Require Import List NArith Bool.
Import ListNotations.
Open Scope N_scope.

Definition byte := N.

(* reflected Castagnoli polynomial *)
Definition crcP : N := 0x82F63B78.
Definition mask32 : N := 0xFFFFFFFF.

(* one bit-serial step: feed input bit b (least significant bit of each byte first) *)
Definition crc_step_bit (s : N) (b : bool) : N :=
  N.lxor (N.shiftr s 1) (if xorb (N.testbit s 0) b then crcP else 0).

(* the 8 bits of a byte, least significant first *)
Definition byte_bits (x : byte) : list bool :=
  map (N.testbit x) [0;1;2;3;4;5;6;7].

Definition bits_of (data : list byte) : list bool := flat_map byte_bits data.

(* the raw register run over a bit string *)
Definition crc_run (s : N) (w : list bool) : N := fold_left crc_step_bit w s.

(* byte-at-a-time form, equal to 8 bit steps (crc_step_byte_bits in CRCProofs) *)
Definition crc_step_byte (s : N) (x : byte) : N := crc_run s (byte_bits x).

(* hash/crc32.Update(crc, tab, p) = ~(run (~crc) p);  Checksum(p) = Update(0, p) *)
Definition crc_update (crc : N) (data : list byte) : N :=
  N.lxor (fold_left crc_step_byte data (N.lxor crc mask32)) mask32.

Definition crc32c (data : list byte) : N := crc_update 0 data.

(* Table-driven variant for fast execution in extracted code: tbl[i] = 8 steps from register i with zero input. *)
Definition crc_table_entry (i : N) : N := crc_run i [false;false;false;false;false;false;false;false].

(* little-endian encodings used by the on-disk / on-wire formats *)
Definition le32 (x : N) : list byte :=
  [N.land x 0xFF; N.land (N.shiftr x 8) 0xFF; N.land (N.shiftr x 16) 0xFF; N.land (N.shiftr x 24) 0xFF].
Definition le64 (x : N) : list byte := le32 (N.land x mask32) ++ le32 (N.shiftr x 32).
Definition of_le (bs : list byte) : N := fold_right (fun b acc => b + 256 * acc) 0 bs.

Definition ascii_123456789 : list byte := [49;50;51;52;53;54;55;56;57].
Example crc32c_check : crc32c ascii_123456789 = 0xE3069283.
Proof. vm_compute. reflexivity. Qed.
