(* Lib/Shuffle.v — an oracle-driven permutation of a list.
   Used wherever the Go code iterates over a map (iteration order unspecified):
   the model iterates over [shuffle codes l], and every theorem quantifies over
   all [codes], hence over every order the runtime may produce. *)
From Coq Require Import List Arith NArith Permutation Lia.
Import ListNotations.

Fixpoint insert_at {A} (n : nat) (x : A) (l : list A) : list A :=
  match n, l with
  | 0, _ => x :: l
  | S n', [] => [x]
  | S n', y :: l' => y :: insert_at n' x l'
  end.

(* codes are consumed one per element; a missing code means "position 0". *)
Fixpoint shuffle {A} (codes : list N) (l : list A) : list A :=
  match l with
  | [] => []
  | x :: l' =>
      let r := shuffle (tl codes) l' in
      insert_at (N.to_nat (hd 0%N codes) mod S (length r)) x r
  end.

Lemma insert_at_perm {A} n (x : A) l : Permutation (insert_at n x l) (x :: l).
Proof.
  revert n; induction l as [|y l IH]; intros [|n]; simpl; auto.
  rewrite IH. apply perm_swap.
Qed.

Lemma shuffle_perm {A} codes (l : list A) : Permutation (shuffle codes l) l.
Proof.
  revert codes; induction l as [|x l IH]; intros codes; simpl; auto.
  rewrite insert_at_perm. constructor. apply IH.
Qed.

Lemma shuffle_in {A} codes (l : list A) x : In x (shuffle codes l) <-> In x l.
Proof.
  split; apply Permutation_in; [|symmetry]; apply shuffle_perm.
Qed.

Lemma shuffle_length {A} codes (l : list A) : length (shuffle codes l) = length l.
Proof. apply Permutation_length, shuffle_perm. Qed.
