(* Lib/RSLinAlg.v — linear algebra over GF(2^8) for the row-oriented matrix product of Lib/RS.v:
   vadd / vscale / lincomb laws, associativity of the product, the identity matrix.
   All laws are unconditional in the byte values (GF256Laws) ; only the identity needs bytes < 256. *)
From Coq Require Import NArith List Bool Arith Lia ZifyN ZifyNat ZifyBool.
From BLB Require Import Lib.GF256 Lib.GF256Laws Lib.RS.
Import ListNotations.
Open Scope N_scope.

Lemma vadd_nil_r : forall x, vadd x [] = x.
Proof. destruct x; reflexivity. Qed.

Lemma vadd_comm : forall x y, vadd x y = vadd y x.
Proof.
  induction x as [|a x IH]; intros [|b y]; simpl; try reflexivity.
  rewrite gadd_comm, IH. reflexivity.
Qed.

Lemma vadd_assoc : forall x y z, vadd (vadd x y) z = vadd x (vadd y z).
Proof.
  induction x as [|a x IH]; intros [|b y] [|c z]; simpl; try reflexivity.
  rewrite gadd_assoc, IH. reflexivity.
Qed.

Lemma vadd_length : forall x y, length (vadd x y) = Nat.max (length x) (length y).
Proof.
  induction x as [|a x IH]; intros [|b y]; simpl; try reflexivity.
  rewrite IH. reflexivity.
Qed.

Lemma vscale_length : forall c x, length (vscale c x) = length x.
Proof. intros. apply map_length. Qed.

Lemma vscale_vadd : forall c x y, vscale c (vadd x y) = vadd (vscale c x) (vscale c y).
Proof.
  induction x as [|a x IH]; intros [|b y]; simpl; try reflexivity.
  rewrite gmul_distr_l, IH. reflexivity.
Qed.

Lemma vscale_vscale : forall a b x, vscale a (vscale b x) = vscale (gmul a b) x.
Proof.
  intros. unfold vscale. rewrite map_map. apply map_ext. intro. symmetry. apply gmul_assoc.
Qed.

Lemma vscale_gadd : forall a b x, vscale (gadd a b) x = vadd (vscale a x) (vscale b x).
Proof.
  induction x as [|c x IH]; simpl; [reflexivity|].
  rewrite gmul_distr_r. f_equal. exact IH.
Qed.

Lemma lincomb_nil_r : forall cs, lincomb cs [] = [].
Proof. destruct cs; reflexivity. Qed.

Lemma lincomb_vscale : forall c cs rows, lincomb (vscale c cs) rows = vscale c (lincomb cs rows).
Proof.
  induction cs as [|c0 cs IH]; intros [|r rows]; simpl; try reflexivity.
  rewrite vscale_vadd, vscale_vscale, IH. reflexivity.
Qed.

Lemma lincomb_vadd : forall c1 c2 rows, length c1 = length c2 ->
  lincomb (vadd c1 c2) rows = vadd (lincomb c1 rows) (lincomb c2 rows).
Proof.
  induction c1 as [|a c1 IH]; intros [|b c2] rows H; simpl in *; try discriminate; try reflexivity.
  destruct rows as [|r rows]; [reflexivity|].
  rewrite vscale_gadd, IH by lia.
  rewrite !vadd_assoc. f_equal.
  rewrite <- !vadd_assoc. f_equal. apply vadd_comm.
Qed.

Definition all_len (w : nat) (rows : matrix) : Prop := Forall (fun r => length r = w) rows.

Lemma lincomb_length : forall w cs rows, all_len w rows -> cs <> [] -> rows <> [] ->
  length (lincomb cs rows) = w.
Proof.
  induction cs as [|c cs IH]; intros rows Hall Hc Hr; [contradiction|].
  destruct rows as [|r rows]; [contradiction|].
  inversion Hall; subst. simpl. rewrite vadd_length, vscale_length.
  destruct cs as [|c' cs]; [simpl; lia|].
  destruct rows as [|r' rows]; [simpl; lia|].
  rewrite (IH (r' :: rows)); [lia | assumption | discriminate | discriminate].
Qed.

(* associativity of the product, one output row at a time *)
Lemma lincomb_mmul : forall w b A D, all_len w A ->
  lincomb b (mmul A D) = lincomb (lincomb b A) D.
Proof.
  induction b as [|b0 b IH]; intros A D Hall; [reflexivity|].
  destruct A as [|a0 A]; [reflexivity|].
  inversion Hall as [|? ? Ha0 HA]; subst.
  simpl. rewrite (IH A D HA).
  destruct b as [|b1 b].
  - simpl. rewrite !vadd_nil_r. symmetry. apply lincomb_vscale.
  - destruct A as [|a1 A].
    + simpl. rewrite !vadd_nil_r. symmetry. apply lincomb_vscale.
    + rewrite lincomb_vadd.
      * rewrite lincomb_vscale. reflexivity.
      * rewrite vscale_length. symmetry.
        apply (lincomb_length (length a0)); [exact HA | discriminate | discriminate].
Qed.

Lemma mmul_assoc : forall w B A D, all_len w A -> mmul B (mmul A D) = mmul (mmul B A) D.
Proof.
  intros w B A D H. unfold mmul. rewrite map_map. apply map_ext. intro b.
  exact (lincomb_mmul w b A D H).
Qed.

(* ---------- zero coefficients, identity ---------- *)
Definition bytes_vec (x : vec) : Prop := Forall isbyte x.

Lemma map_byte_of_id : forall x, bytes_vec x -> map byte_of x = x.
Proof.
  induction 1; simpl; [reflexivity|]. rewrite byte_of_id by assumption. f_equal. assumption.
Qed.

Lemma vscale_0 : forall x, vscale 0 x = repeat 0 (length x).
Proof. induction x; simpl; [reflexivity|]. f_equal. assumption. Qed.

Lemma vscale_1 : forall x, vscale 1 x = map byte_of x.
Proof. intros. unfold vscale. apply map_ext. apply gmul_1_l. Qed.

Lemma vadd_zeros_l : forall x, vadd (repeat 0 (length x)) x = map byte_of x.
Proof. induction x; simpl; [reflexivity|]. rewrite gadd_0_l. f_equal. assumption. Qed.

Lemma vadd_zeros_r : forall x, vadd x (repeat 0 (length x)) = map byte_of x.
Proof. intros. rewrite vadd_comm. apply vadd_zeros_l. Qed.

Lemma lincomb_zeros : forall w k rows, all_len w rows ->
  lincomb (repeat 0 k) rows = [] \/ lincomb (repeat 0 k) rows = repeat 0 w.
Proof.
  induction k as [|k IH]; intros rows Hall; [left; reflexivity|].
  destruct rows as [|r rows]; [left; reflexivity|].
  inversion Hall; subst. simpl. rewrite vscale_0.
  destruct (IH rows H2) as [E | E]; rewrite E.
  - right. apply vadd_nil_r.
  - right. clear. induction (length r); simpl; [reflexivity|]. f_equal. assumption.
Qed.

Lemma map_const : forall A B (c : B) (l : list A), map (fun _ => c) l = repeat c (length l).
Proof. induction l; simpl; [reflexivity|]. f_equal. assumption. Qed.

Lemma unit_vec_0 : forall n, unit_vec (S n) 0 = 1 :: repeat 0 n.
Proof.
  intro n. unfold unit_vec. simpl. f_equal.
  rewrite <- seq_shift, map_map. simpl. rewrite map_const, seq_length. reflexivity.
Qed.

Lemma unit_vec_S : forall n i, unit_vec (S n) (S i) = 0 :: unit_vec n i.
Proof.
  intros n i. unfold unit_vec. simpl. f_equal.
  rewrite <- seq_shift, map_map. reflexivity.
Qed.

Lemma identity_S : forall n, identity (S n) = (1 :: repeat 0 n) :: map (cons 0) (identity n).
Proof.
  intro n. unfold identity. simpl. rewrite unit_vec_0. f_equal.
  rewrite <- seq_shift, !map_map. apply map_ext. intro i. apply unit_vec_S.
Qed.

Definition wf_rows (w : nat) (D : matrix) : Prop := Forall (fun r => length r = w /\ bytes_vec r) D.

Lemma wf_rows_all_len : forall w D, wf_rows w D -> all_len w D.
Proof. intros w D H. unfold all_len. eapply Forall_impl; [|exact H]. intros r [? _]. assumption. Qed.

Lemma mmul_identity : forall w D, wf_rows w D -> mmul (identity (length D)) D = D.
Proof.
  induction D as [|r D IH]; intro H; [reflexivity|].
  inversion H as [|? ? [Hl Hb] HD]; subst.
  simpl length. rewrite identity_S. unfold mmul in *. simpl map. f_equal.
  - rewrite vscale_1, (map_byte_of_id r Hb).
    destruct (lincomb_zeros (length r) (length D) D (wf_rows_all_len _ _ HD)) as [E | E]; rewrite E.
    + apply vadd_nil_r.
    + rewrite vadd_zeros_r. apply map_byte_of_id. assumption.
  - rewrite map_map. rewrite <- (IH HD) at 2.
    (* each row u of identity (length D): lincomb (0 :: u) (r :: D) = vadd zeros (lincomb u D) *)
    assert (Hrows : forall u, In u (identity (length D)) ->
                              lincomb (0 :: u) (r :: D) = lincomb u D).
    { intros u Hu. simpl. rewrite vscale_0.
      (* lincomb u D is row of D after IH: has length (length r) and is bytes *)
      assert (Hin : In (lincomb u D) (map (fun arow => lincomb arow D) (identity (length D)))).
      { apply (in_map (fun arow => lincomb arow D)). exact Hu. }
      rewrite (IH HD) in Hin.
      rewrite Forall_forall in HD. destruct (HD _ Hin) as [Hl' Hb'].
      rewrite <- Hl'. rewrite vadd_zeros_l. apply map_byte_of_id. exact Hb'. }
    apply map_ext_in. exact Hrows.
Qed.

(* row i of the identity picks shard i *)
Lemma nth_mmul : forall A D i, (i < length A)%nat -> nth i (mmul A D) [] = lincomb (nth i A []) D.
Proof.
  intros A D i H. unfold mmul.
  rewrite (nth_indep _ [] (lincomb [] D)) by (rewrite map_length; exact H).
  apply (map_nth (fun arow => lincomb arow D)).
Qed.

Lemma identity_length : forall n, length (identity n) = n.
Proof. intro. unfold identity. rewrite map_length, seq_length. reflexivity. Qed.

Lemma lincomb_unit : forall w D i, wf_rows w D -> (i < length D)%nat ->
  lincomb (nth i (identity (length D)) []) D = nth i D [].
Proof.
  intros w D i H Hi. rewrite <- nth_mmul by (rewrite identity_length; exact Hi).
  rewrite (mmul_identity w D H). reflexivity.
Qed.

Lemma vec_eqb_eq : forall x y, vec_eqb x y = true -> x = y.
Proof.
  induction x as [|a x IH]; intros [|b y] H; simpl in H; try discriminate; [reflexivity|].
  apply andb_true_iff in H. destruct H as [H1 H2]. apply N.eqb_eq in H1. subst. f_equal. apply IH. exact H2.
Qed.

Lemma mat_eqb_eq : forall x y, mat_eqb x y = true -> x = y.
Proof.
  induction x as [|a x IH]; intros [|b y] H; simpl in H; try discriminate; [reflexivity|].
  apply andb_true_iff in H. destruct H as [H1 H2]. apply vec_eqb_eq in H1. subst. f_equal. apply IH. exact H2.
Qed.

Lemma vec_eqb_refl : forall x, vec_eqb x x = true.
Proof. induction x; simpl; [reflexivity|]. rewrite N.eqb_refl. exact IHx. Qed.
Lemma mat_eqb_refl : forall x, mat_eqb x x = true.
Proof. induction x; simpl; [reflexivity|]. rewrite vec_eqb_refl. exact IHx. Qed.
