(* Lib/RS.v — executable model of github.com/klauspost/reedsolomon (v0.0.0-20180704, as vendored by BLB):
   matrix.go (identity, Multiply, Augment, gaussianElimination, Invert, vandermonde),
   reedsolomon.go (buildMatrix, Encode, Verify, reconstruct = Reconstruct / ReconstructData).
   Shards are lists of bytes (N); as in the library an EMPTY shard means "missing".
   Definitions only; proofs are in RSLinAlg.v / RSProofs.v.  The library is third-party code: it is
   modelled here and validated against the real package on every run by the C13 harness. *)
From Coq Require Import NArith List Bool Arith.
From BLB Require Import Lib.GF256.
Import ListNotations.
Open Scope N_scope.

Notation vec := (list N) (only parsing).
Notation matrix := (list (list N)) (only parsing).

(* out[i] ^= in[i]; the longer operand survives (all uses are on equal lengths; [] is the neutral element) *)
Fixpoint vadd (x y : vec) : vec :=
  match x, y with
  | [], _ => y
  | _, [] => x
  | a :: x', b :: y' => gadd a b :: vadd x' y'
  end.

Definition vscale (c : N) (x : vec) : vec := map (gmul c) x.

(* codeSomeShards for ONE output row: sum_c coeffs[c] * rows[c]  (also one row of matrix.Multiply) *)
Fixpoint lincomb (cs : vec) (rows : matrix) : vec :=
  match cs, rows with
  | c :: cs', r :: rows' => vadd (vscale c r) (lincomb cs' rows')
  | _, _ => []
  end.

Definition mmul (A B : matrix) : matrix := map (fun arow => lincomb arow B) A.

Definition unit_vec (n i : nat) : vec := map (fun j => if Nat.eqb i j then 1 else 0) (seq 0 n).
Definition identity (n : nat) : matrix := map (unit_vec n) (seq 0 n).

Definition vandermonde (rows cols : nat) : matrix :=
  map (fun r => map (fun c => gpow (N.of_nat r) (N.of_nat c)) (seq 0 cols)) (seq 0 rows).

(* ---------- matrix.go: gaussianElimination on an augmented matrix ---------- *)
Definition elt (m : matrix) (r c : nat) : N := nth c (nth r m []) 0.

Fixpoint set_row (m : matrix) (r : nat) (v : vec) : matrix :=
  match m, r with
  | [], _ => []
  | _ :: t, O => v :: t
  | h :: t, S r' => h :: set_row t r' v
  end.

Definition swap_rows (m : matrix) (r1 r2 : nat) : matrix :=
  set_row (set_row m r1 (nth r2 m [])) r2 (nth r1 m []).

(* index of the first row below r (among [cands]) with a non-zero entry in column r *)
Fixpoint first_nonzero_below (m : matrix) (r : nat) (cands : list nat) : option nat :=
  match cands with
  | [] => None
  | k :: ks => if N.eqb (elt m k r) 0 then first_nonzero_below m r ks else Some k
  end.

Definition mapi {A B} (f : nat -> A -> B) (l : list A) : list B :=
  map (fun p => f (fst p) (snd p)) (combine (seq 0 (length l)) l).

(* one iteration of the first loop (row r) *)
Definition ge_down_step (m : matrix) (r : nat) : option matrix :=
  let rows := length m in
  let m1 := if N.eqb (elt m r r) 0
            then match first_nonzero_below m r (seq (S r) (rows - S r)) with
                 | Some k => swap_rows m r k
                 | None => m
                 end
            else m in
  if N.eqb (elt m1 r r) 0 then None
  else
    let prow := nth r m1 [] in
    let prow' := if N.eqb (elt m1 r r) 1 then prow else vscale (ginv (elt m1 r r)) prow in
    let m2 := set_row m1 r prow' in
    Some (mapi (fun k row => if Nat.ltb r k
                             then (let s := nth r row 0 in
                                   if N.eqb s 0 then row else vadd row (vscale s prow'))
                             else row) m2).

(* one iteration of the second loop (column d): clear the entries above the diagonal *)
Definition ge_up_step (m : matrix) (d : nat) : matrix :=
  let drow := nth d m [] in
  mapi (fun k row => if Nat.ltb k d
                     then (let s := nth d row 0 in
                           if N.eqb s 0 then row else vadd row (vscale s drow))
                     else row) m.

Fixpoint ge_down (m : matrix) (rs : list nat) : option matrix :=
  match rs with
  | [] => Some m
  | r :: rs' => match ge_down_step m r with
                | Some m' => ge_down m' rs'
                | None => None
                end
  end.

Definition gaussian_elimination (m : matrix) : option matrix :=
  match ge_down m (seq 0 (length m)) with
  | Some m1 => Some (fold_left ge_up_step (seq 0 (length m)) m1)
  | None => None
  end.

Definition augment (a b : matrix) : matrix := map (fun p => fst p ++ snd p) (combine a b).

(* Invert: None = errSingular *)
Definition invert (m : matrix) : option matrix :=
  let size := length m in
  match gaussian_elimination (augment m (identity size)) with
  | Some w => Some (map (skipn size) w)
  | None => None
  end.

(* reedsolomon.go buildMatrix: vandermonde(total, n) * inverse(top n x n) *)
Definition build_matrix (n total : nat) : option matrix :=
  let vm := vandermonde total n in
  match invert (firstn n vm) with
  | Some ti => Some (mmul vm ti)
  | None => None
  end.

(* ---------- the codec ---------- *)
Inductive rs_err := ErrTooFewShards | ErrShardNoData | ErrShardSize | ErrSingular.

Definition is_missing (s : vec) : bool := match s with [] => true | _ => false end.

Fixpoint shard_size (shards : list vec) : nat :=
  match shards with
  | [] => O
  | s :: r => match s with [] => shard_size r | _ => length s end
  end.

Definition check_shards (shards : list vec) (nilok : bool) : option rs_err :=
  let size := shard_size shards in
  if Nat.eqb size 0 then Some ErrShardNoData
  else if forallb (fun s => Nat.eqb (length s) size || (is_missing s && nilok)) shards then None
       else Some ErrShardSize.

(* the parity rows of the coding matrix *)
Definition parity_rows (n : nat) (M : matrix) : matrix := skipn n M.

(* Encode: [shards] has n+m entries, all allocated with the same non-zero length; parity is overwritten *)
Definition rs_encode (n total : nat) (M : matrix) (shards : list vec) : rs_err + list vec :=
  if negb (Nat.eqb (length shards) total) then inl ErrTooFewShards
  else match check_shards shards false with
       | Some e => inl e
       | None => let data := firstn n shards in
                 inr (data ++ map (fun row => lincomb row data) (parity_rows n M))
       end.

Fixpoint vec_eqb (x y : vec) : bool :=
  match x, y with
  | [], [] => true
  | a :: x', b :: y' => N.eqb a b && vec_eqb x' y'
  | _, _ => false
  end.
Fixpoint mat_eqb (x y : matrix) : bool :=
  match x, y with
  | [], [] => true
  | a :: x', b :: y' => vec_eqb a b && mat_eqb x' y'
  | _, _ => false
  end.

(* Verify *)
Definition rs_verify (n total : nat) (M : matrix) (shards : list vec) : rs_err + bool :=
  if negb (Nat.eqb (length shards) total) then inl ErrTooFewShards
  else match check_shards shards false with
       | Some e => inl e
       | None => let data := firstn n shards in
                 inr (mat_eqb (map (fun row => lincomb row data) (parity_rows n M)) (skipn n shards))
       end.

Definition present_indices (shards : list vec) : list nat :=
  map fst (filter (fun p => negb (is_missing (snd p))) (combine (seq 0 (length shards)) shards)).

(* reconstruct(shards, dataOnly) *)
Definition rs_reconstruct_gen (n total : nat) (M : matrix) (shards : list vec) (data_only : bool)
  : rs_err + list vec :=
  if negb (Nat.eqb (length shards) total) then inl ErrTooFewShards
  else match check_shards shards true with
       | Some e => inl e
       | None =>
           let pres := present_indices shards in
           if Nat.eqb (length pres) total then inr shards
           else if Nat.ltb (length pres) n then inl ErrTooFewShards
           else
             let valid := firstn n pres in
             let subm := map (fun i => nth i M []) valid in
             match invert subm with
             | None => inl ErrSingular
             | Some dec =>
                 let subshards := map (fun i => nth i shards []) valid in
                 let data := mapi (fun i s => if is_missing s then lincomb (nth i dec []) subshards else s)
                                  (firstn n shards) in
                 if data_only then inr (data ++ skipn n shards)
                 else inr (data ++ mapi (fun k s => if is_missing s then lincomb (nth (n + k) M []) data else s)
                                        (skipn n shards))
             end
       end.

Definition rs_reconstruct n total M shards := rs_reconstruct_gen n total M shards false.
Definition rs_reconstruct_data n total M shards := rs_reconstruct_gen n total M shards true.

(* store.go reconstructAndVerify: Some shards = success, None = any error (incl. errVerifyFailed) *)
Definition reconstruct_and_verify (n total : nat) (M : matrix) (shards : list vec) : option (list vec) :=
  match rs_reconstruct n total M shards with
  | inl _ => None
  | inr out => match rs_verify n total M out with
               | inr true => Some out
               | _ => None
               end
  end.

(* ---------- the storage classes BLB configures (core.EnumNamesStorageClass RS_n_m; checked against
   storageclass.AllRS by the harness on every run) ---------- *)
Definition rs_classes : list (nat * nat) := [(6, 3); (8, 3); (10, 3); (12, 5)]%nat.

Definition class_matrix (n m : nat) : matrix :=
  match build_matrix n (n + m) with Some M => M | None => [] end.

(* erase the shards whose index is in S *)
Definition erase (S : list nat) (shards : list vec) : list vec :=
  mapi (fun i s => if existsb (Nat.eqb i) S then [] else s) shards.

(* all k-element subsequences of a list, in order *)
Fixpoint subseqs {A} (k : nat) (l : list A) : list (list A) :=
  match k, l with
  | O, _ => [[]]
  | S _, [] => []
  | S k', x :: r => map (cons x) (subseqs k' r) ++ subseqs k r
  end.
