(* Lib/RSProofs.v — the codec of Lib/RS.v is exact and fails closed.
   rs_mds          : for every configured class EVERY n-subset of the n+m rows of the coding matrix is
                     invertible (84 + 165 + 286 + 6188 Gauss-Jordan eliminations, exhaustive vm_compute)
   rs_reconstruct_gen_exact / rs_reconstruct_exact / rs_reconstruct_data_exact
                   : data shards of ANY equal non-zero length, any erased set hitting <= m positions
   rs_too_few      : fewer than n shards present => ErrTooFewShards. *)
From Coq Require Import NArith List Bool Arith Lia ZifyN ZifyNat ZifyBool.
From BLB Require Import Lib.GF256 Lib.GF256Laws Lib.RS Lib.RSLinAlg Lib.RSMds.
Import ListNotations.
Open Scope nat_scope.

Lemma mds_class : forall n m, In (n, m) rs_classes -> mds_check n m = true.
Proof.
  intros n m H. pose proof mds_all as A. rewrite forallb_forall in A. exact (A (n, m) H).
Qed.

Inductive sublist {A} : list A -> list A -> Prop :=
| sl_nil : sublist [] []
| sl_skip : forall x l1 l2, sublist l1 l2 -> sublist l1 (x :: l2)
| sl_take : forall x l1 l2, sublist l1 l2 -> sublist (x :: l1) (x :: l2).

Lemma subseqs_0 : forall A (l : list A), subseqs 0 l = [[]].
Proof. destruct l; reflexivity. Qed.

Lemma subseqs_complete : forall A (V l : list A), sublist V l -> In V (subseqs (length V) l).
Proof.
  induction 1 as [| x l1 l2 H IH | x l1 l2 H IH].
  - left. reflexivity.
  - destruct l1 as [|a l1].
    + rewrite subseqs_0. left. reflexivity.
    + simpl. apply in_or_app. right. exact IH.
  - simpl. apply in_or_app. left. apply in_map. exact IH.
Qed.

Lemma firstn_filter_in_subseqs : forall A (f : A -> bool) l k,
  k <= length (filter f l) -> In (firstn k (filter f l)) (subseqs k l).
Proof.
  induction l as [|x l IH]; intros k Hk.
  - simpl in Hk. assert (k = 0) by lia. subst. left. reflexivity.
  - destruct k as [|k]; [rewrite subseqs_0; left; reflexivity|].
    cbn [filter] in *. destruct (f x).
    + cbn [firstn subseqs]. apply in_or_app. left. apply in_map. apply IH. simpl in Hk. lia.
    + cbn [subseqs]. apply in_or_app. right. apply IH. exact Hk.
Qed.

(* THE MDS PROPERTY, for every configured class and every way to choose n of the n+m rows *)
Theorem rs_mds_subseqs : forall n m, In (n, m) rs_classes ->
  forall V, In V (subseqs n (seq 0 (n + m))) ->
  exists B, invert (rows_of (class_matrix n m) V) = Some B /\
            mmul B (rows_of (class_matrix n m) V) = identity n /\ length B = n.
Proof.
  intros n m Hc V HV. pose proof (mds_class n m Hc) as H. unfold mds_check in H.
  repeat (apply andb_true_iff in H; destruct H as [H ?]).
  rewrite forallb_forall in H0. specialize (H0 V HV).
  destruct (invert (rows_of (class_matrix n m) V)) as [B|]; [|discriminate].
  apply andb_true_iff in H0. destruct H0 as [E L].
  exists B. split; [reflexivity|]. split; [apply mat_eqb_eq; exact E | apply Nat.eqb_eq; exact L].
Qed.

Theorem rs_mds_lemma : forall n m, In (n, m) rs_classes ->
  forall V, sublist V (seq 0 (n + m)) -> length V = n ->
  exists B, invert (rows_of (class_matrix n m) V) = Some B /\
            mmul B (rows_of (class_matrix n m) V) = identity n.
Proof.
  intros n m Hc V HV HL. pose proof (subseqs_complete _ V _ HV) as Hin. rewrite HL in Hin.
  destruct (rs_mds_subseqs n m Hc V Hin) as [B [? [? ?]]]. exists B. split; assumption.
Qed.

(* ---------- facts about the class matrices ---------- *)
Section Class.
Variables n m : nat.
Hypothesis Hc : In (n, m) rs_classes.
Let M := class_matrix n m.

Lemma M_length : length M = n + m.
Proof.
  pose proof (mds_class n m Hc) as H. unfold mds_check in H.
  repeat (apply andb_true_iff in H; destruct H as [H ?]). apply Nat.eqb_eq. exact H.
Qed.

Lemma M_rows : all_len n M.
Proof.
  pose proof (mds_class n m Hc) as H. unfold mds_check in H.
  repeat (apply andb_true_iff in H; destruct H as [H ?]).
  unfold all_len. apply Forall_forall. intros r Hr. rewrite forallb_forall in H3.
  apply Nat.eqb_eq. apply H3. exact Hr.
Qed.

Lemma M_top : firstn n M = identity n.
Proof.
  pose proof (mds_class n m Hc) as H. unfold mds_check in H.
  repeat (apply andb_true_iff in H; destruct H as [H ?]). apply mat_eqb_eq. exact H2.
Qed.

Lemma n_pos : 0 < n.
Proof.
  pose proof (mds_class n m Hc) as H. unfold mds_check in H.
  repeat (apply andb_true_iff in H; destruct H as [H ?]). apply Nat.ltb_lt. exact H1.
Qed.

(* well-formed data: n shards of the same non-zero length, all bytes *)
Definition wf_data (len : nat) (d : list vec) : Prop := length d = n /\ 0 < len /\ wf_rows len d.

(* Encode: the data shards followed by the parity shards *)
Definition encode_shards (d : list vec) : list vec :=
  d ++ map (fun row => lincomb row d) (parity_rows n M).

Lemma encode_is_mmul : forall len d, wf_data len d -> encode_shards d = mmul M d.
Proof.
  intros len d [Hl [_ Hw]]. unfold encode_shards, parity_rows.
  rewrite <- (firstn_skipn n M) at 2. unfold mmul. rewrite map_app. f_equal.
  fold (mmul (firstn n M) d). rewrite M_top. rewrite <- Hl. symmetry. apply (mmul_identity len). exact Hw.
Qed.

Lemma encode_length : forall d, length d = n -> length (encode_shards d) = n + m.
Proof.
  intros d Hl. unfold encode_shards, parity_rows. rewrite app_length, map_length, skipn_length, M_length. lia.
Qed.

Lemma encode_nth : forall len d i, wf_data len d -> i < n + m ->
  nth i (encode_shards d) [] = lincomb (nth i M []) d.
Proof.
  intros len d i H Hi. rewrite (encode_is_mmul len d H). apply nth_mmul. rewrite M_length. exact Hi.
Qed.

Lemma encode_nth_data : forall d i, i < length d -> nth i (encode_shards d) [] = nth i d [].
Proof. intros. unfold encode_shards. apply app_nth1. assumption. Qed.

Lemma encode_nth_len : forall len d i, wf_data len d -> i < n + m -> length (nth i (encode_shards d) []) = len.
Proof.
  intros len d i H Hi. rewrite (encode_nth len d i H Hi).
  destruct H as [Hl [Hp Hw]].
  apply lincomb_length.
  - apply wf_rows_all_len. exact Hw.
  - pose proof M_rows as R. unfold all_len in R. rewrite Forall_forall in R.
    assert (Hin : In (nth i M []) M) by (apply nth_In; rewrite M_length; exact Hi).
    specialize (R _ Hin). pose proof n_pos. destruct (nth i M []); simpl in *; [lia | discriminate].
  - pose proof n_pos. destruct d; simpl in *; [lia | discriminate].
Qed.

End Class.

(* ---------- generic list lemmas ---------- *)
Lemma mapi_length : forall A B (f : nat -> A -> B) l, length (mapi f l) = length l.
Proof.
  intros. unfold mapi. rewrite map_length, combine_length, seq_length. lia.
Qed.

Lemma nth_mapi : forall A B (f : nat -> A -> B) l i d d', i < length l ->
  nth i (mapi f l) d' = f i (nth i l d).
Proof.
  intros A B f l i d d' H. unfold mapi.
  rewrite (nth_indep _ d' ((fun p => f (fst p) (snd p)) (0, d)))
    by (rewrite map_length, combine_length, seq_length; lia).
  rewrite (map_nth (fun p => f (fst p) (snd p))).
  rewrite combine_nth by (rewrite seq_length; reflexivity).
  rewrite seq_nth by exact H. reflexivity.
Qed.

Lemma nth_firstn_lt : forall A (l : list A) k i d, i < k -> nth i (firstn k l) d = nth i l d.
Proof.
  induction l as [|x l IH]; intros k i d H; [destruct k; destruct i; reflexivity|].
  destruct k as [|k]; [lia|]. destruct i as [|i]; [reflexivity|]. simpl. apply IH. lia.
Qed.

Lemma nth_skipn : forall A (l : list A) k i d, nth i (skipn k l) d = nth (k + i) l d.
Proof.
  induction l as [|x l IH]; intros k i d; [destruct k; destruct i; reflexivity|].
  destruct k as [|k]; [reflexivity|]. simpl. apply IH.
Qed.

Definition memS (S : list nat) (i : nat) : bool := existsb (Nat.eqb i) S.

Lemma erase_length : forall S l, length (erase S l) = length l.
Proof. intros. unfold erase. apply mapi_length. Qed.

Lemma erase_nth : forall S l i, i < length l ->
  nth i (erase S l) [] = if memS S i then [] else nth i l [].
Proof.
  intros S l i H. unfold erase.
  exact (nth_mapi _ _ (fun i s => if existsb (Nat.eqb i) S then [] else s) l i [] [] H).
Qed.

Lemma present_indices_char : forall (shards : list vec) (g : nat -> bool),
  (forall i, i < length shards -> is_missing (nth i shards []) = g i) ->
  present_indices shards = filter (fun i => negb (g i)) (seq 0 (length shards)).
Proof.
  intros shards g. unfold present_indices.
  assert (G : forall s (sh : list vec), (forall i, i < length sh -> is_missing (nth i sh []) = g (s + i)) ->
              map fst (filter (fun p => negb (is_missing (snd p))) (combine (seq s (length sh)) sh))
              = filter (fun i => negb (g i)) (seq s (length sh))).
  { intros s sh. revert s. induction sh as [|x sh IH]; intros s H; [reflexivity|].
    pose proof (H 0 ltac:(simpl; lia)) as H0. simpl in H0. rewrite Nat.add_0_r in H0.
    assert (IH' : map fst (filter (fun p => negb (is_missing (snd p))) (combine (seq (S s) (length sh)) sh))
                  = filter (fun i => negb (g i)) (seq (S s) (length sh))).
    { apply IH. intros i Hi. specialize (H (S i) ltac:(simpl; lia)). simpl in H.
      rewrite <- plus_n_Sm in H. exact H. }
    cbn [length seq combine filter snd]. rewrite H0.
    destruct (g s); cbn [negb map fst]; rewrite IH'; reflexivity. }
  intro H. apply (G 0). exact H.
Qed.

Lemma filter_partition_length : forall A (f : A -> bool) l,
  length (filter f l) + length (filter (fun x => negb (f x)) l) = length l.
Proof.
  induction l as [|x l IH]; [reflexivity|]. simpl. destruct (f x); simpl; lia.
Qed.

Lemma filter_len_le : forall A (f : A -> bool) l, length (filter f l) <= length l.
Proof. induction l as [|x l IH]; simpl; [lia|]. destruct (f x); simpl; lia. Qed.

Lemma filter_all : forall A (f : A -> bool) l, length (filter f l) = length l -> forall x, In x l -> f x = true.
Proof.
  induction l as [|y l IH]; intros H x Hx; [contradiction|].
  simpl in H. destruct (f y) eqn:E.
  - simpl in H. destruct Hx as [-> | Hx]; [exact E | apply IH; [lia | exact Hx]].
  - pose proof (filter_len_le _ f l). simpl in H. lia.
Qed.

Lemma firstn_in : forall A (l : list A) k x, In x (firstn k l) -> In x l.
Proof. intros A l k x H. rewrite <- (firstn_skipn k l). apply in_or_app. left. exact H. Qed.

Lemma shard_size_uniform : forall len (shards : list vec),
  (forall s, In s shards -> s = [] \/ length s = len) ->
  (exists s, In s shards /\ s <> []) -> shard_size shards = len.
Proof.
  induction shards as [|x shards IH]; intros H [s [Hs Hn]]; [contradiction|].
  simpl. destruct x as [|a x].
  - apply IH.
    + intros s' Hs'. apply H. right. exact Hs'.
    + destruct Hs as [<- | Hs]; [contradiction|]. exists s. split; assumption.
  - destruct (H (a :: x) (or_introl eq_refl)) as [E | E]; [discriminate | exact E].
Qed.

(* ---------- exactness of reconstruction ---------- *)
Section Exact.
Variables n m : nat.
Hypothesis Hc : In (n, m) rs_classes.
Let M := class_matrix n m.

(* how many of the n+m positions are erased by S *)
Definition erased_count (S : list nat) : nat := length (filter (memS S) (seq 0 (n + m))).

Theorem rs_reconstruct_gen_exact : forall len d S data_only,
  wf_data n len d -> erased_count S <= m ->
  rs_reconstruct_gen n (n + m) M (erase S (encode_shards n m d)) data_only
  = inr (d ++ (if data_only then skipn n (erase S (encode_shards n m d))
               else skipn n (encode_shards n m d))).
Proof.
  intros len d S data_only Hwf Hcount.
  pose proof Hwf as [Hdl [Hlen Hwr]].
  set (E := encode_shards n m d).
  assert (HEl : length E = n + m) by (apply encode_length; assumption).
  remember (erase S E) as sh eqn:Hsh.
  assert (Hshl : length sh = n + m) by (rewrite Hsh, erase_length; exact HEl).
  assert (Hnth : forall i, i < n + m -> nth i sh [] = if memS S i then [] else nth i E []).
  { intros i Hi. rewrite Hsh. apply erase_nth. rewrite HEl. exact Hi. }
  assert (HlenE : forall i, i < n + m -> length (nth i E []) = len).
  { intros i Hi. apply (encode_nth_len n m Hc len d i Hwf Hi). }
  assert (Hmiss : forall i, i < length sh -> is_missing (nth i sh []) = memS S i).
  { intros i Hi. rewrite Hshl in Hi. rewrite (Hnth i Hi). destruct (memS S i); [reflexivity|].
    specialize (HlenE i Hi). destruct (nth i E []); simpl in *; [lia | reflexivity]. }
  pose proof (present_indices_char sh (memS S) Hmiss) as HP. rewrite Hshl in HP.
  set (P := filter (fun i => negb (memS S i)) (seq 0 (n + m))) in *.
  assert (HPlen : length P + erased_count S = n + m).
  { unfold P, erased_count. pose proof (filter_partition_length _ (memS S) (seq 0 (n + m))) as F.
    rewrite seq_length in F. lia. }
  assert (HPge : n <= length P) by lia.
  pose proof (n_pos n m Hc) as Hnpos.
  unfold rs_reconstruct_gen.
  rewrite Hshl, Nat.eqb_refl. simpl negb. cbv iota.
  (* check_shards *)
  assert (Hcs : check_shards sh true = None).
  { unfold check_shards.
    assert (Hss : shard_size sh = len).
    { apply shard_size_uniform.
      - intros s Hs. apply (In_nth _ _ []) in Hs. destruct Hs as [i [Hi0 <-]].
        assert (Hi : i < n + m) by (rewrite <- Hshl; exact Hi0).
        rewrite (Hnth i Hi). destruct (memS S i); [left; reflexivity | right; apply HlenE; exact Hi].
      - (* some present shard: the first element of P *)
        destruct P as [|p P'] eqn:EP; [simpl in HPge; lia|].
        assert (Hp : In p P) by (rewrite EP; left; reflexivity).
        unfold P in Hp. apply filter_In in Hp. destruct Hp as [Hp1 Hp2]. apply in_seq in Hp1.
        exists (nth p sh []). split.
        + apply nth_In. rewrite Hshl. lia.
        + rewrite (Hnth p ltac:(lia)). apply negb_true_iff in Hp2. rewrite Hp2.
          specialize (HlenE p ltac:(lia)). destruct (nth p E []); simpl in *; [lia | discriminate]. }
    rewrite Hss. destruct (Nat.eqb len 0) eqn:E0; [apply Nat.eqb_eq in E0; lia|].
    assert (Hall : forallb (fun s => Nat.eqb (length s) len || (is_missing s && true)) sh = true).
    { apply forallb_forall. intros s Hs. apply (In_nth _ _ []) in Hs. destruct Hs as [i [Hi0 <-]].
      assert (Hi : i < n + m) by (rewrite <- Hshl; exact Hi0). rewrite (Hnth i Hi).
      destruct (memS S i); [simpl; apply orb_true_r|].
      rewrite (HlenE i Hi), Nat.eqb_refl. reflexivity. }
    rewrite Hall. reflexivity. }
  rewrite Hcs. rewrite HP.
  destruct (Nat.eqb (length P) (n + m)) eqn:Eall.
  - (* nothing erased *)
    apply Nat.eqb_eq in Eall.
    assert (Hsame : sh = E).
    { apply (nth_ext _ _ [] []); [lia|]. intros i Hi. rewrite Hshl in Hi. rewrite (Hnth i Hi).
      assert (Hf : negb (memS S i) = true).
      { apply (filter_all _ (fun i => negb (memS S i)) (seq 0 (n + m))).
        - fold P. rewrite seq_length. exact Eall.
        - apply in_seq. lia. }
      apply negb_true_iff in Hf. rewrite Hf. reflexivity. }
    rewrite Hsame. f_equal.
    assert (HE : E = d ++ skipn n E).
    { unfold E at 1. unfold encode_shards. f_equal. unfold E, encode_shards.
      rewrite skipn_app, Hdl, Nat.sub_diag. rewrite skipn_all2 by lia. reflexivity. }
    destruct data_only; exact HE.
  - destruct (Nat.ltb (length P) n) eqn:Elt; [apply Nat.ltb_lt in Elt; lia|].
    set (valid := firstn n P).
    assert (Hvin : In valid (subseqs n (seq 0 (n + m)))).
    { unfold valid, P. apply firstn_filter_in_subseqs. exact HPge. }
    destruct (rs_mds_subseqs n m Hc valid Hvin) as [B [HB [HBI HBl]]].
    change (map (fun i => nth i M []) valid) with (rows_of M valid). unfold M. rewrite HB.
    (* the sub-shards are the chosen rows applied to the data *)
    assert (Hvalid : forall i, In i valid -> i < n + m /\ memS S i = false).
    { intros i Hi. apply firstn_in in Hi. unfold P in Hi. apply filter_In in Hi.
      destruct Hi as [Hi1 Hi2]. apply in_seq in Hi1. apply negb_true_iff in Hi2. split; [lia | exact Hi2]. }
    assert (Hsub : map (fun i => nth i sh []) valid = mmul (rows_of (class_matrix n m) valid) d).
    { unfold mmul, rows_of. rewrite map_map. apply map_ext_in. intros i Hi.
      destruct (Hvalid i Hi) as [Hi1 Hi2]. rewrite (Hnth i Hi1), Hi2.
      apply (encode_nth n m Hc len d i Hwf Hi1). }
    rewrite Hsub.
    assert (Hrows : all_len n (rows_of (class_matrix n m) valid)).
    { unfold all_len, rows_of. apply Forall_forall. intros r Hr. apply in_map_iff in Hr.
      destruct Hr as [i [<- Hi]]. destruct (Hvalid i Hi) as [Hi1 _].
      pose proof (M_rows n m Hc) as R. unfold all_len in R. rewrite Forall_forall in R. apply R.
      apply nth_In. rewrite (M_length n m Hc). exact Hi1. }
    (* the data part *)
    assert (Hdata : mapi (fun i s => if is_missing s
                                     then lincomb (nth i B []) (mmul (rows_of (class_matrix n m) valid) d)
                                     else s) (firstn n sh) = d).
    { apply (nth_ext _ _ [] []).
      - rewrite mapi_length, firstn_length, Hshl. lia.
      - intros i Hi. rewrite mapi_length, firstn_length, Hshl in Hi.
        assert (Hin : i < n) by lia.
        rewrite (nth_mapi _ _ _ (firstn n sh) i [] []) by (rewrite firstn_length, Hshl; lia).
        rewrite nth_firstn_lt by exact Hin.
        rewrite (Hnth i ltac:(lia)).
        destruct (memS S i).
        + simpl. rewrite (lincomb_mmul n _ _ _ Hrows).
          rewrite <- nth_mmul by (rewrite HBl; exact Hin).
          rewrite HBI. rewrite <- Hdl. apply (lincomb_unit len). exact Hwr. rewrite Hdl. exact Hin.
        + unfold E. rewrite encode_nth_data by (rewrite Hdl; exact Hin).
          assert (Hl' : length (nth i d []) = len).
          { unfold wf_rows in Hwr. rewrite Forall_forall in Hwr.
            apply Hwr. apply nth_In. rewrite Hdl. exact Hin. }
          destruct (nth i d []); simpl in *; [lia | reflexivity]. }
    rewrite Hdata.
    destruct data_only; [reflexivity|].
    f_equal. f_equal.
    apply (nth_ext _ _ [] []).
    + rewrite mapi_length, !skipn_length. lia.
    + intros k Hk. rewrite mapi_length, skipn_length, Hshl in Hk.
      rewrite (nth_mapi _ _ _ (skipn n sh) k [] []) by (rewrite skipn_length, Hshl; lia).
      rewrite !nth_skipn. rewrite (Hnth (n + k) ltac:(lia)).
      destruct (memS S (n + k)).
      * simpl. symmetry. apply (encode_nth n m Hc len d (n + k) Hwf). lia.
      * specialize (HlenE (n + k) ltac:(lia)). fold E. destruct (nth (n + k) E []); simpl in *; [lia | reflexivity].
Qed.

End Exact.

(* fewer than n shards present: the library refuses *)
Theorem rs_too_few_lemma : forall n total M shards data_only,
  length shards = total ->
  length (present_indices shards) < n -> length (present_indices shards) <> total ->
  (exists e, rs_reconstruct_gen n total M shards data_only = inl e).
Proof.
  intros n total M shards data_only Hl Hlt Hne. unfold rs_reconstruct_gen.
  rewrite Hl, Nat.eqb_refl. simpl.
  destruct (check_shards shards true) as [e|]; [exists e; reflexivity|].
  destruct (Nat.eqb (length (present_indices shards)) total) eqn:E; [apply Nat.eqb_eq in E; contradiction|].
  apply Nat.ltb_lt in Hlt. rewrite Hlt. exists ErrTooFewShards. reflexivity.
Qed.
