(* Lib/LTS.v — the small kit used by every "all schedules" property:
   reachability of a labelled transition system, invariants and the induction principle,
   message soups as monotone sets (loss, duplication, reordering and delay are all
   "deliver any message ever sent, any number of times, or never"), and a refinement combinator. *)
From Coq Require Import List.
Import ListNotations.

Section LTS.
  Variables (S E : Type).
  Variable init : S -> Prop.
  Variable step : S -> E -> S -> Prop.

  Inductive reachable : S -> Prop :=
  | reach_init : forall s, init s -> reachable s
  | reach_step : forall s e s', reachable s -> step s e s' -> reachable s'.

  Definition invariant (P : S -> Prop) : Prop := forall s, reachable s -> P s.

  Lemma inv_ind (P : S -> Prop) :
    (forall s, init s -> P s) ->
    (forall s e s', reachable s -> P s -> step s e s' -> P s') ->
    invariant P.
  Proof. intros Hi Hs s Hr. induction Hr; eauto. Qed.

  Lemma inv_and (P Q : S -> Prop) : invariant P -> invariant Q -> invariant (fun s => P s /\ Q s).
  Proof. intros HP HQ s Hr. split; auto. Qed.

  (* an invariant may use previously established invariants in its preservation step *)
  Lemma inv_ind_using (Q P : S -> Prop) :
    invariant Q ->
    (forall s, init s -> P s) ->
    (forall s e s', Q s -> Q s' -> P s -> step s e s' -> P s') ->
    invariant P.
  Proof.
    intros HQ Hi Hs. apply inv_ind; auto.
    intros s e s' Hr HP Hst.
    apply (Hs s e s'); auto.
    apply HQ. eapply reach_step; eauto.
  Qed.

  (* runs as event lists *)
  Inductive run : S -> list E -> S -> Prop :=
  | run_nil : forall s, run s [] s
  | run_cons : forall s e s1 es s2, step s e s1 -> run s1 es s2 -> run s (e :: es) s2.

  Lemma run_reachable : forall s es s', reachable s -> run s es s' -> reachable s'.
  Proof.
    intros s es s' Hr Hrun. induction Hrun.
    - exact Hr.
    - apply IHHrun. eapply reach_step; eauto.
  Qed.
End LTS.

(* message soups: a soup only grows; delivering does not consume *)
Definition soup (M : Type) := list M.
Definition soup_add {M} (new : list M) (s : soup M) : soup M := s ++ new.
Lemma soup_mono {M} (new : list M) (s : soup M) m : In m s -> In m (soup_add new s).
Proof. intro H. unfold soup_add. apply in_or_app. auto. Qed.

(* refinement: every step of the concrete system is matched by zero or one step of the abstract one *)
Section Refines.
  Variables (SC EC SA EA : Type).
  Variables (initC : SC -> Prop) (stepC : SC -> EC -> SC -> Prop).
  Variables (initA : SA -> Prop) (stepA : SA -> EA -> SA -> Prop).
  Variable rel : SC -> SA -> Prop.

  Definition refines : Prop :=
    (forall c, initC c -> exists a, initA a /\ rel c a) /\
    (forall c e c' a, rel c a -> stepC c e c' -> rel c' a \/ exists e' a', stepA a e' a' /\ rel c' a').

  Lemma refines_reachable :
    refines -> forall c, reachable SC EC initC stepC c -> exists a, reachable SA EA initA stepA a /\ rel c a.
  Proof.
    intros [Hi Hs] c Hr. induction Hr as [c Hc | c e c' Hr IH Hst].
    - destruct (Hi _ Hc) as [a [Ha Hrel]]. exists a. split; [apply reach_init; exact Ha | exact Hrel].
    - destruct IH as [a [Ha Hrel]]. destruct (Hs _ _ _ _ Hrel Hst) as [Hstay | [e' [a' [Hst' Hrel']]]].
      + exists a. split; [exact Ha | exact Hstay].
      + exists a'. split; [eapply reach_step; [exact Ha | exact Hst'] | exact Hrel'].
  Qed.
End Refines.
