(* Lib/RSMds.v — the exhaustive MDS computation, in its own file so that it is compiled once:
   for every configured class (6+3, 8+3, 10+3, 12+5) every n-subset of the n+m rows of the klauspost coding
   matrix is inverted by the model's Gauss-Jordan elimination and the product with the inverse is checked to
   be the identity: 84 + 165 + 286 + 6188 eliminations, by vm_compute. *)
From Coq Require Import NArith List Bool Arith.
From BLB Require Import Lib.GF256 Lib.RS.
Import ListNotations.
Open Scope nat_scope.

Definition rows_of (M : matrix) (V : list nat) : matrix := map (fun i => nth i M []) V.

Definition mds_check (n m : nat) : bool :=
  let M := class_matrix n m in
  Nat.eqb (length M) (n + m) && forallb (fun r => Nat.eqb (length r) n) M &&
  mat_eqb (firstn n M) (identity n) && Nat.ltb 0 n &&
  forallb (fun V => match invert (rows_of M V) with
                    | Some B => mat_eqb (mmul B (rows_of M V)) (identity n) && Nat.eqb (length B) n
                    | None => false
                    end) (subseqs n (seq 0 (n + m))).

(* 84 + 165 + 286 + 6188 inversions *)
Lemma mds_all : forallb (fun p => mds_check (fst p) (snd p)) rs_classes = true.
Proof. vm_compute. reflexivity. Qed.

