(* C18/Model.v — executable small-step model of the tractserver Store's per-tract locking and
   resource handling.  Transcribes internal/tractserver/store_internal.go (tryLockTractOnce, unlock,
   errTract, openExistingTract*, closeErrTract, lookup*, removeTract) and store.go (Create/doCreate,
   Write/doWrite, Read, Stat, SetVersion, PullTract/pullTractOnce, maybeGCTract, GCTracts "gone" path)
   and check_tracts_loop.go (Check), plus manager.go's openFiles counter.
   One step per Disk call or map access; an error oracle may fail ANY Disk call.
   A [variant] selects, branch by branch, the repaired code (= the current tree since the fix commits
   debdde2, d92e32e, daaaf4c) or the code before those fixes.
   Definitions only; proofs live in Proofs.v. *)
From Coq Require Import List ZArith Bool.
From BLB Require Import Gen.Consts.
Import ListNotations.
Open Scope Z_scope.

(* ---------- which tree ---------- *)
Record variant := { fixF3 : bool; fixF22 : bool; fixF4 : bool }.
Definition repaired : variant := {| fixF3 := true; fixF22 := true; fixF4 := true |}.
(* the code before the fix commits debdde2 (F3), d92e32e (F4), daaaf4c (F22); kept for the REFUTED statements
   and so that a regression is recognised as exactly that defect *)
Definition unrepaired : variant := {| fixF3 := false; fixF22 := false; fixF4 := false |}.
(* /repo as it is now *)
Definition current_tree : variant := repaired.

(* ---------- association lists keyed by Z ---------- *)
Fixpoint get {A} (k : Z) (l : list (Z * A)) : option A :=
  match l with [] => None | (k', v) :: r => if k =? k' then Some v else get k r end.
Fixpoint del {A} (k : Z) (l : list (Z * A)) : list (Z * A) :=
  match l with [] => [] | (k', v) :: r => if k =? k' then del k r else (k', v) :: del k r end.
Definition set {A} (k : Z) (v : A) (l : list (Z * A)) : list (Z * A) := (k, v) :: del k l.

(* ---------- the busy map: store_internal.go ---------- *)
Inductive mode := MW | MLW | MR.     (* WRITE, LONG_WRITE, READ *)

(* the value the code compares the state with to recognise a long writer:
   `state != LONG_WRITE` compares with the MODE constant (1), not with the long-writer STATE (-2) *)
Definition long_marker (V : variant) : Z := if fixF22 V then -2 else c18_LONG_WRITE.

Definition mode_state (m : mode) : Z := match m with MW => -1 | MLW => -2 | MR => 1 end.

(* tryLockTractOnce: (busy', locked, shouldWait) *)
Definition try_lock_once (V : variant) (busy : list (Z * Z)) (id : Z) (m : mode) : list (Z * Z) * bool * bool :=
  match get id busy with
  | None => (set id (mode_state m) busy, true, false)
  | Some st =>
      match m with
      | MR => if 0 <? st then (set id (st + 1) busy, true, false)
              else (busy, false, negb (st =? long_marker V))
      | _ => (busy, false, negb (st =? long_marker V))
      end
  end.

(* unlock: None = one of the log.Fatalf branches *)
Definition unlock (busy : list (Z * Z)) (id : Z) (m : mode) : option (list (Z * Z)) :=
  match get id busy with
  | None => None
  | Some st =>
      match m with
      | MW => if st =? -1 then Some (del id busy) else None
      | MLW => if st =? -2 then Some (del id busy) else None
      | MR => if st <? 1 then None else if st =? 1 then Some (del id busy) else Some (set id (st - 1) busy)
      end
  end.

(* ---------- disk (MemDisk behind the harness' per-open handles) and store maps ---------- *)
Record file := { f_fd : Z; f_ver : option Z; f_data : list Z }.

Record gst := {
  g_busy : list (Z * Z);       (* Store.busy *)
  g_tracts : list (Z * Z);     (* Store.tracts: id -> modification stamp relative to initialStamp *)
  g_files : list (Z * file);   (* disk contents by tract id *)
  g_gens : list (Z * Z);     (* per tract: the fd the next created file of that tract gets (MemDisk's nextFD only serves to tell
                                 a re-created file from its deleted predecessor, which is a per-tract matter) *)
  g_opens : Z;                 (* successful Opens *)
  g_closes : Z                 (* Close calls on opened handles *)
}.

Definition next_fd (g : gst) (id : Z) : Z := match get id (g_gens g) with Some n => n | None => 1 end.
Definition with_busy g b := {| g_busy := b; g_tracts := g_tracts g; g_files := g_files g; g_gens := g_gens g; g_opens := g_opens g; g_closes := g_closes g |}.
Definition with_tracts g t := {| g_busy := g_busy g; g_tracts := t; g_files := g_files g; g_gens := g_gens g; g_opens := g_opens g; g_closes := g_closes g |}.
Definition with_files g f := {| g_busy := g_busy g; g_tracts := g_tracts g; g_files := f; g_gens := g_gens g; g_opens := g_opens g; g_closes := g_closes g |}.
Definition opened_one g := {| g_busy := g_busy g; g_tracts := g_tracts g; g_files := g_files g; g_gens := g_gens g; g_opens := g_opens g + 1; g_closes := g_closes g |}.
Definition closed_one g := {| g_busy := g_busy g; g_tracts := g_tracts g; g_files := g_files g; g_gens := g_gens g; g_opens := g_opens g; g_closes := g_closes g + 1 |}.
Definition created_file g id := {| g_busy := g_busy g; g_tracts := g_tracts g;
  g_files := set id {| f_fd := next_fd g id; f_ver := None; f_data := [] |} (g_files g);
  g_gens := set id (next_fd g id + 1) (g_gens g); g_opens := g_opens g + 1; g_closes := g_closes g |}.

Definition g0 : gst := {| g_busy := []; g_tracts := []; g_files := []; g_gens := []; g_opens := 0; g_closes := 0 |}.

(* ---------- operations ---------- *)
Inductive kind := KCreate | KWrite | KRead | KStat | KSetVersion | KPull | KGCOld | KGCGone | KCheck | KPack | KScrub
  | KGoneOld.   (* the gone path of GCTracts BEFORE fix ab74e69 (no tract lock); kept for the REFUTED regression witnesses only *)

(* o_pack (PackTracts): per source tract (offset, expected length, replies of its From hosts in order (err, data)) *)
Record opd := { o_kind : kind; o_tract : Z; o_a1 : Z; o_a2 : Z; o_a3 : Z; o_data : list Z; o_srcs : list (Z * list Z);
                o_pack : list (Z * Z * list (Z * list Z)) }.

Definition lock_mode (k : kind) : mode :=
  match k with
  | KCreate | KWrite | KSetVersion | KGCOld | KGCGone => MW
  | KPull | KPack => MLW
  | KRead | KStat | KCheck | KScrub | KGoneOld => MR   (* the old gone path took no lock at all; value unused *)
  end.

Definition is_reader (k : kind) : bool := match k with KRead | KStat | KCheck | KScrub => true | _ => false end.

Inductive pc :=
| PStart | PLock
| PLookup | POpen | PCond | PGetver | PSetver | PWrite | PRead | PSize | PClose
| PRmLookup | PRmDelete | PRmMapdel
| PCtlRead | PCLookup | PCOpen | PCSetver | PCWrite | PCClose | PCFinish | PCDelete
| PPullLoop | PPullEval
| PPackLoop | PPackRead | PPackWrite | PPackPad | PPackPadWrite
| PScrub
| PUnlock | PDone | PCrash.

(* the errTract and the other locals of an operation *)
Record loc := {
  l_opened : bool; l_fd : Z; l_err : Z; l_v : Z; l_stamp : Z; l_buf : list Z; l_size : Z;
  l_src : nat; l_from : nat; l_ret : Z; l_k : Z; l_res : list Z
}.
Definition loc0 : loc := {| l_opened := false; l_fd := 0; l_err := 0; l_v := 0; l_stamp := -1; l_buf := []; l_size := 0;
                            l_src := O; l_from := O; l_ret := 0; l_k := 0; l_res := [] |}.

Definition set_err l e := {| l_opened := l_opened l; l_fd := l_fd l; l_err := e; l_v := l_v l; l_stamp := l_stamp l; l_buf := l_buf l; l_size := l_size l; l_src := l_src l; l_from := l_from l; l_ret := l_ret l; l_k := l_k l; l_res := l_res l |}.
Definition set_v l v := {| l_opened := l_opened l; l_fd := l_fd l; l_err := l_err l; l_v := v; l_stamp := l_stamp l; l_buf := l_buf l; l_size := l_size l; l_src := l_src l; l_from := l_from l; l_ret := l_ret l; l_k := l_k l; l_res := l_res l |}.
Definition set_buf l b := {| l_opened := l_opened l; l_fd := l_fd l; l_err := l_err l; l_v := l_v l; l_stamp := l_stamp l; l_buf := b; l_size := l_size l; l_src := l_src l; l_from := l_from l; l_ret := l_ret l; l_k := l_k l; l_res := l_res l |}.
Definition set_size l n := {| l_opened := l_opened l; l_fd := l_fd l; l_err := l_err l; l_v := l_v l; l_stamp := l_stamp l; l_buf := l_buf l; l_size := n; l_src := l_src l; l_from := l_from l; l_ret := l_ret l; l_k := l_k l; l_res := l_res l |}.
Definition set_src l n := {| l_opened := l_opened l; l_fd := l_fd l; l_err := l_err l; l_v := l_v l; l_stamp := l_stamp l; l_buf := l_buf l; l_size := l_size l; l_src := n; l_from := O; l_ret := l_ret l; l_k := l_k l; l_res := l_res l |}.
Definition set_ret l r := {| l_opened := l_opened l; l_fd := l_fd l; l_err := l_err l; l_v := l_v l; l_stamp := l_stamp l; l_buf := l_buf l; l_size := l_size l; l_src := l_src l; l_from := l_from l; l_ret := r; l_k := l_k l; l_res := l_res l |}.
Definition set_from l n := {| l_opened := l_opened l; l_fd := l_fd l; l_err := l_err l; l_v := l_v l; l_stamp := l_stamp l; l_buf := l_buf l; l_size := l_size l; l_src := l_src l; l_from := n; l_ret := l_ret l; l_k := l_k l; l_res := l_res l |}.
Definition set_k l k := {| l_opened := l_opened l; l_fd := l_fd l; l_err := l_err l; l_v := l_v l; l_stamp := l_stamp l; l_buf := l_buf l; l_size := l_size l; l_src := l_src l; l_from := l_from l; l_ret := l_ret l; l_k := k; l_res := l_res l |}.
Definition set_res l r := {| l_opened := l_opened l; l_fd := l_fd l; l_err := l_err l; l_v := l_v l; l_stamp := l_stamp l; l_buf := l_buf l; l_size := l_size l; l_src := l_src l; l_from := l_from l; l_ret := l_ret l; l_k := l_k l; l_res := r |}.
(* a fresh errTract: not opened, given error, given stamp *)
Definition fresh_t l e st := {| l_opened := false; l_fd := 0; l_err := e; l_v := 0; l_stamp := st; l_buf := l_buf l; l_size := 0; l_src := l_src l; l_from := l_from l; l_ret := l_ret l; l_k := 0; l_res := l_res l |}.
Definition set_open l fd := {| l_opened := true; l_fd := fd; l_err := l_err l; l_v := l_v l; l_stamp := l_stamp l; l_buf := l_buf l; l_size := l_size l; l_src := l_src l; l_from := l_from l; l_ret := l_ret l; l_k := l_k l; l_res := l_res l |}.
Definition set_closed l := {| l_opened := false; l_fd := l_fd l; l_err := l_err l; l_v := l_v l; l_stamp := l_stamp l; l_buf := l_buf l; l_size := l_size l; l_src := l_src l; l_from := l_from l; l_ret := l_ret l; l_k := l_k l; l_res := l_res l |}.

Definition noerr (l : loc) : bool := l_err l =? c18_e_NoError.

(* is the handle of [l] still backed by the file of tract [id]? (a Delete makes handles stale) *)
Definition handle_file (g : gst) (id : Z) (l : loc) : option file :=
  match get id (g_files g) with
  | Some f => if f_fd f =? l_fd l then Some f else None
  | None => None
  end.

Fixpoint zeros (n : nat) : list Z := match n with O => [] | S n' => 0 :: zeros n' end.

(* MemDisk.Write: grow with zeros to off+len(b), then copy b at off *)
Definition write_at (d : list Z) (off : Z) (b : list Z) : list Z :=
  let o := Z.to_nat off in
  let newsize := (o + length b)%nat in
  let d' := if Nat.ltb (length d) newsize then d ++ zeros (newsize - length d) else d in
  firstn o d' ++ b ++ skipn (o + length b) d'.

(* MemDisk.Read: copy(b, file[off:]) with len(b) = len *)
Definition read_at (d : list Z) (off len : Z) : list Z := firstn (Z.to_nat len) (skipn (Z.to_nat off) d).

(* tract ids >= 100 stand for RS chunk tracts (id.Blob.Partition().Type() == RSPartition) *)
Definition is_rs (id : Z) : bool := 100 <=? id.
Definition initial_version (o : opd) : Z := if is_rs (o_tract o) then c18_RSChunkVersion else 1.
Definition w_version (o : opd) : Z := match o_kind o with KCreate => initial_version o | _ => o_a1 o end.
Definition w_off (o : opd) : Z := match o_kind o with KCreate => o_a1 o | _ => o_a2 o end.
Definition c_version (o : opd) : Z := match o_kind o with KCreate => initial_version o | KPack => c18_RSChunkVersion | _ => o_a1 o end.

(* Disk call kinds of the wire *)
Definition CK_Open := 1. Definition CK_Close := 2. Definition CK_Write := 3. Definition CK_Read := 4.
Definition CK_Size := 5. Definition CK_Delete := 6. Definition CK_Getx := 7. Definition CK_Setx := 8. Definition CK_CtlRead := 9. Definition CK_Scrub := 10.

(* the Disk call the operation is about to make (0: the next step is silent) *)
Definition pending_call (p : pc) (l : loc) : Z :=
  match p with
  | POpen | PCOpen => CK_Open
  | PGetver => if noerr l then CK_Getx else 0
  | PSetver | PCSetver => if noerr l then CK_Setx else 0
  | PWrite | PCWrite => if noerr l then CK_Write else 0
  | PRead => if noerr l then CK_Read else 0
  | PSize => if noerr l then CK_Size else 0
  | PClose | PCClose => if l_opened l then CK_Close else 0
  | PRmDelete | PCDelete => CK_Delete
  | PCtlRead | PPackRead => CK_CtlRead
  | PPackWrite | PPackPadWrite => if noerr l then CK_Write else 0
  | PScrub => CK_Scrub
  | _ => 0
  end.

(* result of an operation that could not lock its tract *)
Definition busy_result (k : kind) : list Z :=
  match k with
  | KRead => [c18_e_TooBusy; 0]
  | KStat => [c18_e_TooBusy; 0; -1]
  | KSetVersion => [c18_e_TooBusy; 0]
  | KCheck => [0]
  | KGoneOld | KGCGone => []     (* GCTracts returns nothing; a busy tract is skipped *)
  | KScrub => [-1]
  | _ => [c18_e_TooBusy]
  end.

(* closeErrTract's effect on the errTract *)
Definition do_close (g : gst) (id : Z) (l : loc) (inj : Z) : gst * loc :=
  if l_opened l then
    let cerr := if negb (inj =? 0) then inj
                else match handle_file g id l with Some _ => c18_e_NoError | None => c18_e_InvalidArgument end in
    let l1 := set_closed l in
    (closed_one g, if negb (cerr =? c18_e_NoError) && noerr l then set_err l1 cerr else l1)
  else (g, l).

(* continuation after removeTract returned [e] *)
Definition rm_cont (o : opd) (g : gst) (l : loc) (e : Z) : gst * pc * loc :=
  match o_kind o with
  | KGoneOld => (g, PDone, set_res l [])
  | KGCGone => (g, PUnlock, set_res l [])
  | KGCOld => (g, PUnlock, set_res l [e])
  | KPack => if negb (e =? c18_e_NoError) then (g, PUnlock, set_res l [e]) else (g, PCOpen, l)
  | _ => if l_k l =? 3 then (g, PPullEval, l)
         else if negb (e =? c18_e_NoError) then (g, PPullEval, set_ret l e)
         else (g, PCtlRead, l)
  end.

(* continuation after doCreate returned [l_err l] *)
Definition create_cont (o : opd) (g : gst) (l : loc) : gst * pc * loc :=
  let r := l_err l in
  match o_kind o with
  | KCreate => if r =? c18_e_AlreadyExists then (g, PLookup, l) else (g, PUnlock, set_res l [r])
  | KPack => (g, PUnlock, set_res l [r])
  | _ => if negb (r =? c18_e_NoError) then (g, PRmLookup, set_k (set_ret l r) 3) else (g, PPullEval, set_ret l r)
  end.

(* checkTractSpec: sources in order, not overlapping, each with at least one host, inside the total length *)
Fixpoint check_spec_from (srcs : list (Z * Z * list (Z * list Z))) (e : Z) (length_ : Z) : bool :=
  match srcs with
  | [] => negb (length_ <? e)
  | (off, len, froms) :: r =>
      match froms with
      | [] => false
      | _ => if off <? e then false else check_spec_from r (off + len) length_
      end
  end.
Definition check_spec (srcs : list (Z * Z * list (Z * list Z))) (length_ : Z) : bool := check_spec_from srcs 0 length_.
(* Offset+Length of the last source, -1 without sources *)
Definition pack_lastpos (srcs : list (Z * Z * list (Z * list Z))) : Z :=
  match rev srcs with (off, len, _) :: _ => off + len | [] => -1 end.

(* program points that mutate the disk or the tract map; never reached by Read/Stat/Check *)
Definition wr_pc (p : pc) : bool :=
  match p with
  | PSetver | PWrite | PCOpen | PCSetver | PCWrite | PCFinish | PCDelete | PRmDelete | PRmMapdel
  | PPackWrite | PPackPadWrite => true
  | _ => false
  end.

(* One small step of one operation.  [inj] is the error oracle's answer for the Disk call made by this step
   (0: the call behaves normally; ignored by silent steps and by CtlRead whose reply is part of the op).
   None: the operation cannot move (blocked in tryLockTract, or finished). *)
Definition step (V : variant) (g : gst) (o : opd) (p : pc) (l : loc) (inj : Z) : option (gst * pc * loc) :=
  let id := o_tract o in
  let k := o_kind o in
  if is_reader k && wr_pc p then Some (g, PClose, l) else     (* unreachable: readers have no mutating steps *)
  match p with
  | PStart =>
      match k with
      | KSetVersion => if o_a1 o <=? 1 then Some (g, PDone, set_res l [c18_e_BadVersion; 0]) else Some (g, PLock, l)
      | KGoneOld => Some (g, PRmLookup, l)
      | KPack => if check_spec (o_pack o) (o_a1 o) then Some (g, PLock, l) else Some (g, PDone, set_res l [c18_e_InvalidArgument])
      | _ => Some (g, PLock, l)
      end
  | PLock =>
      match k with KGoneOld => Some (g, PRmLookup, l) | _ =>    (* GCGone never locks (unreachable) *)
      match try_lock_once V (g_busy g) id (lock_mode k) with
      | (b, true, _) =>
          Some (with_busy g b,
                match k with KCreate => PCLookup | KPull => PPullLoop | KPack | KGCGone => PRmLookup | KScrub => PScrub | _ => PLookup end, l)
      | (_, false, true) => None
      | (_, false, false) => Some (g, PDone, set_res l (busy_result k))
      end end
  | PLookup =>
      match get id (g_tracts g) with
      | None =>
          match k with
          | KPull => Some (g, PCtlRead, l)
          | KSetVersion => Some (g, PCond, fresh_t l c18_e_NoSuchTract (-1))
          | _ => Some (g, PGetver, fresh_t l c18_e_NoSuchTract (-1))
          end
      | Some st =>
          match k with
          | KWrite | KCreate => Some (with_tracts g (set id (st + 1) (g_tracts g)), POpen, fresh_t l c18_e_NoError st)
          | _ => Some (g, POpen, fresh_t l c18_e_NoError st)
          end
      end
  | POpen =>
      let nxt := match k with KSetVersion => PCond | _ => PGetver end in
      if negb (inj =? 0) then Some (g, nxt, set_err l inj)
      else match get id (g_files g) with
           | Some f => Some (opened_one g, nxt, set_open l (f_fd f))
           | None => Some (g, nxt, set_err l c18_e_NoSuchTract)
           end
  | PCond =>
      if negb (o_a2 o =? 0) && negb (o_a2 o - 1 =? l_stamp l) then
        if fixF3 V then Some (g, PClose, set_k l 1)
        else Some (g, PUnlock, set_res l [c18_e_StampChanged; 0])      (* F3: returns without closeErrTract *)
      else Some (g, PGetver, l)
  | PGetver =>
      let l1 :=
        if noerr l then
          if negb (inj =? 0) then set_err l inj
          else match handle_file g id l with
               | None => set_err l c18_e_InvalidArgument
               | Some f => match f_ver f with
                           | None => set_err l c18_e_NoSuchTract
                           | Some v => set_v l v
                           end
               end
        else l in
      match k with
      | KRead | KStat | KWrite | KCreate =>
          let l2 := if noerr l1 && negb (w_version o =? l_v l1) then set_err l1 c18_e_VersionMismatch else l1 in
          Some (g, match k with KRead => PRead | KStat => PSize | _ => PWrite end, l2)
      | KSetVersion =>
          if negb (noerr l1) then Some (g, PClose, l1)
          else if o_a1 o <=? l_v l1 then Some (g, PClose, l1)
          else if negb (l_v l1 + 1 =? o_a1 o) then Some (g, PClose, set_err l1 c18_e_VersionMismatch)
          else Some (g, PSetver, l1)
      | _ => Some (g, PClose, l1)
      end
  | PSetver =>
      if noerr l then
        if negb (inj =? 0) then Some (g, PClose, set_err l inj)
        else match handle_file g id l with
             | None => Some (g, PClose, set_err l c18_e_InvalidArgument)
             | Some f => Some (with_files g (set id {| f_fd := f_fd f; f_ver := Some (o_a1 o); f_data := f_data f |} (g_files g)), PClose, l)
             end
      else Some (g, PClose, l)
  | PWrite =>
      if noerr l then
        if negb (inj =? 0) then Some (g, PClose, set_err l inj)
        else match handle_file g id l with
             | None => Some (g, PClose, set_err l c18_e_InvalidArgument)
             | Some f => Some (with_files g (set id {| f_fd := f_fd f; f_ver := f_ver f; f_data := write_at (f_data f) (w_off o) (o_data o) |} (g_files g)), PClose, l)
             end
      else Some (g, PClose, l)
  | PRead =>
      if noerr l then
        if negb (inj =? 0) then Some (g, PClose, if inj =? c18_e_EOF then set_buf l [] else set_err (set_buf l []) inj)
        else match handle_file g id l with
             | None => Some (g, PClose, set_err (set_buf l []) c18_e_InvalidArgument)
             | Some f => Some (g, PClose, set_buf l (read_at (f_data f) (o_a3 o) (o_a2 o)))
             end
      else Some (g, PClose, set_buf l [])
  | PSize =>
      if noerr l then
        if negb (inj =? 0) then Some (g, PClose, set_err l inj)
        else match handle_file g id l with
             | None => Some (g, PClose, set_err l c18_e_InvalidArgument)
             | Some f => Some (g, PClose, set_size l (Z.of_nat (length (f_data f))))
             end
      else Some (g, PClose, l)
  | PClose =>
      let '(g1, l1) := do_close g id l inj in
      let e := l_err l1 in
      match k with
      | KRead =>
          let b := l_buf l1 in
          let n := Z.of_nat (length b) in
          Some (g1, PUnlock, set_res l1 (if negb (e =? c18_e_NoError) then [e; 0]
                                         else if negb (n =? o_a2 o) then c18_e_EOF :: n :: b
                                         else c18_e_NoError :: n :: b))
      | KStat => Some (g1, PUnlock, set_res l1 [e; l_size l1; l_stamp l1])
      | KWrite | KCreate => Some (g1, PUnlock, set_res l1 [e])
      | KSetVersion =>
          if l_k l1 =? 1 then Some (g1, PUnlock, set_res l1 [c18_e_StampChanged; 0])
          else Some (g1, PUnlock, set_res l1 [e; o_a1 o])
      | KGCOld =>
          if negb (e =? c18_e_NoError) then Some (g1, PUnlock, set_res l1 [e])
          else if o_a1 o <? l_v l1 then Some (g1, PUnlock, set_res l1 [c18_e_HaveNewerVersion])
          else Some (g1, PRmLookup, l1)
      | KCheck => Some (g1, PUnlock, set_res l1 [if negb (e =? c18_e_NoError) || (l_v l1 <? o_a1 o) then 1 else 0])
      | KPull =>
          if (e =? c18_e_NoError) && (o_a1 o <? l_v l1) then Some (g1, PPullEval, set_ret l1 c18_e_InvalidState)
          else Some (g1, PRmLookup, set_k l1 2)
      | KGoneOld | KGCGone | KPack | KScrub => Some (g1, PUnlock, l1)
      end
  | PRmLookup =>
      match get id (g_tracts g) with
      | None => Some (rm_cont o g l c18_e_NoError)
      | Some _ => Some (g, PRmDelete, l)
      end
  | PRmDelete =>
      if negb (inj =? 0) then Some (rm_cont o g l inj)
      else match get id (g_files g) with
           | None => Some (rm_cont o g l c18_e_NoSuchTract)
           | Some _ => Some (with_files g (del id (g_files g)), PRmMapdel, l)
           end
  | PRmMapdel => Some (rm_cont o (with_tracts g (del id (g_tracts g))) l c18_e_NoError)
  | PCtlRead =>
      match nth_error (o_srcs o) (l_src l) with
      | None => Some (g, PPullEval, set_ret l c18_e_RPC)
      | Some (e, d) =>
          if negb (e =? c18_e_NoError) && negb (e =? c18_e_EOF) then Some (g, PPullEval, set_ret l e)
          else Some (g, PCLookup, set_buf l d)
      end
  | PCLookup =>
      match get id (g_tracts g) with
      | Some _ => Some (create_cont o g (fresh_t l c18_e_AlreadyExists (-1)))
      | None => Some (g, PCOpen, l)
      end
  | PCOpen =>
      let l0 := fresh_t l c18_e_NoError (-1) in
      if negb (inj =? 0) then Some (g, PCSetver, set_err l0 inj)
      else match get id (g_files g) with
           | Some _ => Some (g, PCSetver, set_err l0 c18_e_AlreadyExists)
           | None => Some (created_file g id, PCSetver, set_open l0 (next_fd g id))
           end
  | PCSetver =>
      let nxt := match k with KPack => PPackLoop | _ => PCWrite end in
      if noerr l then
        if negb (inj =? 0) then Some (g, nxt, set_err l inj)
        else match handle_file g id l with
             | None => Some (g, nxt, set_err l c18_e_InvalidArgument)
             | Some f => Some (with_files g (set id {| f_fd := f_fd f; f_ver := Some (c_version o); f_data := f_data f |} (g_files g)), nxt, l)
             end
      else Some (g, nxt, l)
  | PCWrite =>
      if noerr l then
        if negb (inj =? 0) then Some (g, PCClose, set_err l inj)
        else match handle_file g id l with
             | None => Some (g, PCClose, set_err l c18_e_InvalidArgument)
             | Some f =>
                 let '(off, b) := match k with KCreate => (o_a1 o, o_data o) | _ => (0, l_buf l) end in
                 Some (with_files g (set id {| f_fd := f_fd f; f_ver := f_ver f; f_data := write_at (f_data f) off b |} (g_files g)), PCClose, l)
             end
      else Some (g, PCClose, l)
  | PCClose => let '(g1, l1) := do_close g id l inj in Some (g1, PCFinish, l1)
  | PCFinish =>
      if noerr l then Some (create_cont o (with_tracts g (set id 0 (g_tracts g))) l)
      else Some (g, PCDelete, l)
  | PCDelete =>
      if negb (inj =? 0) then Some (create_cont o g l)
      else Some (create_cont o (with_files g (del id (g_files g))) l)
  (* PackTracts: the SourceLoop over srcs and their From hosts, the padding write *)
  | PPackLoop =>
      if negb (noerr l) then Some (g, PPackPad, l)
      else match nth_error (o_pack o) (l_src l) with
           | None => Some (g, PPackPad, l)
           | Some (_, _, froms) =>
               if Nat.ltb (l_from l) (length froms) then Some (g, PPackRead, l)
               else Some (g, PPackLoop, set_err (set_src l (S (l_src l))) c18_e_RPC)   (* no host delivered: t.err = ErrRPC *)
           end
  | PPackRead =>
      match nth_error (o_pack o) (l_src l) with
      | Some (_, len, froms) =>
          match nth_error froms (l_from l) with
          | Some (e, d) =>
              if ((e =? c18_e_NoError) || (e =? c18_e_EOF)) && (Z.of_nat (length d) =? len)
              then Some (g, PPackWrite, set_buf l d)
              else Some (g, PPackLoop, set_from l (S (l_from l)))
          | None => Some (g, PPackLoop, set_from l (S (l_from l)))
          end
      | None => Some (g, PPackPad, l)
      end
  | PPackWrite =>
      let l2 := set_src l (S (l_src l)) in
      if noerr l then
        if negb (inj =? 0) then Some (g, PPackLoop, set_err l2 inj)
        else match handle_file g id l with
             | None => Some (g, PPackLoop, set_err l2 c18_e_InvalidArgument)
             | Some f =>
                 let off := match nth_error (o_pack o) (l_src l) with Some (off, _, _) => off | None => 0 end in
                 Some (with_files g (set id {| f_fd := f_fd f; f_ver := f_ver f; f_data := write_at (f_data f) off (l_buf l) |} (g_files g)), PPackLoop, l2)
             end
      else Some (g, PPackLoop, l2)
  | PPackPad =>
      if negb (pack_lastpos (o_pack o) =? -1) && (pack_lastpos (o_pack o) <? o_a1 o) && noerr l
      then Some (g, PPackPadWrite, l) else Some (g, PCClose, l)
  | PPackPadWrite =>
      if noerr l then
        if negb (inj =? 0) then Some (g, PCClose, set_err l inj)
        else match handle_file g id l with
             | None => Some (g, PCClose, set_err l c18_e_InvalidArgument)
             | Some f =>
                 let lp := pack_lastpos (o_pack o) in
                 Some (with_files g (set id {| f_fd := f_fd f; f_ver := f_ver f; f_data := write_at (f_data f) lp (zeros (Z.to_nat (o_a1 o - lp))) |} (g_files g)), PCClose, l)
             end
      else Some (g, PCClose, l)
  (* one iteration of scrubDisk's inner loop: Scrub under the READ lock *)
  | PScrub =>
      if negb (inj =? 0) then Some (g, PUnlock, set_res l [inj; 0])
      else match get id (g_files g) with
           | Some f => Some (g, PUnlock, set_res l [c18_e_NoError; Z.of_nat (length (f_data f))])
           | None => Some (g, PUnlock, set_res l [c18_e_InvalidArgument; 0])
           end
  | PPullLoop =>
      if Nat.ltb (l_src l) (length (o_srcs o)) then Some (g, PLookup, l)
      else Some (g, PUnlock, set_res l [l_ret l])
  | PPullEval =>
      if l_ret l =? c18_e_NoError then Some (g, PUnlock, set_res l [c18_e_NoError])
      else Some (g, PPullLoop, set_src l (S (l_src l)))
  | PUnlock =>
      match k with KGoneOld => Some (g, PDone, l) | _ =>
      match unlock (g_busy g) id (lock_mode k) with
      | Some b => Some (with_busy g b, PDone, l)
      | None => Some (g, PCrash, l)
      end end
  | PDone | PCrash => None
  end.

(* ---------- the concurrent system ---------- *)
Record thread := { t_op : opd; t_pc : pc; t_loc : loc }.
Definition new_thread (o : opd) : thread := {| t_op := o; t_pc := PStart; t_loc := loc0 |}.

Fixpoint upd {A} (i : nat) (x : A) (l : list A) : list A :=
  match l, i with
  | [], _ => []
  | _ :: r, O => x :: r
  | y :: r, S i' => y :: upd i' x r
  end.

Definition sys := (gst * list thread)%type.

(* thread i makes one small step; the oracle answers [inj] *)
Definition sys_step (V : variant) (s : sys) (i : nat) (inj : Z) : option sys :=
  let '(g, ths) := s in
  match nth_error ths i with
  | None => None
  | Some t =>
      match step V g (t_op t) (t_pc t) (t_loc t) inj with
      | None => None
      | Some (g', p', l') => Some (g', upd i {| t_op := t_op t; t_pc := p'; t_loc := l' |} ths)
      end
  end.

(* a schedule: which thread moves and what the oracle says; steps of blocked/finished threads are skipped *)
Fixpoint run_sched (V : variant) (s : sys) (sched : list (nat * Z)) : sys :=
  match sched with
  | [] => s
  | (i, inj) :: r => match sys_step V s i inj with Some s' => run_sched V s' r | None => run_sched V s r end
  end.

(* does the thread hold its tract lock? (a function of the program counter) *)
Definition holding (k : kind) (p : pc) : bool :=
  match k with
  | KGoneOld => false
  | _ => match p with PStart | PLock | PDone | PCrash => false | _ => true end
  end.

(* ---------- Manager.openFiles (manager.go execute) ---------- *)
(* requests: 1 open ok, 2 open fails, 3 close, 4 opendir ok, 5 opendir fails, 6 closedir,
   7 open whose context is canceled before the worker executes it: execute returns errCanceled WITHOUT opening anything,
   so there is nothing to count and nothing to close (any other request number leaves the counter alone) *)
Definition mgr_step (V : variant) (n : Z) (req : Z) : Z :=
  if (req =? 1) || (req =? 4) then n + 1
  else if (req =? 2) || (req =? 5) then (if fixF4 V then n else n + 1)   (* F4: counted although the open failed *)
  else if (req =? 3) || (req =? 6) then n - 1
  else n.
(* Stop's goroutine retires the workers only once the queue is empty and openFiles <= 0 *)
Definition mgr_retires (n : Z) : bool := n <=? 0.

(* ---------- macro steps realised by the harness ---------- *)
(* The harness releases ONE parked Disk call (or starts one operation) and then lets everything run until
   every operation is parked before its next Disk call, blocked in busyCond.Wait, or has returned.
   Between two Disk calls the operations make only silent steps; those that do not touch the busy map
   commute with all steps of other operations that can run at the same time, so they are taken eagerly;
   the order of the busy-map steps (lock attempts of woken waiters, unlocks) is explored exhaustively. *)
Definition small (V : variant) (s : sys) (i : nat) (inj : Z) : sys :=
  match sys_step V s i inj with Some s' => s' | None => s end.

Definition is_busy_pc (p : pc) : bool := match p with PLock | PUnlock => true | _ => false end.
Definition is_final_pc (p : pc) : bool := match p with PDone | PCrash => true | _ => false end.

(* first operation whose next step is silent and does not touch the busy map *)
Fixpoint find_free (ths : list thread) (i : nat) : option nat :=
  match ths with
  | [] => None
  | t :: r =>
      if (pending_call (t_pc t) (t_loc t) =? 0) && negb (is_busy_pc (t_pc t)) && negb (is_final_pc (t_pc t))
      then Some i else find_free r (S i)
  end.

(* operations that can make a busy-map step now *)
Definition busy_movers (V : variant) (s : sys) : list nat :=
  let '(g, ths) := s in
  filter (fun i => match nth_error ths i with
                   | Some t => match t_pc t with
                               | PLock => match step V g (t_op t) PLock (t_loc t) 0 with Some _ => true | None => false end
                               | PUnlock => true
                               | _ => false
                               end
                   | None => false
                   end) (seq 0 (length ths)).

Fixpoint settle (V : variant) (fuel : nat) (s : sys) : list sys :=
  match fuel with
  | O => [s]
  | S f =>
      match find_free (snd s) 0 with
      | Some i => settle V f (small V s i 0)
      | None =>
          match busy_movers V s with
          | [] => [s]
          | ws => flat_map (fun i => settle V f (small V s i 0)) ws
          end
      end
  end.

Definition FUEL := 400%nat.

(* release thread i's parked call with the oracle's answer (or make its first step) *)
Definition move (V : variant) (s : sys) (i : nat) (inj : Z) : sys := small V s i inj.

(* ---------- snapshots ---------- *)
Fixpoint ins_kv (x : Z * Z) (l : list (Z * Z)) : list (Z * Z) :=
  match l with [] => [x] | y :: r => if fst x <=? fst y then x :: l else y :: ins_kv x r end.

Definition thread_status (t : thread) : list Z :=
  match t_pc t with
  | PDone => 3 :: Z.of_nat (length (l_res (t_loc t))) :: l_res (t_loc t)
  | PCrash => [4]
  | p => let c := pending_call p (t_loc t) in if c =? 0 then [2] else [1; c]
  end.

Definition snapshot (nthreads : nat) (s : sys) : list Z :=
  let '(g, ths) := s in
  Z.of_nat nthreads :: flat_map thread_status ths ++ zeros (nthreads - length ths)
  ++ Z.of_nat (length (g_busy g)) :: flat_map (fun '(k, v) => [k; v]) (fold_right ins_kv [] (g_busy g))
  ++ [g_opens g; g_closes g].

Definition scan_tract (g : gst) (k : Z) : list Z :=
  (match get k (g_tracts g) with Some st => [1; st] | None => [0; 0] end) ++
  (match get k (g_files g) with
   | Some f => 1 :: (match f_ver f with Some v => [1; v] | None => [0; 0] end) ++ Z.of_nat (length (f_data f)) :: f_data f
   | None => [0; 0; 0; 0]
   end).

Definition scan (ids : list Z) (g : gst) : list Z := flat_map (scan_tract g) ids.

(* ---------- wire ---------- *)
Definition kind_of (z : Z) : option kind :=
  match z with
  | 1 => Some KCreate | 2 => Some KWrite | 3 => Some KRead | 4 => Some KStat | 5 => Some KSetVersion
  | 6 => Some KPull | 7 => Some KGCOld | 8 => Some KGCGone | 9 => Some KCheck
  | 10 => Some KPack | 11 => Some KScrub | _ => None
  end.

Fixpoint take_srcs (n : nat) (l : list Z) : option (list (Z * list Z)) :=
  match n with
  | O => match l with [] => Some [] | _ => None end
  | S n' =>
      match l with
      | e :: len :: r =>
          let k := Z.to_nat len in
          if Nat.leb k (length r) then
            match take_srcs n' (skipn k r) with
            | Some ss => Some ((e, firstn k r) :: ss)
            | None => None
            end
          else None
      | _ => None
      end
  end.

(* n replies (err len bytes...) then the rest *)
Fixpoint take_replies (n : nat) (l : list Z) : option (list (Z * list Z) * list Z) :=
  match n with
  | O => Some ([], l)
  | S n' =>
      match l with
      | e :: len :: r =>
          let k := Z.to_nat len in
          if Nat.leb k (length r) then
            match take_replies n' (skipn k r) with
            | Some (ss, rest) => Some ((e, firstn k r) :: ss, rest)
            | None => None
            end
          else None
      | _ => None
      end
  end.
(* n pack sources: off len nfrom replies... *)
Fixpoint take_pack (n : nat) (l : list Z) : option (list (Z * Z * list (Z * list Z)) * list Z) :=
  match n with
  | O => Some ([], l)
  | S n' =>
      match l with
      | off :: len :: nf :: r =>
          match take_replies (Z.to_nat nf) r with
          | Some (fs, r2) =>
              match take_pack n' r2 with
              | Some (ps, rest) => Some ((off, len, fs) :: ps, rest)
              | None => None
              end
          | None => None
          end
      | _ => None
      end
  end.

(* kind tract a1 a2 a3 n x1..xn rest *)
Definition decode_op (l : list Z) : option (opd * list Z) :=
  match l with
  | kz :: tr :: a1 :: a2 :: a3 :: n :: r =>
      let cnt := Z.to_nat n in
      if Nat.leb cnt (length r) then
        let xs := firstn cnt r in
        let rest := skipn cnt r in
        match kind_of kz with
        | None => None
        | Some KPull =>
            match xs with
            | ns :: ys => match take_srcs (Z.to_nat ns) ys with
                          | Some ss => Some ({| o_kind := KPull; o_tract := tr; o_a1 := a1; o_a2 := a2; o_a3 := a3; o_data := []; o_srcs := ss; o_pack := [] |}, rest)
                          | None => None
                          end
            | [] => None
            end
        | Some KPack =>
            match xs with
            | ns :: ys => match take_pack (Z.to_nat ns) ys with
                          | Some (ps, []) => Some ({| o_kind := KPack; o_tract := tr; o_a1 := a1; o_a2 := a2; o_a3 := a3; o_data := []; o_srcs := []; o_pack := ps |}, rest)
                          | _ => None
                          end
            | [] => None
            end
        | Some k => Some ({| o_kind := k; o_tract := tr; o_a1 := a1; o_a2 := a2; o_a3 := a3; o_data := xs; o_srcs := []; o_pack := [] |}, rest)
        end
      else None
  | _ => None
  end.

Fixpoint list_eqb (a b : list Z) : bool :=
  match a, b with
  | [], [] => true
  | x :: a', y :: b' => (x =? y) && list_eqb a' b'
  | _, _ => false
  end.

(* state threaded through a case: the concurrent system and the Manager counter *)
Record cstate := { c_sys : sys; c_mgr : Z }.
Definition cstate0 : cstate := {| c_sys := (g0, []); c_mgr := 0 |}.

(* the variants tried, in order, with the verdict code reported when only that variant explains the line *)
Definition variants : list (variant * Z) :=
  [ (repaired, 1);
    ({| fixF3 := false; fixF22 := true; fixF4 := true |}, 3);
    ({| fixF3 := true; fixF22 := false; fixF4 := true |}, 20);
    ({| fixF3 := false; fixF22 := false; fixF4 := true |}, 23) ].

Fixpoint first_match (obs : list Z) (nthreads : nat) (cands : list (sys * Z)) : option (sys * Z) :=
  match cands with
  | [] => None
  | (s, code) :: r => if list_eqb (snapshot nthreads s) obs then Some (s, code) else first_match obs nthreads r
  end.

Definition candidates (f : variant -> sys) : list (sys * Z) :=
  flat_map (fun '(V, code) => map (fun s' => (s', code)) (settle V FUEL (f V))) variants.

Definition sys_line (c : cstate) (f : variant -> sys) (obs : list Z) : cstate * list Z :=
  let n := match obs with x :: _ => Z.to_nat x | [] => O end in
  match first_match obs n (candidates f) with
  | Some (s', code) => ({| c_sys := s'; c_mgr := c_mgr c |}, [777; code])
  | None =>
      let s' := match settle repaired FUEL (f repaired) with x :: _ => x | [] => c_sys c end in
      ({| c_sys := s'; c_mgr := c_mgr c |}, (-2) :: snapshot n s')
  end.

Definition step_line (c : cstate) (op : list Z) : cstate * list Z :=
  let bad := (c, [(-1)%Z]) in
  match op with
  | 20 :: k :: ver :: n :: r =>                      (* install tract k with a version and data; obs = [err] *)
      let cnt := Z.to_nat n in
      match skipn cnt r with
      | [e] =>
          let '(g, ths) := c_sys c in
          let g' := {| g_busy := g_busy g; g_tracts := set k 0 (g_tracts g);
                       g_files := set k {| f_fd := next_fd g k; f_ver := Some ver; f_data := firstn cnt r |} (g_files g);
                       g_gens := set k (next_fd g k + 1) (g_gens g); g_opens := g_opens g; g_closes := g_closes g |} in
          ({| c_sys := (g', ths); c_mgr := c_mgr c |}, if e =? 0 then [777; 1] else [(-2); 0])
      | _ => bad
      end
  | 10 :: tid :: r =>                                (* start operation tid *)
      match decode_op r with
      | Some (o, obs) =>
          let '(g, ths) := c_sys c in
          if Nat.eqb (Z.to_nat tid) (length ths) then
            sys_line c (fun V => move V (g, ths ++ [{| t_op := o; t_pc := PStart; t_loc := loc0 |}]) (length ths) 0) obs
          else bad
      | None => bad
      end
  | 11 :: tid :: inj :: obs =>                       (* release the parked Disk call of operation tid *)
      sys_line c (fun V => move V (c_sys c) (Z.to_nat tid) inj) obs
  | 21 :: ntr :: r =>                                (* scan of the listed tracts *)
      let n := Z.to_nat ntr in
      let ids := firstn n r in
      let obs := skipn n r in
      let exp := scan ids (fst (c_sys c)) in
      (c, if list_eqb exp obs then [777; 1] else (-2) :: exp)
  | [30; req; ok; openfiles] =>
      let nf := mgr_step repaired (c_mgr c) req in
      let nb := mgr_step unrepaired (c_mgr c) req in
      let okexp := if (req =? 2) || (req =? 5) || (req =? 7) then 0 else 1 in
      if negb (ok =? okexp) then (c, [(-2); okexp; nf])
      else if nf =? openfiles then ({| c_sys := c_sys c; c_mgr := nf |}, [777; 1])
      else if nb =? openfiles then ({| c_sys := c_sys c; c_mgr := nb |}, [777; 4])
      else (c, [(-2); okexp; nf])
  | [31; retired; openfiles] =>
      (* the harness has closed everything it opened: a positive count here is the F4 residue *)
      if negb (openfiles =? c_mgr c) then (c, [(-2); c_mgr c])
      else if negb (Bool.eqb (retired =? 1) (mgr_retires (c_mgr c))) then (c, [(-2); c_mgr c])
      else if c_mgr c =? 0 then (c, [777; 1]) else (c, [777; 4])
  | _ => bad
  end.

Fixpoint run_lines (c : cstate) (ops : list (list Z)) : list (list Z) :=
  match ops with
  | [] => []
  | op :: r => let '(c', out) := step_line c op in out :: run_lines c' r
  end.

(* Generic driver entry point: ops of one case -> expected observation lines. *)
Definition run_case (ops : list (list Z)) : list (list Z) := run_lines cstate0 ops.
