(* C18/SerialBase.v (definitions and mover lemmas for C18/Serial.v) — serial equivalence for operation sets over ANY number of tracts.
   Every interleaved execution (any schedule, any oracle answers, any wake-up order) is
   explained by a SERIAL chain: the operations that got the tract lock, taken in the order in which they released
   it (= acquisition order for exclusive operations; overlapping readers commute), each run ALONE on an idle store from the state
   in which its predecessors left its tract, produce exactly the per-operation results and the final tract-map/disk state of the
   interleaved execution; every other finished operation was refused without touching anything.
   Mover lemmas: [tract_local] (a body step depends on and changes only its own tract), [step_frame], [reader_pure],
   [exclusion]. *)
From Coq Require Import List ZArith Bool Lia Arith.
From Coq Require Import ZifyNat ZifyBool.
From BLB Require Import Gen.Consts C18.Model C18.Proofs C18.Proofs2.
Import ListNotations.
Open Scope Z_scope.

(* the serial-relevant state of ONE tract: its map entry (stamp), its file, its fd generation *)
Definition local := (option Z * option file * option Z)%type.
Definition at_ (a : Z) (g : gst) : local := (get a (g_tracts g), get a (g_files g), get a (g_gens g)).

Definition opt_list {A} (a : Z) (v : option A) : list (Z * A) := match v with Some x => [(a, x)] | None => [] end.
(* an idle store that holds nothing but tract a in state x *)
Definition embed_a (a : Z) (x : local) : gst :=
  let '(t, f, n) := x in
  {| g_busy := []; g_tracts := opt_list a t; g_files := opt_list a f; g_gens := opt_list a n; g_opens := 0; g_closes := 0 |}.

Lemma get_opt_list {A} a (v : option A) : get a (opt_list a v) = v.
Proof. destruct v; cbn; auto. rewrite Z.eqb_refl. auto. Qed.

Lemma at_embed : forall a x, at_ a (embed_a a x) = x.
Proof. intros a [[t f] n]. unfold at_, embed_a. cbn. rewrite !get_opt_list. reflexivity. Qed.

Definition lift_a (a : Z) (r : option (gst * pc * loc)) : option (local * pc * loc) :=
  match r with Some (g, p, l) => Some (at_ a g, p, l) | None => None end.

Definition body_pc (p : pc) : bool :=
  match p with PStart | PLock | PUnlock | PDone | PCrash => false | _ => true end.

Ltac dmg :=
  repeat match goal with
         | |- context [match ?x with _ => _ end] => destruct x eqn:?
         | |- context [if ?x then _ else _] => destruct x eqn:?
         end.

(* a body step sees and changes, of its own tract, only the serial state: the busy map, the counters and ALL
   other tracts are irrelevant to it (with step_frame: it does not change the other tracts either) *)
Lemma tract_local : forall V g g2 o p l inj,
    body_pc p = true -> at_ (o_tract o) g2 = at_ (o_tract o) g ->
    lift_a (o_tract o) (step V g2 o p l inj) = lift_a (o_tract o) (step V g o p l inj).
Proof.
  intros V [b t f n oo c] [b2 t2 f2 n2 oo2 c2] o p l inj Hb Hp.
  unfold at_ in Hp. cbn in Hp. injection Hp as H1 H2 H3.
  destruct p; try discriminate Hb;
    unfold step, rm_cont, create_cont, do_close, handle_file, opened_one, closed_one, created_file, with_tracts, with_files, next_fd;
    cbn [g_busy g_tracts g_files g_gens g_opens g_closes]; rewrite ?H1, ?H2, ?H3;
    destruct (o_kind o); cbn [is_reader wr_pc andb]; destruct (l_opened l) eqn:?; cbn iota; dmg;
    unfold lift_a, at_; cbn [g_busy g_tracts g_files g_gens g_opens g_closes];
    rewrite ?get_set_same, ?get_del_same; congruence.
Qed.

(* the solo machine: a body step of an operation running alone on an idle store that holds its tract in state x *)
Definition lstep (V : variant) (x : local) (o : opd) (p : pc) (l : loc) (inj : Z) : option (local * pc * loc) :=
  lift_a (o_tract o) (step V (embed_a (o_tract o) x) o p l inj).

Lemma step_lstep : forall V g o p l inj g' p' l',
    body_pc p = true -> step V g o p l inj = Some (g', p', l') ->
    lstep V (at_ (o_tract o) g) o p l inj = Some (at_ (o_tract o) g', p', l').
Proof.
  intros. unfold lstep. rewrite (tract_local V g (embed_a (o_tract o) (at_ (o_tract o) g)) o p l inj H) by apply at_embed.
  rewrite H0. reflexivity.
Qed.

Definition same_store (g' g : gst) : Prop :=
  g_tracts g' = g_tracts g /\ g_files g' = g_files g /\ g_gens g' = g_gens g.
Lemma same_store_at : forall g' g, same_store g' g -> forall b, at_ b g' = at_ b g.
Proof. intros g' g [A [B C]] b. unfold at_. rewrite A, B, C. reflexivity. Qed.

(* steps of readers never change the store *)
Lemma reader_pure : forall V g o p l inj g' p' l',
    is_reader (o_kind o) = true -> step V g o p l inj = Some (g', p', l') -> same_store g' g.
Proof.
  intros V g o p l inj g' p' l' HR H.
  destruct p; unfold step, rm_cont, create_cont, do_close, try_lock_once, unlock in H;
    destruct (o_kind o) eqn:K; try discriminate HR; cbn [is_reader wr_pc andb] in H; dmh; repeat split.
Qed.

Lemma mr_reader : forall k, lock_mode k = MR -> k <> KGoneOld -> is_reader k = true.
Proof. destruct k; cbn; congruence. Qed.

Definition refusal (k : kind) (r : list Z) : Prop :=
  r = busy_result k \/ r = [c18_e_BadVersion; 0] \/ r = [c18_e_InvalidArgument].

Definition entry_pc (k : kind) : pc :=
  match k with KCreate => PCLookup | KPull => PPullLoop | KPack | KGCGone => PRmLookup | KScrub => PScrub | _ => PLookup end.

Lemma step_start : forall V g o l inj g' p' l',
    o_kind o <> KGoneOld -> step V g o PStart l inj = Some (g', p', l') ->
    g' = g /\ ((p' = PLock /\ l' = l) \/ (p' = PDone /\ refusal (o_kind o) (l_res l'))).
Proof.
  intros V g o l inj g' p' l' K H. unfold step in H. destruct (o_kind o) eqn:E; cbn in H; dmh; try congruence;
    split; auto; unfold refusal; cbn; auto.
Qed.

Lemma step_lock : forall V g o l inj g' p' l',
    o_kind o <> KGoneOld -> step V g o PLock l inj = Some (g', p', l') ->
    same_store g' g /\ ((p' = entry_pc (o_kind o) /\ l' = l) \/ (p' = PDone /\ l_res l' = busy_result (o_kind o))).
Proof.
  intros V g o l inj g' p' l' K H. unfold step in H. destruct (o_kind o) eqn:E; cbn in H; dmh; try congruence;
    (split; [repeat split|]); auto; cbn; auto.
Qed.

Lemma step_unlock : forall V g o l inj g' p' l',
    step V g o PUnlock l inj = Some (g', p', l') -> same_store g' g /\ l' = l /\ (p' = PDone \/ p' = PCrash).
Proof.
  intros V g o l inj g' p' l' H. unfold step in H. destruct (o_kind o) eqn:E; cbn in H; dmh; (split; [repeat split|]); auto.
Qed.

Lemma body_holding : forall k p, k <> KGoneOld -> (body_pc p = true \/ p = PUnlock) -> holding k p = true.
Proof. intros k p K H. destruct H as [H|H]; [|subst p]; destruct k; try congruence; try destruct p; cbn in *; congruence. Qed.

Lemma holding_pc : forall k p, holding k p = true -> body_pc p = true \/ p = PUnlock.
Proof. intros k p H. destruct k, p; cbn in *; auto; discriminate. Qed.

(* ---------- solo runs and serial chains ---------- *)
Inductive lsteps (V : variant) (o : opd) : local * pc * loc -> local * pc * loc -> Prop :=
| ls_refl : forall x, lsteps V o x x
| ls_snoc : forall x y p l inj y' p' l',
    lsteps V o x (y, p, l) -> body_pc p = true -> lstep V y o p l inj = Some (y', p', l') ->
    lsteps V o x (y', p', l').

(* operation o, alone on an idle store whose only relevant content is its tract in state x, started right after taking
   its lock, reaches its unlock with result r and leaves its tract in state x' *)
Definition lsolo (V : variant) (o : opd) (x : local) (r : list Z) (x' : local) : Prop :=
  exists l, lsteps V o (x, entry_pc (o_kind o), loc0) (x', PUnlock, l) /\ l_res l = r.

(* store states as functions tract -> local state (association lists are compared extensionally) *)
Definition updf (x : Z -> local) (a : Z) (v : local) : Z -> local := fun b => if b =? a then v else x b.

(* the serial execution of a chain of (operation index, result): each operation runs alone and changes its tract only *)
Inductive GSer (V : variant) (ops : list opd) : (Z -> local) -> list (nat * list Z) -> (Z -> local) -> Prop :=
| GSer_nil : forall x y, (forall a, y a = x a) -> GSer V ops x [] y
| GSer_snoc : forall x0 ch x1 i o r v x2,
    GSer V ops x0 ch x1 -> nth_error ops i = Some o -> lsolo V o (x1 (o_tract o)) r v ->
    (forall b, x2 b = updf x1 (o_tract o) v b) -> GSer V ops x0 (ch ++ [(i, r)]) x2.

Definition t_kind (t : thread) := o_kind (t_op t).
Definition t_tract (t : thread) := o_tract (t_op t).
Definition t_inside (t : thread) : bool := holding (t_kind t) (t_pc t).

Record SInv (V : variant) (ops : list opd) (x0 : Z -> local) (s : sys) (ch : list (nat * list Z)) (xm : Z -> local) : Prop := {
  si_ops : map t_op (snd s) = ops;
  si_ser : GSer V ops x0 ch xm;
  si_done : forall i r, In (i, r) ch -> exists t, nth_error (snd s) i = Some t /\ t_pc t = PDone /\ l_res (t_loc t) = r;
  si_fresh : forall i t, nth_error (snd s) i = Some t -> (t_pc t = PStart \/ t_pc t = PLock) -> t_loc t = loc0;
  si_in : forall i t, nth_error (snd s) i = Some t -> t_inside t = true ->
                      lsteps V (t_op t) (xm (t_tract t), entry_pc (t_kind t), loc0) (at_ (t_tract t) (fst s), t_pc t, t_loc t);
  si_rd : forall a, (forall i t, nth_error (snd s) i = Some t -> t_inside t = true -> t_tract t = a -> lock_mode (t_kind t) = MR) ->
                    at_ a (fst s) = xm a;
  si_fin : forall i t, nth_error (snd s) i = Some t -> t_pc t = PDone ->
                       (exists r, In (i, r) ch) \/ refusal (t_kind t) (l_res (t_loc t));
  si_nodup : NoDup (map fst ch)
}.

Definition ok_op (o : opd) : Prop := o_kind o <> KGoneOld.

Lemma map_upd_op : forall (ths : list thread) i t p l,
    nth_error ths i = Some t -> map t_op (upd i {| t_op := t_op t; t_pc := p; t_loc := l |} ths) = map t_op ths.
Proof.
  induction ths as [|x r IH]; intros [|i] t p l H; cbn in *; try discriminate.
  - inv H. reflexivity.
  - f_equal. eauto.
Qed.

Lemma nth_map_op : forall (ths : list thread) i t, nth_error ths i = Some t -> nth_error (map t_op ths) i = Some (t_op t).
Proof. intros. rewrite nth_error_map, H. reflexivity. Qed.

Lemma in_fst : forall (ch : list (nat * list Z)) i, In i (map fst ch) -> exists r, In (i, r) ch.
Proof. induction ch as [|[j r] c IH]; cbn; intros i H; [tauto|]. destruct H as [->|H]; eauto. destruct (IH _ H); eauto. Qed.

Lemma inside_of : forall t, t_inside t = true -> inside (t_tract t) t = true.
Proof. intros t H. unfold inside, t_inside, t_kind, t_tract in *. rewrite H, Z.eqb_refl. reflexivity. Qed.

Lemma NoDup_snoc {A} : forall (l : list A) x, NoDup l -> ~ In x l -> NoDup (l ++ [x]).
Proof.
  induction l as [|a l IH]; intros x H N; cbn.
  - constructor; auto.
  - inversion H; subst. constructor.
    + intro Hc. apply in_app_or in Hc. destruct Hc as [Hc|[Hc|[]]]; [contradiction|]. subst. apply N. left. auto.
    + apply IH; auto. intro Hc. apply N. right. auto.
Qed.

Lemma pc_class : forall p, p = PStart \/ p = PLock \/ p = PUnlock \/ body_pc p = true \/ (p = PDone \/ p = PCrash).
Proof. destruct p; cbn; auto 10. Qed.

Lemma frame_at : forall V g o p l inj g' p' l' b,
    step V g o p l inj = Some (g', p', l') -> b <> o_tract o -> at_ b g' = at_ b g.
Proof.
  intros. destruct (step_frame _ _ _ _ _ _ _ _ _ b H H0) as [_ [A [B C]]]. unfold at_. rewrite A, B, C. reflexivity.
Qed.

(* two operations inside sections on the same tract are both readers (exclusion, for threads of a reachable state) *)
Lemma both_readers : forall V s i j u t, reachable V s -> i <> j ->
    nth_error (snd s) i = Some u -> nth_error (snd s) j = Some t ->
    t_inside u = true -> t_inside t = true -> t_tract u = t_tract t ->
    lock_mode (t_kind u) = MR /\ lock_mode (t_kind t) = MR.
Proof.
  intros V s i j u t R N Hu Ht Iu It E.
  pose proof (inside_of u Iu) as A. pose proof (inside_of t It) as B. rewrite E in A.
  exact (exclusion V s i j u t (t_tract t) R N Hu Ht A B).
Qed.

