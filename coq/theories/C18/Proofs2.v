(* C18/Proofs2.v — resource balance (handles, lock release) and the fail-fast clause. *)
From Coq Require Import List ZArith Bool Lia Arith.
From Coq Require Import ZifyNat ZifyBool.
From BLB Require Import Gen.Consts C18.Model C18.Proofs.
Import ListNotations.
Open Scope Z_scope.

(* ---------- resource balance: every successful Open is closed, the lock is given back ---------- *)
Definition open_pc (p : pc) : bool :=
  match p with
  | PCond | PGetver | PSetver | PWrite | PRead | PSize | PClose | PCSetver | PCWrite | PCClose
  | PPackLoop | PPackRead | PPackWrite | PPackPad | PPackPadWrite => true
  | _ => false
  end.

(* an operation holds an open handle only between its Open and its closeErrTract *)
Definition J (p : pc) (l : loc) : Prop := l_opened l = true -> open_pc p = true.

Lemma step_J : forall V g o p l inj g' p' l',
    fixF3 V = true -> step V g o p l inj = Some (g', p', l') -> J p l -> J p' l'.
Proof.
  intros V g o p l inj g' p' l' HV H HJ. unfold J in *.
  destruct p; unfold step, rm_cont, create_cont, do_close in H; rewrite ?HV in H;
    destruct (o_kind o) eqn:K; dmh; intro Ho; cbn in Ho; dmh; cbn in Ho; try reflexivity; try discriminate;
      try (specialize (HJ Ho); cbn in HJ; discriminate); try congruence.
Qed.

Definition b2z (b : bool) : Z := if b then 1 else 0.

Lemma step_count : forall V g o p l inj g' p' l',
    step V g o p l inj = Some (g', p', l') -> J p l ->
    g_opens g' - g_closes g' - b2z (l_opened l') = g_opens g - g_closes g - b2z (l_opened l).
Proof.
  intros V g o p l inj g' p' l' H HJ. unfold J in *.
  destruct p; unfold step, rm_cont, create_cont, do_close in H;
    destruct (o_kind o) eqn:K; dmh; cbn in *;
      repeat match goal with
             | |- context [l_opened ?x] => destruct (l_opened x) eqn:?
             end; dmh; cbn in *; try lia; try (specialize (HJ eq_refl); discriminate); try congruence.
Qed.

Definition has_open (t : thread) : bool := l_opened (t_loc t).

Definition bal (s : sys) : Prop :=
  g_opens (fst s) - g_closes (fst s) = Z.of_nat (length (filter has_open (snd s))) /\
  (forall i t, nth_error (snd s) i = Some t -> J (t_pc t) (t_loc t)).

Lemma reachable_bal : forall V s, fixF3 V = true -> reachable V s -> bal s.
Proof.
  intros V s HV R. induction R.
  - destruct H as [_ E]. split; cbn; [lia|]. intros i t Hn. destruct i; discriminate.
  - destruct IHR as [C JJ]. split; cbn [fst snd] in *.
    + rewrite filter_app_len. change (filter has_open [new_thread o]) with (@nil thread). cbn [length]. rewrite Nat.add_0_r. exact C.
    + intros i t H0. destruct (Nat.lt_ge_cases i (length ths)).
      * rewrite nth_error_app1 in H0 by auto. eauto.
      * rewrite nth_error_app2 in H0 by auto. destruct (i - length ths)%nat as [|[|k]]; cbn in H0; try discriminate.
        inv H0. unfold J. cbn. discriminate.
  - destruct IHR as [C JJ]. destruct s as [g ths]. unfold sys_step in H.
    destruct (nth_error ths i) as [t|] eqn:Ni; [|discriminate].
    destruct (step V g (t_op t) (t_pc t) (t_loc t) inj) as [[[g' p'] l']|] eqn:St; [|discriminate]. inv H.
    cbn [fst snd] in *. split.
    + pose proof (cnt_upd has_open ths i t {| t_op := t_op t; t_pc := p'; t_loc := l' |} Ni) as E.
      pose proof (step_count _ _ _ _ _ _ _ _ _ St (JJ _ _ Ni)) as Cn.
      change (has_open t) with (l_opened (t_loc t)) in E.
      change (has_open {| t_op := t_op t; t_pc := p'; t_loc := l' |}) with (l_opened l') in E. unfold b2n in E. unfold b2z in Cn.
      cbn [fst snd]. destruct (l_opened l'), (l_opened (t_loc t)); lia.
    + cbn [fst snd]. intros j tj Hj. destruct (Nat.eq_dec i j) as [->|N].
      * erewrite nth_upd_same in Hj by eauto. inv Hj. cbn. eapply step_J; eauto.
      * rewrite nth_upd_other in Hj by auto. eauto.
Qed.

Definition quiescent (s : sys) : Prop := forall i t, nth_error (snd s) i = Some t -> t_pc t = PDone.

Lemma filter_none {A} (p : A -> bool) : forall l, (forall i a, nth_error l i = Some a -> p a = false) -> length (filter p l) = 0%nat.
Proof.
  induction l as [|x r IH]; intros H; cbn; auto.
  rewrite (H 0%nat x eq_refl). apply IH. intros i a Hn. apply (H (S i) a Hn).
Qed.

Lemma quiescent_balanced : forall V s,
    fixF3 V = true -> reachable V s -> quiescent s ->
    g_opens (fst s) = g_closes (fst s) /\ (forall id, get id (g_busy (fst s)) = None).
Proof.
  intros V s HV R Q. destruct (reachable_bal _ _ HV R) as [C JJ]. split.
  - rewrite filter_none in C; [lia|]. intros i a Hn. unfold has_open.
    specialize (JJ _ _ Hn). rewrite (Q _ _ Hn) in JJ. unfold J in JJ. cbn in JJ.
    destruct (l_opened (t_loc a)); auto. specialize (JJ eq_refl). discriminate.
  - intro id. pose proof (reachable_lock_inv _ _ R id) as Inv. unfold busy_ok, cnt in Inv.
    assert (Z0 : forall m, length (filter (t_holds id m) (snd s)) = 0%nat).
    { intro m. apply filter_none. intros i a Hn. unfold t_holds. rewrite (Q _ _ Hn).
      destruct (o_kind (t_op a)); reflexivity. }
    rewrite !Z0 in Inv. destruct (get id (g_busy (fst s))); auto. exfalso. lia.
Qed.

(* the fail-fast clause of the lock protocol, as a property of tryLockTractOnce *)
Lemma long_writer_fails_fast : forall V busy id m,
    fixF22 V = true -> get id busy = Some (-2) -> try_lock_once V busy id m = (busy, false, false).
Proof. intros V busy id m HV G. unfold try_lock_once, long_marker. rewrite G, HV. destruct m; reflexivity. Qed.

Lemma other_conflicts_wait : forall V busy id m st,
    fixF22 V = true -> get id busy = Some st -> st <> -2 -> (m = MR -> st <= 0) ->
    try_lock_once V busy id m = (busy, false, true).
Proof.
  intros V busy id m st HV G N C. unfold try_lock_once, long_marker. rewrite G, HV.
  assert (E : (st =? -2) = false) by (apply Z.eqb_neq; auto). rewrite E.
  destruct m; auto. specialize (C eq_refl). destruct (0 <? st) eqn:L; auto. lia.
Qed.

Lemma compatible_readers_share : forall V busy id st,
    get id busy = Some st -> 0 < st -> try_lock_once V busy id MR = (set id (st + 1) busy, true, false).
Proof. intros V busy id st G L. unfold try_lock_once. rewrite G. destruct (0 <? st) eqn:E; auto. lia. Qed.

(* acquiring never lets a blocked waiter through: wake-ups are needed only after unlock (no lost wake-up) *)
Lemma acquire_keeps_waiters_blocked : forall V busy id m busy' id' m',
    try_lock_once V busy id m = (busy', true, false) ->
    try_lock_once V busy id' m' = (busy, false, true) ->
    exists b2, try_lock_once V busy' id' m' = (b2, false, true) /\ b2 = busy'.
Proof.
  intros V busy id m busy' id' m' A W. unfold try_lock_once in *.
  destruct (Z.eq_dec id' id) as [->|N].
  - destruct (get id busy) as [st|] eqn:G; [|inv W].
    destruct m; try (inv A; fail). destruct (0 <? st) eqn:L; [|inv A]. inv A.
    rewrite get_set_same.
    assert (L2 : (st + 1 =? long_marker V) = false)
      by (unfold long_marker, c18_LONG_WRITE; destruct (fixF22 V); lia).
    destruct m'; try rewrite L in W; try discriminate W; rewrite L2; cbn [negb]; eexists; split; reflexivity.
  - destruct (get id busy) as [st|] eqn:G.
    + destruct m; try (inv A; fail). destruct (0 <? st); inv A. rewrite get_set_other by auto.
      destruct (get id' busy); [|inv W]. destruct m'; dmh; eauto.
    + inv A. rewrite get_set_other by auto. destruct (get id' busy); [|inv W]. destruct m'; dmh; eauto.
Qed.

(* ---------- Manager.openFiles ---------- *)
Definition mgr_run (V : variant) (n : Z) (rs : list Z) : Z := fold_left (mgr_step V) rs n.
Fixpoint countz (f : Z -> bool) (rs : list Z) : Z :=
  match rs with [] => 0 | r :: t => (if f r then 1 else 0) + countz f t end.
Definition is_open_ok (r : Z) := (r =? 1) || (r =? 4).
Definition is_close (r : Z) := (r =? 3) || (r =? 6).

Lemma mgr_balanced : forall V rs n, fixF4 V = true ->
    mgr_run V n rs = n + countz is_open_ok rs - countz is_close rs.
Proof.
  intros V rs. induction rs as [|r t IH]; intros n HV; cbn; [lia|].
  unfold mgr_run in IH. rewrite IH by auto. unfold mgr_step, is_open_ok, is_close. rewrite HV.
  destruct (r =? 1) eqn:E1, (r =? 4) eqn:E4, (r =? 2) eqn:E2, (r =? 5) eqn:E5, (r =? 3) eqn:E3, (r =? 6) eqn:E6;
    rewrite ?Z.eqb_eq, ?Z.eqb_neq in *; cbn [orb]; lia.
Qed.

(* ---------- witnesses on the model of the current code ---------- *)
Definition op_setversion_stale : opd :=
  {| o_kind := KSetVersion; o_tract := 0; o_a1 := 3; o_a2 := 2; o_a3 := 0; o_data := []; o_srcs := []; o_pack := [] |}.
Definition g_one_tract : gst :=
  {| g_busy := []; g_tracts := [(0, 0)]; g_files := [(0, {| f_fd := 1; f_ver := Some 2; f_data := [1; 2] |})];
     g_gens := [(0, 2)]; g_opens := 0; g_closes := 0 |}.
Definition all_done (s : sys) : bool := forallb (fun t => match t_pc t with PDone => true | _ => false end) (snd s).
Definition sched_one (n : nat) : list (nat * Z) := repeat (0%nat, 0) n.

Lemma f3_witness :
  let s' := run_sched unrepaired (g_one_tract, [new_thread op_setversion_stale]) (sched_one 12) in
  all_done s' = true /\ g_opens (fst s') - g_closes (fst s') = 1 /\ g_busy (fst s') = [].
Proof. vm_compute. auto. Qed.

Lemma f3_repaired :
  let s' := run_sched repaired (g_one_tract, [new_thread op_setversion_stale]) (sched_one 12) in
  all_done s' = true /\ g_opens (fst s') - g_closes (fst s') = 0 /\ g_busy (fst s') = [].
Proof. vm_compute. auto. Qed.

(* GCTracts' gone path deletes without the tract lock: its Delete can fall inside a writer's section *)
Definition op_write : opd := {| o_kind := KWrite; o_tract := 0; o_a1 := 2; o_a2 := 0; o_a3 := 0; o_data := [9]; o_srcs := []; o_pack := [] |}.
Definition op_gone : opd := {| o_kind := KGoneOld; o_tract := 0; o_a1 := 0; o_a2 := 0; o_a3 := 0; o_data := []; o_srcs := []; o_pack := [] |}.
Lemma gcgone_witness :
  let s' := run_sched repaired (g_one_tract, [new_thread op_write; new_thread op_gone])
                      [(0%nat, 0); (0%nat, 0); (0%nat, 0); (0%nat, 0); (1%nat, 0); (1%nat, 0)] in
  match snd s' with
  | [w; d] => inside 0 w = true /\ pending_call (t_pc w) (t_loc w) = CK_Getx /\ pending_call (t_pc d) (t_loc d) = CK_Delete
  | _ => False
  end.
Proof. vm_compute. auto. Qed.
