(* placeholder until Proofs.v exists *)
From BLB Require Import C18.Model.
