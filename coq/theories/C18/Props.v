(* C18/Props.v — property-level theorems only (statements + `exact`), each followed by Print Assumptions.
   Tags [FULL]/[PARTIAL]/[REFUTED] are read by bin/check.
   reachable V s: s is reached from an idle Store (empty busy map) by spawning operations and interleaving
   their small steps in ANY order with ANY answers of the Disk error oracle; V selects the tree
   (current_tree = repaired = /repo since the fix commits debdde2 F3, d92e32e F4, daaaf4c F22;
   unrepaired = the code before them, about which the REFUTED statements speak). *)
From Coq Require Import List ZArith Bool.
From BLB Require Import Gen.Consts C18.Model C18.Proofs C18.Proofs2 C18.SerialBase C18.Serial.
Import ListNotations.
Open Scope Z_scope.

(* [FULL] lock protocol, any tree, all interleavings and oracle answers: for every tract the busy entry is absent iff nobody is inside, n>0 iff exactly n readers are inside and nobody else, -1 / -2 iff exactly one writer / long writer is inside and nobody else; and unlock never reaches one of its log.Fatalf branches *)
Theorem lock_protocol_safe :
  forall V s, reachable V s ->
    (forall id, busy_ok (get id (g_busy (fst s))) (cnt id MR (snd s)) (cnt id MW (snd s)) (cnt id MLW (snd s)))
    /\ (forall i t, nth_error (snd s) i = Some t -> t_pc t <> PCrash).
Proof. intros V s R. split; [exact (reachable_lock_inv V s R) | exact (reachable_no_crash V s R)]. Qed.
Print Assumptions lock_protocol_safe.

(* [FULL] current tree with fix F22, fail-fast clause: a request of any mode that meets a long writer is refused at once without waiting, every other conflict waits, and compatible readers share *)
Theorem long_writer_fail_fast :
  forall V busy id m, fixF22 V = true ->
    (get id busy = Some (-2) -> try_lock_once V busy id m = (busy, false, false)) /\
    (forall st, get id busy = Some st -> st <> -2 -> (m = MR -> st <= 0) -> try_lock_once V busy id m = (busy, false, true)) /\
    (forall st, get id busy = Some st -> 0 < st -> try_lock_once V busy id MR = (set id (st + 1) busy, true, false)).
Proof.
  intros V busy id m HV. split; [|split].
  - exact (long_writer_fails_fast V busy id m HV).
  - intros st. exact (other_conflicts_wait V busy id m st HV).
  - intros st. exact (compatible_readers_share V busy id st).
Qed.
Print Assumptions long_writer_fail_fast.

(* [REFUTED] unrepaired variant, finding F22: a request meeting a long writer (busy = -2) is told to WAIT, and a writer meeting exactly one reader (busy = 1) is refused at once, because the state is compared with the mode constant LONG_WRITE = 1 *)
Theorem long_writer_fail_fast_refuted :
  exists busy id,
    get id busy = Some (-2) /\ try_lock_once unrepaired busy id MR = (busy, false, true) /\
    try_lock_once unrepaired busy id MW = (busy, false, true) /\
    try_lock_once unrepaired [(id, 1)] id MW = ([(id, 1)], false, false).
Proof. exists [(7, -2)], 7. vm_compute. auto. Qed.
Print Assumptions long_writer_fail_fast_refuted.

(* [FULL] any tree, no lost wake-up: a successful acquisition never enables an operation that is blocked in busyCond.Wait, so the Broadcast in unlock is the only wake-up that is needed *)
Theorem no_lost_wakeup :
  forall V busy id m busy' id' m',
    try_lock_once V busy id m = (busy', true, false) ->
    try_lock_once V busy id' m' = (busy, false, true) ->
    exists b2, try_lock_once V busy' id' m' = (b2, false, true) /\ b2 = busy'.
Proof. exact acquire_keeps_waiters_blocked. Qed.
Print Assumptions no_lost_wakeup.

(* [FULL] any tree, all interleavings: two different operations that are inside their sections on the same tract (between lock and unlock, which is where all their Disk calls and CtlRead happen) are both readers; a step of an operation on one tract leaves the lock entry, map entry and file of every other tract unchanged. This covers every operation of the current tree, the GC gone path included since fix ab74e69; excluded is only KGoneOld, the lock-free gone program of the code before that fix, which is kept in the model for the REFUTED regression witnesses *)
Theorem sections_do_not_interleave :
  forall V s, reachable V s ->
    (forall i j a b id, i <> j -> nth_error (snd s) i = Some a -> nth_error (snd s) j = Some b ->
       inside id a = true -> inside id b = true ->
       lock_mode (o_kind (t_op a)) = MR /\ lock_mode (o_kind (t_op b)) = MR) /\
    (forall k p l, pending_call p l <> 0 -> k <> KGoneOld -> holding k p = true) /\
    (forall g o p l inj g' p' l' b, step V g o p l inj = Some (g', p', l') -> b <> o_tract o ->
       get b (g_busy g') = get b (g_busy g) /\ get b (g_tracts g') = get b (g_tracts g) /\ get b (g_files g') = get b (g_files g) /\
       get b (g_gens g') = get b (g_gens g)).
Proof.
  intros V s R. split; [|split].
  - intros i j a b id. exact (exclusion V s i j a b id R).
  - exact calls_inside.
  - intros g o p l inj g' p' l' b. exact (step_frame V g o p l inj g' p' l' b).
Qed.
Print Assumptions sections_do_not_interleave.

(* [REFUTED] regression witness for the code before fix ab74e69 (program KGoneOld): the Delete of the then lock-free GC gone path falls between the Open and the Getxattr of a writer that holds the tract lock *)
Theorem sections_gcgone_refuted :
  let s' := run_sched repaired (g_one_tract, [new_thread op_write; new_thread op_gone])
                      [(0%nat, 0); (0%nat, 0); (0%nat, 0); (0%nat, 0); (1%nat, 0); (1%nat, 0)] in
  match snd s' with
  | [w; d] => inside 0 w = true /\ pending_call (t_pc w) (t_loc w) = CK_Getx /\ pending_call (t_pc d) (t_loc d) = CK_Delete
  | _ => False
  end.
Proof. exact gcgone_witness. Qed.
Print Assumptions sections_gcgone_refuted.

(* [FULL] any tree: while a reader (Read, Stat, Check, scrub step) is inside its section, no step of any other operation of the current tree (excluded is only KGoneOld, the lock-free gone program before fix ab74e69) changes the file of its tract, so the version it checks and the data or size it returns belong to one state *)
Theorem read_sees_one_state :
  forall V s i j inj s' a b,
    reachable V s -> sys_step V s j inj = Some s' ->
    nth_error (snd s) i = Some a -> nth_error (snd s) j = Some b ->
    inside (o_tract (t_op a)) a = true -> lock_mode (o_kind (t_op a)) = MR ->
    o_kind (t_op b) <> KGoneOld ->
    get (o_tract (t_op a)) (g_files (fst s')) = get (o_tract (t_op a)) (g_files (fst s)).
Proof. exact reader_stable. Qed.
Print Assumptions read_sees_one_state.

(* [REFUTED] unrepaired variant, finding F3: a conditional SetVersion whose stamp is stale returns with the lock released but its tract handle still open; opens minus closes is 1 at quiescence *)
Theorem ops_balanced_refuted :
  let s' := run_sched unrepaired (g_one_tract, [new_thread op_setversion_stale]) (sched_one 12) in
  all_done s' = true /\ g_opens (fst s') - g_closes (fst s') = 1 /\ g_busy (fst s') = [].
Proof. exact f3_witness. Qed.
Print Assumptions ops_balanced_refuted.

(* [FULL] current tree with fix F3, all interleavings, every error pattern of the oracle: opens minus closes equals the number of operations currently between their Open and their closeErrTract; once every operation has returned, every successful Open has been closed and the busy map is empty *)
Theorem ops_balanced :
  forall V s, fixF3 V = true -> reachable V s ->
    g_opens (fst s) - g_closes (fst s) = Z.of_nat (length (filter has_open (snd s))) /\
    (forall i t, nth_error (snd s) i = Some t -> l_opened (t_loc t) = true -> open_pc (t_pc t) = true) /\
    (quiescent s -> g_opens (fst s) = g_closes (fst s) /\ forall id, get id (g_busy (fst s)) = None).
Proof.
  intros V s HV R. destruct (reachable_bal V s HV R) as [C JJ]. split; [exact C|split].
  - exact JJ.
  - exact (quiescent_balanced V s HV R).
Qed.
Print Assumptions ops_balanced.

(* [REFUTED] unrepaired variant, finding F4: one failing open leaves Manager.openFiles at 1 with nothing open, so Stop never retires the workers *)
Theorem manager_open_count_refuted :
  mgr_run unrepaired 0 [2] = 1 /\ mgr_retires (mgr_run unrepaired 0 [2]) = false.
Proof. vm_compute. auto. Qed.
Print Assumptions manager_open_count_refuted.

(* [FULL] current tree with fix F4: after any request sequence openFiles is the start value plus successful opens minus closes, so it is back to the start value when every successful open was closed once; an open whose context was canceled before execution (request 7) opens nothing, returns no handle and leaves the counter alone, so a canceled Store operation has nothing to close *)
Theorem manager_open_count_balanced :
  forall V rs n, fixF4 V = true ->
    mgr_run V n rs = n + countz is_open_ok rs - countz is_close rs /\ mgr_step V n 7 = n.
Proof. intros V rs n HV. split; [exact (mgr_balanced V rs n HV) | reflexivity]. Qed.
Print Assumptions manager_open_count_balanced.

(* [FULL] serial equivalence over any finite set of operations on any number of tracts, any tree, every schedule, every oracle answer, every wake-up order, the GC gone path included (ok_op excludes only KGoneOld, the lock-free gone program of the code before fix ab74e69). When all operations have returned, the operations that got their tract lock, taken in the order in which they released it, each run alone on an idle store that holds its tract in the state its predecessors left and changing that tract only, yield exactly the per-operation results and, for every tract, the final map entry, file and generation of the interleaved execution; every other operation was refused (busy, bad version, invalid argument) and changed nothing. Release order respects real time (an operation that returned before another was invoked released first), so the chain is a linearization. Every modelled operation touches one local tract (PackTracts reads its sources remotely); RSEncode touches no local tract and is not modelled *)
Theorem serial_equivalence :
  forall V ops g0 sched,
    init_g g0 -> Forall ok_op ops ->
    let s := run_sched V (g0, map new_thread ops) sched in
    quiescent s ->
    exists ch xf,
      GSer V ops (fun a => at_ a g0) ch xf /\ (forall a, at_ a (fst s) = xf a) /\ NoDup (map fst ch) /\
      (forall i r, In (i, r) ch -> exists t, nth_error (snd s) i = Some t /\ t_pc t = PDone /\ l_res (t_loc t) = r) /\
      (forall i t, nth_error (snd s) i = Some t -> (exists r, In (i, r) ch) \/ refusal (o_kind (t_op t)) (l_res (t_loc t))).
Proof. exact serial_equivalence_all_tracts. Qed.
Print Assumptions serial_equivalence.

(* [FULL] the solo runs of the chain are the real step function: a step inside a section depends on and changes, of its own tract, only the map entry, file and generation, whatever the busy map, the counters and all other tracts hold; and adjacent readers of a chain may be swapped, so acquisition order of overlapping readers is a witness as well as release order *)
Theorem serial_witness_facts :
  (forall V g g2 o p l inj, body_pc p = true -> at_ (o_tract o) g2 = at_ (o_tract o) g ->
     lift_a (o_tract o) (step V g2 o p l inj) = lift_a (o_tract o) (step V g o p l inj)) /\
  (forall V ops x0 ch i1 r1 i2 r2 x o1 o2,
     nth_error ops i1 = Some o1 -> nth_error ops i2 = Some o2 ->
     is_reader (o_kind o1) = true -> is_reader (o_kind o2) = true ->
     GSer V ops x0 ((ch ++ [(i1, r1)]) ++ [(i2, r2)]) x -> GSer V ops x0 ((ch ++ [(i2, r2)]) ++ [(i1, r1)]) x).
Proof. split; [exact tract_local | exact GSer_swap_readers]. Qed.
Print Assumptions serial_witness_facts.

(* [REFUTED] regression witness for the code before fix ab74e69 (program KGoneOld, finding F26): the lock-free GC gone path deletes a tract between the lookup and the Delete of a PullTract that holds the long-writer lock; the copy-in returns ErrNoSuchTract although its source delivered, whereas it returns NoError in both serial orders; with the gone program of the current tree the same schedule ends with NoError because the GC skips the busy tract *)
Theorem serial_equivalence_gcgone_refuted :
  let inter := run_sched repaired s_pull_gone (sched_of 0 8 ++ sched_of 1 4 ++ sched_of 0 12) in
  let serA := run_sched repaired s_pull_gone (sched_of 0 40 ++ sched_of 1 10) in
  let serB := run_sched repaired s_pull_gone (sched_of 1 10 ++ sched_of 0 40) in
  all_done inter = true /\ all_done serA = true /\ all_done serB = true /\
  res_of inter 0 = Some [c18_e_NoSuchTract] /\ res_of serA 0 = Some [c18_e_NoError] /\ res_of serB 0 = Some [c18_e_NoError] /\
  at_ 0 (fst inter) = (None, None, Some 2) /\
  (let fixed := run_sched repaired (g_one_tract, [new_thread op_pull; new_thread op_gone_locked]) (sched_of 0 8 ++ sched_of 1 4 ++ sched_of 0 30) in
   all_done fixed = true /\ res_of fixed 0 = Some [c18_e_NoError] /\ res_of fixed 1 = Some []).
Proof. split; [|split; [|split; [|split; [|split; [|split; [|split]]]]]]; try apply gcgone_not_serializable. exact gcgone_locked_same_schedule. Qed.
Print Assumptions serial_equivalence_gcgone_refuted.

(* [FULL] the tree the FULL theorems above are instantiated at: the current tree carries all three fixes *)
Theorem current_tree_is_repaired :
  fixF3 current_tree = true /\ fixF22 current_tree = true /\ fixF4 current_tree = true.
Proof. repeat split. Qed.
Print Assumptions current_tree_is_repaired.
