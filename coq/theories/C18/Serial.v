(* C18/Serial.v — serial equivalence over any number of tracts: the invariant and the theorem (see SerialBase.v). *)
From Coq Require Import List ZArith Bool Lia Arith.
From Coq Require Import ZifyNat ZifyBool.
From BLB Require Import Gen.Consts C18.Model C18.Proofs C18.Proofs2 C18.SerialBase.
Import ListNotations.
Open Scope Z_scope.

Lemma updf_same : forall x a v, updf x a v a = v.
Proof. intros. unfold updf. rewrite Z.eqb_refl. reflexivity. Qed.
Lemma updf_other : forall x a v b, b <> a -> updf x a v b = x b.
Proof. intros. unfold updf. destruct (b =? a) eqn:E; auto. apply Z.eqb_eq in E. congruence. Qed.

(* one step of the interleaved system preserves the serial explanation *)
Lemma sinv_step : forall V ops x0 s ch xm j inj s',
    reachable V s -> Forall ok_op ops ->
    SInv V ops x0 s ch xm -> sys_step V s j inj = Some s' ->
    exists ch' xm', SInv V ops x0 s' ch' xm'.
Proof.
  intros V ops x0 [g ths] ch xm j inj s' R OK I St.
  pose proof (R_step _ _ _ _ _ R St) as R'.
  unfold sys_step in St.
  destruct (nth_error ths j) as [t|] eqn:Nj; [|discriminate].
  destruct (step V g (t_op t) (t_pc t) (t_loc t) inj) as [[[g' p'] l']|] eqn:E; [|discriminate]. inv St.
  destruct I as [Iops Iser Idone Ifresh Iin Ird Ifin Ind]. cbn [fst snd] in *.
  assert (Tk : o_kind (t_op t) <> KGoneOld).
  { rewrite Forall_forall in OK. apply OK. rewrite <- Iops. apply in_map. eapply nth_error_In; eauto. }
  set (a := t_tract t).
  set (t' := {| t_op := t_op t; t_pc := p'; t_loc := l' |}).
  assert (Hops' : map t_op (upd j t' ths) = ops) by (unfold t'; rewrite (map_upd_op ths j t p' l' Nj); auto).
  assert (Hoth : forall i u, i <> j -> nth_error (upd j t' ths) i = Some u -> nth_error ths i = Some u)
    by (intros i u N H; rewrite nth_upd_other in H by auto; auto).
  assert (Hj' : nth_error (upd j t' ths) j = Some t') by (eapply nth_upd_same; eauto).
  (* generic transfer of the facts that do not concern thread j when the store is unchanged *)
  assert (Hdone_keep : t_pc t <> PDone -> forall i r, In (i, r) ch ->
            exists u, nth_error (upd j t' ths) i = Some u /\ t_pc u = PDone /\ l_res (t_loc u) = r).
  { intros Hnd i r Hin. destruct (Idone i r Hin) as [u [Hu [Hp Hr]]].
    destruct (Nat.eq_dec i j) as [->|N]; [rewrite Nj in Hu; inv Hu; congruence|].
    exists u. rewrite nth_upd_other by auto. auto. }
  destruct (pc_class (t_pc t)) as [P|[P|[P|[P|P]]]].
  5: { destruct P as [P|P]; rewrite P in E; unfold step in E;
       destruct (is_reader (o_kind (t_op t))); cbn in E; discriminate. }
  - (* PStart *)
    rewrite P in E.
    destruct (step_start _ _ _ _ _ _ _ _ Tk E) as [-> Hcase].
    assert (Hnin : t_inside t' = false).
    { unfold t_inside, t_kind, t'. cbn. destruct Hcase as [[-> _]|[-> _]]; destruct (o_kind (t_op t)); reflexivity. }
    assert (Hnin0 : t_inside t = false) by (unfold t_inside, t_kind; rewrite P; destruct (o_kind (t_op t)); reflexivity).
    exists ch, xm. split; cbn [fst snd]; auto.
    + apply Hdone_keep. congruence.
    + intros i u Hu Hp. destruct (Nat.eq_dec i j) as [->|N].
      { rewrite Hj' in Hu. inv Hu. cbn in Hp. destruct Hcase as [[-> ->]|[-> _]].
        - apply (Ifresh j t Nj). auto.
        - destruct Hp; discriminate. }
      { eapply Ifresh; eauto. }
    + intros i u Hu Hin. destruct (Nat.eq_dec i j) as [->|N].
      { rewrite Hj' in Hu. inv Hu. congruence. }
      { eapply Iin; eauto. }
    + intros b Hall. apply Ird. intros i u Hu Hin Hb. destruct (Nat.eq_dec i j) as [->|N].
      { rewrite Nj in Hu. inv Hu. congruence. }
      { apply (Hall i u); auto. rewrite nth_upd_other by auto. auto. }
    + intros i u Hu Hp. destruct (Nat.eq_dec i j) as [->|N].
      { rewrite Hj' in Hu. inv Hu. cbn in Hp. destruct Hcase as [[-> _]|[_ Rf]]; [discriminate|]. right. exact Rf. }
      { eapply Ifin; eauto. }
  - (* PLock *)
    rewrite P in E.
    destruct (step_lock _ _ _ _ _ _ _ _ Tk E) as [Pg Hcase].
    pose proof (same_store_at _ _ Pg) as Pat.
    assert (Hnin0 : t_inside t = false) by (unfold t_inside, t_kind; rewrite P; destruct (o_kind (t_op t)); reflexivity).
    destruct Hcase as [[-> ->]|[-> Rb]].
    + (* acquired *)
      assert (Hin' : t_inside t' = true).
      { unfold t_inside, t_kind, t'. cbn. apply body_holding; auto. destruct (o_kind (t_op t)); cbn; auto; congruence. }
      assert (Hxm : at_ a g = xm a).
      { apply Ird. intros i u Hu Hin Hb. destruct (Nat.eq_dec i j) as [->|N].
        { rewrite Nj in Hu. inv Hu. congruence. }
        assert (Hu' : nth_error (upd j t' ths) i = Some u) by (rewrite nth_upd_other by auto; auto).
        destruct (both_readers V (g', upd j t' ths) i j u t' R' N Hu' Hj' Hin Hin' Hb) as [Hm _]. exact Hm. }
      exists ch, xm. split; cbn [fst snd]; auto.
      * apply Hdone_keep. congruence.
      * intros i u Hu Hp. destruct (Nat.eq_dec i j) as [->|N].
        { rewrite Hj' in Hu. inv Hu. cbn in Hp. destruct (o_kind (t_op t)); cbn in Hp; destruct Hp; discriminate. }
        { eapply Ifresh; eauto. }
      * intros i u Hu Hin. rewrite Pat. destruct (Nat.eq_dec i j) as [->|N].
        { rewrite Hj' in Hu. injection Hu as <-. unfold t', t_kind, t_tract. cbn [t_op t_pc t_loc].
          rewrite (Ifresh j t Nj (or_intror P)). change (o_tract (t_op t)) with a. rewrite Hxm. apply ls_refl. }
        { eapply Iin; eauto. }
      * intros b Hall. rewrite Pat. destruct (Z.eq_dec b a) as [->|Nb]; [exact Hxm|].
        apply Ird. intros i u Hu Hin Hb. destruct (Nat.eq_dec i j) as [->|N].
        { rewrite Nj in Hu. inv Hu. congruence. }
        { apply (Hall i u); auto. rewrite nth_upd_other by auto. auto. }
      * intros i u Hu Hp. destruct (Nat.eq_dec i j) as [->|N].
        { rewrite Hj' in Hu. inv Hu. cbn in Hp. destruct (o_kind (t_op t)); discriminate. }
        { eapply Ifin; eauto. }
    + (* refused at once *)
      assert (Hnin : t_inside t' = false) by (unfold t_inside, t_kind, t'; cbn; destruct (o_kind (t_op t)); reflexivity).
      exists ch, xm. split; cbn [fst snd]; auto.
      * apply Hdone_keep. congruence.
      * intros i u Hu Hp. destruct (Nat.eq_dec i j) as [->|N].
        { rewrite Hj' in Hu. inv Hu. cbn in Hp. destruct Hp; discriminate. }
        { eapply Ifresh; eauto. }
      * intros i u Hu Hin. rewrite Pat. destruct (Nat.eq_dec i j) as [->|N].
        { rewrite Hj' in Hu. inv Hu. congruence. }
        { eapply Iin; eauto. }
      * intros b Hall. rewrite Pat. apply Ird. intros i u Hu Hin Hb. destruct (Nat.eq_dec i j) as [->|N].
        { rewrite Nj in Hu. inv Hu. congruence. }
        { apply (Hall i u); auto. rewrite nth_upd_other by auto. auto. }
      * intros i u Hu Hp. destruct (Nat.eq_dec i j) as [->|N].
        { rewrite Hj' in Hu. inv Hu. right. left. exact Rb. }
        { eapply Ifin; eauto. }
  - (* PUnlock: the operation commits; it joins the serial chain *)
    rewrite P in E.
    destruct (step_unlock _ _ _ _ _ _ _ _ E) as [Pg [-> Hp']].
    pose proof (same_store_at _ _ Pg) as Pat.
    assert (p' = PDone) as ->.
    { destruct Hp' as [->| ->]; auto. exfalso. eapply (reachable_no_crash _ _ R' j t'); eauto. }
    assert (Hint : t_inside t = true) by (unfold t_inside, t_kind; rewrite P; apply body_holding; auto).
    pose proof (Iin j t Nj Hint) as Hsolo. rewrite P in Hsolo. fold a in Hsolo.
    assert (Hnotin : ~ In j (map fst ch)).
    { intro Hc. destruct (in_fst _ _ Hc) as [r Hr]. destruct (Idone j r Hr) as [u [Hu [Hp _]]].
      rewrite Nj in Hu. inv Hu. congruence. }
    assert (Hnin : t_inside t' = false) by (unfold t_inside, t_kind, t'; cbn; destruct (o_kind (t_op t)); reflexivity).
    (* if another operation is inside on the same tract, everybody there is a reader and the tract is in its committed state *)
    assert (Hxm : forall i u, i <> j -> nth_error ths i = Some u -> t_inside u = true -> t_tract u = a -> at_ a g = xm a).
    { intros i u N Hu0 Hin Hb. apply Ird. intros v w Hw Hinw Hwb.
      destruct (Nat.eq_dec v j) as [->|Nv].
      - rewrite Nj in Hw. injection Hw as <-.
        destruct (both_readers V (g, ths) i j u t R N Hu0 Nj Hin Hint Hb) as [_ Hm]. exact Hm.
      - destruct (both_readers V (g, ths) v j w t R Nv Hw Nj Hinw Hint Hwb) as [Hm _]. exact Hm. }
    exists (ch ++ [(j, l_res (t_loc t))]), (updf xm a (at_ a g)). split; cbn [fst snd]; auto.
    + apply GSer_snoc with (x1 := xm) (o := t_op t) (v := at_ a g); [exact Iser | | | auto].
      * rewrite <- Iops. apply nth_map_op; auto.
      * exists (t_loc t). split; auto.
    + intros i r Hin. apply in_app_or in Hin. destruct Hin as [Hin|[Hin|[]]].
      * destruct (Idone i r Hin) as [u [Hu [Hp Hr]]].
        destruct (Nat.eq_dec i j) as [->|N]; [rewrite Nj in Hu; inv Hu; congruence|].
        exists u. rewrite nth_upd_other by auto. auto.
      * inv Hin. exists t'. auto.
    + intros i u Hu Hp. destruct (Nat.eq_dec i j) as [->|N].
      { rewrite Hj' in Hu. inv Hu. cbn in Hp. destruct Hp; discriminate. }
      { eapply Ifresh; eauto. }
    + intros i u Hu Hin. destruct (Nat.eq_dec i j) as [->|N].
      { rewrite Hj' in Hu. inv Hu. congruence. }
      pose proof (Hoth i u N Hu) as Hu0. rewrite Pat.
      destruct (Z.eq_dec (t_tract u) a) as [Hb|Hb].
      * rewrite Hb, updf_same. pose proof (Iin i u Hu0 Hin) as Hi. rewrite Hb in Hi.
        rewrite <- (Hxm i u N Hu0 Hin Hb) in Hi. exact Hi.
      * rewrite updf_other by auto. eapply Iin; eauto.
    + intros b Hall. rewrite Pat. destruct (Z.eq_dec b a) as [->|Nb]; [rewrite updf_same; reflexivity|].
      rewrite updf_other by auto. apply Ird. intros i u Hu Hin Hb. destruct (Nat.eq_dec i j) as [->|N].
      { rewrite Nj in Hu. injection Hu as <-. unfold a in Nb. congruence. }
      { apply (Hall i u); auto. rewrite nth_upd_other by auto. auto. }
    + intros i u Hu Hp. destruct (Nat.eq_dec i j) as [->|N].
      { rewrite Hj' in Hu. inv Hu. left. exists (l_res (t_loc t)). apply in_or_app. right. left. reflexivity. }
      { destruct (Ifin i u (Hoth i u N Hu) Hp) as [[r Hr]|Hr]; [left; exists r; apply in_or_app; auto|right; auto]. }
    + rewrite map_app. cbn. apply NoDup_snoc; auto.
  - (* a step inside the section *)
    assert (Hint : t_inside t = true) by (unfold t_inside, t_kind; apply body_holding; auto).
    assert (NL : t_pc t <> PLock) by (intro Hc; rewrite Hc in P; discriminate).
    assert (NU : t_pc t <> PUnlock) by (intro Hc; rewrite Hc in P; discriminate).
    destruct (step_other _ _ _ _ _ _ _ _ _ E NL NU) as [_ Hh].
    assert (Hint' : t_inside t' = true) by (unfold t_inside, t_kind, t'; cbn; rewrite Hh; exact Hint).
    pose proof (step_lstep _ _ _ _ _ _ _ _ _ P E) as Hbs. change (o_tract (t_op t)) with a in Hbs.
    assert (Hpure : lock_mode (t_kind t) = MR -> forall b, at_ b g' = at_ b g).
    { intro Hm. apply same_store_at. eapply reader_pure; eauto. apply mr_reader; auto. }
    assert (Hfr : forall b, b <> a -> at_ b g' = at_ b g) by (intros b Nb; eapply frame_at; eauto).
    exists ch, xm. split; cbn [fst snd]; auto.
    + apply Hdone_keep. intro Hc. rewrite Hc in P. discriminate.
    + intros i u Hu Hp. destruct (Nat.eq_dec i j) as [->|N].
      { rewrite Hj' in Hu. inv Hu. cbn in Hp. unfold t_inside, t_kind in Hint'. cbn in Hint'.
        destruct Hp as [Hp|Hp]; rewrite Hp in Hint'; destruct (o_kind (t_op t)); discriminate. }
      { eapply Ifresh; eauto. }
    + intros i u Hu Hin. destruct (Nat.eq_dec i j) as [->|N].
      { rewrite Hj' in Hu. injection Hu as <-. unfold t', t_kind, t_tract. cbn [t_op t_pc t_loc]. change (o_tract (t_op t)) with a.
        eapply ls_snoc; [apply (Iin j t Nj Hint) | exact P | exact Hbs]. }
      pose proof (Hoth i u N Hu) as Hu0.
      destruct (Z.eq_dec (t_tract u) a) as [Hb|Hb].
      * destruct (both_readers V (g, ths) i j u t R N Hu0 Nj Hin Hint Hb) as [_ Hm].
        rewrite (Hpure Hm). eapply Iin; eauto.
      * rewrite (Hfr _ Hb). eapply Iin; eauto.
    + intros b Hall. destruct (Z.eq_dec b a) as [->|Nb].
      * pose proof (Hall j t' Hj' Hint' eq_refl) as Hm. unfold t_kind, t' in Hm. cbn in Hm.
        rewrite (Hpure Hm). apply Ird. intros i u Hu Hin Hb. destruct (Nat.eq_dec i j) as [->|N].
        { rewrite Nj in Hu. injection Hu as <-. exact Hm. }
        { apply (Hall i u); auto. rewrite nth_upd_other by auto. auto. }
      * rewrite (Hfr _ Nb). apply Ird. intros i u Hu Hin Hb. destruct (Nat.eq_dec i j) as [->|N].
        { rewrite Nj in Hu. injection Hu as <-. unfold a in Nb. congruence. }
        { apply (Hall i u); auto. rewrite nth_upd_other by auto. auto. }
    + intros i u Hu Hp. destruct (Nat.eq_dec i j) as [->|N].
      { rewrite Hj' in Hu. inv Hu. cbn in Hp. unfold t_inside, t_kind in Hint'. cbn in Hint'. rewrite Hp in Hint'.
        destruct (o_kind (t_op t)); discriminate. }
      { eapply Ifin; eauto. }
Qed.

Lemma reachable_all_spawned : forall V g ops, init_g g -> reachable V (g, map new_thread ops).
Proof.
  intros V g ops Hg. induction ops as [|o ops IH] using rev_ind; cbn.
  - apply R_init; auto.
  - rewrite map_app. cbn. apply R_spawn. exact IH.
Qed.

Lemma sinv_init : forall V ops g, SInv V ops (fun a => at_ a g) (g, map new_thread ops) [] (fun a => at_ a g).
Proof.
  intros V ops g. split; cbn [fst snd].
  - rewrite map_map. cbn. apply map_id.
  - constructor. auto.
  - intros i r [].
  - intros i t H _. rewrite nth_error_map in H. destruct (nth_error ops i); inv H. reflexivity.
  - intros i t H Hin. rewrite nth_error_map in H. destruct (nth_error ops i); inv H.
    unfold t_inside, t_kind in Hin. cbn in Hin. destruct (o_kind o); discriminate.
  - auto.
  - intros i t H Hp. rewrite nth_error_map in H. destruct (nth_error ops i); inv H. discriminate.
  - constructor.
Qed.

Lemma sinv_run : forall V ops x0, Forall ok_op ops ->
  forall sched s ch xm, reachable V s -> SInv V ops x0 s ch xm ->
    exists ch' xm', reachable V (run_sched V s sched) /\ SInv V ops x0 (run_sched V s sched) ch' xm'.
Proof.
  intros V ops x0 OK. induction sched as [|[i inj] r IH]; intros s ch xm R I; cbn.
  - eauto.
  - destruct (sys_step V s i inj) as [s'|] eqn:E.
    + destruct (sinv_step V ops x0 s ch xm i inj s' R OK I E) as [ch' [xm' I']].
      eapply IH; eauto. eapply R_step; eauto.
    + eapply IH; eauto.
Qed.

(* serial equivalence, any number of tracts: every complete interleaved execution equals the serial execution of the
   operations that got their lock, in the order in which they released it; all other operations were refused *)
Theorem serial_equivalence_all_tracts : forall V ops g0 sched,
    init_g g0 -> Forall ok_op ops ->
    let s := run_sched V (g0, map new_thread ops) sched in
    quiescent s ->
    exists ch xf,
      GSer V ops (fun a => at_ a g0) ch xf /\ (forall a, at_ a (fst s) = xf a) /\ NoDup (map fst ch) /\
      (forall i r, In (i, r) ch -> exists t, nth_error (snd s) i = Some t /\ t_pc t = PDone /\ l_res (t_loc t) = r) /\
      (forall i t, nth_error (snd s) i = Some t -> (exists r, In (i, r) ch) \/ refusal (o_kind (t_op t)) (l_res (t_loc t))).
Proof.
  intros V ops g0 sched Hg OK s Q.
  destruct (sinv_run V ops (fun a => at_ a g0) OK sched (g0, map new_thread ops) [] (fun a => at_ a g0)
                     (reachable_all_spawned V g0 ops Hg) (sinv_init V ops g0)) as [ch [xm [R I]]].
  fold s in R, I. destruct I as [Iops Iser Idone Ifresh Iin Ird Ifin Ind].
  exists ch, xm. repeat split; auto.
  - intro a. apply Ird. intros i t Ht Hin _. unfold t_inside in Hin. rewrite (Q i t Ht) in Hin. destruct (t_kind t); discriminate.
  - intros i t Ht. apply (Ifin i t Ht). apply (Q i t Ht).
Qed.

(* ---------- any order of overlapping readers is a witness: readers leave their tract as they found it ---------- *)
Lemma lstep_reader : forall V x o p l inj x' p' l',
    is_reader (o_kind o) = true -> lstep V x o p l inj = Some (x', p', l') -> x' = x.
Proof.
  intros V x o p l inj x' p' l' HR H. unfold lstep in H.
  destruct (step V (embed_a (o_tract o) x) o p l inj) as [[[g' q] m]|] eqn:E; [|discriminate]. cbn in H. inv H.
  rewrite (same_store_at _ _ (reader_pure _ _ _ _ _ _ _ _ _ HR E)). apply at_embed.
Qed.

Lemma lsteps_reader : forall V o c0 c1, is_reader (o_kind o) = true -> lsteps V o c0 c1 -> fst (fst c1) = fst (fst c0).
Proof.
  intros V o c0 c1 HR H. induction H; auto. cbn in *.
  apply (lstep_reader _ _ _ _ _ _ _ _ _ HR) in H1. congruence.
Qed.

Lemma lsolo_reader : forall V o x r x', is_reader (o_kind o) = true -> lsolo V o x r x' -> x' = x.
Proof. intros V o x r x' HR [l [H _]]. exact (lsteps_reader _ _ _ _ HR H). Qed.

Lemma GSer_snoc_inv : forall V ops x0 ch i r x,
    GSer V ops x0 (ch ++ [(i, r)]) x ->
    exists x1 o v, GSer V ops x0 ch x1 /\ nth_error ops i = Some o /\ lsolo V o (x1 (o_tract o)) r v /\
                   (forall b, x b = updf x1 (o_tract o) v b).
Proof.
  intros V ops x0 ch i r x H. inversion H; subst.
  - exfalso. eapply app_cons_not_nil; eauto.
  - match goal with E : _ ++ [_] = _ ++ [_] |- _ => apply app_inj_tail in E; destruct E as [-> E2]; inv E2 end. eauto 10.
Qed.

(* two adjacent readers of a serial chain may be swapped: release order and acquisition order are both witnesses *)
Lemma GSer_swap_readers : forall V ops x0 ch i1 r1 i2 r2 x o1 o2,
    nth_error ops i1 = Some o1 -> nth_error ops i2 = Some o2 ->
    is_reader (o_kind o1) = true -> is_reader (o_kind o2) = true ->
    GSer V ops x0 ((ch ++ [(i1, r1)]) ++ [(i2, r2)]) x -> GSer V ops x0 ((ch ++ [(i2, r2)]) ++ [(i1, r1)]) x.
Proof.
  intros V ops x0 ch i1 r1 i2 r2 x o1 o2 N1 N2 R1 R2 H.
  destruct (GSer_snoc_inv _ _ _ _ _ _ _ H) as [xb [oo2 [v2 [Hb [Nb [Sb Eb]]]]]]. rewrite N2 in Nb. inv Nb.
  destruct (GSer_snoc_inv _ _ _ _ _ _ _ Hb) as [xa [oo1 [v1 [Ha [Na [Sa Ea]]]]]]. rewrite N1 in Na. inv Na.
  pose proof (lsolo_reader _ _ _ _ _ R1 Sa) as ->. pose proof (lsolo_reader _ _ _ _ _ R2 Sb) as ->.
  assert (Hxb : forall b, xb b = xa b).
  { intro b. rewrite Ea. unfold updf. destruct (b =? o_tract oo1) eqn:Q; auto. apply Z.eqb_eq in Q. subst. reflexivity. }
  assert (Hx : forall b, x b = xa b).
  { intro b. rewrite Eb. unfold updf. destruct (b =? o_tract oo2) eqn:Q; [apply Z.eqb_eq in Q; subst|]; apply Hxb. }
  eapply GSer_snoc with (x1 := xa) (o := oo1) (v := xa (o_tract oo1)); eauto.
  - eapply GSer_snoc with (x1 := xa) (o := oo2) (v := xa (o_tract oo2)); eauto.
    + rewrite <- Hxb. exact Sb.
    + intro b. unfold updf. destruct (b =? o_tract oo2) eqn:Q; auto. apply Z.eqb_eq in Q. subst. reflexivity.
  - intro b. rewrite Hx. unfold updf. destruct (b =? o_tract oo1) eqn:Q; auto. apply Z.eqb_eq in Q. subst. reflexivity.
Qed.

(* ---------- non-vacuity: solo runs compute what the operations do ---------- *)
Lemma ls_trans : forall V o x y z, lsteps V o x y -> lsteps V o y z -> lsteps V o x z.
Proof. intros V o x y z H1 H2. induction H2; auto. eapply ls_snoc; eauto. Qed.

Lemma ls_cons : forall V o x p l inj x' p' l' z,
    body_pc p = true -> lstep V x o p l inj = Some (x', p', l') -> lsteps V o (x', p', l') z ->
    lsteps V o (x, p, l) z.
Proof. intros. eapply ls_trans; [|eauto]. eapply ls_snoc; eauto. apply ls_refl. Qed.

Ltac solo_run := repeat (first [ apply ls_refl | eapply ls_cons with (inj := 0); [reflexivity | vm_compute; reflexivity | ] ]).

Example solo_write :
  lsolo repaired op_write (at_ 0 g_one_tract) [c18_e_NoError]
        (Some 1, Some {| f_fd := 1; f_ver := Some 2; f_data := [9; 2] |}, Some 2).
Proof. eexists. split; [solo_run | reflexivity]. Qed.

(* a write followed by a conditional bump carrying the stamp the write left (1): the chain the theorem speaks about *)
Example serial_chain_example :
  exists x2, GSer repaired [op_write; op_setversion_stale] (fun a => at_ a g_one_tract)
                  [(0%nat, [c18_e_NoError]); (1%nat, [c18_e_NoError; 3])] x2.
Proof.
  eexists.
  change [(0%nat, [c18_e_NoError]); (1%nat, [c18_e_NoError; 3])]
    with (([] ++ [(0%nat, [c18_e_NoError])]) ++ [(1%nat, [c18_e_NoError; 3])]).
  eapply GSer_snoc with (o := op_setversion_stale); [ | reflexivity | | intro b; reflexivity].
  - eapply GSer_snoc with (o := op_write); [constructor; reflexivity | reflexivity | | intro b; reflexivity].
    eexists. split; [solo_run | reflexivity].
  - eexists. split; [solo_run | reflexivity].
Qed.

(* ---------- the lock-free GC gone path (the code BEFORE fix ab74e69, program KGoneOld) is NOT serializable ---------- *)
(* GCTracts(gone) called removeTract without the tract lock: lookup under s.lock, Disk.Delete, map delete.  When that
   falls between the lookup and the Delete of PullTract's own removeTract, the copy-in's Delete fails with
   ErrNoSuchTract and PullTract returns that error although its only source delivered: in both serial orders it
   returns NoError. *)
Definition op_pull : opd :=
  {| o_kind := KPull; o_tract := 0; o_a1 := 3; o_a2 := 0; o_a3 := 0; o_data := []; o_srcs := [(c18_e_NoError, [5; 6])]; o_pack := [] |}.
Definition res_of (s : sys) (i : nat) : option (list Z) :=
  match nth_error (snd s) i with Some t => Some (l_res (t_loc t)) | None => None end.
Definition s_pull_gone : sys := (g_one_tract, [new_thread op_pull; new_thread op_gone]).
Definition sched_of (i : nat) (n : nat) : list (nat * Z) := repeat (i, 0) n.

Lemma gcgone_not_serializable :
  let inter := run_sched repaired s_pull_gone (sched_of 0 8 ++ sched_of 1 4 ++ sched_of 0 12) in
  let serA := run_sched repaired s_pull_gone (sched_of 0 40 ++ sched_of 1 10) in
  let serB := run_sched repaired s_pull_gone (sched_of 1 10 ++ sched_of 0 40) in
  all_done inter = true /\ all_done serA = true /\ all_done serB = true /\
  res_of inter 0 = Some [c18_e_NoSuchTract] /\ res_of serA 0 = Some [c18_e_NoError] /\ res_of serB 0 = Some [c18_e_NoError] /\
  at_ 0 (fst inter) = (None, None, Some 2).
Proof. vm_compute. repeat split; reflexivity. Qed.

(* the same schedule with the gone program of the current tree (fix ab74e69: WRITE lock around removeTract): the GC finds
   the long writer, skips the tract, and the copy-in succeeds *)
Definition op_gone_locked : opd := {| o_kind := KGCGone; o_tract := 0; o_a1 := 0; o_a2 := 0; o_a3 := 0; o_data := []; o_srcs := []; o_pack := [] |}.
Lemma gcgone_locked_same_schedule :
  let inter := run_sched repaired (g_one_tract, [new_thread op_pull; new_thread op_gone_locked]) (sched_of 0 8 ++ sched_of 1 4 ++ sched_of 0 30) in
  all_done inter = true /\ res_of inter 0 = Some [c18_e_NoError] /\ res_of inter 1 = Some [].
Proof. vm_compute. repeat split; reflexivity. Qed.
