(* C18/Serial.v — serial equivalence for operation sets on ONE tract.
   Every interleaved execution (any schedule, any oracle answers, any wake-up order) of operations on one tract is
   explained by a SERIAL chain: the operations that got the tract lock, taken in the order in which they released
   it (= acquisition order for exclusive operations; overlapping readers commute), each run ALONE from the state
   its predecessor left, produce exactly the per-operation results and the final tract-map/disk state of the
   interleaved execution; every other finished operation was refused without touching anything.
   Mover lemmas: body steps do not depend on the busy map or the open/close counters ([body_local]); reader steps
   do not change the serial state ([reader_pure]); sections exclude each other ([exclusion] of Proofs.v). *)
From Coq Require Import List ZArith Bool Lia Arith.
From Coq Require Import ZifyNat ZifyBool.
From BLB Require Import Gen.Consts C18.Model C18.Proofs C18.Proofs2.
Import ListNotations.
Open Scope Z_scope.

(* the serial-relevant part of the global state *)
Record sigma := { s_tracts : list (Z * Z); s_files : list (Z * file); s_nextfd : Z }.
Definition proj (g : gst) : sigma := {| s_tracts := g_tracts g; s_files := g_files g; s_nextfd := g_nextfd g |}.
Definition embed (x : sigma) : gst :=
  {| g_busy := []; g_tracts := s_tracts x; g_files := s_files x; g_nextfd := s_nextfd x; g_opens := 0; g_closes := 0 |}.

Definition lift (r : option (gst * pc * loc)) : option (sigma * pc * loc) :=
  match r with Some (g, p, l) => Some (proj g, p, l) | None => None end.

Definition body_pc (p : pc) : bool :=
  match p with PStart | PLock | PUnlock | PDone | PCrash => false | _ => true end.

Ltac dmg :=
  repeat match goal with
         | |- context [match ?x with _ => _ end] => destruct x eqn:?
         | |- context [if ?x then _ else _] => destruct x eqn:?
         end.

(* a body step sees and changes only the serial state: busy map and counters are irrelevant to it *)
Lemma body_local : forall V g g2 o p l inj,
    body_pc p = true -> proj g2 = proj g ->
    lift (step V g2 o p l inj) = lift (step V g o p l inj).
Proof.
  intros V [b t f n oo c] [b2 t2 f2 n2 oo2 c2] o p l inj Hb Hp.
  unfold proj in Hp. cbn in Hp. inv Hp.
  destruct p; try discriminate Hb;
    unfold step, rm_cont, create_cont, do_close, handle_file, opened_one, closed_one, created_file, with_tracts, with_files;
    cbn [g_busy g_tracts g_files g_nextfd g_opens g_closes];
    destruct (o_kind o); cbn [is_reader wr_pc andb]; destruct (l_opened l) eqn:?; cbn iota; dmg; reflexivity.
Qed.

(* the solo machine: a body step of an operation running alone on serial state x *)
Definition bstep (V : variant) (x : sigma) (o : opd) (p : pc) (l : loc) (inj : Z) : option (sigma * pc * loc) :=
  lift (step V (embed x) o p l inj).

Lemma step_bstep : forall V g o p l inj g' p' l',
    body_pc p = true -> step V g o p l inj = Some (g', p', l') ->
    bstep V (proj g) o p l inj = Some (proj g', p', l').
Proof.
  intros. unfold bstep. rewrite (body_local V g (embed (proj g)) o p l inj H) by reflexivity.
  rewrite H0. reflexivity.
Qed.

(* steps of readers never change the serial state *)
Lemma reader_pure : forall V g o p l inj g' p' l',
    is_reader (o_kind o) = true -> step V g o p l inj = Some (g', p', l') -> proj g' = proj g.
Proof.
  intros V g o p l inj g' p' l' HR H.
  destruct p; unfold step, rm_cont, create_cont, do_close, try_lock_once, unlock in H;
    destruct (o_kind o) eqn:K; try discriminate HR; cbn [is_reader wr_pc andb] in H; dmh; reflexivity.
Qed.

Lemma mr_reader : forall k, lock_mode k = MR -> k <> KGCGone -> is_reader k = true.
Proof. destruct k; cbn; congruence. Qed.

Definition refusal (k : kind) (r : list Z) : Prop :=
  r = busy_result k \/ r = [c18_e_BadVersion; 0] \/ r = [c18_e_InvalidArgument].

Definition entry_pc (k : kind) : pc :=
  match k with KCreate => PCLookup | KPull => PPullLoop | KPack => PRmLookup | KScrub => PScrub | _ => PLookup end.

Lemma step_start : forall V g o l inj g' p' l',
    o_kind o <> KGCGone -> step V g o PStart l inj = Some (g', p', l') ->
    g' = g /\ ((p' = PLock /\ l' = l) \/ (p' = PDone /\ refusal (o_kind o) (l_res l'))).
Proof.
  intros V g o l inj g' p' l' K H. unfold step in H. destruct (o_kind o) eqn:E; cbn in H; dmh; try congruence;
    split; auto; unfold refusal; cbn; auto.
Qed.

Lemma step_lock : forall V g o l inj g' p' l',
    o_kind o <> KGCGone -> step V g o PLock l inj = Some (g', p', l') ->
    proj g' = proj g /\ ((p' = entry_pc (o_kind o) /\ l' = l) \/ (p' = PDone /\ l_res l' = busy_result (o_kind o))).
Proof.
  intros V g o l inj g' p' l' K H. unfold step in H. destruct (o_kind o) eqn:E; cbn in H; dmh; try congruence;
    split; auto; cbn; auto.
Qed.

Lemma step_unlock : forall V g o l inj g' p' l',
    step V g o PUnlock l inj = Some (g', p', l') -> proj g' = proj g /\ l' = l /\ (p' = PDone \/ p' = PCrash).
Proof.
  intros V g o l inj g' p' l' H. unfold step in H. destruct (o_kind o) eqn:E; cbn in H; dmh; auto.
Qed.

Lemma body_holding : forall k p, k <> KGCGone -> (body_pc p = true \/ p = PUnlock) -> holding k p = true.
Proof. intros k p K H. destruct H as [H|H]; [|subst p]; destruct k; try congruence; try destruct p; cbn in *; congruence. Qed.

Lemma holding_pc : forall k p, holding k p = true -> body_pc p = true \/ p = PUnlock.
Proof. intros k p H. destruct k, p; cbn in *; auto; discriminate. Qed.

(* ---------- solo runs and serial chains ---------- *)
Inductive sigma_steps (V : variant) (o : opd) : sigma * pc * loc -> sigma * pc * loc -> Prop :=
| ss_refl : forall x, sigma_steps V o x x
| ss_snoc : forall x y p l inj y' p' l',
    sigma_steps V o x (y, p, l) -> body_pc p = true -> bstep V y o p l inj = Some (y', p', l') ->
    sigma_steps V o x (y', p', l').

(* operation o, alone, started on serial state x right after taking its lock, reaches its unlock with result r and state x' *)
Definition solo (V : variant) (o : opd) (x : sigma) (r : list Z) (x' : sigma) : Prop :=
  exists l, sigma_steps V o (x, entry_pc (o_kind o), loc0) (x', PUnlock, l) /\ l_res l = r.

Inductive Ser (V : variant) (ops : list opd) : sigma -> list (nat * list Z) -> sigma -> Prop :=
| Ser_nil : forall x, Ser V ops x [] x
| Ser_snoc : forall x0 ch x1 i o r x2,
    Ser V ops x0 ch x1 -> nth_error ops i = Some o -> solo V o x1 r x2 -> Ser V ops x0 (ch ++ [(i, r)]) x2.

Definition t_kind (t : thread) := o_kind (t_op t).
Definition t_inside (t : thread) : bool := holding (t_kind t) (t_pc t).

Record SInv (V : variant) (ops : list opd) (x0 : sigma) (s : sys) (ch : list (nat * list Z)) (xm : sigma) : Prop := {
  si_ops : map t_op (snd s) = ops;
  si_ser : Ser V ops x0 ch xm;
  si_done : forall i r, In (i, r) ch -> exists t, nth_error (snd s) i = Some t /\ t_pc t = PDone /\ l_res (t_loc t) = r;
  si_fresh : forall i t, nth_error (snd s) i = Some t -> (t_pc t = PStart \/ t_pc t = PLock) -> t_loc t = loc0;
  si_in : forall i t, nth_error (snd s) i = Some t -> t_inside t = true ->
                      sigma_steps V (t_op t) (xm, entry_pc (t_kind t), loc0) (proj (fst s), t_pc t, t_loc t);
  si_rd : (forall i t, nth_error (snd s) i = Some t -> t_inside t = true -> lock_mode (t_kind t) = MR) -> proj (fst s) = xm;
  si_fin : forall i t, nth_error (snd s) i = Some t -> t_pc t = PDone ->
                       (exists r, In (i, r) ch) \/ refusal (t_kind t) (l_res (t_loc t));
  si_nodup : NoDup (map fst ch)
}.

Definition ok_op (id : Z) (o : opd) : Prop := o_tract o = id /\ o_kind o <> KGCGone.

Lemma map_upd_op : forall (ths : list thread) i t p l,
    nth_error ths i = Some t -> map t_op (upd i {| t_op := t_op t; t_pc := p; t_loc := l |} ths) = map t_op ths.
Proof.
  induction ths as [|x r IH]; intros [|i] t p l H; cbn in *; try discriminate.
  - inv H. reflexivity.
  - f_equal. eauto.
Qed.

Lemma nth_map_op : forall (ths : list thread) i t, nth_error ths i = Some t -> nth_error (map t_op ths) i = Some (t_op t).
Proof. intros. rewrite nth_error_map, H. reflexivity. Qed.

Lemma in_fst : forall (ch : list (nat * list Z)) i, In i (map fst ch) -> exists r, In (i, r) ch.
Proof. induction ch as [|[j r] c IH]; cbn; intros i H; [tauto|]. destruct H as [->|H]; eauto. destruct (IH _ H); eauto. Qed.

Lemma inside_of : forall id t, o_tract (t_op t) = id -> t_inside t = true -> inside id t = true.
Proof. intros id t E H. unfold inside, t_inside, t_kind in *. rewrite H, E, Z.eqb_refl. reflexivity. Qed.

Lemma NoDup_snoc {A} : forall (l : list A) x, NoDup l -> ~ In x l -> NoDup (l ++ [x]).
Proof.
  induction l as [|a l IH]; intros x H N; cbn.
  - constructor; auto.
  - inversion H; subst. constructor.
    + intro Hc. apply in_app_or in Hc. destruct Hc as [Hc|[Hc|[]]]; [contradiction|]. subst. apply N. left. auto.
    + apply IH; auto. intro Hc. apply N. right. auto.
Qed.

Lemma pc_class : forall p, p = PStart \/ p = PLock \/ p = PUnlock \/ body_pc p = true \/ (p = PDone \/ p = PCrash).
Proof. destruct p; cbn; auto 10. Qed.

(* one step of the interleaved system preserves the serial explanation *)
Lemma sinv_step : forall V id ops x0 s ch xm j inj s',
    reachable V s -> Forall (ok_op id) ops ->
    SInv V ops x0 s ch xm -> sys_step V s j inj = Some s' ->
    exists ch' xm', SInv V ops x0 s' ch' xm'.
Proof.
  intros V id ops x0 [g ths] ch xm j inj s' R OK I St.
  pose proof (R_step _ _ _ _ _ R St) as R'.
  unfold sys_step in St.
  destruct (nth_error ths j) as [t|] eqn:Nj; [|discriminate].
  destruct (step V g (t_op t) (t_pc t) (t_loc t) inj) as [[[g' p'] l']|] eqn:E; [|discriminate]. inv St.
  destruct I as [Iops Iser Idone Ifresh Iin Ird Ifin Ind]. cbn [fst snd] in *.
  assert (OKt : ok_op id (t_op t)).
  { rewrite Forall_forall in OK. apply OK. rewrite <- Iops. apply in_map. eapply nth_error_In; eauto. }
  destruct OKt as [Tid Tk].
  assert (OKall : forall i u, nth_error ths i = Some u -> ok_op id (t_op u)).
  { intros i u Hu. rewrite Forall_forall in OK. apply OK. rewrite <- Iops. apply in_map. eapply nth_error_In; eauto. }
  set (t' := {| t_op := t_op t; t_pc := p'; t_loc := l' |}).
  assert (Hops' : map t_op (upd j t' ths) = ops) by (unfold t'; rewrite (map_upd_op ths j t p' l' Nj); auto).
  (* facts about other threads after the step *)
  assert (Hoth : forall i u, i <> j -> nth_error (upd j t' ths) i = Some u -> nth_error ths i = Some u)
    by (intros i u N H; rewrite nth_upd_other in H by auto; auto).
  assert (Hj' : nth_error (upd j t' ths) j = Some t') by (eapply nth_upd_same; eauto).
  destruct (pc_class (t_pc t)) as [P|[P|[P|[P|P]]]].
  5: { destruct P as [P|P]; rewrite P in E; unfold step in E;
       destruct (is_reader (o_kind (t_op t))); cbn in E; discriminate. }
  - (* PStart *)
    rewrite P in E.
    destruct (step_start _ _ _ _ _ _ _ _ Tk E) as [-> [[-> ->]|[-> Rf]]].
    + exists ch, xm. split; cbn [fst snd]; auto.
      * intros i r Hin. destruct (Idone i r Hin) as [u [Hu [Hp Hr]]].
        destruct (Nat.eq_dec i j) as [->|N]; [rewrite Nj in Hu; inv Hu; congruence|].
        exists u. rewrite nth_upd_other by auto. auto.
      * intros i u Hu Hp. destruct (Nat.eq_dec i j) as [->|N].
        { rewrite Hj' in Hu. inv Hu. cbn. apply (Ifresh j t Nj). auto. }
        { eapply Ifresh; eauto. }
      * intros i u Hu Hin. destruct (Nat.eq_dec i j) as [->|N].
        { rewrite Hj' in Hu. inv Hu. unfold t_inside, t_kind in Hin. cbn in Hin. destruct (o_kind (t_op t)); discriminate. }
        { eapply Iin; eauto. }
      * intros Hall. apply Ird. intros i u Hu Hin. destruct (Nat.eq_dec i j) as [->|N].
        { rewrite Nj in Hu. inv Hu. unfold t_inside, t_kind in Hin. rewrite P in Hin. destruct (o_kind (t_op u)); discriminate. }
        { apply (Hall i u); auto. rewrite nth_upd_other by auto. auto. }
      * intros i u Hu Hp. destruct (Nat.eq_dec i j) as [->|N].
        { rewrite Hj' in Hu. inv Hu. discriminate. }
        { eapply Ifin; eauto. }
    + exists ch, xm. split; cbn [fst snd]; auto.
      * intros i r Hin. destruct (Idone i r Hin) as [u [Hu [Hp Hr]]].
        destruct (Nat.eq_dec i j) as [->|N]; [rewrite Nj in Hu; inv Hu; congruence|].
        exists u. rewrite nth_upd_other by auto. auto.
      * intros i u Hu Hp. destruct (Nat.eq_dec i j) as [->|N].
        { rewrite Hj' in Hu. inv Hu. cbn in Hp. destruct Hp; discriminate. }
        { eapply Ifresh; eauto. }
      * intros i u Hu Hin. destruct (Nat.eq_dec i j) as [->|N].
        { rewrite Hj' in Hu. inv Hu. unfold t_inside, t_kind in Hin. cbn in Hin. destruct (o_kind (t_op t)); discriminate. }
        { eapply Iin; eauto. }
      * intros Hall. apply Ird. intros i u Hu Hin. destruct (Nat.eq_dec i j) as [->|N].
        { rewrite Nj in Hu. inv Hu. unfold t_inside, t_kind in Hin. rewrite P in Hin. destruct (o_kind (t_op u)); discriminate. }
        { apply (Hall i u); auto. rewrite nth_upd_other by auto. auto. }
      * intros i u Hu Hp. destruct (Nat.eq_dec i j) as [->|N].
        { rewrite Hj' in Hu. inv Hu. right. exact Rf. }
        { eapply Ifin; eauto. }
  - (* PLock *)
    rewrite P in E.
    destruct (step_lock _ _ _ _ _ _ _ _ Tk E) as [Pg [[-> ->]|[-> Rb]]].
    + (* acquired *)
      assert (Hin' : t_inside t' = true).
      { unfold t_inside, t_kind, t'. cbn. apply body_holding; auto. destruct (o_kind (t_op t)); cbn; auto; congruence. }
      (* everybody inside before is a reader or nobody is inside: in both cases the state is the committed one *)
      assert (Hxm : proj g = xm).
      { apply Ird. intros i u Hu Hin. destruct (Nat.eq_dec i j) as [->|N].
        { rewrite Nj in Hu. inv Hu. unfold t_inside, t_kind in Hin. rewrite P in Hin. destruct (o_kind (t_op u)); discriminate. }
        assert (Hu' : nth_error (upd j t' ths) i = Some u) by (rewrite nth_upd_other by auto; auto).
        destruct (OKall i u Hu) as [Uid _].
        destruct (exclusion V (g', upd j t' ths) i j u t' id R' N Hu' Hj'
                            (inside_of id u Uid Hin) (inside_of id t' Tid Hin')) as [Hm _]. exact Hm. }
      exists ch, xm. split; cbn [fst snd]; auto.
      * intros i r Hin. destruct (Idone i r Hin) as [u [Hu [Hp Hr]]].
        destruct (Nat.eq_dec i j) as [->|N]; [rewrite Nj in Hu; inv Hu; congruence|].
        exists u. rewrite nth_upd_other by auto. auto.
      * intros i u Hu Hp. destruct (Nat.eq_dec i j) as [->|N].
        { rewrite Hj' in Hu. inv Hu. cbn in Hp. destruct (o_kind (t_op t)); cbn in Hp; destruct Hp; discriminate. }
        { eapply Ifresh; eauto. }
      * intros i u Hu Hin. rewrite Pg. destruct (Nat.eq_dec i j) as [->|N].
        { rewrite Hj' in Hu. inv Hu. unfold t', t_kind. cbn [t_op t_pc t_loc].
          rewrite (Ifresh j t Nj (or_intror P)). try rewrite Hxm. apply ss_refl. }
        { eapply Iin; eauto. }
      * intros _. rewrite Pg. exact Hxm.
      * intros i u Hu Hp. destruct (Nat.eq_dec i j) as [->|N].
        { rewrite Hj' in Hu. inv Hu. cbn in Hp. destruct (o_kind (t_op t)); discriminate. }
        { eapply Ifin; eauto. }
    + (* refused at once *)
      exists ch, xm. split; cbn [fst snd]; auto.
      * intros i r Hin. destruct (Idone i r Hin) as [u [Hu [Hp Hr]]].
        destruct (Nat.eq_dec i j) as [->|N]; [rewrite Nj in Hu; inv Hu; congruence|].
        exists u. rewrite nth_upd_other by auto. auto.
      * intros i u Hu Hp. destruct (Nat.eq_dec i j) as [->|N].
        { rewrite Hj' in Hu. inv Hu. cbn in Hp. destruct Hp; discriminate. }
        { eapply Ifresh; eauto. }
      * intros i u Hu Hin. rewrite Pg. destruct (Nat.eq_dec i j) as [->|N].
        { rewrite Hj' in Hu. inv Hu. unfold t_inside, t_kind in Hin. cbn in Hin. destruct (o_kind (t_op t)); discriminate. }
        { eapply Iin; eauto. }
      * intros Hall. rewrite Pg. apply Ird. intros i u Hu Hin. destruct (Nat.eq_dec i j) as [->|N].
        { rewrite Nj in Hu. inv Hu. unfold t_inside, t_kind in Hin. rewrite P in Hin. destruct (o_kind (t_op u)); discriminate. }
        { apply (Hall i u); auto. rewrite nth_upd_other by auto. auto. }
      * intros i u Hu Hp. destruct (Nat.eq_dec i j) as [->|N].
        { rewrite Hj' in Hu. inv Hu. right. left. exact Rb. }
        { eapply Ifin; eauto. }
  - (* PUnlock: the operation commits; it joins the serial chain *)
    rewrite P in E.
    destruct (step_unlock _ _ _ _ _ _ _ _ E) as [Pg [-> Hp']].
    assert (p' = PDone) as ->.
    { destruct Hp' as [->| ->]; auto. exfalso. eapply (reachable_no_crash _ _ R' j t'); eauto. }
    assert (Hint : t_inside t = true) by (unfold t_inside, t_kind; rewrite P; apply body_holding; auto).
    pose proof (Iin j t Nj Hint) as Hsolo. rewrite P in Hsolo.
    assert (Hnotin : ~ In j (map fst ch)).
    { intro Hc. destruct (in_fst _ _ Hc) as [r Hr]. destruct (Idone j r Hr) as [u [Hu [Hp _]]].
      rewrite Nj in Hu. inv Hu. congruence. }
    exists (ch ++ [(j, l_res (t_loc t))]), (proj g'). split; cbn [fst snd]; auto.
    + apply Ser_snoc with (x1 := xm) (o := t_op t); [exact Iser | |].
      * rewrite <- Iops. apply nth_map_op; auto.
      * exists (t_loc t). split; auto. rewrite Pg. exact Hsolo.
    + intros i r Hin. apply in_app_or in Hin. destruct Hin as [Hin|[Hin|[]]].
      * destruct (Idone i r Hin) as [u [Hu [Hp Hr]]].
        destruct (Nat.eq_dec i j) as [->|N]; [rewrite Nj in Hu; inv Hu; congruence|].
        exists u. rewrite nth_upd_other by auto. auto.
      * inv Hin. exists t'. auto.
    + intros i u Hu Hp. destruct (Nat.eq_dec i j) as [->|N].
      { rewrite Hj' in Hu. inv Hu. cbn in Hp. destruct Hp; discriminate. }
      { eapply Ifresh; eauto. }
    + intros i u Hu Hin. destruct (Nat.eq_dec i j) as [->|N].
      { rewrite Hj' in Hu. inv Hu. unfold t_inside, t_kind in Hin. cbn in Hin. destruct (o_kind (t_op t)); discriminate. }
      pose proof (Hoth i u N Hu) as Hu0.
      assert (Hxm : proj g = xm).
      { apply Ird. intros v w Hw Hinw. destruct (OKall v w Hw) as [Wid _]. destruct (OKall i u Hu0) as [Uid _].
        destruct (Nat.eq_dec v j) as [->|Nv].
        - rewrite Nj in Hw. injection Hw as <-.
          destruct (exclusion V (g, ths) i j u t id R N Hu0 Nj (inside_of id u Uid Hin) (inside_of id t Tid Hint)) as [_ Hm]. exact Hm.
        - destruct (exclusion V (g, ths) v j w t id R Nv Hw Nj (inside_of id w Wid Hinw) (inside_of id t Tid Hint)) as [Hm _]. exact Hm. }
      rewrite Pg. pose proof (Iin i u Hu0 Hin) as Hi. rewrite <- Hxm in Hi. exact Hi.
    + intros i u Hu Hp. destruct (Nat.eq_dec i j) as [->|N].
      { rewrite Hj' in Hu. inv Hu. left. exists (l_res (t_loc t)). apply in_or_app. right. left. reflexivity. }
      { destruct (Ifin i u (Hoth i u N Hu) Hp) as [[r Hr]|Hr]; [left; exists r; apply in_or_app; auto|right; auto]. }
    + rewrite map_app. cbn. apply NoDup_snoc; auto.
  - (* a step inside the section *)
    assert (Hint : t_inside t = true) by (unfold t_inside, t_kind; apply body_holding; auto).
    assert (NL : t_pc t <> PLock) by (intro Hc; rewrite Hc in P; discriminate).
    assert (NU : t_pc t <> PUnlock) by (intro Hc; rewrite Hc in P; discriminate).
    destruct (step_other _ _ _ _ _ _ _ _ _ E NL NU) as [_ Hh].
    assert (Hint' : t_inside t' = true) by (unfold t_inside, t_kind, t'; cbn; rewrite Hh; exact Hint).
    pose proof (step_bstep _ _ _ _ _ _ _ _ _ P E) as Hbs.
    assert (Hpure : lock_mode (t_kind t) = MR -> proj g' = proj g).
    { intro Hm. eapply reader_pure; eauto. apply mr_reader; auto. }
    exists ch, xm. split; cbn [fst snd]; auto.
    + intros i r Hin. destruct (Idone i r Hin) as [u [Hu [Hp Hr]]].
      destruct (Nat.eq_dec i j) as [->|N]; [rewrite Nj in Hu; inv Hu; rewrite Hp in P; discriminate|].
      exists u. rewrite nth_upd_other by auto. auto.
    + intros i u Hu Hp. destruct (Nat.eq_dec i j) as [->|N].
      { rewrite Hj' in Hu. inv Hu. cbn in Hp. unfold t_inside, t_kind in Hint'. cbn in Hint'.
        destruct Hp as [Hp|Hp]; rewrite Hp in Hint'; destruct (o_kind (t_op t)); discriminate. }
      { eapply Ifresh; eauto. }
    + intros i u Hu Hin. destruct (Nat.eq_dec i j) as [->|N].
      { rewrite Hj' in Hu. inv Hu. unfold t', t_kind. cbn [t_op t_pc t_loc]. eapply ss_snoc; [apply (Iin j t Nj Hint) | exact P | exact Hbs]. }
      pose proof (Hoth i u N Hu) as Hu0.
      destruct (OKall i u Hu0) as [Uid _].
      destruct (exclusion V (g, ths) i j u t id R N Hu0 Nj (inside_of id u Uid Hin) (inside_of id t Tid Hint)) as [_ Hm].
      rewrite (Hpure Hm). eapply Iin; eauto.
    + intros Hall. pose proof (Hall j t' Hj' Hint') as Hm. unfold t_kind, t' in Hm. cbn in Hm.
      rewrite (Hpure Hm). apply Ird. intros i u Hu Hin. destruct (Nat.eq_dec i j) as [->|N].
      { rewrite Nj in Hu. inv Hu. exact Hm. }
      { apply (Hall i u); auto. rewrite nth_upd_other by auto. auto. }
    + intros i u Hu Hp. destruct (Nat.eq_dec i j) as [->|N].
      { rewrite Hj' in Hu. inv Hu. cbn in Hp. unfold t_inside, t_kind in Hint'. cbn in Hint'. rewrite Hp in Hint'.
        destruct (o_kind (t_op t)); discriminate. }
      { eapply Ifin; eauto. }
Qed.


Lemma reachable_all_spawned : forall V g ops, init_g g -> reachable V (g, map new_thread ops).
Proof.
  intros V g ops Hg. induction ops as [|o ops IH] using rev_ind; cbn.
  - apply R_init; auto.
  - rewrite map_app. cbn. apply R_spawn. exact IH.
Qed.

Lemma sinv_init : forall V ops g, SInv V ops (proj g) (g, map new_thread ops) [] (proj g).
Proof.
  intros V ops g. split; cbn [fst snd].
  - rewrite map_map. cbn. apply map_id.
  - constructor.
  - intros i r [].
  - intros i t H _. rewrite nth_error_map in H. destruct (nth_error ops i); inv H. reflexivity.
  - intros i t H Hin. rewrite nth_error_map in H. destruct (nth_error ops i); inv H.
    unfold t_inside, t_kind in Hin. cbn in Hin. destruct (o_kind o); discriminate.
  - auto.
  - intros i t H Hp. rewrite nth_error_map in H. destruct (nth_error ops i); inv H. discriminate.
  - constructor.
Qed.

Lemma sinv_run : forall V id ops x0, Forall (ok_op id) ops ->
  forall sched s ch xm, reachable V s -> SInv V ops x0 s ch xm ->
    exists ch' xm', reachable V (run_sched V s sched) /\ SInv V ops x0 (run_sched V s sched) ch' xm'.
Proof.
  intros V id ops x0 OK. induction sched as [|[i inj] r IH]; intros s ch xm R I; cbn.
  - eauto.
  - destruct (sys_step V s i inj) as [s'|] eqn:E.
    + destruct (sinv_step V id ops x0 s ch xm i inj s' R OK I E) as [ch' [xm' I']].
      eapply IH; eauto. eapply R_step; eauto.
    + eapply IH; eauto.
Qed.

(* serial equivalence, one tract: every complete interleaved execution equals the serial execution of the operations
   that got the lock, in the order in which they released it; all other operations were refused and changed nothing *)
Theorem serial_equivalence_one_tract : forall V id ops g0 sched,
    init_g g0 -> Forall (ok_op id) ops ->
    let s := run_sched V (g0, map new_thread ops) sched in
    quiescent s ->
    exists ch,
      Ser V ops (proj g0) ch (proj (fst s)) /\ NoDup (map fst ch) /\
      (forall i r, In (i, r) ch -> exists t, nth_error (snd s) i = Some t /\ t_pc t = PDone /\ l_res (t_loc t) = r) /\
      (forall i t, nth_error (snd s) i = Some t -> (exists r, In (i, r) ch) \/ refusal (o_kind (t_op t)) (l_res (t_loc t))).
Proof.
  intros V id ops g0 sched Hg OK s Q.
  destruct (sinv_run V id ops (proj g0) OK sched (g0, map new_thread ops) [] (proj g0)
                     (reachable_all_spawned V g0 ops Hg) (sinv_init V ops g0)) as [ch [xm [R I]]].
  fold s in R, I. destruct I as [Iops Iser Idone Ifresh Iin Ird Ifin Ind].
  assert (Hx : proj (fst s) = xm).
  { apply Ird. intros i t Ht Hin. unfold t_inside in Hin. rewrite (Q i t Ht) in Hin. destruct (t_kind t); discriminate. }
  exists ch. rewrite Hx. repeat split; auto.
  intros i t Ht. apply (Ifin i t Ht). apply (Q i t Ht).
Qed.

(* ---------- non-vacuity: solo runs compute what the operations do ---------- *)
Lemma ss_trans : forall V o x y z, sigma_steps V o x y -> sigma_steps V o y z -> sigma_steps V o x z.
Proof. intros V o x y z H1 H2. induction H2; auto. eapply ss_snoc; eauto. Qed.

Lemma ss_cons : forall V o x p l inj x' p' l' z,
    body_pc p = true -> bstep V x o p l inj = Some (x', p', l') -> sigma_steps V o (x', p', l') z ->
    sigma_steps V o (x, p, l) z.
Proof. intros. eapply ss_trans; [|eauto]. eapply ss_snoc; eauto. apply ss_refl. Qed.

Ltac solo_run := repeat (first [ apply ss_refl | eapply ss_cons with (inj := 0); [reflexivity | vm_compute; reflexivity | ] ]).

Example solo_write :
  solo repaired op_write (proj g_one_tract) [c18_e_NoError]
       {| s_tracts := [(0, 1)]; s_files := [(0, {| f_fd := 1; f_ver := Some 2; f_data := [9; 2] |})]; s_nextfd := 2 |}.
Proof. eexists. split; [solo_run | reflexivity]. Qed.

(* a write followed by a conditional bump carrying the stamp the write left (1): the chain the theorem speaks about *)
Example serial_chain_example :
  exists x2, Ser repaired [op_write; op_setversion_stale] (proj g_one_tract)
                 [(0%nat, [c18_e_NoError]); (1%nat, [c18_e_NoError; 3])] x2.
Proof.
  eexists.
  change [(0%nat, [c18_e_NoError]); (1%nat, [c18_e_NoError; 3])]
    with (([] ++ [(0%nat, [c18_e_NoError])]) ++ [(1%nat, [c18_e_NoError; 3])]).
  eapply Ser_snoc with (o := op_setversion_stale); [ | reflexivity | ].
  - eapply Ser_snoc with (o := op_write); [constructor | reflexivity | ].
    eexists. split; [solo_run | reflexivity].
  - eexists. split; [solo_run | reflexivity].
Qed.
