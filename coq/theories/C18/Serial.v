(* C18/Serial.v — serial equivalence over any number of tracts: the invariant and the theorem (see SerialBase.v). *)
From Coq Require Import List ZArith Bool Lia Arith.
From Coq Require Import ZifyNat ZifyBool.
From BLB Require Import Gen.Consts C18.Model C18.Proofs C18.Proofs2 C18.SerialBase.
Import ListNotations.
Open Scope Z_scope.

Lemma updf_same : forall x a v, updf x a v a = v.
Proof. intros. unfold updf. rewrite Z.eqb_refl. reflexivity. Qed.
Lemma updf_other : forall x a v b, b <> a -> updf x a v b = x b.
Proof. intros. unfold updf. destruct (b =? a) eqn:E; auto. apply Z.eqb_eq in E. congruence. Qed.

(* one step of the interleaved system preserves the serial explanation *)
Lemma sinv_step : forall V ops x0 s ch xm j inj s',
    reachable V s -> Forall ok_op ops ->
    SInv V ops x0 s ch xm -> sys_step V s j inj = Some s' ->
    exists ch' xm', SInv V ops x0 s' ch' xm'.
Proof.
  intros V ops x0 [g ths] ch xm j inj s' R OK I St.
  pose proof (R_step _ _ _ _ _ R St) as R'.
  unfold sys_step in St.
  destruct (nth_error ths j) as [t|] eqn:Nj; [|discriminate].
  destruct (step V g (t_op t) (t_pc t) (t_loc t) inj) as [[[g' p'] l']|] eqn:E; [|discriminate]. inv St.
  destruct I as [Iops Iser Idone Ifresh Iin Ird Ifin Ind]. cbn [fst snd] in *.
  assert (Tk : o_kind (t_op t) <> KGCGone).
  { rewrite Forall_forall in OK. apply OK. rewrite <- Iops. apply in_map. eapply nth_error_In; eauto. }
  set (a := t_tract t).
  set (t' := {| t_op := t_op t; t_pc := p'; t_loc := l' |}).
  assert (Hops' : map t_op (upd j t' ths) = ops) by (unfold t'; rewrite (map_upd_op ths j t p' l' Nj); auto).
  assert (Hoth : forall i u, i <> j -> nth_error (upd j t' ths) i = Some u -> nth_error ths i = Some u)
    by (intros i u N H; rewrite nth_upd_other in H by auto; auto).
  assert (Hj' : nth_error (upd j t' ths) j = Some t') by (eapply nth_upd_same; eauto).
  (* generic transfer of the facts that do not concern thread j when the store is unchanged *)
  assert (Hdone_keep : t_pc t <> PDone -> forall i r, In (i, r) ch ->
            exists u, nth_error (upd j t' ths) i = Some u /\ t_pc u = PDone /\ l_res (t_loc u) = r).
  { intros Hnd i r Hin. destruct (Idone i r Hin) as [u [Hu [Hp Hr]]].
    destruct (Nat.eq_dec i j) as [->|N]; [rewrite Nj in Hu; inv Hu; congruence|].
    exists u. rewrite nth_upd_other by auto. auto. }
  destruct (pc_class (t_pc t)) as [P|[P|[P|[P|P]]]].
  5: { destruct P as [P|P]; rewrite P in E; unfold step in E;
       destruct (is_reader (o_kind (t_op t))); cbn in E; discriminate. }
  - (* PStart *)
    rewrite P in E.
    destruct (step_start _ _ _ _ _ _ _ _ Tk E) as [-> Hcase].
    assert (Hnin : t_inside t' = false).
    { unfold t_inside, t_kind, t'. cbn. destruct Hcase as [[-> _]|[-> _]]; destruct (o_kind (t_op t)); reflexivity. }
    assert (Hnin0 : t_inside t = false) by (unfold t_inside, t_kind; rewrite P; destruct (o_kind (t_op t)); reflexivity).
    exists ch, xm. split; cbn [fst snd]; auto.
    + apply Hdone_keep. congruence.
    + intros i u Hu Hp. destruct (Nat.eq_dec i j) as [->|N].
      { rewrite Hj' in Hu. inv Hu. cbn in Hp. destruct Hcase as [[-> ->]|[-> _]].
        - apply (Ifresh j t Nj). auto.
        - destruct Hp; discriminate. }
      { eapply Ifresh; eauto. }
    + intros i u Hu Hin. destruct (Nat.eq_dec i j) as [->|N].
      { rewrite Hj' in Hu. inv Hu. congruence. }
      { eapply Iin; eauto. }
    + intros b Hall. apply Ird. intros i u Hu Hin Hb. destruct (Nat.eq_dec i j) as [->|N].
      { rewrite Nj in Hu. inv Hu. congruence. }
      { apply (Hall i u); auto. rewrite nth_upd_other by auto. auto. }
    + intros i u Hu Hp. destruct (Nat.eq_dec i j) as [->|N].
      { rewrite Hj' in Hu. inv Hu. cbn in Hp. destruct Hcase as [[-> _]|[_ Rf]]; [discriminate|]. right. exact Rf. }
      { eapply Ifin; eauto. }
  - (* PLock *)
    rewrite P in E.
    destruct (step_lock _ _ _ _ _ _ _ _ Tk E) as [Pg Hcase].
    pose proof (same_store_at _ _ Pg) as Pat.
    assert (Hnin0 : t_inside t = false) by (unfold t_inside, t_kind; rewrite P; destruct (o_kind (t_op t)); reflexivity).
    destruct Hcase as [[-> ->]|[-> Rb]].
    + (* acquired *)
      assert (Hin' : t_inside t' = true).
      { unfold t_inside, t_kind, t'. cbn. apply body_holding; auto. destruct (o_kind (t_op t)); cbn; auto; congruence. }
      assert (Hxm : at_ a g = xm a).
      { apply Ird. intros i u Hu Hin Hb. destruct (Nat.eq_dec i j) as [->|N].
        { rewrite Nj in Hu. inv Hu. congruence. }
        assert (Hu' : nth_error (upd j t' ths) i = Some u) by (rewrite nth_upd_other by auto; auto).
        destruct (both_readers V (g', upd j t' ths) i j u t' R' N Hu' Hj' Hin Hin' Hb) as [Hm _]. exact Hm. }
      exists ch, xm. split; cbn [fst snd]; auto.
      * apply Hdone_keep. congruence.
      * intros i u Hu Hp. destruct (Nat.eq_dec i j) as [->|N].
        { rewrite Hj' in Hu. inv Hu. cbn in Hp. destruct (o_kind (t_op t)); cbn in Hp; destruct Hp; discriminate. }
        { eapply Ifresh; eauto. }
      * intros i u Hu Hin. rewrite Pat. destruct (Nat.eq_dec i j) as [->|N].
        { rewrite Hj' in Hu. injection Hu as <-. unfold t', t_kind, t_tract. cbn [t_op t_pc t_loc].
          rewrite (Ifresh j t Nj (or_intror P)). change (o_tract (t_op t)) with a. rewrite Hxm. apply ls_refl. }
        { eapply Iin; eauto. }
      * intros b Hall. rewrite Pat. destruct (Z.eq_dec b a) as [->|Nb]; [exact Hxm|].
        apply Ird. intros i u Hu Hin Hb. destruct (Nat.eq_dec i j) as [->|N].
        { rewrite Nj in Hu. inv Hu. congruence. }
        { apply (Hall i u); auto. rewrite nth_upd_other by auto. auto. }
      * intros i u Hu Hp. destruct (Nat.eq_dec i j) as [->|N].
        { rewrite Hj' in Hu. inv Hu. cbn in Hp. destruct (o_kind (t_op t)); discriminate. }
        { eapply Ifin; eauto. }
    + (* refused at once *)
      assert (Hnin : t_inside t' = false) by (unfold t_inside, t_kind, t'; cbn; destruct (o_kind (t_op t)); reflexivity).
      exists ch, xm. split; cbn [fst snd]; auto.
      * apply Hdone_keep. congruence.
      * intros i u Hu Hp. destruct (Nat.eq_dec i j) as [->|N].
        { rewrite Hj' in Hu. inv Hu. cbn in Hp. destruct Hp; discriminate. }
        { eapply Ifresh; eauto. }
      * intros i u Hu Hin. rewrite Pat. destruct (Nat.eq_dec i j) as [->|N].
        { rewrite Hj' in Hu. inv Hu. congruence. }
        { eapply Iin; eauto. }
      * intros b Hall. rewrite Pat. apply Ird. intros i u Hu Hin Hb. destruct (Nat.eq_dec i j) as [->|N].
        { rewrite Nj in Hu. inv Hu. congruence. }
        { apply (Hall i u); auto. rewrite nth_upd_other by auto. auto. }
      * intros i u Hu Hp. destruct (Nat.eq_dec i j) as [->|N].
        { rewrite Hj' in Hu. inv Hu. right. left. exact Rb. }
        { eapply Ifin; eauto. }
  - (* PUnlock: the operation commits; it joins the serial chain *)
    rewrite P in E.
    destruct (step_unlock _ _ _ _ _ _ _ _ E) as [Pg [-> Hp']].
    pose proof (same_store_at _ _ Pg) as Pat.
    assert (p' = PDone) as ->.
    { destruct Hp' as [->| ->]; auto. exfalso. eapply (reachable_no_crash _ _ R' j t'); eauto. }
    assert (Hint : t_inside t = true) by (unfold t_inside, t_kind; rewrite P; apply body_holding; auto).
    pose proof (Iin j t Nj Hint) as Hsolo. rewrite P in Hsolo. fold a in Hsolo.
    assert (Hnotin : ~ In j (map fst ch)).
    { intro Hc. destruct (in_fst _ _ Hc) as [r Hr]. destruct (Idone j r Hr) as [u [Hu [Hp _]]].
      rewrite Nj in Hu. inv Hu. congruence. }
    assert (Hnin : t_inside t' = false) by (unfold t_inside, t_kind, t'; cbn; destruct (o_kind (t_op t)); reflexivity).
    (* if another operation is inside on the same tract, everybody there is a reader and the tract is in its committed state *)
    assert (Hxm : forall i u, i <> j -> nth_error ths i = Some u -> t_inside u = true -> t_tract u = a -> at_ a g = xm a).
    { intros i u N Hu0 Hin Hb. apply Ird. intros v w Hw Hinw Hwb.
      destruct (Nat.eq_dec v j) as [->|Nv].
      - rewrite Nj in Hw. injection Hw as <-.
        destruct (both_readers V (g, ths) i j u t R N Hu0 Nj Hin Hint Hb) as [_ Hm]. exact Hm.
      - destruct (both_readers V (g, ths) v j w t R Nv Hw Nj Hinw Hint Hwb) as [Hm _]. exact Hm. }
    exists (ch ++ [(j, l_res (t_loc t))]), (updf xm a (at_ a g)). split; cbn [fst snd]; auto.
    + apply GSer_snoc with (x1 := xm) (o := t_op t) (v := at_ a g); [exact Iser | | | auto].
      * rewrite <- Iops. apply nth_map_op; auto.
      * exists (t_loc t). split; auto.
    + intros i r Hin. apply in_app_or in Hin. destruct Hin as [Hin|[Hin|[]]].
      * destruct (Idone i r Hin) as [u [Hu [Hp Hr]]].
        destruct (Nat.eq_dec i j) as [->|N]; [rewrite Nj in Hu; inv Hu; congruence|].
        exists u. rewrite nth_upd_other by auto. auto.
      * inv Hin. exists t'. auto.
    + intros i u Hu Hp. destruct (Nat.eq_dec i j) as [->|N].
      { rewrite Hj' in Hu. inv Hu. cbn in Hp. destruct Hp; discriminate. }
      { eapply Ifresh; eauto. }
    + intros i u Hu Hin. destruct (Nat.eq_dec i j) as [->|N].
      { rewrite Hj' in Hu. inv Hu. congruence. }
      pose proof (Hoth i u N Hu) as Hu0. rewrite Pat.
      destruct (Z.eq_dec (t_tract u) a) as [Hb|Hb].
      * rewrite Hb, updf_same. pose proof (Iin i u Hu0 Hin) as Hi. rewrite Hb in Hi.
        rewrite <- (Hxm i u N Hu0 Hin Hb) in Hi. exact Hi.
      * rewrite updf_other by auto. eapply Iin; eauto.
    + intros b Hall. rewrite Pat. destruct (Z.eq_dec b a) as [->|Nb]; [rewrite updf_same; reflexivity|].
      rewrite updf_other by auto. apply Ird. intros i u Hu Hin Hb. destruct (Nat.eq_dec i j) as [->|N].
      { rewrite Nj in Hu. injection Hu as <-. unfold a in Nb. congruence. }
      { apply (Hall i u); auto. rewrite nth_upd_other by auto. auto. }
    + intros i u Hu Hp. destruct (Nat.eq_dec i j) as [->|N].
      { rewrite Hj' in Hu. inv Hu. left. exists (l_res (t_loc t)). apply in_or_app. right. left. reflexivity. }
      { destruct (Ifin i u (Hoth i u N Hu) Hp) as [[r Hr]|Hr]; [left; exists r; apply in_or_app; auto|right; auto]. }
    + rewrite map_app. cbn. apply NoDup_snoc; auto.
  - (* a step inside the section *)
    assert (Hint : t_inside t = true) by (unfold t_inside, t_kind; apply body_holding; auto).
    assert (NL : t_pc t <> PLock) by (intro Hc; rewrite Hc in P; discriminate).
    assert (NU : t_pc t <> PUnlock) by (intro Hc; rewrite Hc in P; discriminate).
    destruct (step_other _ _ _ _ _ _ _ _ _ E NL NU) as [_ Hh].
    assert (Hint' : t_inside t' = true) by (unfold t_inside, t_kind, t'; cbn; rewrite Hh; exact Hint).
    pose proof (step_lstep _ _ _ _ _ _ _ _ _ P E) as Hbs. change (o_tract (t_op t)) with a in Hbs.
    assert (Hpure : lock_mode (t_kind t) = MR -> forall b, at_ b g' = at_ b g).
    { intro Hm. apply same_store_at. eapply reader_pure; eauto. apply mr_reader; auto. }
    assert (Hfr : forall b, b <> a -> at_ b g' = at_ b g) by (intros b Nb; eapply frame_at; eauto).
    exists ch, xm. split; cbn [fst snd]; auto.
    + apply Hdone_keep. intro Hc. rewrite Hc in P. discriminate.
    + intros i u Hu Hp. destruct (Nat.eq_dec i j) as [->|N].
      { rewrite Hj' in Hu. inv Hu. cbn in Hp. unfold t_inside, t_kind in Hint'. cbn in Hint'.
        destruct Hp as [Hp|Hp]; rewrite Hp in Hint'; destruct (o_kind (t_op t)); discriminate. }
      { eapply Ifresh; eauto. }
    + intros i u Hu Hin. destruct (Nat.eq_dec i j) as [->|N].
      { rewrite Hj' in Hu. injection Hu as <-. unfold t', t_kind, t_tract. cbn [t_op t_pc t_loc]. change (o_tract (t_op t)) with a.
        eapply ls_snoc; [apply (Iin j t Nj Hint) | exact P | exact Hbs]. }
      pose proof (Hoth i u N Hu) as Hu0.
      destruct (Z.eq_dec (t_tract u) a) as [Hb|Hb].
      * destruct (both_readers V (g, ths) i j u t R N Hu0 Nj Hin Hint Hb) as [_ Hm].
        rewrite (Hpure Hm). eapply Iin; eauto.
      * rewrite (Hfr _ Hb). eapply Iin; eauto.
    + intros b Hall. destruct (Z.eq_dec b a) as [->|Nb].
      * pose proof (Hall j t' Hj' Hint' eq_refl) as Hm. unfold t_kind, t' in Hm. cbn in Hm.
        rewrite (Hpure Hm). apply Ird. intros i u Hu Hin Hb. destruct (Nat.eq_dec i j) as [->|N].
        { rewrite Nj in Hu. injection Hu as <-. exact Hm. }
        { apply (Hall i u); auto. rewrite nth_upd_other by auto. auto. }
      * rewrite (Hfr _ Nb). apply Ird. intros i u Hu Hin Hb. destruct (Nat.eq_dec i j) as [->|N].
        { rewrite Nj in Hu. injection Hu as <-. unfold a in Nb. congruence. }
        { apply (Hall i u); auto. rewrite nth_upd_other by auto. auto. }
    + intros i u Hu Hp. destruct (Nat.eq_dec i j) as [->|N].
      { rewrite Hj' in Hu. inv Hu. cbn in Hp. unfold t_inside, t_kind in Hint'. cbn in Hint'. rewrite Hp in Hint'.
        destruct (o_kind (t_op t)); discriminate. }
      { eapply Ifin; eauto. }
Qed.
