(* C18/Proofs.v — invariants of the small-step system of C18/Model.v, over ALL interleavings and oracle answers. *)
From Coq Require Import List ZArith Bool Lia Arith.
From Coq Require Import ZifyNat ZifyBool.
From BLB Require Import Gen.Consts C18.Model.
Import ListNotations.
Open Scope Z_scope.

(* ---------- association lists ---------- *)
Lemma get_del_same {A} k (l : list (Z * A)) : get k (del k l) = None.
Proof. induction l as [|[k' v] r IH]; cbn; auto. destruct (k =? k') eqn:E; cbn; auto. rewrite E. auto. Qed.

Lemma get_del_other {A} k k' (l : list (Z * A)) : k <> k' -> get k (del k' l) = get k l.
Proof.
  intros N. induction l as [|[k2 v] r IH]; cbn; auto.
  destruct (k' =? k2) eqn:E.
  - apply Z.eqb_eq in E. subst. destruct (k =? k2) eqn:E2; [apply Z.eqb_eq in E2; congruence | auto].
  - cbn. destruct (k =? k2); auto.
Qed.

Lemma get_set_same {A} k (v : A) l : get k (set k v l) = Some v.
Proof. unfold set. cbn. rewrite Z.eqb_refl. auto. Qed.

Lemma get_set_other {A} k k' (v : A) l : k <> k' -> get k (set k' v l) = get k l.
Proof. intros N. unfold set. cbn. destruct (k =? k') eqn:E; [apply Z.eqb_eq in E; congruence|]. apply get_del_other; auto. Qed.

(* ---------- tactics for the case analyses over [step] ---------- *)
Ltac inv H := inversion H; subst; clear H.

Ltac dmh :=
  repeat match goal with
         | H : (_, _) = (_, _) |- _ => inv H
         | H : Some _ = Some _ |- _ => inv H
         | H : Some _ = None |- _ => discriminate H
         | H : None = Some _ |- _ => discriminate H
         | H : context [match ?x with _ => _ end] |- _ => destruct x eqn:?
         | H : context [if ?x then _ else _] |- _ => destruct x eqn:?
         end.

Ltac unstep H := unfold step, rm_cont, create_cont, do_close in H.

(* steps other than lock/unlock neither touch the busy map nor change whether the lock is held *)
Lemma step_other : forall V g o p l inj g' p' l',
    step V g o p l inj = Some (g', p', l') -> p <> PLock -> p <> PUnlock ->
    g_busy g' = g_busy g /\ holding (o_kind o) p' = holding (o_kind o) p.
Proof.
  intros V g o p l inj g' p' l' H NL NU.
  destruct p; try congruence; unstep H; destruct (o_kind o) eqn:K; dmh; cbn; auto.
Qed.

(* ---------- who holds what ---------- *)
Definition mode_eqb (a b : mode) : bool :=
  match a, b with MW, MW | MLW, MLW | MR, MR => true | _, _ => false end.

Definition t_holds (id : Z) (m : mode) (t : thread) : bool :=
  holding (o_kind (t_op t)) (t_pc t) && (o_tract (t_op t) =? id) && mode_eqb (lock_mode (o_kind (t_op t))) m.

Lemma t_holds_mk id m o p l :
  t_holds id m {| t_op := o; t_pc := p; t_loc := l |} =
  holding (o_kind o) p && (o_tract o =? id) && mode_eqb (lock_mode (o_kind o)) m.
Proof. reflexivity. Qed.

Definition cnt (id : Z) (m : mode) (ths : list thread) : nat := length (filter (t_holds id m) ths).

Definition b2n (b : bool) : nat := if b then 1%nat else 0%nat.

Lemma cnt_upd {A} (p : A -> bool) : forall ths i t t', nth_error ths i = Some t ->
  (length (filter p (upd i t' ths)) + b2n (p t) = length (filter p ths) + b2n (p t'))%nat.
Proof.
  induction ths as [|x r IH]; intros [|i] t t' H; cbn in H; try discriminate.
  - inv H. cbn. destruct (p t), (p t'); cbn; lia.
  - cbn. specialize (IH i t t' H). destruct (p x); cbn; lia.
Qed.

Lemma filter_two {A} (p : A -> bool) : forall ths i j a b, i <> j ->
  nth_error ths i = Some a -> nth_error ths j = Some b -> p a = true -> p b = true ->
  (2 <= length (filter p ths))%nat.
Proof.
  induction ths as [|x r IH]; intros [|i] [|j] a b N Ha Hb Pa Pb; cbn in *; try discriminate; try congruence.
  - inv Ha. rewrite Pa. cbn. assert (1 <= length (filter p r))%nat; [|lia].
    clear -Hb Pb. revert j Hb. induction r as [|y r IH]; intros [|j] Hb; cbn in *; try discriminate.
    + inv Hb. rewrite Pb. cbn. lia.
    + specialize (IH j Hb). destruct (p y); cbn; lia.
  - inv Hb. rewrite Pb. cbn. assert (1 <= length (filter p r))%nat; [|lia].
    clear -Ha Pa. revert i Ha. induction r as [|y r IH]; intros [|i] Ha; cbn in *; try discriminate.
    + inv Ha. rewrite Pa. cbn. lia.
    + specialize (IH i Ha). destruct (p y); cbn; lia.
  - assert (i <> j) by congruence. specialize (IH i j a b H Ha Hb Pa Pb). destruct (p x); cbn; lia.
Qed.

(* the busy map entry of a tract against the operations inside their locked sections on it *)
Definition busy_ok (b : option Z) (r w lw : nat) : Prop :=
  match b with
  | None => r = 0%nat /\ w = 0%nat /\ lw = 0%nat
  | Some st => (0 < st /\ Z.of_nat r = st /\ w = 0%nat /\ lw = 0%nat)
               \/ (st = -1 /\ r = 0%nat /\ w = 1%nat /\ lw = 0%nat)
               \/ (st = -2 /\ r = 0%nat /\ w = 0%nat /\ lw = 1%nat)
  end.

Definition lock_inv (s : sys) : Prop :=
  forall id, busy_ok (get id (g_busy (fst s))) (cnt id MR (snd s)) (cnt id MW (snd s)) (cnt id MLW (snd s)).

Lemma pc_eq_dec : forall a b : pc, {a = b} + {a <> b}.
Proof. decide equality. Qed.

Ltac same_counts :=
  match goal with
  | ER : (length (filter (t_holds ?id MR) ?u) + _ = _)%nat,
    EW : (length (filter (t_holds ?id MW) ?u) + _ = _)%nat,
    EL : (length (filter (t_holds ?id MLW) ?u) + _ = _)%nat |- _ =>
      let ths := match type of ER with (_ = length (filter _ ?t) + _)%nat => t end in
      replace (length (filter (t_holds id MR) u)) with (length (filter (t_holds id MR) ths)) by lia;
      replace (length (filter (t_holds id MW) u)) with (length (filter (t_holds id MW) ths)) by lia;
      replace (length (filter (t_holds id MLW) u)) with (length (filter (t_holds id MLW) ths)) by lia
  end.

Lemma lock_inv_step : forall V s i inj s', lock_inv s -> sys_step V s i inj = Some s' -> lock_inv s'.
Proof.
  intros V [g ths] i inj s' Inv H. unfold sys_step in H.
  destruct (nth_error ths i) as [t|] eqn:Ni; [|discriminate].
  destruct (step V g (t_op t) (t_pc t) (t_loc t) inj) as [[[g' p'] l']|] eqn:St; [|discriminate]. inv H.
  intro id. cbn [fst snd].
  pose proof (cnt_upd (t_holds id MR) ths i t {| t_op := t_op t; t_pc := p'; t_loc := l' |} Ni) as ER.
  pose proof (cnt_upd (t_holds id MW) ths i t {| t_op := t_op t; t_pc := p'; t_loc := l' |} Ni) as EW.
  pose proof (cnt_upd (t_holds id MLW) ths i t {| t_op := t_op t; t_pc := p'; t_loc := l' |} Ni) as EL.
  specialize (Inv id). cbn [fst snd] in Inv. fold (cnt id MR ths) (cnt id MW ths) (cnt id MLW ths) in *.
  unfold cnt. destruct t as [o p l]. cbn [t_op t_pc t_loc] in *. rewrite !t_holds_mk in ER, EW, EL.
  destruct (pc_eq_dec p PLock) as [->|NL]; [|destruct (pc_eq_dec p PUnlock) as [->|NU]].
  - (* lock attempt *)
    unfold step, try_lock_once in St.
    destruct (Z.eq_dec id (o_tract o)) as [->|Nid].
    + rewrite Z.eqb_refl in ER, EW, EL.
      destruct (o_kind o) eqn:K; cbn in St, ER, EW, EL;
        destruct (get (o_tract o) (g_busy g)) as [st|] eqn:G; dmh; cbn [g_busy with_busy] in *;
        rewrite ?get_set_same; rewrite ?G; try rewrite G in Inv; unfold busy_ok, cnt in *; cbn in ER, EW, EL; cbn [mode_state]; lia.
    + assert (E : (o_tract o =? id) = false) by (apply Z.eqb_neq; congruence).
      rewrite E, !andb_false_r in ER, EW, EL. cbn in ER, EW, EL.
      destruct (o_kind o) eqn:K; cbn in St;
        destruct (get (o_tract o) (g_busy g)) as [st|] eqn:G; dmh; cbn [g_busy with_busy] in *;
        rewrite ?get_set_other by auto; unfold cnt in *; same_counts; auto.
  - (* unlock *)
    unfold step, unlock in St.
    destruct (Z.eq_dec id (o_tract o)) as [->|Nid].
    + rewrite Z.eqb_refl in ER, EW, EL.
      destruct (o_kind o) eqn:K; cbn in St, ER, EW, EL;
        destruct (get (o_tract o) (g_busy g)) as [st|] eqn:G; dmh; cbn [g_busy with_busy] in *;
        rewrite ?get_set_same, ?get_del_same; rewrite ?G; try rewrite G in Inv; unfold busy_ok, cnt in *; cbn in ER, EW, EL; lia.
    + assert (E : (o_tract o =? id) = false) by (apply Z.eqb_neq; congruence).
      rewrite E, !andb_false_r in ER, EW, EL. cbn in ER, EW, EL.
      destruct (o_kind o) eqn:K; cbn in St;
        destruct (get (o_tract o) (g_busy g)) as [st|] eqn:G; dmh; cbn [g_busy with_busy] in *;
        rewrite ?get_set_other, ?get_del_other by auto; unfold cnt in *; same_counts; auto.
  - (* any other step *)
    destruct (step_other _ _ _ _ _ _ _ _ _ St NL NU) as [B Hh]. rewrite B, Hh in *.
    unfold cnt in *. same_counts. auto.
Qed.

(* ---------- reachable states ---------- *)
Definition init_g (g : gst) : Prop := g_busy g = [] /\ g_opens g = g_closes g.

Inductive reachable (V : variant) : sys -> Prop :=
| R_init : forall g, init_g g -> reachable V (g, [])
| R_spawn : forall g ths o, reachable V (g, ths) -> reachable V (g, ths ++ [new_thread o])
| R_step : forall s i inj s', reachable V s -> sys_step V s i inj = Some s' -> reachable V s'.

Lemma filter_app_len {A} (p : A -> bool) l1 l2 :
  length (filter p (l1 ++ l2)) = (length (filter p l1) + length (filter p l2))%nat.
Proof. rewrite filter_app, app_length. auto. Qed.

Lemma reachable_lock_inv : forall V s, reachable V s -> lock_inv s.
Proof.
  induction 1.
  - intros id. destruct H as [B _]. cbn. rewrite B. cbn. auto.
  - intros id. specialize (IHreachable id). cbn [fst snd] in *. unfold cnt in *.
    assert (Hn : forall m, t_holds id m (new_thread o) = false)
      by (intro m; unfold t_holds; cbn; destruct (o_kind o); reflexivity).
    rewrite !filter_app_len. cbn [filter]. rewrite !Hn. cbn [length]. rewrite !Nat.add_0_r. auto.
  - eapply lock_inv_step; eauto.
Qed.

Lemma filter_one {A} (p : A -> bool) : forall ths i a, nth_error ths i = Some a -> p a = true -> (1 <= length (filter p ths))%nat.
Proof.
  induction ths as [|x r IH]; intros [|i] a H P; cbn in *; try discriminate.
  - inv H. rewrite P. cbn. lia.
  - specialize (IH i a H P). destruct (p x); cbn; lia.
Qed.

(* unlock never hits a log.Fatalf branch *)
Lemma unlock_defined : forall g ths i t,
    lock_inv (g, ths) -> nth_error ths i = Some t -> t_pc t = PUnlock -> o_kind (t_op t) <> KGoneOld ->
    unlock (g_busy g) (o_tract (t_op t)) (lock_mode (o_kind (t_op t))) <> None.
Proof.
  intros g ths i [o p l] Inv Ni Hp Hk. cbn in *. subst p.
  specialize (Inv (o_tract o)). cbn [fst snd] in Inv.
  assert (Hh : t_holds (o_tract o) (lock_mode (o_kind o)) {| t_op := o; t_pc := PUnlock; t_loc := l |} = true).
  { rewrite t_holds_mk, Z.eqb_refl. destruct (o_kind o); cbn; congruence. }
  pose proof (filter_one _ _ _ _ Ni Hh) as H1. fold (cnt (o_tract o) (lock_mode (o_kind o)) ths) in H1.
  revert H1. unfold unlock, busy_ok, cnt in *.
  destruct (get (o_tract o) (g_busy g)) as [st|]; destruct (lock_mode (o_kind o)); intro H1;
    repeat match goal with |- context [if ?x then _ else _] => destruct x eqn:? end; try congruence; exfalso; lia.
Qed.

Definition no_crash (s : sys) : Prop := forall i t, nth_error (snd s) i = Some t -> t_pc t <> PCrash.

Lemma nth_upd_same {A} : forall (l : list A) i x y, nth_error l i = Some y -> nth_error (upd i x l) i = Some x.
Proof. induction l; intros [|i] x y H; cbn in *; try discriminate; eauto. Qed.
Lemma nth_upd_other {A} : forall (l : list A) i j x, i <> j -> nth_error (upd i x l) j = nth_error l j.
Proof. induction l; intros [|i] [|j] x H; cbn in *; try congruence; eauto. Qed.

Lemma reachable_no_crash : forall V s, reachable V s -> no_crash s.
Proof.
  induction 1.
  - intros i t Hn. destruct i; discriminate.
  - intros i t H0. cbn [snd] in *. destruct (Nat.lt_ge_cases i (length ths)).
    + rewrite nth_error_app1 in H0 by auto. eapply IHreachable; eauto.
    + rewrite nth_error_app2 in H0 by auto. destruct (i - length ths)%nat as [|[|k]]; cbn in H0; try discriminate. inv H0. cbn. congruence.
  - pose proof (reachable_lock_inv _ _ H) as Inv.
    destruct s as [g ths]. unfold sys_step in H0.
    destruct (nth_error ths i) as [t|] eqn:Ni; [|discriminate].
    destruct (step V g (t_op t) (t_pc t) (t_loc t) inj) as [[[g' p'] l']|] eqn:St; [|discriminate]. inv H0.
    intros j tj Hj. cbn [snd] in Hj. destruct (Nat.eq_dec i j) as [->|N].
    + erewrite nth_upd_same in Hj by eauto. inv Hj. cbn. intro Hc. subst p'.
      assert (Hp : t_pc t = PUnlock).
      { destruct t as [o p l]; cbn in *. destruct p; unfold step, rm_cont, create_cont, do_close in St; destruct (o_kind o); dmh; congruence. }
      destruct t as [o p l]; cbn in *. subst p. unfold step in St.
      destruct (o_kind o) eqn:K; try (inv St; fail);
        (destruct (unlock (g_busy g) (o_tract o) (lock_mode (o_kind o))) eqn:U;
         [rewrite K in U; cbn in U, St; rewrite U in St; inv St
         | eapply (unlock_defined g ths j {| t_op := o; t_pc := PUnlock; t_loc := l |}); eauto; cbn; congruence]).
    + rewrite nth_upd_other in Hj by auto. eapply IHreachable; eauto.
Qed.

(* ---------- mutual exclusion of the locked sections ---------- *)
Definition inside (id : Z) (t : thread) : bool := holding (o_kind (t_op t)) (t_pc t) && (o_tract (t_op t) =? id).

Lemma inside_holds id t : inside id t = true -> t_holds id (lock_mode (o_kind (t_op t))) t = true.
Proof. unfold inside, t_holds. intros ->. destruct (lock_mode (o_kind (t_op t))); reflexivity. Qed.

Lemma exclusion : forall V s i j a b id,
    reachable V s -> i <> j -> nth_error (snd s) i = Some a -> nth_error (snd s) j = Some b ->
    inside id a = true -> inside id b = true ->
    lock_mode (o_kind (t_op a)) = MR /\ lock_mode (o_kind (t_op b)) = MR.
Proof.
  intros V [g ths] i j a b id R N Ha Hb Ia Ib. cbn [snd] in *.
  pose proof (reachable_lock_inv _ _ R id) as Inv. cbn [fst snd] in Inv.
  apply inside_holds in Ia. apply inside_holds in Ib.
  pose proof (filter_one _ _ _ _ Ha Ia) as A1. pose proof (filter_one _ _ _ _ Hb Ib) as B1.
  assert (T : lock_mode (o_kind (t_op a)) = lock_mode (o_kind (t_op b)) ->
              (2 <= length (filter (t_holds id (lock_mode (o_kind (t_op a)))) ths))%nat).
  { intro E. rewrite <- E in Ib. eapply filter_two; eauto. }
  unfold busy_ok, cnt in Inv. revert A1 B1 T.
  destruct (lock_mode (o_kind (t_op a))), (lock_mode (o_kind (t_op b))); intros A1 B1 T;
    try (specialize (T eq_refl)); destruct (get id (g_busy g)); auto; exfalso; lia.
Qed.

(* a Disk call (or the talker's CtlRead) is only ever made inside the locked section *)
Lemma calls_inside : forall k p l, pending_call p l <> 0 -> k <> KGoneOld -> holding k p = true.
Proof. intros k p l H K. destruct p; cbn in *; try congruence; destruct k; cbn; congruence. Qed.

(* a step of an operation on tract a leaves every other tract's lock entry, map entry and file alone *)
Lemma step_frame : forall V g o p l inj g' p' l' b,
    step V g o p l inj = Some (g', p', l') -> b <> o_tract o ->
    get b (g_busy g') = get b (g_busy g) /\ get b (g_tracts g') = get b (g_tracts g) /\ get b (g_files g') = get b (g_files g) /\
    get b (g_gens g') = get b (g_gens g).
Proof.
  intros V g o p l inj g' p' l' b H N.
  destruct p; unfold step, rm_cont, create_cont, do_close, try_lock_once, unlock in H;
    destruct (o_kind o) eqn:K; dmh;
    cbn [g_busy g_tracts g_files g_gens with_busy with_tracts with_files opened_one closed_one created_file];
    rewrite ?get_set_other, ?get_del_other by auto; auto.
Qed.

(* who can change the disk: only an operation inside a WRITE / LONG_WRITE section (or the lock-free GCGone) *)
Lemma step_files : forall V g o p l inj g' p' l',
    step V g o p l inj = Some (g', p', l') ->
    g_files g' = g_files g \/ (holding (o_kind o) p = true /\ lock_mode (o_kind o) <> MR) \/ o_kind o = KGoneOld.
Proof.
  intros V g o p l inj g' p' l' H.
  destruct p; unfold step, rm_cont, create_cont, do_close in H;
    destruct (o_kind o) eqn:K; dmh; cbn;
    first [left; reflexivity | right; left; split; [reflexivity|discriminate] | right; right; reflexivity].
Qed.

(* a reader's whole section sees one disk state of its tract *)
Lemma reader_stable : forall V s i j inj s' a b,
    reachable V s -> sys_step V s j inj = Some s' ->
    nth_error (snd s) i = Some a -> nth_error (snd s) j = Some b ->
    inside (o_tract (t_op a)) a = true -> lock_mode (o_kind (t_op a)) = MR ->
    o_kind (t_op b) <> KGoneOld ->
    get (o_tract (t_op a)) (g_files (fst s')) = get (o_tract (t_op a)) (g_files (fst s)).
Proof.
  intros V [g ths] i j inj s' a b R St Ha Hb Ia Ma Kb. cbn [fst snd] in *.
  unfold sys_step in St. rewrite Hb in St.
  destruct (step V g (t_op b) (t_pc b) (t_loc b) inj) as [[[g' p'] l']|] eqn:E; [|discriminate]. inv St. cbn [fst].
  destruct (Z.eq_dec (o_tract (t_op a)) (o_tract (t_op b))) as [Eq|Ne].
  - destruct (step_files _ _ _ _ _ _ _ _ _ E) as [F|[[Hh Hm]|Hg]]; [rewrite F; auto| |congruence].
    destruct (Nat.eq_dec i j) as [->|Nij].
    + rewrite Ha in Hb. inv Hb. congruence.
    + assert (Ib : inside (o_tract (t_op a)) b = true) by (unfold inside; rewrite Hh, Eq, Z.eqb_refl; auto).
      destruct (exclusion V (g, ths) i j a b _ R Nij Ha Hb Ia Ib). congruence.
  - eapply step_frame in E; [|eauto]. tauto.
Qed.

