(* C12/Props.v — property-level theorems only. Tags are read by bin/check. *)
From Coq Require Import List NArith.
From BLB Require Import C12.Model C12.Proofs.
Import ListNotations.
