(* C12/Props.v — property-level theorems only (statements + `exact`), each followed by Print Assumptions.
   Tags [FULL]/[PARTIAL]/[REFUTED] are read by bin/check.

   Vocabulary (C12/Model.v): an [event] is one of: a command committed through the master leader's FSM, a master
   follower catching up by log replay / installing the leader's snapshot onto its live state / restarting empty,
   a master leader change, a master fail-over to a fresh instance restored from a snapshot, the master API calls
   (registerCurator, registerTractserver, curatorHeartbeat, newPartition, lookup), the phases of the curator's
   initialize (each master reply may be lost), one heartbeat round (with SyncPartitions), one partition-monitor
   round, a curator leader change, a curator node restart, raft calling FSM.Snapshot() on the leader (EvSnapTake: the
   state is serialised at that index) and, any number of events later, Snapshoter.Save() plus a replica that is not
   ahead of the snapshot restoring it and replaying the log from the snapshot's index (EvSnapInstall), and a heartbeat
   round whose SyncPartitions proposal fails transiently (EvCHeartbeatSyncFail: nothing committed, cache untouched),
   and a partition-monitor round whose reply ARRIVES but whose AddPartition commit fails transiently
   (EvCMonitorCommitFail: the assignment exists only at the master; durable set and cache untouched).  [run evs] is the world after the events, [h_cids],
   [h_tsids], [h_parts] are ghost lists of everything the master ever returned.
   [bounded evs]: fewer than 2^32 - 3 events, so that the uint32 counters do not wrap; it is the only hypothesis.
   Since fix ca0788b (SnapshotRestore decodes into a fresh State) the model's [restore_into] is plain replacement and
   the former F7 carve-out [trace_safe] is gone.  [run_merge] is the UNREPAIRED variant (restore_merge: gob decode
   into the live struct), kept only for the two REFUTED statements. *)
From Coq Require Import List NArith.
From BLB Require Import C12.Model C12.Proofs.
Import ListNotations.
Open Scope N_scope.

(* [FULL] for ALL event sequences (registrations, partition requests, heartbeats, lookups, lost replies and retries, master leader changes, follower catch-up by replay or snapshot, restarts, fail-over to a restored instance, curator leader changes and restarts) shorter than the uint32 wrap, all curator ids ever returned are pairwise distinct, all tractserver ids ever returned are pairwise distinct, and all partitions ever returned are pairwise distinct *)
Theorem ids_unique :
  forall evs, bounded evs ->
    NoDup (h_cids (run evs)) /\ NoDup (h_tsids (run evs)) /\ NoDup (map fst (h_parts (run evs))).
Proof. exact ids_unique_lemma. Qed.
Print Assumptions ids_unique.

(* [REFUTED] for the unrepaired variant run_merge, where SnapshotRestore decodes into the live struct as before fix ca0788b, the statement is false because a read-only follower stays read-only after installing a snapshot, misses a registration, later leads and returns curator id 2 a second time, witness f7_trace, on which the repaired model returns 1 2 3 *)
Theorem ids_unique_merge_refuted :
  exists evs, bounded evs /\ ~ NoDup (h_cids (run_merge evs)).
Proof. exact ids_unique_merge_refuted_lemma. Qed.
Print Assumptions ids_unique_merge_refuted.

(* [FULL] once partition p was returned for curator c, or once the leader's table says p belongs to c, then after ANY further events, on whichever replica leads, lookup p answers c *)
Theorem ownership_stable :
  forall evs evs' p c,
    bounded (evs ++ evs') ->
    In (p, c) (h_parts (run evs)) \/ m_lookup (leader_st (run evs)) p = ROk c ->
    m_lookup (leader_st (run (evs ++ evs'))) p = ROk c.
Proof. exact ownership_stable_lemma. Qed.
Print Assumptions ownership_stable.

(* [REFUTED] for the unrepaired variant run_merge a partition handed out to curator 1 is later handed out again and looked up as owned by curator 2, witness f7_trace_part *)
Theorem ownership_merge_refuted :
  exists evs evs' p c, bounded (evs ++ evs') /\ In (p, c) (h_parts (run_merge evs)) /\
                       m_lookup (leader_st (run_merge (evs ++ evs'))) p <> ROk c.
Proof. exact ownership_merge_refuted_lemma. Qed.
Print Assumptions ownership_merge_refuted.

(* [FULL] in every reachable world the curator group's durable partition set is a subset of what the master leader's table assigns to the curator's durable id, which is then non-zero, and the log.Fatalf sanity check of heartbeatLoop has never fired *)
Theorem curator_serves_only_assigned :
  forall evs, bounded evs ->
    w_fatal (run evs) = false /\
    forall p, In p (c_parts (w_cur (run evs))) ->
              c_id (w_cur (run evs)) <> 0 /\ m_lookup (leader_st (run evs)) p = ROk (c_id (w_cur (run evs))).
Proof. exact curator_serves_only_assigned_lemma. Qed.
Print Assumptions curator_serves_only_assigned.

(* [FULL] after any heartbeat round in which the master answered and the reply arrived, every partition the master leader attributes to this curator's id, and every partition ever returned for that id even if the reply was lost or the receiving curator leader was replaced before committing it, is in the curator's durable set *)
Theorem lost_assignment_recovered :
  forall evs n ps,
    bounded (evs ++ [EvCHeartbeat n false]) ->
    snd (c_heartbeat (run evs) n false) = Some (Some ps) ->
    let w' := run (evs ++ [EvCHeartbeat n false]) in
    c_id (w_cur w') <> 0 /\
    (forall p, m_lookup (leader_st w') p = ROk (c_id (w_cur w')) -> In p (c_parts (w_cur w'))) /\
    (forall p, In (p, c_id (w_cur w')) (h_parts w') -> In p (c_parts (w_cur w'))).
Proof. exact lost_assignment_recovered_lemma. Qed.
Print Assumptions lost_assignment_recovered.

(* ---------- non-vacuity ---------- *)
(* a registration whose reply is lost (id 1 is leaked, as master.go documents), a partition reply that is lost,
   a master fail-over, a follower that installs a snapshot and takes over, a curator leader change between
   receiving partition 2 and committing it; the final heartbeat recovers partitions 1 and 2 *)
Definition demo : list event :=
  [EvCStart 0; EvCRegister 0 true; EvCRegister 0 false; EvCCommitReg 0;
   EvCNewPart 0 true; EvFailover; EvMHeartbeat 2; EvCNewPart 0 false;
   EvCLeader 1; EvCStart 1; EvInstall 1; EvLeader 1; EvMHeartbeat 2; EvCNewPart 1 false; EvCCommitPart 1;
   EvMRegTs; EvMRegTs].

Example demo_bounded : bounded (demo ++ [EvCHeartbeat 1 false]).
Proof. unfold bounded; simpl; reflexivity. Qed.

Example demo_before :
  let w := run demo in
  h_cids w = [1; 2] /\ h_tsids w = [1; 2] /\ h_parts w = [(1, 2); (2, 2); (3, 2)] /\
  c_id (w_cur w) = 2 /\ c_parts (w_cur w) = [3] /\
  snd (c_heartbeat w 1 false) = Some (Some [1; 2; 3]).
Proof. vm_compute. repeat split; reflexivity. Qed.

Example demo_after :
  let w' := run (demo ++ [EvCHeartbeat 1 false]) in
  c_parts (w_cur w') = [1; 2; 3] /\ w_fatal w' = false /\ m_lookup (leader_st w') 1 = ROk 2.
Proof. vm_compute. repeat split; reflexivity. Qed.

(* Snapshot() at index 2, three more commands, THEN Save(): restarted replica 1 restores it, replays the tail and
   takes over; nothing is applied twice (the next ids continue after 3 / partition 3) *)
Definition demo_late_save : list event :=
  [EvCmd CRegCur; EvCmd CRegCur; EvSnapTake; EvCmd (CNewPart 1); EvCmd CRegCur; EvCmd (CNewPart 2);
   EvRestart 1; EvSnapInstall 1; EvLeader 1; EvCmd CRegCur; EvCmd (CNewPart 3)].
Example demo_late_save_ok :
  h_cids (run demo_late_save) = [1; 2; 3; 4] /\ h_parts (run demo_late_save) = [(1, 1); (2, 2); (3, 3)] /\
  w_snap (run demo_late_save) = Some (2%nat, replay [CRegCur; CRegCur]).
Proof. vm_compute. repeat split; reflexivity. Qed.

(* partition 2's reply is lost; the first heartbeat round that would sync fails transiently (cache and durable set
   stay [1]); the next completed round recovers partition 2 *)
Definition demo_sync_fail : list event :=
  [EvCStart 0; EvCRegister 0 false; EvCCommitReg 0; EvCNewPart 0 false; EvCCommitPart 0;
   EvCMonitor 0 true; EvCHeartbeatSyncFail 0].
Example demo_sync_fail_ok :
  sync_needed (run (firstn 6 demo_sync_fail)) 0 = true /\
  c_parts (w_cur (run demo_sync_fail)) = [1] /\
  n_cache (nth 0 (w_nodes (run demo_sync_fail)) node0) = [1] /\
  c_parts (w_cur (run (demo_sync_fail ++ [EvCHeartbeat 0 false]))) = [1; 2].
Proof. vm_compute. repeat split; reflexivity. Qed.

(* the partition monitor receives partition 2 but its commit fails (term change between receive and commit):
   durable set and cache stay [1]; the next completed heartbeat round recovers partition 2 *)
Definition demo_commit_fail : list event :=
  [EvCStart 0; EvCRegister 0 false; EvCCommitReg 0; EvCNewPart 0 false; EvCCommitPart 0; EvCMonitorCommitFail 0].
Example demo_commit_fail_ok :
  h_parts (run demo_commit_fail) = [(1, 1); (2, 1)] /\
  c_parts (w_cur (run demo_commit_fail)) = [1] /\
  n_cache (nth 0 (w_nodes (run demo_commit_fail)) node0) = [1] /\
  c_parts (w_cur (run (demo_commit_fail ++ [EvCHeartbeat 0 false]))) = [1; 2].
Proof. vm_compute. repeat split; reflexivity. Qed.

(* on the F7 witnesses the repaired model hands out fresh ids / partitions, the unrepaired one duplicates *)
Example f7_witnesses :
  h_cids (run_merge f7_trace) = [1; 2; 2] /\ h_cids (run f7_trace) = [1; 2; 3] /\
  h_parts (run_merge f7_trace_part) = [(1, 1); (1, 2)] /\ h_parts (run f7_trace_part) = [(1, 1); (2, 2)].
Proof. vm_compute. repeat split; reflexivity. Qed.
