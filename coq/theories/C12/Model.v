(* C12/Model.v — executable model of identity / partition allocation by the master and of the
   curator's registration + partition reconciliation glue.

   Transcribes
     internal/master/durable/state.go   (State, newState, lookup, verifyCuratorID)
     internal/master/durable/fsm.go     (Apply's read-only gate, RegisterCuratorCmd / RegisterTractserverCmd /
                                         NewPartitionCmd / SetReadOnlyModeCmd apply, getPartitions,
                                         Snapshot + SnapshotRestore = gob decode into a fresh State that replaces the live one)
     internal/master/master.go          (registerCurator, curatorHeartbeat, newPartition with the volatile quota
                                         table, lookup through the volatile address table, registerTractserver)
     internal/curator/durable/fsm.go    (SetRegistrationCommand "first id wins", AddPartitionCommand,
                                         SyncPartitionsCommand)
     internal/curator/leader.go         (initialize phase by phase, one heartbeatLoop round, one
                                         partitionMonitorLoop round)
   The replicated log of the master group is explicit: replicas apply prefixes of it, catch up by replay or by
   installing the leader's snapshot onto their live state, restart, and take over leadership.
   Definitions only; proofs live in Proofs.v. *)
From Coq Require Import List Arith NArith ZArith Bool Lia.
From BLB Require Import Gen.Consts.
Import ListNotations.
Open Scope N_scope.

(* ================= master durable state ================= *)

(* [parts] is State.Partitions verbatim: slot 0 is reserved and holds 0, slot p holds the curator owning p. *)
Record mstate := { parts : list N; next_c : N; next_t : N; ro : bool }.

Definition m_init : mstate := {| parts := [0]; next_c := 1; next_t := 1; ro := false |}.

(* CuratorID / TractserverID are uint32: ++ wraps. *)
Definition u32 (x : N) : N := x mod 4294967296.

Inductive mcmd := CRegCur | CRegTs | CNewPart (c : N) | CSetRO (b : bool).
Inductive merr := EReadOnly | EBadCurator | EQuota | ENoSuchBlob | ECantFindAddr | EAlreadyExists.
Inductive mres := ROk (v : N) | RErr (e : merr).

(* verifyCuratorID: id <= 0 || id >= NextCuratorID is bad *)
Definition verify_cid (s : mstate) (id : N) : bool := negb (id =? 0) && (id <? next_c s).

Definition plen (s : mstate) : N := N.of_nat (length (parts s)).

Definition m_apply (s : mstate) (c : mcmd) : mstate * mres :=
  match c with
  | CSetRO b => ({| parts := parts s; next_c := next_c s; next_t := next_t s; ro := b |}, ROk 0)
  | CRegCur =>
      if ro s then (s, RErr EReadOnly)
      else ({| parts := parts s; next_c := u32 (next_c s + 1); next_t := next_t s; ro := ro s |}, ROk (next_c s))
  | CRegTs =>
      if ro s then (s, RErr EReadOnly)
      else ({| parts := parts s; next_c := next_c s; next_t := u32 (next_t s + 1); ro := ro s |}, ROk (next_t s))
  | CNewPart c =>
      if ro s then (s, RErr EReadOnly)
      else if negb (verify_cid s c) then (s, RErr EBadCurator)
      else if c12_MaxPartitionID <=? plen s then (s, RErr EQuota)
      else ({| parts := parts s ++ [c]; next_c := next_c s; next_t := next_t s; ro := ro s |}, ROk (plen s))
  end.

(* State.lookup *)
Definition m_lookup (s : mstate) (p : N) : mres :=
  if (p =? 0) || (plen s <=? p) then RErr ENoSuchBlob else ROk (nth (N.to_nat p) (parts s) 0).

(* State.getPartitions(query): partitions whose curator is valid and (query invalid or equal) *)
Fixpoint get_parts_from (i : N) (l : list N) (q : N) : list N :=
  match l with
  | [] => []
  | c :: r => if negb (c =? 0) && ((q =? 0) || (c =? q)) then i :: get_parts_from (i + 1) r q
              else get_parts_from (i + 1) r q
  end.
Definition get_partitions (s : mstate) (q : N) : list N := get_parts_from 0 (parts s) q.

(* Snapshot = gob encoding of the struct: zero-valued FIELDS are not transmitted (an empty slice, a zero
   counter, ReadOnly=false).  Since fix ca0788b SnapshotRestore decodes into a FRESH (all-zero) State and replaces
   the live one, so the restored state is exactly the snapshot whatever the live state was. *)
Definition restore_into (live snap : mstate) : mstate := snap.

(* The UNREPAIRED behaviour (before ca0788b, finding F7): decoding into the live struct, so an omitted field keeps
   the live value.  A non-empty slice is transmitted with all its elements and replaces the live slice.  Kept only
   for the REFUTED theorems about the unrepaired variant [step_merge]. *)
Definition restore_merge (live snap : mstate) : mstate :=
  {| parts := match parts snap with [] => parts live | l => l end;
     next_c := if next_c snap =? 0 then next_c live else next_c snap;
     next_t := if next_t snap =? 0 then next_t live else next_t snap;
     ro := if ro snap then true else ro live |}.

(* ================= the master replica group ================= *)

Record replica := { r_applied : nat; r_st : mstate }.
Definition rep0 : replica := {| r_applied := 0; r_st := m_init |}.

Fixpoint upd_nth {A} (n : nat) (x : A) (l : list A) : list A :=
  match l, n with
  | [], _ => []
  | _ :: r, O => x :: r
  | y :: r, S n' => y :: upd_nth n' x r
  end.

Definition replay_from (s : mstate) (cs : list mcmd) : mstate :=
  fold_left (fun s c => fst (m_apply s c)) cs s.

(* ================= curator group ================= *)

(* durable (replicated) state of the curator group: its id (0 = unregistered) and its partitions,
   kept in key order like the DB bucket *)
Record cstate := { c_id : N; c_parts : list N }.
Definition c_init : cstate := {| c_id := 0; c_parts := [] |}.

Definition memN (x : N) (l : list N) : bool := existsb (N.eqb x) l.

Fixpoint ins_sorted (x : N) (l : list N) : list N :=
  match l with
  | [] => [x]
  | y :: r => if x <=? y then x :: l else y :: ins_sorted x r
  end.

(* SetRegistrationCommand.apply: first id wins; returns the durable id *)
Definition c_set_reg (s : cstate) (id : N) : cstate * N :=
  if c_id s =? 0 then ({| c_id := id; c_parts := c_parts s |}, id) else (s, c_id s).

(* addPartition: ErrAlreadyExists if present *)
Definition c_add_part (s : cstate) (p : N) : cstate * bool :=
  if memN p (c_parts s) then (s, false)
  else ({| c_id := c_id s; c_parts := ins_sorted p (c_parts s) |}, true).

(* SyncPartitionsCommand.apply: add every missing one *)
Definition c_sync (s : cstate) (ps : list N) : cstate :=
  fold_left (fun s p => fst (c_add_part s p)) ps s.

(* volatile state of one curator node: where it stands in heartbeatLoop/initialize, and c.partitions *)
Inductive cpc :=
| PcStart                      (* about to read GetCuratorInfo *)
| PcReg                        (* must call mc.RegisterCurator *)
| PcCommitReg (id : N)         (* holds a master reply, must commit Register(id) *)
| PcNewPart (id : N)           (* must call mc.NewPartition(id) *)
| PcCommitPart (id p : N)      (* holds partition p, must commit AddPartition(p) *)
| PcRun (id : N).              (* initialize returned id; heartbeat + partition monitor loops run *)
Record cnode := { n_pc : cpc; n_cache : list N }.
Definition node0 : cnode := {| n_pc := PcStart; n_cache := [] |}.

(* ================= the world ================= *)

Record world := {
  w_log : list mcmd;            (* committed commands of the master group *)
  w_reps : list replica;        (* master replicas *)
  w_leader : nat;               (* index of the leading replica *)
  w_mvol : list (N * N);        (* the leader's volatile curator table: (id, remaining new-partition quota), sorted by id *)
  w_cur : cstate;               (* the curator group's replicated state *)
  w_nodes : list cnode;         (* the curator group's nodes *)
  w_cleader : nat;              (* which node leads the curator group *)
  w_fatal : bool;               (* the curator's sanity check (log.Fatalf in heartbeatLoop) fired *)
  w_snap : option (nat * mstate); (* a snapshot object raft holds: FSM.Snapshot() was called at this log index and
                                     serialised the state THEN; Snapshoter.Save() writes those bytes out later *)
  (* ghost history: everything the master ever returned *)
  h_cids : list N;
  h_tsids : list N;
  h_parts : list (N * N)        (* (partition, curator it was assigned to) *)
}.

Definition w_init : world :=
  {| w_log := []; w_reps := [rep0; rep0; rep0]; w_leader := 0%nat; w_mvol := [];
     w_cur := c_init; w_nodes := [node0; node0; node0]; w_cleader := 0%nat; w_fatal := false; w_snap := None;
     h_cids := []; h_tsids := []; h_parts := [] |}.

Definition leader_rep (w : world) : replica := nth (w_leader w) (w_reps w) rep0.
Definition leader_st (w : world) : mstate := r_st (leader_rep w).

Definition set_master (w : world) (lg : list mcmd) (rs : list replica) (ld : nat) (vol : list (N * N))
           (hc ht : list N) (hp : list (N * N)) : world :=
  {| w_log := lg; w_reps := rs; w_leader := ld; w_mvol := vol;
     w_cur := w_cur w; w_nodes := w_nodes w; w_cleader := w_cleader w; w_fatal := w_fatal w; w_snap := w_snap w;
     h_cids := hc; h_tsids := ht; h_parts := hp |}.

Definition set_vol (w : world) (vol : list (N * N)) : world :=
  set_master w (w_log w) (w_reps w) (w_leader w) vol (h_cids w) (h_tsids w) (h_parts w).

Definition set_curator (w : world) (cs : cstate) (ns : list cnode) (cl : nat) (f : bool) : world :=
  {| w_log := w_log w; w_reps := w_reps w; w_leader := w_leader w; w_mvol := w_mvol w;
     w_cur := cs; w_nodes := ns; w_cleader := cl; w_fatal := f; w_snap := w_snap w;
     h_cids := h_cids w; h_tsids := h_tsids w; h_parts := h_parts w |}.

Definition set_snap (w : world) (sn : option (nat * mstate)) : world :=
  {| w_log := w_log w; w_reps := w_reps w; w_leader := w_leader w; w_mvol := w_mvol w;
     w_cur := w_cur w; w_nodes := w_nodes w; w_cleader := w_cleader w; w_fatal := w_fatal w; w_snap := sn;
     h_cids := h_cids w; h_tsids := h_tsids w; h_parts := h_parts w |}.

(* a command proposed on the leader (ProposeIfTerm with the leader's own term), committed and applied there;
   the result is what the caller gets back and is recorded in the ghost history *)
Definition propose (w : world) (c : mcmd) : world * mres :=
  let lr := leader_rep w in
  let '(s', r) := m_apply (r_st lr) c in
  let rs := upd_nth (w_leader w) {| r_applied := S (r_applied lr); r_st := s' |} (w_reps w) in
  let hc := match c, r with CRegCur, ROk v => h_cids w ++ [v] | _, _ => h_cids w end in
  let ht := match c, r with CRegTs, ROk v => h_tsids w ++ [v] | _, _ => h_tsids w end in
  let hp := match c, r with CNewPart cid, ROk v => h_parts w ++ [(v, cid)] | _, _ => h_parts w end in
  (set_master w (w_log w ++ [c]) rs (w_leader w) (w_mvol w) hc ht hp, r).

(* ---------- the leader's volatile curator table (master.go findCurator/addCurator) ---------- *)
Fixpoint vol_find (id : N) (t : list (N * N)) : option N :=
  match t with
  | [] => None
  | (i, q) :: r => if i =? id then Some q else vol_find id r
  end.
Fixpoint vol_put (id q : N) (t : list (N * N)) : list (N * N) :=
  match t with
  | [] => [(id, q)]
  | (i, q') :: r => if i =? id then (id, q) :: r
                    else if id <? i then (id, q) :: t
                    else (i, q') :: vol_put id q r
  end.

(* Master.registerCurator *)
Definition m_register_curator (w : world) : world * mres :=
  let '(w1, r) := propose w CRegCur in
  match r with
  | ROk id => (match vol_find id (w_mvol w1) with
               | Some _ => w1                                     (* log.Fatalf: duplicate id *)
               | None => set_vol w1 (vol_put id c12_newPartitionUpperLimit (w_mvol w1))
               end, r)
  | RErr _ => (w1, r)
  end.

(* Master.registerTractserver *)
Definition m_register_ts (w : world) : world * mres := propose w CRegTs.

(* Master.curatorHeartbeat: validate, upsert in the volatile table, return this curator's partitions *)
Definition m_heartbeat (w : world) (c : N) : world * option (list N) :=
  if verify_cid (leader_st w) c then
    let vol := match vol_find c (w_mvol w) with
               | Some _ => w_mvol w
               | None => vol_put c c12_newPartitionUpperLimit (w_mvol w)
               end in
    (set_vol w vol, Some (get_partitions (leader_st w) c))
  else (w, None).

(* Master.newPartition: quota check in the volatile table, then the replicated command *)
Definition m_new_partition (w : world) (c : N) : world * mres :=
  match vol_find c (w_mvol w) with
  | None => (w, RErr EBadCurator)
  | Some q =>
      if q =? 0 then (w, RErr EQuota)
      else propose (set_vol w (vol_put c (q - 1) (w_mvol w))) (CNewPart c)
  end.

(* Master.lookup: the durable owner, then its address from the volatile table *)
Definition m_lookup_addr (w : world) (p : N) : mres :=
  match m_lookup (leader_st w) p with
  | ROk cid => match vol_find cid (w_mvol w) with Some _ => ROk cid | None => RErr ECantFindAddr end
  | RErr e => RErr e
  end.

(* ================= events ================= *)

Inductive event :=
| EvCmd (c : mcmd)                 (* a command committed through the leader's FSM *)
| EvCatchup (j k : nat)            (* follower j applies its next k log entries *)
| EvInstall (j : nat)              (* follower j installs the leader's snapshot onto its live state *)
| EvRestart (j : nat)              (* follower j restarts with an empty state *)
| EvLeader (j : nat)               (* replica j replays what it misses and becomes leader *)
| EvFailover                       (* the leader is replaced by a fresh instance restored from its snapshot *)
| EvMRegCur | EvMRegTs
| EvMHeartbeat (c : N) | EvMNewPart (c : N) | EvMLookup (p : N)
| EvCStart (n : nat)
| EvCRegister (n : nat) (lost : bool)
| EvCCommitReg (n : nat)
| EvCNewPart (n : nat) (lost : bool)
| EvCCommitPart (n : nat)
| EvCHeartbeat (n : nat) (lost : bool)
| EvCMonitor (n : nat) (lost : bool)
| EvCLeader (n : nat)
| EvCRestart (n : nat)
| EvDump | EvCDump
| EvSnapTake                       (* raft calls FSM.Snapshot() on the leader: the state is serialised at this index *)
| EvSnapInstall (j : nat)          (* later: Snapshoter.Save(); follower j (not ahead of it) restores those bytes onto its
                                      live state and continues replaying the log from the snapshot's index *)
| EvCHeartbeatSyncFail (n : nat)   (* a heartbeat round whose reply arrives but whose SyncPartitions proposal fails
                                      transiently (term change, timeout, read-only window): nothing is committed
                                      and, because heartbeatLoop `continue`s, the cache is NOT refreshed *)
| EvCMonitorCommitFail (n : nat).  (* a partition-monitor round in which the master assigns a partition, the reply ARRIVES,
                                      and the AddPartition proposal fails transiently (term change between receive and
                                      commit, leadership loss, timeout, read-only window): partitionMonitorLoop
                                      `continue`s, so neither the durable set nor the cache change - the same world
                                      as after a lost reply; the assignment exists only at the master *)

(* ---------- replica events ---------- *)
Definition ev_catchup (w : world) (j k : nat) : world :=
  if Nat.eqb j (w_leader w) then w else
  match nth_error (w_reps w) j with
  | None => w
  | Some r =>
      let todo := firstn k (skipn (r_applied r) (w_log w)) in
      let r' := {| r_applied := r_applied r + length todo; r_st := replay_from (r_st r) todo |} in
      set_master w (w_log w) (upd_nth j r' (w_reps w)) (w_leader w) (w_mvol w) (h_cids w) (h_tsids w) (h_parts w)
  end.

Definition ev_install (w : world) (j : nat) : world :=
  if Nat.eqb j (w_leader w) then w else
  match nth_error (w_reps w) j with
  | None => w
  | Some r =>
      let r' := {| r_applied := length (w_log w); r_st := restore_into (r_st r) (leader_st w) |} in
      set_master w (w_log w) (upd_nth j r' (w_reps w)) (w_leader w) (w_mvol w) (h_cids w) (h_tsids w) (h_parts w)
  end.

Definition ev_restart (w : world) (j : nat) : world :=
  if Nat.eqb j (w_leader w) then w else
  match nth_error (w_reps w) j with
  | None => w
  | Some _ =>
      set_master w (w_log w) (upd_nth j rep0 (w_reps w)) (w_leader w) (w_mvol w) (h_cids w) (h_tsids w) (h_parts w)
  end.

Definition ev_leader (w : world) (j : nat) : world :=
  match nth_error (w_reps w) j with
  | None => w
  | Some r =>
      let todo := skipn (r_applied r) (w_log w) in
      let r' := {| r_applied := r_applied r + length todo; r_st := replay_from (r_st r) todo |} in
      set_master w (w_log w) (upd_nth j r' (w_reps w)) j [] (h_cids w) (h_tsids w) (h_parts w)
  end.

Definition ev_failover (w : world) : world :=
  let lr := leader_rep w in
  let r' := {| r_applied := r_applied lr; r_st := restore_into m_init (r_st lr) |} in
  set_master w (w_log w) (upd_nth (w_leader w) r' (w_reps w)) (w_leader w) [] (h_cids w) (h_tsids w) (h_parts w).

Definition ev_snap_take (w : world) : world :=
  set_snap w (Some (r_applied (leader_rep w), leader_st w)).

Definition ev_snap_install (w : world) (j : nat) : world :=
  if Nat.eqb j (w_leader w) then w else
  match nth_error (w_reps w) j, w_snap w with
  | Some r, Some (idx, s) =>
      if Nat.leb (r_applied r) idx then
        let r' := {| r_applied := idx; r_st := restore_into (r_st r) s |} in
        set_master w (w_log w) (upd_nth j r' (w_reps w)) (w_leader w) (w_mvol w) (h_cids w) (h_tsids w) (h_parts w)
      else w
  | _, _ => w
  end.

(* ---------- curator glue (leader.go) ---------- *)
Definition cur_node (w : world) (n : nat) : option cnode :=
  if Nat.eqb n (w_cleader w) then nth_error (w_nodes w) n else None.

Definition set_node (w : world) (n : nat) (nd : cnode) : world :=
  set_curator w (w_cur w) (upd_nth n nd (w_nodes w)) (w_cleader w) (w_fatal w).

Definition set_cur_node (w : world) (cs : cstate) (n : nat) (nd : cnode) : world :=
  set_curator w cs (upd_nth n nd (w_nodes w)) (w_cleader w) (w_fatal w).

Fixpoint dedup (l : list N) : list N :=
  match l with [] => [] | x :: r => if memN x r then dedup r else x :: dedup r end.
Definition set_size (l : list N) : nat := length (dedup l).

(* initialize: the GetCuratorInfo decision *)
Definition c_start (w : world) (n : nat) : world :=
  match cur_node w n with
  | Some nd =>
      match n_pc nd with
      | PcStart =>
          let cs := w_cur w in
          if negb (c_id cs =? 0) && negb (match c_parts cs with [] => true | _ => false end)
          then set_node w n {| n_pc := PcRun (c_id cs); n_cache := c_parts cs |}
          else if c_id cs =? 0 then set_node w n {| n_pc := PcReg; n_cache := n_cache nd |}
          else set_node w n {| n_pc := PcNewPart (c_id cs); n_cache := n_cache nd |}
      | _ => w
      end
  | None => w
  end.

(* initialize: mc.RegisterCurator (the master acts even if the reply is lost) *)
Definition c_register (w : world) (n : nat) (lost : bool) : world * option mres :=
  match cur_node w n with
  | Some nd =>
      match n_pc nd with
      | PcReg =>
          let '(w1, r) := m_register_curator w in
          (match r, lost with
           | ROk id, false => set_node w1 n {| n_pc := PcCommitReg id; n_cache := n_cache nd |}
           | _, _ => w1
           end, Some r)
      | _ => (w, None)
      end
  | None => (w, None)
  end.

(* initialize: stateHandler.Register(id) *)
Definition c_commit_reg (w : world) (n : nat) : world :=
  match cur_node w n with
  | Some nd =>
      match n_pc nd with
      | PcCommitReg id =>
          let '(cs, did) := c_set_reg (w_cur w) id in
          set_cur_node w cs n {| n_pc := PcNewPart did; n_cache := n_cache nd |}
      | _ => w
      end
  | None => w
  end.

(* initialize: mc.NewPartition(id) *)
Definition c_new_part (w : world) (n : nat) (lost : bool) : world * option mres :=
  match cur_node w n with
  | Some nd =>
      match n_pc nd with
      | PcNewPart id =>
          let '(w1, r) := m_new_partition w id in
          (match r, lost with
           | ROk p, false => set_node w1 n {| n_pc := PcCommitPart id p; n_cache := n_cache nd |}
           | _, _ => w1
           end, Some r)
      | _ => (w, None)
      end
  | None => (w, None)
  end.

(* initialize: stateHandler.AddPartition(p, term); an error (ErrAlreadyExists) is retried forever *)
Definition c_commit_part (w : world) (n : nat) : world * option bool :=
  match cur_node w n with
  | Some nd =>
      match n_pc nd with
      | PcCommitPart id p =>
          let '(cs, ok) := c_add_part (w_cur w) p in
          if ok then (set_cur_node w cs n {| n_pc := PcRun id; n_cache := [p] |}, Some true)
          else (w, Some false)
      | _ => (w, None)
      end
  | None => (w, None)
  end.

(* one heartbeatLoop round: heartbeat; sanity check; SyncPartitions when the set sizes differ; refresh cache *)
Definition c_heartbeat (w : world) (n : nat) (lost : bool) : world * option (option (list N)) :=
  match cur_node w n with
  | Some nd =>
      match n_pc nd with
      | PcRun id =>
          let '(w1, rep) := m_heartbeat w id in
          (match rep, lost with
           | Some ps, false =>
               if negb (forallb (fun k => memN k ps) (n_cache nd))
               then set_curator w1 (w_cur w1) (w_nodes w1) (w_cleader w1) true     (* log.Fatalf *)
               else
                 let cs := if Nat.eqb (set_size ps) (set_size (n_cache nd)) then w_cur w1
                           else c_sync (w_cur w1) ps in
                 set_cur_node w1 cs n {| n_pc := PcRun id; n_cache := ps |}
           | _, _ => w1
           end, Some rep)
      | _ => (w, None)
      end
  | None => (w, None)
  end.

(* would this heartbeat round call SyncPartitions? (reply and cache differ in size) *)
Definition sync_needed (w : world) (n : nat) : bool :=
  match cur_node w n with
  | Some nd =>
      match n_pc nd with
      | PcRun id => match snd (m_heartbeat w id) with
                    | Some ps => negb (Nat.eqb (set_size ps) (set_size (n_cache nd)))
                    | None => false
                    end
      | _ => false
      end
  | None => false
  end.

(* a round whose sync fails: if no sync was needed it is an ordinary completed round; otherwise the master has
   acted (volatile table) but neither the durable state nor the node's cache change - the same world as after a
   lost reply *)
Definition c_heartbeat_syncfail (w : world) (n : nat) : world * option (option (list N)) :=
  c_heartbeat w n (sync_needed w n).

(* one partitionMonitorLoop round that decides to ask: NewPartition, AddPartition, append to the cache *)
Definition c_monitor (w : world) (n : nat) (lost : bool) : world * option (mres * bool) :=
  match cur_node w n with
  | Some nd =>
      match n_pc nd with
      | PcRun id =>
          let '(w1, r) := m_new_partition w id in
          match r, lost with
          | ROk p, false =>
              let '(cs, ok) := c_add_part (w_cur w1) p in
              if ok then (set_cur_node w1 cs n {| n_pc := PcRun id; n_cache := n_cache nd ++ [p] |}, Some (r, true))
              else (w1, Some (r, false))
          | _, _ => (w1, Some (r, false))
          end
      | _ => (w, None)
      end
  | None => (w, None)
  end.

Definition c_leader (w : world) (n : nat) : world :=
  if Nat.ltb n (length (w_nodes w)) then set_curator w (w_cur w) (w_nodes w) n (w_fatal w) else w.

Definition c_restart (w : world) (n : nat) : world :=
  if Nat.ltb n (length (w_nodes w)) then set_node w n node0 else w.

(* ---------- one step ---------- *)
Definition step (w : world) (e : event) : world :=
  match e with
  | EvCmd c => fst (propose w c)
  | EvCatchup j k => ev_catchup w j k
  | EvInstall j => ev_install w j
  | EvRestart j => ev_restart w j
  | EvLeader j => ev_leader w j
  | EvFailover => ev_failover w
  | EvMRegCur => fst (m_register_curator w)
  | EvMRegTs => fst (m_register_ts w)
  | EvMHeartbeat c => fst (m_heartbeat w c)
  | EvMNewPart c => fst (m_new_partition w c)
  | EvMLookup _ => w
  | EvCStart n => c_start w n
  | EvCRegister n lost => fst (c_register w n lost)
  | EvCCommitReg n => c_commit_reg w n
  | EvCNewPart n lost => fst (c_new_part w n lost)
  | EvCCommitPart n => fst (c_commit_part w n)
  | EvCHeartbeat n lost => fst (c_heartbeat w n lost)
  | EvCMonitor n lost => fst (c_monitor w n lost)
  | EvCLeader n => c_leader w n
  | EvCRestart n => c_restart w n
  | EvDump => w
  | EvCDump => w
  | EvSnapTake => ev_snap_take w
  | EvSnapInstall j => ev_snap_install w j
  | EvCHeartbeatSyncFail n => fst (c_heartbeat_syncfail w n)
  | EvCMonitorCommitFail n => fst (c_monitor w n true)
  end.

Definition run_from (w : world) (evs : list event) : world := fold_left step evs w.
Definition run (evs : list event) : world := run_from w_init evs.

(* ---------- the unrepaired variant (finding F7, before ca0788b): the three restoring events merge ---------- *)
Definition ev_install_merge (w : world) (j : nat) : world :=
  if Nat.eqb j (w_leader w) then w else
  match nth_error (w_reps w) j with
  | None => w
  | Some r =>
      let r' := {| r_applied := length (w_log w); r_st := restore_merge (r_st r) (leader_st w) |} in
      set_master w (w_log w) (upd_nth j r' (w_reps w)) (w_leader w) (w_mvol w) (h_cids w) (h_tsids w) (h_parts w)
  end.
Definition ev_failover_merge (w : world) : world :=
  let lr := leader_rep w in
  let r' := {| r_applied := r_applied lr; r_st := restore_merge m_init (r_st lr) |} in
  set_master w (w_log w) (upd_nth (w_leader w) r' (w_reps w)) (w_leader w) [] (h_cids w) (h_tsids w) (h_parts w).
Definition ev_snap_install_merge (w : world) (j : nat) : world :=
  if Nat.eqb j (w_leader w) then w else
  match nth_error (w_reps w) j, w_snap w with
  | Some r, Some (idx, s) =>
      if Nat.leb (r_applied r) idx then
        let r' := {| r_applied := idx; r_st := restore_merge (r_st r) s |} in
        set_master w (w_log w) (upd_nth j r' (w_reps w)) (w_leader w) (w_mvol w) (h_cids w) (h_tsids w) (h_parts w)
      else w
  | _, _ => w
  end.
Definition step_merge (w : world) (e : event) : world :=
  match e with
  | EvInstall j => ev_install_merge w j
  | EvFailover => ev_failover_merge w
  | EvSnapInstall j => ev_snap_install_merge w j
  | _ => step w e
  end.
Definition run_merge (evs : list event) : world := fold_left step_merge evs w_init.

(* ================= wire format ================= *)
Definition zN (z : Z) : N := Z.to_N z.
Definition zn (z : Z) : nat := Z.to_nat z.
Definition zb (z : Z) : bool := negb (Z.eqb z 0).
Definition Nz (n : N) : Z := Z.of_N n.
Definition nz (n : nat) : Z := Z.of_nat n.

Definition err_code (e : merr) : N :=
  match e with
  | EReadOnly => c12_ErrReadOnlyMode | EBadCurator => c12_ErrBadCuratorID
  | EQuota => c12_ErrExceedNewPartitionQuota | ENoSuchBlob => c12_ErrNoSuchBlob
  | ECantFindAddr => c12_ErrCantFindCuratorAddr | EAlreadyExists => c12_ErrAlreadyExists
  end.

Definition enc_res (r : mres) : list Z :=
  match r with ROk v => [Nz c12_NoError; Nz v] | RErr e => [Nz (err_code e); 0%Z] end.

Definition enc_list (l : list N) : list Z := nz (length l) :: map Nz l.

Definition enc_mstate (s : mstate) : list Z :=
  [Nz (next_c s); Nz (next_t s); if ro s then 1%Z else 0%Z] ++ enc_list (parts s).

Definition enc_rep (r : replica) : list Z := nz (r_applied r) :: enc_mstate (r_st r).

Definition enc_pc (p : cpc) : list Z :=
  match p with
  | PcStart => [0%Z; 0%Z; 0%Z] | PcReg => [1%Z; 0%Z; 0%Z]
  | PcCommitReg id => [2%Z; Nz id; 0%Z] | PcNewPart id => [3%Z; Nz id; 0%Z]
  | PcCommitPart id p => [4%Z; Nz id; Nz p] | PcRun id => [5%Z; Nz id; 0%Z]
  end.

Definition decode (op : list Z) : option event :=
  match op with
  | [1; 1; _] => Some (EvCmd CRegCur)
  | [1; 2; _] => Some (EvCmd CRegTs)
  | [1; 3; c] => Some (EvCmd (CNewPart (zN c)))
  | [1; 4; b] => Some (EvCmd (CSetRO (zb b)))
  | [2; j; k] => Some (EvCatchup (zn j) (zn k))
  | [3; j] => Some (EvInstall (zn j))
  | [4; j] => Some (EvRestart (zn j))
  | [5; j] => Some (EvLeader (zn j))
  | [6] => Some EvFailover
  | [7] => Some EvMRegCur
  | [8] => Some EvMRegTs
  | [9; c] => Some (EvMHeartbeat (zN c))
  | [10; c] => Some (EvMNewPart (zN c))
  | [11; p] => Some (EvMLookup (zN p))
  | [12] => Some EvDump
  | [13] => Some EvSnapTake
  | [14; j] => Some (EvSnapInstall (zn j))
  | [20; n] => Some (EvCStart (zn n))
  | [21; n; l] => Some (EvCRegister (zn n) (zb l))
  | [22; n] => Some (EvCCommitReg (zn n))
  | [23; n; l] => Some (EvCNewPart (zn n) (zb l))
  | [24; n] => Some (EvCCommitPart (zn n))
  | [25; n; l] => Some (EvCHeartbeat (zn n) (zb l))
  | [26; n; l] => Some (EvCMonitor (zn n) (zb l))
  | [27; n] => Some (EvCLeader (zn n))
  | [28; n] => Some (EvCRestart (zn n))
  | [29] => Some EvCDump
  | [30; n] => Some (EvCHeartbeatSyncFail (zn n))
  | [31; n] => Some (EvCMonitorCommitFail (zn n))
  | _ => None
  end%Z.

Definition enc_vol (t : list (N * N)) : list Z :=
  nz (length t) :: flat_map (fun '(i, q) => [Nz i; Nz q]) t.

Definition enc_node (nd : cnode) : list Z := enc_pc (n_pc nd) ++ enc_list (n_cache nd).

(* what the implementation is expected to show for an event (computed on the world BEFORE/AFTER as needed) *)
Definition observe (w : world) (e : event) : list Z :=
  let w' := step w e in
  match e with
  | EvCmd c => enc_res (snd (propose w c))
  | EvCatchup j _ | EvInstall j | EvRestart j | EvSnapInstall j => enc_rep (nth j (w_reps w') rep0)
  | EvSnapTake => match w_snap w' with Some (idx, _) => [nz idx] | None => [(-2)%Z] end
  | EvLeader _ => nz (w_leader w') :: enc_rep (leader_rep w')
  | EvFailover => enc_mstate (leader_st w')
  | EvMRegCur => enc_res (snd (m_register_curator w))
  | EvMRegTs => enc_res (snd (m_register_ts w))
  | EvMHeartbeat c => match snd (m_heartbeat w c) with
                      | Some ps => Nz c12_NoError :: enc_list ps
                      | None => [Nz c12_ErrBadCuratorID; 0%Z]
                      end
  | EvMNewPart c => enc_res (snd (m_new_partition w c))
  | EvMLookup p => enc_res (m_lookup (leader_st w) p) ++ enc_res (m_lookup_addr w p)
  | EvDump => enc_mstate (leader_st w) ++ enc_vol (w_mvol w)
  | EvCStart n => match nth_error (w_nodes w') n with Some nd => enc_node nd | None => [(-2)%Z] end
  | EvCRegister n lost => match snd (c_register w n lost) with Some r => enc_res r | None => [(-2)%Z] end
  | EvCCommitReg n => [Nz (c_id (w_cur w'))]
  | EvCNewPart n lost => match snd (c_new_part w n lost) with Some r => enc_res r | None => [(-2)%Z] end
  | EvCCommitPart n => match snd (c_commit_part w n) with
                       | Some true => [Nz c12_NoError] | Some false => [Nz c12_ErrAlreadyExists]
                       | None => [(-2)%Z] end
  | EvCHeartbeat n lost =>
      match snd (c_heartbeat w n lost) with
      | Some (Some ps) => (if w_fatal w' then 2%Z else 1%Z) :: enc_list ps ++ enc_list (c_parts (w_cur w'))
      | Some None => [0%Z]
      | None => [(-2)%Z]
      end
  | EvCHeartbeatSyncFail n =>
      match snd (c_heartbeat_syncfail w n) with
      | Some (Some ps) => (if w_fatal w' then 2%Z else 1%Z) :: enc_list ps ++ enc_list (c_parts (w_cur w'))
      | Some None => [0%Z]
      | None => [(-2)%Z]
      end
  | EvCMonitorCommitFail n =>
      match snd (c_monitor w n true) with
      | Some (r, ok) => enc_res r ++ [if ok then 1%Z else 0%Z] ++ enc_list (c_parts (w_cur w'))
      | None => [(-2)%Z]
      end
  | EvCMonitor n lost =>
      match snd (c_monitor w n lost) with
      | Some (r, ok) => enc_res r ++ [if ok then 1%Z else 0%Z] ++ enc_list (c_parts (w_cur w'))
      | None => [(-2)%Z]
      end
  | EvCLeader _ | EvCRestart _ => [nz (w_cleader w')]
  | EvCDump => Nz (c_id (w_cur w)) :: enc_list (c_parts (w_cur w)) ++ [nz (w_cleader w)]
               ++ flat_map enc_node (w_nodes w)
  end.

Fixpoint run_wire (w : world) (ops : list (list Z)) : list (list Z) :=
  match ops with
  | [] => []
  | op :: r =>
      match decode op with
      | Some e => observe w e :: run_wire (step w e) r
      | None => [(-1)%Z] :: run_wire w r
      end
  end.

(* Generic driver entry point: ops of one case -> expected observation lines. *)
Definition run_case (ops : list (list Z)) : list (list Z) := run_wire w_init ops.
