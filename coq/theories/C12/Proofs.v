(* C12/Proofs.v — lemmas about the identity/partition allocation model. *)
From Coq Require Import List Arith NArith ZArith Bool Lia ZifyN ZifyNat ZifyBool.
From BLB Require Import Gen.Consts C12.Model.
Import ListNotations.
Open Scope N_scope.

Definition W32 : N := 4294967296.

(* ================= small list facts ================= *)
Lemma memN_In x l : memN x l = true <-> In x l.
Proof.
  unfold memN. rewrite existsb_exists. split.
  - intros [y [Hy He]]. apply N.eqb_eq in He. subst; auto.
  - intros H. exists x. split; auto. apply N.eqb_refl.
Qed.

Lemma memN_false x l : memN x l = false <-> ~ In x l.
Proof. rewrite <- memN_In. destruct (memN x l); split; congruence || tauto. Qed.

Lemma upd_nth_length {A} n (x : A) l : length (upd_nth n x l) = length l.
Proof. revert n; induction l; destruct n; simpl; auto. Qed.

Lemma nth_upd_nth_eq {A} n (x d : A) l : (n < length l)%nat -> nth n (upd_nth n x l) d = x.
Proof. revert n; induction l; destruct n; simpl; intros; try lia; auto. apply IHl; lia. Qed.

Lemma nth_upd_nth_neq {A} n m (x d : A) l : n <> m -> nth m (upd_nth n x l) d = nth m l d.
Proof. revert n m; induction l; destruct n, m; simpl; intros; try congruence; auto. Qed.

Lemma In_upd_nth {A} n (x y : A) l : In y (upd_nth n x l) -> y = x \/ In y l.
Proof.
  revert n; induction l; destruct n; simpl; intros; auto.
  - destruct H; auto.
  - destruct H; auto. apply IHl in H. tauto.
Qed.

Lemma Forall_upd_nth {A} (P : A -> Prop) n x l : Forall P l -> P x -> Forall P (upd_nth n x l).
Proof.
  intros Hl Hx. apply Forall_forall. intros y Hy. apply In_upd_nth in Hy as [->|Hy]; auto.
  rewrite Forall_forall in Hl; auto.
Qed.

Lemma nth_error_nth' {A} (l : list A) n d x : nth_error l n = Some x -> nth n l d = x /\ (n < length l)%nat.
Proof.
  intros H. split. apply nth_error_nth; auto. apply nth_error_Some. congruence.
Qed.

Lemma ins_sorted_In x y l : In y (ins_sorted x l) <-> y = x \/ In y l.
Proof.
  induction l as [|a l IH]; simpl.
  - intuition.
  - destruct (x <=? a); simpl; rewrite ?IH; intuition.
Qed.

Lemma dedup_In x l : In x (dedup l) <-> In x l.
Proof.
  induction l as [|a l IH]; simpl; [tauto|].
  destruct (memN a l) eqn:E.
  - rewrite IH. apply memN_In in E. split; auto. intros [->|]; auto.
  - simpl. rewrite IH. tauto.
Qed.

Lemma dedup_NoDup l : NoDup (dedup l).
Proof.
  induction l as [|a l IH]; simpl; [constructor|].
  destruct (memN a l) eqn:E; auto. constructor; auto.
  rewrite dedup_In. apply memN_false; auto.
Qed.

(* two sets of equal size one of which contains the other are equal *)
Lemma same_size_incl a b : set_size a = set_size b -> incl a b -> incl b a.
Proof.
  unfold set_size. intros Hs Hi x Hx.
  rewrite <- dedup_In. apply (@NoDup_length_incl N (dedup a) (dedup b)).
  - apply dedup_NoDup.
  - rewrite Hs. apply Nat.le_refl.
  - intros y Hy. rewrite dedup_In in *. apply Hi; auto.
  - rewrite dedup_In; auto.
Qed.

(* ================= the master FSM ================= *)

(* s' extends s: the table only grows at its end, the counters only grow *)
Definition ext (s s' : mstate) : Prop :=
  (exists l, parts s' = parts s ++ l) /\ next_c s <= next_c s' /\ next_t s <= next_t s'.

Lemma ext_refl s : ext s s.
Proof. split; [exists []; rewrite app_nil_r; auto | lia]. Qed.

Lemma ext_trans a b c : ext a b -> ext b c -> ext a c.
Proof.
  intros [[l1 H1] ?] [[l2 H2] ?]. split; [|lia].
  exists (l1 ++ l2). rewrite H2, H1, app_assoc. auto.
Qed.

Lemma u32_small x : x < W32 -> u32 x = x.
Proof. unfold u32, W32. intros. apply N.mod_small; auto. Qed.

(* as long as the counters stay below 2^32 - 1, one command extends the state *)
Lemma m_apply_ext s c : next_c s + 1 < W32 -> next_t s + 1 < W32 -> ext s (fst (m_apply s c)).
Proof.
  intros Hc Ht. destruct c; simpl.
  - destruct (ro s); simpl; [apply ext_refl|].
    split; simpl; [exists []; rewrite app_nil_r; auto|]. rewrite u32_small; auto; lia.
  - destruct (ro s); simpl; [apply ext_refl|].
    split; simpl; [exists []; rewrite app_nil_r; auto|]. rewrite u32_small; auto; lia.
  - destruct (ro s); simpl; [apply ext_refl|].
    destruct (negb (verify_cid s c)); simpl; [apply ext_refl|].
    destruct (c12_MaxPartitionID <=? plen s); simpl; [apply ext_refl|].
    split; simpl; [eexists; eauto | lia].
  - split; simpl; [exists []; rewrite app_nil_r; auto | lia].
Qed.

Lemma m_lookup_ok s p c : m_lookup s p = ROk c <-> p <> 0 /\ p < plen s /\ nth (N.to_nat p) (parts s) 0 = c.
Proof.
  unfold m_lookup. destruct (p =? 0) eqn:E0; simpl.
  - apply N.eqb_eq in E0. split; [discriminate | intros [? _]; congruence].
  - apply N.eqb_neq in E0. destruct (plen s <=? p) eqn:E1.
    + apply N.leb_le in E1. split; [discriminate | intros (_ & ? & _); lia].
    + apply N.leb_gt in E1. split.
      * intros H; inversion H; auto.
      * intros (_ & _ & ->); auto.
Qed.

(* ownership is stable under extension *)
Lemma m_lookup_ext s s' p c : ext s s' -> m_lookup s p = ROk c -> m_lookup s' p = ROk c.
Proof.
  intros [[l Hl] _] H. apply m_lookup_ok in H as (H0 & H1 & H2). apply m_lookup_ok.
  unfold plen in *. rewrite Hl, app_length. split; auto. split; [lia|].
  rewrite app_nth1; auto. lia.
Qed.

(* what one command returns *)
Lemma m_apply_regcur s v : snd (m_apply s CRegCur) = ROk v -> v = next_c s /\ next_c (fst (m_apply s CRegCur)) = u32 (next_c s + 1).
Proof. simpl. destruct (ro s); simpl; intros H; inversion H; auto. Qed.

Lemma m_apply_regts s v : snd (m_apply s CRegTs) = ROk v -> v = next_t s /\ next_t (fst (m_apply s CRegTs)) = u32 (next_t s + 1).
Proof. simpl. destruct (ro s); simpl; intros H; inversion H; auto. Qed.

Lemma m_apply_newpart s c v :
  snd (m_apply s (CNewPart c)) = ROk v ->
  v = plen s /\ verify_cid s c = true /\ parts (fst (m_apply s (CNewPart c))) = parts s ++ [c].
Proof.
  simpl. destruct (ro s); simpl; [discriminate|].
  destruct (verify_cid s c); simpl; [|discriminate].
  destruct (c12_MaxPartitionID <=? plen s); simpl; [discriminate|].
  intros H; inversion H; auto.
Qed.

Lemma m_apply_newpart_lookup s c v :
  parts s <> [] -> snd (m_apply s (CNewPart c)) = ROk v -> m_lookup (fst (m_apply s (CNewPart c))) v = ROk c.
Proof.
  intros Hne H. apply m_apply_newpart in H as (-> & _ & Hp). apply m_lookup_ok.
  unfold plen. rewrite Hp, app_length. simpl. split.
  - destruct (parts s); simpl; [congruence | lia].
  - split; [lia|]. rewrite Nat2N.id, app_nth2, Nat.sub_diag; auto.
Qed.

Lemma m_apply_parts_nonempty s c : parts s <> [] -> parts (fst (m_apply s c)) <> [].
Proof.
  intros H. destruct c; simpl; auto.
  - destruct (ro s); auto.
  - destruct (ro s); auto.
  - destruct (ro s); simpl; auto. destruct (negb (verify_cid s c)); simpl; auto.
    destruct (c12_MaxPartitionID <=? plen s); simpl; auto. destruct (parts s); simpl; congruence.
Qed.

(* the counters advance by at most one per command, and are never 0 below the wrap *)
Lemma m_apply_counters s c :
  next_c s + 1 < W32 -> next_t s + 1 < W32 ->
  next_c (fst (m_apply s c)) <= next_c s + 1 /\ next_t (fst (m_apply s c)) <= next_t s + 1.
Proof.
  intros Hc Ht. destruct c; simpl.
  - destruct (ro s); simpl; rewrite ?u32_small; auto; lia.
  - destruct (ro s); simpl; rewrite ?u32_small; auto; lia.
  - destruct (ro s); simpl; [lia|]. destruct (negb (verify_cid s c)); simpl; [lia|].
    destruct (c12_MaxPartitionID <=? plen s); simpl; lia.
  - lia.
Qed.

(* ---------- replay ---------- *)
Definition replay (cs : list mcmd) : mstate := replay_from m_init cs.

Lemma replay_from_app s a b : replay_from s (a ++ b) = replay_from (replay_from s a) b.
Proof. unfold replay_from. apply fold_left_app. Qed.

Lemma replay_snoc cs c : replay (cs ++ [c]) = fst (m_apply (replay cs) c).
Proof. unfold replay. rewrite replay_from_app. reflexivity. Qed.

(* a well-formed canonical state: non-empty table, counters >= 1 and bounded by the log length *)
Definition wf_len (n : nat) (s : mstate) : Prop :=
  parts s <> [] /\ 1 <= next_c s <= 1 + N.of_nat n /\ 1 <= next_t s <= 1 + N.of_nat n.

Lemma replay_wf cs : N.of_nat (length cs) + 2 < W32 -> wf_len (length cs) (replay cs).
Proof.
  induction cs as [|c cs IH] using rev_ind; intros Hb.
  - unfold wf_len, replay; simpl. split; [discriminate | lia].
  - rewrite app_length in *. simpl in *. rewrite replay_snoc.
    destruct IH as (Hp & Hc & Ht); [lia|].
    assert (Hc1 : next_c (replay cs) + 1 < W32) by lia.
    assert (Ht1 : next_t (replay cs) + 1 < W32) by lia.
    pose proof (m_apply_counters (replay cs) c Hc1 Ht1) as [Hc2 Ht2].
    pose proof (m_apply_ext (replay cs) c Hc1 Ht1) as (_ & Hc3 & Ht3).
    split; [apply m_apply_parts_nonempty; auto | lia].
Qed.

Lemma replay_ext_prefix cs k :
  N.of_nat (length cs) + 2 < W32 -> ext (replay (firstn k cs)) (replay cs).
Proof.
  revert k. induction cs as [|c cs IH] using rev_ind; intros k Hb.
  - rewrite firstn_nil. apply ext_refl.
  - rewrite app_length in Hb. simpl in Hb.
    destruct (Nat.le_gt_cases k (length cs)) as [Hk|Hk].
    + rewrite firstn_app. replace (k - length cs)%nat with 0%nat by lia. rewrite firstn_O, app_nil_r.
      eapply ext_trans; [apply IH; lia|]. rewrite replay_snoc.
      destruct (replay_wf cs) as (_ & ? & ?); [lia|]. apply m_apply_ext; lia.
    + rewrite firstn_all2; [apply ext_refl|]. rewrite app_length; simpl; lia.
Qed.
