(* C12/Proofs.v — lemmas about the identity/partition allocation model. *)
From Coq Require Import List Arith NArith ZArith Bool Lia ZifyN ZifyNat ZifyBool.
From BLB Require Import Gen.Consts C12.Model.
Import ListNotations.
Open Scope N_scope.

Definition W32 : N := 4294967296.

(* ================= small list facts ================= *)
Lemma memN_In x l : memN x l = true <-> In x l.
Proof.
  unfold memN. rewrite existsb_exists. split.
  - intros [y [Hy He]]. apply N.eqb_eq in He. subst; auto.
  - intros H. exists x. split; auto. apply N.eqb_refl.
Qed.

Lemma memN_false x l : memN x l = false <-> ~ In x l.
Proof. rewrite <- memN_In. destruct (memN x l); split; congruence || tauto. Qed.

Lemma upd_nth_length {A} n (x : A) l : length (upd_nth n x l) = length l.
Proof. revert n; induction l; destruct n; simpl; auto. Qed.

Lemma nth_upd_nth_eq {A} n (x d : A) l : (n < length l)%nat -> nth n (upd_nth n x l) d = x.
Proof. revert n; induction l; destruct n; simpl; intros; try lia; auto. apply IHl; lia. Qed.

Lemma nth_upd_nth_neq {A} n m (x d : A) l : n <> m -> nth m (upd_nth n x l) d = nth m l d.
Proof. revert n m; induction l; destruct n, m; simpl; intros; try congruence; auto. Qed.

Lemma In_upd_nth {A} n (x y : A) l : In y (upd_nth n x l) -> y = x \/ In y l.
Proof.
  revert n; induction l; destruct n; simpl; intros; auto.
  - destruct H; auto.
  - destruct H; auto. apply IHl in H. tauto.
Qed.

Lemma Forall_upd_nth {A} (P : A -> Prop) n x l : Forall P l -> P x -> Forall P (upd_nth n x l).
Proof.
  intros Hl Hx. apply Forall_forall. intros y Hy. apply In_upd_nth in Hy as [->|Hy]; auto.
  rewrite Forall_forall in Hl; auto.
Qed.

Lemma nth_error_nth' {A} (l : list A) n d x : nth_error l n = Some x -> nth n l d = x /\ (n < length l)%nat.
Proof.
  intros H. split. apply nth_error_nth; auto. apply nth_error_Some. congruence.
Qed.

Lemma ins_sorted_In x y l : In y (ins_sorted x l) <-> y = x \/ In y l.
Proof.
  induction l as [|a l IH]; simpl.
  - intuition.
  - destruct (x <=? a); simpl; rewrite ?IH; intuition.
Qed.

Lemma dedup_In x l : In x (dedup l) <-> In x l.
Proof.
  induction l as [|a l IH]; simpl; [tauto|].
  destruct (memN a l) eqn:E.
  - rewrite IH. apply memN_In in E. split; auto. intros [->|]; auto.
  - simpl. rewrite IH. tauto.
Qed.

Lemma dedup_NoDup l : NoDup (dedup l).
Proof.
  induction l as [|a l IH]; simpl; [constructor|].
  destruct (memN a l) eqn:E; auto. constructor; auto.
  rewrite dedup_In. apply memN_false; auto.
Qed.

Lemma NoDup_app_iff' {A} (a b : list A) :
  NoDup (a ++ b) <-> NoDup a /\ NoDup b /\ (forall x, In x a -> ~ In x b).
Proof.
  induction a as [|x a IH]; simpl.
  - split; [intros H; repeat split; auto; constructor | tauto].
  - split.
    + intros H. inversion H as [|? ? Hn Hd]; subst. apply IH in Hd as (Ha & Hb & Hab).
      repeat split; auto.
      * constructor; auto. intros Hx. apply Hn, in_or_app; auto.
      * intros y [->|Hy]; auto. intros Hyb. apply Hn, in_or_app; auto.
    + intros (Ha & Hb & Hab). inversion Ha as [|? ? Hn Hd]; subst. constructor.
      * intros Hx. apply in_app_or in Hx as [Hx|Hx]; auto. apply (Hab x); auto.
      * apply IH. repeat split; auto.
Qed.

(* two sets of equal size one of which contains the other are equal *)
Lemma same_size_incl a b : set_size a = set_size b -> incl a b -> incl b a.
Proof.
  unfold set_size. intros Hs Hi x Hx.
  rewrite <- dedup_In. apply (@NoDup_length_incl N (dedup a) (dedup b)).
  - apply dedup_NoDup.
  - rewrite Hs. apply Nat.le_refl.
  - intros y Hy. rewrite dedup_In in *. apply Hi; auto.
  - rewrite dedup_In; auto.
Qed.

(* ================= the master FSM ================= *)

(* s' extends s: the table only grows at its end, the counters only grow *)
Definition ext (s s' : mstate) : Prop :=
  (exists l, parts s' = parts s ++ l) /\ next_c s <= next_c s' /\ next_t s <= next_t s'.

Lemma ext_refl s : ext s s.
Proof. split; [exists []; rewrite app_nil_r; auto | lia]. Qed.

Lemma ext_trans a b c : ext a b -> ext b c -> ext a c.
Proof.
  intros [[l1 H1] ?] [[l2 H2] ?]. split; [|lia].
  exists (l1 ++ l2). rewrite H2, H1, app_assoc. auto.
Qed.

Lemma u32_small x : x < W32 -> u32 x = x.
Proof. unfold u32, W32. intros. apply N.mod_small; auto. Qed.

(* as long as the counters stay below 2^32 - 1, one command extends the state *)
Lemma m_apply_ext s c : next_c s + 1 < W32 -> next_t s + 1 < W32 -> ext s (fst (m_apply s c)).
Proof.
  intros Hc Ht. destruct c; simpl.
  - destruct (ro s); simpl; [apply ext_refl|].
    split; simpl; [exists []; rewrite app_nil_r; auto|]. rewrite u32_small; auto; lia.
  - destruct (ro s); simpl; [apply ext_refl|].
    split; simpl; [exists []; rewrite app_nil_r; auto|]. rewrite u32_small; auto; lia.
  - destruct (ro s); simpl; [apply ext_refl|].
    destruct (negb (verify_cid s c)); simpl; [apply ext_refl|].
    destruct (c12_MaxPartitionID <=? plen s); simpl; [apply ext_refl|].
    split; simpl; [eexists; eauto | lia].
  - split; simpl; [exists []; rewrite app_nil_r; auto | lia].
Qed.

Lemma m_lookup_ok s p c : m_lookup s p = ROk c <-> p <> 0 /\ p < plen s /\ nth (N.to_nat p) (parts s) 0 = c.
Proof.
  unfold m_lookup. destruct (p =? 0) eqn:E0; simpl.
  - apply N.eqb_eq in E0. split; [discriminate | intros [? _]; congruence].
  - apply N.eqb_neq in E0. destruct (plen s <=? p) eqn:E1.
    + apply N.leb_le in E1. split; [discriminate | intros (_ & ? & _); lia].
    + apply N.leb_gt in E1. split.
      * intros H; inversion H; auto.
      * intros (_ & _ & ->); auto.
Qed.

(* ownership is stable under extension *)
Lemma m_lookup_ext s s' p c : ext s s' -> m_lookup s p = ROk c -> m_lookup s' p = ROk c.
Proof.
  intros [[l Hl] _] H. apply m_lookup_ok in H as (H0 & H1 & H2). apply m_lookup_ok.
  unfold plen in *. rewrite Hl, app_length. split; auto. split; [lia|].
  rewrite app_nth1; auto. lia.
Qed.

(* what one command returns *)
Lemma m_apply_regcur s v : snd (m_apply s CRegCur) = ROk v -> v = next_c s /\ next_c (fst (m_apply s CRegCur)) = u32 (next_c s + 1).
Proof. simpl. destruct (ro s); simpl; intros H; inversion H; auto. Qed.

Lemma m_apply_regts s v : snd (m_apply s CRegTs) = ROk v -> v = next_t s /\ next_t (fst (m_apply s CRegTs)) = u32 (next_t s + 1).
Proof. simpl. destruct (ro s); simpl; intros H; inversion H; auto. Qed.

Lemma m_apply_newpart s c v :
  snd (m_apply s (CNewPart c)) = ROk v ->
  v = plen s /\ verify_cid s c = true /\ parts (fst (m_apply s (CNewPart c))) = parts s ++ [c].
Proof.
  simpl. destruct (ro s); simpl; [discriminate|].
  destruct (verify_cid s c); simpl; [|discriminate].
  destruct (c12_MaxPartitionID <=? plen s); simpl; [discriminate|].
  intros H; inversion H; auto.
Qed.

Lemma m_apply_newpart_lookup s c v :
  parts s <> [] -> snd (m_apply s (CNewPart c)) = ROk v -> m_lookup (fst (m_apply s (CNewPart c))) v = ROk c.
Proof.
  intros Hne H. apply m_apply_newpart in H as (-> & _ & Hp). apply m_lookup_ok.
  unfold plen. rewrite Hp, app_length. simpl. split.
  - destruct (parts s); simpl; [congruence | lia].
  - split; [lia|]. rewrite Nat2N.id, app_nth2, Nat.sub_diag; auto.
Qed.

Lemma m_apply_parts_nonempty s c : parts s <> [] -> parts (fst (m_apply s c)) <> [].
Proof.
  intros H. destruct c; simpl; auto.
  - destruct (ro s); auto.
  - destruct (ro s); auto.
  - destruct (ro s); simpl; auto. destruct (negb (verify_cid s c)); simpl; auto.
    destruct (c12_MaxPartitionID <=? plen s); simpl; auto. destruct (parts s); simpl; congruence.
Qed.

(* the counters advance by at most one per command, and are never 0 below the wrap *)
Lemma m_apply_counters s c :
  next_c s + 1 < W32 -> next_t s + 1 < W32 ->
  next_c (fst (m_apply s c)) <= next_c s + 1 /\ next_t (fst (m_apply s c)) <= next_t s + 1.
Proof.
  intros Hc Ht. destruct c; simpl.
  - destruct (ro s); simpl; rewrite ?u32_small; auto; lia.
  - destruct (ro s); simpl; rewrite ?u32_small; auto; lia.
  - destruct (ro s); simpl; [lia|]. destruct (negb (verify_cid s c)); simpl; [lia|].
    destruct (c12_MaxPartitionID <=? plen s); simpl; lia.
  - lia.
Qed.

(* ---------- replay ---------- *)
Definition replay (cs : list mcmd) : mstate := replay_from m_init cs.

Lemma replay_from_app s a b : replay_from s (a ++ b) = replay_from (replay_from s a) b.
Proof. unfold replay_from. apply fold_left_app. Qed.

Lemma replay_snoc cs c : replay (cs ++ [c]) = fst (m_apply (replay cs) c).
Proof. unfold replay. rewrite replay_from_app. reflexivity. Qed.

(* a well-formed canonical state: non-empty table, counters >= 1 and bounded by the log length *)
Definition wf_len (n : nat) (s : mstate) : Prop :=
  parts s <> [] /\ 1 <= next_c s <= 1 + N.of_nat n /\ 1 <= next_t s <= 1 + N.of_nat n.

Lemma replay_wf cs : N.of_nat (length cs) + 2 < W32 -> wf_len (length cs) (replay cs).
Proof.
  induction cs as [|c cs IH] using rev_ind; intros Hb.
  - unfold wf_len, replay; simpl. split; [discriminate | lia].
  - rewrite app_length in *. simpl in *. rewrite replay_snoc.
    destruct IH as (Hp & Hc & Ht); [lia|].
    assert (Hc1 : next_c (replay cs) + 1 < W32) by lia.
    assert (Ht1 : next_t (replay cs) + 1 < W32) by lia.
    pose proof (m_apply_counters (replay cs) c Hc1 Ht1) as [Hc2 Ht2].
    pose proof (m_apply_ext (replay cs) c Hc1 Ht1) as (_ & Hc3 & Ht3).
    split; [apply m_apply_parts_nonempty; auto | lia].
Qed.

Lemma replay_ext_prefix cs k :
  N.of_nat (length cs) + 2 < W32 -> ext (replay (firstn k cs)) (replay cs).
Proof.
  revert k. induction cs as [|c cs IH] using rev_ind; intros k Hb.
  - rewrite firstn_nil. apply ext_refl.
  - rewrite app_length in Hb. simpl in Hb.
    destruct (Nat.le_gt_cases k (length cs)) as [Hk|Hk].
    + rewrite firstn_app. replace (k - length cs)%nat with 0%nat by lia. rewrite firstn_O, app_nil_r.
      eapply ext_trans; [apply IH; lia|]. rewrite replay_snoc.
      destruct (replay_wf cs) as (_ & ? & ?); [lia|]. apply m_apply_ext; lia.
    + rewrite firstn_all2; [apply ext_refl|]. rewrite app_length; simpl; lia.
Qed.

Lemma replay_head cs : exists l, parts (replay cs) = 0 :: l.
Proof.
  induction cs as [|c cs IH] using rev_ind.
  - exists []. reflexivity.
  - rewrite replay_snoc. destruct IH as [l Hl]. destruct c; simpl.
    + destruct (ro _); simpl; eauto.
    + destruct (ro _); simpl; eauto.
    + destruct (ro _); simpl; eauto. destruct (negb _); simpl; eauto.
      destruct (_ <=? _); simpl; eauto. rewrite Hl. simpl. eauto.
    + eauto.
Qed.

(* ---------- getPartitions ---------- *)
Lemma get_parts_from_spec i l q p :
  q <> 0 ->
  (In p (get_parts_from i l q) <-> exists k, (k < length l)%nat /\ p = i + N.of_nat k /\ nth k l 0 = q).
Proof.
  intros Hq. revert i. induction l as [|c l IH]; intros i; simpl.
  - split; [tauto | intros (k & Hk & _); lia].
  - assert (Hq0 : (q =? 0) = false) by (apply N.eqb_neq; auto).
    rewrite Hq0. simpl.
    destruct (c =? 0) eqn:Ec0; simpl.
    + apply N.eqb_eq in Ec0. rewrite IH. split.
      * intros (k & Hk & -> & Hn). exists (S k). split; [lia|]. split; [lia|]. auto.
      * intros (k & Hk & -> & Hn). destruct k; [congruence|]. exists k. split; [lia|]. split; [lia|]. auto.
    + destruct (c =? q) eqn:Ecq; simpl.
      * apply N.eqb_eq in Ecq. rewrite IH. split.
        -- intros [<-|(k & Hk & -> & Hn)].
           ++ exists 0%nat. split; [lia|]. split; [lia|]. auto.
           ++ exists (S k). split; [lia|]. split; [lia|]. auto.
        -- intros (k & Hk & -> & Hn). destruct k.
           ++ left. lia.
           ++ right. exists k. split; [lia|]. split; [lia|]. auto.
      * apply N.eqb_neq in Ecq. rewrite IH. split.
        -- intros (k & Hk & -> & Hn). exists (S k). split; [lia|]. split; [lia|]. auto.
        -- intros (k & Hk & -> & Hn). destruct k; [simpl in Hn; congruence|].
           exists k. split; [lia|]. split; [lia|]. auto.
Qed.

(* the heartbeat reply for a valid curator id is exactly the set of partitions that lookup attributes to it *)
Lemma get_partitions_lookup s q p :
  q <> 0 -> nth 0 (parts s) 0 = 0 -> (In p (get_partitions s q) <-> m_lookup s p = ROk q).
Proof.
  intros Hq H0. unfold get_partitions. rewrite get_parts_from_spec; auto. rewrite m_lookup_ok. unfold plen. split.
  - intros (k & Hk & -> & Hn). simpl. rewrite Nat2N.id. split; [|split; [lia|auto]].
    destruct k; [congruence | lia].
  - intros (Hp & Hl & Hn). exists (N.to_nat p). split; [lia|]. split; [lia|]. auto.
Qed.

(* ================= the replica group ================= *)
Definition canon (w : world) : mstate := replay (w_log w).

Definition honest (lg : list mcmd) (r : replica) : Prop :=
  (r_applied r <= length lg)%nat /\ r_st r = replay (firstn (r_applied r) lg).

Definition RInv (w : world) : Prop :=
  Forall (honest (w_log w)) (w_reps w) /\
  (w_leader w < length (w_reps w))%nat /\
  r_applied (leader_rep w) = length (w_log w).

Lemma RInv_leader_st w : RInv w -> leader_st w = canon w.
Proof.
  intros (Hh & Hl & Ha). unfold leader_st, canon.
  assert (Hin : In (leader_rep w) (w_reps w)) by (apply nth_In; auto).
  rewrite Forall_forall in Hh. destruct (Hh _ Hin) as [_ ->]. rewrite Ha, firstn_all. auto.
Qed.

Lemma honest_snoc lg c r : honest lg r -> honest (lg ++ [c]) r.
Proof.
  intros [Ha Hs]. split; [rewrite app_length; lia|].
  rewrite firstn_app. replace (r_applied r - length lg)%nat with 0%nat by lia.
  rewrite firstn_O, app_nil_r. auto.
Qed.

Lemma firstn_add {A} a k (l : list A) : firstn (a + k) l = firstn a l ++ firstn k (skipn a l).
Proof.
  revert l; induction a; intros l; simpl; auto.
  destruct l; simpl; [rewrite firstn_nil; auto|]. rewrite IHa. auto.
Qed.

Lemma firstn_length_firstn {A} k (x : list A) : firstn (length (firstn k x)) x = firstn k x.
Proof.
  rewrite firstn_length. destruct (Nat.le_gt_cases k (length x)).
  - rewrite Nat.min_l; auto.
  - rewrite Nat.min_r by lia. rewrite firstn_all, firstn_all2; auto; lia.
Qed.

Lemma honest_catchup lg r k :
  honest lg r ->
  let todo := firstn k (skipn (r_applied r) lg) in
  honest lg {| r_applied := r_applied r + length todo; r_st := replay_from (r_st r) todo |}.
Proof.
  intros [Ha Hs] todo. unfold honest; simpl. split.
  - unfold todo. rewrite firstn_length, skipn_length. lia.
  - rewrite Hs. unfold replay. rewrite <- replay_from_app. f_equal.
    rewrite firstn_add. f_equal. unfold todo. symmetry. apply firstn_length_firstn.
Qed.

Lemma honest_full lg : honest lg {| r_applied := length lg; r_st := replay lg |}.
Proof. split; simpl; auto. rewrite firstn_all; auto. Qed.

Lemma honest_rep0 lg : honest lg rep0.
Proof. split; simpl; [lia | reflexivity]. Qed.

Lemma restore_exact live snap : restore_into live snap = snap.
Proof. reflexivity. Qed.

(* ================= history and curator invariants ================= *)
Definition HInv (w : world) : Prop :=
  Forall (fun v => 1 <= v < next_c (canon w)) (h_cids w) /\ NoDup (h_cids w) /\
  Forall (fun v => 1 <= v < next_t (canon w)) (h_tsids w) /\ NoDup (h_tsids w) /\
  Forall (fun pc => m_lookup (canon w) (fst pc) = ROk (snd pc)) (h_parts w) /\ NoDup (map fst (h_parts w)).

Definition node_ok (S : mstate) (cur : cstate) (nd : cnode) : Prop :=
  incl (n_cache nd) (c_parts cur) /\
  match n_pc nd with
  | PcStart | PcReg => True
  | PcCommitReg id => id <> 0
  | PcNewPart id | PcRun id => id = c_id cur /\ id <> 0
  | PcCommitPart id p => id = c_id cur /\ id <> 0 /\ m_lookup S p = ROk id
  end.

Definition CInvP (S : mstate) (cur : cstate) (nodes : list cnode) (fatal : bool) : Prop :=
  (forall p, In p (c_parts cur) -> c_id cur <> 0 /\ m_lookup S p = ROk (c_id cur)) /\
  Forall (node_ok S cur) nodes /\
  fatal = false.

Definition CInv (w : world) : Prop := CInvP (canon w) (w_cur w) (w_nodes w) (w_fatal w).

Definition Inv (w : world) : Prop := RInv w /\ HInv w /\ CInv w.

Definition bound (w : world) : Prop := N.of_nat (length (w_log w)) + 3 < W32.

Definition Frame (w w' : world) : Prop :=
  w_cur w' = w_cur w /\ w_nodes w' = w_nodes w /\ w_cleader w' = w_cleader w /\ w_fatal w' = w_fatal w.

Lemma Frame_refl w : Frame w w.
Proof. repeat split. Qed.

Lemma node_ok_ext S S' cur nd : ext S S' -> node_ok S cur nd -> node_ok S' cur nd.
Proof.
  intros He [Hc Hp]. split; auto. destruct (n_pc nd); auto.
  destruct Hp as (? & ? & ?). repeat split; auto. eapply m_lookup_ext; eauto.
Qed.

Lemma CInvP_ext S S' cur nodes f : ext S S' -> CInvP S cur nodes f -> CInvP S' cur nodes f.
Proof.
  intros He (Hp & Hn & Hf). split; [|split]; auto.
  - intros p Hin. destruct (Hp p Hin). split; auto. eapply m_lookup_ext; eauto.
  - eapply Forall_impl; [|exact Hn]. intros nd. apply node_ok_ext; auto.
Qed.

Lemma canon_bounds w : bound w ->
  parts (canon w) <> [] /\ 1 <= next_c (canon w) /\ next_c (canon w) + 2 < W32 /\
  1 <= next_t (canon w) /\ next_t (canon w) + 2 < W32.
Proof.
  unfold bound, canon. intros Hb. destruct (replay_wf (w_log w)) as (? & ? & ?); [lia|].
  repeat split; auto; lia.
Qed.

(* ---------- propose ---------- *)
Lemma propose_ok w c w' r :
  RInv w -> HInv w -> bound w -> propose w c = (w', r) ->
  RInv w' /\ HInv w' /\ Frame w w' /\ w_log w' = w_log w ++ [c] /\ w_mvol w' = w_mvol w /\
  r = snd (m_apply (canon w) c) /\ canon w' = fst (m_apply (canon w) c) /\ ext (canon w) (canon w').
Proof.
  intros HR HH Hb Hp.
  pose proof (RInv_leader_st w HR) as Hls. unfold leader_st in Hls.
  destruct (canon_bounds w Hb) as (Hne & Hc1 & Hc2 & Ht1 & Ht2).
  unfold propose in Hp. rewrite Hls in Hp.
  destruct (m_apply (canon w) c) as [s' r0] eqn:Ea. injection Hp as Hw Hr0. subst r0. symmetry in Hw.
  assert (Hcan : canon w' = s').
  { rewrite Hw. unfold canon; simpl. rewrite replay_snoc. fold (canon w). rewrite Ea. auto. }
  assert (Hext : ext (canon w) s').
  { replace s' with (fst (m_apply (canon w) c)) by (rewrite Ea; auto). apply m_apply_ext; lia. }
  destruct HR as (Hh & Hl & Hla).
  assert (HR' : RInv w').
  { rewrite Hw. unfold RInv; simpl. split; [|split].
    - apply Forall_upd_nth.
      + eapply Forall_impl; [|exact Hh]. intros; apply honest_snoc; auto.
      + rewrite Hla. replace (S (length (w_log w))) with (length (w_log w ++ [c])) by (rewrite app_length; simpl; lia).
        replace s' with (replay (w_log w ++ [c])) by (rewrite <- Hcan, Hw; reflexivity). apply honest_full.
    - rewrite upd_nth_length; auto.
    - unfold leader_rep in *; simpl. rewrite nth_upd_nth_eq; auto. simpl. rewrite Hla, app_length; simpl; lia. }
  split; auto. split.
  - (* history *)
    destruct HH as (Hc & Hcn & Ht & Htn & Hpp & Hpn).
    destruct Hext as (Hex & Hec & Het).
    assert (Hext : ext (canon w) s') by (split; auto).
    unfold HInv. rewrite Hcan. rewrite Hw; simpl.
    assert (Hc' : Forall (fun v => 1 <= v < next_c s') (h_cids w)).
    { eapply Forall_impl; [|exact Hc]. simpl; intros; lia. }
    assert (Ht' : Forall (fun v => 1 <= v < next_t s') (h_tsids w)).
    { eapply Forall_impl; [|exact Ht]. simpl; intros; lia. }
    assert (Hp' : Forall (fun pc => m_lookup s' (fst pc) = ROk (snd pc)) (h_parts w)).
    { eapply Forall_impl; [|exact Hpp]. simpl; intros. eapply m_lookup_ext; eauto. }
    destruct c as [| |c|b]; destruct r as [v|e]; try (repeat split; assumption).
    + (* CRegCur *)
      pose proof (m_apply_regcur (canon w) v) as Hr. rewrite Ea in Hr. simpl in Hr.
      destruct (Hr eq_refl) as [-> Hn]. rewrite u32_small in Hn by (unfold W32 in *; lia).
      repeat split; auto.
      * apply Forall_app. split; auto. constructor; auto. lia.
      * apply NoDup_app_iff'. repeat split; auto. constructor; auto. constructor.
        intros x Hx [<-|[]]. rewrite Forall_forall in Hc. apply Hc in Hx. lia.
    + (* CRegTs *)
      pose proof (m_apply_regts (canon w) v) as Hr. rewrite Ea in Hr. simpl in Hr.
      destruct (Hr eq_refl) as [-> Hn]. rewrite u32_small in Hn by (unfold W32 in *; lia).
      repeat split; auto.
      * apply Forall_app. split; auto. constructor; auto. lia.
      * apply NoDup_app_iff'. repeat split; auto. constructor; auto. constructor.
        intros x Hx [<-|[]]. rewrite Forall_forall in Ht. apply Ht in Hx. lia.
    + (* CNewPart *)
      pose proof (m_apply_newpart (canon w) c v) as Hr. rewrite Ea in Hr. simpl in Hr.
      destruct (Hr eq_refl) as (-> & Hv & Hps).
      pose proof (m_apply_newpart_lookup (canon w) c (plen (canon w)) Hne) as Hlk. rewrite Ea in Hlk. simpl in Hlk.
      specialize (Hlk eq_refl).
      repeat split; auto.
      * apply Forall_app. split; auto.
      * rewrite map_app. simpl. apply NoDup_app_iff'. repeat split; auto. constructor; auto. constructor.
        intros x Hx [<-|[]]. apply in_map_iff in Hx as (pc & Hpc1 & Hpc2).
        rewrite Forall_forall in Hpp. apply Hpp in Hpc2. apply m_lookup_ok in Hpc2. lia.
  - rewrite Hcan. simpl.
    split; [rewrite Hw; repeat split; auto|].
    split; [rewrite Hw; reflexivity|]. split; [rewrite Hw; reflexivity|]. auto.
Qed.

(* ---------- the master API on the leader ---------- *)
Definition MOk (w w' : world) : Prop :=
  RInv w' /\ HInv w' /\ Frame w w' /\ ext (canon w) (canon w') /\ (length (w_log w') <= S (length (w_log w)))%nat.

Lemma set_vol_MOk w v : RInv w -> HInv w -> MOk w (set_vol w v) /\ canon (set_vol w v) = canon w.
Proof.
  intros HR HH. split; [|reflexivity].
  split; [unfold RInv, leader_rep in *; simpl; exact HR|].
  split; [unfold HInv, canon in *; simpl; exact HH|].
  split; [repeat split|]. split; [apply ext_refl | simpl; lia].
Qed.

Lemma MOk_trans a b c : MOk a b -> MOk b c -> (length (w_log c) <= S (length (w_log a)))%nat -> MOk a c.
Proof.
  intros (_ & _ & (F1 & F2 & F3 & F4) & E1 & _) (R & H & (G1 & G2 & G3 & G4) & E2 & _) Hl.
  split; auto. split; auto. split; [repeat split; congruence|]. split; auto. eapply ext_trans; eauto.
Qed.

Lemma propose_MOk w c w' r :
  RInv w -> HInv w -> bound w -> propose w c = (w', r) ->
  MOk w w' /\ r = snd (m_apply (canon w) c) /\ canon w' = fst (m_apply (canon w) c) /\ w_mvol w' = w_mvol w.
Proof.
  intros HR HH Hb Hp. destruct (propose_ok w c w' r HR HH Hb Hp) as (R & H & F & L & V & Er & Ec & Ex).
  split; [|auto]. split; auto. split; auto. split; auto. split; auto. rewrite L, app_length; simpl; lia.
Qed.

Lemma m_register_curator_ok w w' r :
  RInv w -> HInv w -> bound w -> m_register_curator w = (w', r) ->
  MOk w w' /\ (forall id, r = ROk id -> id <> 0).
Proof.
  intros HR HH Hb H. unfold m_register_curator in H.
  destruct (propose w CRegCur) as [w1 r1] eqn:Ep.
  destruct (propose_MOk w CRegCur w1 r1 HR HH Hb Ep) as (M1 & Er & Ec & _).
  assert (Hid : forall id, r1 = ROk id -> id <> 0).
  { intros id ->. symmetry in Er. apply m_apply_regcur in Er as [-> _].
    destruct (canon_bounds w Hb) as (_ & ? & _). lia. }
  destruct r1 as [id|e].
  - destruct (vol_find id (w_mvol w1)); inversion H; subst; clear H.
    + split; auto.
    + split; auto.
  - inversion H; subst. split; auto.
Qed.

Lemma m_new_partition_ok w c w' r :
  RInv w -> HInv w -> bound w -> m_new_partition w c = (w', r) ->
  MOk w w' /\ (forall p, r = ROk p -> m_lookup (canon w') p = ROk c).
Proof.
  intros HR HH Hb H. unfold m_new_partition in H.
  assert (M0 : MOk w w).
  { split; auto. split; auto. split; [apply Frame_refl|]. split; [apply ext_refl | lia]. }
  destruct (vol_find c (w_mvol w)) as [q|].
  - destruct (q =? 0).
    + inversion H; subst. split; auto. discriminate.
    + set (w0 := set_vol w (vol_put c (q - 1) (w_mvol w))) in *.
      destruct (set_vol_MOk w (vol_put c (q - 1) (w_mvol w)) HR HH) as [M1 Hc1]. fold w0 in M1, Hc1.
      destruct M1 as (R1 & H1 & M1').
      assert (Hb0 : bound w0) by exact Hb.
      destruct (propose_MOk w0 (CNewPart c) w' r R1 H1 Hb0 H) as (M2 & Er & Ec & _).
      split.
      * eapply MOk_trans; [split; [exact R1|split; [exact H1|exact M1']] | exact M2 |].
        destruct M2 as (_ & _ & _ & _ & L). exact L.
      * intros p ->. rewrite Ec. symmetry in Er. apply m_apply_newpart_lookup; auto.
        rewrite Hc1. apply (canon_bounds w Hb).
  - inversion H; subst. split; auto. discriminate.
Qed.

Lemma m_heartbeat_ok w c w' r :
  RInv w -> HInv w -> m_heartbeat w c = (w', r) ->
  MOk w w' /\ canon w' = canon w /\ (forall ps, r = Some ps -> ps = get_partitions (canon w) c /\ c <> 0).
Proof.
  intros HR HH H. unfold m_heartbeat in H. rewrite (RInv_leader_st w HR) in H.
  destruct (verify_cid (canon w) c) eqn:Ev.
  - inversion H; subst; clear H.
    match goal with |- MOk w (set_vol w ?v) /\ _ => destruct (set_vol_MOk w v HR HH) as [M Hc] end.
    split; auto. split; auto. intros ps Hps. inversion Hps; subst. split; auto.
    unfold verify_cid in Ev. apply andb_true_iff in Ev as [Ev _]. apply negb_true_iff, N.eqb_neq in Ev. auto.
  - inversion H; subst. split; [|split; [auto | discriminate]].
    split; auto. split; auto. split; [apply Frame_refl|]. split; [apply ext_refl | lia].
Qed.

(* ---------- curator durable commands ---------- *)
Lemma c_add_part_spec cur p cs ok :
  c_add_part cur p = (cs, ok) ->
  c_id cs = c_id cur /\
  (ok = true -> forall x, In x (c_parts cs) <-> x = p \/ In x (c_parts cur)) /\
  (ok = false -> cs = cur /\ In p (c_parts cur)).
Proof.
  unfold c_add_part. destruct (memN p (c_parts cur)) eqn:E; intros H; inversion H; subst; clear H; simpl.
  - split; auto. split; [discriminate|]. intros _. split; auto. apply memN_In; auto.
  - split; auto. split; [|discriminate]. intros _ x. apply ins_sorted_In.
Qed.

Lemma c_sync_spec cur ps :
  c_id (c_sync cur ps) = c_id cur /\
  (forall x, In x (c_parts (c_sync cur ps)) <-> In x (c_parts cur) \/ In x ps).
Proof.
  unfold c_sync. revert cur. induction ps as [|p ps IH]; intros cur; simpl.
  - split; auto. intros; tauto.
  - destruct (c_add_part cur p) as [cs ok] eqn:E. simpl.
    destruct (c_add_part_spec cur p cs ok E) as (Hid & Ht & Hf).
    destruct (IH cs) as [Hid' Hin]. split; [congruence|].
    intros x. rewrite Hin. destruct ok.
    + rewrite (Ht eq_refl). intuition.
    + destruct (Hf eq_refl) as [-> Hp]. intuition. subst; auto.
Qed.

Lemma node_ok_cur S cur cur' nd :
  (c_id cur <> 0 -> c_id cur' = c_id cur) -> incl (c_parts cur) (c_parts cur') ->
  node_ok S cur nd -> node_ok S cur' nd.
Proof.
  intros Hid Hin [Hc Hp]. split; [eapply incl_tran; eauto|].
  destruct (n_pc nd); auto.
  - destruct Hp as [-> Hp]. split; auto. symmetry; auto.
  - destruct Hp as (-> & Hp & Hl). split; [symmetry; auto|]. split; auto.
  - destruct Hp as [-> Hp]. split; auto. symmetry; auto.
Qed.

Lemma cur_node_In w n nd : cur_node w n = Some nd -> In nd (w_nodes w) /\ n = w_cleader w.
Proof.
  unfold cur_node. destruct (Nat.eqb n (w_cleader w)) eqn:E; [|discriminate].
  intros H. split; [eapply nth_error_In; eauto | apply Nat.eqb_eq; auto].
Qed.

Lemma CInvP_node S cur nodes f n nd :
  CInvP S cur nodes f -> node_ok S cur nd -> CInvP S cur (upd_nth n nd nodes) f.
Proof.
  intros (H1 & H2 & H3) Hn. split; auto. split; auto. apply Forall_upd_nth; auto.
Qed.

Lemma CInvP_In S cur nodes f nd : CInvP S cur nodes f -> In nd nodes -> node_ok S cur nd.
Proof. intros (_ & H & _) Hin. rewrite Forall_forall in H; auto. Qed.

(* replacing the durable state by one with the same id (or a first id) and more partitions, all assigned *)
Lemma CInvP_cur S cur cur' nodes f :
  CInvP S cur nodes f ->
  (c_id cur <> 0 -> c_id cur' = c_id cur) -> incl (c_parts cur) (c_parts cur') ->
  (forall p, In p (c_parts cur') -> c_id cur' <> 0 /\ m_lookup S p = ROk (c_id cur')) ->
  CInvP S cur' nodes f.
Proof.
  intros (H1 & H2 & H3) Hid Hin Hp. split; auto. split; auto.
  eapply Forall_impl; [|exact H2]. intros nd. apply node_ok_cur; auto.
Qed.

(* ================= one step preserves the invariant ================= *)
Lemma MOk_Inv w w' : Inv w -> MOk w w' -> Inv w'.
Proof.
  intros (HR & HH & HC) (R & H & (F1 & F2 & F3 & F4) & E & L).
  split; auto. split; auto. unfold CInv. rewrite F1, F2, F4. eapply CInvP_ext; eauto.
Qed.

Lemma set_master_same w rs ld vol :
  HInv w -> CInv w ->
  HInv (set_master w (w_log w) rs ld vol (h_cids w) (h_tsids w) (h_parts w)) /\
  CInv (set_master w (w_log w) rs ld vol (h_cids w) (h_tsids w) (h_parts w)).
Proof. intros HH HC. split; [unfold HInv, canon in *; simpl; exact HH | unfold CInv, canon in *; simpl; exact HC]. Qed.

Lemma set_curator_Inv w cs ns cl f :
  RInv w -> HInv w -> CInvP (canon w) cs ns f -> Inv (set_curator w cs ns cl f).
Proof.
  intros HR HH HC. split; [unfold RInv, leader_rep in *; simpl; exact HR|].
  split; [unfold HInv, canon in *; simpl; exact HH | unfold CInv, canon in *; simpl; exact HC].
Qed.

Lemma honest_nth lg reps j r : Forall (honest lg) reps -> nth_error reps j = Some r -> honest lg r.
Proof. intros H Hn. rewrite Forall_forall in H. apply H. eapply nth_error_In; eauto. Qed.

Lemma RInv_follower w j r' :
  RInv w -> j <> w_leader w -> honest (w_log w) r' ->
  RInv (set_master w (w_log w) (upd_nth j r' (w_reps w)) (w_leader w) (w_mvol w) (h_cids w) (h_tsids w) (h_parts w)).
Proof.
  intros (Hh & Hl & Ha) Hj Hr. unfold RInv, leader_rep in *; simpl. split; [|split].
  - apply Forall_upd_nth; auto.
  - rewrite upd_nth_length; auto.
  - rewrite nth_upd_nth_neq; auto.
Qed.

Lemma ev_catchup_Inv w j k : Inv w -> Inv (ev_catchup w j k).
Proof.
  intros (HR & HH & HC). unfold ev_catchup.
  destruct (Nat.eqb j (w_leader w)) eqn:Ej; [split; [|split]; assumption|]. apply Nat.eqb_neq in Ej.
  destruct (nth_error (w_reps w) j) as [r|] eqn:En; [|split; [|split]; assumption].
  destruct (set_master_same w (upd_nth j {| r_applied := r_applied r + length (firstn k (skipn (r_applied r) (w_log w)));
      r_st := replay_from (r_st r) (firstn k (skipn (r_applied r) (w_log w))) |} (w_reps w)) (w_leader w) (w_mvol w) HH HC) as [H1 H2].
  split; [|split; auto]. apply RInv_follower; auto. apply honest_catchup.
  destruct HR as (Hh & _). eapply honest_nth; eauto.
Qed.

Lemma ev_install_Inv w j : Inv w -> Inv (ev_install w j).
Proof.
  intros (HR & HH & HC). unfold ev_install.
  destruct (Nat.eqb j (w_leader w)) eqn:Ej; [split; [|split]; assumption|]. apply Nat.eqb_neq in Ej.
  destruct (nth_error (w_reps w) j) as [r|] eqn:En; [|split; [|split]; assumption].
  rewrite restore_exact.
  destruct (set_master_same w (upd_nth j {| r_applied := length (w_log w); r_st := leader_st w |} (w_reps w)) (w_leader w) (w_mvol w) HH HC) as [H1 H2].
  split; [|split; auto]. apply RInv_follower; auto. rewrite (RInv_leader_st w HR). apply honest_full.
Qed.

Lemma ev_restart_Inv w j : Inv w -> Inv (ev_restart w j).
Proof.
  intros (HR & HH & HC). unfold ev_restart.
  destruct (Nat.eqb j (w_leader w)) eqn:Ej; [split; [|split]; assumption|]. apply Nat.eqb_neq in Ej.
  destruct (nth_error (w_reps w) j) as [r|] eqn:En; [|split; [|split]; assumption].
  destruct (set_master_same w (upd_nth j rep0 (w_reps w)) (w_leader w) (w_mvol w) HH HC) as [H1 H2].
  split; [|split; auto]. apply RInv_follower; auto. apply honest_rep0.
Qed.

Lemma ev_leader_Inv w j : Inv w -> Inv (ev_leader w j).
Proof.
  intros (HR & HH & HC). unfold ev_leader.
  destruct (nth_error (w_reps w) j) as [r|] eqn:En; [|split; [|split]; assumption].
  set (r' := {| r_applied := r_applied r + length (skipn (r_applied r) (w_log w));
                r_st := replay_from (r_st r) (skipn (r_applied r) (w_log w)) |}).
  destruct (set_master_same w (upd_nth j r' (w_reps w)) j [] HH HC) as [H1 H2].
  split; [|split; auto].
  destruct HR as (Hh & Hl & Ha).
  assert (Hr : honest (w_log w) r) by (eapply honest_nth; eauto).
  assert (Hj : (j < length (w_reps w))%nat) by (apply nth_error_Some; congruence).
  assert (Hr' : honest (w_log w) r').
  { pose proof (honest_catchup (w_log w) r (length (w_log w)) Hr) as Hc. simpl in Hc.
    rewrite firstn_all2 in Hc by (rewrite skipn_length; lia). exact Hc. }
  unfold RInv, leader_rep; simpl. split; [|split].
  - apply Forall_upd_nth; auto.
  - rewrite upd_nth_length; auto.
  - rewrite nth_upd_nth_eq; auto. simpl. rewrite skipn_length. destruct Hr. lia.
Qed.

Lemma ev_failover_Inv w : Inv w -> Inv (ev_failover w).
Proof.
  intros (HR & HH & HC). unfold ev_failover.
  rewrite restore_exact.
  destruct (set_master_same w (upd_nth (w_leader w) {| r_applied := r_applied (leader_rep w); r_st := r_st (leader_rep w) |} (w_reps w)) (w_leader w) [] HH HC) as [H1 H2].
  split; [|split; auto].
  destruct HR as (Hh & Hl & Ha).
  assert (Hlr : honest (w_log w) (leader_rep w)).
  { rewrite Forall_forall in Hh. apply Hh. apply nth_In; auto. }
  unfold RInv, leader_rep in *; simpl. split; [|split].
  - apply Forall_upd_nth; auto.
  - rewrite upd_nth_length; auto.
  - rewrite nth_upd_nth_eq; auto.
Qed.

(* ---------- curator glue ---------- *)
Lemma c_start_Inv w n : Inv w -> Inv (c_start w n).
Proof.
  intros (HR & HH & HC). unfold c_start.
  destruct (cur_node w n) as [nd|] eqn:En; [|split; [|split]; assumption].
  destruct (cur_node_In w n nd En) as [Hin _].
  pose proof (CInvP_In _ _ _ _ nd HC Hin) as [Hcache Hpc].
  destruct (n_pc nd) eqn:Epc; try (split; [|split]; assumption).
  destruct (c_id (w_cur w) =? 0) eqn:E0; simpl.
  - apply set_curator_Inv; auto. apply CInvP_node; auto. split; simpl; auto.
  - apply N.eqb_neq in E0. destruct (c_parts (w_cur w)) eqn:Ep; simpl.
    + apply set_curator_Inv; auto. apply CInvP_node; auto. split; simpl; auto. rewrite Ep; auto.
    + apply set_curator_Inv; auto. apply CInvP_node; auto. split; simpl; auto.
      rewrite <- Ep. apply incl_refl.
Qed.

Lemma cur_node_frame w w1 n : Frame w w1 -> cur_node w1 n = cur_node w n.
Proof. intros (F1 & F2 & F3 & F4). unfold cur_node. rewrite F2, F3. auto. Qed.

Lemma c_register_Inv w n lost : Inv w -> bound w ->
  Inv (fst (c_register w n lost)) /\ (length (w_log (fst (c_register w n lost))) <= S (length (w_log w)))%nat.
Proof.
  intros HI Hb. pose proof HI as (HR & HH & HC). unfold c_register.
  destruct (cur_node w n) as [nd|] eqn:En; [|simpl; split; auto].
  destruct (cur_node_In w n nd En) as [Hin _].
  destruct (n_pc nd) eqn:Epc; try (simpl; split; auto; fail).
  destruct (m_register_curator w) as [w1 r] eqn:Em.
  destruct (m_register_curator_ok w w1 r HR HH Hb Em) as [M Hid].
  pose proof (MOk_Inv w w1 HI M) as HI1. pose proof M as (_ & _ & F & _ & L).
  destruct r as [id|e]; simpl; [|split; auto].
  destruct lost; simpl; [split; auto|]. split; [|exact L].
  destruct HI1 as (HR1 & HH1 & HC1). apply set_curator_Inv; auto. apply CInvP_node; auto.
  destruct F as (F1 & F2 & F3 & F4). split; simpl; [|apply Hid; auto].
  rewrite F1. apply (CInvP_In _ _ _ _ nd HC Hin).
Qed.

Lemma c_commit_reg_Inv w n : Inv w -> Inv (c_commit_reg w n).
Proof.
  intros (HR & HH & HC). unfold c_commit_reg.
  destruct (cur_node w n) as [nd|] eqn:En; [|split; [|split]; assumption].
  destruct (cur_node_In w n nd En) as [Hin _].
  pose proof (CInvP_In _ _ _ _ nd HC Hin) as [Hcache Hpc].
  destruct (n_pc nd) eqn:Epc; try (split; [|split]; assumption).
  unfold c_set_reg. destruct (c_id (w_cur w) =? 0) eqn:E0.
  - apply N.eqb_eq in E0. apply set_curator_Inv; auto. apply CInvP_node.
    + eapply CInvP_cur; eauto; simpl.
      * intros; congruence.
      * apply incl_refl.
      * intros p Hp. destruct HC as (H1 & _). destruct (H1 p Hp). congruence.
    + split; simpl; auto.
  - apply N.eqb_neq in E0. apply set_curator_Inv; auto. apply CInvP_node; auto. split; simpl; auto.
Qed.

Lemma c_new_part_Inv w n lost : Inv w -> bound w ->
  Inv (fst (c_new_part w n lost)) /\ (length (w_log (fst (c_new_part w n lost))) <= S (length (w_log w)))%nat.
Proof.
  intros HI Hb. pose proof HI as (HR & HH & HC). unfold c_new_part.
  destruct (cur_node w n) as [nd|] eqn:En; [|simpl; split; auto].
  destruct (cur_node_In w n nd En) as [Hin _].
  pose proof (CInvP_In _ _ _ _ nd HC Hin) as [Hcache Hpc].
  destruct (n_pc nd) eqn:Epc; try (simpl; split; auto; fail).
  destruct (m_new_partition w id) as [w1 r] eqn:Em.
  destruct (m_new_partition_ok w id w1 r HR HH Hb Em) as [M Hlk].
  pose proof (MOk_Inv w w1 HI M) as HI1. pose proof M as (_ & _ & F & _ & L).
  destruct r as [p|e]; simpl; [|split; auto].
  destruct lost; simpl; [split; auto|]. split; [|exact L].
  destruct HI1 as (HR1 & HH1 & HC1). apply set_curator_Inv; auto. apply CInvP_node; auto.
  destruct F as (F1 & F2 & F3 & F4). split; simpl.
  - rewrite F1. auto.
  - rewrite F1. destruct Hpc. repeat split; auto.
Qed.

Lemma c_commit_part_Inv w n : Inv w -> Inv (fst (c_commit_part w n)).
Proof.
  intros (HR & HH & HC). unfold c_commit_part.
  destruct (cur_node w n) as [nd|] eqn:En; [|split; [|split]; assumption].
  destruct (cur_node_In w n nd En) as [Hin _].
  pose proof (CInvP_In _ _ _ _ nd HC Hin) as [Hcache Hpc].
  destruct (n_pc nd) eqn:Epc; try (split; [|split]; assumption).
  destruct Hpc as (Hid & Hid0 & Hlk).
  destruct (c_add_part (w_cur w) p) as [cs ok] eqn:Ea.
  destruct (c_add_part_spec _ _ _ _ Ea) as (Hcid & Ht & Hf).
  destruct ok; simpl; [|split; [|split]; assumption].
  specialize (Ht eq_refl).
  apply set_curator_Inv; auto. apply CInvP_node.
  - eapply CInvP_cur; eauto.
    + intros x Hx. apply Ht; auto.
    + intros x Hx. rewrite Hcid. apply Ht in Hx as [->|Hx].
      * split; congruence.
      * destruct HC as (H1 & _). apply H1; auto.
  - split; simpl.
    + intros x [<-|[]]. apply Ht; auto.
    + split; congruence.
Qed.

Lemma c_monitor_Inv w n lost : Inv w -> bound w ->
  Inv (fst (c_monitor w n lost)) /\ (length (w_log (fst (c_monitor w n lost))) <= S (length (w_log w)))%nat.
Proof.
  intros HI Hb. pose proof HI as (HR & HH & HC). unfold c_monitor.
  destruct (cur_node w n) as [nd|] eqn:En; [|simpl; split; auto].
  destruct (cur_node_In w n nd En) as [Hin _].
  pose proof (CInvP_In _ _ _ _ nd HC Hin) as [Hcache Hpc].
  destruct (n_pc nd) eqn:Epc; try (simpl; split; auto; fail).
  destruct Hpc as (Hid & Hid0).
  destruct (m_new_partition w id) as [w1 r] eqn:Em.
  destruct (m_new_partition_ok w id w1 r HR HH Hb Em) as [M Hlk].
  pose proof (MOk_Inv w w1 HI M) as HI1. pose proof M as (_ & _ & F & _ & L).
  destruct r as [p|e]; simpl; [|split; auto].
  destruct lost; simpl; [split; auto|].
  destruct (c_add_part (w_cur w1) p) as [cs ok] eqn:Ea.
  destruct (c_add_part_spec _ _ _ _ Ea) as (Hcid & Ht & Hf).
  destruct ok; simpl; [|split; auto]. split; [|exact L].
  specialize (Ht eq_refl). specialize (Hlk p eq_refl).
  destruct HI1 as (HR1 & HH1 & HC1). destruct F as (F1 & F2 & F3 & F4).
  apply set_curator_Inv; auto. apply CInvP_node.
  - eapply CInvP_cur; eauto.
    + intros x Hx. apply Ht; auto.
    + intros x Hx. rewrite Hcid. apply Ht in Hx as [->|Hx].
      * rewrite F1. split; congruence.
      * destruct HC1 as (H1 & _). apply H1; auto.
  - split; simpl.
    + intros x Hx. apply Ht. apply in_app_or in Hx as [Hx|[<-|[]]]; auto.
      right. rewrite F1. auto.
    + rewrite Hcid, F1. split; auto.
Qed.

Lemma c_heartbeat_Inv w n lost : Inv w ->
  Inv (fst (c_heartbeat w n lost)) /\ w_log (fst (c_heartbeat w n lost)) = w_log w /\
  (forall ps, snd (c_heartbeat w n lost) = Some (Some ps) -> lost = false ->
     let w' := fst (c_heartbeat w n lost) in
     c_id (w_cur w') <> 0 /\
     forall p, m_lookup (canon w') p = ROk (c_id (w_cur w')) -> In p (c_parts (w_cur w'))).
Proof.
  intros HI. pose proof HI as (HR & HH & HC). unfold c_heartbeat.
  destruct (cur_node w n) as [nd|] eqn:En; [|simpl; split; [auto | split; [auto | discriminate]]].
  destruct (cur_node_In w n nd En) as [Hin _].
  pose proof (CInvP_In _ _ _ _ nd HC Hin) as [Hcache Hpc].
  destruct (n_pc nd) eqn:Epc; try (simpl; split; [auto | split; [auto | discriminate]]; fail).
  destruct Hpc as (Hid & Hid0).
  destruct (m_heartbeat w id) as [w1 r] eqn:Em.
  destruct (m_heartbeat_ok w id w1 r HR HH Em) as (M & Hcan & Hps).
  pose proof (MOk_Inv w w1 HI M) as HI1. pose proof M as (_ & _ & F & _ & L).
  assert (Hlog : w_log w1 = w_log w).
  { unfold m_heartbeat in Em. destruct (verify_cid (leader_st w) id); inversion Em; subst; reflexivity. }
  destruct r as [ps|]; simpl; [|split; [auto | split; [auto | discriminate]]].
  destruct lost; simpl; [split; [auto | split; [auto | discriminate]]|].
  destruct (Hps ps eq_refl) as [-> _].
  destruct HI1 as (HR1 & HH1 & HC1). destruct F as (F1 & F2 & F3 & F4).
  destruct (replay_head (w_log w)) as [l0 Hl0]. fold (canon w) in Hl0.
  assert (H0 : nth 0 (parts (canon w)) 0 = 0) by (rewrite Hl0; reflexivity).
  (* the reply is exactly the set of partitions assigned to this curator *)
  assert (Hrep : forall p, In p (get_partitions (canon w) id) <-> m_lookup (canon w) p = ROk id).
  { intros p. apply get_partitions_lookup; auto. }
  (* the sanity check cannot fail *)
  assert (Hchk : forallb (fun k => memN k (get_partitions (canon w) id)) (n_cache nd) = true).
  { apply forallb_forall. intros k Hk. apply memN_In. apply Hrep.
    destruct HC as (H1 & _). destruct (H1 k (Hcache k Hk)). congruence. }
  rewrite Hchk. simpl.
  set (ps := get_partitions (canon w) id) in *.
  set (cs := if Nat.eqb (set_size ps) (set_size (n_cache nd)) then w_cur w1 else c_sync (w_cur w1) ps).
  assert (Hcs : c_id cs = c_id (w_cur w) /\ incl (c_parts (w_cur w)) (c_parts cs) /\ incl ps (c_parts cs) /\
                (forall x, In x (c_parts cs) -> In x (c_parts (w_cur w)) \/ In x ps)).
  { unfold cs. destruct (Nat.eqb (set_size ps) (set_size (n_cache nd))) eqn:Es.
    - apply Nat.eqb_eq in Es. rewrite F1. split; auto. split; [apply incl_refl|]. split; [|auto].
      eapply incl_tran; [|exact Hcache]. apply same_size_incl; auto.
      intros k Hk. rewrite forallb_forall in Hchk. apply memN_In. auto.
    - destruct (c_sync_spec (w_cur w1) ps) as [Hi Hp]. rewrite F1 in *. split; auto.
      split; [intros x Hx; apply Hp; auto|]. split; [intros x Hx; apply Hp; auto|]. intros x Hx; apply Hp; auto. }
  destruct Hcs as (Hcid & Hinc & Hpsin & Hback).
  split; [|split].
  - apply set_curator_Inv; auto. rewrite Hcan, F2, F4. apply CInvP_node.
    + apply CInvP_cur with (cur := w_cur w); auto.
      intros x Hx. rewrite Hcid. apply Hback in Hx as [Hx|Hx].
      * destruct HC as (H1 & _). apply H1; auto.
      * split; [congruence|]. rewrite <- Hid. apply Hrep; auto.
    + split; simpl; auto. rewrite Hcid. auto.
  - simpl. exact Hlog.
  - intros ps' _ _. simpl. rewrite Hcid. split; [congruence|].
    unfold canon; simpl. rewrite Hlog. fold (canon w). intros p Hp. apply Hpsin. apply Hrep. congruence.
Qed.

Lemma c_leader_Inv w n : Inv w -> Inv (c_leader w n).
Proof.
  intros (HR & HH & HC). unfold c_leader. destruct (Nat.ltb n (length (w_nodes w))); [|split; [|split]; assumption].
  apply set_curator_Inv; auto.
Qed.

Lemma c_restart_Inv w n : Inv w -> Inv (c_restart w n).
Proof.
  intros (HR & HH & HC). unfold c_restart. destruct (Nat.ltb n (length (w_nodes w))); [|split; [|split]; assumption].
  apply set_curator_Inv; auto. apply CInvP_node; auto. split; simpl; auto. intros x [].
Qed.

(* ================= runs ================= *)
Ltac break_match :=
  repeat match goal with
         | |- context [match ?x with _ => _ end] => destruct x eqn:?
         | |- context [if ?x then _ else _] => destruct x eqn:?
         end.

Lemma propose_log w c : w_log (fst (propose w c)) = w_log w ++ [c].
Proof. unfold propose. destruct (m_apply (r_st (leader_rep w)) c). reflexivity. Qed.

Lemma m_register_curator_log w : exists l, w_log (fst (m_register_curator w)) = w_log w ++ l.
Proof.
  unfold m_register_curator. pose proof (propose_log w CRegCur) as H.
  destruct (propose w CRegCur) as [w1 r]. simpl in H.
  destruct r; [destruct (vol_find v (w_mvol w1))|]; simpl; eauto.
Qed.

Lemma m_new_partition_log w c : exists l, w_log (fst (m_new_partition w c)) = w_log w ++ l.
Proof.
  unfold m_new_partition. destruct (vol_find c (w_mvol w)); [|exists []; simpl; rewrite app_nil_r; auto].
  destruct (n =? 0); [exists []; simpl; rewrite app_nil_r; auto|].
  rewrite propose_log. simpl. eauto.
Qed.

Lemma m_heartbeat_log w c : w_log (fst (m_heartbeat w c)) = w_log w.
Proof. unfold m_heartbeat. destruct (verify_cid (leader_st w) c); reflexivity. Qed.

Lemma c_heartbeat_log w n lost : w_log (fst (c_heartbeat w n lost)) = w_log w.
Proof.
  unfold c_heartbeat. destruct (cur_node w n); [|reflexivity].
  destruct (n_pc c); try reflexivity.
  pose proof (m_heartbeat_log w id) as Hl. destruct (m_heartbeat w id) as [w1 r]. simpl in *.
  rewrite <- Hl. destruct r; [destruct lost|]; try reflexivity. break_match; reflexivity.
Qed.

Lemma log_grows w e : exists l, w_log (step w e) = w_log w ++ l.
Proof.
  assert (Hnil : forall w0, w_log w0 = w_log w -> exists l, w_log w0 = w_log w ++ l).
  { intros w0 ->. exists []. rewrite app_nil_r. auto. }
  destruct e; simpl.
  - rewrite propose_log. eauto.
  - apply Hnil. unfold ev_catchup. break_match; reflexivity.
  - apply Hnil. unfold ev_install. break_match; reflexivity.
  - apply Hnil. unfold ev_restart. break_match; reflexivity.
  - apply Hnil. unfold ev_leader. break_match; reflexivity.
  - apply Hnil. reflexivity.
  - apply m_register_curator_log.
  - unfold m_register_ts. rewrite propose_log. eauto.
  - apply Hnil. apply m_heartbeat_log.
  - apply m_new_partition_log.
  - apply Hnil. reflexivity.
  - apply Hnil. unfold c_start. break_match; reflexivity.
  - unfold c_register. destruct (cur_node w n); [|apply Hnil; reflexivity].
    destruct (n_pc c); try (apply Hnil; reflexivity).
    destruct (m_register_curator_log w) as [l Hl]. destruct (m_register_curator w) as [w1 r]. simpl in *.
    exists l. rewrite <- Hl. destruct r; [destruct lost|]; reflexivity.
  - apply Hnil. unfold c_commit_reg. break_match; reflexivity.
  - unfold c_new_part. destruct (cur_node w n); [|apply Hnil; reflexivity].
    destruct (n_pc c); try (apply Hnil; reflexivity).
    destruct (m_new_partition_log w id) as [l Hl]. destruct (m_new_partition w id) as [w1 r]. simpl in *.
    exists l. rewrite <- Hl. destruct r; [destruct lost|]; reflexivity.
  - apply Hnil. unfold c_commit_part. break_match; reflexivity.
  - apply Hnil. unfold c_heartbeat. destruct (cur_node w n); [|reflexivity].
    destruct (n_pc c); try reflexivity.
    pose proof (m_heartbeat_log w id) as Hl. destruct (m_heartbeat w id) as [w1 r]. simpl in *.
    rewrite <- Hl. destruct r; [destruct lost|]; try reflexivity. break_match; reflexivity.
  - unfold c_monitor. destruct (cur_node w n); [|apply Hnil; reflexivity].
    destruct (n_pc c); try (apply Hnil; reflexivity).
    destruct (m_new_partition_log w id) as [l Hl]. destruct (m_new_partition w id) as [w1 r]. simpl in *.
    exists l. rewrite <- Hl. destruct r; [destruct lost|]; try reflexivity.
    destruct (c_add_part (w_cur w1) v) as [cs ok]. destruct ok; reflexivity.
  - apply Hnil. unfold c_leader. break_match; reflexivity.
  - apply Hnil. unfold c_restart. break_match; reflexivity.
  - apply Hnil. reflexivity.
  - apply Hnil. reflexivity.
  - apply Hnil. reflexivity.
  - apply Hnil. unfold ev_snap_install. break_match; reflexivity.
  - apply Hnil. apply c_heartbeat_log.
  - generalize true; intros lost.
    unfold c_monitor. destruct (cur_node w n); [|apply Hnil; reflexivity].
    destruct (n_pc c); try (apply Hnil; reflexivity).
    destruct (m_new_partition_log w id) as [l Hl]. destruct (m_new_partition w id) as [w1 r]. simpl in *.
    exists l. rewrite <- Hl. destruct r; [destruct lost|]; try reflexivity.
    destruct (c_add_part (w_cur w1) v) as [cs ok]. destruct ok; reflexivity.
Qed.

(* ---------- the snapshot object held by raft ---------- *)
(* FSM.Snapshot() serialises the state when it is called, so whatever is applied before Snapshoter.Save() runs is
   not in the snapshot: it is the state of exactly the log prefix it is labelled with *)
Definition SInvP (lg : list mcmd) (sn : option (nat * mstate)) : Prop :=
  match sn with
  | Some (idx, st) => (idx <= length lg)%nat /\ st = replay (firstn idx lg)
  | None => True
  end.
Definition SInv (w : world) : Prop := SInvP (w_log w) (w_snap w).

Lemma SInvP_app lg l sn : SInvP lg sn -> SInvP (lg ++ l) sn.
Proof.
  destruct sn as [[idx st]|]; simpl; auto. intros [Hi Hs]. split; [rewrite app_length; lia|].
  rewrite firstn_app. replace (idx - length lg)%nat with 0%nat by lia. rewrite firstn_O, app_nil_r. auto.
Qed.

Lemma c_heartbeat_snap w n lost : w_snap (fst (c_heartbeat w n lost)) = w_snap w.
Proof.
  unfold c_heartbeat. destruct (cur_node w n); [|reflexivity]. destruct (n_pc c); try reflexivity.
  unfold m_heartbeat. destruct (verify_cid (leader_st w) id); simpl; [|reflexivity].
  destruct lost; [reflexivity|]. break_match; reflexivity.
Qed.

Lemma snap_same w e : e <> EvSnapTake -> w_snap (step w e) = w_snap w.
Proof.
  intros Hne. destruct e; simpl; try congruence.
  - unfold propose. destruct (m_apply (r_st (leader_rep w)) c). reflexivity.
  - unfold ev_catchup. break_match; reflexivity.
  - unfold ev_install. break_match; reflexivity.
  - unfold ev_restart. break_match; reflexivity.
  - unfold ev_leader. break_match; reflexivity.
  - unfold m_register_curator, propose. destruct (m_apply (r_st (leader_rep w)) CRegCur) as [s' r].
    destruct r; simpl; [|reflexivity]. break_match; reflexivity.
  - unfold m_register_ts, propose. destruct (m_apply (r_st (leader_rep w)) CRegTs). reflexivity.
  - unfold m_heartbeat. break_match; reflexivity.
  - unfold m_new_partition. destruct (vol_find c (w_mvol w)); [|reflexivity].
    destruct (n =? 0); [reflexivity|]. unfold propose.
    destruct (m_apply _ (CNewPart c)). reflexivity.
  - unfold c_start. break_match; reflexivity.
  - unfold c_register. destruct (cur_node w n); [|reflexivity]. destruct (n_pc c); try reflexivity.
    unfold m_register_curator, propose. destruct (m_apply (r_st (leader_rep w)) CRegCur) as [s' r].
    destruct r; simpl; [|reflexivity]. destruct lost; break_match; reflexivity.
  - unfold c_commit_reg. break_match; reflexivity.
  - unfold c_new_part. destruct (cur_node w n); [|reflexivity]. destruct (n_pc c); try reflexivity.
    unfold m_new_partition. destruct (vol_find id (w_mvol w)); [|reflexivity].
    destruct (n0 =? 0); [reflexivity|]. unfold propose.
    destruct (m_apply _ (CNewPart id)) as [s' r]. simpl. destruct r; [destruct lost|]; reflexivity.
  - unfold c_commit_part. break_match; reflexivity.
  - unfold c_heartbeat. destruct (cur_node w n); [|reflexivity]. destruct (n_pc c); try reflexivity.
    unfold m_heartbeat. destruct (verify_cid (leader_st w) id); simpl; [|reflexivity].
    destruct lost; [reflexivity|]. break_match; reflexivity.
  - unfold c_monitor. destruct (cur_node w n); [|reflexivity]. destruct (n_pc c); try reflexivity.
    unfold m_new_partition. destruct (vol_find id (w_mvol w)); [|reflexivity].
    destruct (n0 =? 0); [reflexivity|]. unfold propose.
    destruct (m_apply _ (CNewPart id)) as [s' r]. simpl. destruct r; [destruct lost|]; try reflexivity.
    break_match; reflexivity.
  - unfold c_leader. break_match; reflexivity.
  - unfold c_restart. break_match; reflexivity.
  - unfold ev_snap_install.
    destruct (Nat.eqb j (w_leader w)); [reflexivity|]. destruct (nth_error (w_reps w) j); [|reflexivity].
    destruct (w_snap w) as [[idx st]|] eqn:E; [|congruence].
    destruct (Nat.leb (r_applied r) idx); simpl; congruence.
  - apply c_heartbeat_snap.
  - generalize true; intros lost.
    unfold c_monitor. destruct (cur_node w n); [|reflexivity]. destruct (n_pc c); try reflexivity.
    unfold m_new_partition. destruct (vol_find id (w_mvol w)); [|reflexivity].
    destruct (n0 =? 0); [reflexivity|]. unfold propose.
    destruct (m_apply _ (CNewPart id)) as [s' r]. simpl. destruct r; [destruct lost|]; try reflexivity.
    break_match; reflexivity.
Qed.

Lemma ev_snap_install_Inv w j : Inv w -> SInv w -> Inv (ev_snap_install w j).
Proof.
  intros (HR & HH & HC) HS. unfold ev_snap_install.
  destruct (Nat.eqb j (w_leader w)) eqn:Ej; [split; [|split]; assumption|]. apply Nat.eqb_neq in Ej.
  destruct (nth_error (w_reps w) j) as [r|] eqn:En; [|split; [|split]; assumption].
  unfold SInv in HS. destruct (w_snap w) as [[idx st]|]; [|split; [|split]; assumption].
  destruct (Nat.leb (r_applied r) idx); [|split; [|split]; assumption].
  rewrite restore_exact. destruct HS as [Hi ->].
  destruct (set_master_same w (upd_nth j {| r_applied := idx; r_st := replay (firstn idx (w_log w)) |} (w_reps w)) (w_leader w) (w_mvol w) HH HC) as [H1 H2].
  split; [|split; auto]. apply RInv_follower; auto. split; simpl; auto.
Qed.

Lemma step_SInv w e : RInv w -> SInv w -> SInv (step w e).
Proof.
  intros HR HS. destruct (log_grows w e) as [l Hl].
  assert (He : {e = EvSnapTake} + {e <> EvSnapTake}) by (destruct e; (left; reflexivity) || (right; discriminate)).
  destruct He as [->|Hne].
  - simpl. unfold SInv, ev_snap_take; simpl. destruct HR as (Hh & Hlt & Ha). split; [lia|].
    rewrite (RInv_leader_st w (conj Hh (conj Hlt Ha))). rewrite Ha, firstn_all. reflexivity.
  - unfold SInv. rewrite (snap_same w e Hne), Hl. apply SInvP_app. exact HS.
Qed.

Lemma step_Inv w e : Inv w -> SInv w -> bound w ->
  Inv (step w e) /\ (length (w_log (step w e)) <= S (length (w_log w)))%nat.
Proof.
  intros HI HS Hb. pose proof HI as (HR & HH & HC).
  assert (Hsame : forall w0, Inv w0 -> w_log w0 = w_log w -> Inv w0 /\ (length (w_log w0) <= S (length (w_log w)))%nat).
  { intros w0 H0 ->. split; auto. }
  destruct e; simpl.
  - destruct (propose w c) as [w1 r] eqn:Ep. destruct (propose_MOk w c w1 r HR HH Hb Ep) as (M & _).
    simpl. split; [eapply MOk_Inv; eauto | apply M].
  - apply Hsame; [apply ev_catchup_Inv; auto|]. unfold ev_catchup. break_match; reflexivity.
  - apply Hsame; [apply ev_install_Inv; auto|]. unfold ev_install. break_match; reflexivity.
  - apply Hsame; [apply ev_restart_Inv; auto|]. unfold ev_restart. break_match; reflexivity.
  - apply Hsame; [apply ev_leader_Inv; auto|]. unfold ev_leader. break_match; reflexivity.
  - split; [apply ev_failover_Inv; auto | simpl; lia].
  - destruct (m_register_curator w) as [w1 r] eqn:Em. destruct (m_register_curator_ok w w1 r HR HH Hb Em) as (M & _).
    simpl. split; [eapply MOk_Inv; eauto | apply M].
  - unfold m_register_ts. destruct (propose w CRegTs) as [w1 r] eqn:Ep.
    destruct (propose_MOk w CRegTs w1 r HR HH Hb Ep) as (M & _).
    simpl. split; [eapply MOk_Inv; eauto | apply M].
  - destruct (m_heartbeat w c) as [w1 r] eqn:Em. destruct (m_heartbeat_ok w c w1 r HR HH Em) as (M & _).
    simpl. split; [eapply MOk_Inv; eauto | apply M].
  - destruct (m_new_partition w c) as [w1 r] eqn:Em. destruct (m_new_partition_ok w c w1 r HR HH Hb Em) as (M & _).
    simpl. split; [eapply MOk_Inv; eauto | apply M].
  - split; auto.
  - apply Hsame; [apply c_start_Inv; auto|]. unfold c_start. break_match; reflexivity.
  - apply c_register_Inv; auto.
  - apply Hsame; [apply c_commit_reg_Inv; auto|]. unfold c_commit_reg. break_match; reflexivity.
  - apply c_new_part_Inv; auto.
  - apply Hsame; [apply c_commit_part_Inv; auto|]. unfold c_commit_part. break_match; reflexivity.
  - destruct (c_heartbeat_Inv w n lost HI) as (H1 & H2 & _). split; auto. rewrite H2. auto.
  - apply c_monitor_Inv; auto.
  - apply Hsame; [apply c_leader_Inv; auto|]. unfold c_leader. break_match; reflexivity.
  - apply Hsame; [apply c_restart_Inv; auto|]. unfold c_restart. break_match; reflexivity.
  - split; auto.
  - split; auto.
  - split; [|simpl; lia]. split; [unfold RInv, leader_rep in *; simpl; exact HR|].
    split; [unfold HInv, canon in *; simpl; exact HH | unfold CInv, canon in *; simpl; exact HC].
  - apply Hsame; [apply ev_snap_install_Inv; auto|]. unfold ev_snap_install. break_match; reflexivity.
  - unfold c_heartbeat_syncfail. destruct (c_heartbeat_Inv w n (sync_needed w n) HI) as (H1 & H2 & _).
    split; auto. rewrite H2. auto.
  - apply c_monitor_Inv; auto.
Qed.

Lemma Inv_init : Inv w_init.
Proof.
  split; [|split].
  - unfold RInv; simpl. split; [|split; [lia | reflexivity]].
    repeat constructor.
  - unfold HInv; simpl. repeat split; constructor.
  - unfold CInv, CInvP; simpl. split; [intros p []|]. split; [|reflexivity].
    repeat constructor; simpl; auto; intros x [].
Qed.

Lemma run_from_Inv evs : forall w,
  Inv w -> SInv w -> N.of_nat (length (w_log w) + length evs) + 3 < W32 ->
  Inv (run_from w evs) /\ SInv (run_from w evs) /\ bound (run_from w evs) /\
  (length (w_log (run_from w evs)) <= length (w_log w) + length evs)%nat /\
  exists l, w_log (run_from w evs) = w_log w ++ l.
Proof.
  induction evs as [|e evs IH]; intros w HI HS Hb; simpl in *.
  - split; auto. split; auto. split; [unfold bound; lia|]. split; [lia|]. exists []. rewrite app_nil_r; auto.
  - assert (Hbw : bound w) by (unfold bound; lia).
    destruct (step_Inv w e HI HS Hbw) as [HI' Hl].
    assert (HS' : SInv (step w e)) by (apply step_SInv; auto; apply HI).
    destruct (IH (step w e) HI' HS') as (H1 & H5 & H2 & H4 & l2 & H3); auto; [lia|].
    split; auto. split; auto. split; auto. split; [unfold run_from in *; lia|].
    destruct (log_grows w e) as [l1 Hl1]. exists (l1 ++ l2). unfold run_from in *. rewrite H3, Hl1, app_assoc. auto.
Qed.



Lemma run_app a b : run (a ++ b) = run_from (run a) b.
Proof. unfold run, run_from. apply fold_left_app. Qed.

Definition bounded (evs : list event) : Prop := N.of_nat (length evs) + 3 < 4294967296.

Lemma run_Inv evs : bounded evs -> Inv (run evs) /\ bound (run evs).
Proof.
  intros Hb. destruct (run_from_Inv evs w_init Inv_init I) as (H1 & _ & H2 & _); auto.
Qed.

(* ================= the property-level statements ================= *)
Lemma ids_unique_lemma evs :
  bounded evs ->
  NoDup (h_cids (run evs)) /\ NoDup (h_tsids (run evs)) /\ NoDup (map fst (h_parts (run evs))).
Proof.
  intros Hb. destruct (run_Inv evs Hb) as ((_ & HH & _) & _).
  destruct HH as (_ & H1 & _ & H2 & _ & H3). auto.
Qed.

Lemma ownership_stable_lemma evs evs' p c :
  bounded (evs ++ evs') ->
  In (p, c) (h_parts (run evs)) \/ m_lookup (leader_st (run evs)) p = ROk c ->
  m_lookup (leader_st (run (evs ++ evs'))) p = ROk c.
Proof.
  intros Hb Hpc. unfold bounded in Hb. rewrite app_length in Hb.
  destruct (run_from_Inv evs w_init Inv_init I) as (HI1 & HS1 & Hb1 & Hlen & l1 & Hl1); auto; [unfold W32; simpl; lia|].
  fold (run evs) in *. simpl in Hlen.
  destruct (run_from_Inv evs' (run evs) HI1 HS1) as (HI2 & _ & Hb2 & _ & l2 & Hl2); auto; [unfold W32; lia|].
  rewrite run_app.
  rewrite (RInv_leader_st _ (proj1 HI2)).
  assert (Hlk : m_lookup (canon (run evs)) p = ROk c).
  { destruct Hpc as [Hin|Hlk].
    - destruct HI1 as (_ & HH & _). destruct HH as (_ & _ & _ & _ & H5 & _).
      rewrite Forall_forall in H5. apply (H5 (p, c)); auto.
    - rewrite <- (RInv_leader_st _ (proj1 HI1)). auto. }
  eapply m_lookup_ext; [|exact Hlk]. unfold canon. rewrite Hl2.
  replace (w_log (run evs)) with (firstn (length (w_log (run evs))) (w_log (run evs) ++ l2)) at 1
    by (rewrite firstn_app, Nat.sub_diag, firstn_O, app_nil_r, firstn_all; auto).
  apply replay_ext_prefix. rewrite <- Hl2. unfold bound in Hb2. lia.
Qed.

Lemma curator_serves_only_assigned_lemma evs :
  bounded evs ->
  w_fatal (run evs) = false /\
  forall p, In p (c_parts (w_cur (run evs))) ->
            c_id (w_cur (run evs)) <> 0 /\ m_lookup (leader_st (run evs)) p = ROk (c_id (w_cur (run evs))).
Proof.
  intros Hb. destruct (run_Inv evs Hb) as ((HR & _ & HC) & _).
  destruct HC as (H1 & _ & H3). split; auto. rewrite (RInv_leader_st _ HR). auto.
Qed.

Lemma lost_assignment_recovered_lemma evs n ps :
  bounded (evs ++ [EvCHeartbeat n false]) ->
  snd (c_heartbeat (run evs) n false) = Some (Some ps) ->
  let w' := run (evs ++ [EvCHeartbeat n false]) in
  c_id (w_cur w') <> 0 /\
  (forall p, m_lookup (leader_st w') p = ROk (c_id (w_cur w')) -> In p (c_parts (w_cur w'))) /\
  (forall p, In (p, c_id (w_cur w')) (h_parts w') -> In p (c_parts (w_cur w'))).
Proof.
  intros Hb Hr w'.
  destruct (run_Inv _ Hb) as (HI' & _). fold w' in HI'.
  assert (Hb1 : bounded evs) by (unfold bounded in *; rewrite app_length in Hb; lia).
  destruct (run_Inv evs Hb1) as (HI & _).
  destruct (c_heartbeat_Inv (run evs) n false HI) as (_ & _ & Hrec).
  specialize (Hrec ps Hr eq_refl). simpl in Hrec.
  assert (Hw' : w' = fst (c_heartbeat (run evs) n false)).
  { unfold w'. rewrite run_app. reflexivity. }
  rewrite <- Hw' in Hrec. destruct Hrec as [Hid Hrec].
  destruct HI' as (HR' & HH' & _).
  split; auto. split.
  - rewrite (RInv_leader_st _ HR'). auto.
  - intros p Hin. apply Hrec. destruct HH' as (_ & _ & _ & _ & H5 & _).
    rewrite Forall_forall in H5. apply (H5 _ Hin).
Qed.

(* ================= F7 (fixed by ca0788b): refutations for the UNREPAIRED variant restore_merge ================= *)
(* replica 1 applies SetReadOnly(true) and then lags; the leader leaves read-only mode and registers curator 1;
   replica 1 installs the leader's snapshot (with restore_merge ReadOnly=false is not transmitted, so it stays
   read-only), rejects the next registration (curator 2) which the leader applies; replica 1 takes over, read-only
   mode is switched off there, and the next registration returns 2 again. *)
Definition f7_trace : list event :=
  [EvCmd (CSetRO true); EvCatchup 1 1; EvCmd (CSetRO false); EvCmd CRegCur; EvInstall 1;
   EvCmd CRegCur; EvLeader 1; EvCmd (CSetRO false); EvCmd CRegCur].

Lemma f7_dup_curator_id : h_cids (run_merge f7_trace) = [1; 2; 2] /\ h_cids (run f7_trace) = [1; 2; 3].
Proof. vm_compute. split; reflexivity. Qed.

Definition f7_trace_part : list event :=
  [EvCmd CRegCur; EvCmd CRegCur; EvCmd (CSetRO true); EvCatchup 1 3; EvCmd (CSetRO false); EvInstall 1;
   EvCmd (CNewPart 1); EvLeader 1; EvCmd (CSetRO false); EvCmd (CNewPart 2)].

Lemma f7_partition_reassigned :
  h_parts (run_merge f7_trace_part) = [(1, 1); (1, 2)] /\ m_lookup (leader_st (run_merge f7_trace_part)) 1 = ROk 2 /\
  h_parts (run f7_trace_part) = [(1, 1); (2, 2)].
Proof. vm_compute. repeat split; reflexivity. Qed.

Lemma ids_unique_merge_refuted_lemma :
  exists evs, bounded evs /\ ~ NoDup (h_cids (run_merge evs)).
Proof.
  exists f7_trace. split; [unfold bounded; simpl; lia|]. destruct f7_dup_curator_id as [-> _].
  intros H. inversion H as [|? ? _ H2]; subst. inversion H2 as [|? ? H3 _]; subst. apply H3. left; auto.
Qed.

Lemma ownership_merge_refuted_lemma :
  exists evs evs' p c, bounded (evs ++ evs') /\ In (p, c) (h_parts (run_merge evs)) /\
                       m_lookup (leader_st (run_merge (evs ++ evs'))) p <> ROk c.
Proof.
  exists (firstn 7 f7_trace_part), (skipn 7 f7_trace_part), 1, 1.
  split; [unfold bounded; simpl; lia|]. split; [vm_compute; auto|].
  vm_compute. discriminate.
Qed.
