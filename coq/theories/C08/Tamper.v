(* C08/Tamper.v — the model's TamperXor op is a single burst: tamper_xor_is_burst. *)
From Coq Require Import List NArith ZArith Bool Lia ZifyN ZifyNat ZifyBool.
From BLB Require Import Lib.CRC Lib.CRCFast Lib.CRCProofs Gen.Consts C08.CRCTab C08.Model C08.Proofs C08.Proofs2 C08.Refine C08.Refine2.
Import ListNotations.
Open Scope N_scope.

(* ---------- xor_bytes at the bit level ---------- *)
Fixpoint vbits (v : N) (n : nat) : list bool :=
  match n with
  | O => []
  | S m => byte_bits (N.land v 255) ++ vbits (N.shiftr v 8) m
  end.

Lemma vbits_length v n : length (vbits v n) = (8 * n)%nat.
Proof. revert v. induction n as [|n IH]; intros v; [reflexivity|]. cbn [vbits]. rewrite app_length, IH, byte_bits_length. lia. Qed.

Lemma byte_bits_lxor a b : byte_bits (N.lxor a b) = xorl (byte_bits a) (byte_bits b).
Proof. unfold byte_bits. cbn [map xorl]. rewrite !N.lxor_spec. reflexivity. Qed.

Lemma xor_bytes_app : forall n W Z v, length W = n -> xor_bytes (W ++ Z) v n = xor_bytes W v n ++ Z.
Proof.
  induction n as [|n IH]; intros W Z v H.
  - destruct W; [|discriminate]. cbn. destruct Z; reflexivity.
  - destruct W as [|x W]; [discriminate|]. cbn [app xor_bytes]. f_equal. apply IH. cbn in H. lia.
Qed.

Lemma xor_bytes_bits : forall n W v, length W = n ->
  bits_of (xor_bytes W v n) = xorl (bits_of W) (vbits v n).
Proof.
  induction n as [|n IH]; intros W v H.
  - destruct W; [|discriminate]. reflexivity.
  - destruct W as [|x W]; [discriminate|]. cbn [xor_bytes vbits]. rewrite !bits_of_cons.
    rewrite xorl_app by reflexivity. rewrite byte_bits_lxor. f_equal. apply IH. cbn in H. lia.
Qed.

Lemma xor_bytes_len : forall n W v, length (xor_bytes W v n) = length W.
Proof.
  induction n as [|n IH]; intros W v; [destruct W; reflexivity|].
  destruct W as [|x W]; [reflexivity|]. cbn [xor_bytes length]. now rewrite IH.
Qed.

Lemma xor_bytes_lt : forall n W v, Forall (fun x => x < 256) W -> Forall (fun x => x < 256) (xor_bytes W v n).
Proof.
  induction n as [|n IH]; intros W v H; [destruct W; exact H|].
  destruct W as [|x W]; [exact H|]. cbn [xor_bytes]. inversion H; subst. constructor.
  - change 256 with (2 ^ 8). apply lxor_lt_pow2; [assumption|]. apply land_255_lt.
  - apply IH. assumption.
Qed.

Definition tb (v : N) (i : nat) : bool := N.testbit v (N.of_nat i).

Lemma seq_add k : forall n a, seq (a + k) n = map (fun i => (i + k)%nat) (seq a n).
Proof.
  induction n as [|n IH]; intros a; [reflexivity|]. cbn [seq map]. f_equal. apply (IH (S a)).
Qed.

Lemma vbits_testbit : forall n v, vbits v n = map (tb v) (seq 0 (8 * n)).
Proof.
  induction n as [|n IH]; intros v; [reflexivity|].
  cbn [vbits]. rewrite byte_bits_land, IH.
  replace (8 * S n)%nat with (8 + 8 * n)%nat by lia. rewrite seq_app, map_app. f_equal; try reflexivity.
  rewrite (seq_add 8 (8 * n) 0), map_map. apply map_ext. intros i. unfold tb.
  rewrite N.shiftr_spec'. f_equal. lia.
Qed.

Lemma map_all_false {A} (f : A -> bool) l : (forall x, In x l -> f x = false) -> map f l = repeat false (length l).
Proof.
  induction l as [|x l IH]; intros H; [reflexivity|]. cbn. rewrite H by (left; reflexivity). f_equal.
  apply IH. intros y Hy. apply H. right. exact Hy.
Qed.

Lemma shifted_bits pat s :
  pat < 2 ^ 32 -> (s <= 8)%nat ->
  map (tb (N.shiftl pat (N.of_nat s))) (seq 0 40) =
    repeat false s ++ map (tb pat) (seq 0 32) ++ repeat false (8 - s).
Proof.
  intros Hp Hs.
  replace 40%nat with (s + (32 + (8 - s)))%nat by lia.
  rewrite seq_app, map_app, seq_app, map_app. cbn [plus]. f_equal; [|f_equal].
  - rewrite map_all_false; [now rewrite seq_length|].
    intros i Hi. apply in_seq in Hi. unfold tb. apply N.shiftl_spec_low. lia.
  - change (seq s 32) with (seq (0 + s) 32). rewrite (seq_add s 32 0), map_map. apply map_ext. intros i. unfold tb.
    replace (N.of_nat (i + s)) with (N.of_nat i + N.of_nat s) by lia. apply N.shiftl_spec_alt.
  - rewrite map_all_false; [now rewrite seq_length|].
    intros i Hi. apply in_seq in Hi. unfold tb. rewrite N.shiftl_spec_high by lia.
    apply (proj1 (lt_pow2_bits pat 32) Hp). lia.
Qed.

Lemma pat_bits_nonzero pat : 0 < pat -> pat < 2 ^ 32 -> existsb id (map (tb pat) (seq 0 32)) = true.
Proof.
  intros H0 Hp. destruct (existsb id (map (tb pat) (seq 0 32))) eqn:He; [reflexivity|exfalso].
  assert (Hall : forall i, (i < 32)%nat -> tb pat i = false).
  { intros i Hi. rewrite <- not_true_iff_false in He. destruct (tb pat i) eqn:Hb; [|reflexivity].
    exfalso. apply He. apply existsb_exists. exists true. split; [|reflexivity].
    apply in_map_iff. exists i. split; [exact Hb|]. apply in_seq. lia. }
  assert (pat = 0).
  { apply N.bits_inj_0. intros n. destruct (N.lt_ge_cases n 32) as [Hn|Hn].
    - specialize (Hall (N.to_nat n) ltac:(lia)). unfold tb in Hall. now rewrite N2Nat.id in Hall.
    - apply (proj1 (lt_pow2_bits pat 32) Hp). exact Hn. }
  lia.
Qed.

(* ---------- a change confined to a window inside one block ---------- *)
Lemma Forall_take {A} (P : A -> Prop) (l : list A) : forall n, Forall P l -> Forall P (take n l).
Proof.
  induction l as [|x l IH]; intros n H; cbn [take]; [constructor|].
  destruct (n =? 0); [constructor|]. inversion H; subst. constructor; [assumption|]. apply IH. assumption.
Qed.

Lemma window_chunk (A M Z : list byte) k :
  BL * k <= lenN A -> lenN A + lenN M <= BL * k + BL ->
  chunk_of (A ++ M ++ Z) k = drop (BL * k) A ++ M ++ take (BL - (lenN A - BL * k) - lenN M) Z.
Proof.
  intros H1 H2. unfold chunk_of, raw_read. replace (HL + BL * k) with (BL * k) by arith.
  rewrite drop_app_le by lia.
  rewrite take_app_ge by (rewrite lenN_drop; lia). rewrite lenN_drop. f_equal.
  rewrite take_app_ge by lia. reflexivity.
Qed.

Lemma window_other (A M M' Z : list byte) k j :
  j <> k -> lenN M = lenN M' -> BL * k <= lenN A -> lenN A + lenN M <= BL * k + BL ->
  chunk_of (A ++ M ++ Z) j = chunk_of (A ++ M' ++ Z) j.
Proof.
  intros Hj Hm H1 H2. unfold chunk_of, raw_read. replace (HL + BL * j) with (BL * j) by arith.
  destruct (N.lt_trichotomy j k) as [Hlt|[Heq|Hgt2]]; [|contradiction|].
    + assert (BL * j + BL <= lenN A) by (consts; nia).
      rewrite !drop_app_le by lia. rewrite !take_app_le by (rewrite lenN_drop; lia). reflexivity.
    + assert (lenN A + lenN M <= BL * j) by (consts; nia).
      rewrite !(app_assoc A). rewrite !drop_app_ge by (rewrite lenN_app; lia).
      rewrite !lenN_app, Hm. reflexivity.
Qed.

(* ---------- TamperXor is a single burst ---------- *)
(* Scope: the 5 bytes starting at byte bit/8 (the bytes a 32-bit pattern shifted by bit mod 8 can reach) lie
   inside the stored bytes of block k. *)
Lemma tamper_xor_is_burst r bit pat k :
  Forall (fun x => x < 256) r -> 0 < pat -> pat < 2 ^ 32 ->
  BL * k <= bit / 8 -> bit / 8 + 5 <= BL * k + lenN (chunk_of r k) ->
  burst_in_block r (tamper_xor r bit pat) k.
Proof.
  intros HF Hp0 Hp Hlo Hhi.
  set (bo := bit / 8) in *.
  assert (Hs : bit mod 8 < 8) by (apply N.mod_lt; lia).
  set (s := N.to_nat (bit mod 8)).
  set (v := N.shiftl pat (bit mod 8)).
  assert (Hcl : lenN (chunk_of r k) = N.min BL (lenN r - (HL + BL * k))).
  { unfold chunk_of, raw_read. now rewrite lenN_take, lenN_drop. }
  assert (Hr5 : bo + 5 <= lenN r) by arith.
  assert (Hb5 : bo + 5 <= BL * k + BL) by lia.
  set (A := take bo r). set (W := take 5 (drop bo r)). set (Z := drop (bo + 5) r).
  assert (HA : lenN A = bo) by (unfold A; rewrite lenN_take; lia).
  assert (HW : lenN W = 5) by (unfold W; rewrite lenN_take, lenN_drop; lia).
  assert (HWn : length W = 5%nat) by (rewrite lenN_length in HW; lia).
  assert (Hr : r = A ++ W ++ Z).
  { unfold A, W, Z. rewrite <- drop_drop. rewrite take_drop, take_drop. reflexivity. }
  set (W' := xor_bytes W v 5).
  assert (Ht : tamper_xor r bit pat = A ++ W' ++ Z).
  { unfold tamper_xor. cbv zeta. fold bo. fold v. fold A. f_equal.
    assert (Hd : @drop byte bo r = W ++ Z) by (unfold W, Z; rewrite <- drop_drop; symmetry; apply take_drop).
    rewrite Hd. unfold W'. apply xor_bytes_app. exact HWn. }
  assert (HW'n : length W' = 5%nat) by (unfold W'; rewrite xor_bytes_len; exact HWn).
  assert (HW' : lenN W' = 5) by (rewrite lenN_length; lia).
  rewrite Ht. split; [|split].
  - intros j Hj. rewrite Hr at 1. apply (window_other A W' W Z k j); unfold byte in *; try assumption; lia.
  - rewrite Hr at 1. rewrite !window_chunk by (unfold byte in *; lia). unfold byte in *. rewrite HW'.  rewrite HW.
    set (P := drop (BL * k) A). set (S0 := take (BL - (lenN A - BL * k) - 5) Z).
    rewrite !bits_of_app.
    exists (repeat false (length (bits_of P)) ++ vbits v 5 ++ repeat false (length (bits_of S0))).
    split; [|split].
    + (* it is one burst of <= 32 bits *)
      rewrite vbits_testbit. change (8 * 5)%nat with 40%nat. unfold v. replace (bit mod 8) with (N.of_nat s) by (unfold s; lia).
      rewrite (shifted_bits pat s Hp) by (unfold s; lia).
      exists (length (bits_of P) + s)%nat, (map (tb pat) (seq 0 32)), (8 - s + length (bits_of S0))%nat.
      split; [rewrite map_length, seq_length; lia|]. split; [apply pat_bits_nonzero; assumption|].
      rewrite !repeat_app, <- !app_assoc. reflexivity.
    + rewrite !app_length, !repeat_length, vbits_length, !bits_of_length. unfold byte in *. lia.
    + rewrite xorl_app by (now rewrite repeat_length). rewrite xorl_false_r. f_equal.
      rewrite xorl_app by (rewrite vbits_length, bits_of_length; unfold byte in *; lia). rewrite xorl_false_r. f_equal.
      unfold W'. apply xor_bytes_bits. exact HWn.
  - unfold chunk_of, raw_read. apply Forall_take, Forall_drop.
    rewrite Hr in HF. apply Forall_app in HF. destruct HF as [HFA HF]. apply Forall_app in HF. destruct HF as [HFW HFZ].
    apply Forall_app. split; [exact HFA|]. apply Forall_app. split; [|exact HFZ].
    unfold W'. apply xor_bytes_lt. exact HFW.
Qed.

(* non-vacuity of the scope: the example file and bit position of Proofs.v satisfy the hypotheses *)
Example tamper_xor_is_burst_example : burst_in_block ex_r (tamper_xor ex_r 9 1) 0.
Proof.
  apply tamper_xor_is_burst.
  - vm_compute. repeat constructor.
  - lia.
  - reflexivity.
  - vm_compute. discriminate.
  - vm_compute. discriminate.
Qed.

(* the burst theorem instantiated with the model's own tamper op (the op the harness applies to the real file) *)
Lemma tamper_xor_detected_lemma :
  forall r bit pat k,
    Inv_raw r -> Forall (fun x => x < 256) r -> 0 < pat -> pat < 2 ^ 32 ->
    BL * k <= bit / 8 -> bit / 8 + 5 <= BL * k + lenN (chunk_of r k) ->
    let r' := tamper_xor r bit pat in
    (forall off len cap, touches k off len ->
        read_at r' off len cap = (take (k * DL - off) (drop off (abs r)), E_CORRUPT)) /\
    (forall off len cap, ~ touches k off len -> read_at r' off len cap = read_at r off len cap) /\
    snd (scrub r') = E_CORRUPT.
Proof.
  intros r bit pat k Hinv HF Hp0 Hp Hlo Hhi r'.
  assert (Hk : HL + BL * k < lenN r).
  { assert (0 < lenN (chunk_of r k)) by lia. apply chunk_exists_len. assumption. }
  pose proof (tamper_xor_is_burst r bit pat k HF Hp0 Hp Hlo Hhi) as Hb.
  destruct (C08.Refine2.detects_burst_abs_lemma r r' k Hinv Hk Hb) as (H1 & H2 & H3).
  split; [|split; assumption]. intros off len cap Ht. apply (H1 off len cap Ht).
Qed.
